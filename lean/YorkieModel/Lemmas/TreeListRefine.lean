/- pkg/treelist refines the list specification: operation alphabet as used by
crdt/rga_tree_list.go, one-step refinement, preservation of the invariant. -/
import YorkieModel.Lemmas.TreeListDelete
namespace Yorkie.TreeList
open Yorkie.RB Yorkie.RB.T

/-! ### payload changes do not touch shape and colours -/

/-- shape and colours only -/
def shape : T → RB.T Unit
  | nil => nil
  | node l _ c r => node (shape l) () c (shape r)

theorem RBInv_of_shape {s t : T} (h : shape s = shape t) : RBInv s ↔ RBInv t := by
  have key : ∀ (s t : T), shape s = shape t →
      (LL s ↔ LL t) ∧ (Bal s ↔ Bal t) ∧ bhOf s = bhOf t ∧ s.isRed = t.isRed := by
    intro s
    induction s with
    | nil => intro t h; cases t <;> simp_all [shape]
    | node l a c r ihl ihr =>
      intro t h
      cases t with
      | nil => simp [shape] at h
      | node l' a' c' r' =>
        simp only [shape, node.injEq, true_and] at h
        obtain ⟨h1, h2, h3⟩ := h
        obtain ⟨a1, a2, a3, a4⟩ := ihl l' h1
        obtain ⟨b1, b2, b3, b4⟩ := ihr r' h3
        subst h2
        simp [a1, a2, a3, a4, b1, b2, b3, b4]
  obtain ⟨k1, k2, -, k4⟩ := key s t h
  simp [RBInv, k1, k2, k4]

@[simp] theorem shape_mark (x : Nat) (b : Bool) (t : T) : shape (mark x b t) = shape t := by
  induction t with
  | nil => rfl
  | node l a c r ihl ihr => simp [mark, shape, ihl, ihr]

theorem shape_updateWeightGo {x : Nat} {t t' : T} (h : updateWeightGo x t = some t') : shape t' = shape t := by
  induction t generalizing t' with
  | nil => simp [updateWeightGo] at h
  | node l a c r ihl ihr =>
    simp only [updateWeightGo] at h
    split at h
    · injection h with h; subst h; rfl
    · split at h
      · next l' hl => injection h with h; subst h; simp [shape, ihl hl]
      · split at h
        · next r' hr => injection h with h; subst h; simp [shape, ihr hr]
        · cases h

theorem shape_setRemoved (x : Nat) (b : Bool) (t : T) : shape (setRemoved x b t) = shape t := by
  simp only [setRemoved, updateWeight]
  cases h : updateWeightGo x (mark x b t) with
  | none => simp
  | some t' => simp [shape_updateWeightGo h]

/-! ### operations, outputs, one step -/

inductive Op where
  | insertAfter (prev id : Nat) (rm : Bool)   -- `InsertAfter(prev, NewNode(v))`, `v.IsRemoved() = rm`
  | delete (x : Nat)                          -- `Delete(x)` (purge of a position node)
  | find (i : Nat)                            -- `Find(i)`
  | setRemoved (x : Nat) (b : Bool)           -- the value toggles `IsRemoved()`, then `UpdateWeight(x)`
  | len
deriving Repr, DecidableEq

inductive Out where
  | unit
  | find (r : FindRes)
  | len (n : Nat)
deriving Repr, DecidableEq

def step (t : T) : Op → T × Out
  | .insertAfter prev id rm => (insertAfter prev id rm t, .unit)
  | .delete x => (delete x t, .unit)
  | .find i => (t, .find (find t i))
  | .setRemoved x b => (setRemoved x b t, .unit)
  | .len => (t, .len (len t))

namespace Spec

def step (l : L) : Op → L × Out
  | .insertAfter prev id rm => (insertAfter prev (id, rm) l, .unit)
  | .delete x => (delete x l, .unit)
  | .find i => (l, .find (findRes l i))
  | .setRemoved x b => (setRm x b l, .unit)
  | .len => (l, .len (live l))

/-- pointer preconditions of the Go calls -/
def valid (l : L) : Op → Prop
  | .insertAfter prev id _ => prev ∈ ids l ∧ id ∉ ids l
  | .delete x => x ∈ ids l
  | _ => True

instance (l : L) (op : Op) : Decidable (valid l op) := by
  cases op <;> simp only [valid] <;> infer_instance

theorem mem_ids_insertAfter {prev : Nat} {e : Nat × Bool} {l : L} {y : Nat}
    (h : y ∈ ids (insertAfter prev e l)) : y = e.1 ∨ y ∈ ids l := by
  induction l with
  | nil => simp [insertAfter, ids] at h
  | cons a l ih =>
    simp only [insertAfter] at h
    split at h
    · simp only [ids, List.map_cons, List.mem_cons] at h ⊢
      rcases h with h | h | h
      · exact .inr (.inl h)
      · exact .inl h
      · exact .inr (.inr h)
    · simp only [ids, List.map_cons, List.mem_cons] at h ⊢
      rcases h with h | h
      · exact .inr (.inl h)
      · rcases ih h with h | h
        · exact .inl h
        · exact .inr (.inr h)

theorem nodup_insertAfter {prev : Nat} {e : Nat × Bool} {l : L} (hn : (ids l).Nodup) (he : e.1 ∉ ids l) :
    (ids (insertAfter prev e l)).Nodup := by
  induction l with
  | nil => simp [insertAfter, ids]
  | cons a l ih =>
    simp only [ids, List.map_cons, List.nodup_cons, List.mem_cons, not_or] at hn he
    simp only [insertAfter]
    split
    · simp only [ids, List.map_cons, List.nodup_cons, List.mem_cons, not_or]
      exact ⟨⟨fun h => he.1 h.symm, hn.1⟩, he.2, hn.2⟩
    · simp only [ids, List.map_cons, List.nodup_cons]
      refine ⟨fun hm => ?_, ih hn.2 he.2⟩
      rcases mem_ids_insertAfter hm with h | h
      · exact he.1 h.symm
      · exact hn.1 h

theorem mem_ids_delete {x : Nat} {l : L} {y : Nat} (h : y ∈ ids (delete x l)) : y ∈ ids l := by
  induction l with
  | nil => simp [delete, ids] at h
  | cons a l ih =>
    simp only [delete] at h
    split at h
    · simp only [ids, List.map_cons, List.mem_cons]; exact .inr h
    · simp only [ids, List.map_cons, List.mem_cons] at h ⊢
      rcases h with h | h
      · exact .inl h
      · exact .inr (ih h)

theorem nodup_delete {x : Nat} {l : L} (hn : (ids l).Nodup) : (ids (delete x l)).Nodup := by
  induction l with
  | nil => simp [delete, ids]
  | cons a l ih =>
    simp only [ids, List.map_cons, List.nodup_cons] at hn
    simp only [delete]
    split
    · exact hn.2
    · simp only [ids, List.map_cons, List.nodup_cons]
      exact ⟨fun hm => hn.1 (mem_ids_delete hm), ih hn.2⟩

end Spec

theorem step_refines {t : T} {op : Op} (hi : Inv t) (hv : Spec.valid (toList t) op) :
    toList (step t op).1 = (Spec.step (toList t) op).1 ∧ (step t op).2 = (Spec.step (toList t) op).2 ∧
    Inv (step t op).1 := by
  obtain ⟨hw, hn, hrb⟩ := hi
  have hids : Spec.ids (toList t) = ids t := (ids_eq t).symm
  have nodup_of : ∀ {t' : T} {l : Spec.L}, toList t' = l → (Spec.ids l).Nodup → (ids t').Nodup := by
    intro t' l h1 h2; rw [ids_eq, h1]; exact h2
  cases op with
  | insertAfter prev id rm =>
    obtain ⟨h1, h2⟩ := insertAfter_spec (id := id) (rm := rm) hw hn (by rw [← hids]; exact hv.1)
    refine ⟨h1, rfl, h2, nodup_of h1 (Spec.nodup_insertAfter (by rw [hids]; exact hn) hv.2), ?_⟩
    show RBInv (insertAfter prev id rm t)
    simp only [insertAfter]
    split
    · exact hrb
    · exact insert_good _ _ _ hrb.1 hrb.2.1
  | delete x =>
    obtain ⟨h1, h2, h3⟩ := delete_spec ⟨hw, hn, hrb⟩ (by rw [← hids]; exact hv)
    exact ⟨h1, rfl, h2, nodup_of h1 (Spec.nodup_delete (by rw [hids]; exact hn)), h3⟩
  | find i =>
    refine ⟨rfl, ?_, hw, hn, hrb⟩
    simp only [step, Spec.step, find_spec hw]
  | setRemoved x b =>
    obtain ⟨h1, h2, h3⟩ := setRemoved_spec (x := x) (b := b) hw hn
    exact ⟨h2, rfl, h1, by show (ids (setRemoved x b t)).Nodup; rw [h3]; exact hn,
      (RBInv_of_shape (shape_setRemoved x b t)).2 hrb⟩
  | len =>
    exact ⟨rfl, by simp only [step, Spec.step, len, weight_eq_live hw], hw, hn, hrb⟩

/-! ### sequences -/

def run (t : T) : List Op → T × List Out
  | [] => (t, [])
  | op :: ops => let r := step t op; let rs := run r.1 ops; (rs.1, r.2 :: rs.2)

namespace Spec

def run (l : L) : List Op → L × List Out
  | [] => (l, [])
  | op :: ops => let r := step l op; let rs := run r.1 ops; (rs.1, r.2 :: rs.2)

def validSeq (l : L) : List Op → Prop
  | [] => True
  | op :: ops => valid l op ∧ validSeq (step l op).1 ops

instance decValidSeq : (l : L) → (ops : List Op) → Decidable (validSeq l ops)
  | _, [] => isTrue trivial
  | l, op :: ops =>
    have := decValidSeq (step l op).1 ops
    inferInstanceAs (Decidable (valid l op ∧ validSeq (step l op).1 ops))

end Spec

theorem inv_newTree (id : Nat) (rm : Bool) : Inv (newTree id rm) := by
  refine ⟨?_, ?_, ?_⟩
  · simp [newTree, newNode]
  · simp [newTree, ids, T.toList]
  · simp [RBInv, newTree]

end Yorkie.TreeList
