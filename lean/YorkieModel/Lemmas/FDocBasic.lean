/- Association-list and heap lemmas for Model/FDoc.lean (core Lean only). -/
import YorkieModel.Model.FDoc
namespace Yorkie.FDoc
open Yorkie

section AL
variable {α β : Type} [DecidableEq α]

theorem alGet_alSet_same (l : List (α × β)) (a : α) (b : β) : alGet (alSet l a b) a = some b := by
  induction l with
  | nil => simp [alSet, alGet]
  | cons p r ih =>
    obtain ⟨k, v⟩ := p
    by_cases h : k = a
    · simp [alSet, alGet, h]
    · simp [alSet, alGet, h, ih]

theorem alGet_alSet_other (l : List (α × β)) (a a' : α) (b : β) (h : a' ≠ a) :
    alGet (alSet l a b) a' = alGet l a' := by
  induction l with
  | nil => simp [alSet, alGet, Ne.symm h]
  | cons p r ih =>
    obtain ⟨k, v⟩ := p
    by_cases hk : k = a
    · subst hk
      simp [alSet, alGet, Ne.symm h]
    · by_cases hk' : k = a'
      · subst hk'
        simp [alSet, alGet, h]
      · simp [alSet, alGet, hk, hk', ih]

theorem alGet_filter_key (l : List (α × β)) (q : α → Bool) (a : α) :
    alGet (List.filter (fun p => q p.1) l) a = if q a then alGet l a else none := by
  induction l with
  | nil => simp [alGet]
  | cons p r ih =>
    obtain ⟨k, v⟩ := p
    by_cases hq : q k
    · by_cases hk : k = a
      · subst hk; simp [List.filter, hq, alGet]
      · simp [List.filter, hq, alGet, hk, ih]
    · by_cases hk : k = a
      · subst hk; simp [List.filter, hq, alGet, ih]
      · simp [List.filter, hq, alGet, hk, ih]

theorem alGet_alErase_same (l : List (α × β)) (a : α) : alGet (alErase l a) a = none := by
  have := alGet_filter_key l (fun k => !decide (k = a)) a
  simpa [alErase] using this

theorem alGet_alErase_other (l : List (α × β)) (a a' : α) (h : a' ≠ a) :
    alGet (alErase l a) a' = alGet l a' := by
  have := alGet_filter_key l (fun k => !decide (k = a)) a'
  simpa [alErase, h] using this

theorem alGet_some_mem {l : List (α × β)} {a : α} {b : β} (h : alGet l a = some b) : (a, b) ∈ l := by
  induction l with
  | nil => simp [alGet] at h
  | cons p r ih =>
    obtain ⟨k, v⟩ := p
    by_cases hk : k = a
    · subst hk; simp [alGet] at h; subst h; simp
    · simp [alGet, hk] at h; exact List.mem_cons_of_mem _ (ih h)

theorem alGet_some_mem_keys {l : List (α × β)} {a : α} {b : β} (h : alGet l a = some b) : a ∈ l.map (·.1) :=
  List.mem_map.mpr ⟨(a, b), alGet_some_mem h, rfl⟩

theorem alGet_none_of_not_mem_keys {l : List (α × β)} {a : α} (h : a ∉ l.map (·.1)) : alGet l a = none := by
  cases hg : alGet l a with
  | none => rfl
  | some b => exact absurd (alGet_some_mem_keys hg) h

theorem mem_keys_alGet {l : List (α × β)} {a : α} (h : a ∈ l.map (·.1)) : ∃ b, alGet l a = some b := by
  induction l with
  | nil => simp at h
  | cons p r ih =>
    obtain ⟨k, v⟩ := p
    by_cases hk : k = a
    · exact ⟨v, by simp [alGet, hk]⟩
    · have : a ∈ r.map (·.1) := by
        simp only [List.map_cons, List.mem_cons] at h
        rcases h with h | h
        · exact absurd h.symm hk
        · exact h
      obtain ⟨b, hb⟩ := ih this
      exact ⟨b, by simp [alGet, hk, hb]⟩

theorem mem_alSet {l : List (α × β)} {a : α} {b : β} {p : α × β} (h : p ∈ alSet l a b) : p = (a, b) ∨ p ∈ l := by
  induction l with
  | nil => simp [alSet] at h; exact Or.inl h
  | cons q r ih =>
    obtain ⟨k, v⟩ := q
    by_cases hk : k = a
    · simp [alSet, hk] at h
      rcases h with h | h
      · exact Or.inl h
      · exact Or.inr (List.mem_cons_of_mem _ h)
    · simp [alSet, hk] at h
      rcases h with h | h
      · exact Or.inr (by rw [h]; exact List.mem_cons_self ..)
      · rcases ih h with h | h
        · exact Or.inl h
        · exact Or.inr (List.mem_cons_of_mem _ h)

theorem keys_alSet_subset {l : List (α × β)} {a : α} {b : β} {x : α} (h : x ∈ (alSet l a b).map (·.1)) :
    x = a ∨ x ∈ l.map (·.1) := by
  obtain ⟨p, hp, rfl⟩ := List.mem_map.mp h
  rcases mem_alSet hp with h | h
  · exact Or.inl (by rw [h])
  · exact Or.inr (List.mem_map.mpr ⟨p, h, rfl⟩)

theorem keys_subset_alSet {l : List (α × β)} {a : α} {b : β} {x : α} (h : x ∈ l.map (·.1)) :
    x ∈ (alSet l a b).map (·.1) := by
  by_cases hx : x = a
  · subst hx; exact alGet_some_mem_keys (alGet_alSet_same l x b)
  · obtain ⟨v, hv⟩ := mem_keys_alGet h
    exact alGet_some_mem_keys (b := v) (by rw [alGet_alSet_other _ _ _ _ hx]; exact hv)

theorem mem_alSet_self (l : List (α × β)) (a : α) (b : β) : a ∈ (alSet l a b).map (·.1) :=
  alGet_some_mem_keys (alGet_alSet_same l a b)

theorem nodup_keys_alSet {l : List (α × β)} (a : α) (b : β) (h : (l.map (·.1)).Nodup) :
    ((alSet l a b).map (·.1)).Nodup := by
  induction l with
  | nil => simp [alSet]
  | cons q r ih =>
    obtain ⟨k, v⟩ := q
    simp only [List.map_cons, List.nodup_cons] at h
    by_cases hk : k = a
    · subst hk
      simp only [alSet, if_true, List.map_cons, List.nodup_cons]
      exact h
    · simp only [alSet, hk, if_false, List.map_cons, List.nodup_cons]
      refine ⟨?_, ih h.2⟩
      intro hm
      rcases keys_alSet_subset hm with e | e
      · exact hk e
      · exact h.1 e

theorem nodup_mem_alGet {l : List (α × β)} (h : (l.map (·.1)).Nodup) {a : α} {b : β} (hm : (a, b) ∈ l) :
    alGet l a = some b := by
  induction l with
  | nil => simp at hm
  | cons q r ih =>
    obtain ⟨k, v⟩ := q
    simp only [List.map_cons, List.nodup_cons] at h
    simp only [List.mem_cons] at hm
    rcases hm with hm | hm
    · injection hm with h1 h2; subst h1; subst h2; simp [alGet]
    · have hk : k ≠ a := by
        intro e; subst e
        exact h.1 (List.mem_map.mpr ⟨(k, b), hm, rfl⟩)
      simp [alGet, hk, ih h.2 hm]

theorem mem_alErase {l : List (α × β)} {a : α} {p : α × β} (h : p ∈ alErase l a) : p ∈ l ∧ p.1 ≠ a := by
  simp [alErase] at h
  exact h

theorem nodup_keys_alErase {l : List (α × β)} (a : α) (h : (l.map (·.1)).Nodup) :
    ((alErase l a).map (·.1)).Nodup := by
  unfold alErase
  exact List.Nodup.sublist (List.Sublist.map _ (List.filter_sublist ..)) h

end AL

/-! ### heap -/

theorem get_put_same (r : Root) (t : Ticket) (e : Elem) : (r.put t e).get t = some e := by
  simp [Root.get, Root.put, alGet_alSet_same]

theorem get_put_other (r : Root) (t t' : Ticket) (e : Elem) (h : t' ≠ t) : (r.put t e).get t' = r.get t' := by
  simp [Root.get, Root.put, alGet_alSet_other _ _ _ _ h]

theorem get_put (r : Root) (t t' : Ticket) (e : Elem) :
    (r.put t e).get t' = if t' = t then some e else r.get t' := by
  by_cases h : t' = t
  · subst h; simp [get_put_same]
  · simp [h, get_put_other _ _ _ _ h]

theorem get_eraseAll (r : Root) (S : List Ticket) (t : Ticket) :
    (eraseAll r S).get t = if S.contains t then none else r.get t := by
  have := alGet_filter_key r.elems (fun k => !(S.contains k)) t
  simp only [Root.get, eraseAll]
  rw [this]
  cases S.contains t <;> simp

theorem get_eraseAll_mem (r : Root) (S : List Ticket) (t : Ticket) :
    (eraseAll r S).get t = if t ∈ S then none else r.get t := by
  rw [get_eraseAll]
  by_cases h : t ∈ S
  · simp [h]
  · simp [h]

@[simp] theorem put_gcElems (r : Root) (t : Ticket) (e : Elem) : (r.put t e).gcElems = r.gcElems := rfl
@[simp] theorem put_gcNodes (r : Root) (t : Ticket) (e : Elem) : (r.put t e).gcNodes = r.gcNodes := rfl

end Yorkie.FDoc
