/-
Helper lemmas for C04 `per_actor_clientSeq_ordered`: per (actor, attachment generation) the client
sequences stored in a log are 1, 2, …, k in log order (DESIGN F.1, I1/I2).
-/
import YorkieModel.Lemmas.ServerGen
namespace Yorkie.Server
open Yorkie

/-! ### sequences -/

/-- `validateClientSeqContinuity` makes the pushable suffix consecutive -/
theorem pushable_consecutive (n : Nat) (e : Nat) (l : List ChangeReq) (he : n < e)
    (h : seqsContinuous n e l = true) :
    (l.filter (isPushable n)).map (·.clientSeq) = List.range' e (l.filter (isPushable n)).length := by
  induction l generalizing e with
  | nil => simp
  | cons c r ih =>
    simp only [seqsContinuous] at h
    by_cases hc : c.clientSeq ≤ n
    · rw [if_pos hc] at h
      have : isPushable n c = false := by simp [isPushable]; omega
      simp only [List.filter_cons, this, Bool.false_eq_true, if_false]
      exact ih e he h
    · rw [if_neg hc] at h
      by_cases hce : c.clientSeq ≠ e
      · rw [if_pos hce] at h; simp at h
      · rw [if_neg hce] at h
        have hce' : c.clientSeq = e := by simpa using hce
        have : isPushable n c = true := by simp [isPushable]; omega
        simp only [List.filter_cons, this, if_true, List.map_cons, List.length_cons, List.range'_succ]
        rw [hce', ih (e + 1) (by omega) h]

/-- consecutive pushables forward the checkpoint's client sequence by their number -/
theorem assignSeqs_cp_exact (gen : Nat) (head : Int) (cp : Checkpoint) (p : List ChangeReq)
    (h : p.map (·.clientSeq) = List.range' (cp.clientSeq + 1) p.length) :
    (assignSeqs gen head cp p).2.2.clientSeq = cp.clientSeq + p.length := by
  induction p generalizing head cp with
  | nil => simp [assignSeqs]
  | cons c r ih =>
    simp only [List.map_cons, List.length_cons, List.range'_succ, List.cons.injEq] at h
    simp only [assignSeqs]
    have hcs : ((cp.nextServerSeq (head + 1)).syncClientSeq c.clientSeq).clientSeq = cp.clientSeq + 1 := by
      rw [syncClientSeq_clientSeq, nextServerSeq_clientSeq, h.1]; omega
    rw [ih (head + 1) _ (by rw [hcs]; exact h.2), hcs]
    simp only [List.length_cons]; omega

/-! ### the invariant -/

/-- presence option of a document; an absent document counts as presence-enabled (its log is empty) -/
def dpOf (s : Server) (d : DocId) : Bool :=
  match s.findDoc d with
  | some doc => doc.disablePresence
  | none => false

def byGen (c : ClientId) (g : Nat) (r : Row) : Bool := r.actor == c && r.gen == g

/-- the rows of actor `c` written by its attachment generation `g` to document `d`, in log order -/
def ownRows (s : Server) (d : DocId) (c : ClientId) (g : Nat) : List Row := (storedLog s d).filter (byGen c g)

def csOf (l : List Row) : List Nat := l.map (·.clientSeq)

structure SInv (s : Server) : Prop where
  /-- per actor and generation: client sequences 1..k, in log order -/
  runs : ∀ c d g, dpOf s d = false → ∃ k, csOf (ownRows s d c g) = List.range' 1 k
  /-- … and for the current generation of an open attachment `k` is the stored client sequence -/
  cur : ∀ c d cd, dpOf s d = false → entryOf s c d = some cd → isOpenSt cd.status = true →
    csOf (ownRows s d c cd.gen) = List.range' 1 cd.clientSeq

theorem SInv.init (cfg : Config) : SInv (Server.init cfg) :=
  ⟨fun _ _ _ _ => ⟨0, by simp [csOf, ownRows, storedLog, Server.findDoc, Server.init]⟩,
   fun _ _ _ _ h => by simp [entryOf, Server.init] at h⟩

theorem SInv.of_eq {s s' : Server} (h : SInv s) (hl : ∀ d, storedLog s' d = storedLog s d)
    (he : ∀ c d, entryOf s' c d = entryOf s c d) (hdp : ∀ d, dpOf s' d = false → dpOf s d = false) : SInv s' :=
  ⟨fun c d g hd => by simp only [ownRows, hl]; exact h.runs c d g (hdp d hd),
   fun c d cd hd hcd ho => by simp only [ownRows, hl]; rw [he] at hcd; exact h.cur c d cd (hdp d hd) hcd ho⟩

theorem ownRows_append_same {s s' : Server} {d : DocId} {P : List Row} (hlog : storedLog s' d = storedLog s d ++ P)
    (c : ClientId) (g : Nat) : ownRows s' d c g = ownRows s d c g ++ P.filter (byGen c g) := by
  simp only [ownRows, hlog, List.filter_append]

theorem filter_byGen_all {P : List Row} {c : ClientId} {g : Nat} (h : ∀ r ∈ P, r.actor = c ∧ r.gen = g) :
    P.filter (byGen c g) = P := by
  rw [List.filter_eq_self]; intro r hr
  obtain ⟨h1, h2⟩ := h r hr
  simp [byGen, h1, h2]

theorem filter_byGen_none {P : List Row} {c c' : ClientId} {g g' : Nat} (h : ∀ r ∈ P, r.actor = c ∧ r.gen = g)
    (hne : c' ≠ c ∨ g' ≠ g) : P.filter (byGen c' g') = [] := by
  rw [List.filter_eq_nil_iff]; intro r hr
  obtain ⟨h1, h2⟩ := h r hr
  simp only [byGen, Bool.and_eq_true, beq_iff_eq, not_and, h1, h2]
  rcases hne with hne | hne
  · intro hx; exact absurd hx.symm hne
  · intro _ hx; exact hne hx.symm

/-- the generic transition: client `c` appends its own rows `P` (generation `e'.gen`) to `d`, its entry
becomes `e'`.  If `P` is not empty the attachment was open and `P` continues its numbering. -/
theorem SInv.trans {s s' : Server} (h : SInv s) (c : ClientId) (d : DocId) (P : List Row) (e' : ClientDoc)
    (hlog : storedLog s' d = storedLog s d ++ P) (hother : ∀ d', d' ≠ d → storedLog s' d' = storedLog s d')
    (hdp : ∀ d', dpOf s' d' = false → dpOf s d' = false)
    (hP : ∀ r ∈ P, r.actor = c ∧ r.gen = e'.gen)
    (hent : entryOf s' c d = some e')
    (hents : ∀ c' d', (c' ≠ c ∨ d' ≠ d) → entryOf s' c' d' = entryOf s c' d')
    (hold : dpOf s' d = false →
      (∃ cd0, entryOf s c d = some cd0 ∧ isOpenSt cd0.status = true ∧ cd0.gen = e'.gen ∧
          csOf P = List.range' (cd0.clientSeq + 1) P.length ∧
          (isOpenSt e'.status = true → e'.clientSeq = cd0.clientSeq + P.length)) ∨
      (P = [] ∧ ((∃ cd0, entryOf s c d = some cd0 ∧ cd0.gen = e'.gen ∧
                    (isOpenSt e'.status = true → isOpenSt cd0.status = true ∧ e'.clientSeq = cd0.clientSeq)) ∨
                 (e'.clientSeq = 0 ∧ ∀ r ∈ storedLog s d, r.actor = c → r.gen < e'.gen)))) : SInv s' := by
  -- rows of (c, e'.gen) in `d` after the step
  have hcur : dpOf s' d = false → isOpenSt e'.status = true → csOf (ownRows s' d c e'.gen) = List.range' 1 e'.clientSeq := by
    intro hd ho
    rw [ownRows_append_same hlog, filter_byGen_all hP]
    rcases hold hd with ⟨cd0, hcd0, ho0, hg0, hcs, hecs⟩ | ⟨hPn, hcase⟩
    · have := h.cur c d cd0 (hdp d hd) hcd0 ho0
      rw [hg0] at this
      simp only [csOf, List.map_append] at this ⊢
      rw [this, show List.map (fun x => x.clientSeq) P = csOf P from rfl, hcs, hecs ho]
      rw [show cd0.clientSeq + 1 = 1 + cd0.clientSeq by omega, ← List.range'_append_1]
    · rw [hPn, List.append_nil]
      rcases hcase with ⟨cd0, hcd0, hg0, hop⟩ | ⟨hz, hnew⟩
      · obtain ⟨ho0, hecs⟩ := hop ho
        rw [← hg0, hecs]; exact h.cur c d cd0 (hdp d hd) hcd0 ho0
      · rw [hz]
        have : ownRows s d c e'.gen = [] := by
          simp only [ownRows]; rw [List.filter_eq_nil_iff]; intro r hr
          simp only [byGen, Bool.and_eq_true, beq_iff_eq, not_and]
          intro ha hg; have := hnew r hr ha; omega
        simp [this, csOf]
  refine ⟨?_, ?_⟩
  · intro c' d' g hd
    by_cases hdd : d' = d
    · subst hdd
      rw [ownRows_append_same hlog]
      by_cases ht : c' = c ∧ g = e'.gen
      · obtain ⟨hc, hg⟩ := ht
        subst hc; subst hg
        rw [filter_byGen_all hP]
        rcases hold hd with ⟨cd0, hcd0, ho0, hg0, hcs, _⟩ | ⟨hPn, _⟩
        · have := h.cur c' d' cd0 (hdp d' hd) hcd0 ho0
          rw [hg0] at this
          refine ⟨cd0.clientSeq + P.length, ?_⟩
          simp only [csOf, List.map_append] at this ⊢
          rw [this, show List.map (fun x => x.clientSeq) P = csOf P from rfl, hcs]
          rw [show cd0.clientSeq + 1 = 1 + cd0.clientSeq by omega, ← List.range'_append_1]
        · rw [hPn, List.append_nil]; exact h.runs c' d' e'.gen (hdp d' hd)
      · have hne : c' ≠ c ∨ g ≠ e'.gen := by
          by_cases hc : c' = c
          · exact Or.inr (fun hg => ht ⟨hc, hg⟩)
          · exact Or.inl hc
        rw [filter_byGen_none hP hne, List.append_nil]; exact h.runs c' d' g (hdp d' hd)
    · simp only [ownRows, hother d' hdd]; exact h.runs c' d' g (hdp d' hd)
  · intro c' d' cd hd hcd ho
    by_cases ht : c' = c ∧ d' = d
    · obtain ⟨hc, hdd⟩ := ht
      subst hc; subst hdd
      rw [hent] at hcd; injection hcd with hcd; subst hcd
      exact hcur hd ho
    · have hne : c' ≠ c ∨ d' ≠ d := by
        by_cases hc : c' = c
        · exact Or.inr (fun hd => ht ⟨hc, hd⟩)
        · exact Or.inl hc
      rw [hents c' d' hne] at hcd
      by_cases hdd : d' = d
      · subst hdd
        have hcne : c' ≠ c := by
          rcases hne with hne | hne
          · exact hne
          · exact absurd rfl hne
        rw [ownRows_append_same hlog, filter_byGen_none hP (Or.inl hcne), List.append_nil]
        exact h.cur c' d' cd (hdp d' hd) hcd ho
      · simp only [ownRows, hother d' hdd]; exact h.cur c' d' cd (hdp d' hd) hcd ho


/-! ### `PushPull` -/

theorem pushGuard_cases {s : Server} {f : Flight} {p : List ChangeReq} (h : pushGuard s f = .ok p) :
    p = [] ∨ p = pushablesOf f := by
  unfold pushGuard at h
  split at h
  · split at h
    · simp at h
    · split at h
      · injection h with h; exact Or.inl h.symm
      · split at h
        · simp at h
        · split at h
          · injection h with h; exact Or.inl h.symm
          · injection h with h; exact Or.inr h.symm
  · injection h with h; exact Or.inr h.symm

theorem dpOf_docs_set {s s' : Server} {d : DocId} {doc x : Doc} (hfd : s.findDoc d = some doc)
    (h : s'.docs = s.docs.set d x) (hx : x.disablePresence = doc.disablePresence) (d' : DocId) :
    dpOf s' d' = dpOf s d' := by
  simp only [dpOf, findDoc_docs_set h]
  by_cases hd : d = d'
  · subst hd; simp [hfd, hx]
  · simp [hd]

/-- One `PushPull` of an honest flight whose attachment is open keeps the numbering invariant. -/
theorem sinv_pushPull {s s' : Server} {f : Flight} {x : Except ErrKind Flight} (h : SInv s)
    (hpp : pushPull s f = (s', x)) {loaded : Client} (hc : s.findClient f.client = some loaded)
    (hhon : ∀ x ∈ f.pack.changes, x.actor = f.client)
    (hfdp : ∀ doc, s.findDoc f.doc = some doc → f.disablePresence = doc.disablePresence)
    {cd0 cdS : ClientDoc} (hcd0 : f.info.docs.get? f.doc = some cd0) (hcdS : loaded.docs.get? f.doc = some cdS)
    (hgen : cdS.gen = cd0.gen) (hcs : cdS.clientSeq = cd0.clientSeq)
    (hopenS : isOpenSt cdS.status = true) (hopen0 : isOpenSt cd0.status = true)
    (hatt : f.status = .attached → cd0.status = .attached) (hact : f.info.activated = true) : SInv s' := by
  have hentS : entryOf s f.client f.doc = some cdS := by rw [entryOf_findClient hc]; exact hcdS
  cases x with
  | ok f' =>
    have hp := pushPull_ppok hpp
    obtain ⟨cd0', loaded', doc, p, vv, hcd0', hl, hfd, hguard, _, hent, hdocs, _, _, _⟩ := ppok_target hp
    rw [hcd0] at hcd0'; injection hcd0' with hcd0'; subst hcd0'
    rw [hc] at hl; injection hl with hl; subst hl
    obtain ⟨doc2, p2, _, _, _, r2, _, hfd2, _, hcont, hg2, hpull2, _, _, _, _, _, _, _, _, hcp2, _⟩ := hp.ex
    rw [hfd] at hfd2; injection hfd2 with hfd2; subst hfd2
    rw [hguard] at hg2; injection hg2 with hg2; subst hg2
    have hcpcs : f'.resp.cp.clientSeq = (pushedFlight doc (stripped f) p).cpAfterPush.clientSeq := by
      rw [hcp2]; exact pullPackResp_cp_clientSeq hpull2
    have hrows := pushedRows_spec (doc := doc) hguard hhon hcd0
    have hcp0 : (f.info.checkpoint f.doc).clientSeq = cd0.clientSeq := by simp [Client.checkpoint, hcd0]
    have sp := assignSeqs_spec ((stripped f).info.genOf (stripped f).doc) doc.serverSeq
      ((stripped f).info.checkpoint (stripped f).doc) p
    simp only [] at sp
    obtain ⟨_, _, q3, q4, _, _⟩ := sp
    have hdpeq : ∀ d', dpOf s' d' = dpOf s d' := dpOf_docs_set hfd hdocs rfl
    refine h.trans f.client f.doc (pushedRows doc (stripped f) p)
      (persistEntry (statusEntry f.status cd0 f'.resp.cp) loaded f.doc) ?_ ?_ (fun d' hd' => by rw [← hdpeq]; exact hd')
      ?_ hent ?_ ?_
    · rw [storedLog_docs_set hdocs, if_pos rfl, storedLog_findDoc hfd]; rfl
    · intro d' hd'; rw [storedLog_docs_set hdocs, if_neg (Ne.symm hd')]
    · intro r hr
      obtain ⟨h1, h2, _⟩ := hrows r hr
      refine ⟨h1, ?_⟩
      rw [h2]; cases hs : f.status <;> simp [persistEntry, statusEntry, mergeClientDoc] <;> split <;> rfl
    · intro c' d' hne; exact pushPull_entries_other hpp hc c' d' hne
    · intro hdpd
      -- the document keeps presence, so nothing was stripped
      have hdocdp : doc.disablePresence = false := by
        have := hdpeq f.doc; rw [hdpd] at this; simpa [dpOf, hfd] using this.symm
      have hstr : stripped f = f := stripped_of_not_dp (by rw [hfdp doc hfd]; exact hdocdp)
      rw [hstr] at hguard hrows q3 q4 hcpcs ⊢
      -- the pushed client sequences continue the stored numbering
      have hpcs : p.map (·.clientSeq) = List.range' (cd0.clientSeq + 1) p.length := by
        rcases pushGuard_cases hguard with hp0 | hp0
        · rw [hp0]; simp
        · rw [hp0]; simp only [pushablesOf, hcp0]
          have := pushable_consecutive cd0.clientSeq (cd0.clientSeq + 1) f.pack.changes (by omega)
            (by rw [hcp0] at hcont; exact hcont)
          exact this
      have hlen : (pushedRows doc f p).length = p.length := q3
      refine Or.inl ⟨cdS, hentS, hopenS, ?_, ?_, ?_⟩
      · rw [hgen]; cases hs : f.status <;> simp [persistEntry, statusEntry, mergeClientDoc] <;> split <;> rfl
      · rw [hlen, hcs]
        show List.map (fun x => x.clientSeq) (pushedRows doc f p) = _
        simp only [pushedRows]; rw [q4]; exact hpcs
      · intro ho
        cases hs : f.status with
        | attached =>
          have hst := hatt hs
          have hex := assignSeqs_cp_exact (f.info.genOf f.doc) doc.serverSeq (f.info.checkpoint f.doc) p
            (by rw [hcp0]; exact hpcs)
          simp only [persistEntry, statusEntry, hst, beq_self_eq_true, if_true, mergeClientDoc, hcdS,
            Option.getD_some, hlen]
          rw [hcpcs]
          simp only [pushedFlight]
          rw [hex, hcp0, hcs]; omega
        | detached => rw [hs] at ho; simp [persistEntry, statusEntry, isOpenSt] at ho
        | removed => rw [hs] at ho; simp [persistEntry, statusEntry, isOpenSt] at ho
  | error e =>
    have hcl := (pushPull_err hpp hc).1
    rcases pushPull_error_log hpp hc with hl | ⟨cp, hu⟩
    · refine h.of_eq hl (fun c d => entryOf_of_clients_eq hcl c d) ?_
      intro d hd
      obtain ⟨_, _, _, _, hdocs⟩ := pushPull_err hpp hc
      rcases hdocs with hdd | ⟨doc, p, hfd, _, hdd⟩
      · simp only [dpOf, Server.findDoc, hdd] at hd ⊢; exact hd
      · rw [dpOf_docs_set hfd hdd rfl] at hd; exact hd
    · exfalso
      obtain ⟨i', hi'⟩ := updateDocStatus_no_error (st := f.status) (cp := cp) hact hcd0 (fun _ => hopen0)
      rw [hi'] at hu; simp at hu


/-! ### every well-behaved request keeps the numbering invariant -/

/-- the requester of a Detach/Remove holds the document -/
def closerHolds (s : Server) : Request → Bool
  | .detach c d _ => holds s c d
  | .remove c d _ => holds s c d
  | _ => true

theorem dpOf_of_docs_eq {s s' : Server} (h : s'.docs = s.docs) (d : DocId) : dpOf s' d = dpOf s d := by
  simp only [dpOf, Server.findDoc, h]

theorem sinv_markAttaching {s : Server} (h : SInv s) (hG : GInv s) {c : ClientId} {d : DocId} {i : Client}
    (hi : s.findClient c = some i) : SInv (s.setClient c (i.markAttaching d)) := by
  have hent : entryOf (s.setClient c (i.markAttaching d)) c d = some (attachingEntry i d) := by
    rw [entryOf_setClient, if_pos rfl]; simp [Client.markAttaching, AL.get?_set_self, attachingEntry]
  refine h.trans c d [] (attachingEntry i d) (by simp [storedLog, Server.setClient, Server.findDoc])
    (fun d' _ => by simp [storedLog, Server.setClient, Server.findDoc])
    (fun d' hd' => by simpa [dpOf, Server.findDoc, Server.setClient] using hd') (by simp) hent ?_ ?_
  · intro c' d' hne
    rw [entryOf_setClient]
    by_cases hc : c = c'
    · rw [if_pos hc, ← hc, entryOf_findClient hi]
      have hd : d ≠ d' := by
        rcases hne with hne | hne
        · exact absurd hc.symm hne
        · exact fun h => hne h.symm
      simp only [Client.markAttaching, AL.get?_set, hd, if_false]
    · rw [if_neg hc]
  · intro _
    refine Or.inr ⟨rfl, Or.inr ⟨rfl, ?_⟩⟩
    intro r hr ha
    obtain ⟨cd, hcd, hle⟩ := hG.g1 c d r hr ha
    rw [entryOf_findClient hi] at hcd
    simp only [attachingEntry, Client.nextGen, hcd]
    omega

theorem sinv_clientsAttach {s s' : Server} {c : ClientId} {info : Client} {d : DocId} {e : Int} {b : Bool}
    {x : Except ErrKind Client} (h : SInv s) (hG : GInv s) (hca : clientsAttach s c info d e b = (s', x)) : SInv s' := by
  have hx : s' = s ∨ ∃ i, s.findClient c = some i ∧ s' = s.setClient c (i.markAttaching d) := by
    cases x with
    | error err =>
      rcases clientsAttach_error hca with e1 | ⟨i, hi, _, e1⟩
      · exact Or.inl e1
      · exact Or.inr ⟨i, hi, e1⟩
    | ok info2 =>
      obtain ⟨info1, _, _, _, hcase⟩ := clientsAttach_ok hca
      rcases hcase with ⟨_, e1, _⟩ | ⟨_, i, hi, _, _, _, e1⟩
      · exact Or.inl e1
      · exact Or.inr ⟨i, hi, e1⟩
  rcases hx with e1 | ⟨i, hi, e1⟩
  · subst e1; exact h
  · subst e1; exact sinv_markAttaching h hG hi

theorem sinv_attachWith {s1 s' : Server} {c : ClientId} {info : Client} {d : DocId} {pack : Pack} {nogc : Bool}
    {out : Except ErrKind Resp} (h : SInv s1) (hG : GInv s1) (haw : attachWith s1 c info d pack nogc = (s', out))
    (hc : s1.findClient c = some info) (ha : info.activated = true)
    (hhon : ∀ x ∈ pack.changes, x.actor = c) : SInv s' := by
  rcases attachWith_inv haw with ⟨_, e1, _⟩ | ⟨doc, hd1, hcase⟩
  · subst e1; exact h
  · rcases hcase with ⟨e, hca, _⟩ | ⟨s2, info2, hca, hpp⟩
    · exact sinv_clientsAttach h hG hca
    · have h2 := sinv_clientsAttach h hG hca
      have hG2 := ginv_clientsAttach hG hca
      obtain ⟨info1, hi2, hst1, _, hcase⟩ := clientsAttach_ok hca
      have hl2 : s2.findClient c = some info1 ∧ info1.activated = true := by
        rcases hcase with ⟨_, e1, e2⟩ | ⟨_, i, hi, hact, _, e2, e1⟩
        · rw [e1, e2]; exact ⟨hc, ha⟩
        · rw [e1, e2]; exact ⟨by simp [Server.findClient, Server.setClient, AL.get?_set_self], hact⟩
      obtain ⟨cdS, hcdS, hsS⟩ := statusOf_some hst1
      have hentS : entryOf s2 c d = some cdS := by rw [entryOf_findClient hl2.1]; exact hcdS
      have hcs0 : cdS.clientSeq = 0 := hG2.g3 _ _ _ hentS (by rw [hsS]; simp)
      have hcd0 : info2.docs.get? d = some (attachedEntry info1 d doc.epoch) := by
        rw [hi2]; exact AL.get?_set_self _ _ _
      have hd2 : s2.findDoc d = some doc := by
        simp only [Server.findDoc] at hd1 ⊢; rw [clientsAttach_docs' hca]; exact hd1
      have key : ∀ {x : Except ErrKind Flight},
          pushPull s2 (mkFlight c d info2 pack false .attached nogc doc.disablePresence) = (s', x) → SInv s' := by
        intro x hx
        refine sinv_pushPull h2 hx (loaded := info1) (by simpa using hl2.1) (by simpa using hhon) ?_
          (cd0 := attachedEntry info1 d doc.epoch) (cdS := cdS) (by simpa using hcd0) (by simpa using hcdS)
          ?_ ?_ ?_ ?_ ?_ ?_
        · intro doc' hd'
          simp only [mkFlight_doc] at hd'
          rw [hd2] at hd'; injection hd' with hd'; subst hd'; rfl
        · simp [attachedEntry, genOf_of_get? hcdS]
        · rw [hcs0]; rfl
        · simp [isOpenSt, hsS]
        · simp [attachedEntry, isOpenSt]
        · intro _; rfl
        · simp only [mkFlight_info]; rw [hi2]; exact hl2.2
      rcases hpp with ⟨f', hpp, _⟩ | ⟨e, hpp, _⟩
      · exact key hpp
      · exact key hpp

theorem clusterDetach_entries_other {s s' : Server} {c : ClientId} {d : DocId} {x : Except ErrKind Unit}
    (hcd : clusterDetach s c d = (s', x)) (c' : ClientId) (d' : DocId) (hne : c' ≠ c ∨ d' ≠ d) :
    entryOf s' c' d' = entryOf s c' d' := by
  unfold clusterDetach at hcd
  split at hcd
  · injection hcd with h1 _; subst h1; rfl
  · next info hi =>
    obtain ⟨hcl, _⟩ := findActiveClient_ok hi
    split at hcd
    · injection hcd with h1 _; subst h1; rfl
    · split at hcd
      · injection hcd with h1 _; subst h1; rfl
      · split at hcd
        · next s2 f' hpp =>
          injection hcd with h1 _; subst h1
          exact pushPull_entries_other hpp (by simpa using hcl) c' d' (by simpa using hne)
        · next s2 e hpp =>
          injection hcd with h1 _; subst h1
          exact pushPull_entries_other hpp (by simpa using hcl) c' d' (by simpa using hne)

theorem sinv_clusterDetach {s s' : Server} {c : ClientId} {d : DocId} {x : Except ErrKind Unit} (h : SInv s)
    (hcd : clusterDetach s c d = (s', x)) (hop : holds s c d = true) : SInv s' := by
  unfold clusterDetach at hcd
  split at hcd
  · injection hcd with h1 _; subst h1; exact h
  · next info hi =>
    obtain ⟨hcl, hact⟩ := findActiveClient_ok hi
    split at hcd
    · injection hcd with h1 _; subst h1; exact h
    · split at hcd
      · injection hcd with h1 _; subst h1; exact h
      · next doc hd =>
        simp only [holds, entryOf_findClient hcl] at hop
        cases hcdE : info.docs.get? d with
        | none => rw [hcdE] at hop; simp at hop
        | some cd =>
          rw [hcdE] at hop
          have hne := detachMode_status_ne' s c d (clusterPack c (info.checkpoint d))
          have hhon : ∀ x ∈ (detachMode s c d (clusterPack c (info.checkpoint d))).1.changes, x.actor = c := by
            rw [(detachMode_pack s c d _).2]
            intro x hx
            simp only [clusterPack, List.mem_singleton] at hx
            rw [hx]; rfl
          have key : ∀ {y : Except ErrKind Flight},
              pushPull s (mkFlight c d info (detachMode s c d (clusterPack c (info.checkpoint d))).1 true
                (detachMode s c d (clusterPack c (info.checkpoint d))).2 false doc.disablePresence) = (s', y) → SInv s' := by
            intro y hy
            refine sinv_pushPull h hy (loaded := info) (by simpa using hcl) (by simpa using hhon) ?_
              (cd0 := cd) (cdS := cd) (by simpa using hcdE) (by simpa using hcdE) rfl rfl hop hop
              (by simpa using fun hx => absurd hx hne) (by simpa using hact)
            intro doc' hd'
            simp only [mkFlight_doc] at hd'
            rw [hd] at hd'; injection hd' with hd'; subst hd'; rfl
          split at hcd
          · next s2 f' hpp => injection hcd with h1 _; subst h1; exact key hpp
          · next s2 e hpp => injection hcd with h1 _; subst h1; exact key hpp

theorem gs_clusterDetachAll (c : ClientId) (s : Server) (hG : GInv s) (h : SInv s) (ds : List DocId)
    (hnd : ds.Nodup) (hop : ∀ d ∈ ds, holds s c d = true) :
    GInv (clusterDetachAll c s ds).1 ∧ SInv (clusterDetachAll c s ds).1 := by
  induction ds generalizing s with
  | nil => exact ⟨hG, h⟩
  | cons d r ih =>
    have hopd := hop d (List.mem_cons_self ..)
    have hex : (entryOf s c d).isSome = true := by
      simp only [holds] at hopd
      cases he : entryOf s c d with
      | none => rw [he] at hopd; simp at hopd
      | some cd => rfl
    unfold clusterDetachAll
    split
    · next s' _ hcd =>
      refine ih s' (ginv_clusterDetach hG hcd hex) (sinv_clusterDetach h hcd hopd) (List.nodup_cons.mp hnd).2 ?_
      intro d' hd'
      have hne : d' ≠ d := fun hx => (List.nodup_cons.mp hnd).1 (hx ▸ hd')
      simp only [holds, clusterDetach_entries_other hcd c d' (Or.inr hne)]
      exact hop d' (List.mem_cons_of_mem _ hd')
    · next s' e hcd => exact ⟨ginv_clusterDetach hG hcd hex, sinv_clusterDetach h hcd hopd⟩

theorem dpOf_findOrCreateDoc (s : Server) (hw : WF s) (key : Nat) (dp : Bool) (d : DocId)
    (h : dpOf (findOrCreateDoc s key dp).1 d = false) : dpOf s d = false := by
  unfold findOrCreateDoc at h
  split at h
  · exact h
  · by_cases hd : s.nextDoc = d
    · subst hd
      have hn : s.findDoc s.nextDoc = none := by
        cases hx : s.findDoc s.nextDoc with
        | none => rfl
        | some x => exact absurd (hw.docs _ _ hx) (Nat.lt_irrefl _)
      simp [dpOf, hn]
    · simpa [dpOf, Server.findDoc, AL.get?_set, hd] using h

/-- every well-behaved request keeps both the generation and the numbering invariant -/
theorem gs_step (s : Server) (hw : WF s) (hG : GInv s) (h : SInv s) (req : Request) (hhon : honestReq req = true)
    (hcl : closerHolds s req = true) : SInv (step s req).1 := by
  cases req with
  | activate =>
    have est := step_estep s hw .activate
    refine h.of_eq (fun d => by simp [step, activate, storedLog, Server.findDoc]) ?_
      (fun d hd => by simpa [step, activate, dpOf, Server.findDoc] using hd)
    intro c d
    rcases est c d with e | t | ⟨cd, hc, hcl⟩
    · exact e
    · exact t.elim
    · simp only [step, activate, entryOf, AL.get?_set]
      by_cases hn : s.nextClient = c
      · subst hn
        cases hs : s.clients.get? s.nextClient with
        | none => simp [AL.get?]
        | some x => exact absurd (hw.clients _ _ hs) (Nat.lt_irrefl _)
      · simp [hn]
  | deactivate c order =>
    simp only [step]
    unfold deactivate
    split
    · exact h
    · next info hi =>
      obtain ⟨hcl', _⟩ := findActiveClient_ok hi
      split
      · exact h
      · have h1 := (gs_clusterDetachAll c s hG h (openDocs info order) (openDocs_nodup info order) (by
          intro d hd
          have := mem_openDocs hd
          simp only [holds, entryOf_findClient hcl']
          simp only [isOpenAt] at this
          cases hg : info.docs.get? d with
          | none => rw [hg] at this; simp at this
          | some cd => rw [hg] at this; simpa [isOpenSt] using this)).2
        split
        · next s' e hx => rw [hx] at h1; exact h1
        · next s' _ hx =>
          rw [hx] at h1
          exact h1.of_eq (fun d => by simp only [storedLog, Server.findDoc, dbDeactivate_docs])
            (fun c' d' => dbDeactivate_entries s' c c' d')
            (fun d hd => by rw [dpOf_of_docs_eq (dbDeactivate_docs s' c)] at hd; exact hd)
  | attach c key pack dp nogc =>
    simp only [step]
    generalize ha : attach s c key pack dp nogc = res
    obtain ⟨s', out⟩ := res
    rcases attach_inv ha with ⟨e1, _⟩ | ⟨info, hi, hact, haw⟩
    · subst e1; exact h
    · have hG1 : GInv (findOrCreateDoc s key dp).1 :=
        hG.of_eq (fun d => (findOrCreateDoc_sameDoc s hw key dp d).1)
          (fun c' d' => entryOf_of_clients_eq (findOrCreateDoc_clients s key dp).1 c' d')
      have h1 : SInv (findOrCreateDoc s key dp).1 :=
        h.of_eq (fun d => (findOrCreateDoc_sameDoc s hw key dp d).1)
          (fun c' d' => entryOf_of_clients_eq (findOrCreateDoc_clients s key dp).1 c' d')
          (fun d hd => dpOf_findOrCreateDoc s hw key dp d hd)
      exact sinv_attachWith h1 hG1 haw (by rw [findOrCreateDoc_findClient]; exact hi) hact (honest_all hhon)
  | pushpull c d pack po nogc =>
    simp only [step]
    generalize ha : pushpullReq s c d pack po nogc = res
    obtain ⟨s', out⟩ := res
    rcases pushpullReq_inv ha with ⟨e1, _⟩ | ⟨info, doc, hi, hact, hst, hd, hf⟩
    · subst e1; exact h
    · obtain ⟨x, hx⟩ := finish_inv hf
      obtain ⟨cd, hcd, hs⟩ := statusOf_some hst
      refine sinv_pushPull h hx (loaded := info) (by simpa using hi) (by simpa using honest_all hhon) ?_
        (cd0 := cd) (cdS := cd) (by simpa using hcd) (by simpa using hcd) rfl rfl (by simp [isOpenSt, hs])
        (by simp [isOpenSt, hs]) (by simpa using hs) (by simpa using hact)
      intro doc' hd'
      simp only [mkFlight_doc] at hd'
      rw [hd] at hd'; injection hd' with hd'; subst hd'; rfl
  | detach c d pack =>
    simp only [step]
    generalize ha : detach s c d pack = res
    obtain ⟨s', out⟩ := res
    rcases detach_inv ha with ⟨e1, _⟩ | ⟨info, doc, hi, hact, _, hd, hf⟩
    · subst e1; exact h
    · obtain ⟨x, hx⟩ := finish_inv hf
      simp only [closerHolds, holds, entryOf_findClient hi] at hcl
      cases hcd : info.docs.get? d with
      | none => rw [hcd] at hcl; simp at hcl
      | some cd =>
        rw [hcd] at hcl
        have hne := detachMode_status_ne' s c d pack
        refine sinv_pushPull h hx (loaded := info) (by simpa using hi)
          (by simp only [mkFlight_pack, mkFlight_client]; rw [(detachMode_pack s c d pack).2]; exact honest_all hhon) ?_
          (cd0 := cd) (cdS := cd) (by simpa using hcd) (by simpa using hcd) rfl rfl hcl hcl
          (by simpa using fun hx => absurd hx hne) (by simpa using hact)
        intro doc' hd'
        simp only [mkFlight_doc] at hd'
        rw [hd] at hd'; injection hd' with hd'; subst hd'; rfl
  | remove c d pack =>
    simp only [step]
    generalize ha : remove s c d pack = res
    obtain ⟨s', out⟩ := res
    rcases remove_inv ha with ⟨e1, _⟩ | ⟨info, doc, hi, hact, _, hd, hf⟩
    · subst e1; exact h
    · obtain ⟨x, hx⟩ := finish_inv hf
      simp only [closerHolds, holds, entryOf_findClient hi] at hcl
      cases hcd : info.docs.get? d with
      | none => rw [hcd] at hcl; simp at hcl
      | some cd =>
        rw [hcd] at hcl
        refine sinv_pushPull h hx (loaded := info) (by simpa using hi) (by simpa using honest_all hhon) ?_
          (cd0 := cd) (cdS := cd) (by simpa using hcd) (by simpa using hcd) rfl rfl hcl hcl (by simp)
          (by simpa using hact)
        intro doc' hd'
        simp only [mkFlight_doc] at hd'
        rw [hd] at hd'; injection hd' with hd'; subst hd'; rfl

theorem wbReq_closerHolds {s : Server} {g : Ghost} {req : Request} (h : wbReq s g req = true) :
    closerHolds s req = true := by
  cases req with
  | activate => rfl
  | deactivate c o => rfl
  | attach c k p dp nogc => rfl
  | pushpull c d p po nogc => rfl
  | detach c d p => simp only [wbReq, Bool.and_eq_true] at h; exact h.1.1
  | remove c d p => simp only [wbReq, Bool.and_eq_true] at h; exact h.1.1

end Yorkie.Server
