/-
Lemmas for C14, part 36: depth k with container VALUES, redo.  The reverse of the restoring `Set` (a `Remove`
of the value, or a `Set` of the overwriting leaf), executed later on a heap that is observationally
equivalent to the heap before the edit: the result is equivalent to the heap after the edit.  No
condition on what lies below the value is needed here (the new copy the operation makes is not used).
-/
import YorkieModel.Lemmas.UndoArray24
import YorkieModel.Lemmas.UndoArray23
namespace Yorkie.Undo
open Yorkie Yorkie.Crdt

/-- `isRemovedOrOrphaned` of a container depends on the heap through the tombstone flags of containers -/
theorem orphaned_skel {H : Home} {d d' : Doc} (w : WF H d) (w' : WF H d') (hs : ∀ t, skel d t = skel d' t)
    (tw : Ticket → Bool) : ∀ (f : Nat) (t : Ticket), isContainer d t = true →
    orphaned d tw f t = orphaned d' tw f t
  | 0, _, _ => rfl
  | f + 1, t, ht => by
    obtain ⟨e, hd, hb⟩ := isContainer_iff.1 ht
    have hsk : skel d t = some e.removed := skel_some.2 ⟨e, hd, hb, rfl⟩
    rw [hs] at hsk
    obtain ⟨e', hd', _, hr⟩ := skel_some.1 hsk
    simp only [orphaned, hd, hd', hr, w.par t e hd, w'.par t e' hd']
    cases hp : H.par t with
    | none => rfl
    | some q =>
      simp only []
      rw [orphaned_skel w w' hs tw f q (w.parCont t e q hd hp)]

section redo
variable {H : Home} {L : Int} {p : Ticket} {k : String} {u : Ticket} {ue : Elem} {f : String → Option Ticket}
  {oc : Option Ticket} {X Y d : Doc}

/-- executing the forward operation on a heap equivalent to the heap before the edit -/
theorem redo_exec {Ld : Int} {ts ts0 : Ticket} {q : UOp} (en : EntryR H L p k u ue f oc X Y)
    (hq : FwdOp Y oc p k u ts0 q) (w : WF H d) (bd : Bounded d Ld)
    (hL : L ≤ Ld) (hts : Ld < ts.lamport) (hsk : ∀ t, skel d t = skel X t) (hnode : absNode d = absNode X) :
    ∃ d' r, uexecute d noTw .undoRedo (q.withTs ts) = .ok (d', some r) ∧
      WF H d' ∧ Bounded d' ts.lamport ∧ (∀ t, skel d' t = skel Y t) ∧ absNode d' = absNode Y := by
  obtain ⟨hkey, hpar, _⟩ := en.home
  have hpu := en.hpu
  have hnp : absNode d p = some (.obj f) := by rw [hnode]; exact en.hp
  obtain ⟨pe, keys, member, hd, hpr, hb, hf⟩ := absNode_obj hnp
  have hobj : isObj d p = true := by simp [isObj, hd, hb]
  have hcontp : isContainer d p = true := by simp [isContainer, hd, hb]
  have horph : orphaned d noTw orphanFuel p = false := by
    rw [orphaned_skel w en.wfX hsk noTw orphanFuel p hcontp]; exact en.horphX
  have hfk : liveMember d member k = some u := by rw [← hf]; exact en.hk
  obtain ⟨hlu, m, hm, hmc⟩ := liveMember_some hfk
  obtain ⟨ued, hued, hurd⟩ := live_elem hlu
  obtain ⟨hkin, _, hparu⟩ := w.objMem _ _ _ _ _ _ hd hpr hb hm
  rw [hmc] at hparu
  have hupd : ued.parent = some p := (w.par _ _ hued).trans hparu
  obtain ⟨n1, n2, n3⟩ := absNode_killC w hd hpr hb hm hmc hpu
  have hd1p : kill d (some u) p = some pe := by
    have : ¬ u = p := fun hx => hpu hx.symm
    simp [kill, this, hd]
  have hskK : ∀ t, skel (kill d (some u)) t = skel Y t := by
    intro t
    rw [skel_killC hued, en.skelY]
    by_cases h1 : t = u
    · subst h1; simp only [if_true, hsk]
    · simp only [h1, if_false, hsk]
  have bdts := bd.mono (show Ld ≤ ts.lamport by omega)
  cases hoc : oc with
  | none =>
    subst hoc
    have hq' : q = .remove p u ts0 := hq
    subst hq'
    have horphu : orphaned d noTw orphanFuel u = false := by
      rw [show orphanFuel = 63 + 1 from rfl, orphaned_succ_some hued hupd, hurd,
        orphaned_mono _ _ 63 p horph]
      rfl
    obtain ⟨r, he⟩ := uexecute_remove_obj (tw := noTw) (ts := ts) hd hb hkin (by simp [memberChild, hm, hmc])
      hued hupd horphu (after_of_lamport (by have := bd.ent _ _ hued; omega))
    refine ⟨_, r, he, WF_kill w _, Bounded_kill bdts _, hskK, ?_⟩
    funext t
    by_cases h1 : t = u
    · subst h1; rw [n1, en.nodeYu]
    · by_cases h2 : t = p
      · subst h2
        rw [n2, en.nodeYp, hf]
      · rw [n3 t h1 h2, hnode, en.nodeYo t h1 h2 (by simp)]
  | some c =>
    subst hoc
    obtain ⟨cb, hcl, hbY, rfl⟩ := hq
    obtain ⟨hXc, hcu, hcp, hkc, hpc, _⟩ := en.hoc c rfl
    have hcB := en.hocB c rfl
    generalize hcv : ({ id := c, removed := false, body := cb, sub := [] } : UVal) = cvc
    have hcid : cvc.id = c := by rw [← hcv]
    have hcbody : cvc.body = cb := by rw [← hcv]
    have happ : applySetU d p k cvc ts = .ok (setRes d p pe keys member k cvc ts) :=
      applySetU_eq (d := d) (p := p) (k := k) (val := cvc) (ts := ts) hd hb (by rw [hcbody]; exact hcl)
        (by rw [← hcv]) (by
          intro m' hm'
          refine ⟨after_of_lamport ?_, fun e he => after_of_lamport ?_⟩
          · have := bd.pos _ _ _ _ _ _ hd hb hm'; omega
          · have := bd.ent _ _ he; omega)
    obtain ⟨r, hr⟩ := reverseSet_isSome hobj k cvc ts
    have hex : uexecute d noTw .undoRedo (.set p k cvc ts) = .ok (setRes d p pe keys member k cvc ts, some r) := by
      simp only [uexecute, hobj, Bool.not_true, Bool.false_eq_true, if_false, horph, Bool.and_false, happ,
        Source.needsReverse, gate, if_true, hr]
      rfl
    have hsame : setRes d p pe keys member k cvc ts = setRes (kill d (some u)) p pe keys member k cvc ts := by
      unfold setRes
      rw [hm, Option.map_some, hmc, kill_kill]
    have w1 : WF H (kill d (some u)) := WF_kill w _
    have bd1 : Bounded (kill d (some u)) Ld := Bounded_kill bd _
    have hlm1 : liveMember (kill d (some u)) member k = none := by
      rw [liveMember_eq, hm]; simp only [hmc, live_kill]; simp
    have hA : absNode (kill d (some u)) p = some (.obj (liveMember (kill d (some u)) member)) :=
      absNode_of_obj hd1p hpr hb
    have hXcn : absNode X c = none := by simp [absNode, hXc]
    have hXcs : skel X c = none := by simp [skel, hXc]
    have g : GoodSet H noTw (kill d (some u)) p k cvc (liveMember (kill d (some u)) member) := by
      refine ⟨hA, ?_, by rw [hcbody]; exact hcl, by rw [← hcv], by rw [← hcv], by rw [hcid]; exact hkc,
        by rw [hcid]; exact hpc, rfl, ?_, ?_, ?_⟩
      · rw [orphaned_skel w1 en.wfY hskK noTw orphanFuel p (by simp [isContainer, hd1p, hb])]; exact en.horphY
      · rw [hcid, n3 c hcu hcp, hnode]; exact hXcn
      · rw [hcid, skel_killC hued]; simp only [hcu, if_false]; rw [hsk]; exact hXcs
      · intro c' hc'; rw [hlm1] at hc'; cases hc'
    have hnodeS := absNode_setRes (ts := ts) w1 g hd1p hpr hb rfl
    have hskelS := skel_setRes (ts := ts) g hd1p hb rfl
    refine ⟨_, r, hex, ?_, ?_, ?_, ?_⟩
    · rw [hsame]; exact WF_setRes w1 g hd1p hpr hb rfl
    · rw [hsame]; exact Bounded_setRes g bd1 hts (by rw [hcid]; omega) hd1p hb
    · intro t; rw [hsame, hskelS]; exact hskK t
    · rw [hsame, hnodeS]
      funext t
      simp only [aset, hA, hcid, hcbody, hlm1]
      by_cases h0 : t = c
      · subst h0; simp only [if_true]; exact hbY.symm
      · simp only [h0, if_false]
        by_cases h2 : t = p
        · subst h2
          simp only [if_true]
          rw [en.nodeYp]
          congr 2
          funext k'
          by_cases hk' : k' = k
          · simp [hk']
          · simp only [hk', if_false]
            have hn2 := n2
            rw [hA] at hn2
            injection hn2 with hn2; injection hn2 with hn2
            have := congrFun hn2 k'
            simp only [hk', if_false] at this
            rw [this, hf]
        · simp only [h2, if_false, reduceCtorEq]
          by_cases h1 : t = u
          · subst h1; rw [n1, en.nodeYu]
          · rw [n3 t h1 h2, hnode, en.nodeYo t h1 h2 (by intro hx; injection hx with hx; exact h0 hx.symm)]

end redo

end Yorkie.Undo
