/-
Lemmas for C14, part 13: arrays of leaves at depth k, the concrete layer.  Plain arrays (every node
holds its own element: no moves), the visible list of a plain array under insertion / tombstoning /
`FindPrevCreatedAt`, and the concrete effect of `Add` and `Remove` on the abstract heap.
-/
import YorkieModel.Lemmas.UndoArray3
namespace Yorkie.Undo
open Yorkie Yorkie.Crdt

/-! ### plain arrays -/

/-- every element sits at the position it was created with (no moved elements), position identities
    are pairwise distinct, not the head identity, and not later than `L` -/
structure PlainArr (nodes : List PosNode) (L : Int) : Prop where
  pe : ∀ n ∈ nodes, ∀ c, n.elem = some c → n.pos = c
  pw : nodes.Pairwise (fun a b => a.pos ≠ b.pos)
  nh : ∀ n ∈ nodes, n.pos ≠ headId
  pl : ∀ n ∈ nodes, n.pos.lamport ≤ L

def PlainArrs (d : Doc) (L : Int) : Prop :=
  ∀ x xe nodes moved, d x = some xe → xe.body = .arr nodes moved → PlainArr nodes L

theorem PlainArr.mono {nodes : List PosNode} {L L' : Int} (h : PlainArr nodes L) (hl : L ≤ L') : PlainArr nodes L' :=
  ⟨h.pe, h.pw, h.nh, fun n hn => by have := h.pl n hn; omega⟩

theorem PlainArrs.mono {d : Doc} {L L' : Int} (h : PlainArrs d L) (hl : L ≤ L') : PlainArrs d L' :=
  fun x xe nodes moved hx hb => (h x xe nodes moved hx hb).mono hl

/-- the visible list of an array -/
def ll (d : Doc) (nodes : List PosNode) : List Ticket := nodes.filterMap (arrEntry d)

theorem mem_ll {d : Doc} {nodes : List PosNode} {c : Ticket} :
    c ∈ ll d nodes ↔ ∃ n ∈ nodes, n.elem = some c ∧ live d c = true := by
  unfold ll
  rw [List.mem_filterMap]
  constructor
  · rintro ⟨n, hn, he⟩; exact ⟨n, hn, arrEntry_some he⟩
  · rintro ⟨n, hn, he, hl⟩; exact ⟨n, hn, by simp [arrEntry, he, hl]⟩

theorem filterMap_nodup_of_pos {g : PosNode → Option Ticket} : ∀ {nodes : List PosNode},
    (∀ n ∈ nodes, ∀ c, g n = some c → n.pos = c) → nodes.Pairwise (fun a b => a.pos ≠ b.pos) →
    (nodes.filterMap g).Nodup
  | [], _, _ => List.nodup_nil
  | a :: l, h, hp => by
    rw [List.pairwise_cons] at hp
    have ih := filterMap_nodup_of_pos (g := g) (fun n hn => h n (by simp [hn])) hp.2
    rw [List.filterMap_cons]
    cases hg : g a with
    | none => exact ih
    | some c =>
      simp only []
      rw [List.nodup_cons]
      refine ⟨?_, ih⟩
      intro hm
      obtain ⟨n, hn, he⟩ := List.mem_filterMap.1 hm
      have h1 := h a (by simp) c hg
      have h2 := h n (by simp [hn]) c he
      exact hp.1 n hn (h1.trans h2.symm)

theorem PlainArr.ll_nodup {nodes : List PosNode} {L : Int} (pa : PlainArr nodes L) (d : Doc) : (ll d nodes).Nodup :=
  filterMap_nodup_of_pos (fun n hn c hc => pa.pe n hn c (arrEntry_some hc).1) pa.pw

theorem PlainArr.ll_pos {nodes : List PosNode} {L : Int} (pa : PlainArr nodes L) {d : Doc} {c : Ticket}
    (h : c ∈ ll d nodes) : ∃ n ∈ nodes, n.pos = c ∧ n.elem = some c ∧ arrEntry d n = some c := by
  obtain ⟨n, hn, he, hl⟩ := mem_ll.1 h
  exact ⟨n, hn, pa.pe n hn c he, he, by simp [arrEntry, he, hl]⟩

theorem PlainArr.ll_nohead {nodes : List PosNode} {L : Int} (pa : PlainArr nodes L) (d : Doc) : headId ∉ ll d nodes := by
  intro h
  obtain ⟨n, hn, hp, _, _⟩ := pa.ll_pos h
  exact pa.nh n hn hp

theorem PlainArr.ll_bound {nodes : List PosNode} {L : Int} (pa : PlainArr nodes L) {d : Doc} {c : Ticket}
    (h : c ∈ ll d nodes) : c.lamport ≤ L := by
  obtain ⟨n, hn, hp, _, _⟩ := pa.ll_pos h
  exact hp ▸ pa.pl n hn

/-- insertion of a later node behind a live anchor (or at the head) of a plain array -/
theorem plain_insert {d : Doc} {nodes : List PosNode} {L : Int} (pa : PlainArr nodes L) {prev x : Ticket}
    (hx : L < x.lamport) (hprev : prev = headId ∨ prev ∈ ll d nodes)
    {g2 : PosNode → Option Ticket} (hg : ∀ n ∈ nodes, g2 n = arrEntry d n) (hgx : g2 ⟨x, some x⟩ = some x) :
    ∃ nodes', insertAfter prev ⟨x, some x⟩ nodes = some nodes' ∧
      nodes'.filterMap g2 = insAfterV prev x (ll d nodes) := by
  have hlatest : ∀ X : List PosNode, (∀ n ∈ X, n ∈ nodes) → insertSkip ⟨x, some x⟩ X = ⟨x, some x⟩ :: X := by
    intro X hX
    apply insertSkip_latest
    intro n hn
    exact not_after_of_lamport (by have := pa.pl n (hX n hn); simp only []; omega)
  have hfm : ∀ X : List PosNode, (∀ n ∈ X, n ∈ nodes) → X.filterMap g2 = X.filterMap (arrEntry d) :=
    fun X hX => filterMap_congr' (fun n hn => hg n (hX n hn))
  by_cases hph : prev = headId
  · refine ⟨⟨x, some x⟩ :: nodes, ?_, ?_⟩
    · simp only [insertAfter, hph, if_true]; rw [hlatest _ (fun _ h => h)]
    · simp only [List.filterMap_cons, hgx, insAfterV, hph, if_true, ll]
      rw [hfm _ (fun _ h => h)]
  · rcases hprev with hprev | hprev
    · exact absurd hprev hph
    · obtain ⟨n, hn, hnp, _, hne⟩ := pa.ll_pos hprev
      obtain ⟨A, R, rfl⟩ := List.append_of_mem hn
      have hA : ∀ a ∈ A, (fun y : PosNode => decide (y.pos = prev)) a = false := by
        intro a ha
        simp only [decide_eq_false_iff_not]
        have hp := pa.pw
        rw [List.pairwise_append] at hp
        rw [← hnp]
        exact hp.2.2 a ha n (by simp)
      have hany : (A ++ n :: R).any (fun y => y.pos = prev) = true := by
        simp only [List.any_eq_true, decide_eq_true_eq]; exact ⟨n, hn, hnp⟩
      refine ⟨A ++ n :: ⟨x, some x⟩ :: R, ?_, ?_⟩
      · simp only [insertAfter, hph, if_false, insertAfterNodes, hany, if_true]
        rw [insertAfterWhere_split _ _ _ _ _ hA (by simp [hnp]), hlatest]
        intro y hy; simp [hy]
      · have hprevA : prev ∉ A.filterMap (arrEntry d) := by
          have hnd := pa.ll_nodup d
          unfold ll at hnd
          rw [List.filterMap_append, List.filterMap_cons, hne] at hnd
          simp only [] at hnd
          rw [List.nodup_append] at hnd
          intro hm; exact hnd.2.2 prev hm prev (by simp) rfl
        simp only [List.filterMap_append, List.filterMap_cons, hgx, hg n hn, hne, insAfterV, hph, if_false, ll]
        rw [hfm A (fun y hy => by simp [hy]), hfm R (fun y hy => by simp [hy]), insAfterL_append _ hprevA]

theorem getLast?_filterMap_snoc {α β} (g : α → Option β) (X : List α) (n : α) (M : List α) (c : β)
    (hn : g n = some c) (hM : M.filterMap g = []) : ((X ++ n :: M).filterMap g).getLast? = some c := by
  rw [List.filterMap_append, List.filterMap_cons, hn]
  simp only [hM]
  rw [List.getLast?_append]
  simp

/-- `prevLive` over a reversed prefix of a plain array: the last visible element, or the head -/
theorem prevLive_eq {d : Doc} {X : List PosNode} (h : ∀ n ∈ X, ∀ c, arrEntry d n = some c → n.pos = c) :
    prevLive d X.reverse = ((X.filterMap (arrEntry d)).getLast?).getD headId := by
  rcases prevLive_split d X.reverse with ⟨h1, h2⟩ | ⟨M, n, A', h1, h2, h3, h4⟩
  · have : X.filterMap (arrEntry d) = [] := by
      rw [List.filterMap_reverse] at h2; simpa using h2
    rw [h1, this]; rfl
  · have hX : X = A'.reverse ++ n :: M.reverse := by
      have := congrArg List.reverse h1
      simpa using this
    have hM : M.reverse.filterMap (arrEntry d) = [] := by
      rw [List.filterMap_reverse, h4]; rfl
    cases hgn : arrEntry d n with
    | none => simp [hgn] at h3
    | some c =>
      have hc : n.pos = c := h n (by rw [hX]; simp) c hgn
      rw [h2, hX, getLast?_filterMap_snoc _ _ _ _ c hgn hM, hc]; rfl

/-- `FindPrevCreatedAt` of a visible element of a plain array: its predecessor in the visible list -/
theorem plain_findPrev {d : Doc} {nodes : List PosNode} {L : Int} (pa : PlainArr nodes L) {s : Ticket}
    (hs : s ∈ ll d nodes) : findPrev d nodes s = some (predOf s (ll d nodes)) := by
  obtain ⟨n0, hn0, he0, hl0⟩ := mem_ll.1 hs
  have hheld : holds nodes s = true := holds_iff.2 ⟨n0, hn0, he0⟩
  obtain ⟨r, hr⟩ := prefixBefore_isSome s nodes [] hheld
  obtain ⟨pre, nu, C, hnodes, hrr, hnu, hpre⟩ := prefixBefore_split s nodes [] r hr
  simp only [List.append_nil] at hrr
  have hnue : arrEntry d nu = some s := by simp [arrEntry, hnu, hl0]
  have hspre : s ∉ pre.filterMap (arrEntry d) := by
    intro hm
    obtain ⟨n, hn, he⟩ := List.mem_filterMap.1 hm
    exact hpre n hn (arrEntry_some he).1
  have hll : ll d nodes = pre.filterMap (arrEntry d) ++ s :: C.filterMap (arrEntry d) := by
    unfold ll; rw [hnodes, List.filterMap_append, List.filterMap_cons, hnue]
  have hpl : prevLive d pre.reverse = ((pre.filterMap (arrEntry d)).getLast?).getD headId :=
    prevLive_eq (fun n hn c hc => pa.pe n (by rw [hnodes]; simp [hn]) c (arrEntry_some hc).1)
  simp only [findPrev, hr, hrr, Option.map_some, Option.some.injEq]
  rw [hpl, hll]
  unfold predOf
  rw [predFrom_append _ _ hspre]

/-! ### abstract heaps of documents -/

theorem absNode_arr {d : Doc} {p : Ticket} {l : List Ticket} (h : absNode d p = some (.arr l)) :
    ∃ pe nodes moved, d p = some pe ∧ pe.removed = false ∧ pe.body = .arr nodes moved ∧ l = ll d nodes := by
  unfold absNode at h
  cases hd : d p with
  | none => simp [hd] at h
  | some pe =>
    simp only [hd] at h
    cases hr : pe.removed with
    | true => simp [hr] at h
    | false =>
      simp only [hr, Bool.false_eq_true, if_false, Option.some.injEq] at h
      cases hb : pe.body <;> simp only [hb, absBody, reduceCtorEq] at h
      rename_i nodes moved
      injection h with h
      exact ⟨pe, nodes, moved, rfl, hr, hb, h.symm⟩

theorem absNode_closed (d : Doc) : Closed (absNode d) := by
  intro t b c ht hm
  obtain ⟨e, hd, hr, ha⟩ := absNode_live (by rw [live_eq_absNode, ht]; rfl)
  rw [ht] at ha
  injection ha with ha
  subst ha
  rw [← Option.isSome_iff_ne_none, ← live_eq_absNode]
  cases hb : e.body <;> simp only [hb, absBody, ABody.mentions] at hm
  · obtain ⟨k, hk⟩ := hm
    exact (liveMember_some hk).1
  · obtain ⟨n, _, hn⟩ := List.mem_filterMap.1 hm
    exact (arrEntry_some hn).2

theorem absNode_some_bound {d : Doc} {L : Int} (bd : Bounded d L) {t : Ticket} (h : absNode d t ≠ none) :
    t.lamport ≤ L := by
  cases hd : d t with
  | none => simp [absNode, hd] at h
  | some e => exact bd.ent _ _ hd

theorem absLeaf_inj {b b' : Body} (h : leafBody b = true) (h' : leafBody b' = true) (he : absLeaf b = absLeaf b') :
    b = b' := by
  cases b <;> simp [leafBody] at h <;> cases b' <;> simp [leafBody] at h' <;>
    simp [absLeaf, absBody] at he <;> simp [he]

/-! ### the concrete effect of `Add` on a plain array -/

section insEffect
variable {H : Home} {d : Doc} {L : Int} {p x : Ticket} {pe : Elem} {nodes nodes' : List PosNode}
  {moved : Ticket → Option Ticket} {b : Body}

theorem live_insRes (hd : d p = some pe) (hx : d x = none) (c : Ticket) :
    live (insRes d p pe nodes' moved b x) c = if c = x then true else live d c := by
  have hpx : p ≠ x := by intro h; rw [h] at hd; rw [hd] at hx; cases hx
  unfold live
  rw [insRes_apply]
  by_cases h1 : c = p
  · subst h1; simp [hpx, hd]
  · by_cases h2 : c = x
    · subst h2; simp [h1]
    · simp [h1, h2]

theorem skel_insRes (hd : d p = some pe) (hb : pe.body = .arr nodes moved) (hx : d x = none)
    (hv : leafBody b = true) (t : Ticket) : skel (insRes d p pe nodes' moved b x) t = skel d t := by
  unfold skel
  rw [insRes_apply]
  by_cases h1 : t = p
  · subst h1; simp [hd, hb, leafBody]
  · by_cases h2 : t = x
    · subst h2; simp [h1, hx, hv]
    · simp [h1, h2]

theorem Plain_insRes (pl : PlainArrs d L) (hx : L < x.lamport) (hxh : x ≠ headId) (hd : d p = some pe)
    (hb : pe.body = .arr nodes moved) (hv : leafBody b = true) {prev : Ticket}
    (hins : insertAfter prev ⟨x, some x⟩ nodes = some nodes') :
    PlainArrs (insRes d p pe nodes' moved b x) x.lamport := by
  intro t e ns mv h hbe
  rcases insRes_cases h with ⟨rfl, rfl⟩ | ⟨_, rfl, rfl⟩ | ⟨_, _, h3⟩
  · simp only [Body.arr.injEq] at hbe
    obtain ⟨rfl, rfl⟩ := hbe
    have pa := pl _ _ _ _ hd hb
    have hmem : ∀ n, n ∈ nodes' ↔ n = ⟨x, some x⟩ ∨ n ∈ nodes := fun n => mem_insertAfter hins
    have hold : ∀ n ∈ nodes, n.pos ≠ x := fun n hn hx' => by have := pa.pl n hn; rw [hx'] at this; omega
    refine ⟨?_, ?_, ?_, ?_⟩
    · intro n hn c hc
      rcases (hmem n).1 hn with rfl | hn'
      · simpa using hc
      · exact pa.pe n hn' c hc
    · obtain ⟨A, B, h1, h2⟩ := insertAfter_split hins
      rw [h2]
      apply pairwise_insert (h1 ▸ pa.pw)
      · intro y hy; exact hold y (by rw [h1]; simp [hy])
      · intro y hy; exact fun hh => hold y (by rw [h1]; simp [hy]) hh.symm
    · intro n hn
      rcases (hmem n).1 hn with rfl | hn'
      · exact hxh
      · exact pa.nh n hn'
    · intro n hn
      rcases (hmem n).1 hn with rfl | hn'
      · exact Int.le_refl _
      · have := pa.pl n hn'; omega
  · simp only [] at hbe; rw [hbe] at hv; simp [leafBody] at hv
  · exact (pl _ _ _ _ h3 hbe).mono (by omega)

theorem absNode_insRes (bd : Bounded d L) (pl : PlainArrs d L) (hx : L < x.lamport)
    (hd : d p = some pe) (hr : pe.removed = false) (hb : pe.body = .arr nodes moved) (hv : leafBody b = true)
    {prev : Ticket} (hprev : prev = headId ∨ prev ∈ ll d nodes)
    (hins : insertAfter prev ⟨x, some x⟩ nodes = some nodes') :
    absNode (insRes d p pe nodes' moved b x) = aadd (absNode d) p prev x (absLeaf b) := by
  have hdx : d x = none := by
    cases h : d x with
    | none => rfl
    | some e => have := bd.ent _ _ h; omega
  have hpx : p ≠ x := by intro h; rw [h] at hd; rw [hd] at hdx; cases hdx
  have hAp : absNode d p = some (.arr (ll d nodes)) := by simp [absNode, hd, hr, hb, absBody, ll]
  have hlive := live_insRes (nodes' := nodes') (moved := moved) (b := b) hd hdx
  funext t
  simp only [aadd, hAp]
  by_cases h1 : t = x
  · subst h1
    have hne : ¬ t = p := fun h => hpx h.symm
    simp [absNode, insRes_apply, hne, absBody_leaf _ hv]
  · by_cases h2 : t = p
    · subst h2
      simp only [h1, if_false, if_true]
      have pa := pl _ _ _ _ hd hb
      obtain ⟨nodes2, hins2, hfm⟩ := plain_insert (d := d) pa hx hprev
        (g2 := arrEntry (insRes d t pe nodes' moved b x))
        (by
          intro n hn
          unfold arrEntry
          cases hc : n.elem with
          | none => rfl
          | some c =>
            have : c ≠ x := fun hx' => by have := bd.elem _ _ _ _ _ _ hd hb hn hc; rw [hx'] at this; omega
            simp [hlive, this])
        (by simp [arrEntry, hlive])
      rw [hins] at hins2
      have : nodes' = nodes2 := Option.some.inj hins2
      subst this
      simp [absNode, insRes_apply, hr, absBody, hfm]
    · simp only [h1, h2, if_false]
      unfold absNode
      rw [insRes_apply]
      simp only [h1, h2, if_false]
      cases hdt : d t with
      | none => rfl
      | some e =>
        simp only []
        congr 2
        apply absBody_congr
        · intro keys m k mm hbe hm
          have : mm.child ≠ x := fun hx' => by
            have := bd.child _ _ _ _ _ _ hdt hbe hm; rw [hx'] at this; omega
          simp [hlive, this]
        · intro ns mv n c hbe hn hc
          have : c ≠ x := fun hx' => by
            have := bd.elem _ _ _ _ _ _ hdt hbe hn hc; rw [hx'] at this; omega
          simp [hlive, this]

end insEffect

/-- what an executed `Add` of a leaf into a plain array guarantees -/
theorem step_add {H : Home} {tw : Ticket → Bool} {d : Doc} {L : Int} {src : Source} {p prev ts : Ticket}
    {val : UVal} {l : List Ticket}
    (w : WF H d) (bd : Bounded d L) (pl : PlainArrs d L) (hL : L < ts.lamport) (hts : ts ≠ headId)
    (hp : absNode d p = some (.arr l)) (hprev : prev = headId ∨ prev ∈ l)
    (hleaf : leafBody val.body = true) (hrem : val.removed = false)
    (hpar : H.par ts = some p) (hsrc : src.needsReverse = true) :
    ∃ d', uexecute d tw src (.add p prev (val.reid ts) ts) = .ok (d', some (.remove p ts ts)) ∧
      WF H d' ∧ Bounded d' ts.lamport ∧ PlainArrs d' ts.lamport ∧ (∀ t, skel d' t = skel d t) ∧
      absNode d' = aadd (absNode d) p prev ts (absLeaf val.body) := by
  obtain ⟨pe, nodes, moved, hd, hr, hb, rfl⟩ := absNode_arr hp
  have pa := pl _ _ _ _ hd hb
  obtain ⟨nodes', hins, _⟩ := plain_insert (d := d) pa hL hprev (g2 := fun n => if n = ⟨ts, some ts⟩ then some ts else arrEntry d n)
    (by
      intro n hn
      have : n ≠ ⟨ts, some ts⟩ := fun hx => by have := pa.pl n hn; rw [hx] at this; simp only [] at this; omega
      simp [this])
    (by simp)
  have hdx : d ts = none := by
    cases h : d ts with
    | none => rfl
    | some e => have := bd.ent _ _ h; omega
  have hmem : ∀ n, n ∈ nodes' ↔ n = ⟨ts, some ts⟩ ∨ n ∈ nodes := fun n => mem_insertAfter hins
  refine ⟨insRes d p pe nodes' moved val.body ts, ?_, WF_insRes w bd hL hd hb hleaf hmem hpar,
    Bounded_insRes bd hL hd hb hleaf hmem, Plain_insRes pl hL hts hd hb hleaf hins,
    skel_insRes hd hb hdx hleaf, absNode_insRes bd pl hL hd hr hb hleaf hprev hins⟩
  have happ : applyAddU d p prev (val.reid ts) ts = .ok (insRes d p pe nodes' moved val.body ts) := by
    unfold applyAddU
    simp only [hd, hb, arrAdd, hins, Option.map_some]
    rw [instantiate_leaf _ _ _ _ (by simpa [UVal.reid] using hleaf)]
    simp only [UVal.reid, hrem]
    rfl
  simp only [uexecute, UVal.reid, ne_eq, not_true_eq_false, if_false]
  simp only [UVal.reid] at happ
  rw [happ]
  simp only [hsrc, gate, if_true]
  rfl

/-! ### the concrete effect of `Remove` on a plain array -/

theorem absNode_kill_arr {H : Home} {d : Doc} {p u : Ticket} {pe : Elem} {nodes : List PosNode}
    {moved : Ticket → Option Ticket} (w : WF H d) (hd : d p = some pe) (hr : pe.removed = false)
    (hb : pe.body = .arr nodes moved) (hu : u ∈ ll d nodes) (hul : skel d u = none) :
    absNode (kill d (some u)) = adel (absNode d) p u := by
  have hAp : absNode d p = some (.arr (ll d nodes)) := by simp [absNode, hd, hr, hb, absBody, ll]
  obtain ⟨nu, hnu, hnue, hlu⟩ := mem_ll.1 hu
  have hparu : H.par u = some p := w.arrMem _ _ _ _ _ _ hd hr hb hnu hnue
  have hpu : p ≠ u := by
    intro h; subst h
    have := skel_none_iff.1 hul pe hd
    simp [hb, leafBody] at this
  funext t
  simp only [adel, hAp]
  by_cases h1 : t = u
  · subst h1
    simp only [if_true]
    exact absNode_none_iff.2 (by simp [live_kill])
  · by_cases h2 : t = p
    · subst h2
      have hk : kill d (some u) t = some pe := by
        have : ¬ u = t := fun h => h1 h.symm
        simp [kill, this, hd]
      simp only [h1, if_false, if_true, absNode, hk, hr, Bool.false_eq_true, hb, absBody, Option.some.injEq,
        ABody.arr.injEq]
      unfold eraseV ll
      rw [List.filter_filterMap]
      apply filterMap_congr'
      intro n _
      unfold arrEntry
      cases hm : n.elem with
      | none => rfl
      | some c =>
        simp only [live_kill]
        by_cases h : c = u
        · by_cases hl : live d u = true <;> simp [h, hl, Option.filter]
        · by_cases hl : live d c = true <;> simp [h, hl, Option.filter]
    · simp only [h1, h2, if_false]
      have hk : kill d (some u) t = d t := by
        have : ¬ u = t := fun h => h1 h.symm
        simp [kill, this]
      unfold absNode
      rw [hk]
      cases hdt : d t with
      | none => rfl
      | some e =>
        simp only []
        cases hre : e.removed with
        | true => rfl
        | false =>
        simp only [Bool.false_eq_true, if_false]
        congr 1
        apply absBody_congr
        · intro keys m k mm hbe hm
          have : mm.child ≠ u := by
            intro hx
            have := (w.objMem _ _ _ _ _ _ hdt hre hbe hm).2.2
            rw [hx, hparu] at this; injection this with this; exact h2 this.symm
          simp [live_kill, this]
        · intro ns mv n c hbe hn hc
          have : c ≠ u := by
            intro hx
            have := w.arrMem _ _ _ _ _ _ hdt hre hbe hn hc
            rw [hx, hparu] at this; injection this with this; exact h2 this.symm
          simp [live_kill, this]

theorem Plain_kill {d : Doc} {L : Int} (pl : PlainArrs d L) (o : Option Ticket) : PlainArrs (kill d o) L := by
  intro t e ns mv h hbe
  obtain ⟨e0, hd, hb0, _⟩ := kill_some h
  exact pl _ _ _ _ hd (hb0 ▸ hbe)

/-- what an executed `Remove` of a visible leaf of a plain array guarantees -/
theorem step_del {H : Home} {tw : Ticket → Bool} {d : Doc} {L : Int} {src : Source} {p u ts : Ticket}
    {l : List Ticket} (w : WF H d) (bd : Bounded d L) (pl : PlainArrs d L) (hL : L < ts.lamport)
    (hp : absNode d p = some (.arr l)) (horph : orphaned d tw orphanFuel p = false) (hmem : u ∈ l)
    (hleaf : ∃ b, absNode d u = some b ∧ b.isLeaf = true) (htw : tw u = false)
    (hsrc : src.needsReverse = true) :
    ∃ ue, d u = some ue ∧ leafBody ue.body = true ∧
      uexecute d tw src (.remove p u ts) =
        .ok (kill d (some u), some (.add p (predOf u l) (leafCopy u ue) ts)) ∧
      WF H (kill d (some u)) ∧ Bounded (kill d (some u)) L ∧ PlainArrs (kill d (some u)) L ∧
      (∀ t, skel (kill d (some u)) t = skel d t) ∧
      absNode (kill d (some u)) = adel (absNode d) p u := by
  obtain ⟨pe, nodes, moved, hd, hr, hb, rfl⟩ := absNode_arr hp
  obtain ⟨b, hbu, hbl⟩ := hleaf
  obtain ⟨ue, hue, hur, hul, _⟩ := absNode_leaf hbu hbl
  have pa := pl _ _ _ _ hd hb
  obtain ⟨nu, hnu, hnue, _⟩ := mem_ll.1 hmem
  have hupar : ue.parent = some p := (w.par _ _ hue).trans (w.arrMem _ _ _ _ _ _ hd hr hb hnu hnue)
  have hnc : skel d u = none :=
    skel_none_iff.2 (fun e he => by rw [hue] at he; injection he with he; subst he; exact hul)
  have horphu : orphaned d tw orphanFuel u = false := by
    rw [show orphanFuel = 63 + 1 from rfl, orphaned_succ_some hue hupar, hur, htw,
      orphaned_mono _ _ 63 p horph]; rfl
  have hafter : ts.after u = true := after_of_lamport (by have := bd.ent _ _ hue; omega)
  obtain ⟨pv, cv, hfp, hcv, he⟩ := uexecute_remove_arr (tw := tw) (src := src) (ts := ts)
    hd hb hue hupar (holds_iff.2 ⟨nu, hnu, hnue⟩) hsrc (fun _ => horphu) hafter
  rw [plain_findPrev pa hmem] at hfp
  rw [capture_leaf hue hul, hur] at hcv
  have h1 : pv = predOf u (ll d nodes) := (Option.some.inj hfp).symm
  have h2 : cv = leafCopy u ue := (Option.some.inj hcv).symm
  subst h1 h2
  exact ⟨ue, hue, hul, he, WF_kill w _, Bounded_kill bd _, Plain_kill pl _, skel_kill_leaf hnc,
    absNode_kill_arr w hd hr hb hmem hnc⟩

/-! ### printing under the simulation relation -/

theorem vis_sim {H H' : Home} {d d' : Doc} {ρ : Ticket → Ticket} {N : Int} (w : WF H d) (w' : WF H' d')
    (s : Sim ρ N (absNode d) (absNode d')) {a : Ticket} (haN : a.lamport ≤ N) (hl : live d a = true) :
    vis d' (ρ a) = (vis d a).map ρ := by
  obtain ⟨e, hd, her, ha⟩ := absNode_live hl
  have hn := s.node a haN
  rw [ha] at hn
  have hl' : live d' (ρ a) = true := by rw [live_eq_absNode, hn]; rfl
  obtain ⟨e', hd', her', ha'⟩ := absNode_live hl'
  rw [ha'] at hn
  simp only [Option.map_some, Option.some.injEq] at hn
  simp only [vis, hd, hd']
  cases hbe : e.body <;> cases hbe' : e'.body <;> simp only [hbe, hbe', absBody, ABody.map, reduceCtorEq] at hn
  · injection hn with hn; simp [visBody, Vis.map, hn]
  · rename_i keys m keys' m'
    injection hn with hn
    simp only [visBody, Vis.map]
    congr 1
    rw [show objEntry d m = fun k => (liveMember d m k).map (fun c => (k, c)) from funext (objEntry_eq d m),
        show objEntry d' m' = fun k => (liveMember d' m' k).map (fun c => (k, c)) from funext (objEntry_eq d' m')]
    have hdom : ∀ k, liveMember d' m' k ≠ none → liveMember d m k ≠ none := by
      intro k hk h0
      have := congrFun hn k
      rw [h0] at this; exact hk this
    rw [visKeys_ext (f := liveMember d' m') (w'.objSorted _ _ _ _ hd' hbe') (w.objSorted _ _ _ _ hd hbe)
      (by
        intro k hk
        cases hk' : liveMember d' m' k with
        | none => exact absurd hk' hk
        | some c =>
          obtain ⟨_, mm, hmm, _⟩ := liveMember_some hk'
          exact (w'.objMem _ _ _ _ _ _ hd' her' hbe' hmm).1)
      (by
        intro k hk
        have hk2 := hdom k hk
        cases hk' : liveMember d m k with
        | none => exact absurd hk' hk2
        | some c =>
          obtain ⟨_, mm, hmm, _⟩ := liveMember_some hk'
          exact (w.objMem _ _ _ _ _ _ hd her hbe hmm).1)]
    rw [List.map_filterMap]
    apply filterMap_congr'
    intro k _
    rw [congrFun hn k]
    cases liveMember d m k <;> rfl
  · injection hn with hn; simp only [visBody, Vis.map]; exact congrArg Vis.arr hn
  · injection hn with h1 h2; simp [visBody, Vis.map, h2]
  · injection hn with hn; simp [visBody, Vis.map, hn]

theorem marshal_sim {H H' : Home} {d d' : Doc} {ρ : Ticket → Ticket} {N : Int} (w : WF H d) (w' : WF H' d')
    (bd : Bounded d N) (s : Sim ρ N (absNode d) (absNode d')) (fuel : Nat) {a : Ticket} (hl : live d a = true) :
    marshal d fuel a = marshal d' fuel (ρ a) := by
  apply marshal_rename (d1 := d) (d2 := d') ρ a _ fuel a (Or.inr rfl)
  intro c hc
  have hlc : live d c = true := by
    rcases hc with hc | hc
    · exact hc
    · exact hc ▸ hl
  obtain ⟨e, he, _⟩ := live_elem hlc
  exact vis_sim w w' s (bd.ent _ _ he) hlc

end Yorkie.Undo
