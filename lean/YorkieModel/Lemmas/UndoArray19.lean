/-
Lemmas for C14, part 28: a heap as it is AFTER an array element with content was deleted and restored
by undo: `{"arr":[{"p":{}}]}` where the element lives under its second identity `tX'`, the tombstone
`tX` of the first identity is still in the node list and still refers to the (re-registered) member
`tP`.  It is well formed (`WF` asks nothing of tombstoned containers), so the depth-1 theorems apply
to edits inside the restored element.
-/
import YorkieModel.Lemmas.UndoArray
namespace Yorkie.Undo.Restored
open Yorkie Yorkie.Crdt Yorkie.Undo

def tA : Ticket := ⟨1, 1, 1⟩
def tX : Ticket := ⟨2, 1, 1⟩
def tP : Ticket := ⟨2, 2, 1⟩
def tX' : Ticket := ⟨4, 1, 1⟩
def eRoot : Elem := ⟨none, false, .obj ["arr"] (fun k => if k = "arr" then some ⟨tA, tA⟩ else none)⟩
def eArr : Elem := ⟨some rootId, false, .arr [⟨tX', some tX'⟩, ⟨tX, some tX⟩] (fun _ => none)⟩
/-- the tombstone of the first identity -/
def eX : Elem := ⟨some tA, true, .obj ["p"] (fun k => if k = "p" then some ⟨tP, tP⟩ else none)⟩
def eX' : Elem := ⟨some tA, false, .obj ["p"] (fun k => if k = "p" then some ⟨tP, tP⟩ else none)⟩
/-- the member, re-registered below the second identity -/
def eP : Elem := ⟨some tX', false, emptyObj⟩
def dR : Doc := fun t => if t = rootId then some eRoot else if t = tA then some eArr else if t = tX then some eX
  else if t = tX' then some eX' else if t = tP then some eP else none
def hR : Hist := { doc := dR, lamport := 4, actor := 1 }
def HR : Home :=
  { par := fun t => if t = rootId then none else if t = tA then some rootId else if t = tX then some tA
      else if t = tX' then some tA else if t = tP then some tX' else some tP,
    key := fun t => if t = tA then "arr" else if t = tP then "p" else "b" }

theorem dR_cases {t : Ticket} {e : Elem} (h : dR t = some e) :
    (t = rootId ∧ e = eRoot) ∨ (t = tA ∧ e = eArr) ∨ (t = tX ∧ e = eX) ∨ (t = tX' ∧ e = eX') ∨ (t = tP ∧ e = eP) := by
  unfold dR at h
  split at h
  · exact Or.inl ⟨‹_›, (Option.some.inj h).symm⟩
  · split at h
    · exact Or.inr (Or.inl ⟨‹_›, (Option.some.inj h).symm⟩)
    · split at h
      · exact Or.inr (Or.inr (Or.inl ⟨‹_›, (Option.some.inj h).symm⟩))
      · split at h
        · exact Or.inr (Or.inr (Or.inr (Or.inl ⟨‹_›, (Option.some.inj h).symm⟩)))
        · split at h
          · exact Or.inr (Or.inr (Or.inr (Or.inr ⟨‹_›, (Option.some.inj h).symm⟩)))
          · cases h

theorem wf_dR : WF HR dR := by
  constructor
  · intro t e h
    rcases dR_cases h with ⟨rfl, rfl⟩ | ⟨rfl, rfl⟩ | ⟨rfl, rfl⟩ | ⟨rfl, rfl⟩ | ⟨rfl, rfl⟩ <;> decide
  · intro t e q h hq
    rcases dR_cases h with ⟨rfl, rfl⟩ | ⟨rfl, rfl⟩ | ⟨rfl, rfl⟩ | ⟨rfl, rfl⟩ | ⟨rfl, rfl⟩ <;>
      simp [HR, tA, tX, tX', tP, rootId] at hq <;> subst hq <;> decide
  · intro p pe keys m h hb
    rcases dR_cases h with ⟨rfl, rfl⟩ | ⟨rfl, rfl⟩ | ⟨rfl, rfl⟩ | ⟨rfl, rfl⟩ | ⟨rfl, rfl⟩ <;>
      simp [eRoot, eArr, eX, eX', eP, emptyObj] at hb <;> (first | (rw [← hb.1]; simp) | (rw [hb.1]; simp))
  · intro p pe keys m k mm h hr hb hm
    rcases dR_cases h with ⟨rfl, rfl⟩ | ⟨rfl, rfl⟩ | ⟨rfl, rfl⟩ | ⟨rfl, rfl⟩ | ⟨rfl, rfl⟩ <;>
      simp [eRoot, eArr, eX, eX', eP, emptyObj] at hb hr
    · obtain ⟨rfl, rfl⟩ := hb
      by_cases hk : k = "arr"
      · simp [hk] at hm; subst hm; subst hk; decide
      · simp [hk] at hm
    · obtain ⟨rfl, rfl⟩ := hb
      by_cases hk : k = "p"
      · simp [hk] at hm; subst hm; subst hk; decide
      · simp [hk] at hm
    · obtain ⟨rfl, rfl⟩ := hb
      cases hm
  · intro x xe nodes mv n c h hr hb hn hc
    rcases dR_cases h with ⟨rfl, rfl⟩ | ⟨rfl, rfl⟩ | ⟨rfl, rfl⟩ | ⟨rfl, rfl⟩ | ⟨rfl, rfl⟩ <;>
      simp [eRoot, eArr, eX, eX', eP, emptyObj] at hb
    obtain ⟨rfl, rfl⟩ := hb
    simp at hn
    rcases hn with rfl | rfl <;> simp at hc <;> subst hc <;> decide

theorem bounded_dR : Bounded dR 4 := by
  constructor
  · intro t e h
    rcases dR_cases h with ⟨rfl, rfl⟩ | ⟨rfl, rfl⟩ | ⟨rfl, rfl⟩ | ⟨rfl, rfl⟩ | ⟨rfl, rfl⟩ <;> decide
  · intro p pe keys m k mm h hb hm
    rcases dR_cases h with ⟨rfl, rfl⟩ | ⟨rfl, rfl⟩ | ⟨rfl, rfl⟩ | ⟨rfl, rfl⟩ | ⟨rfl, rfl⟩ <;>
      simp [eRoot, eArr, eX, eX', eP, emptyObj] at hb
    · obtain ⟨rfl, rfl⟩ := hb
      by_cases hk : k = "arr"
      · simp [hk] at hm; subst hm; decide
      · simp [hk] at hm
    · obtain ⟨rfl, rfl⟩ := hb
      by_cases hk : k = "p"
      · simp [hk] at hm; subst hm; decide
      · simp [hk] at hm
    · obtain ⟨rfl, rfl⟩ := hb
      by_cases hk : k = "p"
      · simp [hk] at hm; subst hm; decide
      · simp [hk] at hm
    · obtain ⟨rfl, rfl⟩ := hb
      cases hm
  · intro p pe keys m k mm h hb hm
    rcases dR_cases h with ⟨rfl, rfl⟩ | ⟨rfl, rfl⟩ | ⟨rfl, rfl⟩ | ⟨rfl, rfl⟩ | ⟨rfl, rfl⟩ <;>
      simp [eRoot, eArr, eX, eX', eP, emptyObj] at hb
    · obtain ⟨rfl, rfl⟩ := hb
      by_cases hk : k = "arr"
      · simp [hk] at hm; subst hm; decide
      · simp [hk] at hm
    · obtain ⟨rfl, rfl⟩ := hb
      by_cases hk : k = "p"
      · simp [hk] at hm; subst hm; decide
      · simp [hk] at hm
    · obtain ⟨rfl, rfl⟩ := hb
      by_cases hk : k = "p"
      · simp [hk] at hm; subst hm; decide
      · simp [hk] at hm
    · obtain ⟨rfl, rfl⟩ := hb
      cases hm
  · intro x xe nodes mv n c h hb hn hc
    rcases dR_cases h with ⟨rfl, rfl⟩ | ⟨rfl, rfl⟩ | ⟨rfl, rfl⟩ | ⟨rfl, rfl⟩ | ⟨rfl, rfl⟩ <;>
      simp [eRoot, eArr, eX, eX', eP, emptyObj] at hb
    obtain ⟨rfl, rfl⟩ := hb
    simp at hn
    rcases hn with rfl | rfl <;> simp at hc <;> subst hc <;> decide

theorem fresh_hR : Fresh hR := ⟨⟨HR, wf_dR⟩, bounded_dR, (by decide)⟩

end Yorkie.Undo.Restored
