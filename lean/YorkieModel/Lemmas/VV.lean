/- Helper lemmas about the association-list version vector. -/
import YorkieModel.Model.Time
namespace Yorkie
namespace VV

@[simp] theorem get?_nil (a : Actor) : get? [] a = none := rfl

@[simp] theorem get?_cons (k : Actor) (x : Int) (r : VV) (a : Actor) :
    get? ((k, x) :: r) a = if k = a then some x else get? r a := rfl

theorem get?_set (v : VV) (a b : Actor) (x : Int) :
    (v.set a x).get? b = if a = b then some x else v.get? b := by
  induction v with
  | nil => simp [set]
  | cons p r ih =>
    obtain ⟨k, y⟩ := p
    simp only [set]
    by_cases h : k = a
    · subst h; simp only [if_true, get?_cons]; split <;> simp_all
    · simp only [h, if_false, get?_cons, ih]
      by_cases h2 : k = b
      · subst h2; simp [Ne.symm h]
      · simp [h2]

theorem get?_set_self (v : VV) (a : Actor) (x : Int) : (v.set a x).get? a = some x := by
  simp [get?_set]

theorem get?_set_ne (v : VV) {a b : Actor} (x : Int) (h : a ≠ b) : (v.set a x).get? b = v.get? b := by
  simp [get?_set, h]

theorem get?_append (l₁ l₂ : VV) (a : Actor) :
    get? (l₁ ++ l₂) a = (get? l₁ a).or (get? l₂ a) := by
  induction l₁ with
  | nil => simp
  | cons p r ih =>
    obtain ⟨k, y⟩ := p
    simp only [List.cons_append, get?_cons]
    split <;> simp [ih]

theorem get?_mapVal (l : VV) (g : Actor → Int → Int) (a : Actor) :
    get? (l.map (fun p => (p.1, g p.1 p.2))) a = (get? l a).map (g a) := by
  induction l with
  | nil => simp
  | cons p r ih =>
    obtain ⟨k, y⟩ := p
    simp only [List.map_cons, get?_cons]
    split
    · subst_vars; simp
    · exact ih

theorem get?_filterKey (l : VV) (q : Actor → Bool) (a : Actor) :
    get? (List.filter (fun p => q p.1) l) a = if q a then get? l a else none := by
  induction l with
  | nil => simp
  | cons p r ih =>
    obtain ⟨k, y⟩ := p
    simp only [List.filter_cons]
    by_cases hk : q k
    · simp only [hk, if_true, get?_cons]
      by_cases h : k = a
      · subst h; simp [hk]
      · simp [h, ih]
    · simp only [hk, Bool.false_eq_true, if_false, ih, get?_cons]
      by_cases h : k = a
      · subst h; simp [hk]
      · simp [h]

theorem has_eq (v : VV) (a : Actor) : v.has a = (v.get? a).isSome := rfl

/-- characterisation of `VersionVector.Max` through lookups -/
theorem get?_max (v o : VV) (a : Actor) :
    (v.max o).get? a =
      match v.get? a with
      | some x => some (maxVal o a x)
      | none => o.get? a := by
  unfold max
  rw [get?_append, get?_mapVal, get?_filterKey (q := fun k => !(v.has k))]
  cases hv : v.get? a <;> simp [has_eq, hv]

/-- characterisation of `VersionVector.Min` through lookups -/
theorem get?_min (v o : VV) (a : Actor) :
    (v.min o).get? a =
      match v.get? a with
      | some x => some (minVal o a x)
      | none => (o.get? a).map (zeroVal a) := by
  unfold min
  rw [get?_append, get?_mapVal, get?_mapVal, get?_filterKey (q := fun k => !(v.has k))]
  cases hv : v.get? a <;> simp [has_eq, hv]

/-- every entry of `v.max o` is an entry of `v` or of `o` -/
theorem max_entry_cases (v o : VV) (a : Actor) (x : Int) (h : (v.max o).get? a = some x) :
    v.get? a = some x ∨ o.get? a = some x := by
  rw [get?_max] at h
  cases hv : v.get? a with
  | none => rw [hv] at h; exact Or.inr h
  | some y =>
    rw [hv] at h
    injection h with h
    unfold maxVal at h
    cases ho : o.get? a with
    | none => simp only [ho] at h; exact Or.inl (by rw [h])
    | some z =>
      simp only [ho] at h
      rcases Int.le_total y z with hyz | hyz
      · right; rw [← h, Int.max_eq_right hyz]
      · left; rw [← h, Int.max_eq_left hyz]

/-- `v ≤ w`: every entry of `v` is present in `w` with a value at least as large. -/
def le (v w : VV) : Prop := ∀ a x, v.get? a = some x → ∃ y, w.get? a = some y ∧ x ≤ y

theorem le_refl (v : VV) : le v v := fun _ x h => ⟨x, h, Int.le_refl x⟩

theorem le_trans {u v w : VV} (h₁ : le u v) (h₂ : le v w) : le u w := by
  intro a x h
  obtain ⟨y, hy, hxy⟩ := h₁ a x h
  obtain ⟨z, hz, hyz⟩ := h₂ a y hy
  exact ⟨z, hz, Int.le_trans hxy hyz⟩

theorem le_max_left (v o : VV) : le v (v.max o) := by
  intro a x h
  rw [get?_max, h]
  refine ⟨_, rfl, ?_⟩
  unfold maxVal
  cases o.get? a with
  | none => exact Int.le_refl x
  | some y => exact Int.le_max_left x y

theorem le_max_right (v o : VV) : le o (v.max o) := by
  intro a y h
  rw [get?_max, h]
  cases v.get? a with
  | none => exact ⟨y, rfl, Int.le_refl y⟩
  | some x => exact ⟨Max.max x y, by simp [maxVal, h], Int.le_max_right x y⟩

/-- setting an entry to a value not below its old one only grows the vector -/
theorem le_set (v : VV) (a : Actor) (l : Int) (h : ∀ x, v.get? a = some x → x ≤ l) :
    le v (v.set a l) := by
  intro b x hb
  rw [get?_set]
  by_cases hab : a = b
  · subst hab; exact ⟨l, by simp, h x hb⟩
  · exact ⟨x, by simp [hab, hb], Int.le_refl x⟩

theorem versionOf_le_of_le {v w : VV} (h : le v w) (hw : ∀ a y, w.get? a = some y → 0 ≤ y) (a : Actor) :
    v.versionOf a ≤ w.versionOf a := by
  unfold versionOf
  cases hv : v.get? a with
  | none =>
    cases hw' : w.get? a with
    | none => simp
    | some y => simpa using hw a y hw'
  | some x =>
    obtain ⟨y, hy, hxy⟩ := h a x hv
    simp [hy, hxy]

end VV

/-! ### `MinVersionVector` -/

theorem get?_keyMap (l : List Actor) (f : Actor → Int) (a : Actor) :
    VV.get? (l.map (fun k => (k, f k))) a = if a ∈ l then some (f a) else none := by
  induction l with
  | nil => simp
  | cons k r ih =>
    simp only [List.map_cons, VV.get?_cons, ih, List.mem_cons]
    by_cases h : k = a
    · subst h; simp
    · have : ¬ a = k := fun e => h e.symm
      simp [h, this]

def VV.NonNeg (v : VV) : Prop := ∀ a y, v.get? a = some y → 0 ≤ y

theorem VV.NonNeg.versionOf {v : VV} (h : v.NonNeg) (a : Actor) : 0 ≤ v.versionOf a := by
  unfold VV.versionOf
  cases hv : v.get? a with
  | none => simp
  | some y => simpa using h a y hv

theorem minOver_go_spec (a : Actor) (vs : List VV) (hvs : ∀ v ∈ vs, v.NonNeg) :
    ∀ acc : Option Int, (∀ m, acc = some m → 0 ≤ m) →
      0 ≤ minOver.go a vs acc ∧ (∀ v ∈ vs, minOver.go a vs acc ≤ v.versionOf a) ∧
      (∀ m, acc = some m → minOver.go a vs acc ≤ m) := by
  induction vs with
  | nil =>
    intro acc hacc
    refine ⟨?_, by simp, ?_⟩
    · cases acc with
      | none => simp [minOver.go]
      | some m => simpa [minOver.go] using hacc m rfl
    · intro m hm; subst hm; simp [minOver.go]
  | cons v r ih =>
    intro acc hacc
    have hr : ∀ w ∈ r, w.NonNeg := fun w hw => hvs w (List.mem_cons_of_mem _ hw)
    have hv : v.NonNeg := hvs v (List.mem_cons_self ..)
    cases hg : v.get? a with
    | none =>
      simp only [minOver.go, hg]
      refine ⟨Int.le_refl 0, ?_, fun m hm => hacc m hm⟩
      intro w hw
      rcases List.mem_cons.mp hw with rfl | hw
      · simp [VV.versionOf, hg]
      · exact (hr w hw).versionOf a
    | some x =>
      simp only [minOver.go, hg]
      have hx : 0 ≤ x := hv a x hg
      have hacc' : ∀ m', (some (accMin acc x)) = some m' → 0 ≤ m' := by
        intro m' hm'
        cases acc with
        | none => simp [accMin] at hm'; omega
        | some m =>
          simp [accMin] at hm'
          have := hacc m rfl
          omega
      obtain ⟨h0, h1, h2⟩ := ih hr _ hacc'
      refine ⟨h0, ?_, ?_⟩
      · intro w hw
        rcases List.mem_cons.mp hw with rfl | hw
        · have := h2 _ rfl
          simp only [VV.versionOf, hg, Option.getD_some]
          cases acc with
          | none => simpa [accMin] using this
          | some m => simp only [accMin] at this ⊢; omega
        · exact h1 w hw
      · intro m hm
        subst hm
        have := h2 _ rfl
        simp only [accMin] at this ⊢; omega

/-- `MinVersionVector` never overstates any of its inputs (absent counts as 0). -/
theorem minVV_le_versionOf (vs : List VV) (hvs : ∀ v ∈ vs, v.NonNeg) :
    ∀ v ∈ vs, ∀ a x, (minVV vs).get? a = some x → x ≤ v.versionOf a := by
  intro v hv a x hx
  unfold minVV at hx
  rw [get?_keyMap] at hx
  split at hx
  · injection hx with hx
    subst hx
    exact (minOver_go_spec a vs hvs none (by simp)).2.1 v hv
  · cases hx

theorem minVV_nonneg (vs : List VV) (hvs : ∀ v ∈ vs, v.NonNeg) : (minVV vs).NonNeg := by
  intro a x hx
  unfold minVV at hx
  rw [get?_keyMap] at hx
  split at hx
  · injection hx with hx
    subst hx
    exact (minOver_go_spec a vs hvs none (by simp)).1
  · cases hx

end Yorkie
