/-
Text convergence, part 2: an abstract operation on cells (`AOp`), the commutation of two of them
(`AOp.run_comm`), and the concrete per-cell functions of delete and style.
Core Lean only.
-/
import YorkieModel.Lemmas.TextConvCell
set_option linter.unusedSimpArgs false
namespace Yorkie.TextConv
open Yorkie Yorkie.Text

/-- the shape common to `Text.Edit` and `Text.Style` on cells: split at `to`, split at `fr`, apply `f`
    between the two anchors, insert `X` after `fr` with the skip rule (`X = []` for style and for a
    pure deletion) -/
structure AOp where
  fr : Option Id
  to : Option Id
  f : Cell → Cell
  ts : Ticket
  X : Cells

namespace AOp

/-- the id-preserving part -/
def M (o : AOp) (l : Cells) : Cells :=
  rmap o.fr o.to o.f (splitAfterO o.fr (splitAfterO o.to l))

def run (o : AOp) (l : Cells) : Cells := insAfter o.fr o.ts o.X (o.M l)

theorem cids_M (o : AOp) (go : Good o.f) (l : Cells) : cids (o.M l) = cids l := by
  unfold M
  rw [cids_rmap go.id, cids_splitAfterO, cids_splitAfterO]

theorem M_comm (a b : AOp) (ga : Good a.f) (gb : Good b.f) (hfg : ∀ c, a.f (b.f c) = b.f (a.f c))
    (l : Cells) : a.M (b.M l) = b.M (a.M l) := by
  unfold M
  rw [splitAfterO_rmap gb a.to, splitAfterO_comm a.to b.fr, splitAfterO_comm a.to b.to,
    splitAfterO_rmap gb a.fr, splitAfterO_comm a.fr b.fr, splitAfterO_comm a.fr b.to,
    rmap_comm ga.id gb.id hfg,
    ← splitAfterO_rmap ga b.fr, ← splitAfterO_rmap ga b.to]

theorem M_insAfter (a : AOp) (ga : Good a.f) {tb : Ticket} {Xb : Cells}
    (hXb : ∀ x ∈ Xb, x.id.1 = tb) (hfix : ∀ x ∈ Xb, a.f x = x)
    (hfr : ∀ i, a.fr = some i → i.1 ≠ tb) (hto : ∀ i, a.to = some i → i.1 ≠ tb)
    {z : Cells} (hz : ∀ c ∈ z, c.id.1 ≠ tb) (g : Option Id) :
    a.M (insAfter g tb Xb z) = insAfter g tb Xb (a.M z) := by
  have notin : ∀ i : Id, i.1 ≠ tb → i ∉ cids Xb := by
    intro i hi hmem
    obtain ⟨x, hx, e⟩ := List.mem_map.1 hmem
    exact hi (by rw [← e]; exact hXb x hx)
  unfold M
  rw [splitAfterO_insAfter hXb hto, splitAfterO_insAfter hXb hfr,
    rmap_insAfter ga.id hfix (fun i e => notin i (hfr i e)) (fun i e => notin i (hto i e))]
  intro c hc
  have : c.id ∈ cids (splitAfterO a.fr (splitAfterO a.to z)) := List.mem_map.2 ⟨c, hc, rfl⟩
  rw [cids_splitAfterO, cids_splitAfterO] at this
  obtain ⟨c', hc', e⟩ := List.mem_map.1 this
  exact notin c.id (by rw [← e]; exact hz c' hc')

/-- **Commutation of two abstract operations.** -/
theorem run_comm (a b : AOp) (ga : Good a.f) (gb : Good b.f)
    (hfg : ∀ c, a.f (b.f c) = b.f (a.f c))
    (hts : a.ts ≠ b.ts)
    (hXa : ∀ x ∈ a.X, x.id.1 = a.ts) (hXb : ∀ x ∈ b.X, x.id.1 = b.ts)
    (hfa : ∀ x ∈ b.X, a.f x = x) (hfb : ∀ x ∈ a.X, b.f x = x)
    (hafr : ∀ i, a.fr = some i → i.1 ≠ b.ts) (hato : ∀ i, a.to = some i → i.1 ≠ b.ts)
    (hbfr : ∀ i, b.fr = some i → i.1 ≠ a.ts) (hbto : ∀ i, b.to = some i → i.1 ≠ a.ts)
    {l : Cells} (hl : ∀ c ∈ l, c.id.1 ≠ a.ts ∧ c.id.1 ≠ b.ts) :
    a.run (b.run l) = b.run (a.run l) := by
  have tick : ∀ (o : AOp) (_ : Good o.f) (t : Ticket), (∀ c ∈ l, c.id.1 ≠ t) →
      ∀ c ∈ o.M l, c.id.1 ≠ t := by
    intro o go t h c hc
    have : c.id ∈ cids (o.M l) := List.mem_map.2 ⟨c, hc, rfl⟩
    rw [cids_M o go] at this
    obtain ⟨c', hc', e⟩ := List.mem_map.1 this
    rw [← e]; exact h c' hc'
  have notin : ∀ (t : Ticket) (X : Cells), (∀ x ∈ X, x.id.1 = t) → ∀ i : Id, i.1 ≠ t → i ∉ cids X := by
    intro t X hX i hi hmem
    obtain ⟨x, hx, e⟩ := List.mem_map.1 hmem
    exact hi (by rw [← e]; exact hX x hx)
  unfold run
  rw [M_insAfter a ga hXb hfa hafr hato (tick b gb b.ts (fun c hc => (hl c hc).2)),
    M_insAfter b gb hXa hfb hbfr hbto (tick a ga a.ts (fun c hc => (hl c hc).1)),
    M_comm a b ga gb hfg,
    insAfter_comm hts hXa hXb (fun i e => notin _ _ hXb i (hafr i e))
      (fun i e => notin _ _ hXa i (hbfr i e))]

end AOp

end Yorkie.TextConv
