/-
Lemmas for C14, part 6: the history machine on single-operation entries, the stack invariant
(`Inv`: the stacks lead through the recorded states), runs of edits and depth-k undo/redo.
-/
import YorkieModel.Lemmas.UndoGood
import YorkieModel.Lemmas.UndoCompat
namespace Yorkie.Undo
open Yorkie Yorkie.Crdt

/-! ### the history machine on single-operation entries -/

/-- what the skip rule sees of the twin marks in the repaired tree: nothing -/
@[reducible] def noTw : Ticket → Bool := fun _ => false

theorem addTwins_nil (tw : Ticket → Bool) : addTwins tw [] = tw := rfl

/-- the ticket the next local change / undo / redo issues first -/
def Hist.next (h : Hist) : Ticket := ⟨h.lamport + 1, 1, h.actor⟩

theorem twinIds_plain {op : UOp} (h : op.plain = true) : twinIds op = [] := by
  cases op <;> simp [UOp.plain] at h <;> rfl

theorem plain_withTs {op : UOp} (t : Ticket) (h : op.plain = true) : (op.withTs t).plain = true := by
  cases op <;> simp [UOp.plain] at h <;> rfl

theorem reconcileSets_plain (h : Hist) {op : UOp} (hp : op.plain = true) : reconcileSets h [op] = h := by
  cases op <;> simp [UOp.plain] at hp <;> rfl

theorem doChange_one {h : Hist} {op : UOp} {d' : Doc} {r : UOp} (hp : op.plain = true)
    (he : uexecute h.doc noTw .loc op = .ok (d', some r)) :
    doChange h [op] = { h with doc := d', undo := push h.undo [r], redo := [], lamport := h.lamport + 1 } := by
  simp only [doChange_eq, List.isEmpty_cons, Bool.false_eq_true, if_false, runOps_cons, runOps_nil, he,
    List.nil_append, Option.toList_some, reconcileSets_plain h hp, List.reverse_cons,
    List.reverse_nil]

theorem reticket_one (h : Hist) {r : UOp} (hp : r.plain = true) (i : Nat) :
    reticket h i [r] = (h, [r.withTs ⟨h.lamport + 1, i, h.actor⟩]) := by
  rw [reticket_single]
  cases r <;> simp [UOp.plain] at hp <;> rfl

theorem undo_one {h : Hist} {r q : UOp} {rest : List (List UOp)} {d' : Doc} (hu : h.undo = [r] :: rest)
    (hp : r.plain = true) (he : uexecute h.doc noTw .undoRedo (r.withTs h.next) = .ok (d', some q)) :
    undo h = { h with undo := rest, redo := push h.redo [q], doc := d', lamport := h.lamport + 1 } := by
  unfold Hist.next at he
  simp only [undo, undoRedo_eq, hu, if_true, List.isEmpty_cons, Bool.false_eq_true, if_false,
    reticket_one _ hp, runOps_cons, runOps_nil, he, List.nil_append,
    Option.toList_some, List.reverse_cons, List.reverse_nil]

theorem redo_one {h : Hist} {r q : UOp} {rest : List (List UOp)} {d' : Doc} (hu : h.redo = [r] :: rest)
    (hp : r.plain = true) (he : uexecute h.doc noTw .undoRedo (r.withTs h.next) = .ok (d', some q)) :
    redo h = { h with redo := rest, undo := push h.undo [q], doc := d', lamport := h.lamport + 1 } := by
  unfold Hist.next at he
  simp only [redo, undoRedo_eq, hu, Bool.false_eq_true, if_false, List.isEmpty_cons,
    reticket_one _ hp, runOps_cons, runOps_nil, he, List.nil_append,
    Option.toList_some, List.reverse_cons, List.reverse_nil]


/-! ### the stack invariant -/

/-- entry `r` leads from the recorded state `Y` back to the recorded state `X` -/
structure Entry (H : Home) (tw : Ticket → Bool) (L : Int) (r : UOp) (X Y : Doc) : Prop where
  wfX : WF H X
  good : GoodOp H tw Y r
  back : aexec H (absNode Y) r = absNode X
  skel : ∀ t, skel X t = skel Y t
  idb : r.idBound L
  plain : r.plain = true

/-- the top entries of a stack lead from `Y` back through the recorded states, newest first; entries
    below the recorded ones are unconstrained, and the stack may be shorter (eviction) -/
def StackRel (H : Home) (tw : Ticket → Bool) (L : Int) : List (List UOp) → Doc → List Doc → Prop
  | _, _, [] => True
  | [], _, _ :: _ => True
  | e :: rest, Y, X :: more => (∃ r, e = [r] ∧ Entry H tw L r X Y) ∧ StackRel H tw L rest X more

theorem StackRel.nil {H : Home} {tw : Ticket → Bool} {L : Int} {s : List (List UOp)} {Y : Doc} :
    StackRel H tw L s Y [] := by unfold StackRel; trivial

theorem Entry.mono {H : Home} {tw : Ticket → Bool} {L L' : Int} {r : UOp} {X Y : Doc}
    (h : Entry H tw L r X Y) (hl : L ≤ L') : Entry H tw L' r X Y :=
  { h with idb := UOp.idBound_mono h.idb hl }

theorem StackRel.mono {H : Home} {tw : Ticket → Bool} {L L' : Int} (hl : L ≤ L') :
    ∀ {s : List (List UOp)} {Y : Doc} {past : List Doc}, StackRel H tw L s Y past → StackRel H tw L' s Y past
  | _, _, [], _ => by unfold StackRel; trivial
  | [], _, _ :: _, _ => trivial
  | _ :: _, _, _ :: _, ⟨⟨r, he, hr⟩, h⟩ => ⟨⟨r, he, hr.mono hl⟩, StackRel.mono hl h⟩

theorem StackRel.dropLast {H : Home} {tw : Ticket → Bool} {L : Int} :
    ∀ {s : List (List UOp)} {Y : Doc} {past : List Doc}, StackRel H tw L s Y past →
      StackRel H tw L s.dropLast Y past
  | _, _, [], _ => by unfold StackRel; trivial
  | [], _, _ :: _, _ => trivial
  | [_], _, _ :: _, _ => trivial
  | e :: e' :: rest, _, _ :: _, ⟨hr, h⟩ => by
    rw [List.dropLast_cons₂]
    exact ⟨hr, StackRel.dropLast h⟩

/-- what `push` keeps of the old stack -/
def pushTail (s : List (List UOp)) : List (List UOp) := if s.length ≥ maxDepth then s.dropLast else s

theorem push_eq (s : List (List UOp)) (e : List UOp) : push s e = e :: pushTail s := by
  unfold push pushTail; split <;> rfl

theorem StackRel.pushTail {H : Home} {tw : Ticket → Bool} {L : Int} {s : List (List UOp)} {Y : Doc}
    {past : List Doc} (h : StackRel H tw L s Y past) : StackRel H tw L (Undo.pushTail s) Y past := by
  unfold Undo.pushTail; split
  · exact h.dropLast
  · exact h

structure Inv (H : Home) (g : Hist) (past : List Doc) (cur : Doc) (future : List Doc) : Prop where
  wf : WF H g.doc
  bd : Bounded g.doc g.lamport
  wfc : WF H cur
  eskel : ∀ t, skel g.doc t = skel cur t
  enode : absNode g.doc = absNode cur
  undoRel : StackRel H noTw g.lamport g.undo cur past
  redoRel : StackRel H noTw g.lamport g.redo cur future

theorem Inv.eqv {H : Home} {g : Hist} {past : List Doc} {cur : Doc} {future : List Doc}
    (i : Inv H g past cur future) : Eqv g.doc cur := ⟨i.eskel, fun t => congrFun i.enode t⟩

/-- a local change with one operation of the alphabet -/
theorem inv_do {H : Home} {g : Hist} {past : List Doc} {cur : Doc} {future : List Doc} {op : UOp}
    (i : Inv H g past cur future) (hg : GoodOp H noTw g.doc op) (hid : op.idBound (g.lamport + 1))
    (hp : op.plain = true) :
    ∃ r, (doChange g [op.withTs g.next]).undo = push g.undo [r] ∧
      (doChange g [op.withTs g.next]).redo = [] ∧
      Inv H (doChange g [op.withTs g.next]) (cur :: past) (doChange g [op.withTs g.next]).doc [] := by
  obtain ⟨d', r, he, res⟩ := step_good (src := .loc) (ts := g.next) i.wf i.bd (by simp only [Hist.next]; omega)
    (by simpa [Hist.next] using hid) hg rfl
  rw [doChange_one (plain_withTs _ hp) he]
  refine ⟨r, rfl, rfl, ?_⟩
  have hlam : g.next.lamport = g.lamport + 1 := rfl
  refine ⟨res.wf, hlam ▸ res.bd, res.wf, fun _ => rfl, rfl, ?_, trivial⟩
  rw [push_eq]
  refine ⟨⟨r, rfl, ⟨i.wfc, res.good, ?_, ?_, hlam ▸ res.idb, res.plain⟩⟩, ?_⟩
  · rw [res.back]; exact i.enode
  · intro t; rw [res.skel]; exact (i.eskel t).symm
  · exact (i.undoRel.pushTail).mono (by simp only []; omega)


/-- executing a related entry on the actual state -/
theorem entry_exec {H : Home} {g : Hist} {past : List Doc} {Y : Doc} {future : List Doc} {r : UOp} {X : Doc}
    (i : Inv H g past Y future) (en : Entry H noTw g.lamport r X Y) :
    ∃ d' q, uexecute g.doc noTw .undoRedo (r.withTs g.next) = .ok (d', some q) ∧
      WF H d' ∧ Bounded d' (g.lamport + 1) ∧ (∀ t, skel d' t = skel X t) ∧ absNode d' = absNode X ∧
      Entry H noTw (g.lamport + 1) q Y X := by
  have hs : ∀ t, skel Y t = skel g.doc t := fun t => (i.eskel t).symm
  have hg : GoodOp H noTw g.doc r := GoodOp_transfer i.wfc i.wf hs i.enode.symm en.good
  obtain ⟨d', q, he, res⟩ := step_good (src := .undoRedo) (ts := g.next) i.wf i.bd
    (by simp only [Hist.next]; omega) (UOp.idBound_mono en.idb (by simp only [Hist.next]; omega)) hg rfl
  have hlam : g.next.lamport = g.lamport + 1 := rfl
  have hsk : ∀ t, skel d' t = skel X t := fun t => by rw [res.skel, i.eskel, en.skel]
  have hnode : absNode d' = absNode X := by rw [res.node, i.enode]; exact en.back
  refine ⟨d', q, he, res.wf, hlam ▸ res.bd, hsk, hnode, ?_⟩
  refine ⟨i.wfc, GoodOp_transfer res.wf en.wfX hsk hnode res.good, ?_, fun t => (en.skel t).symm,
    hlam ▸ res.idb, res.plain⟩
  rw [← hnode, res.back]; exact i.enode

theorem inv_undo {H : Home} {g : Hist} {X Y : Doc} {more future : List Doc} {e : List UOp}
    {rest : List (List UOp)} (i : Inv H g (X :: more) Y future) (hu : g.undo = e :: rest) :
    ∃ q, (undo g).undo = rest ∧ (undo g).redo = push g.redo [q] ∧ Inv H (undo g) more X (Y :: future) := by
  have hrel := i.undoRel
  rw [hu] at hrel
  obtain ⟨⟨r, rfl, en⟩, hrest⟩ := hrel
  obtain ⟨d', q, he, hwf, hbd, hsk, hnode, enq⟩ := entry_exec i en
  rw [undo_one hu en.plain he]
  refine ⟨q, rfl, rfl, ⟨hwf, hbd, en.wfX, hsk, hnode, hrest.mono (by simp only []; omega), ?_⟩⟩
  show StackRel H noTw (g.lamport + 1) (push g.redo [q]) X (Y :: future)
  rw [push_eq]
  exact ⟨⟨q, rfl, enq⟩, (i.redoRel.pushTail).mono (by omega)⟩

theorem inv_redo {H : Home} {g : Hist} {X Y : Doc} {past more : List Doc} {e : List UOp}
    {rest : List (List UOp)} (i : Inv H g past X (Y :: more)) (hu : g.redo = e :: rest) :
    ∃ q, (redo g).redo = rest ∧ (redo g).undo = push g.undo [q] ∧ Inv H (redo g) (X :: past) Y more := by
  have hrel := i.redoRel
  rw [hu] at hrel
  obtain ⟨⟨r, rfl, en⟩, hrest⟩ := hrel
  have i' : Inv H g [] X [] := { i with undoRel := StackRel.nil, redoRel := StackRel.nil }
  obtain ⟨d', q, he, hwf, hbd, hsk, hnode, enq⟩ := entry_exec i' en
  rw [redo_one hu en.plain he]
  refine ⟨q, rfl, rfl, ⟨hwf, hbd, en.wfX, hsk, hnode, ?_, hrest.mono (by simp only []; omega)⟩⟩
  show StackRel H noTw (g.lamport + 1) (push g.undo [q]) Y (X :: past)
  rw [push_eq]
  exact ⟨⟨q, rfl, enq⟩, (i.undoRel.pushTail).mono (by omega)⟩


/-! ### runs of edits -/

/-- content edits with leaf values on objects and counters, as the json layer issues them -/
inductive Edit
  | set (p : Ticket) (k : String) (v : Val)
  | remove (p u : Ticket)
  | increase (c : Ticket) (delta : Int)

def Edit.op : Edit → Ticket → UOp
  | .set p k v, ts => .set p k (UVal.ofVal v ts) ts
  | .remove p u, ts => .remove p u ts
  | .increase c delta, ts => .increase c delta ts

def doEdit (h : Hist) (e : Edit) : Hist := doChange h [e.op h.next]

def runEdits : Hist → List Edit → Hist
  | h, [] => h
  | h, e :: es => runEdits (doEdit h e) es

/-- every edit of the run is executable when its turn comes -/
def EditsOk (H : Home) : Hist → List Edit → Prop
  | _, [] => True
  | h, e :: es => GoodOp H noTw h.doc (e.op h.next) ∧ EditsOk H (doEdit h e) es

/-- the recorded documents of a run, oldest first -/
def states : Hist → List Edit → List Doc
  | h, [] => [h.doc]
  | h, e :: es => h.doc :: states (doEdit h e) es

def undoN : Nat → Hist → Hist
  | 0, h => h
  | k + 1, h => undoN k (undo h)

def redoN : Nat → Hist → Hist
  | 0, h => h
  | k + 1, h => redoN k (redo h)

theorem runEdits_append (h : Hist) (a b : List Edit) : runEdits h (a ++ b) = runEdits (runEdits h a) b := by
  induction a generalizing h with
  | nil => rfl
  | cons e a ih => exact ih _

theorem states_length (h : Hist) (es : List Edit) : (states h es).length = es.length + 1 := by
  induction es generalizing h with
  | nil => rfl
  | cons e es ih => simp [states, ih]

theorem states_get (h : Hist) (a b : List Edit) : (states h (a ++ b))[a.length]? = some (runEdits h a).doc := by
  induction a generalizing h with
  | nil => cases b <;> rfl
  | cons e a ih => simp only [List.cons_append, states, List.length_cons, List.getElem?_cons_succ]; exact ih _

theorem Edit.op_withTs (e : Edit) (ts : Ticket) : (e.op ts).withTs ts = e.op ts := by
  cases e <;> rfl

theorem Edit.op_plain (e : Edit) (ts : Ticket) : (e.op ts).plain = true := by
  cases e <;> rfl

theorem Edit.op_idBound (e : Edit) (ts : Ticket) : (e.op ts).idBound ts.lamport := by
  cases e <;> simp [Edit.op, UOp.idBound, UVal.ofVal]

theorem push_length_ge (s : List (List UOp)) (e : List UOp) (n : Nat) (h : min n maxDepth ≤ s.length) :
    min (n + 1) maxDepth ≤ (push s e).length := by
  unfold push
  have := maxDepth_pos
  split
  · simp only [List.length_cons, List.length_dropLast]; omega
  · simp only [List.length_cons]; omega

theorem inv_doEdit {H : Home} {g : Hist} {past : List Doc} {cur : Doc} {future : List Doc} {e : Edit}
    (i : Inv H g past cur future) (hg : GoodOp H noTw g.doc (e.op g.next)) :
    ∃ r, (doEdit g e).undo = push g.undo [r] ∧ (doEdit g e).redo = [] ∧
      (∀ t, skel (doEdit g e).doc t = skel g.doc t) ∧
      Inv H (doEdit g e) (cur :: past) (doEdit g e).doc [] := by
  have := inv_do i hg (Edit.op_idBound e g.next) (Edit.op_plain e g.next)
  rw [Edit.op_withTs] at this
  obtain ⟨r, h1, h2, h3⟩ := this
  refine ⟨r, h1, h2, ?_, h3⟩
  obtain ⟨d', r', he, res⟩ := step_good (src := .loc) (ts := g.next) i.wf i.bd (by simp only [Hist.next]; omega)
    (Edit.op_idBound e g.next) hg rfl
  rw [Edit.op_withTs] at he
  unfold doEdit
  rw [doChange_one (Edit.op_plain e _) he]
  exact res.skel

theorem doEdit_tw_lamport {H : Home} {g : Hist} {past : List Doc} {cur : Doc} {future : List Doc} {e : Edit}
    (i : Inv H g past cur future) (hg : GoodOp H noTw g.doc (e.op g.next)) :
    (doEdit g e).tw = g.tw ∧ (doEdit g e).lamport = g.lamport + 1 ∧ (doEdit g e).actor = g.actor := by
  obtain ⟨d', r', he, res⟩ := step_good (src := .loc) (ts := g.next) i.wf i.bd (by simp only [Hist.next]; omega)
    (Edit.op_idBound e g.next) hg rfl
  rw [Edit.op_withTs] at he
  unfold doEdit
  rw [doChange_one (Edit.op_plain e _) he]
  exact ⟨rfl, rfl, rfl⟩

theorem run_inv {H : Home} : ∀ (es : List Edit) (g : Hist) (past : List Doc) (n : Nat),
    Inv H g past g.doc [] → EditsOk H g es → min n maxDepth ≤ g.undo.length →
    ∃ past', Inv H (runEdits g es) past' (runEdits g es).doc [] ∧
      past'.reverse ++ [(runEdits g es).doc] = past.reverse ++ states g es ∧
      (∀ t, skel (runEdits g es).doc t = skel g.doc t) ∧
      min (n + es.length) maxDepth ≤ (runEdits g es).undo.length ∧
      (es ≠ [] → (runEdits g es).redo = [])
  | [], g, past, n, i, _, hn => ⟨past, i, rfl, fun _ => rfl, hn, fun h => absurd rfl h⟩
  | e :: es, g, past, n, i, ok, hn => by
    obtain ⟨r, hu, hr, hsk, i'⟩ := inv_doEdit (e := e) i ok.1
    have hn' : min (n + 1) maxDepth ≤ (doEdit g e).undo.length := by
      rw [hu]; exact push_length_ge _ _ _ hn
    obtain ⟨past', i'', hch, hsk', hlen, hredo⟩ := run_inv es (doEdit g e) (g.doc :: past) (n + 1) i' ok.2 hn'
    refine ⟨past', i'', ?_, fun t => (hsk' t).trans (hsk t), ?_, ?_⟩
    · simp only [runEdits, states]; rw [hch]; simp
    · simp only [runEdits, List.length_cons]; rw [show n + (es.length + 1) = n + 1 + es.length by omega]; exact hlen
    · intro _
      simp only [runEdits]
      cases es with
      | nil => exact hr
      | cons e' es' => exact hredo (by simp)


theorem undoN_inv {H : Home} : ∀ (k : Nat) (x : Hist) (past : List Doc) (cur : Doc) (fut : List Doc) (n : Nat),
    Inv H x past cur fut → k ≤ past.length → k ≤ x.undo.length → min n maxDepth ≤ x.redo.length →
    ∃ past' cur' fut', Inv H (undoN k x) past' cur' fut' ∧
      past'.reverse ++ cur' :: fut' = past.reverse ++ cur :: fut ∧ past'.length + k = past.length ∧
      min (n + k) maxDepth ≤ (undoN k x).redo.length
  | 0, x, past, cur, fut, n, i, _, _, hn => ⟨past, cur, fut, i, rfl, rfl, hn⟩
  | k + 1, x, past, cur, fut, n, i, hp, hu, hn => by
    cases past with
    | nil => simp at hp
    | cons X more =>
      cases hst : x.undo with
      | nil => rw [hst] at hu; simp at hu
      | cons e rest =>
        obtain ⟨q, h1, h2, i'⟩ := inv_undo i hst
        have hu' : k ≤ (undo x).undo.length := by rw [h1]; rw [hst] at hu; simpa using hu
        have hn' : min (n + 1) maxDepth ≤ (undo x).redo.length := by rw [h2]; exact push_length_ge _ _ _ hn
        obtain ⟨past', cur', fut', i'', hch, hlen, hr⟩ :=
          undoN_inv k (undo x) more X (cur :: fut) (n + 1) i' (by simpa using hp) hu' hn'
        refine ⟨past', cur', fut', i'', ?_, ?_, ?_⟩
        · rw [hch]; simp
        · simp only [List.length_cons]; omega
        · rw [show n + (k + 1) = n + 1 + k by omega]; exact hr

theorem redoN_inv {H : Home} : ∀ (k : Nat) (x : Hist) (past : List Doc) (cur : Doc) (fut : List Doc),
    Inv H x past cur fut → k ≤ fut.length → k ≤ x.redo.length →
    ∃ past' cur' fut', Inv H (redoN k x) past' cur' fut' ∧
      past'.reverse ++ cur' :: fut' = past.reverse ++ cur :: fut ∧ past'.length = past.length + k
  | 0, x, past, cur, fut, i, _, _ => ⟨past, cur, fut, i, rfl, rfl⟩
  | k + 1, x, past, cur, fut, i, hp, hu => by
    cases fut with
    | nil => simp at hp
    | cons Y more =>
      cases hst : x.redo with
      | nil => rw [hst] at hu; simp at hu
      | cons e rest =>
        obtain ⟨q, h1, h2, i'⟩ := inv_redo i hst
        have hu' : k ≤ (redo x).redo.length := by rw [h1]; rw [hst] at hu; simpa using hu
        obtain ⟨past', cur', fut', i'', hch, hlen⟩ :=
          redoN_inv k (redo x) (cur :: past) Y more i' (by simpa using hp) hu'
        refine ⟨past', cur', fut', i'', ?_, ?_⟩
        · rw [hch]; simp
        · rw [hlen]; simp only [List.length_cons]; omega

theorem zipper_get {α} {past fut : List α} {cur : α} {all : List α} (h : past.reverse ++ cur :: fut = all) :
    all[past.length]? = some cur := by
  subst h
  rw [List.getElem?_append_right (by simp)]
  simp

/-- the initial invariant: nothing is known (or needed) about the stacks -/
theorem inv_init {H : Home} {h : Hist} (w : WF H h.doc) (bd : Bounded h.doc h.lamport) : Inv H h [] h.doc [] :=
  ⟨w, bd, w, fun _ => rfl, rfl, StackRel.nil, StackRel.nil⟩

theorem EditsOk_append {H : Home} : ∀ {a b : List Edit} {h : Hist}, EditsOk H h (a ++ b) →
    EditsOk H h a ∧ EditsOk H (runEdits h a) b
  | [], _, _, ok => ⟨trivial, ok⟩
  | _ :: a, _, _, ok => ⟨⟨ok.1, (EditsOk_append (a := a) ok.2).1⟩, (EditsOk_append (a := a) ok.2).2⟩

/-- depth `k`: after the edits `a ++ b`, undoing `|b|` times gives a heap equivalent to the one after `a` -/
theorem undoN_run_eqv {H : Home} {h : Hist} (w : WF H h.doc) (bd : Bounded h.doc h.lamport) (a b : List Edit)
    (ok : EditsOk H h (a ++ b)) (hb : b.length ≤ maxDepth) :
    WF H (undoN b.length (runEdits h (a ++ b))).doc ∧ WF H (runEdits h a).doc ∧
    Eqv (undoN b.length (runEdits h (a ++ b))).doc (runEdits h a).doc ∧
    (∀ t, skel (runEdits h a).doc t = skel h.doc t) := by
  obtain ⟨past, i, hch, hsk, hlen, _⟩ := run_inv (a ++ b) h [] 0 (inv_init w bd) ok (by simp)
  have hpl : past.length = (a ++ b).length := by
    have := congrArg List.length hch
    simp [states_length] at this; simpa using this
  obtain ⟨past', cur', fut', i', hch', hlen', _⟩ := undoN_inv b.length _ past _ [] 0 i
    (by rw [hpl]; simp) (by simp only [Nat.zero_add, List.length_append] at hlen ⊢; omega) (by simp)
  have hcur : cur' = (runEdits h a).doc := by
    have h1 := zipper_get hch'
    rw [hch] at h1
    simp only [List.reverse_nil, List.nil_append] at h1
    have : past'.length = a.length := by rw [hpl] at hlen'; simp at hlen'; omega
    rw [this, states_get] at h1
    exact (Option.some.inj h1).symm
  subst hcur
  refine ⟨i'.wf, i'.wfc, i'.eqv, ?_⟩
  obtain ⟨_, _, _, hska, _, _⟩ := run_inv a h [] 0 (inv_init w bd) (EditsOk_append ok).1 (by simp)
  exact hska


/-- depth `k` redo: after the edits `a ++ b ++ c`, undoing `|b ++ c|` times and redoing `|b|` times gives a
    heap equivalent to the one after `a ++ b` -/
theorem redoN_run_eqv {H : Home} {h : Hist} (w : WF H h.doc) (bd : Bounded h.doc h.lamport) (a b c : List Edit)
    (ok : EditsOk H h (a ++ (b ++ c))) (hb : (b ++ c).length ≤ maxDepth) :
    WF H (redoN b.length (undoN (b ++ c).length (runEdits h (a ++ (b ++ c))))).doc ∧
    WF H (runEdits h (a ++ b)).doc ∧
    Eqv (redoN b.length (undoN (b ++ c).length (runEdits h (a ++ (b ++ c))))).doc (runEdits h (a ++ b)).doc ∧
    (∀ t, skel (runEdits h (a ++ b)).doc t = skel h.doc t) := by
  have hb' : b.length + c.length ≤ maxDepth := by simpa using hb
  obtain ⟨past, i, hch, hsk, hlen, _⟩ := run_inv (a ++ (b ++ c)) h [] 0 (inv_init w bd) ok (by simp)
  have hpl : past.length = a.length + (b.length + c.length) := by
    have := congrArg List.length hch
    simp [states_length] at this; simpa using this
  obtain ⟨past', cur', fut', i', hch', hlen', hredo⟩ := undoN_inv (b ++ c).length _ past _ [] 0 i
    (by rw [hpl]; simp) (by simp only [Nat.zero_add, List.length_append] at hlen ⊢; omega) (by simp)
  have hfl : fut'.length = b.length + c.length := by
    have := congrArg List.length hch'
    simp at this hlen'; omega
  obtain ⟨past'', cur'', fut'', i'', hch'', hlen''⟩ := redoN_inv b.length _ past' cur' fut' i'
    (by omega) (by simp only [Nat.zero_add, List.length_append] at hredo ⊢; omega)
  have hcur : cur'' = (runEdits h (a ++ b)).doc := by
    have h1 := zipper_get hch''
    rw [hch', hch] at h1
    simp only [List.reverse_nil, List.nil_append] at h1
    have : past''.length = (a ++ b).length := by simp at hlen' ⊢; omega
    rw [this, ← List.append_assoc, states_get] at h1
    exact (Option.some.inj h1).symm
  subst hcur
  refine ⟨i''.wf, i''.wfc, i''.eqv, ?_⟩
  have ok' : EditsOk H h ((a ++ b) ++ c) := by rw [List.append_assoc]; exact ok
  obtain ⟨_, _, _, hska, _, _⟩ := run_inv (a ++ b) h [] 0 (inv_init w bd) (EditsOk_append ok').1 (by simp)
  exact hska

/-- a live container root stays one -/
theorem live_of_skel {d : Doc} {t : Ticket} (h : skel d t = some false) : live d t = true := by
  obtain ⟨e, hd, _, hr⟩ := skel_some.1 h
  simp [live_some hd, hr]

end Yorkie.Undo
