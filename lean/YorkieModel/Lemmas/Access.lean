/-
Helper definitions and lemmas for Props/C13.lean (core Lean only).
-/
import YorkieModel.Model.Access
namespace Yorkie.Access

/-! ### Generic frame lemma: a store accessed only through `get p` / `set p` -/

section Generic
variable {ι σ ρ : Type} [DecidableEq ι]

/-- update of a function-store at one key -/
def setAt (s : ι → σ) (p : ι) (v : σ) : ι → σ := fun q => if q = p then v else s q

/-- A step that reads and writes the store only at key `p`: it is given `get p`, returns a
response and the value for `set p`. -/
def runAt (p : ι) (h : σ → ρ × σ) (s : ι → σ) : ρ × (ι → σ) :=
  ((h (s p)).1, setAt s p (h (s p)).2)

theorem runAt_frame (p : ι) (h : σ → ρ × σ) (s : ι → σ) (q : ι) (hq : q ≠ p) :
    (runAt p h s).2 q = s q := by
  simp [runAt, setAt, hq]

theorem runAt_response (p : ι) (h : σ → ρ × σ) (s s' : ι → σ) (hp : s p = s' p) :
    (runAt p h s).1 = (runAt p h s').1 := by
  simp [runAt, hp]

theorem runAt_own (p : ι) (h : σ → ρ × σ) (s s' : ι → σ) (hp : s p = s' p) :
    (runAt p h s).2 p = (runAt p h s').2 p := by
  simp [runAt, setAt, hp]

end Generic

theorem Store.set_other (s : Store) (p q : Proj) (v : PState) (h : q ≠ p) : (s.set p v) q = s q := by
  simp [Store.set, h]

theorem Proj.mem_all (q : Proj) : q ∈ Proj.all := by
  cases q <;> simp [Proj.all]

/-! ### Which project a request resolves to (store-independent) -/

/-- effect of one guard on the resolved project, if it passes -/
def projStep (po : Option Proj) (r : Req) : Guard → Option Proj
  | .projectAndRole | .permissionById =>
    match r.project with
    | .of q => some q
    | .ghost => po
  | .inviteNotOwner => some r.invite
  | _ => po

def projAfter (po : Option Proj) (r : Req) : List Guard → Option Proj
  | [] => po
  | g :: gs => projAfter (projStep po r g) r gs

/-- The project a request resolves to when every guard passes: from the credential for the
`apiKey` / `secret` scopes, from the (guarded) payload for the `user` / `peer` scopes.
Computed from configuration, credential and request alone. -/
def target (cfg : Cfg) (svc : Svc) (h : Handler) (c : Cred) (r : Req) : Option Proj :=
  match intercept cfg svc (h.scope = .exempt) c with
  | .error _ => none
  | .ok ctx =>
    match enter cfg h.scope ctx r with
    | .error _ => none
    | .ok e => projAfter e.proj r h.guards

theorem evalGuard_proj {cfg : Cfg} {s : Store} {e e' : Env} {r : Req} {g : Guard}
    (h : evalGuard cfg s e r g = .ok e') : e'.proj = projStep e.proj r g ∧ e'.user = e.user := by
  cases g <;> simp only [evalGuard, projStep] at h ⊢ <;>
    (repeat' split at h) <;> simp_all <;> (try (cases h; simp_all))

theorem runGuards_proj {cfg : Cfg} {s : Store} {r : Req} :
    ∀ {gs : List Guard} {e e' : Env}, runGuards cfg s e r gs = .ok e' → e'.proj = projAfter e.proj r gs
  | [], e, e', h => by simp [runGuards] at h; simp [projAfter, h]
  | g :: gs, e, e', h => by
    simp only [runGuards] at h
    split at h
    · cases h
    · rename_i e1 h1
      have := (evalGuard_proj h1).1
      rw [projAfter, ← this]
      exact runGuards_proj h

theorem Effect.run_local {eff : Effect} (hl : eff.isLocal = true) (cfg : Cfg) (s : Store) (e : Env) (r : Req) :
    eff.run cfg s e r = applyAt s e.proj (fun p st => eff.onProject p e.user r st) := by
  cases eff <;> simp [Effect.isLocal] at hl <;> simp [Effect.run]

theorem applyAt_other (s : Store) (po : Option Proj) (f : Proj → PState → PState) (q : Proj)
    (h : po ≠ some q) : applyAt s po f q = s q := by
  unfold applyAt
  split
  · rename_i p
    exact Store.set_other _ _ _ _ (fun hq => h (by rw [hq]))
  · rfl

/-! ### Which projects' state the guards read (store-independent) -/

def guardReads (po : Option Proj) (r : Req) : Guard → List Proj
  | .projectAndRole | .permissionById =>
    match r.project with
    | .of q => [q]
    | .ghost => []
  | .inviteNotOwner => [r.invite]
  | .revisionGlobal | .sessionGlobal => Proj.all
  | .passwordOk => []
  | _ => match po with
    | some p => [p]
    | none => []

def readsOf (po : Option Proj) (r : Req) : List Guard → List Proj
  | [] => []
  | g :: gs => guardReads po r g ++ readsOf (projStep po r g) r gs

/-- projects whose state the request's decision may depend on -/
def reads (cfg : Cfg) (svc : Svc) (h : Handler) (c : Cred) (r : Req) : List Proj :=
  match intercept cfg svc (h.scope = .exempt) c with
  | .error _ => []
  | .ok ctx =>
    match enter cfg h.scope ctx r with
    | .error _ => []
    | .ok e => readsOf e.proj r h.guards

theorem evalGuard_congr {cfg : Cfg} {s s' : Store} {e : Env} {r : Req} {g : Guard}
    (h : ∀ p ∈ guardReads e.proj r g, s p = s' p) : evalGuard cfg s e r g = evalGuard cfg s' e r g := by
  cases g <;> simp only [evalGuard, guardReads] at h ⊢ <;>
    (repeat' split) <;> simp_all [Proj.mem_all]

theorem runGuards_congr {cfg : Cfg} {s s' : Store} {r : Req} :
    ∀ {gs : List Guard} {e : Env}, (∀ p ∈ readsOf e.proj r gs, s p = s' p) →
      runGuards cfg s e r gs = runGuards cfg s' e r gs
  | [], _, _ => by simp [runGuards]
  | g :: gs, e, h => by
    have hg : evalGuard cfg s e r g = evalGuard cfg s' e r g :=
      evalGuard_congr (fun p hp => h p (by simp [readsOf, hp]))
    simp only [runGuards, ← hg]
    split
    · rfl
    · rename_i e1 h1
      apply runGuards_congr
      intro p hp
      apply h p
      have := (evalGuard_proj h1).1
      simp [readsOf, ← this, hp]

/-! ### The verdict cache of the auth webhook -/

section WebhookLemmas
variable {π β κ : Type}

/-- every cache entry is the verdict the *own* webhook of some project gave, for that body, at
the time recorded in the entry, and the request that obtained it is in the log -/
def WInv (w : Webhook π β κ) (c : List (WEntry κ)) (log : List (WRec π β)) : Prop :=
  ∀ e ∈ c, ∃ p b, e.key = w.key p b ∧ e.verdict = w.hook p e.time b ∧
    ∃ x ∈ log, x.proj = p ∧ x.body = b ∧ x.time = e.time ∧ x.verdict = e.verdict ∧ x.consulted = true

/-- what the theorem says about one logged request, relative to the whole log -/
def WGood (w : Webhook π β κ) (log : List (WRec π β)) (x : WRec π β) : Prop :=
  (x.consulted = true → x.verdict = w.hook x.proj x.time x.body) ∧
  (x.consulted = false → ∃ t0, x.time < t0 + w.ttl ∧ x.verdict = w.hook x.proj t0 x.body ∧
      ∃ y ∈ log, y.proj = x.proj ∧ y.body = x.body ∧ y.time = t0 ∧ y.verdict = x.verdict ∧ y.consulted = true)

theorem WInv.mono {w : Webhook π β κ} {c : List (WEntry κ)} {l l' : List (WRec π β)}
    (h : WInv w c l) (hl : ∀ x ∈ l, x ∈ l') : WInv w c l' := by
  intro e he
  obtain ⟨p, b, hk, hv, x, hx, hrest⟩ := h e he
  exact ⟨p, b, hk, hv, x, hl x hx, hrest⟩

theorem Webhook.lookup_some [DecidableEq κ] {w : Webhook π β κ} {c : List (WEntry κ)} {k : κ} {t : Nat} {e : WEntry κ}
    (h : w.lookup c k t = some e) : e ∈ c ∧ e.key = k ∧ t < e.time + w.ttl := by
  unfold Webhook.lookup at h
  have h1 := List.mem_of_find?_eq_some h
  have h2 := List.find?_some h
  simp at h2
  exact ⟨h1, h2.1, h2.2⟩

theorem Webhook.run_good [DecidableEq κ] (w : Webhook π β κ)
    (hkey : ∀ p b p' b', w.key p b = w.key p' b' → p = p' ∧ b = b') :
    ∀ (ops : List (WOp π β κ)) (c : List (WEntry κ)) (l0 : List (WRec π β)), WInv w c l0 →
      ∀ x ∈ w.run ops c, WGood w (l0 ++ w.run ops c) x := by
  intro ops
  induction ops with
  | nil => intro c l0 _ x hx; simp [Webhook.run] at hx
  | cons op ops ih =>
    intro c l0 hinv x hx
    cases op with
    | evict keep =>
      simp only [Webhook.run] at hx ⊢
      apply ih _ l0 _ x hx
      intro e he
      exact hinv e (List.mem_filter.mp he).1
    | req p b t =>
      simp only [Webhook.run] at hx ⊢
      -- the head record and the cache after it
      cases hlk : w.lookup c (w.key p b) t with
      | some e =>
        have hv : w.verify c p b t = (e.verdict, false, c) := by simp [Webhook.verify, hlk]
        rw [hv] at hx ⊢
        simp only at hx ⊢
        obtain ⟨hec, hek, het⟩ := Webhook.lookup_some hlk
        obtain ⟨p', b', hk', hv', y, hy, hyp, hyb, hyt, hyv, hyc⟩ := hinv e hec
        obtain ⟨hpp, hbb⟩ := hkey p' b' p b (by rw [← hk', hek])
        subst hpp; subst hbb
        have hhead : WGood w (l0 ++ ⟨p', b', t, e.verdict, false⟩ :: w.run ops c) ⟨p', b', t, e.verdict, false⟩ := by
          refine ⟨by simp, fun _ => ⟨e.time, het, hv', y, by simp [hy], hyp, hyb, hyt, hyv, hyc⟩⟩
        rcases List.mem_cons.mp hx with hx | hx
        · rw [hx]; exact hhead
        · have := ih c (l0 ++ [⟨p', b', t, e.verdict, false⟩])
            (hinv.mono (fun z hz => by simp [hz])) x hx
          simpa [List.append_assoc] using this
      | none =>
        have hv : w.verify c p b t =
            (w.hook p t b, true, if (w.hook p t b).cacheable then ⟨w.key p b, w.hook p t b, t⟩ :: c else c) := by
          simp [Webhook.verify, hlk]
        rw [hv] at hx ⊢
        simp only at hx ⊢
        have hhead : ∀ rest, WGood w (l0 ++ ⟨p, b, t, w.hook p t b, true⟩ :: rest) ⟨p, b, t, w.hook p t b, true⟩ :=
          fun _ => ⟨fun _ => rfl, by simp⟩
        rcases List.mem_cons.mp hx with hx | hx
        · rw [hx]; exact hhead _
        · have hinv' : WInv w (if (w.hook p t b).cacheable then ⟨w.key p b, w.hook p t b, t⟩ :: c else c)
              (l0 ++ [⟨p, b, t, w.hook p t b, true⟩]) := by
            have hold : WInv w c (l0 ++ [⟨p, b, t, w.hook p t b, true⟩]) :=
              hinv.mono (fun z hz => by simp [hz])
            split
            · intro e he
              rcases List.mem_cons.mp he with he | he
              · subst he
                exact ⟨p, b, rfl, rfl, ⟨p, b, t, w.hook p t b, true⟩, by simp, rfl, rfl, rfl, rfl, rfl⟩
              · exact hold e he
            · exact hold
          have := ih _ (l0 ++ [⟨p, b, t, w.hook p t b, true⟩]) hinv' x hx
          simpa [List.append_assoc] using this

end WebhookLemmas

theorem evalGuard_verifyAccess (cfg : Cfg) (s : Store) (e : Env) (r : Req) :
    evalGuard cfg s e r .verifyAccess = .ok e := by
  unfold evalGuard
  cases e.proj <;> simp [evalLocal]

/-- without a configured webhook `runGuardsA` is `runGuards`: the webhook-free matrix theorems
speak about the same execution -/
theorem runGuardsA_off (cfg : Cfg) (s : Store) (tok : Token) (proc : String) (r : Req) :
    ∀ (gs : List Guard) (e : Env) (a : AuthSt) (idx n : Nat), a.on = false →
      runGuardsA cfg s tok proc r gs e a idx n = (runGuards cfg s e r gs, a, n) := by
  intro gs
  induction gs with
  | nil => intro e a idx n _; simp [runGuardsA, runGuards]
  | cons g gs ih =>
    intro e a idx n ha
    by_cases hg : g = .verifyAccess
    · subst hg
      simp only [runGuardsA, runGuards, evalGuard_verifyAccess]
      cases e.proj <;> simp [AuthSt.requiresAuth, ha, ih _ _ _ _ ha]
    · cases g <;> first
        | exact absurd rfl hg
        | (simp only [runGuardsA, runGuards]
           generalize evalGuard cfg s e r _ = res
           cases res <;> simp [ih _ _ _ _ ha])

end Yorkie.Access
