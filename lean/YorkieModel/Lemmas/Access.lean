/-
Helper definitions and lemmas for Props/C13.lean (core Lean only).
-/
import YorkieModel.Model.Access
namespace Yorkie.Access

/-! ### Generic frame lemma: a store accessed only through `get p` / `set p` -/

section Generic
variable {ι σ ρ : Type} [DecidableEq ι]

/-- update of a function-store at one key -/
def setAt (s : ι → σ) (p : ι) (v : σ) : ι → σ := fun q => if q = p then v else s q

/-- A step that reads and writes the store only at key `p`: it is given `get p`, returns a
response and the value for `set p`. -/
def runAt (p : ι) (h : σ → ρ × σ) (s : ι → σ) : ρ × (ι → σ) :=
  ((h (s p)).1, setAt s p (h (s p)).2)

theorem runAt_frame (p : ι) (h : σ → ρ × σ) (s : ι → σ) (q : ι) (hq : q ≠ p) :
    (runAt p h s).2 q = s q := by
  simp [runAt, setAt, hq]

theorem runAt_response (p : ι) (h : σ → ρ × σ) (s s' : ι → σ) (hp : s p = s' p) :
    (runAt p h s).1 = (runAt p h s').1 := by
  simp [runAt, hp]

theorem runAt_own (p : ι) (h : σ → ρ × σ) (s s' : ι → σ) (hp : s p = s' p) :
    (runAt p h s).2 p = (runAt p h s').2 p := by
  simp [runAt, setAt, hp]

end Generic

theorem Store.set_other (s : Store) (p q : Proj) (v : PState) (h : q ≠ p) : (s.set p v) q = s q := by
  simp [Store.set, h]

theorem Proj.mem_all (q : Proj) : q ∈ Proj.all := by
  cases q <;> simp [Proj.all]

/-! ### Which project a request resolves to (store-independent) -/

/-- effect of one guard on the resolved project, if it passes -/
def projStep (po : Option Proj) (r : Req) : Guard → Option Proj
  | .projectAndRole | .permissionById =>
    match r.project with
    | .of q => some q
    | .ghost => po
  | .inviteNotOwner => some r.invite
  | _ => po

def projAfter (po : Option Proj) (r : Req) : List Guard → Option Proj
  | [] => po
  | g :: gs => projAfter (projStep po r g) r gs

/-- The project a request resolves to when every guard passes: from the credential for the
`apiKey` / `secret` scopes, from the (guarded) payload for the `user` / `peer` scopes.
Computed from configuration, credential and request alone. -/
def target (cfg : Cfg) (svc : Svc) (h : Handler) (c : Cred) (r : Req) : Option Proj :=
  match intercept cfg svc (h.scope = .exempt) c with
  | .error _ => none
  | .ok ctx =>
    match enter cfg h.scope ctx r with
    | .error _ => none
    | .ok e => projAfter e.proj r h.guards

theorem evalGuard_proj {cfg : Cfg} {s : Store} {e e' : Env} {r : Req} {g : Guard}
    (h : evalGuard cfg s e r g = .ok e') : e'.proj = projStep e.proj r g ∧ e'.user = e.user := by
  cases g <;> simp only [evalGuard, projStep] at h ⊢ <;>
    (repeat' split at h) <;> simp_all <;> (try (cases h; simp_all))

theorem runGuards_proj {cfg : Cfg} {s : Store} {r : Req} :
    ∀ {gs : List Guard} {e e' : Env}, runGuards cfg s e r gs = .ok e' → e'.proj = projAfter e.proj r gs
  | [], e, e', h => by simp [runGuards] at h; simp [projAfter, h]
  | g :: gs, e, e', h => by
    simp only [runGuards] at h
    split at h
    · cases h
    · rename_i e1 h1
      have := (evalGuard_proj h1).1
      rw [projAfter, ← this]
      exact runGuards_proj h

theorem Effect.run_local {eff : Effect} (hl : eff.isLocal = true) (cfg : Cfg) (s : Store) (e : Env) (r : Req) :
    eff.run cfg s e r = applyAt s e.proj (fun p st => eff.onProject p e.user r st) := by
  cases eff <;> simp [Effect.isLocal] at hl <;> simp [Effect.run]

theorem applyAt_other (s : Store) (po : Option Proj) (f : Proj → PState → PState) (q : Proj)
    (h : po ≠ some q) : applyAt s po f q = s q := by
  unfold applyAt
  split
  · rename_i p
    exact Store.set_other _ _ _ _ (fun hq => h (by rw [hq]))
  · rfl

/-! ### Which projects' state the guards read (store-independent) -/

def guardReads (po : Option Proj) (r : Req) : Guard → List Proj
  | .projectAndRole | .permissionById =>
    match r.project with
    | .of q => [q]
    | .ghost => []
  | .inviteNotOwner => [r.invite]
  | .revisionGlobal | .sessionGlobal => Proj.all
  | .passwordOk => []
  | _ => match po with
    | some p => [p]
    | none => []

def readsOf (po : Option Proj) (r : Req) : List Guard → List Proj
  | [] => []
  | g :: gs => guardReads po r g ++ readsOf (projStep po r g) r gs

/-- projects whose state the request's decision may depend on -/
def reads (cfg : Cfg) (svc : Svc) (h : Handler) (c : Cred) (r : Req) : List Proj :=
  match intercept cfg svc (h.scope = .exempt) c with
  | .error _ => []
  | .ok ctx =>
    match enter cfg h.scope ctx r with
    | .error _ => []
    | .ok e => readsOf e.proj r h.guards

theorem evalGuard_congr {cfg : Cfg} {s s' : Store} {e : Env} {r : Req} {g : Guard}
    (h : ∀ p ∈ guardReads e.proj r g, s p = s' p) : evalGuard cfg s e r g = evalGuard cfg s' e r g := by
  cases g <;> simp only [evalGuard, guardReads] at h ⊢ <;>
    (repeat' split) <;> simp_all [Proj.mem_all]

theorem runGuards_congr {cfg : Cfg} {s s' : Store} {r : Req} :
    ∀ {gs : List Guard} {e : Env}, (∀ p ∈ readsOf e.proj r gs, s p = s' p) →
      runGuards cfg s e r gs = runGuards cfg s' e r gs
  | [], _, _ => by simp [runGuards]
  | g :: gs, e, h => by
    have hg : evalGuard cfg s e r g = evalGuard cfg s' e r g :=
      evalGuard_congr (fun p hp => h p (by simp [readsOf, hp]))
    simp only [runGuards, ← hg]
    split
    · rfl
    · rename_i e1 h1
      apply runGuards_congr
      intro p hp
      apply h p
      have := (evalGuard_proj h1).1
      simp [readsOf, ← this, hp]

end Yorkie.Access
