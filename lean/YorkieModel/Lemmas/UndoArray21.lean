/-
Lemmas for C14, part 30: REDO after the undo of an edit whose reverse restores a container with content
(`obj.k = leaf` over a live container member, `delete obj.k` of a live container member), for members
whose subtree is a tree of live elements.  In that case the copy writes back exactly the entries that
are there, so after the undo the heap is the one before the edit except for the ordering ticket of the
member (and the tombstone of the overwriting leaf), and the redo is the edit again.
-/
import YorkieModel.Lemmas.UndoArray18
namespace Yorkie.Undo
open Yorkie Yorkie.Crdt

/-- `uexecute_restore` with the reverse named -/
theorem uexecute_restore_q {d1 : Doc} {tw : Ticket → Bool} {p : Ticket} {k : String} {cv : UVal} {ts2 : Ticket}
    {pe1 : Elem} {keys : List String} {member1 : String → Option Member} {m : Member} {q : UOp}
    (hd : d1 p = some pe1) (hb : pe1.body = .obj keys member1) (hm : member1 k = some m)
    (hafter : ts2.after m.positionedAt = true) (horph : orphaned d1 tw orphanFuel p = false)
    (hq : reverseSet d1 p k cv ts2 = some q) :
    uexecute d1 tw .undoRedo (.set p k cv ts2) =
      .ok ((instantiate (markRemoved d1 m.child ts2) p cv cv.removed).set p
        { pe1 with body := .obj keys (fun k' => if k' = k then some ⟨cv.id, ts2⟩ else member1 k') }, some q) := by
  have hobj : isObj d1 p = true := by simp [isObj, hd, hb]
  have happ : applySetU d1 p k cv ts2 = .ok ((instantiate (markRemoved d1 m.child ts2) p cv cv.removed).set p
      { pe1 with body := .obj keys (fun k' => if k' = k then some ⟨cv.id, ts2⟩ else member1 k') }) := by
    unfold applySetU
    simp only [hd, hb, hm, hafter, if_true]
  simp only [uexecute, hobj, Bool.not_true, Bool.false_eq_true, if_false, horph, Bool.and_false, happ,
    Source.needsReverse, gate, if_true, hq]
  rfl

/-- the copy of a tree of live elements, written over any heap: the written entries are those of `d` -/
theorem instantiate_tree_base {d : Doc} {p u : Ticket} {ue : Elem} (hu : d u = some ue)
    (hur : ue.removed = false) (hup : ue.parent = some p) (tree : TreeBelow d copyFuel u ue.body)
    (hnd : ((copyBody d copyFuel u ue.body).2.map (·.1)).Nodup) (dB : Doc) (t : Ticket) :
    instantiate dB p (captured d u ue) false t = if written (captured d u ue) t = true then d t else dB t := by
  obtain ⟨hb1, hent⟩ := copyBody_tree copyFuel u ue.body tree
  have hc2 : copy2 (captured d u ue) = copyBody d copyFuel u ue.body := by
    unfold copy2 captured
    simp only [hb1]
    exact copyBody_relook hnd copyFuel u ue.body tree (fun _ hx => hx)
  have hid : (captured d u ue).id = u := rfl
  have hI : instantiate d p (captured d u ue) false = d := by
    funext t
    rw [instantiate_apply, hc2, hid]
    by_cases h1 : t = u
    · subst h1
      simp only [if_true, hb1, hu, Option.some.injEq]
      cases ue; simp_all
    · simp only [h1, if_false]
      cases hl : lookupSub (copyBody d copyFuel u ue.body).2 t with
      | none => rfl
      | some e => simp only []; exact (hent _ (lookupSub_mem hl)).symm
  cases hw : written (captured d u ue) t with
  | true => simp only [if_true]; rw [instantiate_written (dB := d) hw, hI]
  | false => simp only [Bool.false_eq_true, if_false]; exact instantiate_not_written hw

theorem orphaned_of_kill {d : Doc} {o : Option Ticket} {tw : Ticket → Bool} : ∀ (f : Nat) (t : Ticket),
    orphaned (kill d o) tw f t = false → orphaned d tw f t = false
  | 0, _, _ => rfl
  | f + 1, t, h => by
    rw [orphaned] at h ⊢
    cases hd : d t with
    | none => rfl
    | some e =>
      simp only []
      by_cases ho : o = some t
      · have hk : kill d o t = some { e with removed := true } := by simp [kill, ho, hd]
        rw [hk] at h
        simp at h
      · have hk : kill d o t = some e := by simp [kill, ho, hd]
        rw [hk] at h
        simp only [Bool.or_eq_false_iff] at h ⊢
        refine ⟨h.1, ?_⟩
        cases hp : e.parent with
        | none => rfl
        | some q =>
          have h2 := h.2
          rw [hp] at h2
          exact orphaned_of_kill f q h2

/-- redo after the undo of `delete obj.k` where the subtree of the value `u` is a tree of live elements -/
theorem redo_undo_do_delete_container_tree {h : Hist} (fr : Fresh h) {p u : Ticket} {k : String} {ue : Elem}
    (hp : isObj h.doc p = true) (hk : winner h.doc p k = some u)
    (hu : h.doc u = some ue) (tree : TreeBelow h.doc copyFuel u ue.body)
    (hnd : ((copyBody h.doc copyFuel u ue.body).2.map (·.1)).Nodup)
    (hpS : p ∉ u :: (copyBody h.doc copyFuel u ue.body).2.map (·.1))
    (horph : orphaned (kill h.doc (some u)) noTw orphanFuel p = false) (fuel : Nat) :
    marshal (redo (undo (doChange h [.remove p u h.next]))).doc fuel rootId =
      marshal (doChange h [.remove p u h.next]).doc fuel rootId := by
  simp only [List.mem_cons, not_or] at hpS
  obtain ⟨hpu, hpS⟩ := hpS
  obtain ⟨hur, hupar⟩ := member_facts fr hp hk hu hpu horph
  have cs := copyStable_of_tree hu hur hupar tree hnd hpu hpS horph
  obtain ⟨H, w⟩ := fr.wf
  have bd := fr.bd
  obtain ⟨pe, keys, member, hd, hb, hw⟩ := isObj_winner hp k
  rw [hw] at hk
  obtain ⟨hlu, m, hm, hmc⟩ := liveMember_some hk
  have hwu : written (captured h.doc u ue) u = true := by simp [written, captured]
  have hd1p : kill h.doc (some u) p = some pe := by
    have : ¬ u = p := fun hx => hpu hx.symm
    simp [kill, this, hd]
  have hpr : pe.removed = false := (orphaned_root_removed (n := 63) horph hd1p).1
  obtain ⟨hkin, hkey, _⟩ := w.objMem _ _ _ _ _ _ hd hpr hb hm
  rw [hmc] at hkey
  -- the forward removal
  have hcont : isContainer h.doc p = true := by simp [isContainer, hd, hb]
  have hkeyOf : keyOf keys member u = some k := by
    have := keyOf_home w hd hpr hb (u := u) (mm := m) (by rw [hkey]; exact hm) hmc
    rw [hkey] at this; exact this
  have hchild : isChildOf h.doc u p = true := by simp [isChildOf, hu, hupar]
  have hk1 : markRemoved h.doc u h.next = kill h.doc (some u) :=
    markRemoved_eq_kill (fun e he => after_of_lamport (by have := bd.ent _ _ he; simp only [Hist.next]; omega))
  have he1 : uexecute h.doc noTw .loc (.remove p u h.next) =
      .ok (kill h.doc (some u), some (.set p k (captured h.doc u ue) h.next)) := by
    simp only [uexecute, hcont, Bool.not_true, Bool.false_eq_true, if_false, Source.needsReverse, if_true,
      reverseRemove, cs.hcap, hd, hb, hkeyOf, applyRemove, hchild, hk1,
      show (Source.loc = Source.undoRedo) = False from by simp, decide_false, Bool.false_and]
    rfl
  rw [doChange_one (by rfl) he1]
  -- the undo
  generalize ht2 : (⟨h.lamport + 1 + 1, 1, h.actor⟩ : Ticket) = ts2
  have hafter : ts2.after m.positionedAt = true := after_of_lamport (by
    have := bd.pos _ _ _ _ _ _ hd hb hm; rw [← ht2]; simp only []; omega)
  have hdead : live (kill h.doc (some u)) u = false := by simp [live, kill, hu]
  have hq2 : reverseSet (kill h.doc (some u)) p k (captured h.doc u ue) ts2 = some (.remove p u ts2) := by
    have hlm : liveMember (kill h.doc (some u)) member k = none := by
      cases hx : liveMember (kill h.doc (some u)) member k with
      | none => rfl
      | some c =>
        obtain ⟨hl, m', hm', hmc'⟩ := liveMember_some hx
        rw [hm] at hm'; injection hm' with hm'; subst hm'
        rw [← hmc', hmc, hdead] at hl; cases hl
    unfold reverseSet
    simp only [hd1p, hb, hlm]
    rfl
  have he2 := uexecute_restore_q (tw := noTw) (k := k) (cv := captured h.doc u ue) (ts2 := ts2) (m := m)
    hd1p hb hm hafter horph hq2
  generalize hd2 : (instantiate (markRemoved (kill h.doc (some u)) m.child ts2) p (captured h.doc u ue)
    (captured h.doc u ue).removed).set p _ = d2 at he2
  have hu1 : undo
      { h with
        doc := kill h.doc (some u)
        undo := push h.undo [.set p k (captured h.doc u ue) h.next]
        redo := []
        lamport := h.lamport + 1 } =
      { h with
        doc := d2
        undo := pushTail h.undo
        redo := push [] [.remove p u ts2]
        lamport := h.lamport + 1 + 1 } := by
    rw [undo_one (push_eq _ _) (by rfl) (by simp only [Hist.next, UOp.withTs]; rw [ht2]; exact he2)]
  rw [hu1]
  -- the heap after the undo
  have hd2p : d2 p = some { pe with body := .obj keys (fun k' => if k' = k then some ⟨u, ts2⟩ else member k') } := by
    rw [← hd2]; simp [set_apply]; rfl
  have hd2o : ∀ t, t ≠ p → d2 t = h.doc t := by
    intro t htp
    have hcr : (captured h.doc u ue).removed = false := hur
    rw [← hd2, set_apply, hcr]
    simp only [htp, if_false]
    rw [instantiate_tree_base hu hur hupar tree hnd]
    split
    · rfl
    · rename_i hwt
      have htu : t ≠ u := by intro hx; rw [hx] at hwt; exact hwt hwu
      have htu' : ¬ u = t := fun hx => htu hx.symm
      rw [hmc, markRemoved_other htu]; simp [kill, htu']
  have hd2u : d2 u = some ue := by rw [hd2o u (fun hx => hpu hx.symm)]; exact hu
  -- the redo
  generalize ht3 : (⟨h.lamport + 1 + 1 + 1, 1, h.actor⟩ : Ticket) = ts3
  have hcont2 : isContainer d2 p = true := by simp [isContainer, hd2p]
  have horph2 : orphaned d2 noTw orphanFuel u = false := by
    have hagree : ∀ t e, h.doc t = some e → ∃ e1, d2 t = some e1 ∧ e1.removed = e.removed ∧ e1.parent = e.parent := by
      intro t e hte
      by_cases h1 : t = p
      · subst h1
        rw [hd] at hte; injection hte with hte; subst hte
        exact ⟨_, hd2p, rfl, rfl⟩
      · exact ⟨e, by rw [hd2o t h1]; exact hte, rfl, rfl⟩
    have h63 : orphaned d2 noTw 63 p = false := by
      rw [orphaned_ext w hagree 63 p (by rw [hd]; rfl)]
      exact orphaned_mono _ _ 63 p (orphaned_of_kill _ _ horph)
    rw [show orphanFuel = 63 + 1 from rfl, orphaned_succ_some hd2u hupar, hur, h63]
    rfl
  have hkeyOf2 : ∃ k2, keyOf keys (fun k' => if k' = k then some ⟨u, ts2⟩ else member k') u = some k2 := by
    cases hx : keyOf keys (fun k' => if k' = k then some ⟨u, ts2⟩ else member k') u with
    | some k2 => exact ⟨k2, rfl⟩
    | none =>
      unfold keyOf at hx
      rw [List.find?_eq_none] at hx
      have := hx k hkin
      simp [memberChild] at this
  obtain ⟨k2, hkeyOf2⟩ := hkeyOf2
  have hchild2 : isChildOf d2 u p = true := by simp [isChildOf, hd2u, hupar]
  have hk3 : markRemoved d2 u ts3 = kill d2 (some u) :=
    markRemoved_eq_kill (fun e he => after_of_lamport (by
      rw [hd2u] at he; have := bd.ent _ _ hu; rw [← ht3]; simp only []; omega))
  have hcap2 : ∃ cv2, capture d2 u = some cv2 := by simp [capture, hd2u]
  obtain ⟨cv2, hcap2⟩ := hcap2
  have he3 : uexecute d2 noTw .undoRedo (.remove p u ts3) =
      .ok (kill d2 (some u), some (.set p k2 cv2 ts3)) := by
    simp only [uexecute, hcont2, Bool.not_true, Bool.false_eq_true, if_false, Source.needsReverse, if_true,
      reverseRemove, hcap2, hd2p, hkeyOf2, applyRemove, hchild2, hk3, horph2, Bool.and_false]
    rfl
  rw [redo_doc_of_push
    (g := { h with
            doc := d2
            undo := pushTail h.undo
            redo := push [] [.remove p u ts2]
            lamport := h.lamport + 1 + 1 }) (r := .remove p u ts2) (s := []) rfl (by rfl)
    (by simp only [Hist.next, UOp.withTs]; rw [ht3]; exact he3)]
  -- comparison
  have hliveEq : ∀ c, live d2 c = live h.doc c := by
    intro c
    by_cases h1 : c = p
    · subst h1; simp [live, hd2p, hd]
    · unfold live; rw [hd2o c h1]
  have hvis2 : ∀ t, vis d2 t = vis h.doc t := by
    intro t
    by_cases h1 : t = p
    · subst h1
      unfold vis
      rw [hd2p, hd]
      simp only [hb, visBody]
      congr 1
      apply filterMap_congr'
      intro k' _
      by_cases hk' : k' = k
      · subst hk'
        simp only [objEntry, if_true, hm, hliveEq, hmc]
      · simp only [objEntry, hk', if_false, hliveEq]
    · exact vis_congr (hd2o t h1) hliveEq
  have hvis : ∀ t, vis (kill d2 (some u)) t = vis (kill h.doc (some u)) t := by
    intro t; rw [vis_kill, vis_kill, hvis2]
  apply marshal_congr (fun t _ => hvis t) fuel rootId (hvis rootId)

/-- redo after the undo of `obj.k = leaf` over a live member `u` whose subtree is a tree of live elements -/
theorem redo_undo_do_set_overwrite_container_tree {h : Hist} (fr : Fresh h) {p u : Ticket} {k : String} {v : Val}
    {ue : Elem} (hp : isObj h.doc p = true) (hv : leafBody v.body = true) (hk : winner h.doc p k = some u)
    (hu : h.doc u = some ue) (tree : TreeBelow h.doc copyFuel u ue.body)
    (hnd : ((copyBody h.doc copyFuel u ue.body).2.map (·.1)).Nodup)
    (hpS : p ∉ u :: (copyBody h.doc copyFuel u ue.body).2.map (·.1))
    (horph : orphaned (kill h.doc (some u)) noTw orphanFuel p = false) (fuel : Nat) :
    marshal (redo (undo (doChange h [.set p k (UVal.ofVal v h.next) h.next]))).doc fuel rootId =
      marshal (doChange h [.set p k (UVal.ofVal v h.next) h.next]).doc fuel rootId := by
  simp only [List.mem_cons, not_or] at hpS
  obtain ⟨hpu, hpS⟩ := hpS
  obtain ⟨hur, hupar⟩ := member_facts fr hp hk hu hpu horph
  have cs := copyStable_of_tree hu hur hupar tree hnd hpu hpS horph
  obtain ⟨H, w⟩ := fr.wf
  have bd := fr.bd
  obtain ⟨pe, keys, member, hd, hb, hw⟩ := isObj_winner hp k
  rw [hw] at hk
  obtain ⟨hlu, m, hm, hmc⟩ := liveMember_some hk
  obtain ⟨hfresh, _⟩ := fresh_next fr
  have hwu : written (captured h.doc u ue) u = true := by simp [written, captured]
  have hpts : p ≠ h.next := by intro hx; rw [hx, hfresh] at hd; cases hd
  have huts : u ≠ h.next := by intro hx; rw [hx, hfresh] at hu; cases hu
  have hwts : written (captured h.doc u ue) h.next = false := by
    cases hx : written (captured h.doc u ue) h.next with
    | false => rfl
    | true => have := cs.hex _ hx; rw [hfresh] at this; cases this
  -- the forward edit
  have happ := applySetU_eq (d := h.doc) (p := p) (k := k) (val := UVal.ofVal v h.next) (ts := h.next) hd hb
    hv rfl (by
      intro m' hm'
      refine ⟨after_of_lamport ?_, fun e he => after_of_lamport ?_⟩
      · have := bd.pos _ _ _ _ _ _ hd hb hm'; simp only [Hist.next]; omega
      · have := bd.ent _ _ he; simp only [Hist.next]; omega)
  simp only [hm, Option.map_some, hmc, Option.isNone_some, Bool.false_eq_true, if_false] at happ
  have hrev : reverseSet h.doc p k (UVal.ofVal v h.next) h.next = some (.set p k (captured h.doc u ue) h.next) := by
    unfold reverseSet
    simp only [hd, hb, hk, cs.hcap]
  have he1 : uexecute h.doc noTw .loc (.set p k (UVal.ofVal v h.next) h.next) =
      .ok (((kill h.doc (some u)).set h.next ⟨some p, false, v.body⟩).set p
        { pe with body := .obj keys (fun k' => if k' = k then some ⟨h.next, h.next⟩ else member k') },
        some (.set p k (captured h.doc u ue) h.next)) := by
    simp only [uexecute, hp, Bool.not_true, Bool.false_eq_true, if_false, happ, Source.needsReverse, gate, if_true,
      hrev, show (Source.loc = Source.undoRedo) = False from by simp, decide_false, Bool.false_and]
    rfl
  rw [doChange_one (by rfl) he1]
  generalize hd1 : ((kill h.doc (some u)).set h.next ⟨some p, false, v.body⟩).set p
    { pe with body := .obj keys (fun k' => if k' = k then some ⟨h.next, h.next⟩ else member k') } = d1
  have hd1p : d1 p = some { pe with body := .obj keys (fun k' => if k' = k then some ⟨h.next, h.next⟩ else member k') } := by
    rw [← hd1]; simp [set_apply]
  have hd1t : d1 h.next = some ⟨some p, false, v.body⟩ := by
    have : ¬ h.next = p := fun hx => hpts hx.symm
    rw [← hd1]; simp [set_apply, this]
  have hd1o : ∀ t, t ≠ p → t ≠ h.next → d1 t = kill h.doc (some u) t := by
    intro t h1 h2; rw [← hd1]; simp [set_apply, h1, h2]
  -- the undo
  generalize ht2 : (⟨h.lamport + 1 + 1, 1, h.actor⟩ : Ticket) = ts2
  have hafter : ts2.after h.next = true := after_of_lamport (by rw [← ht2]; simp only [Hist.next]; omega)
  have horph1 : orphaned d1 noTw orphanFuel p = false := by
    have hagree : ∀ t e, kill h.doc (some u) t = some e →
        ∃ e1, d1 t = some e1 ∧ e1.removed = e.removed ∧ e1.parent = e.parent := by
      intro t e hte
      by_cases h1 : t = p
      · subst h1
        have : kill h.doc (some u) t = some pe := by
          have : ¬ u = t := fun hx => hpu hx.symm
          simp [kill, this, hd]
        rw [this] at hte; injection hte with hte; subst hte
        exact ⟨_, hd1p, rfl, rfl⟩
      · have h2 : t ≠ h.next := by
          intro hx; subst hx
          have := kill_isSome h.doc (some u) h.next
          rw [hte, hfresh] at this; cases this
        exact ⟨e, by rw [hd1o t h1 h2]; exact hte, rfl, rfl⟩
    have hcont : (kill h.doc (some u) p).isSome = true := by rw [kill_isSome, hd]; rfl
    rw [orphaned_ext (WF_kill w (some u)) hagree orphanFuel p hcont]
    exact horph
  have hq2 : reverseSet d1 p k (captured h.doc u ue) ts2 =
      some (.set p k { id := h.next, removed := false, body := v.body, sub := [] } ts2) := by
    have hlm : liveMember d1 (fun k' => if k' = k then some ⟨h.next, h.next⟩ else member k') k = some h.next := by
      simp [liveMember, hd1t]
    unfold reverseSet
    simp only [hd1p, hlm, capture_leaf hd1t hv]
  have he2 := uexecute_restore_q (tw := noTw) (k := k) (cv := captured h.doc u ue) (ts2 := ts2)
    (m := ⟨h.next, h.next⟩) hd1p rfl (by simp) hafter horph1 hq2
  generalize hd2 : (instantiate (markRemoved d1 h.next ts2) p (captured h.doc u ue)
    (captured h.doc u ue).removed).set p _ = d2 at he2
  have hu1 : undo
      { h with
        doc := d1
        undo := push h.undo [.set p k (captured h.doc u ue) h.next]
        redo := []
        lamport := h.lamport + 1 } =
      { h with
        doc := d2
        undo := pushTail h.undo
        redo := push [] [.set p k { id := h.next, removed := false, body := v.body, sub := [] } ts2]
        lamport := h.lamport + 1 + 1 } := by
    rw [undo_one (push_eq _ _) (by rfl) (by simp only [Hist.next, UOp.withTs]; rw [ht2]; exact he2)]
  rw [hu1]
  -- the heap after the undo
  generalize hm2 : (fun k' => if k' = k then some (⟨u, ts2⟩ : Member) else
      (if k' = k then some ⟨h.next, h.next⟩ else member k')) = member2
  have hd2p : d2 p = some { pe with body := .obj keys member2 } := by
    rw [← hd2, ← hm2]; simp [set_apply]; rfl
  have hk2 : markRemoved d1 h.next ts2 = kill d1 (some h.next) := markRemoved_eq_kill (fun _ _ => hafter)
  have hd2t : d2 h.next = some ⟨some p, true, v.body⟩ := by
    have hcr : (captured h.doc u ue).removed = false := hur
    have : ¬ h.next = p := fun hx => hpts hx.symm
    rw [← hd2, set_apply, hcr]
    simp only [this, if_false]
    rw [instantiate_tree_base hu hur hupar tree hnd, hwts, hk2]
    simp [kill, hd1t]
  have hd2o : ∀ t, t ≠ p → t ≠ h.next → d2 t = h.doc t := by
    intro t htp htn
    have hcr : (captured h.doc u ue).removed = false := hur
    rw [← hd2, set_apply, hcr]
    simp only [htp, if_false]
    rw [instantiate_tree_base hu hur hupar tree hnd]
    split
    · rfl
    · rename_i hwt
      have htu : t ≠ u := by intro hx; rw [hx] at hwt; exact hwt hwu
      have htu' : ¬ u = t := fun hx => htu hx.symm
      rw [markRemoved_other htn, hd1o t htp htn]; simp [kill, htu']
  have hd2u : d2 u = some ue := by rw [hd2o u (fun hx => hpu hx.symm) huts]; exact hu
  -- the redo
  generalize ht3 : (⟨h.lamport + 1 + 1 + 1, 1, h.actor⟩ : Ticket) = ts3
  have hafter3 : ts3.after ts2 = true := after_of_lamport (by rw [← ht3, ← ht2]; simp only []; omega)
  have horph2 : orphaned d2 noTw orphanFuel p = false := by
    have hagree : ∀ t e, h.doc t = some e → ∃ e1, d2 t = some e1 ∧ e1.removed = e.removed ∧ e1.parent = e.parent := by
      intro t e hte
      by_cases h1 : t = p
      · subst h1
        rw [hd] at hte; injection hte with hte; subst hte
        exact ⟨_, hd2p, rfl, rfl⟩
      · have h2 : t ≠ h.next := by intro hx; rw [hx, hfresh] at hte; cases hte
        exact ⟨e, by rw [hd2o t h1 h2]; exact hte, rfl, rfl⟩
    rw [orphaned_ext w hagree orphanFuel p (by rw [hd]; rfl)]
    exact orphaned_of_kill _ _ horph
  have hobj2 : isObj d2 p = true := by simp [isObj, hd2p]
  obtain ⟨q3, hq3⟩ := reverseSet_isSome hobj2 k { id := h.next, removed := false, body := v.body, sub := [] } ts3
  have he3 := uexecute_restore_q (tw := noTw) (k := k)
    (cv := { id := h.next, removed := false, body := v.body, sub := [] }) (ts2 := ts3)
    (m := ⟨u, ts2⟩) hd2p rfl (by rw [← hm2]; simp) hafter3 horph2 hq3
  generalize hd3 : (instantiate (markRemoved d2 u ts3) p
    ({ id := h.next, removed := false, body := v.body, sub := [] } : UVal) false).set p _ = d3 at he3
  rw [redo_doc_of_push
    (g := { h with
            doc := d2
            undo := pushTail h.undo
            redo := push [] [.set p k { id := h.next, removed := false, body := v.body, sub := [] } ts2]
            lamport := h.lamport + 1 + 1 })
    (r := .set p k { id := h.next, removed := false, body := v.body, sub := [] } ts2) (s := []) rfl (by rfl)
    (by simp only [Hist.next, UOp.withTs]; rw [ht3]; exact he3)]
  -- the heap after the redo
  have hk3 : markRemoved d2 u ts3 = kill d2 (some u) :=
    markRemoved_eq_kill (fun e he => after_of_lamport (by
      have := bd.ent _ _ hu; rw [← ht3]; simp only []; omega))
  have hd3p : ∃ member3, d3 p = some { pe with body := .obj keys member3 } ∧
      ∀ k', (member3 k').map (·.child) =
        (if k' = k then some (⟨h.next, h.next⟩ : Member) else member k').map (·.child) := by
    refine ⟨_, by rw [← hd3]; simp [set_apply]; rfl, ?_⟩
    intro k'
    rw [← hm2]
    by_cases hk' : k' = k <;> simp [hk']
  obtain ⟨member3, hd3p, hm3⟩ := hd3p
  have hd3t : d3 h.next = some ⟨some p, false, v.body⟩ := by
    have : ¬ h.next = p := fun hx => hpts hx.symm
    rw [← hd3, set_apply]
    simp only [this, if_false]
    rw [instantiate_leaf _ _ _ _ hv]
    simp [set_apply]
  have hd3o : ∀ t, t ≠ p → t ≠ h.next → d3 t = d1 t := by
    intro t htp htn
    rw [← hd3, set_apply]
    simp only [htp, if_false]
    rw [instantiate_leaf _ _ _ _ hv, hk3, hd1o t htp htn]
    simp only [set_apply, htn, if_false]
    unfold kill
    rw [hd2o t htp htn]
  -- comparison
  have hliveEq : ∀ c, live d3 c = live d1 c := by
    intro c
    by_cases h1 : c = p
    · subst h1; simp [live, hd3p, hd1p]
    · by_cases h2 : c = h.next
      · subst h2; simp [live, hd3t, hd1t]
      · unfold live; rw [hd3o c h1 h2]
  have hvis : ∀ t, vis d3 t = vis d1 t := by
    intro t
    by_cases h1 : t = p
    · subst h1
      unfold vis
      rw [hd3p, hd1p]
      simp only [visBody]
      congr 1
      apply filterMap_congr'
      intro k' _
      have := hm3 k'
      simp only [objEntry]
      cases hx : member3 k' with
      | none =>
        rw [hx] at this
        cases hy : (if k' = k then some (⟨h.next, h.next⟩ : Member) else member k') with
        | none => rfl
        | some mm => rw [hy] at this; cases this
      | some m3 =>
        rw [hx] at this
        cases hy : (if k' = k then some (⟨h.next, h.next⟩ : Member) else member k') with
        | none => rw [hy] at this; cases this
        | some mm =>
          rw [hy] at this
          simp only [Option.map_some, Option.some.injEq] at this
          simp only [this, hliveEq]
    · by_cases h2 : t = h.next
      · subst h2; unfold vis; rw [hd3t, hd1t]
        cases hvb : v.body <;> simp [hvb, leafBody] at hv <;> rfl
      · exact vis_congr (hd3o t h1 h2) hliveEq
  apply marshal_congr (fun t _ => hvis t) fuel rootId (hvis rootId)

end Yorkie.Undo
