/-
Helper lemmas about Model/Watch.lean used by Props/C17Watch.lean.
-/
import YorkieModel.Model.Watch
namespace Yorkie.Watch

/-- the loop of `subscribeResources` never touches logs, streams or names -/
theorem subscribeAll_frame (cfg : Cfg) (c : Client) (st : Stream) (ds : List Doc) (s : State) :
    (subscribeAll cfg s c st ds).1.heads = s.heads ∧ (subscribeAll cfg s c st ds).1.live = s.live ∧
    (subscribeAll cfg s c st ds).1.used = s.used := by
  induction ds generalizing s with
  | nil => simp [subscribeAll]
  | cons d ds ih =>
    simp only [subscribeAll, subscribeOne]
    split
    · rename_i e he
      split <;> simp [unwatchAll]
    · rename_i s1 he
      have hs1 : s1.heads = s.heads ∧ s1.live = s.live ∧ s1.used = s.used := by
        split at he
        · cases he
        · split at he
          · cases he
          · cases he; simp
      have := ih s1
      rw [hs1.1, hs1.2.1, hs1.2.2] at this
      exact this

theorem subscribeOne_ok {cfg : Cfg} {s s1 : State} {c : Client} {st : Stream} {d : Doc}
    (h : subscribeOne cfg s c st d = .ok s1) :
    s1.subs = s.subs ++ [{ doc := d, client := c, stream := st }] := by
  simp only [subscribeOne] at h
  split at h
  · cases h
  · split at h
    · cases h
    · cases h; rfl

/-- a request that fails has removed exactly the subscriptions of its own stream -/
theorem subscribeAll_fail (limit : Nat) (c : Client) (st : Stream) (ds : List Doc) (s : State) (e : Err)
    (h : (subscribeAll (Cfg.real limit) s c st ds).2 = some e) :
    (subscribeAll (Cfg.real limit) s c st ds).1.subs = s.subs.filter (·.stream != st) := by
  induction ds generalizing s with
  | nil => simp [subscribeAll] at h
  | cons d ds ih =>
    simp only [subscribeAll] at h ⊢
    cases hso : subscribeOne (Cfg.real limit) s c st d with
    | error e' => simp [Cfg.real, unwatchAll]
    | ok s1 =>
      rw [hso] at h
      simp only at h ⊢
      rw [ih s1 h, subscribeOne_ok hso]
      simp [List.filter_append]

/-- a request that succeeds has added one subscription per resource, in order -/
theorem subscribeAll_ok (cfg : Cfg) (c : Client) (st : Stream) (ds : List Doc) (s : State)
    (h : (subscribeAll cfg s c st ds).2 = none) :
    (subscribeAll cfg s c st ds).1.subs = s.subs ++ ds.map (fun d => { doc := d, client := c, stream := st }) := by
  induction ds generalizing s with
  | nil => simp [subscribeAll]
  | cons d ds ih =>
    simp only [subscribeAll] at h ⊢
    cases hso : subscribeOne cfg s c st d with
    | error e' => rw [hso] at h; simp at h
    | ok s1 =>
      rw [hso] at h
      simp only at h ⊢
      rw [ih s1 h, subscribeOne_ok hso]
      simp

/-- every subscription belongs to an established stream, and stream names are not reused -/
def Inv (s : State) : Prop :=
  (∀ x, x ∈ s.subs → x.stream ∈ s.live) ∧ (∀ st, st ∈ s.live → st ∈ s.used)

theorem inv_step (limit : Nat) (s : State) (l : Label) (h : Inv s) : Inv (step (Cfg.real limit) s l) := by
  obtain ⟨h1, h2⟩ := h
  cases l with
  | watchOpen st c docs =>
    simp only [step]
    split
    · exact ⟨h1, h2⟩
    · rename_i hfresh
      have hnot : ∀ x, x ∈ s.subs → (x.stream != st) = true := by
        intro x hx
        have := h2 _ (h1 x hx)
        simp only [bne_iff_ne, ne_eq]
        intro he; exact hfresh (he ▸ this)
      have hfr := subscribeAll_frame (Cfg.real limit) c st docs { s with used := st :: s.used }
      split
      · rename_i s1 heq
        have hok := subscribeAll_ok (Cfg.real limit) c st docs { s with used := st :: s.used }
          (by rw [heq])
        rw [heq] at hok hfr
        simp only at hok hfr
        refine ⟨?_, ?_⟩
        · intro x hx
          simp only [hok, List.mem_append, List.mem_map] at hx
          rcases hx with hx | ⟨d, _, rfl⟩
          · exact List.mem_cons_of_mem _ (hfr.2.1 ▸ h1 x hx)
          · exact List.mem_cons_self
        · intro t ht
          simp only [List.mem_cons] at ht
          rw [hfr.2.2]
          rcases ht with rfl | ht
          · exact List.mem_cons_self
          · exact List.mem_cons_of_mem _ (h2 t (hfr.2.1 ▸ ht))
      · rename_i s1 e heq
        have hf := subscribeAll_fail limit c st docs { s with used := st :: s.used } e (by rw [heq])
        rw [heq] at hf hfr
        simp only at hf hfr
        have hsame : s1.subs = s.subs := by
          rw [hf]; exact List.filter_eq_self.mpr hnot
        refine ⟨?_, ?_⟩
        · intro x hx; rw [hsame] at hx; exact hfr.2.1 ▸ h1 x hx
        · intro t ht
          rw [hfr.2.2]
          exact List.mem_cons_of_mem _ (h2 t (hfr.2.1 ▸ ht))
  | watchClose st =>
    simp only [step]
    split
    · refine ⟨?_, ?_⟩
      · intro x hx
        simp only [unwatchAll, List.mem_filter, bne_iff_ne, ne_eq] at hx ⊢
        exact ⟨h1 x hx.1, hx.2⟩
      · intro t ht
        simp only [unwatchAll, List.mem_filter] at ht ⊢
        exact h2 t ht.1
    · exact ⟨h1, h2⟩
  | push d c n ops removed =>
    simp only [step]
    split <;> exact ⟨h1, h2⟩

theorem reachable_inv {limit : Nat} {s : State} (h : Reachable (Cfg.real limit) s) : Inv s := by
  induction h with
  | init => exact ⟨by simp [init], by simp [init]⟩
  | step _ l ih => exact inv_step limit _ l ih

theorem head_setHead (s : State) (d d' : Doc) (n : Nat) :
    (s.setHead d n).head d' = if d' = d then n else s.head d' := by
  unfold State.setHead State.head
  by_cases h : d' = d
  · subst h; simp
  · simp only [h, if_false]
    have h' : (d == d') = false := by simp [Ne.symm h]
    simp only [List.find?, h']
    congr 1
    induction s.heads with
    | nil => rfl
    | cons p ps ih =>
      simp only [List.filter]
      by_cases hp : p.1 = d
      · have : (p.1 != d) = false := by simp [hp]
        have hp' : (p.1 == d') = false := by simp [hp, Ne.symm h]
        simp [this, List.find?, hp', ih]
      · have : (p.1 != d) = true := by simp [hp]
        simp only [this, List.find?]
        split <;> simp_all


end Yorkie.Watch
