/-
Text undo/redo, depth k: the history machine with ghost records, its invariant and the steps
(core Lean only).

`GHist` = the model's history machine `THist` + for every stack entry the content that running it
must show (undo stack: the visible content before the change; redo stack: the content before the
undo). This is exactly the mirror the Go oracle of engine `textundo` keeps.
-/
import YorkieModel.Lemmas.TextUndoRun
namespace Yorkie.TextUndo
open Yorkie Yorkie.Text

structure GHist where
  h : THist := {}
  urec : List (List Nat) := []
  rrec : List (List Nat) := []

def pushRec (stack : List (List Nat)) (x : List Nat) : List (List Nat) :=
  if stack.length ≥ maxDepth then x :: stack.dropLast else x :: stack

def fwdRun (h : THist) (ops : List TOp) : Run :=
  runWith execFwd (h.lamport + 1) h.actor h.nextVV 1 ops { st := h.st }

def revRun (h : THist) (e : List TRev) : Run :=
  runWith execRev (h.lamport + 1) h.actor h.nextVV 1 e { st := h.st }

/-- `Document.Update`: the record of the new entry is the content before the change -/
def GHist.change (g : GHist) (ops : List TOp) : GHist :=
  { h := (doChange g.h ops).1,
    urec := if (fwdRun g.h ops).revs.isEmpty then g.urec else pushRec g.urec (visible g.h.st),
    rrec := if (fwdRun g.h ops).observable then [] else g.rrec }

def GHist.undo (g : GHist) : GHist :=
  match g.h.undo, g.urec with
  | e :: _, _ :: xs =>
    { h := TextUndo.undo g.h, urec := xs,
      rrec := if e.isEmpty || (revRun g.h e).revs.isEmpty then g.rrec else pushRec g.rrec (visible g.h.st) }
  | _, _ => { g with h := TextUndo.undo g.h }

def GHist.redo (g : GHist) : GHist :=
  match g.h.redo, g.rrec with
  | e :: _, _ :: xs =>
    { h := TextUndo.redo g.h, rrec := xs,
      urec := if e.isEmpty || (revRun g.h e).revs.isEmpty then g.urec else pushRec g.urec (visible g.h.st) }
  | _, _ => { g with h := TextUndo.redo g.h }

def StackOK (lam : Int) (actor : Actor) (st : TextSt) (stack : List (List TRev)) : Prop :=
  ∀ e ∈ stack, ∀ y ∈ e, RevOK lam actor 0 st y

structure GInv (g : GHist) : Prop where
  wf : WF g.h.st
  tb : TB g.h.lamport g.h.actor 0 g.h.st
  uok : StackOK g.h.lamport g.h.actor g.h.st g.h.undo
  rok : StackOK g.h.lamport g.h.actor g.h.st g.h.redo
  uchain : Chain g.h.st (liveAt g.h.st) g.h.undo g.urec
  rchain : Chain g.h.st (liveAt g.h.st) g.h.redo g.rrec
  ulen : g.h.undo.length ≤ maxDepth
  rlen : g.h.redo.length ≤ maxDepth

/-! ### small facts -/

theorem mem_push {stack : List (List TRev)} {e e' : List TRev} (h : e' ∈ push stack e) :
    e' = e ∨ e' ∈ stack := by
  unfold push at h
  split at h
  · rcases List.mem_cons.mp h with h | h
    · exact Or.inl h
    · exact Or.inr (List.dropLast_subset _ h)
  · rcases List.mem_cons.mp h with h | h
    · exact Or.inl h
    · exact Or.inr h

theorem length_dropLast_le {α} (l : List α) : l.dropLast.length ≤ l.length := by simp

theorem push_length_le {stack : List (List TRev)} (e : List TRev) (h : stack.length ≤ maxDepth) :
    (push stack e).length ≤ maxDepth := by
  unfold push
  split
  · rename_i hge
    simp only [List.length_cons, List.length_dropLast]
    have : 0 < maxDepth := by decide
    omega
  · simp only [List.length_cons]; omega

theorem tb_bump {lam : Int} {actor : Actor} {i : Nat} {s : TextSt} (h : TB lam actor i s) :
    TB (lam + 1) actor 0 s := fun n hn => Tk.zero.mpr (h n hn).next

theorem stackOK_bump {lam : Int} {actor : Actor} {s : TextSt} {stack : List (List TRev)}
    (h : StackOK lam actor s stack) : StackOK (lam + 1) actor s stack :=
  fun e he y hy => (h e he y hy).bump

theorem oldL_of_tb {lam : Int} {actor : Actor} {s : TextSt} (h : TB lam actor 0 s) : OldL lam (liveAt s) :=
  oldL_liveAt (fun n hn => Tk.zero.mp (h n hn))

theorem stackOK_revOld {lam : Int} {actor : Actor} {s : TextSt} {stack : List (List TRev)}
    (h : StackOK lam actor s stack) : ∀ e ∈ stack, ∀ x ∈ e, RevOld lam x :=
  fun e he x hx => (h e he x hx).revOld

/-- pushing onto a chain: the stack and its records drop their oldest entry together -/
theorem chain_push {st : TextSt} {L L0 : Id → Bool} {stack : List (List TRev)} {recs : List (List Nat)}
    {e : List TRev} {x : List Nat} (h0 : effEntry e L = L0)
    (h1 : effEntry (flipE e) L0 = L) (h2 : Degr x (projC L0 st)) (hc : Chain st L0 stack recs) :
    Chain st L (push stack e) (pushRec recs x) := by
  have hl := chain_length hc
  unfold push pushRec
  rw [← hl]
  split
  · exact ⟨by rw [h0, h1], by rw [h0]; exact h2, by rw [h0]; exact chain_dropLast hc⟩
  · exact ⟨by rw [h0, h1], by rw [h0]; exact h2, by rw [h0]; exact hc⟩

/-! ### popping an entry (shared by undo and redo) -/

theorem pop_core {lam : Int} {actor : Actor} {st : TextSt} (wf : WF st) (tb : TB lam actor 0 st)
    {e : List TRev} {es : List (List TRev)} {x : List Nat} {xs : List (List Nat)}
    {toS : List (List TRev)} {toR : List (List Nat)}
    (hfrom : Chain st (liveAt st) (e :: es) (x :: xs)) (hto : Chain st (liveAt st) toS toR)
    (okE : ∀ y ∈ e, RevOK lam actor 0 st y) (okEs : StackOK lam actor st es)
    (okTo : StackOK lam actor st toS) {r : Run}
    (hr : runWith execRev (lam + 1) actor (some [(actor, lam + 1)]) 1 e { st := st } = r)
    (hnf : r.failed = false) :
    WF r.st ∧ TB lam actor 0 r.st ∧ Degr x (visible r.st) ∧ Chain r.st (liveAt r.st) es xs ∧
    Chain r.st (liveAt r.st) (if r.revs.isEmpty then toS else push toS r.revs)
      (if r.revs.isEmpty then toR else pushRec toR (visible st)) ∧
    StackOK lam actor r.st es ∧
    StackOK lam actor r.st (if r.revs.isEmpty then toS else push toS r.revs) := by
  have rr := rev_run (lam := lam) (actor := actor) e 1 { st := st } rfl wf tb okE (by rw [hr]; exact hnf)
  rw [hr] at rr
  obtain ⟨new, hnew, se1, se2, hrok⟩ := rr.revs
  have hnew' : r.revs = new := by simpa using hnew
  obtain ⟨c1, c2, c3⟩ := hfrom
  have hL' : liveAt r.st = effEntry e (liveAt st) := rr.live
  have hd : ∀ B, OldL lam B → Degr (projC B st) (projC B r.st) := fun B _ => rr.degr B
  have oldL := oldL_of_tb tb
  have oldL' := oldL_of_tb rr.tb
  have trOK : ∀ {stack : List (List TRev)}, StackOK lam actor st stack → StackOK lam actor r.st stack :=
    fun h e' he' y hy => (h e' he' y hy).trans (Nat.le_refl 0) (fun sp _ t => rr.tiled sp t)
  refine ⟨rr.wf, rr.tb, ?_, ?_, ?_, trOK okEs, ?_⟩
  · rw [visible_eq_projC rr.wf, hL']
    exact degr_trans c2 (rr.degr _)
  · rw [hL']
    exact chain_mono hd degr_trans (hL' ▸ oldL') (stackOK_revOld okEs) c3
  · by_cases hemp : r.revs.isEmpty = true
    · simp only [hemp, if_true]
      have hn : new = [] := by rw [← hnew']; exact List.isEmpty_iff.mp hemp
      have : effEntry e (liveAt st) = liveAt st := by
        have := se2 (liveAt st); rw [hn] at this; simpa [flipE, effEntry_nil] using this.symm
      rw [hL', this]
      exact chain_mono hd degr_trans oldL (stackOK_revOld okTo) hto
    · simp only [hemp, Bool.false_eq_true, if_false]
      rw [hnew']
      have a0 : effEntry new (liveAt r.st) = liveAt st := by rw [se1, hL', c1]
      have a1 : effEntry (flipE new) (liveAt st) = liveAt r.st := by rw [se2, hL']
      have a2 : Degr (visible st) (projC (liveAt st) r.st) := by
        rw [visible_eq_projC wf]; exact rr.degr _
      exact chain_push a0 a1 a2 (chain_mono hd degr_trans oldL (stackOK_revOld okTo) hto)
  · by_cases hemp : r.revs.isEmpty = true
    · simp only [hemp, if_true]; exact trOK okTo
    · simp only [hemp, Bool.false_eq_true, if_false]
      intro e' he' y hy
      rcases mem_push he' with rfl | he'
      · rw [hnew'] at hy; exact hrok y hy
      · exact trOK okTo e' he' y hy

/-! ### a forward change -/

theorem change_core {lam : Int} {actor : Actor} {st : TextSt} (wf : WF st) (tb : TB lam actor 0 st)
    {U : List (List TRev)} {urec : List (List Nat)} {Rd : List (List TRev)} {rrec : List (List Nat)}
    (hu : Chain st (liveAt st) U urec) (hrd : Chain st (liveAt st) Rd rrec)
    (okU : StackOK lam actor st U) (okR : StackOK lam actor st Rd)
    {ops : List TOp} (hfix : ∀ op ∈ ops, OpFixed op) {r : Run}
    (hr : runWith execFwd (lam + 1) actor (some [(actor, lam + 1)]) 1 ops { st := st } = r)
    (hnf : r.failed = false) (hnn : ∀ y ∈ r.revs, y.isNoop = false) :
    WF r.st ∧ TB (lam + 1) actor 0 r.st ∧
    Chain r.st (liveAt r.st) (if r.revs.isEmpty then U else push U r.revs)
      (if r.revs.isEmpty then urec else pushRec urec (visible st)) ∧
    Chain r.st (liveAt r.st) (if r.observable then [] else Rd) (if r.observable then [] else rrec) ∧
    StackOK (lam + 1) actor r.st (if r.revs.isEmpty then U else push U r.revs) ∧
    StackOK (lam + 1) actor r.st (if r.observable then [] else Rd) := by
  have tb1 : TB lam actor 1 st := fun n hn => (tb n hn).mono (Nat.zero_le 1)
  have fr := fwd_run (lam := lam) (actor := actor) ops 1 { st := st } rfl wf tb1 hfix
    (by rw [hr]; exact hnf) (by rw [hr]; exact hnn)
  rw [hr] at fr
  obtain ⟨fr, frt⟩ := fr
  obtain ⟨new, hnew, e1, e2, hrok⟩ := fr.revs
  have hnew' : r.revs = new := by simpa using hnew
  have oldL := oldL_of_tb tb
  have trOK : ∀ {stack : List (List TRev)}, StackOK lam actor st stack → StackOK (lam + 1) actor r.st stack :=
    fun h e' he' y hy => ((h e' he' y hy).trans (Nat.zero_le 1)
      (fun sp hsp t => frt sp (hsp.mono (Nat.zero_le 1)) t)).bump
  refine ⟨fr.wf, tb_bump fr.tb, ?_, ?_, ?_, ?_⟩
  · by_cases hemp : r.revs.isEmpty = true
    · simp only [hemp, if_true]
      have hn : new = [] := by rw [← hnew']; exact List.isEmpty_iff.mp hemp
      have : liveAt r.st = liveAt st := by rw [hn] at e1; simpa [effEntry_nil] using e1
      rw [this]
      exact chain_mono fr.degr degr_trans oldL (stackOK_revOld okU) hu
    · simp only [hemp, Bool.false_eq_true, if_false]
      rw [hnew']
      have a2 : Degr (visible st) (projC (liveAt st) r.st) := by
        rw [visible_eq_projC wf]; exact fr.degr _ oldL
      exact chain_push e1 e2 a2 (chain_mono fr.degr degr_trans oldL (stackOK_revOld okU) hu)
  · cases hob : r.observable with
    | true => simp [Chain]
    | false =>
      simp only [Bool.false_eq_true, if_false]
      rw [fr.nobs hob]
      exact chain_mono fr.degr degr_trans oldL (stackOK_revOld okR) hrd
  · by_cases hemp : r.revs.isEmpty = true
    · simp only [hemp, if_true]; exact trOK okU
    · simp only [hemp, Bool.false_eq_true, if_false]
      intro e' he' y hy
      rcases mem_push he' with rfl | he'
      · rw [hnew'] at hy; exact (hrok y hy).bump
      · exact trOK okU e' he' y hy
  · cases hob : r.observable with
    | true => intro e' he'; simp at he'
    | false => simp only [Bool.false_eq_true, if_false]; exact trOK okR

/-! ### the machine steps -/

/-- a successful, effective change keeps the invariant -/
theorem ginv_change {g : GHist} (inv : GInv g) {ops : List TOp} (hfix : ∀ op ∈ ops, OpFixed op)
    (hnf : (fwdRun g.h ops).failed = false) (hnn : ∀ y ∈ (fwdRun g.h ops).revs, y.isNoop = false) :
    GInv (g.change ops) := by
  obtain ⟨wf', tb', cu, cr, oku, okr⟩ := change_core inv.wf inv.tb inv.uchain inv.rchain inv.uok inv.rok
    hfix (r := fwdRun g.h ops) rfl hnf hnn
  have hdo : (doChange g.h ops).1 =
      { g.h with st := (fwdRun g.h ops).st,
                 undo := if (fwdRun g.h ops).revs.isEmpty then g.h.undo else push g.h.undo (fwdRun g.h ops).revs,
                 redo := if (fwdRun g.h ops).observable then [] else g.h.redo,
                 lamport := g.h.lamport + 1 } := by
    have : runWith execFwd (g.h.lamport + 1) g.h.actor g.h.nextVV 1 ops { st := g.h.st } = fwdRun g.h ops := rfl
    simp only [doChange, doChangeFrom, this, hnf, Bool.false_eq_true, if_false]
  refine ⟨?_, ?_, ?_, ?_, ?_, ?_, ?_, ?_⟩ <;> simp only [GHist.change, hdo]
  · exact wf'
  · exact tb'
  · exact oku
  · exact okr
  · exact cu
  · split
    · simp [Chain]
    · rename_i hob
      have : (fwdRun g.h ops).observable = false := by simpa using hob
      simpa [this] using cr
  · split
    · exact inv.ulen
    · exact push_length_le _ inv.ulen
  · split
    · simp
    · exact inv.rlen

/-! ### undo / redo -/

/-- what `executeUndoRedo(true)` leaves behind when the popped entry ran without an error -/
theorem undo_fields {h : THist} {e : List TRev} {rest : List (List TRev)} (hu : h.undo = e :: rest)
    (hne : e.isEmpty = false) (hnf : (revRun h e).failed = false) :
    (undo h).st = (revRun h e).st ∧ (undo h).undo = rest ∧
    (undo h).redo = (if (revRun h e).revs.isEmpty then h.redo else push h.redo (revRun h e).revs) ∧
    (undo h).actor = h.actor ∧ ((undo h).lamport = h.lamport ∨ (undo h).lamport = h.lamport + 1) := by
  have hr : runWith execRev (h.lamport + 1) h.actor h.nextVV 1 e { st := h.st } = revRun h e := rfl
  simp only [undo, undoRedo, hu, if_true, hne, Bool.false_eq_true, if_false, hr, hnf]
  by_cases ho : (revRun h e).observable = true <;> by_cases hem : (revRun h e).revs.isEmpty = true <;>
    simp [ho, hem]

theorem redo_fields {h : THist} {e : List TRev} {rest : List (List TRev)} (hu : h.redo = e :: rest)
    (hne : e.isEmpty = false) (hnf : (revRun h e).failed = false) :
    (redo h).st = (revRun h e).st ∧ (redo h).redo = rest ∧
    (redo h).undo = (if (revRun h e).revs.isEmpty then h.undo else push h.undo (revRun h e).revs) ∧
    (redo h).actor = h.actor ∧ ((redo h).lamport = h.lamport ∨ (redo h).lamport = h.lamport + 1) := by
  have hr : runWith execRev (h.lamport + 1) h.actor h.nextVV 1 e { st := h.st } = revRun h e := rfl
  simp only [redo, undoRedo, hu, Bool.false_eq_true, if_false, hne, hr, hnf]
  by_cases ho : (revRun h e).observable = true <;> by_cases hem : (revRun h e).revs.isEmpty = true <;>
    simp [ho, hem]

theorem undo_fields_empty {h : THist} {e : List TRev} {rest : List (List TRev)} (hu : h.undo = e :: rest)
    (he : e.isEmpty = true) :
    (undo h).st = h.st ∧ (undo h).undo = rest ∧ (undo h).redo = h.redo ∧ (undo h).actor = h.actor ∧
    (undo h).lamport = h.lamport := by
  simp [undo, undoRedo, hu, he]

theorem redo_fields_empty {h : THist} {e : List TRev} {rest : List (List TRev)} (hu : h.redo = e :: rest)
    (he : e.isEmpty = true) :
    (redo h).st = h.st ∧ (redo h).redo = rest ∧ (redo h).undo = h.undo ∧ (redo h).actor = h.actor ∧
    (redo h).lamport = h.lamport := by
  simp [redo, undoRedo, hu, he]

theorem undo_nil {h : THist} (hu : h.undo = []) : undo h = h := by simp [undo, undoRedo, hu]
theorem redo_nil {h : THist} (hu : h.redo = []) : redo h = h := by simp [redo, undoRedo, hu]

/-- the invariant, spelled on the components (so that field equalities can be rewritten) -/
def GInvC (st : TextSt) (lam : Int) (actor : Actor) (U Rd : List (List TRev)) (urec rrec : List (List Nat)) : Prop :=
  WF st ∧ TB lam actor 0 st ∧ StackOK lam actor st U ∧ StackOK lam actor st Rd ∧
  Chain st (liveAt st) U urec ∧ Chain st (liveAt st) Rd rrec ∧ U.length ≤ maxDepth ∧ Rd.length ≤ maxDepth

theorem ginv_iff (g : GHist) :
    GInv g ↔ GInvC g.h.st g.h.lamport g.h.actor g.h.undo g.h.redo g.urec g.rrec :=
  ⟨fun i => ⟨i.wf, i.tb, i.uok, i.rok, i.uchain, i.rchain, i.ulen, i.rlen⟩,
   fun ⟨a, b, c, d, e, f, g', h⟩ => ⟨a, b, c, d, e, f, g', h⟩⟩

theorem ginvC_bump {st : TextSt} {lam : Int} {actor : Actor} {U Rd : List (List TRev)}
    {urec rrec : List (List Nat)} (h : GInvC st lam actor U Rd urec rrec) :
    GInvC st (lam + 1) actor U Rd urec rrec :=
  ⟨h.1, tb_bump h.2.1, stackOK_bump h.2.2.1, stackOK_bump h.2.2.2.1, h.2.2.2.2.1, h.2.2.2.2.2.1,
    h.2.2.2.2.2.2.1, h.2.2.2.2.2.2.2⟩

/-- popping the top of one stack (`fromS`) and pushing the reverse on the other (`toS`) -/
theorem pop_inv {st : TextSt} {lam : Int} {actor : Actor} {e : List TRev} {es toS : List (List TRev)}
    {x : List Nat} {xs toR : List (List Nat)}
    (wf : WF st) (tb : TB lam actor 0 st) (okF : StackOK lam actor st (e :: es)) (okT : StackOK lam actor st toS)
    (cF : Chain st (liveAt st) (e :: es) (x :: xs)) (cT : Chain st (liveAt st) toS toR)
    (lF : (e :: es).length ≤ maxDepth) (lT : toS.length ≤ maxDepth)
    {r : Run} (hr : runWith execRev (lam + 1) actor (some [(actor, lam + 1)]) 1 e { st := st } = r)
    (hnf : r.failed = false) :
    Degr x (visible r.st) ∧
    WF r.st ∧ TB lam actor 0 r.st ∧ StackOK lam actor r.st es ∧
    StackOK lam actor r.st (if r.revs.isEmpty then toS else push toS r.revs) ∧
    Chain r.st (liveAt r.st) es xs ∧
    Chain r.st (liveAt r.st) (if r.revs.isEmpty then toS else push toS r.revs)
      (if r.revs.isEmpty then toR else pushRec toR (visible st)) ∧
    es.length ≤ maxDepth ∧ (if r.revs.isEmpty then toS else push toS r.revs).length ≤ maxDepth := by
  obtain ⟨a, b, c, d, e', f, g'⟩ := pop_core wf tb cF cT (fun y hy => okF e List.mem_cons_self y hy)
    (fun e' he' => okF e' (List.mem_cons_of_mem _ he')) okT hr hnf
  refine ⟨c, a, b, f, g', d, e', ?_, ?_⟩
  · simp only [List.length_cons] at lF; omega
  · split
    · exact lT
    · exact push_length_le _ lT

theorem ginv_undo {g : GHist} (inv : GInv g)
    (hnf : ∀ e rest, g.h.undo = e :: rest → e.isEmpty = false → (revRun g.h e).failed = false) :
    GInv g.undo ∧ ∀ x xs, g.h.undo ≠ [] → g.urec = x :: xs → Degr x (visible g.undo.h.st) := by
  cases hu : g.h.undo with
  | nil =>
    have hg : g.undo = g := by
      cases g with
      | mk h urec rrec =>
        simp only at hu
        simp [GHist.undo, hu, undo_nil hu]
    rw [hg]; exact ⟨inv, fun x xs hne _ => absurd rfl hne⟩
  | cons e rest =>
    have hlen := chain_length inv.uchain
    rw [hu] at hlen
    cases hrec : g.urec with
    | nil => rw [hrec] at hlen; simp at hlen
    | cons x xs =>
      have cF := inv.uchain; rw [hu, hrec] at cF
      have okF := inv.uok; rw [hu] at okF
      have lF := inv.ulen; rw [hu] at lF
      by_cases he : e.isEmpty = true
      · obtain ⟨f1, f2, f3, f4, f5⟩ := undo_fields_empty hu he
        have en : e = [] := List.isEmpty_iff.mp he
        subst en
        obtain ⟨_, c2, c3⟩ := cF
        simp only [effEntry_nil] at c2 c3
        have hgu : g.undo = { h := undo g.h, urec := xs, rrec := g.rrec } := by
          simp [GHist.undo, hu, hrec]
        refine ⟨?_, ?_⟩
        · rw [ginv_iff, hgu]
          simp only [f1, f2, f3, f4, f5]
          refine ⟨inv.wf, inv.tb, fun e' he' => okF e' (List.mem_cons_of_mem _ he'), inv.rok, c3,
            inv.rchain, ?_, inv.rlen⟩
          simp only [List.length_cons] at lF; omega
        · intro x' xs' _ hx'
          injection hx' with hx' _; subst hx'
          rw [hgu]; simp only [f1]
          rw [visible_eq_projC inv.wf]; exact c2
      · have he' : e.isEmpty = false := by simpa using he
        have hnf' := hnf e rest hu he'
        obtain ⟨f1, f2, f3, f4, f5⟩ := undo_fields hu he' hnf'
        obtain ⟨d, p⟩ := pop_inv inv.wf inv.tb okF inv.rok cF inv.rchain lF inv.rlen
          (r := revRun g.h e) rfl hnf'
        have hgu : g.undo = GHist.mk (undo g.h) xs
            (if (revRun g.h e).revs.isEmpty then g.rrec else pushRec g.rrec (visible g.h.st)) := by
          simp [GHist.undo, hu, hrec, he']
        refine ⟨?_, ?_⟩
        · rw [ginv_iff, hgu]
          simp only [f1, f2, f3, f4]
          have base : GInvC (revRun g.h e).st g.h.lamport g.h.actor rest
              (if (revRun g.h e).revs.isEmpty then g.h.redo else push g.h.redo (revRun g.h e).revs) xs
              (if (revRun g.h e).revs.isEmpty then g.rrec else pushRec g.rrec (visible g.h.st)) :=
            ⟨p.1, p.2.1, p.2.2.1, p.2.2.2.1, p.2.2.2.2.1, p.2.2.2.2.2.1, p.2.2.2.2.2.2.1, p.2.2.2.2.2.2.2⟩
          rcases f5 with f5 | f5 <;> rw [f5]
          · exact base
          · exact ginvC_bump base
        · intro x' xs' _ hx'
          injection hx' with hx' _; subst hx'
          rw [hgu]; simp only [f1]; exact d

theorem ginv_redo {g : GHist} (inv : GInv g)
    (hnf : ∀ e rest, g.h.redo = e :: rest → e.isEmpty = false → (revRun g.h e).failed = false) :
    GInv g.redo ∧ ∀ x xs, g.h.redo ≠ [] → g.rrec = x :: xs → Degr x (visible g.redo.h.st) := by
  cases hu : g.h.redo with
  | nil =>
    have hg : g.redo = g := by
      cases g with
      | mk h urec rrec =>
        simp only at hu
        simp [GHist.redo, hu, redo_nil hu]
    rw [hg]; exact ⟨inv, fun x xs hne _ => absurd rfl hne⟩
  | cons e rest =>
    have hlen := chain_length inv.rchain
    rw [hu] at hlen
    cases hrec : g.rrec with
    | nil => rw [hrec] at hlen; simp at hlen
    | cons x xs =>
      have cF := inv.rchain; rw [hu, hrec] at cF
      have okF := inv.rok; rw [hu] at okF
      have lF := inv.rlen; rw [hu] at lF
      by_cases he : e.isEmpty = true
      · obtain ⟨f1, f2, f3, f4, f5⟩ := redo_fields_empty hu he
        have en : e = [] := List.isEmpty_iff.mp he
        subst en
        obtain ⟨_, c2, c3⟩ := cF
        simp only [effEntry_nil] at c2 c3
        have hgu : g.redo = { h := redo g.h, rrec := xs, urec := g.urec } := by
          simp [GHist.redo, hu, hrec]
        refine ⟨?_, ?_⟩
        · rw [ginv_iff, hgu]
          simp only [f1, f2, f3, f4, f5]
          refine ⟨inv.wf, inv.tb, inv.uok, fun e' he' => okF e' (List.mem_cons_of_mem _ he'),
            inv.uchain, c3, inv.ulen, ?_⟩
          simp only [List.length_cons] at lF; omega
        · intro x' xs' _ hx'
          injection hx' with hx' _; subst hx'
          rw [hgu]; simp only [f1]
          rw [visible_eq_projC inv.wf]; exact c2
      · have he' : e.isEmpty = false := by simpa using he
        have hnf' := hnf e rest hu he'
        obtain ⟨f1, f2, f3, f4, f5⟩ := redo_fields hu he' hnf'
        obtain ⟨d, p⟩ := pop_inv inv.wf inv.tb okF inv.uok cF inv.uchain lF inv.ulen
          (r := revRun g.h e) rfl hnf'
        have hgu : g.redo = GHist.mk (redo g.h)
            (if (revRun g.h e).revs.isEmpty then g.urec else pushRec g.urec (visible g.h.st)) xs := by
          simp [GHist.redo, hu, hrec, he']
        refine ⟨?_, ?_⟩
        · rw [ginv_iff, hgu]
          simp only [f1, f2, f3, f4]
          have base : GInvC (revRun g.h e).st g.h.lamport g.h.actor
              (if (revRun g.h e).revs.isEmpty then g.h.undo else push g.h.undo (revRun g.h e).revs) rest
              (if (revRun g.h e).revs.isEmpty then g.urec else pushRec g.urec (visible g.h.st)) xs :=
            ⟨p.1, p.2.1, p.2.2.2.1, p.2.2.1, p.2.2.2.2.2.1, p.2.2.2.2.1, p.2.2.2.2.2.2.2, p.2.2.2.2.2.2.1⟩
          rcases f5 with f5 | f5 <;> rw [f5]
          · exact base
          · exact ginvC_bump base
        · intro x' xs' _ hx'
          injection hx' with hx' _; subst hx'
          rw [hgu]; simp only [f1]; exact d

end Yorkie.TextUndo
