/-
Lemmas for C14, part 20: mixed histories at depth k, the alphabet.  `GoodOp3` = the leaf alphabet on
objects and counters (`GoodOp`, counters being object members) together with the array alphabet
(`GoodOp2`); abstract effect `aexec3`, recorded reverse `inv3`, and the transfer of executability from
the recorded heap to the present one under the simulation relation.
-/
import YorkieModel.Lemmas.UndoArray10
namespace Yorkie.Undo
open Yorkie Yorkie.Crdt

/-! ### the alphabet -/

/-- an `Increase` of a live counter with in-range operand and value; the counter may be an object
    member or an array element (the repaired `ReconcileCreatedAt` rewrites the counter identity of a
    stacked `Increase` when the element is restored under a new identity) -/
def GoodInc (d : Doc) (c : Ticket) (delta : Int) : Prop :=
  ∃ l v, absNode d c = some (.cnt l v) ∧ wrap l delta = delta ∧ wrap l v = v

def GoodOp3 (H : Home) (tw : Ticket → Bool) (d : Doc) : UOp → Prop
  | .add p prev val _ => ∃ l, GoodAdd H tw d p prev val l
  | .remove p u _ => (∃ l, GoodDel tw d p u l) ∨ (∃ f, GoodRemove H tw d p u f)
  | .set p k val _ => ∃ f, GoodSet H tw d p k val f
  | .increase c delta _ => GoodInc d c delta
  | _ => False

def aexec3 (H : Home) (A : AHeap) : UOp → AHeap
  | .add p prev val _ => aadd A p prev val.id (absLeaf val.body)
  | .remove p u _ =>
    match A p with
    | some (.arr _) => adel A p u
    | _ => aremove A p (H.key u) u
  | .set p k val _ => aset A p k val.id (absLeaf val.body)
  | .increase c delta _ => ainc A c delta
  | _ => A

/-- the reverse operation of `r` executed on `Y`, in the identities of `Y` -/
def inv3 (H : Home) (Y : Doc) : UOp → UOp
  | .add p _ val ts => .remove p val.id ts
  | .remove p u ts =>
    match absNode Y p with
    | some (.arr l) =>
      match Y u with
      | some ue => .add p (predOf u l) (leafCopy u ue) ts
      | none => .remove p u ts
    | _ => removeRev H Y p u ts
  | .set p k val ts =>
    match absNode Y p with
    | some (.obj f) => setRev Y p k val ts f
    | _ => .set p k val ts
  | .increase c delta ts =>
    match absNode Y c with
    | some (.cnt l _) => .increase c (wrap l (-delta)) ts
    | _ => .increase c delta ts
  | op => op

/-- the identities an operation refers to are not later than `N` -/
def idBound3 : UOp → Int → Prop
  | .add _ prev v _, N => prev.lamport ≤ N ∧ v.id.lamport ≤ N
  | .remove _ u _, N => u.lamport ≤ N
  | .move _ prev target _, N => prev.lamport ≤ N ∧ target.lamport ≤ N
  | .arraySet _ target _ _, N => target.lamport ≤ N
  | .set _ _ v _, N => v.id.lamport ≤ N
  | .increase c _ _, N => c.lamport ≤ N

theorem inv3_par (H : Home) (Y : Doc) (r : UOp) : (inv3 H Y r).par = r.par := by
  cases r with
  | add p prev val ts => rfl
  | remove p u ts =>
    simp only [inv3]
    cases absNode Y p with
    | none => simp only [removeRev]; cases Y u <;> rfl
    | some b =>
      cases b with
      | arr l => simp only []; cases Y u <;> rfl
      | prim r => simp only [removeRev]; cases Y u <;> rfl
      | opq r => simp only [removeRev]; cases Y u <;> rfl
      | cnt l v => simp only [removeRev]; cases Y u <;> rfl
      | obj f => simp only [removeRev]; cases Y u <;> rfl
  | set p k val ts =>
    simp only [inv3]
    cases absNode Y p with
    | none => rfl
    | some b =>
      cases b with
      | obj f =>
        simp only [setRev]
        cases f k with
        | none => rfl
        | some c => simp only []; cases Y c <;> rfl
      | prim r => rfl
      | opq r => rfl
      | cnt l v => rfl
      | arr l => rfl
  | increase c delta ts =>
    simp only [inv3]
    cases absNode Y c with
    | none => rfl
    | some b => cases b <;> rfl
  | move => rfl
  | arraySet => rfl

theorem idBound3_mono {op : UOp} {N N' : Int} (h : idBound3 op N) (hl : N ≤ N') : idBound3 op N' := by
  cases op <;> simp only [idBound3] at h ⊢ <;> first | omega | exact ⟨by omega, by omega⟩

theorem idBound3.to2 {op : UOp} {N : Int} (h : idBound3 op N) : idBound2 op N := by
  cases op <;> simp only [idBound3] at h <;> simp only [idBound2] <;> first | exact h | trivial

/-! ### explicit reverses of the object / counter operations -/

theorem Plain_setRes {d : Doc} {L : Int} {p : Ticket} {pe : Elem} {keys : List String}
    {member : String → Option Member} {k : String} {val : UVal} {ts : Ticket} (pl : PlainArrs d L)
    (hv : leafBody val.body = true) :
    PlainArrs (setRes d p pe keys member k val ts) L := by
  intro t e ns mv h hbe
  rw [setRes_apply] at h
  by_cases h1 : t = p
  · simp only [h1, if_true, Option.some.injEq] at h; subst h; simp [setBody] at hbe
  · by_cases h2 : t = val.id
    · subst h2
      simp only [h1, if_true, if_false, Option.some.injEq] at h
      subst h; simp only [] at hbe; rw [hbe] at hv; simp [leafBody] at hv
    · simp only [h1, h2, if_false] at h
      split at h
      · cases hdt : d t with
        | none => simp [hdt] at h
        | some e0 =>
          simp only [hdt, Option.map_some, Option.some.injEq] at h
          subst h
          exact pl _ _ _ _ hdt hbe
      · exact pl _ _ _ _ h hbe

theorem Plain_setLeaf {d : Doc} {L : Int} {c : Ticket} {ce : Elem} {b' : Body} (pl : PlainArrs d L)
    (hl' : leafBody b' = true) : PlainArrs (d.set c { ce with body := b' }) L := by
  intro t e ns mv h hbe
  rw [set_apply] at h
  by_cases h1 : t = c
  · simp only [h1, if_true, Option.some.injEq] at h
    subst h; simp only [] at hbe; rw [hbe] at hl'; simp [leafBody] at hl'
  · simp only [h1, if_false] at h; exact pl _ _ _ _ h hbe

theorem set_explicit {H : Home} {tw : Ticket → Bool} {d : Doc} {L : Int} {src : Source} {p : Ticket} {k : String}
    {val : UVal} {ts0 ts : Ticket} {f : String → Option Ticket}
    (w : WF H d) (bd : Bounded d L) (pl : PlainArrs d L) (hL : L < ts.lamport) (hid : val.id.lamport ≤ ts.lamport)
    (g : GoodSet H tw d p k val f) (hsrc : src.needsReverse = true) :
    ∃ d', uexecute d tw src (.set p k val ts) = .ok (d', some (setRev d p k val ts f)) ∧
      StepRes H tw d (.set p k val ts0) ts.lamport d' (setRev d p k val ts f) ∧ PlainArrs d' L := by
  obtain ⟨d', rev, he, res⟩ := step_set (ts0 := ts0) w bd hL hid ⟨f, g⟩ hsrc
  obtain ⟨pe, keys, member, hd, hr, hb, hf⟩ := absNode_obj g.hp
  have he' := uexecute_set (ts := ts) bd hL g hsrc hd hb hf
  rw [he'] at he
  injection he with he
  injection he with h1 h2
  injection h2 with h2
  subst h2
  exact ⟨d', by rw [he', h1], res, h1 ▸ Plain_setRes pl g.hleaf⟩

theorem remove_explicit {H : Home} {tw : Ticket → Bool} {d : Doc} {L : Int} {src : Source} {p u ts0 ts : Ticket}
    {f : String → Option Ticket} (w : WF H d) (bd : Bounded d L) (pl : PlainArrs d L) (hL : L < ts.lamport)
    (g : GoodRemove H tw d p u f) (hsrc : src.needsReverse = true) :
    ∃ d', uexecute d tw src (.remove p u ts) = .ok (d', some (removeRev H d p u ts)) ∧
      StepRes H tw d (.remove p u ts0) ts.lamport d' (removeRev H d p u ts) ∧ PlainArrs d' L := by
  obtain ⟨d', rev, he, res⟩ := step_remove (ts0 := ts0) w bd hL ⟨f, g⟩ hsrc
  obtain ⟨pe, keys, member, hd, hr, hb, hf⟩ := absNode_obj g.hp
  have he' := uexecute_remove (ts := ts) w bd hL g hsrc hd hr hb hf
  rw [he'] at he
  injection he with he
  injection he with h1 h2
  injection h2 with h2
  subst h2
  exact ⟨d', by rw [he', h1], res, h1 ▸ Plain_kill pl _⟩

theorem inc_explicit {H : Home} {tw : Ticket → Bool} {d : Doc} {L : Int} {src : Source} {c ts0 ts : Ticket}
    {delta : Int} {l : Bool} {v : Int} (w : WF H d) (bd : Bounded d L) (pl : PlainArrs d L) (hL : L < ts.lamport)
    (hc : absNode d c = some (.cnt l v)) (hwd : wrap l delta = delta) (hwv : wrap l v = v)
    (hsrc : src.needsReverse = true) :
    ∃ d', uexecute d tw src (.increase c delta ts) = .ok (d', some (.increase c (wrap l (-delta)) ts)) ∧
      StepRes H tw d (.increase c delta ts0) ts.lamport d' (.increase c (wrap l (-delta)) ts) ∧ PlainArrs d' L := by
  obtain ⟨d', rev, he, res⟩ := step_increase (tw := tw) (ts0 := ts0) w bd hL ⟨l, v, hc, hwd, hwv⟩ hsrc
  obtain ⟨ce, hce, hcr, hcb⟩ := absNode_cnt hc
  have he' := uexecute_increase (tw := tw) (ts := ts) (delta := delta) hsrc hce hcb
  rw [he'] at he
  injection he with he
  injection he with h1 h2
  injection h2 with h2
  subst h2
  exact ⟨d', by rw [he', h1], res, h1 ▸ Plain_setLeaf pl rfl⟩

theorem setRev_withTs (d : Doc) (p : Ticket) (k : String) (val : UVal) (ts ts' : Ticket) (f : String → Option Ticket) :
    (setRev d p k val ts f).withTs ts' = setRev d p k val ts' f := by
  unfold setRev
  cases f k with
  | none => rfl
  | some c =>
    simp only []
    cases hd : d c <;> rfl

theorem removeRev_withTs (H : Home) (d : Doc) (p u ts ts' : Ticket) :
    (removeRev H d p u ts).withTs ts' = removeRev H d p u ts' := by
  unfold removeRev
  cases d u <;> rfl

theorem aexec_withTs (H : Home) (A : AHeap) (op : UOp) (t : Ticket) : aexec H A (op.withTs t) = aexec H A op := by
  cases op <;> rfl

/-- on operations of the object / counter alphabet the two abstract effects agree -/
theorem aexec3_eq_aexec {H : Home} {tw : Ticket → Bool} {d : Doc} {op : UOp} (g : GoodOp H tw d op) :
    aexec3 H (absNode d) op = aexec H (absNode d) op := by
  cases op with
  | remove p u ts =>
    obtain ⟨f, g⟩ := g
    simp only [aexec3, aexec, g.hp]
  | set => rfl
  | increase => rfl
  | add => exact g.elim
  | move => exact g.elim
  | arraySet => exact g.elim

theorem GoodOp3_of_GoodOp {H : Home} {tw : Ticket → Bool} {d : Doc} {op : UOp} (g : GoodOp H tw d op)
    (hn : ∀ c delta ts, op ≠ .increase c delta ts) : GoodOp3 H tw d op := by
  cases op with
  | remove p u ts => exact Or.inr g
  | set => exact g
  | increase c delta ts => exact absurd rfl (hn c delta ts)
  | add => exact g.elim
  | move => exact g.elim
  | arraySet => exact g.elim

/-! ### the recorded reverse is executable on the recorded result and leads back -/

theorem inv3_good_old {H : Home} {tw : Ticket → Bool} {Y X : Doc} {L : Int} {r rev : UOp} {d'' : Doc}
    (wX : WF H X) (hs : ∀ t, skel X t = skel Y t) (hX : absNode X = aexec H (absNode Y) r)
    (res : StepRes H tw Y r L d'' rev) : GoodOp H tw X rev ∧ aexec H (absNode X) rev = absNode Y := by
  have hnode : absNode d'' = absNode X := res.node.trans hX.symm
  have hskel : ∀ t, skel d'' t = skel X t := fun t => (res.skel t).trans (hs t).symm
  exact ⟨GoodOp_transfer res.wf wX hskel hnode res.good, hnode ▸ res.back⟩

theorem setRev_not_inc (d : Doc) (p : Ticket) (k : String) (val : UVal) (ts : Ticket) (f : String → Option Ticket)
    (c : Ticket) (delta : Int) (ts' : Ticket) : setRev d p k val ts f ≠ .increase c delta ts' := by
  unfold setRev
  cases f k with
  | none => simp
  | some x =>
    simp only []
    cases d x <;> simp

theorem removeRev_not_inc (H : Home) (d : Doc) (p u ts : Ticket) (c : Ticket) (delta : Int) (ts' : Ticket) :
    removeRev H d p u ts ≠ .increase c delta ts' := by
  unfold removeRev
  cases d u <;> simp

theorem inv3_good {H : Home} {tw : Ticket → Bool} {Y X : Doc} {N : Int} {r : UOp} (wY : WF H Y) (wX : WF H X)
    (bdY : Bounded Y N) (plY : PlainArrs Y N) (hs : ∀ t, skel X t = skel Y t) (g : GoodOp3 H tw Y r)
    (hi : idBound3 r N) (hN0 : 0 ≤ N) (hX : absNode X = aexec3 H (absNode Y) r) :
    GoodOp3 H tw X (inv3 H Y r) ∧ absNode Y = aexec3 H (absNode X) (inv3 H Y r) ∧ idBound3 (inv3 H Y r) N := by
  have hN1 : N < (⟨N + 1, 0, 0⟩ : Ticket).lamport := by simp only []; omega
  cases r with
  | add p prev val ts =>
    obtain ⟨⟨l, gd⟩, hb, hid⟩ := inv2_good (r := .add p prev val ts) wY wX plY hs g hX
    refine ⟨Or.inl ⟨l, gd⟩, ?_, hid hN0 hi⟩
    simp only [inv3, aexec3, gd.hp]
    exact hb
  | remove p u ts =>
    rcases g with ⟨l, gd⟩ | ⟨f, gr⟩
    · obtain ⟨b, hbu, hbl⟩ := gd.hleaf
      obtain ⟨ue, hue, _⟩ := absNode_leaf hbu hbl
      have hX' : absNode X = aexec2 (absNode Y) (.remove p u ts) := by
        rw [hX]; simp only [aexec3, aexec2, gd.hp]
      have hinv : inv3 H Y (.remove p u ts) = inv2 Y (.remove p u ts) := by
        simp only [inv3, inv2, gd.hp, hue]
      have hinv2 : inv2 Y (.remove p u ts) = .add p (predOf u l) (leafCopy u ue) ts := by
        simp only [inv2, gd.hp, hue]
      obtain ⟨hg, hb, hid⟩ := inv2_good (r := .remove p u ts) wY wX plY hs ⟨l, gd⟩ hX'
      rw [hinv, hinv2] at *
      exact ⟨hg, hb, hid hN0 hi⟩
    · have hX' : absNode X = aexec H (absNode Y) (.remove p u ts) := by
        rw [hX]; simp only [aexec3, aexec, gr.hp]
      obtain ⟨d'', _, res, _⟩ := remove_explicit (ts0 := ts) (ts := ⟨N + 1, 0, 0⟩) (src := .undoRedo) wY bdY plY hN1 gr rfl
      obtain ⟨g1, b1⟩ := inv3_good_old wX hs hX' res
      have hinv : inv3 H Y (.remove p u ts) = removeRev H Y p u ts := by simp only [inv3, gr.hp]
      rw [hinv]
      have g2 : GoodOp H tw X (removeRev H Y p u ts) := by
        rw [← removeRev_withTs H Y p u ⟨N + 1, 0, 0⟩ ts]; exact (GoodOp_withTs ts).2 g1
      refine ⟨GoodOp3_of_GoodOp g2 (removeRev_not_inc H Y p u ts), ?_, ?_⟩
      · rw [aexec3_eq_aexec g2, ← removeRev_withTs H Y p u ⟨N + 1, 0, 0⟩ ts, aexec_withTs]; exact b1.symm
      · unfold removeRev
        cases Y u with
        | none => exact hi
        | some ce => exact hi
  | set p k val ts =>
    obtain ⟨f, gs⟩ := g
    obtain ⟨d'', _, res, _⟩ := set_explicit (ts0 := ts) (ts := ⟨N + 1, 0, 0⟩) (src := .undoRedo) wY bdY plY hN1
      (by have : val.id.lamport ≤ N := hi; simp only []; omega) gs rfl
    obtain ⟨g1, b1⟩ := inv3_good_old (r := .set p k val ts) wX hs hX res
    have hinv : inv3 H Y (.set p k val ts) = setRev Y p k val ts f := by simp only [inv3, gs.hp]
    rw [hinv]
    have g2 : GoodOp H tw X (setRev Y p k val ts f) := by
      rw [← setRev_withTs Y p k val ⟨N + 1, 0, 0⟩ ts f]; exact (GoodOp_withTs ts).2 g1
    refine ⟨GoodOp3_of_GoodOp g2 (setRev_not_inc Y p k val ts f), ?_, ?_⟩
    · rw [aexec3_eq_aexec g2, ← setRev_withTs Y p k val ⟨N + 1, 0, 0⟩ ts f, aexec_withTs]; exact b1.symm
    · unfold setRev
      cases hfk : f k with
      | none => exact hi
      | some c =>
        simp only []
        cases hc : Y c with
        | none => exact hi
        | some ce => exact bdY.ent _ _ hc
  | increase c delta ts =>
    obtain ⟨l, v, hc, hwd, hwv⟩ := g
    obtain ⟨d'', _, res, _⟩ := inc_explicit (tw := tw) (ts0 := ts) (ts := ⟨N + 1, 0, 0⟩) (src := .undoRedo) wY bdY plY hN1
      hc hwd hwv rfl
    obtain ⟨g1, b1⟩ := inv3_good_old (r := .increase c delta ts) wX hs hX res
    have hinv : inv3 H Y (.increase c delta ts) = .increase c (wrap l (-delta)) ts := by simp only [inv3, hc]
    rw [hinv]
    exact ⟨g1, b1.symm, hi⟩
  | move => exact g.elim
  | arraySet => exact g.elim

end Yorkie.Undo
