/-
Text convergence, part 3: the per-cell functions of `Text.Edit` (tombstoning gated by the version
vector) and `Text.Style` (LWW attribute writes gated by `canStyle`), the cells of a new node, and
the operation alphabet `TOp` with its translation to an abstract operation.
Core Lean only.
-/
import YorkieModel.Lemmas.TextConvRun
set_option linter.unusedSimpArgs false
namespace Yorkie.TextConv
open Yorkie Yorkie.Text

/-- `known (some vv) t`: the deleter had seen the node created at `t` -/
def knownB (vv : VV) (t : Ticket) : Bool := Text.known (some vv) t

/-- the `existed` half of `canStyle` (`createdAt.lamport ≤ clientLamportAtChange`) -/
def existedB (vv : VV) (t : Ticket) : Bool := vv.isEmpty || decide (t.lamport ≤ vv.versionOf t.actor)

/-- either way of "the operation's version vector covers `t`" -/
def sees (vv : VV) (t : Ticket) : Bool := knownB vv t || existedB vv t

/-- `deleteNodes` on one cell: tombstone it iff its creation is covered by the vector -/
def delCell (vv : VV) (c : Cell) : Cell :=
  if knownB vv c.id.1 then { c with removed := true, attrs := AAttrs.empty } else c

/-- `styleNode` on one cell: live cells that existed for the styler get the writes -/
def styCell (vv : VV) (ps : Puts) (c : Cell) : Cell :=
  if existedB vv c.id.1 && !c.removed then { c with attrs := applyPuts ps c.attrs } else c

theorem good_delCell (vv : VV) : Good (delCell vv) where
  id := by intro c; unfold delCell; split <;> rfl
  bnd := by intro c; unfold delCell; split <;> rfl
  split := by
    intro a c
    unfold delCell
    simp only [splitCell_id]
    split
    · unfold splitCell; (repeat' split) <;> rfl
    · rfl

theorem good_styCell (vv : VV) (ps : Puts) : Good (styCell vv ps) where
  id := by intro c; unfold styCell; split <;> rfl
  bnd := by intro c; unfold styCell; split <;> rfl
  split := by
    intro a c
    unfold styCell
    simp only [splitCell_id, splitCell_removed]
    split
    · unfold splitCell; (repeat' split) <;> rfl
    · rfl

theorem delCell_comm (v w : VV) (c : Cell) : delCell v (delCell w c) = delCell w (delCell v c) := by
  unfold delCell
  by_cases h1 : knownB v c.id.1 = true <;> by_cases h2 : knownB w c.id.1 = true <;> simp [h1, h2]

theorem delCell_styCell (v w : VV) (ps : Puts) (c : Cell) :
    delCell v (styCell w ps c) = styCell w ps (delCell v c) := by
  unfold delCell styCell
  by_cases h1 : knownB v c.id.1 = true <;> by_cases h2 : existedB w c.id.1 = true <;>
    cases h3 : c.removed <;> simp [h1, h2, h3]

theorem styCell_comm (v w : VV) (ps qs : Puts) (h : ∀ p ∈ ps, ∀ q ∈ qs, p.2.at_ ≠ q.2.at_) (c : Cell) :
    styCell v ps (styCell w qs c) = styCell w qs (styCell v ps c) := by
  unfold styCell
  by_cases h1 : existedB v c.id.1 = true <;> by_cases h2 : existedB w c.id.1 = true <;>
    cases h3 : c.removed <;> simp [h1, h2, h3, applyPuts_comm ps qs h]

theorem delCell_fix {vv : VV} {c : Cell} (h : knownB vv c.id.1 = false) : delCell vv c = c := by
  unfold delCell; simp [h]

theorem styCell_fix {vv : VV} {ps : Puts} {c : Cell} (h : existedB vv c.id.1 = false) :
    styCell vv ps c = c := by
  unfold styCell; simp [h]

/-! ### cells of a block -/

/-- the cells of one block: ticket, tombstone flag, attributes, first offset, "starts a block" -/
def mkCells (t : Ticket) (rm : Bool) (as : AAttrs) : Nat → Bool → List Nat → Cells
  | _, _, [] => []
  | off, b, u :: r => ⟨(t, off), u, rm, as, b⟩ :: mkCells t rm as (off + 1) false r

theorem mkCells_ticket (t : Ticket) (rm : Bool) (as : AAttrs) (off : Nat) (b : Bool) (u : List Nat) :
    ∀ x ∈ mkCells t rm as off b u, x.id.1 = t := by
  induction u generalizing off b with
  | nil => intro x hx; cases hx
  | cons y r ih =>
    intro x hx
    simp only [mkCells, List.mem_cons] at hx
    rcases hx with rfl | hx
    · rfl
    · exact ih _ _ x hx

/-- `RHT.Set` of every pair / `RHT.Remove` of every key, at the ticket of the operation -/
def setPuts (attrs : List (String × String)) (ts : Ticket) : Puts :=
  attrs.map (fun kv => (kv.1, ⟨kv.2, ts, false⟩))
def remPuts (keys : List String) (ts : Ticket) : Puts :=
  keys.map (fun k => (k, ⟨"", ts, true⟩))

theorem setPuts_ticket {attrs : List (String × String)} {ts : Ticket} : ∀ p ∈ setPuts attrs ts, p.2.at_ = ts := by
  intro p hp; obtain ⟨kv, _, rfl⟩ := List.mem_map.1 hp; rfl
theorem remPuts_ticket {keys : List String} {ts : Ticket} : ∀ p ∈ remPuts keys ts, p.2.at_ = ts := by
  intro p hp; obtain ⟨kv, _, rfl⟩ := List.mem_map.1 hp; rfl

/-- the cells of `newNode ts content attrs` -/
def newCells (ts : Ticket) (content : List Nat) (attrs : List (String × String)) : Cells :=
  mkCells ts false (applyPuts (setPuts attrs ts) AAttrs.empty) 0 true content

/-! ### operations -/

inductive Body where
  /-- `Text.Edit(from, to, content, attributes)` -/
  | edit (content : List Nat) (attrs : List (String × String))
  /-- `operations.Style`: attributes to set, keys to remove -/
  | style (attrs : List (String × String)) (keys : List String)

/-- an operation as it travels in a change: the Go fields `fr to body ts vv`, plus two GHOST fields
    that name its causal context finitely (see the header of `TextConvSem.lean`) -/
structure TOp where
  fr : Pos
  to : Pos
  body : Body
  /-- `executedAt` -/
  ts : Ticket
  /-- the version vector of the change -/
  vv : VV
  /-- ghost: how many operations on this text the author issued before (`ClientSeq`-like) -/
  seq : Nat
  /-- ghost: for every other actor the version vector knows, the ticket of the last operation of
      that actor the author had applied -/
  deps : List Ticket

/-- the absolute id a position names -/
def Pos.abs (p : Pos) : Id := (p.id.1, p.id.2 + p.rel)

/-- the cell a position sits right after; `none` is the initial head (offset 0) -/
def anchorOf (p : Pos) : Option Id :=
  if p.id.2 + p.rel = 0 then none else some (p.id.1, p.id.2 + p.rel - 1)

def TOp.puts (o : TOp) : Puts :=
  match o.body with
  | .edit _ _ => []
  | .style attrs keys => remPuts keys o.ts ++ setPuts attrs o.ts

def TOp.aop (o : TOp) : AOp where
  fr := anchorOf o.fr
  to := anchorOf o.to
  ts := o.ts
  f := match o.body with
    | .edit _ _ => delCell o.vv
    | .style _ _ => styCell o.vv o.puts
  X := match o.body with
    | .edit content attrs => newCells o.ts content attrs
    | .style _ _ => []

theorem TOp.good (o : TOp) : Good o.aop.f := by
  unfold TOp.aop
  cases o.body <;> simp only
  · exact good_delCell _
  · exact good_styCell _ _

theorem TOp.X_ticket (o : TOp) : ∀ x ∈ o.aop.X, x.id.1 = o.aop.ts := by
  unfold TOp.aop
  cases o.body <;> simp only
  · exact mkCells_ticket _ _ _ _ _ _
  · intro x hx; cases hx

theorem TOp.puts_ticket (o : TOp) : ∀ p ∈ o.puts, p.2.at_ = o.ts := by
  unfold TOp.puts
  cases o.body <;> simp only
  · intro p hp; cases hp
  · intro p hp
    rcases List.mem_append.1 hp with h | h
    · exact remPuts_ticket p h
    · exact setPuts_ticket p h

/-- per-cell functions of two operations with different tickets commute -/
theorem TOp.f_comm (a b : TOp) (h : a.ts ≠ b.ts) (c : Cell) :
    a.aop.f (b.aop.f c) = b.aop.f (a.aop.f c) := by
  unfold TOp.aop
  cases ha : a.body <;> cases hb : b.body <;> simp only
  · exact delCell_comm _ _ c
  · exact delCell_styCell _ _ _ c
  · exact (delCell_styCell _ _ _ c).symm
  · apply styCell_comm
    intro p hp q hq
    rw [a.puts_ticket p hp, b.puts_ticket q hq]; exact h

/-- an operation whose vector does not cover `t` leaves cells created at `t` alone -/
theorem TOp.f_fix (a : TOp) {c : Cell} (h : sees a.vv c.id.1 = false) : a.aop.f c = c := by
  unfold sees at h
  rw [Bool.or_eq_false_iff] at h
  unfold TOp.aop
  cases a.body <;> simp only
  · exact delCell_fix h.1
  · exact styCell_fix h.2

end Yorkie.TextConv
