/-
Document-level basics for the convergence instantiation of the observable CRDT model:
`creates`, `refs`, `ids`, `WF`, `Pre`, list-level bookkeeping of the RGA position list,
and the generic "effect" normal form of a successful operation.
-/
import YorkieModel.Model.Crdt
import YorkieModel.Lemmas.Array2
namespace Yorkie.Crdt
open Yorkie

/-! ### operation accessors -/

def Op.parent : Op → Ticket
  | .set p _ _ _ => p
  | .add p _ _ _ => p
  | .move p _ _ _ => p
  | .remove p _ _ => p
  | .arraySet p _ _ _ => p
  | .increase p _ _ => p

def Op.ts : Op → Ticket
  | .set _ _ _ t => t
  | .add _ _ _ t => t
  | .move _ _ _ t => t
  | .remove _ _ t => t
  | .arraySet _ _ _ t => t
  | .increase _ _ t => t

/-- the tickets an operation introduces (heap cell and/or position identity) -/
def creates : Op → List Ticket
  | .set _ _ _ t => [t]
  | .add _ _ _ t => [t]
  | .move _ _ _ t => [t]
  | .arraySet _ _ _ t => [t]
  | .remove _ _ _ => []
  | .increase _ _ _ => []

/-- everything the operation looks up, before dropping the initial ticket -/
def rawRefs : Op → List Ticket
  | .set p _ _ _ => [p]
  | .add p prev _ _ => [p, prev]
  | .move p prev target _ => [p, prev, target]
  | .remove p target _ => [p, target]
  | .arraySet p target _ _ => [p, target]
  | .increase p _ _ => [p]

/-- the tickets the operation looks up; the initial ticket (root object / dummy head) always exists -/
def refs (a : Op) : List Ticket := (rawRefs a).filter (fun i => decide (i ≠ rootId))

theorem mem_refs {a : Op} {i : Ticket} : i ∈ refs a ↔ i ∈ rawRefs a ∧ i ≠ rootId := by
  simp [refs]

theorem parent_mem_rawRefs (a : Op) : a.parent ∈ rawRefs a := by
  cases a <;> simp [rawRefs, Op.parent]

def Indep (a b : Op) : Prop :=
  (∀ i ∈ creates a, i ∉ refs b ∧ i ∉ creates b) ∧ (∀ i ∈ creates b, i ∉ refs a)

theorem creates_sub (a : Op) : ∀ i ∈ creates a, i = a.ts := by
  cases a <;> simp [creates, Op.ts]

/-! ### position-list bookkeeping -/

/-
`ElemSlots` and `Fresh` are the definitions of `YorkieModel.Lemmas.Array2`:
  def ElemSlots (nodes : List PosNode) : Prop :=
    ∀ n ∈ nodes, ∀ e, n.elem = some e → hasPos nodes e = true
  def Fresh (nodes : List PosNode) (t : Ticket) : Prop :=
    hasPos nodes t = false ∧ holds nodes t = false
The bookkeeping lemmas below (suffix `_bk` where the name also exists in `Array2`) are
self-contained; only the two definitions are shared.
-/

theorem hasPos_iff {l : List PosNode} {i : Ticket} : hasPos l i = true ↔ ∃ n ∈ l, n.pos = i := by
  simp [hasPos]

theorem holds_iff_bk {l : List PosNode} {e : Ticket} :
    holds l e = true ↔ ∃ n ∈ l, n.elem = some e := by
  simp [holds]

theorem elemSlots_iff_bk {l : List PosNode} :
    ElemSlots l ↔ ∀ e, holds l e = true → hasPos l e = true := by
  constructor
  · intro h e he
    obtain ⟨n, hn, hne⟩ := holds_iff_bk.1 he
    exact h n hn e hne
  · intro h n hn e hne
    exact h e (holds_iff_bk.2 ⟨n, hn, hne⟩)

theorem mem_insertSkip {new x : PosNode} {l : List PosNode} :
    x ∈ insertSkip new l ↔ x = new ∨ x ∈ l := by
  induction l with
  | nil => simp [insertSkip]
  | cons n r ih =>
    unfold insertSkip
    split
    · simp [ih]; grind
    · simp

theorem insertAfterWhere_isSome (start : PosNode → Bool) (new : PosNode) (l : List PosNode) :
    (insertAfterWhere start new l).isSome = l.any start := by
  induction l with
  | nil => simp [insertAfterWhere]
  | cons n r ih =>
    unfold insertAfterWhere
    split
    · simp [*]
    · simp [*]

theorem mem_insertAfterWhere {start : PosNode → Bool} {new x : PosNode} {l l' : List PosNode}
    (h : insertAfterWhere start new l = some l') : x ∈ l' ↔ x = new ∨ x ∈ l := by
  induction l generalizing l' with
  | nil => simp [insertAfterWhere] at h
  | cons n r ih =>
    unfold insertAfterWhere at h
    split at h
    · cases h; simp [mem_insertSkip]; grind
    · cases h' : insertAfterWhere start new r with
      | none => simp [h'] at h
      | some r' =>
        simp [h'] at h; subst h
        simp [ih h']; grind

theorem hasPos_of_mem {new : PosNode} {l l' : List PosNode}
    (h : ∀ x, x ∈ l' ↔ x = new ∨ x ∈ l) (i : Ticket) :
    hasPos l' i = (decide (i = new.pos) || hasPos l i) := by
  rw [Bool.eq_iff_iff]
  simp only [hasPos_iff, Bool.or_eq_true, decide_eq_true_eq, h]
  grind

theorem holds_of_mem {new : PosNode} {l l' : List PosNode}
    (h : ∀ x, x ∈ l' ↔ x = new ∨ x ∈ l) (e : Ticket) :
    holds l' e = (decide (new.elem = some e) || holds l e) := by
  rw [Bool.eq_iff_iff]
  simp only [holds_iff_bk, Bool.or_eq_true, decide_eq_true_eq, h]
  grind

theorem hasPos_vacate_bk (t : Ticket) (l : List PosNode) (i : Ticket) :
    hasPos (vacate t l) i = hasPos l i := by
  induction l with
  | nil => simp [vacate, hasPos]
  | cons n r ih =>
    simp only [vacate, hasPos, List.map_cons, List.any_cons] at ih ⊢
    rw [ih]; split <;> rfl

theorem holds_vacate_bk (t : Ticket) (l : List PosNode) (e : Ticket) :
    holds (vacate t l) e = (holds l e && !decide (e = t)) := by
  induction l with
  | nil => simp [vacate, holds]
  | cons n r ih =>
    simp only [vacate, holds, List.map_cons, List.any_cons] at ih ⊢
    rw [ih]
    by_cases h : n.elem = some t
    · by_cases h' : e = t <;> simp [h, h']
      intro h''; exact absurd h''.symm h'
    · by_cases h' : e = t <;> simp [h, h']

/-! ### success and observations of the array transitions -/

theorem insertAfterNodes_isSome (prev : Ticket) (new : PosNode) (l : List PosNode) :
    (insertAfterNodes prev new l).isSome = (hasPos l prev || holds l prev) := by
  unfold insertAfterNodes
  split
  · rename_i h
    rw [insertAfterWhere_isSome]; simp only [hasPos]; rw [h]; rfl
  · rename_i h
    rw [insertAfterWhere_isSome]; simp only [hasPos, holds]
    simp only [Bool.not_eq_true] at h; rw [h]; rfl

theorem mem_insertAfterNodes {prev : Ticket} {new x : PosNode} {l l' : List PosNode}
    (h : insertAfterNodes prev new l = some l') : x ∈ l' ↔ x = new ∨ x ∈ l := by
  unfold insertAfterNodes at h
  split at h <;> exact mem_insertAfterWhere h

theorem insertAfter_isSome (prev : Ticket) (new : PosNode) (l : List PosNode) :
    (insertAfter prev new l).isSome = (decide (prev = headId) || hasPos l prev || holds l prev) := by
  unfold insertAfter
  split
  · simp [*]
  · simp [*, insertAfterNodes_isSome]

theorem mem_insertAfter {prev : Ticket} {new x : PosNode} {l l' : List PosNode}
    (h : insertAfter prev new l = some l') : x ∈ l' ↔ x = new ∨ x ∈ l := by
  unfold insertAfter at h
  split at h
  · cases h; exact mem_insertSkip
  · exact mem_insertAfterNodes h

theorem insertPosAfter_isSome (prev : Ticket) (new : PosNode) (l : List PosNode) :
    (insertPosAfter prev new l).isSome = (decide (prev = headId) || hasPos l prev) := by
  unfold insertPosAfter
  split
  · simp [*]
  · simp [*, insertAfterWhere_isSome, hasPos]

theorem mem_insertPosAfter {prev : Ticket} {new x : PosNode} {l l' : List PosNode}
    (h : insertPosAfter prev new l = some l') : x ∈ l' ↔ x = new ∨ x ∈ l := by
  unfold insertPosAfter at h
  split at h
  · cases h; exact mem_insertSkip
  · exact mem_insertAfterWhere h

theorem arrAdd_isSome_bk (prev ts : Ticket) (s : ArrSt) :
    (arrAdd prev ts s).isSome = (decide (prev = headId) || hasPos s.nodes prev || holds s.nodes prev) := by
  simp [arrAdd, insertAfter_isSome]

theorem arrAdd_obs {prev ts : Ticket} {s s' : ArrSt} (h : arrAdd prev ts s = some s') :
    s'.moved = s.moved ∧
    (∀ i, hasPos s'.nodes i = (decide (i = ts) || hasPos s.nodes i)) ∧
    (∀ i, holds s'.nodes i = (decide (i = ts) || holds s.nodes i)) := by
  unfold arrAdd at h
  cases h' : insertAfter prev ⟨ts, some ts⟩ s.nodes with
  | none => simp [h'] at h
  | some l' =>
    simp [h'] at h; subst h
    refine ⟨rfl, fun i => ?_, fun i => ?_⟩
    · simpa using hasPos_of_mem (fun x => mem_insertAfter h') i
    · have := holds_of_mem (fun x => mem_insertAfter h') i
      simp only [Option.some.injEq] at this
      rw [this]; congr 1; simp [eq_comm]

theorem arrSet_isSome_bk (target ts : Ticket) (s : ArrSt) :
    (arrSet target ts s).isSome = holds s.nodes target := by
  unfold arrSet
  split
  · rename_i h; simp at h; simp [h]
  · rename_i h; simp at h
    simp [insertAfterNodes_isSome, h]

theorem arrSet_obs {target ts : Ticket} {s s' : ArrSt} (h : arrSet target ts s = some s') :
    s'.moved = s.moved ∧
    (∀ i, hasPos s'.nodes i = (decide (i = ts) || hasPos s.nodes i)) ∧
    (∀ i, holds s'.nodes i = (decide (i = ts) || holds s.nodes i)) := by
  unfold arrSet at h
  split at h
  · cases h
  · cases h' : insertAfterNodes target ⟨ts, some ts⟩ s.nodes with
    | none => simp [h'] at h
    | some l' =>
      simp [h'] at h; subst h
      refine ⟨rfl, fun i => ?_, fun i => ?_⟩
      · simpa using hasPos_of_mem (fun x => mem_insertAfterNodes h') i
      · have := holds_of_mem (fun x => mem_insertAfterNodes h') i
        simp only [Option.some.injEq] at this
        rw [this]; congr 1; simp [eq_comm]

theorem arrMove_isSome_bk (prev target ts : Ticket) (s : ArrSt) :
    (arrMove prev target ts s).isSome =
      ((decide (prev = headId) || hasPos s.nodes prev) && holds s.nodes target) := by
  unfold arrMove
  split
  · rename_i h; simp at h; simp [h]
  · rename_i h
    have h3 : (decide (prev = headId) || hasPos s.nodes prev) = true := by
      by_cases e : prev = headId
      · simp [e]
      · simpa [e] using h
    split
    · rename_i h2; simp at h2; simp [h2]
    · rename_i h2
      simp at h2
      split
      · split
        · simp [h2, h3]
        · simp [insertPosAfter_isSome, h2, h3]
      · simp [insertPosAfter_isSome, hasPos_vacate_bk, h2, h3]

theorem arrMove_obs {prev target ts : Ticket} {s s' : ArrSt} (hf : hasPos s.nodes ts = false)
    (h : arrMove prev target ts s = some s') :
    (∀ i, hasPos s'.nodes i = (decide (i = ts) || hasPos s.nodes i)) ∧
    (∀ i, holds s'.nodes i = holds s.nodes i) := by
  have hs := arrMove_isSome_bk prev target ts s
  rw [h] at hs
  simp only [Option.isSome_some] at hs
  have hh : holds s.nodes target = true := by
    have := hs.symm; simp only [Bool.and_eq_true] at this; exact this.2
  unfold arrMove at h
  split at h
  · cases h
  · split at h
    · cases h
    · split at h
      · rw [hf] at h
        simp only [Bool.false_eq_true, if_false] at h
        cases h' : insertPosAfter prev ⟨ts, none⟩ s.nodes with
        | none => simp [h'] at h
        | some l' =>
          simp [h'] at h; subst h
          refine ⟨fun i => ?_, fun i => ?_⟩
          · simpa using hasPos_of_mem (fun x => mem_insertPosAfter h') i
          · simpa using holds_of_mem (fun x => mem_insertPosAfter h') i
      · cases h' : insertPosAfter prev ⟨ts, some target⟩ (vacate target s.nodes) with
        | none => simp [h'] at h
        | some l' =>
          simp [h'] at h; subst h
          refine ⟨fun i => ?_, fun i => ?_⟩
          · simpa [hasPos_vacate_bk] using hasPos_of_mem (fun x => mem_insertPosAfter h') i
          · have := holds_of_mem (fun x => mem_insertPosAfter h') i
            simp only [Option.some.injEq, holds_vacate_bk] at this
            rw [this]
            by_cases e : i = target
            · subst e; simp [hh]
            · simp [e]; intro h''; exact absurd h''.symm e

end Yorkie.Crdt
