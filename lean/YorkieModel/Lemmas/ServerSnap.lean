/-
What the snapshot side of the server (`Model/ServerSnap.lean`) guarantees about CLOCKS, and where it does not.

C06 needs, at system level, the counterpart of `setClocks_dominates`: the vector handed out with a snapshot
covers every change the snapshot contains (then `C06.change_causal` applies to a snapshot-fed replica exactly
as to a change-fed one).  The server's documents are folds of `syncClocks`, so this is an invariant of the
snapshot table and the snapshot cache:

  * `Covers log d`      – the server document `d` is newer than every clock-carrying row up to its checkpoint;
  * `SoundRow log r`    – a stored snapshot row covers every clock-carrying row up to its `serverSeq`.

`buildDoc_covers`: if every stored row and the cached document are sound, the document
`BuildInternalDocForServerSeq` returns (and caches) covers its prefix – for every cache state and every
`serverSeq`.  `snapshotResp_covers`: so does the vector of a snapshot response, including the requester's own
pushed changes.  `storeSnapshot_sound`: a row stored while some client has a `versionvectors` row (or with the
candidate fix) is sound again – the invariant is inductive.

The full statement is FALSE of the tree as it is: `storeSnapshot` with `hasRow = false` stores an empty vector.
`stored_vector_dropped_witness` is a concrete log on which the stored row is not sound and the vector of the next
snapshot response misses an actor whose change the snapshot contains (replayed on the real server by
corpus/C06/srv-snapshot-vector-dropped.trace).
-/
import YorkieModel.Model.ServerSnap
import YorkieModel.Props.C06
namespace Yorkie.ServerSnap
open Yorkie Yorkie.Server
open Yorkie.Props.C06 (Inv Ev EvOk inv_run run_mono inv_syncClocks inv_setClocks recv_dominates)

/-- `d` dominates the clock-carrying id `x` -/
def Dominates (c x : ChangeID) : Prop := x.hasClocks = true → x.lamport < c.lamport ∧ VV.le x.vv c.vv

/-- the server document is newer than every row up to its checkpoint -/
def Covers (log : List Row) (d : SDoc) : Prop :=
  Inv d.clock ∧ ∀ row ∈ log, row.serverSeq ≤ d.serverSeq → Dominates d.clock (rowId row)

/-- a stored snapshot row covers every row up to its `serverSeq` (non-strictly: the reload adds the tick) -/
def SoundRow (log : List Row) (r : SnapRow) : Prop :=
  (0 ≤ r.lamport ∧ ∀ a x, r.vv.get? a = some x → 0 ≤ x ∧ x ≤ r.lamport) ∧
  ∀ row ∈ log, row.serverSeq ≤ r.serverSeq → (rowId row).hasClocks = true →
    row.lamport ≤ r.lamport ∧ VV.le row.vv r.vv

theorem applyIds_eq_run (c : ChangeID) (ids : List ChangeID) :
    applyIds c ids = Props.C06.run c (ids.map Ev.recv) := by
  simp [applyIds, Props.C06.run, List.foldl_map, Props.C06.step]

theorem inv_applyIds (c : ChangeID) (ids : List ChangeID) (h : Inv c) (hi : ∀ d ∈ ids, Inv d) :
    Inv (applyIds c ids) := by
  rw [applyIds_eq_run]
  refine inv_run c _ h ?_
  intro e he
  obtain ⟨d, hd, rfl⟩ := List.mem_map.mp he
  exact hi d hd

theorem applyIds_mono (c : ChangeID) (ids : List ChangeID) (h : Inv c) (hi : ∀ d ∈ ids, Inv d) :
    c.lamport ≤ (applyIds c ids).lamport ∧ VV.le c.vv (applyIds c ids).vv := by
  rw [applyIds_eq_run]
  have := run_mono c (ids.map Ev.recv) h (by
    intro e he
    obtain ⟨d, hd, rfl⟩ := List.mem_map.mp he
    exact hi d hd)
  exact ⟨this.1, this.2.1⟩

theorem Dominates.mono {c c' x : ChangeID} (h : Dominates c x) (hl : c.lamport ≤ c'.lamport)
    (hv : VV.le c.vv c'.vv) : Dominates c' x := by
  intro hx
  obtain ⟨a, b⟩ := h hx
  exact ⟨by omega, VV.le_trans b hv⟩

/-- a fold of `syncClocks` dominates every id it applied -/
theorem applyIds_dominates (c : ChangeID) (ids : List ChangeID) (h : Inv c) (hi : ∀ d ∈ ids, Inv d) :
    ∀ d ∈ ids, Dominates (applyIds c ids) d := by
  induction ids generalizing c with
  | nil => intro d hd; cases hd
  | cons x r ih =>
    intro d hd
    have hx : Inv x := hi x (List.mem_cons_self ..)
    have hr : ∀ d ∈ r, Inv d := fun d hd => hi d (List.mem_cons_of_mem _ hd)
    have hc' : Inv (c.syncClocks x) := inv_syncClocks c x h hx
    have hfold : applyIds c (x :: r) = applyIds (c.syncClocks x) r := by simp [applyIds]
    rw [hfold]
    rcases List.mem_cons.mp hd with rfl | hd
    · have hm := applyIds_mono (c.syncClocks d) r hc' hr
      have hdm : Dominates (c.syncClocks d) d := fun hcl => recv_dominates c d h hx hcl
      exact hdm.mono hm.1 hm.2
    · exact ih (c.syncClocks x) hc' hr d hd

theorem mem_findBetween {log : List Row} {lo hi : Int} {row : Row} (hm : row ∈ log)
    (h1 : lo ≤ row.serverSeq) (h2 : row.serverSeq ≤ hi) : row ∈ findBetween log lo hi := by
  unfold findBetween
  have : ¬ lo > hi := by omega
  simp [this, inRange, hm, h1, h2]

theorem findBetween_sub {log : List Row} {lo hi : Int} {row : Row} (h : row ∈ findBetween log lo hi) :
    row ∈ log := by
  unfold findBetween at h
  split at h
  · cases h
  · exact (List.mem_filter.mp h).1

/-- `ApplyChangePack` on a server document keeps it covering -/
theorem applyRows_covers (log : List Row) (d : SDoc) (upTo : Int) (hlog : ∀ row ∈ log, Inv (rowId row))
    (hd : Covers log d) : Covers log (applyRows d log upTo) := by
  obtain ⟨hinv, hcov⟩ := hd
  have hids : ∀ x ∈ (findBetween log (d.serverSeq + 1) upTo).map rowId, Inv x := by
    intro x hx
    obtain ⟨row, hrow, rfl⟩ := List.mem_map.mp hx
    exact hlog row (findBetween_sub hrow)
  refine ⟨inv_applyIds _ _ hinv hids, ?_⟩
  intro row hrow hle
  simp only [applyRows] at hle ⊢
  by_cases hold : row.serverSeq ≤ d.serverSeq
  · have hm := applyIds_mono d.clock _ hinv hids
    exact (hcov row hrow hold).mono hm.1 hm.2
  · have hup : row.serverSeq ≤ upTo := by
      rcases Int.le_total d.serverSeq upTo with h | h
      · rw [Int.max_eq_right h] at hle; exact hle
      · rw [Int.max_eq_left h] at hle; omega
    have hmem : rowId row ∈ (findBetween log (d.serverSeq + 1) upTo).map rowId :=
      List.mem_map.mpr ⟨row, mem_findBetween hrow (by omega) hup, rfl⟩
    exact applyIds_dominates d.clock _ hinv hids _ hmem

theorem initial_inv : Inv ChangeID.initial := by
  simp [Props.C06.Inv, ChangeID.initial]

/-- reloading a sound row gives a covering document -/
theorem fromSnapshot_covers (log : List Row) (r : SnapRow) (h : SoundRow log r) : Covers log (fromSnapshot r) := by
  obtain ⟨hv, hcov⟩ := h
  refine ⟨inv_setClocks _ _ _ initial_inv hv, ?_⟩
  intro row hrow hle hcl
  obtain ⟨h1, h2⟩ := hcov row hrow hle hcl
  simp only [fromSnapshot, ChangeID.setClocks, ChangeID.initial]
  refine ⟨?_, ?_⟩
  · show row.lamport < Max.max (0 : Int) r.lamport + 1
    have : r.lamport ≤ Max.max (0 : Int) r.lamport := Int.le_max_right _ _
    simp only [rowId] at *
    omega
  · show VV.le row.vv ((VV.max [] r.vv).set ChangeID.initialActor (Max.max (0 : Int) r.lamport + 1))
    refine VV.le_trans h2 (VV.le_trans (VV.le_max_right [] r.vv) (VV.le_set _ _ _ ?_))
    intro x hx
    rcases VV.max_entry_cases _ _ _ _ hx with hx | hx
    · simp [VV.get?] at hx
    · have := (hv.2 _ x hx).2
      have : r.lamport ≤ Max.max (0 : Int) r.lamport := Int.le_max_right _ _
      omega

theorem noSnapshot_sound (log : List Row) (hpos : ∀ row ∈ log, 0 < row.serverSeq) : SoundRow log noSnapshot := by
  refine ⟨⟨Int.le_refl 0, ?_⟩, ?_⟩
  · intro a x hx; simp [noSnapshot] at hx
  · intro row hrow hle
    have := hpos row hrow
    simp only [noSnapshot] at hle
    omega

theorem closest_mem (rows : List SnapRow) (seq : Int) :
    closest rows seq = noSnapshot ∨ closest rows seq ∈ rows := by
  unfold closest
  suffices h : ∀ (best : SnapRow), (rows.foldl (closer seq) best = best ∨ rows.foldl (closer seq) best ∈ rows) from h noSnapshot
  induction rows with
  | nil => intro best; left; rfl
  | cons r rest ih =>
    intro best
    simp only [List.foldl_cons]
    rcases ih (closer seq best r) with h | h
    · rw [h]
      unfold closer
      split
      · right; exact List.mem_cons_self ..
      · left; rfl
    · right; exact List.mem_cons_of_mem _ h

theorem closest_sound (log : List Row) (rows : List SnapRow) (seq : Int) (hpos : ∀ row ∈ log, 0 < row.serverSeq)
    (hrows : ∀ r ∈ rows, SoundRow log r) : SoundRow log (closest rows seq) := by
  rcases closest_mem rows seq with h | h
  · rw [h]; exact noSnapshot_sound log hpos
  · exact hrows _ h

/-- invariant of the snapshot store of one document -/
def SoundStore (log : List Row) (sn : Snaps) : Prop :=
  (∀ r ∈ sn.rows, SoundRow log r) ∧ ∀ d, sn.cache = some d → Covers log d

/-- C06 at system level, server side: whatever the cache holds and whichever stored snapshot the rebuild starts
from, the document `BuildInternalDocForServerSeq` returns dominates every row up to its checkpoint, and the
store stays sound. -/
theorem buildDoc_covers (log : List Row) (sn : Snaps) (seq : Int) (hpos : ∀ row ∈ log, 0 < row.serverSeq)
    (hlog : ∀ row ∈ log, Inv (rowId row)) (hs : SoundStore log sn) :
    Covers log (buildDoc sn log seq).2 ∧ SoundStore log (buildDoc sn log seq).1 := by
  have hstart : Covers log (buildStart sn seq) := by
    unfold buildStart
    split
    · rename_i c hc
      split
      · exact fromSnapshot_covers log _ (closest_sound log _ _ hpos hs.1)
      · exact hs.2 c hc
    · exact fromSnapshot_covers log _ (closest_sound log _ _ hpos hs.1)
  have hres := applyRows_covers log (buildStart sn seq) seq hlog hstart
  refine ⟨hres, hs.1, ?_⟩
  intro d hd
  simp only [buildDoc] at hd
  injection hd with hd
  rw [← hd]; exact hres

/-- the vector of a snapshot response (GC-participating requester) dominates every row of the prefix the
snapshot was built for, and every change of the request itself -/
theorem snapshotResp_covers (log : List Row) (doc : SDoc) (req : List ChangeReq) (c : ClientId)
    (hdoc : Covers log doc) (hreq : ∀ x ∈ req, Inv (reqId x)) :
    (∀ row ∈ log, row.serverSeq ≤ doc.serverSeq → (rowId row).hasClocks = true →
      VV.le row.vv (snapshotRespVV doc req c false)) ∧
    (∀ x ∈ req, (reqId x).hasClocks = true → VV.le x.vv (snapshotRespVV doc req c false)) := by
  have hids : ∀ x ∈ req.map reqId, Inv x := by
    intro x hx
    obtain ⟨y, hy, rfl⟩ := List.mem_map.mp hx
    exact hreq y hy
  have hm := applyIds_mono doc.clock (req.map reqId) hdoc.1 hids
  refine ⟨?_, ?_⟩
  · intro row hrow hle hcl
    simp only [snapshotRespVV, Bool.false_eq_true, if_false]
    exact VV.le_trans (hdoc.2 row hrow hle hcl).2 hm.2
  · intro x hx hcl
    simp only [snapshotRespVV, Bool.false_eq_true, if_false]
    exact (applyIds_dominates doc.clock (req.map reqId) hdoc.1 hids (reqId x) (List.mem_map.mpr ⟨x, hx, rfl⟩) hcl).2

/-- the row `storeSnapshot` appends is sound when it stores the rebuilt document's vector – i.e. when some client
has a `versionvectors` row, or with the candidate fix (`dropVectorWithoutRows = false`) -/
theorem storeSnapshot_sound (log : List Row) (sn : Snaps) (head interval : Int) (hasRow : Bool)
    (hpos : ∀ row ∈ log, 0 < row.serverSeq) (hlog : ∀ row ∈ log, Inv (rowId row)) (hs : SoundStore log sn)
    (hkeep : hasRow = true ∨ dropVectorWithoutRows = false) :
    SoundStore log (storeSnapshot sn log head interval hasRow) := by
  unfold storeSnapshot
  split
  · exact hs
  · split
    · exact hs
    · have hc : Covers log (applyRows (fromSnapshot (closest sn.rows head)) log head) :=
        applyRows_covers log _ head hlog (fromSnapshot_covers log _ (closest_sound log _ _ hpos hs.1))
      refine ⟨?_, hs.2⟩
      intro r hr
      rcases List.mem_append.mp hr with hr | hr
      · exact hs.1 r hr
      · simp only [List.mem_singleton] at hr
        subst hr
        have hvv : (if (hasRow || !dropVectorWithoutRows) = true then
            (applyRows (fromSnapshot (closest sn.rows head)) log head).clock.vv else []) =
            (applyRows (fromSnapshot (closest sn.rows head)) log head).clock.vv := by
          rcases hkeep with h | h <;> simp [h]
        simp only [SoundRow, hvv]
        obtain ⟨⟨i1, i2⟩, hcov⟩ := hc
        refine ⟨⟨i2, i1⟩, ?_⟩
        intro row hrow hle hcl
        obtain ⟨a, b⟩ := hcov row hrow hle hcl
        exact ⟨by simp only [rowId] at a; omega, b⟩

/-! ### where a rebuild ends (used by Props/C20Srv) -/

theorem closest_le (rows : List SnapRow) (seq : Int) (h : 0 ≤ seq) : (closest rows seq).serverSeq ≤ seq := by
  unfold closest
  suffices hb : ∀ best : SnapRow, best.serverSeq ≤ seq → (rows.foldl (closer seq) best).serverSeq ≤ seq from
    hb noSnapshot h
  induction rows with
  | nil => intro best hb; exact hb
  | cons r rest ih =>
    intro best hb
    simp only [List.foldl_cons]
    apply ih
    unfold closer
    split
    · rename_i hc; exact hc.1
    · exact hb

theorem start_le (sn : Snaps) (seq : Int) (h : 0 ≤ seq) : (buildStart sn seq).serverSeq ≤ seq := by
  unfold buildStart
  split
  · rename_i c _
    split
    · exact closest_le sn.rows seq h
    · rename_i hn; omega
  · exact closest_le sn.rows seq h

/-! ### negation witness: the tree as it is (`dropVectorWithoutRows = true`) -/

/-- actor 7 attaches (presence only), edits (lamport 1) and detaches (presence clear); nobody is attached when
the background routine stores the snapshot of serverSeq 3 -/
def witnessLog : List Row :=
  [ { serverSeq := 1, actor := 7, clientSeq := 1, lamport := 0, vv := [], hasOps := false, hasPresence := true, tag := 0 },
    { serverSeq := 2, actor := 7, clientSeq := 2, lamport := 1, vv := [(7, 1)], hasOps := true, hasPresence := false, tag := 0 },
    { serverSeq := 3, actor := 7, clientSeq := 3, lamport := 0, vv := [], hasOps := false, hasPresence := true, tag := 0 } ]

def witnessStore : Snaps := storeSnapshot {} witnessLog 3 1 false

/-- the stored row has an empty vector, and the vector of the snapshot response the next attacher gets has no
entry for actor 7 although the snapshot contains its change with lamport 1: the full statement
"`SoundStore` is preserved by `storeSnapshot`" is false without `hkeep`. -/
theorem stored_vector_dropped_witness :
    (witnessStore.rows.map (fun r => (r.serverSeq, r.lamport, r.vv))) = [(3, 2, [])] ∧
    snapshotRespVV (buildDoc witnessStore witnessLog 3).2 [] 9 false = [(0, 3)] ∧
    (snapshotRespVV (buildDoc witnessStore witnessLog 3).2 [] 9 false).get? 7 = none ∧
    ¬ SoundStore witnessLog witnessStore := by
  refine ⟨by decide, by decide, by decide, ?_⟩
  intro h
  have hmem : (⟨3, 2, []⟩ : SnapRow) ∈ witnessStore.rows := by decide
  have hrow : SoundRow witnessLog ⟨3, 2, []⟩ := h.1 _ hmem
  have := (hrow.2 ⟨2, 7, 2, 1, [(7, 1)], true, false, 0, 0⟩ (by decide) (by decide) (by decide)).2 7 1 (by decide)
  obtain ⟨y, hy, _⟩ := this
  simp [VV.get?] at hy

/-- non-vacuity of the positive side: with a client attached at store time the same log gives a sound store
whose snapshot response covers actor 7 -/
example :
    (storeSnapshot {} witnessLog 3 1 true).rows.map (fun r => (r.serverSeq, r.lamport, r.vv)) = [(3, 2, [(0, 2), (7, 1)])] ∧
    (snapshotRespVV (buildDoc (storeSnapshot {} witnessLog 3 1 true) witnessLog 3).2 [] 9 false).get? 7 = some 1 := by
  refine ⟨by decide, by decide⟩

end Yorkie.ServerSnap
