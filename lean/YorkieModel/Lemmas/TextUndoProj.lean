/-
Text undo/redo: the cell projection `projC` and the degradation order `Degr` (core Lean only).

`projC B s` reads off the block list `s` the units of the cells the liveness function `B` selects;
`Degr old new`: `new` is `old` with some surrogate units replaced by U+FFFD. Proved here:
  * `Degr` is a preorder compatible with append, `sanitize` only degrades;
  * `visible s = projC (liveAt s) s` on well-formed states;
  * splitting a block, `findNodeWithSplit`, a later `edit` (whose own insertion `B` does not select)
    and a later style operation only DEGRADE the projection of any fixed `B`.
-/
import YorkieModel.Lemmas.TextUndoCells
import YorkieModel.Lemmas.TextUndoTiled
namespace Yorkie.TextUndo
open Yorkie Yorkie.Text

/-! ### 1. `Degr` -/

theorem degr_refl (a : List Nat) : Degr a a := by
  induction a with
  | nil => simp [Degr]
  | cons x t ih => simp [Degr, ih]

theorem degr_length {a b : List Nat} (h : Degr a b) : a.length = b.length := by
  induction a generalizing b with
  | nil =>
    cases b with
    | nil => rfl
    | cons y t => simp [Degr] at h
  | cons x t ih =>
    cases b with
    | nil => simp [Degr] at h
    | cons y u =>
      simp only [Degr] at h
      simp [ih h.2]

theorem pj_not_surr_fffd : isSurr 0xFFFD = false := by decide

theorem degr_trans {a b c : List Nat} (h1 : Degr a b) (h2 : Degr b c) : Degr a c := by
  induction a generalizing b c with
  | nil =>
    cases b with
    | nil => exact h2
    | cons y t => simp [Degr] at h1
  | cons x t ih =>
    cases b with
    | nil => simp [Degr] at h1
    | cons y u =>
      cases c with
      | nil => simp [Degr] at h2
      | cons z v =>
        simp only [Degr] at h1 h2 ⊢
        refine ⟨?_, ih h1.2 h2.2⟩
        rcases h1.1 with e1 | ⟨s1, e1⟩
        · subst e1; exact h2.1
        · rcases h2.1 with e2 | ⟨s2, e2⟩
          · right; exact ⟨s1, by rw [e2, e1]⟩
          · right; exact ⟨s1, e2⟩

theorem degr_append {a b c d : List Nat} (h1 : Degr a b) (h2 : Degr c d) : Degr (a ++ c) (b ++ d) := by
  induction a generalizing b with
  | nil =>
    cases b with
    | nil => exact h2
    | cons y t => simp [Degr] at h1
  | cons x t ih =>
    cases b with
    | nil => simp [Degr] at h1
    | cons y u =>
      simp only [Degr, List.cons_append] at h1 ⊢
      exact ⟨h1.1, ih h1.2⟩

theorem pj_fix_head (h : Nat) : fixUnit h = h ∨ (isSurr h = true ∧ fixUnit h = 0xFFFD) := by
  unfold fixUnit
  split
  · right; exact ⟨‹_›, rfl⟩
  · left; rfl

theorem degr_sanitize (u : List Nat) : Degr u (sanitize u) := by
  fun_induction sanitize u with
  | case1 => simp [Degr]
  | case2 h => simp only [Degr, and_true]; exact pj_fix_head h
  | case3 h l r hc ih => simp only [Degr, true_or, true_and]; exact ih
  | case4 h l r hc ih => simp only [Degr]; exact ⟨pj_fix_head h, ih⟩

theorem degr_eq_of_no_surr {a b : List Nat} (h : Degr a b) (hs : ∀ x ∈ a, isSurr x = false) : b = a := by
  induction a generalizing b with
  | nil =>
    cases b with
    | nil => rfl
    | cons y t => simp [Degr] at h
  | cons x t ih =>
    cases b with
    | nil => simp [Degr] at h
    | cons y u =>
      simp only [Degr] at h
      have hx := hs x (by simp)
      rw [ih h.2 (fun z hz => hs z (by simp [hz]))]
      rcases h.1 with e | ⟨s1, _⟩
      · rw [e]
      · rw [hx] at s1; cases s1

theorem degr_map_fixUnit {a b : List Nat} (h : Degr a b) : b.map fixUnit = a.map fixUnit := by
  induction a generalizing b with
  | nil =>
    cases b with
    | nil => rfl
    | cons y t => simp [Degr] at h
  | cons x t ih =>
    cases b with
    | nil => simp [Degr] at h
    | cons y u =>
      simp only [Degr] at h
      simp only [List.map_cons, ih h.2]
      rcases h.1 with e | ⟨s1, e⟩
      · rw [e]
      · rw [e]
        have : fixUnit x = 0xFFFD := by simp [fixUnit, s1]
        rw [this]
        rfl

/-! ### 2. `cellUnits` -/

theorem pj_cellUnits_cons (B : Id → Bool) (ca : Ticket) (off x : Nat) (r : List Nat) :
    cellUnits B ca off (x :: r) = (if B (ca, off) then [x] else []) ++ cellUnits B ca (off + 1) r := rfl

theorem degr_cellUnits (B : Id → Bool) (ca : Ticket) (off : Nat) {u u' : List Nat} (h : Degr u u') :
    Degr (cellUnits B ca off u) (cellUnits B ca off u') := by
  induction u generalizing off u' with
  | nil =>
    cases u' with
    | nil => exact degr_refl _
    | cons y t => simp [Degr] at h
  | cons x t ih =>
    cases u' with
    | nil => simp [Degr] at h
    | cons y v =>
      simp only [Degr] at h
      rw [pj_cellUnits_cons, pj_cellUnits_cons]
      apply degr_append _ (ih (off + 1) h.2)
      split
      · simp only [Degr, and_true]; exact h.1
      · simp [Degr]

theorem cellUnits_append (B : Id → Bool) (ca : Ticket) (off : Nat) (u v : List Nat) :
    cellUnits B ca off (u ++ v) = cellUnits B ca off u ++ cellUnits B ca (off + u.length) v := by
  induction u generalizing off with
  | nil => simp [cellUnits]
  | cons x t ih =>
    rw [List.cons_append, pj_cellUnits_cons, pj_cellUnits_cons, ih (off + 1), List.append_assoc]
    have : off + 1 + t.length = off + (x :: t).length := by simp only [List.length_cons]; omega
    rw [this]

/-- on a range where `B` is constant the block is taken whole or not at all -/
theorem pj_cellUnits_const {B : Id → Bool} {ca : Ticket} {off : Nat} {u : List Nat} {b : Bool}
    (h : ∀ o, off ≤ o → o < off + u.length → B (ca, o) = b) :
    cellUnits B ca off u = if b then u else [] := by
  induction u generalizing off with
  | nil => simp [cellUnits]
  | cons x t ih =>
    rw [pj_cellUnits_cons, h off (Nat.le_refl _) (by simp only [List.length_cons]; omega),
      ih (fun o h1 h2 => h o (by omega) (by simp only [List.length_cons]; omega))]
    cases b <;> simp

/-! ### 3. `projC` -/

theorem pj_projC_cons (B : Id → Bool) (n : TNode) (r : TextSt) :
    projC B (n :: r) = cellUnits B n.id.1 n.id.2 n.units ++ projC B r := rfl

theorem projC_append (B : Id → Bool) (a b : TextSt) : projC B (a ++ b) = projC B a ++ projC B b := by
  induction a with
  | nil => simp [projC]
  | cons n r ih => rw [List.cons_append, pj_projC_cons, pj_projC_cons, ih, List.append_assoc]

/-- a map that keeps id and units of every member keeps the projection -/
theorem pj_projC_map_on (B : Id → Bool) {f : TNode → TNode} {S : TextSt}
    (h : ∀ m ∈ S, (f m).id = m.id ∧ (f m).units = m.units) : projC B (S.map f) = projC B S := by
  induction S with
  | nil => rfl
  | cons a r ih =>
    have ha := h a (by simp)
    rw [List.map_cons, pj_projC_cons, pj_projC_cons, ha.1, ha.2, ih (fun m hm => h m (by simp [hm]))]

theorem projC_map_keeps {f : TNode → TNode} (hf : Text.KeepsShape f) (B : Id → Bool) (s : TextSt) :
    projC B (s.map f) = projC B s :=
  pj_projC_map_on B (fun m _ => ⟨(hf m).1, (hf m).2.1⟩)

/-! ### 4. the visible text is the projection along the current liveness -/

theorem pj_liveAt_of_mem {s : TextSt} (wf : WF s) {n : TNode} (hn : n ∈ s) {o : Nat}
    (h1 : n.id.2 ≤ o) (h2 : o < n.id.2 + n.len) : liveAt s (n.id.1, o) = n.live := by
  unfold liveAt
  cases hl : n.live
  · rw [List.any_eq_false]
    intro m hm
    simp only [Bool.and_eq_true, not_and, Bool.not_eq_true]
    intro hml
    cases hc : covers n.id.1 o m
    · rfl
    · exfalso
      obtain ⟨e1, e2, e3⟩ := covers_spec.mp hc
      have hm2 : m.id.2 = n.id.2 := by
        rcases Nat.lt_trichotomy m.id.2 n.id.2 with hlt | heq | hgt
        · have := wf.disjoint m hm n hn e1 hlt; omega
        · exact heq
        · have := wf.disjoint n hn m hm e1.symm hgt; omega
      have : m = n := eq_of_id_eq wf.nodup hm hn (Prod.ext e1 hm2)
      subst this
      rw [hl] at hml; cases hml
  · rw [List.any_eq_true]
    exact ⟨n, hn, by simp [hl, covers_spec.mpr ⟨rfl, h1, h2⟩]⟩

theorem pj_visible_eq_projC_suffix {s : TextSt} (wf : WF s) :
    ∀ t : TextSt, (∃ p, s = p ++ t) → visible t = projC (liveAt s) t := by
  intro t
  induction t with
  | nil => intro _; rfl
  | cons n r ih =>
    rintro ⟨p, hp⟩
    have hn : n ∈ s := by rw [hp]; simp
    rw [visible_cons, pj_projC_cons, ← ih ⟨p ++ [n], by rw [hp]; simp⟩]
    rw [pj_cellUnits_const (b := n.live)
      (fun o h1 h2 => pj_liveAt_of_mem wf hn h1 (by unfold TNode.len; exact h2))]

theorem visible_eq_projC {s : TextSt} (wf : WF s) : visible s = projC (liveAt s) s :=
  pj_visible_eq_projC_suffix wf s ⟨[], rfl⟩

/-! ### 5. splitting only degrades -/

theorem pj_decomp {s : TextSt} (nd : (ids s).Nodup) {n : TNode} (hn : n ∈ s) :
    ∃ A C, s = A ++ n :: C ∧ n.id ∉ ids A ∧ n.id ∉ ids C := by
  obtain ⟨A, C, rfl⟩ := List.append_of_mem hn
  refine ⟨A, C, rfl, ?_, ?_⟩
  · intro h
    rw [ids_append, ids_cons, List.nodup_append] at nd
    exact nd.2.2 _ h _ (by simp) rfl
  · intro h
    rw [ids_append, ids_cons, List.nodup_append, List.nodup_cons] at nd
    exact nd.2.1.1 h

theorem pj_projC_map_splitMap (B : Id → Bool) {n : TNode} (k : Nat) {S : TextSt} (h : n.id ∉ ids S) :
    projC B (S.map (splitMap n k)) = projC B S :=
  pj_projC_map_on B (fun m hm => ⟨(simOn_splitMap k h m hm).1, (simOn_splitMap k h m hm).2.1⟩)

theorem degr_projC_splitNode {s : TextSt} (wf : WF s) {n : TNode} (hn : n ∈ s) {k : Nat} (h0 : 0 < k)
    (hk : k < n.len) (B : Id → Bool) : Degr (projC B s) (projC B (splitNode s n k)) := by
  obtain ⟨A, C, rfl, hA, hC⟩ := pj_decomp wf.nodup hn
  rw [splitNode_append hA h0 hk]
  simp only [projC_append, pj_projC_cons, pj_projC_map_splitMap B k hA, pj_projC_map_splitMap B k hC]
  apply degr_append (degr_refl _)
  rw [← List.append_assoc]
  apply degr_append _ (degr_refl _)
  rw [splitMap_id, splitMap_units, if_pos rfl, rightPart_id1, rightPart_id2]
  have hu : n.units = n.units.take k ++ n.units.drop k := (List.take_append_drop k n.units).symm
  have hlen : (n.units.take k).length = k := by
    rw [List.length_take]; unfold TNode.len at hk; omega
  have e : cellUnits B n.id.1 n.id.2 n.units =
      cellUnits B n.id.1 n.id.2 (n.units.take k) ++ cellUnits B n.id.1 (n.id.2 + k) (n.units.drop k) := by
    conv => lhs; rw [hu]
    rw [cellUnits_append, hlen]
  rw [e]
  exact degr_append (degr_cellUnits B _ _ (degr_sanitize _)) (degr_cellUnits B _ _ (degr_sanitize _))

theorem degr_projC_fnws {s s1 : TextSt} (wf : WF s) {pos : Pos} {ts : Ticket} {l : Id} {r : Option Id}
    (h : findNodeWithSplit s pos ts = .ok (s1, l, r)) (B : Id → Bool) :
    Degr (projC B s) (projC B s1) := by
  rcases fnws_cases h with rfl | ⟨n, hn, k, h0, hk, rfl⟩
  · exact degr_refl _
  · exact degr_projC_splitNode wf hn h0 hk B

/-! ### 6. inserting a block that `B` does not select -/

theorem projC_insert_dead {s : TextSt} (i : Id) {new : TNode} (B : Id → Bool)
    (hB : ∀ o, B (new.id.1, o) = false) : projC B (insertAfterId s i new) = projC B s := by
  have hnew : cellUnits B new.id.1 new.id.2 new.units = [] := by
    rw [pj_cellUnits_const (b := false) (fun o _ _ => hB o)]; rfl
  induction s with
  | nil => rfl
  | cons a r ih =>
    unfold insertAfterId
    split
    · rw [pj_projC_cons, pj_projC_cons, pj_projC_cons, hnew, List.nil_append]
    · rw [pj_projC_cons, pj_projC_cons, ih]

/-! ### 7. a later edit / style operation only degrades -/

theorem degr_projC_edit {s s' : TextSt} (wf : WF s) {fr to : Pos} {content : List Nat}
    {attrs : List (String × String)} {ts : Ticket} {vv : Option VV} (B : Id → Bool)
    (hB : ∀ o, B (ts, o) = false) (h : edit fr to content attrs ts vv s = .ok s') :
    Degr (projC B s) (projC B s') := by
  unfold edit at h
  split at h
  · cases h
  · rename_i s1 l1 toRight h1
    split at h
    · cases h
    · rename_i s2 fromLeft fromRight h2
      have wf1 := (fnws_wf wf h1).1
      have d1 := degr_projC_fnws wf h1 B
      have d2 := degr_projC_fnws wf1 h2 B
      have keeps := keeps_applyTo (keeps_removeNode ts vv) (between s2 fromRight toRight)
      have d3 : Degr (projC B s)
          (projC B (s2.map (applyTo (between s2 fromRight toRight) (removeNode ts vv)))) := by
        rw [projC_map_keeps keeps]; exact degr_trans d1 d2
      simp only at h
      split at h
      · injection h with h; subst h; exact d3
      · injection h with h; subst h
        rw [projC_insert_dead fromLeft B (by rw [newNode_id]; exact hB)]
        exact d3

theorem pj_degr_projC_styleWith {s s' : TextSt} (wf : WF s) {fr to : Pos}
    {g : List AttrNode → List AttrNode} {ts : Ticket} {vv : Option VV} (B : Id → Bool)
    (h : styleWith fr to g ts vv s = .ok s') : Degr (projC B s) (projC B s') := by
  unfold styleWith at h
  split at h
  · cases h
  · rename_i s1 l1 toRight h1
    split at h
    · cases h
    · rename_i s2 fromLeft fromRight h2
      injection h with h; subst h
      rw [projC_map_keeps (keeps_applyTo (keeps_styleNode ts vv g) _)]
      exact degr_trans (degr_projC_fnws wf h1 B) (degr_projC_fnws (fnws_wf wf h1).1 h2 B)

theorem degr_projC_styleOp {s s' : TextSt} (wf : WF s) {fr to : Pos} {attrs : List (String × String)}
    {keys : List String} {ts : Ticket} {vv : Option VV} (B : Id → Bool)
    (h : styleOp fr to attrs keys ts vv s = .ok s') : Degr (projC B s) (projC B s') := by
  unfold styleOp at h
  split at h
  · cases h
  · rename_i s1 h1
    have wd1 : WF s1 ∧ Degr (projC B s) (projC B s1) := by
      split at h1
      · injection h1 with h1; subst h1; exact ⟨wf, degr_refl _⟩
      · exact ⟨wf_styleWith wf h1, pj_degr_projC_styleWith wf B h1⟩
    split at h
    · injection h with h; subst h; exact wd1.2
    · exact degr_trans wd1.2 (pj_degr_projC_styleWith wd1.1 B h)

/-! ### 8. non-vacuity -/

instance pj_degrDecidable : (a b : List Nat) → Decidable (Degr a b)
  | [], [] => isTrue (by simp [Degr])
  | [], _ :: _ => isFalse (by simp [Degr])
  | _ :: _, [] => isFalse (by simp [Degr])
  | x :: as, y :: bs =>
    match pj_degrDecidable as bs with
    | isTrue h =>
      if hc : y = x ∨ (isSurr x = true ∧ y = 0xFFFD) then isTrue (by simp only [Degr]; exact ⟨hc, h⟩)
      else isFalse (by simp only [Degr]; exact fun hh => hc hh.1)
    | isFalse h => isFalse (by simp only [Degr]; exact fun hh => h hh.2)

/-- on the split chain "ab" | "c" (tombstoned) | "de" the projection along the current liveness is
    the visible text "abde" -/
example : projC (liveAt exState) exState = visible exState := by decide

example : visible exState = [97, 98, 100, 101] := by decide

/-- a liveness function that also selects the tombstoned cell reads "abcde" -/
example : projC (fun _ => true) exState = [97, 98, 99, 100, 101] := by decide

/-- a split inside the surrogate pair of U+1F600 degrades both halves -/
example : Degr [0x61, 0xD83D, 0xDE00] [0x61, 0xFFFD, 0xFFFD] := by decide

example : Degr [0x61, 0xD83D, 0xDE00] (sanitize ([0x61, 0xD83D, 0xDE00].take 2) ++
    sanitize ([0x61, 0xD83D, 0xDE00].drop 2)) := by decide

/-- head, then "a😀" as one block -/
def pj_exNode : TNode :=
  { id := (exTicket, 0), units := [0x61, 0xD83D, 0xDE00], removedAt := none, attrs := [], insPrev := none }

def pj_exSurr : TextSt := [headNode, pj_exNode]

/-- `splitNode` inside the pair: the projection really degrades (and is not equal) -/
example : projC (fun _ => true) pj_exSurr = [0x61, 0xD83D, 0xDE00] ∧
    projC (fun _ => true) (splitNode pj_exSurr pj_exNode 2) = [0x61, 0xFFFD, 0xFFFD] := by decide

/-- a partial selection: only the cell at offset 2 -/
example : projC (fun c => c.2 == 2) (splitNode pj_exSurr pj_exNode 2) = [0xFFFD] ∧
    projC (fun c => c.2 == 2) pj_exSurr = [0xDE00] := by decide

/-- ordinary units never change -/
example : ¬ Degr [0x61] [0x62] := by decide

example : ¬ Degr [0x61] [0x61, 0x62] := by decide

end Yorkie.TextUndo
