/-
Text convergence, part 4: `textSem : Sem TState TOp TId` and its `Laws`.

DESIGN

State.  `TState = { cells, applied, cnt }`.
  * `cells : List Cell` is the character-level content (TextConvCell.lean): identity, current code
    unit, tombstone FLAG, attribute register (canonical; blanked on tombstones), block-start flag.
    It is the image of the block list under `abs` (TextConvAbs.lean); `Text.marshal`/`toString` are
    functions of it.  The block list itself does NOT converge as a list: `removedAt` of a node that
    two concurrent edits delete, one of which had seen an earlier deletion, depends on the arrival
    order (see `C01Text.removedAt_diverges`), and so do the attributes of tombstones (`canStyle`
    compares with `removedAt`), the value kept by `RHT.Remove`, and the order of attribute keys.
  * `applied : Ticket → Bool` and `cnt : Actor → Nat` are GHOST: the tickets of the operations
    applied so far and how many operations of each actor.  They make causal context visible to the
    generic `Sem.Indep`, which only speaks about `creates`/`refs`:
      `creates op = [tk ts, sq actor seq]`   (every operation "creates" its own ticket and its slot
                                              in its author's sequence)
      `refs op    = tickets of the two anchors ++ deps ++ [sq actor (seq-1)]`.
    Hence operations of ONE author are never independent (slot chain), an operation is never
    independent of one whose node it anchors on, nor of one listed in its `deps`.

Pre.  Besides "anchors exist, ticket fresh, next slot, deps applied" it contains the causal side
conditions that hold of every real operation and that let the version vector be read through ids:
  * `KB`   : whatever the vector covers of ANOTHER actor is bounded by the Lamport value of a ticket in
             `deps` (the vector is the pointwise maximum of what the author applied);
  * `Mono` : the Lamport values of one actor's operations increase (one operation per change);
  * `Static`: Lamport > 0; the vector covers no ticket of another actor newer than `ts`; the anchors
             are not newer than `ts`; content is a Go string; a style operation sets or removes
             at least one key.
From these, two independent co-enabled operations are CONCURRENT in the sense the Go code needs:
neither vector covers the other's ticket (`conc_of_pre`).  A deletion whose vector covers an
insertion that has not arrived cannot be enabled (its `deps` are missing) – this is what rules out
the non-commuting "delete that knows a later-arriving insert" pair.
Core Lean only.
-/
import YorkieModel.Lemmas.TextConvOps
import YorkieModel.Lemmas.Convergence
import YorkieModel.Lemmas.TextUtf16
set_option linter.unusedSimpArgs false
namespace Yorkie.TextConv
open Yorkie Yorkie.Text Yorkie.Convergence

structure TState where
  cells : Cells
  applied : Ticket → Bool
  cnt : Actor → Nat

inductive TId where
  /-- the ticket of an operation (= `createdAt` of the cells it inserts) -/
  | tk (t : Ticket)
  /-- the `k`-th slot in the operation sequence of an actor -/
  | sq (actor : Actor) (k : Nat)
deriving DecidableEq

def TState.init : TState := { cells := [], applied := fun _ => false, cnt := fun _ => 0 }

def tapply (d : TState) (o : TOp) : TState where
  cells := o.aop.run d.cells
  applied := fun t => decide (t = o.ts) || d.applied t
  cnt := fun a => if a = o.ts.actor then d.cnt a + 1 else d.cnt a

def anchorRefs (p : Pos) : List TId :=
  match anchorOf p with
  | none => []
  | some i => [.tk i.1]

def creates (o : TOp) : List TId := [.tk o.ts, .sq o.ts.actor o.seq]

def refs (o : TOp) : List TId :=
  anchorRefs o.fr ++ anchorRefs o.to ++ o.deps.map .tk ++
    (if o.seq = 0 then [] else [.sq o.ts.actor (o.seq - 1)])

def tids (d : TState) : TId → Prop
  | .tk t => d.applied t = true
  | .sq a k => k < d.cnt a

instance (d : TState) (i : TId) : Decidable (tids d i) := by
  cases i <;> unfold tids <;> infer_instance

/-- every cell was inserted by an applied operation -/
def Inv (d : TState) : Prop := ∀ c ∈ d.cells, d.applied c.id.1 = true

/-- the position names the head (offset 0 of the initial ticket) or an existing cell -/
def AnchorOK (d : TState) (p : Pos) : Prop :=
  (p.id.2 + p.rel = 0 ∧ p.id.1 = headId.1) ∨
    (0 < p.id.2 + p.rel ∧ (p.id.1, p.id.2 + p.rel - 1) ∈ cids d.cells)

/-- knowledge bound -/
def KB (o : TOp) : Prop :=
  ∀ t, 0 < t.lamport → sees o.vv t = true → t.actor ≠ o.ts.actor →
    ∃ u ∈ o.deps, u.actor = t.actor ∧ t.lamport ≤ u.lamport

def Static (o : TOp) : Prop :=
  0 < o.ts.lamport ∧
    (∀ t, sees o.vv t = true → t.actor ≠ o.ts.actor → t.after o.ts = false) ∧
    (∀ j, anchorOf o.fr = some j ∨ anchorOf o.to = some j → j.1.after o.ts = false) ∧
    (∀ content attrs, o.body = .edit content attrs → Fixed content) ∧
    (∀ attrs keys, o.body = .style attrs keys → attrs ≠ [] ∨ keys ≠ [])

def Pre (d : TState) (o : TOp) : Prop :=
  Inv d ∧ AnchorOK d o.fr ∧ AnchorOK d o.to ∧ d.applied o.ts = false ∧ o.seq = d.cnt o.ts.actor ∧
    (∀ u ∈ o.deps, d.applied u = true) ∧
    (∀ u, d.applied u = true → u.actor = o.ts.actor → u.lamport < o.ts.lamport) ∧
    KB o ∧ Static o

/-- `sees` spelled out on the association list -/
theorem sees_cases {vv : VV} {t : Ticket} (h : sees vv t = true) :
    vv = [] ∨ (∃ l, vv.get? t.actor = some l ∧ t.lamport ≤ l) ∨
      (vv.get? t.actor = none ∧ t.lamport ≤ 0) := by
  unfold sees knownB existedB Text.known VV.equalToOrAfter VV.versionOf at h
  cases vv with
  | nil => exact Or.inl rfl
  | cons p r =>
    right
    cases hg : VV.get? (p :: r) t.actor with
    | none => right; simp [hg] at h; exact ⟨rfl, h⟩
    | some l =>
      left
      simp [hg] at h
      exact ⟨l, rfl, by omega⟩

def textSem : Sem TState TOp TId where
  apply := tapply
  init := TState.init
  author := fun o => o.ts.actor
  creates := creates
  refs := refs
  ids := tids
  Pre := Pre

abbrev Indep := textSem.Indep

/-! ### what `run` does to the id list -/

theorem cids_run_sub (o : TOp) (l : Cells) : ∀ i ∈ cids (o.aop.run l), i ∈ cids l ∨ i ∈ cids o.aop.X := by
  intro i hi
  unfold AOp.run at hi
  rcases insAfter_decomp o.aop.fr o.aop.ts o.aop.X (o.aop.M l) with h | ⟨A, B, e1, e2⟩
  · rw [h, AOp.cids_M _ o.good] at hi; exact Or.inl hi
  · rw [e2] at hi
    have : cids (o.aop.M l) = cids A ++ cids B := by rw [e1, cids_append]
    rw [AOp.cids_M _ o.good] at this
    rw [this]
    simp only [cids_append, List.mem_append] at hi ⊢
    rcases hi with (h | h) | h
    · exact Or.inl (Or.inl h)
    · exact Or.inr h
    · exact Or.inl (Or.inr h)

theorem cids_sub_run (o : TOp) (l : Cells) : ∀ i ∈ cids l, i ∈ cids (o.aop.run l) := by
  intro i hi
  unfold AOp.run
  rw [← AOp.cids_M _ o.good] at hi
  rcases insAfter_decomp o.aop.fr o.aop.ts o.aop.X (o.aop.M l) with h | ⟨A, B, e1, e2⟩
  · rw [h]; exact hi
  · rw [e2]; rw [e1] at hi
    simp only [cids_append, List.mem_append] at hi ⊢
    rcases hi with h | h
    · exact Or.inl (Or.inl h)
    · exact Or.inr h

theorem mem_cids_X (o : TOp) {i : Id} (h : i ∈ cids o.aop.X) : i.1 = o.ts := by
  obtain ⟨x, hx, e⟩ := List.mem_map.1 h
  rw [← e]; exact o.X_ticket x hx

theorem inv_tapply {d : TState} {o : TOp} (h : Inv d) : Inv (tapply d o) := by
  intro c hc
  have : c.id ∈ cids (o.aop.run d.cells) := List.mem_map.2 ⟨c, hc, rfl⟩
  simp only [tapply]
  rcases cids_run_sub o d.cells c.id this with h1 | h1
  · obtain ⟨c', hc', e⟩ := List.mem_map.1 h1
    rw [← e, h c' hc']; simp
  · rw [mem_cids_X o h1]; simp

theorem anchorOK_tapply {d : TState} {o : TOp} {p : Pos} (h : AnchorOK d p) : AnchorOK (tapply d o) p := by
  rcases h with h | ⟨h1, h2⟩
  · exact Or.inl h
  · exact Or.inr ⟨h1, cids_sub_run o d.cells _ h2⟩

/-! ### the laws -/

theorem H0 : ∀ i, ¬ tids TState.init i := by
  intro i h
  cases i <;> simp [tids, TState.init] at h

theorem H1 {d : TState} {o : TOp} (hp : Pre d o) (i : TId) :
    tids (tapply d o) i ↔ tids d i ∨ i ∈ creates o := by
  obtain ⟨_, _, _, _, hseq, _⟩ := hp
  cases i with
  | tk t =>
    simp only [tids, tapply, creates, List.mem_cons, TId.tk.injEq, List.mem_nil_iff, or_false,
      Bool.or_eq_true, decide_eq_true_eq, reduceCtorEq]
    exact or_comm
  | sq a k =>
    simp only [tids, tapply, creates, List.mem_cons, TId.sq.injEq, List.mem_nil_iff, or_false,
      reduceCtorEq, false_or]
    by_cases ha : a = o.ts.actor
    · subst ha; simp only [if_true, true_and]; omega
    · simp only [ha, if_false, false_and, or_false]

theorem mem_anchorRefs {p : Pos} {i : TId} (h : i ∈ anchorRefs p) :
    ∃ j, anchorOf p = some j ∧ i = .tk j.1 := by
  unfold anchorRefs at h
  cases e : anchorOf p with
  | none => rw [e] at h; cases h
  | some j => rw [e] at h; simp only [List.mem_singleton] at h; exact ⟨j, rfl, h⟩

theorem anchor_applied {d : TState} (hinv : Inv d) {p : Pos} (h : AnchorOK d p) {j : Id}
    (e : anchorOf p = some j) : j ∈ cids d.cells ∧ d.applied j.1 = true := by
  unfold anchorOf at e
  rcases h with ⟨h0, _⟩ | ⟨h1, h2⟩
  · simp [h0] at e
  · rw [if_neg (by omega)] at e
    injection e with e; subst e
    obtain ⟨c, hc, ec⟩ := List.mem_map.1 h2
    refine ⟨h2, ?_⟩
    have := hinv c hc
    rw [ec] at this; exact this

theorem H1r {d : TState} {o : TOp} (hp : Pre d o) :
    (∀ i ∈ refs o, tids d i) ∧ (∀ i ∈ creates o, ¬ tids d i) := by
  obtain ⟨hinv, hfr, hto, hts, hseq, hdeps, _⟩ := hp
  constructor
  · intro i hi
    unfold refs at hi
    simp only [List.mem_append] at hi
    rcases hi with ((hi | hi) | hi) | hi
    · obtain ⟨j, e, rfl⟩ := mem_anchorRefs hi; exact (anchor_applied hinv hfr e).2
    · obtain ⟨j, e, rfl⟩ := mem_anchorRefs hi; exact (anchor_applied hinv hto e).2
    · obtain ⟨u, hu, rfl⟩ := List.mem_map.1 hi; exact hdeps u hu
    · split at hi
      · cases hi
      · simp only [List.mem_singleton] at hi; subst hi
        simp only [tids]; omega
  · intro i hi
    simp only [creates, List.mem_cons, List.mem_nil_iff, or_false] at hi
    rcases hi with rfl | rfl
    · simp [tids, hts]
    · simp only [tids]; omega

/-- what independence says, spelled out -/
theorem indep_facts {a b : TOp} (hi : Indep a b) :
    a.ts ≠ b.ts ∧ ¬ (a.ts.actor = b.ts.actor ∧ a.seq = b.seq) ∧
      TId.tk a.ts ∉ refs b ∧ TId.tk b.ts ∉ refs a ∧
      TId.sq a.ts.actor a.seq ∉ refs b ∧ TId.sq b.ts.actor b.seq ∉ refs a := by
  obtain ⟨h1, h2⟩ := hi
  have ha1 := h1 (.tk a.ts) (by simp [textSem, creates])
  have ha2 := h1 (.sq a.ts.actor a.seq) (by simp [textSem, creates])
  have hb1 := h2 (.tk b.ts) (by simp [textSem, creates])
  have hb2 := h2 (.sq b.ts.actor b.seq) (by simp [textSem, creates])
  refine ⟨?_, ?_, ha1.1, hb1, ha2.1, hb2⟩
  · intro e; exact ha1.2 (by simp [textSem, creates, e])
  · intro ⟨e1, e2⟩; exact ha2.2 (by simp [textSem, creates, e1, e2])

theorem tk_mem_refs_of_dep {o : TOp} {u : Ticket} (h : u ∈ o.deps) : TId.tk u ∈ refs o := by
  unfold refs
  simp only [List.mem_append, List.mem_map]
  exact Or.inl (Or.inr ⟨u, h, rfl⟩)

theorem tk_mem_refs_of_anchor {o : TOp} {j : Id} (h : anchorOf o.fr = some j ∨ anchorOf o.to = some j) :
    TId.tk j.1 ∈ refs o := by
  unfold refs anchorRefs
  simp only [List.mem_append]
  rcases h with h | h
  · exact Or.inl (Or.inl (Or.inl (by rw [h]; simp)))
  · exact Or.inl (Or.inl (Or.inr (by rw [h]; simp)))

/-- co-enabled independent operations have different authors -/
theorem actors_ne {d : TState} {a b : TOp} (ha : Pre d a) (hb : Pre d b) (hi : Indep a b) :
    a.ts.actor ≠ b.ts.actor := by
  intro e
  have sa := ha.2.2.2.2.1
  have sb := hb.2.2.2.2.1
  exact (indep_facts hi).2.1 ⟨e, by rw [sa, sb, e]⟩

/-- the vector of an enabled operation covers no ticket of another actor that is still fresh -/
theorem not_sees {d : TState} {a : TOp} (ha : Pre d a) {t : Ticket} (hpos : 0 < t.lamport)
    (hne : t.actor ≠ a.ts.actor)
    (hfresh : ∀ u, d.applied u = true → u.actor = t.actor → u.lamport < t.lamport) :
    sees a.vv t = false := by
  cases h : sees a.vv t with
  | false => rfl
  | true =>
    obtain ⟨u, hu, e1, e2⟩ := ha.2.2.2.2.2.2.2.1 t hpos h hne
    have := hfresh u (ha.2.2.2.2.2.1 u hu) e1
    omega

/-- **H3**: an operation cannot disable a co-enabled independent one -/
theorem pre_stable {d : TState} {a b : TOp} (ha : Pre d a) (hb : Pre d b) (hi : Indep a b) :
    Pre (tapply d a) b := by
  have hne := actors_ne ha hb hi
  obtain ⟨hts, _⟩ := indep_facts hi
  obtain ⟨hinv, hfr, hto, hfresh, hseq, hdeps, hmono, hkb, hst⟩ := hb
  refine ⟨inv_tapply hinv, anchorOK_tapply hfr, anchorOK_tapply hto, ?_, ?_, ?_, ?_, hkb, hst⟩
  · simp [tapply, hfresh, Ne.symm hts]
  · simp only [tapply, if_neg (Ne.symm hne)]; exact hseq
  · intro u hu; simp [tapply, hdeps u hu]
  · intro u hu hact
    simp only [tapply, Bool.or_eq_true, decide_eq_true_eq] at hu
    rcases hu with rfl | hu
    · exact absurd hact hne
    · exact hmono u hu hact

/-- the other half of **H2**: an independent successor was already enabled before -/
theorem pre_back {d : TState} {a b : TOp} (ha : Pre d a) (hb : Pre (tapply d a) b) (hi : Indep a b) :
    Pre d b := by
  obtain ⟨hts, _, hra, _, hsa, _⟩ := indep_facts hi
  obtain ⟨_, hfr, hto, hfresh, hseq, hdeps, hmono, hkb, hst⟩ := hb
  have hinv := ha.1
  have anchor : ∀ p : Pos, (anchorOf b.fr = anchorOf p ∨ anchorOf b.to = anchorOf p) →
      AnchorOK (tapply d a) p → AnchorOK d p := by
    intro p hp h
    rcases h with h | ⟨h1, h2⟩
    · exact Or.inl h
    · refine Or.inr ⟨h1, ?_⟩
      rcases cids_run_sub a d.cells _ h2 with h3 | h3
      · exact h3
      · exfalso
        have e := mem_cids_X a h3
        simp only at e
        have hanch : anchorOf p = some (p.id.1, p.id.2 + p.rel - 1) := by
          unfold anchorOf; rw [if_neg (by omega)]
        apply hra
        rw [← e]
        apply tk_mem_refs_of_anchor (j := (p.id.1, p.id.2 + p.rel - 1))
        rcases hp with hp | hp
        · exact Or.inl (hp.trans hanch)
        · exact Or.inr (hp.trans hanch)
  have hne : a.ts.actor ≠ b.ts.actor := by
    intro e
    apply hsa
    have sa := ha.2.2.2.2.1
    have : b.seq = a.seq + 1 := by
      rw [hseq, sa]; simp [tapply, e]
    unfold refs
    simp only [List.mem_append]
    right
    rw [if_neg (by omega)]
    simp [this, e]
  refine ⟨hinv, anchor b.fr (Or.inl rfl) hfr, anchor b.to (Or.inr rfl) hto, ?_, ?_, ?_, ?_, hkb, hst⟩
  · simp only [tapply, Bool.or_eq_false_iff] at hfresh; exact hfresh.2
  · rw [hseq]; simp [tapply, Ne.symm hne]
  · intro u hu
    have := hdeps u hu
    simp only [tapply, Bool.or_eq_true, decide_eq_true_eq] at this
    rcases this with rfl | h
    · exact absurd (tk_mem_refs_of_dep hu) hra
    · exact h
  · intro u hu hact
    exact hmono u (by simp [tapply, hu]) hact

/-- the ghost components commute -/
theorem tapply_ghost_comm (d : TState) (a b : TOp) :
    (tapply (tapply d a) b).applied = (tapply (tapply d b) a).applied ∧
    (tapply (tapply d a) b).cnt = (tapply (tapply d b) a).cnt := by
  constructor
  · funext t; simp only [tapply]
    cases decide (t = a.ts) <;> cases decide (t = b.ts) <;> simp
  · funext x; simp only [tapply]
    by_cases h1 : x = a.ts.actor <;> by_cases h2 : x = b.ts.actor <;> simp [h1, h2] <;> split <;> omega

/-- **commutation** of two co-enabled independent operations -/
theorem swap_eq {d : TState} {a b : TOp} (ha : Pre d a) (hb : Pre d b) (hi : Indep a b) :
    tapply (tapply d a) b = tapply (tapply d b) a := by
  have hne := actors_ne ha hb hi
  obtain ⟨hts, _, hra, hrb, _, _⟩ := indep_facts hi
  have sab : sees a.vv b.ts = false := not_sees ha hb.2.2.2.2.2.2.2.2.1 (Ne.symm hne) hb.2.2.2.2.2.2.1
  have sba : sees b.vv a.ts = false := not_sees hb ha.2.2.2.2.2.2.2.2.1 hne ha.2.2.2.2.2.2.1
  obtain ⟨g1, g2⟩ := tapply_ghost_comm d a b
  have hcells : b.aop.run (a.aop.run d.cells) = a.aop.run (b.aop.run d.cells) := by
    apply AOp.run_comm b.aop a.aop b.good a.good (b.f_comm a (Ne.symm hts)) (Ne.symm hts) b.X_ticket a.X_ticket
    · intro x hx; apply b.f_fix; rw [a.X_ticket x hx]; exact sba
    · intro x hx; apply a.f_fix; rw [b.X_ticket x hx]; exact sab
    · intro i e ei; apply hra; rw [← show i.1 = a.ts from ei]; exact tk_mem_refs_of_anchor (Or.inl e)
    · intro i e ei; apply hra; rw [← show i.1 = a.ts from ei]; exact tk_mem_refs_of_anchor (Or.inr e)
    · intro i e ei; apply hrb; rw [← show i.1 = b.ts from ei]; exact tk_mem_refs_of_anchor (Or.inl e)
    · intro i e ei; apply hrb; rw [← show i.1 = b.ts from ei]; exact tk_mem_refs_of_anchor (Or.inr e)
    · intro c hc
      have := ha.1 c hc
      constructor
      · intro e; rw [e] at this
        have h2 : d.applied b.ts = false := hb.2.2.2.1
        simp only [TOp.aop] at this; rw [h2] at this; cases this
      · intro e; rw [e] at this
        have h2 : d.applied a.ts = false := ha.2.2.2.1
        simp only [TOp.aop] at this; rw [h2] at this; cases this
  show (⟨_, _, _⟩ : TState) = ⟨_, _, _⟩
  congr 1

theorem textLaws : textSem.Laws where
  H0 := H0
  H1 := fun _ _ h => H1 h
  H1r := fun _ _ h => H1r h
  H2 := fun _ _ _ ha hb hi =>
    have hb' := pre_back ha hb hi
    ⟨hb', pre_stable hb' ha (Sem.Indep_symm hi), swap_eq ha hb' hi⟩
  H3 := fun _ _ _ ha hb hi => pre_stable ha hb hi

end Yorkie.TextConv
