/-
Helper lemmas for C04: the client-side ghost state (`View`), the well-behaved client discipline,
and the effect of one successful `PushPull` on a client's view (`view_after_pushPull`).
-/
import YorkieModel.Lemmas.ServerEntries
namespace Yorkie.Server
open Yorkie

/-! ### what a successful pull returned -/

theorem pullPackResp_ok {s : Server} {f : Flight} {r : Resp} (h : pullPackResp s f = .ok r) :
    (r.cp = ⟨f.pack.cp.serverSeq, f.cpAfterPush.clientSeq⟩ ∧ r.changes = [] ∧ r.snapshot = false) ∨
    (f.pack.cp.serverSeq ≤ f.initialSeq ∧ r.cp = (pullChangeInfos s f).1 ∧ r.changes = (pullChangeInfos s f).2 ∧
      r.snapshot = false) ∨
    (r.snapshot = true) := by
  unfold pullPackResp at h
  split at h
  · next r' hr =>
    injection h with h; subst h
    unfold preparePackCore at hr
    split at hr
    · simp at hr
    · split at hr
      · injection hr with hr; subst hr; exact Or.inl ⟨rfl, rfl, rfl⟩
      · split at hr
        · simp at hr
        · split at hr
          · simp at hr
          · next hlt =>
            split at hr
            · injection hr with hr; subst hr
              exact Or.inr (Or.inl ⟨by omega, rfl, rfl, rfl⟩)
            · injection hr with hr; subst hr; exact Or.inr (Or.inr rfl)
  · split at h
    · injection h with h; subst h; exact Or.inl ⟨rfl, rfl, rfl⟩
    · simp at h

theorem pushGuard_sub {s : Server} {f : Flight} {p : List ChangeReq} (h : pushGuard s f = .ok p) :
    ∀ x ∈ p, x ∈ f.pack.changes ∧ x.clientSeq > (f.info.checkpoint f.doc).clientSeq := by
  have hsub : ∀ x ∈ pushablesOf f, x ∈ f.pack.changes ∧ x.clientSeq > (f.info.checkpoint f.doc).clientSeq := by
    intro x hx
    simp only [pushablesOf, List.mem_filter, isPushable, decide_eq_true_eq] at hx
    exact hx
  unfold pushGuard at h
  split at h
  · split at h
    · simp at h
    · split at h
      · injection h with h; subst h; intro x hx; simp at hx
      · split at h
        · simp at h
        · split at h
          · injection h with h; subst h; intro x hx; simp at hx
          · injection h with h; subst h; exact hsub
  · injection h with h; subst h; exact hsub

theorem stripped_of_not_dp {f : Flight} (h : f.disablePresence = false) : stripped f = f := by
  unfold stripped; simp [h]

/-! ### ghost state and discipline -/

/-- what the client-side `Document` of one attachment knows: its checkpoint and the remote
changes it has applied, in order -/
structure View where
  cp : Checkpoint := Checkpoint.initial
  applied : List Row := []

abbrev Ghost := ClientId → DocId → View

def Ghost.init : Ghost := fun _ _ => {}

def Ghost.set (g : Ghost) (c : ClientId) (d : DocId) (v : View) : Ghost :=
  fun c' d' => if c' = c ∧ d' = d then v else g c' d'

/-- the client applies a response pack: checkpoint forwarded, changes applied in order -/
def receive (v : View) (r : Resp) : View := { cp := r.cp, applied := v.applied ++ r.changes }

/-- the changes of a pack are the client's own, numbered consecutively after `n` -/
def numbered (c : ClientId) : Nat → List ChangeReq → Bool
  | _, [] => true
  | n, x :: r => x.clientSeq == n + 1 && x.actor == c && numbered c (n + 1) r

theorem numbered_actor {c : ClientId} {n : Nat} {l : List ChangeReq} (h : numbered c n l = true) :
    ∀ x ∈ l, x.actor = c := by
  induction l generalizing n with
  | nil => simp
  | cons a r ih =>
    simp only [numbered, Bool.and_eq_true, beq_iff_eq] at h
    intro x hx
    rcases List.mem_cons.mp hx with rfl | hx
    · exact h.1.2
    · exact ih h.2 x hx

/-- the client holds the document (stored status attached or attaching) -/
def holds (s : Server) (c : ClientId) (d : DocId) : Bool :=
  match entryOf s c d with
  | some cd => isOpenSt cd.status
  | none => false

/-- The well-behaved client discipline, one request at a time (decidable): a request carries the
checkpoint of the last response the client received for this attachment and its own
unacknowledged changes numbered consecutively after the acknowledged client sequence; `Attach`
always comes from a fresh `Document` (checkpoint (0,0), changes numbered from 1); a client only
detaches or removes a document it holds. -/
def wbReq (s : Server) (g : Ghost) : Request → Bool
  | .activate => true
  | .deactivate _ _ => true
  | .attach c _ pack _ _ => pack.cp == Checkpoint.initial && numbered c 0 pack.changes
  | .pushpull c d pack _ _ => pack.cp == (g c d).cp && numbered c pack.cp.clientSeq pack.changes
  | .detach c d pack => holds s c d && pack.cp == (g c d).cp && numbered c pack.cp.clientSeq pack.changes
  | .remove c d pack => holds s c d && pack.cp == (g c d).cp && numbered c pack.cp.clientSeq pack.changes

/-- ghost update: a response that reaches the client (`lost = false`) is applied; an `Attach`
request always starts from a fresh `Document` -/
def ghostStep (s : Server) (g : Ghost) (req : Request) (out : Except ErrKind Resp) (lost : Bool) : Ghost :=
  match req, out with
  | .attach c key _ dp _, .ok r => g.set c (findOrCreateDoc s key dp).2 (if lost then {} else receive {} r)
  | .attach c key _ dp _, .error _ => g.set c (findOrCreateDoc s key dp).2 {}
  | .pushpull c d _ _ _, .ok r => if lost then g else g.set c d (receive (g c d) r)
  | .detach c d _, .ok r => if lost then g else g.set c d (receive (g c d) r)
  | .remove c d _, .ok r => if lost then g else g.set c d (receive (g c d) r)
  | _, _ => g

/-- the view `v` of client `c` is exact with respect to `log`: what it applied, restricted to the
other actors, is the log up to its checkpoint restricted to the other actors -/
structure ViewOk (c : ClientId) (v : View) (log : List Row) : Prop where
  nonneg : 0 ≤ v.cp.serverSeq
  le : v.cp.serverSeq ≤ log.length
  exact : v.applied.filter (notBy c) = (log.filter (ssLe v.cp.serverSeq)).filter (notBy c)

theorem ViewOk.init (c : ClientId) (log : List Row) (h : seqFrom 0 log) : ViewOk c {} log := by
  refine ⟨Int.le_refl _, by simp [Checkpoint.initial], ?_⟩
  have : log.filter (ssLe (0 : Int)) = [] := filter_ssLe_nil 0 0 log h (Int.le_refl _)
  show ([] : List Row).filter _ = _
  simp [Checkpoint.initial, this]

/-- a view stays exact when the log is extended -/
theorem ViewOk.ext {c : ClientId} {v : View} {log rows : List Row} (h : ViewOk c v log)
    (hq : seqFrom (log.length : Int) rows) : ViewOk c v (log ++ rows) := by
  refine ⟨h.nonneg, by have := h.le; simp only [List.length_append]; push_cast; omega, ?_⟩
  rw [List.filter_append, filter_ssLe_nil _ _ rows hq h.le, List.append_nil]
  exact h.exact

/-- One successful `PushPull` of a well-behaved request keeps the client's view exact; the
response checkpoint does not go back and does not pass the head. -/
theorem view_after_pushPull {s s' : Server} {f f' : Flight} (hp : PPOk s f s' f') {doc : Doc} {v : View}
    (hdoc : s.findDoc f.doc = some doc) (hgap : GapFree doc) (hdp : f.disablePresence = false)
    (hdp2 : doc.disablePresence = false)
    (hcp : f.pack.cp = v.cp) (hown : ∀ x ∈ f.pack.changes, x.actor = f.client)
    (hv : ViewOk f.client v doc.log) (hsnap : f'.resp.snapshot = false) :
    ∃ doc', s'.docs.get? f.doc = some doc' ∧ DocExt doc doc' ∧ ViewOk f.client (receive v f'.resp) doc'.log ∧
      v.cp.serverSeq ≤ f'.resp.cp.serverSeq ∧ (f.info.checkpoint f.doc).clientSeq ≤ f'.resp.cp.clientSeq := by
  obtain ⟨doc0, p, loaded, info', cd, r, vv, hd0, hl, _, hguard, hpull, _, _, hdocs, _, _, _, _, _, hcp', hch', hsn', _⟩ := hp.ex
  rw [hdoc] at hd0; injection hd0 with hd0; subst hd0
  rw [stripped_of_not_dp hdp] at hguard hpull hdocs
  have sp := assignSeqs_spec (f.info.genOf f.doc) doc.serverSeq (f.info.checkpoint f.doc) p
  simp only [] at sp
  obtain ⟨q1, q2, q3, q4, q5, q6⟩ := sp
  -- the rows pushed by this request are the client's own
  have hPown : ∀ x ∈ (assignSeqs (f.info.genOf f.doc) doc.serverSeq (f.info.checkpoint f.doc) p).1, notBy f.client x = false := by
    intro x hx
    have : x.actor ∈ ((assignSeqs (f.info.genOf f.doc) doc.serverSeq (f.info.checkpoint f.doc) p).1).map (·.actor) :=
      List.mem_map_of_mem (f := (·.actor)) hx
    rw [q5] at this
    obtain ⟨y, hy, hya⟩ := List.mem_map.mp this
    have := hown y ((pushGuard_sub hguard y hy).1)
    simp [notBy, ← hya, this]
  have hPnil : ((assignSeqs (f.info.genOf f.doc) doc.serverSeq (f.info.checkpoint f.doc) p).1).filter (notBy f.client) = [] := by
    rw [List.filter_eq_nil_iff]; intro x hx; simp [hPown x hx]
  refine ⟨{ pushedDoc doc f p with vvRows := vv }, by rw [hdocs]; exact AL.get?_set_self _ _ _,
    (pushedDoc_ext doc f p).trans (docExt_vvRows _ _), ?_, ?_, ?_⟩
  rotate_left
  · -- serverSeq monotone
    rw [hcp']
    rcases pullPackResp_ok hpull with ⟨h1, _, _⟩ | ⟨hle, h1, _, _⟩ | hs
    · rw [h1, ← hcp]; exact Int.le_refl _
    · rw [h1]; simp only [pullChangeInfos, nextServerSeq_serverSeq, pushedFlight]
      show v.cp.serverSeq ≤ (pushedDoc doc f p).serverSeq
      rw [pushedDoc_serverSeq]
      have := hv.le; have := hgap.2; omega
    · rw [← hsn', hsnap] at hs; simp at hs
  · -- clientSeq monotone
    rw [hcp']
    have hge := assignSeqs_cp_ge (f.info.genOf f.doc) doc.serverSeq (f.info.checkpoint f.doc) p
    rcases pullPackResp_ok hpull with ⟨h1, _, _⟩ | ⟨hle, h1, _, _⟩ | hs
    · rw [h1]; simpa [pushedFlight] using hge
    · rw [h1]; simp only [pullChangeInfos, nextServerSeq_clientSeq, pushedFlight]; exact hge
    · rw [← hsn', hsnap] at hs; simp at hs
  · -- exactness
    have hlen : (doc.serverSeq : Int) = doc.log.length := hgap.2
    have hq1 : seqFrom (doc.log.length : Int) (assignSeqs (f.info.genOf f.doc) doc.serverSeq (f.info.checkpoint f.doc) p).1 := by
      rw [← hlen]; exact q1
    have hext : ViewOk f.client v (pushedDoc doc f p).log := hv.ext hq1
    rcases pullPackResp_ok hpull with ⟨h1, h2, _⟩ | ⟨hle, h1, h2, _⟩ | hs
    · -- push-only (or epoch escape): nothing pulled, serverSeq unchanged
      have h1s : f'.resp.cp.serverSeq = v.cp.serverSeq := by
        rw [hcp', h1]; show f.pack.cp.serverSeq = _; rw [hcp]
      refine ⟨?_, ?_, ?_⟩
      · show 0 ≤ f'.resp.cp.serverSeq
        rw [h1s]; exact hv.nonneg
      · show f'.resp.cp.serverSeq ≤ _
        rw [h1s]; exact hext.le
      · show (v.applied ++ f'.resp.changes).filter _ = ((pushedDoc doc f p).log.filter (ssLe f'.resp.cp.serverSeq)).filter _
        rw [hch', h2, List.append_nil, h1s]
        exact hext.exact
    · -- pull of the range cp+1 .. head before the push
      have hinit : (pushedFlight doc f p).initialSeq = doc.log.length := by rw [pushedFlight_initialSeq]; exact hlen
      have hcps : f'.resp.cp.serverSeq = (pushedDoc doc f p).log.length := by
        rw [hcp', h1]; simp only [pullChangeInfos, nextServerSeq_serverSeq, pushedFlight]
        show (pushedDoc doc f p).serverSeq = _
        rw [pushedDoc_serverSeq]; simp only [pushedDoc, List.length_append]; rw [q3]; push_cast; omega
      refine ⟨?_, ?_, ?_⟩
      · show 0 ≤ f'.resp.cp.serverSeq
        rw [hcps]; omega
      · show f'.resp.cp.serverSeq ≤ _
        rw [hcps]; exact Int.le_refl _
      · show (v.applied ++ f'.resp.changes).filter _ = ((pushedDoc doc f p).log.filter (ssLe f'.resp.cp.serverSeq)).filter _
        have hall : (pushedDoc doc f p).log.filter (ssLe f'.resp.cp.serverSeq) = (pushedDoc doc f p).log := by
          rw [hcps]
          refine filter_ssLe_all 0 _ _ ?_ (by omega)
          simp only [pushedDoc]; rw [seqFrom_append]; exact ⟨hgap.1, by simpa using hq1⟩
        rw [hall, hch', h2, List.filter_append, hv.exact]
        simp only [pullChangeInfos, pushedFlight]
        have hdp3 : (pushedDoc doc f p).disablePresence = false := hdp2
        rw [hdp3, pullFilter_others, findBetween_eq]
        have hstored : storedLog (s.setDoc f.doc (pushedDoc doc f p)) f.doc = (pushedDoc doc f p).log := by
          simp [storedLog, Server.findDoc, Server.setDoc, AL.get?_set_self]
        rw [hstored]
        -- range filter over old ++ pushed = range filter over old
        have hrange : (pushedDoc doc f p).log.filter (inRange (f.pack.cp.serverSeq + 1)
            ((assignSeqs (f.info.genOf f.doc) doc.serverSeq (f.info.checkpoint f.doc) p).2.1
              - ((assignSeqs (f.info.genOf f.doc) doc.serverSeq (f.info.checkpoint f.doc) p).1.length : Int)))
            = doc.log.filter (inRange (v.cp.serverSeq + 1) doc.log.length) := by
          rw [q2, q3, hcp]
          have e : doc.serverSeq + (p.length : Int) - (p.length : Int) = doc.log.length := by omega
          rw [e]
          simp only [pushedDoc, List.filter_append]
          have : ((assignSeqs (f.info.genOf f.doc) doc.serverSeq (f.info.checkpoint f.doc) p).1).filter
              (inRange (v.cp.serverSeq + 1) doc.log.length) = [] := by
            rw [List.filter_eq_nil_iff]; intro x hx
            have := (seqFrom_mem_bounds _ _ hq1 x hx).1
            simp only [inRange, Bool.and_eq_true, decide_eq_true_eq]; omega
          rw [this, List.append_nil]
        rw [hrange, ← List.filter_append, filter_split 0 _ _ doc.log hgap.1 hv.le,
          filter_ssLe_all 0 _ doc.log hgap.1 (by omega)]
        simp only [pushedDoc, List.filter_append, hPnil, List.append_nil]
    · rw [← hsn', hsnap] at hs; simp at hs

end Yorkie.Server
