/-
Helper lemmas for C20 (`Model/ChangeStore.lean`).  Core Lean only.
-/
import YorkieModel.Model.ChangeStore
namespace Yorkie.CS

/-! ### specification vocabulary -/

/-- the B-tree's in-order list is strictly increasing in `ServerSeq` -/
def Sorted (t : List Change) : Prop := t.Pairwise (fun a b => a.seq < b.seq)

/-- `q` lies in one of the ranges -/
def Covered (rs : List Range) (q : Nat) : Prop := ∃ r ∈ rs, r.lo ≤ q ∧ q ≤ r.hi

/-- every range is non-empty; the list is sorted, disjoint and non-adjacent -/
def RangesOk (rs : List Range) : Prop :=
  (∀ r ∈ rs, r.lo ≤ r.hi) ∧ rs.Pairwise (fun a b => a.hi + 1 < b.lo)

/-- some item of the tree has this sequence number -/
def Cached (t : List Change) (q : Nat) : Prop := ∃ c ∈ t, c.seq = q

/-! ### tree -/

theorem mem_treeInsert {t : List Change} (c x : Change) (h : Sorted t) :
    x ∈ treeInsert c t ↔ x = c ∨ (x ∈ t ∧ x.seq ≠ c.seq) := by
  induction t with
  | nil => simp [treeInsert]
  | cons y ys ih =>
    have hy := List.pairwise_cons.mp h
    simp only [treeInsert]
    split
    · rename_i h1
      simp only [List.mem_cons]
      constructor
      · rintro (rfl | rfl | hx)
        · exact Or.inl rfl
        · exact Or.inr ⟨Or.inl rfl, by omega⟩
        · have := hy.1 x hx; exact Or.inr ⟨Or.inr hx, by omega⟩
      · rintro (rfl | ⟨rfl | hx, _⟩)
        · exact Or.inl rfl
        · exact Or.inr (Or.inl rfl)
        · exact Or.inr (Or.inr hx)
    · split
      · rename_i h1 h2
        simp only [List.mem_cons, ih hy.2]
        constructor
        · rintro (rfl | rfl | ⟨hx, hne⟩)
          · exact Or.inr ⟨Or.inl rfl, by omega⟩
          · exact Or.inl rfl
          · exact Or.inr ⟨Or.inr hx, hne⟩
        · rintro (rfl | ⟨rfl | hx, hne⟩)
          · exact Or.inr (Or.inl rfl)
          · exact Or.inl rfl
          · exact Or.inr (Or.inr ⟨hx, hne⟩)
      · rename_i h1 h2
        have he : y.seq = c.seq := by omega
        simp only [List.mem_cons]
        constructor
        · rintro (rfl | hx)
          · exact Or.inl rfl
          · have := hy.1 x hx; exact Or.inr ⟨Or.inr hx, by omega⟩
        · rintro (rfl | ⟨rfl | hx, hne⟩)
          · exact Or.inl rfl
          · exact absurd he hne
          · exact Or.inr hx

theorem sorted_treeInsert {t : List Change} (c : Change) (h : Sorted t) : Sorted (treeInsert c t) := by
  induction t with
  | nil => simp [treeInsert, Sorted]
  | cons y ys ih =>
    have hy := List.pairwise_cons.mp h
    simp only [treeInsert]
    split
    · rename_i h1
      refine List.pairwise_cons.mpr ⟨?_, h⟩
      intro x hx
      rcases List.mem_cons.mp hx with rfl | hx
      · exact h1
      · have := hy.1 x hx; omega
    · split
      · rename_i h1 h2
        refine List.pairwise_cons.mpr ⟨?_, ih hy.2⟩
        intro x hx
        rcases (mem_treeInsert c x hy.2).mp hx with rfl | ⟨hx, _⟩
        · exact h2
        · exact hy.1 x hx
      · rename_i h1 h2
        refine List.pairwise_cons.mpr ⟨?_, hy.2⟩
        intro x hx
        have := hy.1 x hx; omega

theorem mem_treeDelete {t : List Change} (c x : Change) (h : Sorted t) :
    x ∈ treeDelete c t ↔ x ∈ t ∧ x.seq ≠ c.seq := by
  induction t with
  | nil => simp [treeDelete]
  | cons y ys ih =>
    have hy := List.pairwise_cons.mp h
    simp only [treeDelete]
    split
    · rename_i h1
      simp only [List.mem_cons]
      constructor
      · rintro (rfl | hx)
        · exact ⟨Or.inl rfl, by omega⟩
        · have := hy.1 x hx; exact ⟨Or.inr hx, by omega⟩
      · exact fun h => h.1
    · split
      · rename_i h1 h2
        simp only [List.mem_cons, ih hy.2]
        constructor
        · rintro (rfl | ⟨hx, hne⟩)
          · exact ⟨Or.inl rfl, by omega⟩
          · exact ⟨Or.inr hx, hne⟩
        · rintro ⟨rfl | hx, hne⟩
          · exact Or.inl rfl
          · exact Or.inr ⟨hx, hne⟩
      · rename_i h1 h2
        simp only [List.mem_cons]
        constructor
        · intro hx
          have := hy.1 x hx; exact ⟨Or.inr hx, by omega⟩
        · rintro ⟨rfl | hx, hne⟩
          · omega
          · exact hx

theorem treeDelete_sublist (c : Change) (t : List Change) : (treeDelete c t).Sublist t := by
  induction t with
  | nil => simp [treeDelete]
  | cons y ys ih =>
    simp only [treeDelete]
    split
    · exact List.Sublist.refl _
    · split
      · exact List.Sublist.cons_cons _ ih
      · exact List.sublist_cons_self _ _

theorem sorted_treeDelete {t : List Change} (c : Change) (h : Sorted t) : Sorted (treeDelete c t) :=
  List.Pairwise.sublist (treeDelete_sublist c t) h

/-- on a sorted tree the bounded ascend is the filter on `lo ≤ seq ≤ hi` -/
theorem takeWhile_eq_filter {t : List Change} (lo hi : Nat) (h : Sorted t) (hlo : ∀ c ∈ t, lo ≤ c.seq) :
    t.takeWhile (fun c => c.seq ≤ hi) = t.filter (fun c => lo ≤ c.seq && c.seq ≤ hi) := by
  induction t with
  | nil => simp
  | cons y ys ih =>
    have hy := List.pairwise_cons.mp h
    have hly := hlo y (List.mem_cons_self ..)
    by_cases hh : y.seq ≤ hi
    · rw [List.takeWhile_cons_of_pos (by simpa using hh), List.filter_cons_of_pos (by simp [hh, hly])]
      rw [ih hy.2 (fun c hc => hlo c (List.mem_cons_of_mem _ hc))]
    · rw [List.takeWhile_cons_of_neg (by simpa using hh), List.filter_cons_of_neg (by simp [hh])]
      symm
      apply List.filter_eq_nil_iff.mpr
      intro c hc
      have := hy.1 c hc
      simp; omega

theorem ascendRange_eq_filter {t : List Change} (lo hi : Nat) (h : Sorted t) :
    ascendRange t lo hi = t.filter (fun c => lo ≤ c.seq && c.seq ≤ hi) := by
  unfold ascendRange
  induction t with
  | nil => simp
  | cons y ys ih =>
    have hy := List.pairwise_cons.mp h
    by_cases hh : y.seq < lo
    · rw [List.dropWhile_cons_of_pos (by simpa using hh), List.filter_cons_of_neg (by simp; omega)]
      exact ih hy.2
    · rw [List.dropWhile_cons_of_neg (by simpa using hh)]
      apply takeWhile_eq_filter lo hi h
      intro c hc
      rcases List.mem_cons.mp hc with rfl | hc
      · omega
      · have := hy.1 c hc; omega

theorem mem_ascendRange {t : List Change} (lo hi : Nat) (x : Change) (h : Sorted t) :
    x ∈ ascendRange t lo hi ↔ x ∈ t ∧ lo ≤ x.seq ∧ x.seq ≤ hi := by
  rw [ascendRange_eq_filter lo hi h]; simp

theorem sorted_ascendRange {t : List Change} (lo hi : Nat) (h : Sorted t) : Sorted (ascendRange t lo hi) := by
  rw [ascendRange_eq_filter lo hi h]; exact List.Pairwise.sublist List.filter_sublist h

theorem sorted_treeInsertAll {t : List Change} (cs : List Change) (h : Sorted t) : Sorted (treeInsertAll t cs) := by
  unfold treeInsertAll
  induction cs generalizing t with
  | nil => exact h
  | cons c cs ih => exact ih (sorted_treeInsert c h)

/-- Inserting rows of a key-consistent family (`P`: at most one row per `seq`) is a union. -/
theorem mem_treeInsertAll {t : List Change} (cs : List Change) (P : Change → Prop)
    (huniq : ∀ a b, P a → P b → a.seq = b.seq → a = b)
    (h : Sorted t) (ht : ∀ c ∈ t, P c) (hcs : ∀ c ∈ cs, P c) (x : Change) :
    x ∈ treeInsertAll t cs ↔ x ∈ t ∨ x ∈ cs := by
  unfold treeInsertAll
  induction cs generalizing t with
  | nil => simp
  | cons c cs ih =>
    have hc : P c := hcs c (List.mem_cons_self ..)
    have ht' : ∀ y ∈ treeInsert c t, P y := by
      intro y hy
      rcases (mem_treeInsert c y h).mp hy with rfl | ⟨hy, _⟩
      · exact hc
      · exact ht y hy
    rw [List.foldl_cons, ih (sorted_treeInsert c h) ht' (fun y hy => hcs y (List.mem_cons_of_mem _ hy))]
    rw [mem_treeInsert c x h, List.mem_cons]
    constructor
    · rintro ((rfl | ⟨hx, _⟩) | hx)
      · exact Or.inr (Or.inl rfl)
      · exact Or.inl hx
      · exact Or.inr (Or.inr hx)
    · rintro (hx | rfl | hx)
      · by_cases he : x.seq = c.seq
        · exact Or.inl (Or.inl (huniq x c (ht x hx) hc he))
        · exact Or.inl (Or.inr ⟨hx, he⟩)
      · exact Or.inl (Or.inl rfl)
      · exact Or.inr hx

/-- the delete loop of `RemoveChangesByActor` on a sorted tree is a filter -/
theorem mem_foldl_treeDelete {t : List Change} (ds : List Change) (h : Sorted t) (x : Change) :
    x ∈ ds.foldl (fun t c => treeDelete c t) t ↔ x ∈ t ∧ ∀ d ∈ ds, x.seq ≠ d.seq := by
  induction ds generalizing t with
  | nil => simp
  | cons d ds ih =>
    rw [List.foldl_cons, ih (sorted_treeDelete d h), mem_treeDelete d x h]
    simp only [List.mem_cons, forall_eq_or_imp]
    exact ⟨fun ⟨⟨a, b⟩, c⟩ => ⟨a, b, c⟩, fun ⟨a, b, c⟩ => ⟨⟨a, b⟩, c⟩⟩

theorem sorted_foldl_treeDelete {t : List Change} (ds : List Change) (h : Sorted t) :
    Sorted (ds.foldl (fun t c => treeDelete c t) t) := by
  induction ds generalizing t with
  | nil => exact h
  | cons d ds ih => exact ih (sorted_treeDelete d h)

/-- two strictly sorted lists with the same members are equal -/
theorem sorted_ext {l₁ l₂ : List Change} (h₁ : Sorted l₁) (h₂ : Sorted l₂)
    (h : ∀ x, x ∈ l₁ ↔ x ∈ l₂) : l₁ = l₂ := by
  induction l₁ generalizing l₂ with
  | nil =>
    cases l₂ with
    | nil => rfl
    | cons y ys => exact absurd ((h y).mpr (List.mem_cons_self ..)) (by simp)
  | cons x xs ih =>
    cases l₂ with
    | nil => exact absurd ((h x).mp (List.mem_cons_self ..)) (by simp)
    | cons y ys =>
      have hx := List.pairwise_cons.mp h₁
      have hy := List.pairwise_cons.mp h₂
      have hxy : x = y := by
        rcases List.mem_cons.mp ((h x).mp (List.mem_cons_self ..)) with e | hxin
        · exact e
        · rcases List.mem_cons.mp ((h y).mpr (List.mem_cons_self ..)) with e | hyin
          · exact e.symm
          · have a := hy.1 x hxin
            have b := hx.1 y hyin
            omega
      subst hxy
      congr 1
      apply ih hx.2 hy.2
      intro z
      constructor
      · intro hz
        rcases List.mem_cons.mp ((h z).mp (List.mem_cons_of_mem _ hz)) with e | hz'
        · subst e; have := hx.1 z hz; omega
        · exact hz'
      · intro hz
        rcases List.mem_cons.mp ((h z).mpr (List.mem_cons_of_mem _ hz)) with e | hz'
        · subst e; have := hy.1 z hz; omega
        · exact hz'

/-! ### mergeAdjacentRanges -/

def SortedLo (rs : List Range) : Prop := rs.Pairwise (fun a b => a.lo ≤ b.lo)

theorem mem_insertLo (r x : Range) (l : List Range) : x ∈ insertLo r l ↔ x = r ∨ x ∈ l := by
  induction l with
  | nil => simp [insertLo]
  | cons y ys ih =>
    simp only [insertLo]
    split
    · simp
    · simp only [List.mem_cons, ih]
      constructor
      · rintro (h | h | h)
        · exact Or.inr (Or.inl h)
        · exact Or.inl h
        · exact Or.inr (Or.inr h)
      · rintro (h | h | h)
        · exact Or.inr (Or.inl h)
        · exact Or.inl h
        · exact Or.inr (Or.inr h)

theorem mem_sortLo (x : Range) (l : List Range) : x ∈ sortLo l ↔ x ∈ l := by
  induction l with
  | nil => simp [sortLo]
  | cons y ys ih =>
    have : sortLo (y :: ys) = insertLo y (sortLo ys) := rfl
    rw [this, mem_insertLo, ih, List.mem_cons]

theorem sortedLo_insertLo (r : Range) {l : List Range} (h : SortedLo l) : SortedLo (insertLo r l) := by
  induction l with
  | nil => simp [insertLo, SortedLo]
  | cons y ys ih =>
    have hy := List.pairwise_cons.mp h
    simp only [insertLo]
    split
    · rename_i h1
      refine List.pairwise_cons.mpr ⟨?_, h⟩
      intro x hx
      rcases List.mem_cons.mp hx with rfl | hx
      · exact h1
      · have := hy.1 x hx; omega
    · rename_i h1
      refine List.pairwise_cons.mpr ⟨?_, ih hy.2⟩
      intro x hx
      rcases (mem_insertLo r x ys).mp hx with rfl | hx
      · omega
      · exact hy.1 x hx

theorem sortedLo_sortLo (l : List Range) : SortedLo (sortLo l) := by
  induction l with
  | nil => simp [sortLo, SortedLo]
  | cons y ys ih => exact sortedLo_insertLo y ih

theorem sortLo_of_sorted {l : List Range} (h : SortedLo l) : sortLo l = l := by
  induction l with
  | nil => rfl
  | cons y ys ih =>
    have hy := List.pairwise_cons.mp h
    have : sortLo (y :: ys) = insertLo y (sortLo ys) := rfl
    rw [this, ih hy.2]
    cases ys with
    | nil => rfl
    | cons z zs =>
      have := hy.1 z (List.mem_cons_self ..)
      simp [insertLo, this]

theorem covered_cons (r : Range) (rs : List Range) (q : Nat) :
    Covered (r :: rs) q ↔ (r.lo ≤ q ∧ q ≤ r.hi) ∨ Covered rs q := by
  simp [Covered]

theorem covered_append (as bs : List Range) (q : Nat) :
    Covered (as ++ bs) q ↔ Covered as q ∨ Covered bs q := by
  simp only [Covered, List.mem_append]
  constructor
  · rintro ⟨r, hr | hr, h⟩
    · exact Or.inl ⟨r, hr, h⟩
    · exact Or.inr ⟨r, hr, h⟩
  · rintro (⟨r, hr, h⟩ | ⟨r, hr, h⟩)
    · exact ⟨r, Or.inl hr, h⟩
    · exact ⟨r, Or.inr hr, h⟩

theorem mergeLoop_spec (rs : List Range) : ∀ (cur : Range), cur.lo ≤ cur.hi → (∀ r ∈ rs, r.lo ≤ r.hi) →
    SortedLo rs → (∀ r ∈ rs, cur.lo ≤ r.lo) →
    RangesOk (mergeLoop cur rs) ∧ (∀ r ∈ mergeLoop cur rs, cur.lo ≤ r.lo) ∧
    ∀ q, Covered (mergeLoop cur rs) q ↔ (cur.lo ≤ q ∧ q ≤ cur.hi) ∨ Covered rs q := by
  induction rs with
  | nil =>
    intro cur hc _ _ _
    simp [mergeLoop, RangesOk, Covered, hc]
  | cons r rs ih =>
    intro cur hc hv hs hle
    have hr := List.pairwise_cons.mp hs
    have hrv := hv r (List.mem_cons_self ..)
    have hcr := hle r (List.mem_cons_self ..)
    simp only [mergeLoop]
    split
    · rename_i h1
      have := ih { cur with hi := max cur.hi r.hi } (by simp only []; omega)
        (fun x hx => hv x (List.mem_cons_of_mem _ hx)) hr.2
        (fun x hx => hle x (List.mem_cons_of_mem _ hx))
      refine ⟨this.1, this.2.1, ?_⟩
      intro q
      rw [this.2.2 q, covered_cons]
      simp only []
      constructor
      · rintro (h | h)
        · by_cases hq : q ≤ cur.hi
          · exact Or.inl ⟨h.1, hq⟩
          · exact Or.inr (Or.inl ⟨by omega, by omega⟩)
        · exact Or.inr (Or.inr h)
      · rintro (h | h | h)
        · exact Or.inl ⟨h.1, by omega⟩
        · exact Or.inl ⟨by omega, by omega⟩
        · exact Or.inr h
    · rename_i h1
      have := ih r hrv (fun x hx => hv x (List.mem_cons_of_mem _ hx)) hr.2 hr.1
      refine ⟨⟨?_, ?_⟩, ?_, ?_⟩
      · intro x hx
        rcases List.mem_cons.mp hx with rfl | hx
        · exact hc
        · exact this.1.1 x hx
      · refine List.pairwise_cons.mpr ⟨?_, this.1.2⟩
        intro x hx
        have := this.2.1 x hx
        omega
      · intro x hx
        rcases List.mem_cons.mp hx with rfl | hx
        · exact Nat.le_refl _
        · have := this.2.1 x hx; omega
      · intro q
        rw [covered_cons, this.2.2 q, covered_cons]

/-- `merge_adjacent_spec`: on non-empty ranges the result is sorted, disjoint, non-adjacent
    and covers exactly the union of the inputs -/
theorem mergeAdjacent_spec (rs : List Range) (hv : ∀ r ∈ rs, r.lo ≤ r.hi) :
    RangesOk (mergeAdjacent rs) ∧ ∀ q, Covered (mergeAdjacent rs) q ↔ Covered rs q := by
  unfold mergeAdjacent
  split
  · rename_i h1
    refine ⟨⟨hv, ?_⟩, fun _ => Iff.rfl⟩
    match rs, h1 with
    | [], _ => exact List.Pairwise.nil
    | [_], _ => simp
  · have hmem := fun x => mem_sortLo x rs
    have hs := sortedLo_sortLo rs
    split
    · rename_i h1 _ heq
      rw [heq] at hmem
      cases rs with
      | nil => simp at h1
      | cons y ys => exact absurd ((hmem y).mpr (List.mem_cons_self ..)) (by simp)
    · rename_i h1 c rest heq
      rw [heq] at hmem hs
      have hc := List.pairwise_cons.mp hs
      have := mergeLoop_spec rest c (hv c ((hmem c).mp (List.mem_cons_self ..)))
        (fun x hx => hv x ((hmem x).mp (List.mem_cons_of_mem _ hx))) hc.2 hc.1
      refine ⟨this.1, ?_⟩
      intro q
      rw [this.2.2 q, ← covered_cons]
      simp only [Covered]
      constructor
      · rintro ⟨r, hr, h⟩; exact ⟨r, (hmem r).mp hr, h⟩
      · rintro ⟨r, hr, h⟩; exact ⟨r, (hmem r).mpr hr, h⟩

theorem mergeLoop_of_ok (rs : List Range) : ∀ cur, RangesOk (cur :: rs) → mergeLoop cur rs = cur :: rs := by
  induction rs with
  | nil => intro cur _; rfl
  | cons r rs ih =>
    intro cur h
    have hp := List.pairwise_cons.mp h.2
    have h1 := hp.1 r (List.mem_cons_self ..)
    simp only [mergeLoop]
    rw [if_neg (by omega)]
    rw [ih r ⟨fun x hx => h.1 x (List.mem_cons_of_mem _ hx), hp.2⟩]

theorem sortedLo_of_ok {rs : List Range} (h : RangesOk rs) : SortedLo rs := by
  obtain ⟨hv, hp⟩ := h
  induction rs with
  | nil => exact List.Pairwise.nil
  | cons r rs ih =>
    have hp' := List.pairwise_cons.mp hp
    refine List.pairwise_cons.mpr ⟨?_, ih (fun x hx => hv x (List.mem_cons_of_mem _ hx)) hp'.2⟩
    intro x hx
    have := hp'.1 x hx
    have := hv r (List.mem_cons_self ..)
    omega

/-- on a list that is already sorted, disjoint and non-adjacent the merge is the identity
    (the call at the end of `calcMissingRanges` never changes anything) -/
theorem mergeAdjacent_of_ok {rs : List Range} (h : RangesOk rs) : mergeAdjacent rs = rs := by
  unfold mergeAdjacent
  split
  · rfl
  · rw [sortLo_of_sorted (sortedLo_of_ok h)]
    cases rs with
    | nil => rfl
    | cons c rest => exact mergeLoop_of_ok rest c h

/-! ### calcMissingRanges -/

/-- what `calcMissingRanges` must return for the "already have it" predicate `known`:
    the sorted, non-adjacent runs of `[lo,hi] \ known` (hence the maximal ones) -/
structure MissingSpec (known : Nat → Prop) (lo hi : Nat) (M : List Range) : Prop where
  ok : RangesOk M
  sound : ∀ r ∈ M, lo ≤ r.lo ∧ r.hi ≤ hi ∧ ∀ q, r.lo ≤ q → q ≤ r.hi → ¬ known q
  complete : ∀ q, lo ≤ q → q ≤ hi → ¬ known q → Covered M q

theorem scan_spec (fnd : Nat → Bool) (hi : Nat) : ∀ (n q : Nat) (cur : Option Nat), q + n = hi + 1 →
    (∀ st, cur = some st → st < q ∧ ∀ x, st ≤ x → x < q → fnd x = false) →
    RangesOk (scan fnd hi n q cur) ∧
    (∀ r ∈ scan fnd hi n q cur, cur.getD q ≤ r.lo ∧ r.hi ≤ hi ∧ ∀ x, r.lo ≤ x → x ≤ r.hi → fnd x = false) ∧
    (∀ x, cur.getD q ≤ x → x ≤ hi → fnd x = false → Covered (scan fnd hi n q cur) x) := by
  intro n
  induction n with
  | zero =>
    intro q cur hq hcur
    cases cur with
    | none =>
      simp only [scan, Option.getD_none]
      exact ⟨⟨by simp, List.Pairwise.nil⟩, by simp, fun x h1 h2 _ => by omega⟩
    | some st =>
      have := hcur st rfl
      simp only [scan, Option.getD_some]
      refine ⟨⟨by simp; omega, by simp⟩, ?_, ?_⟩
      · intro r hr
        simp only [List.mem_singleton] at hr
        subst hr
        exact ⟨Nat.le_refl _, Nat.le_refl _, fun x h1 h2 => this.2 x h1 (by simp only [] at h2; omega)⟩
      · intro x h1 h2 _
        exact ⟨_, List.mem_singleton.mpr rfl, h1, h2⟩
  | succ n ih =>
    intro q cur hq hcur
    by_cases hf : fnd q = true
    · cases cur with
      | none =>
        have hs : scan fnd hi (n + 1) q none = scan fnd hi n (q + 1) none := by simp [scan, hf]
        rw [hs]
        have := ih (q + 1) none (by omega) (by simp)
        simp only [Option.getD_none] at this ⊢
        refine ⟨this.1, ?_, ?_⟩
        · intro r hr
          have := this.2.1 r hr
          exact ⟨by omega, this.2.1, this.2.2⟩
        · intro x h1 h2 h3
          have hne : x ≠ q := by intro e; subst e; simp [hf] at h3
          exact this.2.2 x (by omega) h2 h3
      | some st =>
        have hst := hcur st rfl
        have hs : scan fnd hi (n + 1) q (some st) = ⟨st, q - 1⟩ :: scan fnd hi n (q + 1) none := by
          simp [scan, hf]
        rw [hs]
        have := ih (q + 1) none (by omega) (by simp)
        simp only [Option.getD_none, Option.getD_some] at this ⊢
        refine ⟨⟨?_, ?_⟩, ?_, ?_⟩
        · intro r hr
          rcases List.mem_cons.mp hr with rfl | hr
          · simp only []; omega
          · exact this.1.1 r hr
        · refine List.pairwise_cons.mpr ⟨?_, this.1.2⟩
          intro r hr
          have := (this.2.1 r hr).1
          simp only []; omega
        · intro r hr
          rcases List.mem_cons.mp hr with rfl | hr
          · exact ⟨Nat.le_refl _, by simp only []; omega, fun x h1 h2 => hst.2 x h1 (by simp only [] at h2; omega)⟩
          · have := this.2.1 r hr
            exact ⟨by omega, this.2.1, this.2.2⟩
        · intro x h1 h2 h3
          have hne : x ≠ q := by intro e; subst e; simp [hf] at h3
          by_cases hx : x < q
          · exact ⟨_, List.mem_cons_self .., h1, by simp only []; omega⟩
          · obtain ⟨r, hr, h⟩ := this.2.2 x (by omega) h2 h3
            exact ⟨r, List.mem_cons_of_mem _ hr, h⟩
    · have hf' : fnd q = false := by simpa using hf
      cases cur with
      | none =>
        have hs : scan fnd hi (n + 1) q none = scan fnd hi n (q + 1) (some q) := by simp [scan, hf']
        rw [hs]
        have := ih (q + 1) (some q) (by omega) (by
          intro st h; injection h with h; subst h
          exact ⟨by omega, fun x h1 h2 => by have : x = q := by omega
                                             subst this; exact hf'⟩)
        simp only [Option.getD_none, Option.getD_some] at this ⊢
        exact this
      | some st =>
        have hst := hcur st rfl
        have hs : scan fnd hi (n + 1) q (some st) = scan fnd hi n (q + 1) (some st) := by simp [scan, hf']
        rw [hs]
        have := ih (q + 1) (some st) (by omega) (by
          intro st' h; injection h with h; subst h
          refine ⟨by omega, fun x h1 h2 => ?_⟩
          by_cases hx : x < q
          · exact hst.2 x h1 hx
          · have : x = q := by omega
            subst this; exact hf')
        simp only [Option.getD_some] at this ⊢
        exact this

/-- `seqMap[q]` is true exactly for the sequences that are cached or covered -/
theorem found_iff (s : Store) (lo hi q : Nat) (hs : Sorted s.tree) (h1 : lo ≤ q) (h2 : q ≤ hi) :
    found s lo hi q = true ↔ Cached s.tree q ∨ Covered s.ranges q := by
  unfold found
  rw [Bool.or_eq_true, List.any_eq_true, List.any_eq_true]
  constructor
  · rintro (⟨c, hc, he⟩ | ⟨r, hr, he⟩)
    · rw [mem_ascendRange lo hi c hs] at hc
      exact Or.inl ⟨c, hc.1, by simpa using he⟩
    · simp only [Bool.and_eq_true, Bool.not_eq_true', Bool.or_eq_false_iff, decide_eq_false_iff_not,
        decide_eq_true_eq] at he
      exact Or.inr ⟨r, hr, by omega, by omega⟩
  · rintro (⟨c, hc, he⟩ | ⟨r, hr, he⟩)
    · exact Or.inl ⟨c, (mem_ascendRange lo hi c hs).mpr ⟨hc, by omega, by omega⟩, by simpa using he⟩
    · refine Or.inr ⟨r, hr, ?_⟩
      simp only [Bool.and_eq_true, Bool.not_eq_true', Bool.or_eq_false_iff, decide_eq_false_iff_not,
        decide_eq_true_eq]
      omega

/-- already cached or already inside a fetched range -/
def Known (s : Store) (q : Nat) : Prop := Cached s.tree q ∨ Covered s.ranges q

theorem calcMissing_spec (s : Store) (lo hi : Nat) (hs : Sorted s.tree) (hle : lo ≤ hi) :
    MissingSpec (Known s) lo hi (calcMissing s lo hi) := by
  unfold calcMissing
  split
  · rename_i h
    have ht : s.tree = [] := List.eq_nil_of_length_eq_zero h.1
    have hr : s.ranges = [] := List.eq_nil_of_length_eq_zero h.2
    refine ⟨⟨by simp; exact hle, by simp⟩, ?_, ?_⟩
    · intro r hr'
      simp only [List.mem_singleton] at hr'
      subst hr'
      refine ⟨Nat.le_refl _, Nat.le_refl _, ?_⟩
      intro q _ _ hk
      rcases hk with ⟨c, hc, _⟩ | ⟨r, hr', _⟩
      · rw [ht] at hc; simp at hc
      · rw [hr] at hr'; simp at hr'
    · intro q h1 h2 _
      exact ⟨_, List.mem_singleton.mpr rfl, h1, h2⟩
  · have hsc := scan_spec (found s lo hi) hi (hi + 1 - lo) lo none (by omega) (by simp)
    simp only [Option.getD_none] at hsc
    have hm : (if (scan (found s lo hi) hi (hi + 1 - lo) lo none).length > 1
        then mergeAdjacent (scan (found s lo hi) hi (hi + 1 - lo) lo none)
        else scan (found s lo hi) hi (hi + 1 - lo) lo none) = scan (found s lo hi) hi (hi + 1 - lo) lo none := by
      split
      · exact mergeAdjacent_of_ok hsc.1
      · rfl
    simp only [hm]
    refine ⟨hsc.1, ?_, ?_⟩
    · intro r hr
      have := hsc.2.1 r hr
      have hv := hsc.1.1 r hr
      refine ⟨this.1, this.2.1, ?_⟩
      intro q h1 h2 hk
      have hf := this.2.2 q h1 h2
      have := (found_iff s lo hi q hs (by omega) (by omega)).mpr hk
      rw [hf] at this; exact Bool.false_ne_true this
    · intro q h1 h2 hk
      apply hsc.2.2 q h1 h2
      cases hf : found s lo hi q with
      | false => rfl
      | true => exact absurd ((found_iff s lo hi q hs h1 h2).mp hf) hk

/-! ### the cache invariant -/

/-- every row of the ground truth is stored under its own sequence number -/
def Truth.WF (T : Truth) : Prop := ∀ q c, T q = some c → c.seq = q

/-- The invariant tying a `ChangeStore` to the ground-truth table `T`. -/
structure Inv (T : Truth) (s : Store) : Prop where
  /-- fetched ranges are non-empty, sorted, disjoint and non-adjacent -/
  ranges : RangesOk s.ranges
  /-- the B-tree holds at most one row per sequence number, in order -/
  sorted : Sorted s.tree
  /-- every cached row is the ground-truth row of its sequence number -/
  cachedTruth : ∀ c ∈ s.tree, T c.seq = some c
  /-- every ground-truth row inside a fetched range is cached -/
  coveredCached : ∀ q c, Covered s.ranges q → T q = some c → c ∈ s.tree

theorem inv_new (T : Truth) : Inv T Store.new :=
  ⟨⟨by simp [Store.new], by simp [Store.new]⟩, by simp [Store.new, Sorted], by simp [Store.new],
   by intro q c h; obtain ⟨r, hr, _⟩ := h; simp [Store.new] at hr⟩

theorem sorted_unique {t : List Change} (h : Sorted t) {a b : Change} (ha : a ∈ t) (hb : b ∈ t)
    (he : a.seq = b.seq) : a = b := by
  induction t with
  | nil => simp at ha
  | cons y ys ih =>
    have hy := List.pairwise_cons.mp h
    rcases List.mem_cons.mp ha with ha' | ha'
    · rcases List.mem_cons.mp hb with hb' | hb'
      · rw [ha', hb']
      · have := hy.1 b hb'; rw [ha'] at he; omega
    · rcases List.mem_cons.mp hb with hb' | hb'
      · have := hy.1 a ha'; rw [hb'] at he; omega
      · exact ih hy.2 ha' hb'

theorem mem_fetch {T : Truth} (hT : T.WF) (lo hi : Nat) (c : Change) :
    c ∈ T.fetch lo hi ↔ T c.seq = some c ∧ lo ≤ c.seq ∧ c.seq ≤ hi := by
  unfold Truth.fetch
  rw [List.mem_filterMap]
  constructor
  · rintro ⟨q, hq, h⟩
    have := hT q c h
    subst this
    rw [List.mem_range'_1] at hq
    exact ⟨h, by omega, by omega⟩
  · rintro ⟨h, h1, h2⟩
    exact ⟨c.seq, List.mem_range'_1.mpr ⟨h1, by omega⟩, h⟩

theorem sorted_fetch {T : Truth} (hT : T.WF) (lo hi : Nat) : Sorted (T.fetch lo hi) := by
  unfold Truth.fetch Sorted
  apply List.Pairwise.filterMap T _ (List.pairwise_lt_range' (s := lo) (n := hi + 1 - lo))
  intro a a' haa b hb b' hb'
  rw [hT a b hb, hT a' b' hb']; exact haa

theorem truth_uniq {T : Truth} (a b : Change) (ha : T a.seq = some a) (hb : T b.seq = some b)
    (he : a.seq = b.seq) : a = b := by
  rw [he, hb] at ha; injection ha with ha; exact ha.symm

/-- `ReplaceOrInsert(rows)` of ground-truth rows is a union -/
theorem mem_insert_truth {T : Truth} {s : Store} (h : Inv T s) (cs : List Change)
    (hcs : ∀ c ∈ cs, T c.seq = some c) (x : Change) :
    x ∈ treeInsertAll s.tree cs ↔ x ∈ s.tree ∨ x ∈ cs :=
  mem_treeInsertAll cs (fun c => T c.seq = some c) truth_uniq h.sorted h.cachedTruth hcs x

theorem inv_replaceOrInsert {T : Truth} {s : Store} (h : Inv T s) (cs : List Change)
    (hcs : ∀ c ∈ cs, T c.seq = some c) : Inv T (replaceOrInsert s cs) := by
  refine ⟨h.ranges, sorted_treeInsertAll cs h.sorted, ?_, ?_⟩
  · intro c hc
    rcases (mem_insert_truth h cs hcs c).mp hc with hc | hc
    · exact h.cachedTruth c hc
    · exact hcs c hc
  · intro q c hq hc
    exact (mem_insert_truth h cs hcs c).mpr (Or.inl (h.coveredCached q c hq hc))

theorem covered_expand (s : Store) (r : Range) (hr : r.lo ≤ r.hi) (hs : RangesOk s.ranges) :
    RangesOk (mergeAdjacent (s.ranges ++ [r])) ∧
    ∀ q, Covered (mergeAdjacent (s.ranges ++ [r])) q ↔ Covered s.ranges q ∨ (r.lo ≤ q ∧ q ≤ r.hi) := by
  have hv : ∀ x ∈ s.ranges ++ [r], x.lo ≤ x.hi := by
    intro x hx
    rcases List.mem_append.mp hx with hx | hx
    · exact hs.1 x hx
    · simp only [List.mem_singleton] at hx; subst hx; exact hr
  have := mergeAdjacent_spec _ hv
  refine ⟨this.1, fun q => ?_⟩
  rw [this.2 q, covered_append]
  simp [Covered]

theorem inv_expandRange {T : Truth} {s : Store} (h : Inv T s) (r : Range)
    (hr : ∀ q c, r.lo ≤ q → q ≤ r.hi → T q = some c → c ∈ s.tree) : Inv T (expandRange s r) := by
  unfold expandRange
  split
  · exact h
  · rename_i hle
    have := covered_expand s r (by omega) h.ranges
    refine ⟨this.1, h.sorted, h.cachedTruth, ?_⟩
    intro q c hq hc
    rcases (this.2 q).mp hq with hq | hq
    · exact h.coveredCached q c hq hc
    · exact hr q c hq.1 hq.2 hc

/-- one successful iteration of the fetch loop of `EnsureChanges` -/
theorem ensureStep_spec {T : Truth} (hT : T.WF) {s : Store} (h : Inv T s) (r : Range) (hr : r.lo ≤ r.hi) :
    Inv T (ensureStep T.fetch s r) ∧
    (∀ q, Covered (ensureStep T.fetch s r).ranges q ↔ Covered s.ranges q ∨ (r.lo ≤ q ∧ q ≤ r.hi)) ∧
    (∀ x, x ∈ (ensureStep T.fetch s r).tree ↔
      x ∈ s.tree ∨ (T x.seq = some x ∧ r.lo ≤ x.seq ∧ x.seq ≤ r.hi)) := by
  have hcov := covered_expand s r hr h.ranges
  have hcs : ∀ c ∈ T.fetch r.lo r.hi, T c.seq = some c := fun c hc => ((mem_fetch hT _ _ c).mp hc).1
  have hmem : ∀ x, x ∈ (ensureStep T.fetch s r).tree ↔
      x ∈ s.tree ∨ (T x.seq = some x ∧ r.lo ≤ x.seq ∧ x.seq ≤ r.hi) := by
    intro x
    simp only [ensureStep]
    rw [mem_insert_truth h _ hcs x, mem_fetch hT]
  refine ⟨⟨hcov.1, sorted_treeInsertAll _ h.sorted, ?_, ?_⟩, hcov.2, hmem⟩
  · intro c hc
    rcases (hmem c).mp hc with hc | hc
    · exact h.cachedTruth c hc
    · exact hc.1
  · intro q c hq hc
    have hseq := hT q c hc
    rcases (hcov.2 q).mp hq with hq | hq
    · exact (hmem c).mpr (Or.inl (h.coveredCached q c hq hc))
    · exact (hmem c).mpr (Or.inr ⟨by rw [hseq]; exact hc, by omega, by omega⟩)

theorem ensureLoop_spec {T : Truth} (hT : T.WF) (M : List Range) : ∀ (s : Store) (k : Nat), Inv T s →
    (∀ r ∈ M, r.lo ≤ r.hi) →
    Inv T (ensureLoop T.fetch s M k).store ∧
    (ensureLoop T.fetch s M k).calls <+: M ∧
    (∀ q, Covered s.ranges q → Covered (ensureLoop T.fetch s M k).store.ranges q) ∧
    (∀ x, x ∈ s.tree → x ∈ (ensureLoop T.fetch s M k).store.tree) ∧
    ((ensureLoop T.fetch s M k).ok = true →
      (ensureLoop T.fetch s M k).calls = M ∧
      (∀ q, Covered (ensureLoop T.fetch s M k).store.ranges q ↔ Covered s.ranges q ∨ Covered M q) ∧
      (∀ x, x ∈ (ensureLoop T.fetch s M k).store.tree ↔
        x ∈ s.tree ∨ (T x.seq = some x ∧ Covered M x.seq))) := by
  induction M with
  | nil =>
    intro s k h _
    simp only [ensureLoop]
    refine ⟨h, List.prefix_refl _, fun _ h => h, fun _ h => h, fun _ => ⟨?_, ?_, ?_⟩⟩
    · first | rfl | trivial
    · intro q; simp [Covered]
    · intro x; simp [Covered]
  | cons r M ih =>
    intro s k h hv
    cases k with
    | zero =>
      simp only [ensureLoop]
      exact ⟨h, ⟨M, rfl⟩, fun _ h => h, fun _ h => h, fun hk => by simp at hk⟩
    | succ k =>
      have hstep := ensureStep_spec hT h r (hv r (List.mem_cons_self ..))
      have := ih (ensureStep T.fetch s r) k hstep.1 (fun x hx => hv x (List.mem_cons_of_mem _ hx))
      simp only [ensureLoop]
      refine ⟨this.1, ?_, ?_, ?_, ?_⟩
      · obtain ⟨t, ht⟩ := this.2.1
        exact ⟨t, by rw [List.cons_append, ht]⟩
      · intro q hq
        exact this.2.2.1 q ((hstep.2.1 q).mpr (Or.inl hq))
      · intro x hx
        exact this.2.2.2.1 x ((hstep.2.2 x).mpr (Or.inl hx))
      · intro hok
        have := this.2.2.2.2 hok
        refine ⟨by rw [this.1], ?_, ?_⟩
        · intro q
          rw [this.2.1 q, hstep.2.1 q, covered_cons]
          constructor
          · rintro ((h | h) | h)
            · exact Or.inl h
            · exact Or.inr (Or.inl h)
            · exact Or.inr (Or.inr h)
          · rintro (h | h | h)
            · exact Or.inl (Or.inl h)
            · exact Or.inl (Or.inr h)
            · exact Or.inr h
        · intro x
          rw [this.2.2 x, hstep.2.2 x, covered_cons]
          constructor
          · rintro ((h | h) | h)
            · exact Or.inl h
            · exact Or.inr ⟨h.1, Or.inl h.2⟩
            · exact Or.inr ⟨h.1, Or.inr h.2⟩
          · rintro (h | ⟨h1, h | h⟩)
            · exact Or.inl (Or.inl h)
            · exact Or.inl (Or.inr ⟨h1, h⟩)
            · exact Or.inr ⟨h1, h⟩

/-! ### EnsureChanges -/

theorem ensureLoop_calls_prefix (fetch : Nat → Nat → List Change) (M : List Range) : ∀ (s : Store) (k : Nat),
    (ensureLoop fetch s M k).calls <+: M := by
  induction M with
  | nil => intro s k; exact List.prefix_refl _
  | cons r M ih =>
    intro s k
    cases k with
    | zero => exact ⟨M, rfl⟩
    | succ k =>
      simp only [ensureLoop]
      obtain ⟨t, ht⟩ := ih (ensureStep fetch s r) k
      exact ⟨t, by rw [List.cons_append, ht]⟩

theorem ensure_inv {T : Truth} (hT : T.WF) {s : Store} (h : Inv T s) (lo hi k : Nat) :
    Inv T (ensure T.fetch s lo hi k).store := by
  unfold ensure
  split
  · exact h
  · rename_i hle
    exact (ensureLoop_spec hT _ s k h (calcMissing_spec s lo hi h.sorted (by omega)).ok.1).1

theorem ensure_ok_le {fetch : Nat → Nat → List Change} {s : Store} {lo hi k : Nat}
    (hok : (ensure fetch s lo hi k).ok = true) : lo ≤ hi := by
  unfold ensure at hok
  split at hok
  · simp at hok
  · omega

/-- the cache only grows under `EnsureChanges` -/
theorem ensure_mono {T : Truth} (hT : T.WF) {s : Store} (h : Inv T s) (lo hi k : Nat) (q : Nat)
    (hk : Known s q) : Known (ensure T.fetch s lo hi k).store q := by
  unfold ensure
  split
  · exact hk
  · rename_i hle
    have := ensureLoop_spec hT _ s k h (calcMissing_spec s lo hi h.sorted (by omega)).ok.1
    rcases hk with ⟨c, hc, he⟩ | hk
    · exact Or.inl ⟨c, this.2.2.2.1 c hc, he⟩
    · exact Or.inr (this.2.2.1 q hk)

/-- after a successful `EnsureChanges(lo,hi)` every sequence number of `[lo,hi]` is cached
    or inside a fetched range -/
theorem ensure_known {T : Truth} (hT : T.WF) {s : Store} (h : Inv T s) (lo hi k : Nat)
    (hok : (ensure T.fetch s lo hi k).ok = true) (q : Nat) (h1 : lo ≤ q) (h2 : q ≤ hi) :
    Known (ensure T.fetch s lo hi k).store q := by
  by_cases hk : Known s q
  · exact ensure_mono hT h lo hi k q hk
  · have hle := ensure_ok_le hok
    unfold ensure at hok ⊢
    rw [if_neg (by omega)] at hok ⊢
    have hm := calcMissing_spec s lo hi h.sorted hle
    have := ensureLoop_spec hT _ s k h hm.ok.1
    exact Or.inr (((this.2.2.2.2 hok).2.1 q).mpr (Or.inr (hm.complete q h1 h2 hk)))

/-- Cache transparency at the level of one query: whenever every sequence number of
    `[lo,hi]` is cached or inside a fetched range, `ChangesInRange(lo,hi)` returns exactly
    the ground-truth rows of `[lo,hi]`, in order. -/
theorem range_eq_truth_of_known {T : Truth} (hT : T.WF) {s : Store} (h : Inv T s) (lo hi : Nat)
    (hk : ∀ q, lo ≤ q → q ≤ hi → Known s q) : changesInRange s lo hi = T.fetch lo hi := by
  by_cases hle : lo ≤ hi
  · have hcr : changesInRange s lo hi = ascendRange s.tree lo hi := by
      unfold changesInRange
      rw [if_neg (by omega)]
      split
      · rename_i h0
        rw [List.eq_nil_of_length_eq_zero h0]; rfl
      · rfl
    rw [hcr]
    apply sorted_ext (sorted_ascendRange lo hi h.sorted) (sorted_fetch hT lo hi)
    intro x
    rw [mem_ascendRange lo hi x h.sorted, mem_fetch hT]
    constructor
    · rintro ⟨hx, h1, h2⟩
      exact ⟨h.cachedTruth x hx, h1, h2⟩
    · rintro ⟨hx, h1, h2⟩
      refine ⟨?_, h1, h2⟩
      rcases hk x.seq h1 h2 with ⟨c, hc, he⟩ | hc
      · have := truth_uniq c x (h.cachedTruth c hc) hx he
        rw [← this]; exact hc
      · exact h.coveredCached x.seq x hc hx
  · have h1 : changesInRange s lo hi = [] := by
      unfold changesInRange; rw [if_pos (by omega)]
    have h2 : T.fetch lo hi = [] := by
      unfold Truth.fetch
      have : hi + 1 - lo = 0 := by omega
      rw [this]; rfl
    rw [h1, h2]

/-- ghost version of the fetch loop that also records the store at the moment of each
    fetcher call -/
def ensureLoopStates (fetch : Nat → Nat → List Change) (s : Store) : List Range → Nat → List (Store × Range)
  | [], _ => []
  | r :: _, 0 => [(s, r)]
  | r :: rs, k + 1 => (s, r) :: ensureLoopStates fetch (ensureStep fetch s r) rs k

theorem ensureLoopStates_calls (fetch : Nat → Nat → List Change) (M : List Range) : ∀ (s : Store) (k : Nat),
    (ensureLoopStates fetch s M k).map Prod.snd = (ensureLoop fetch s M k).calls := by
  induction M with
  | nil => intro s k; rfl
  | cons r M ih =>
    intro s k
    cases k with
    | zero => rfl
    | succ k => simp only [ensureLoopStates, ensureLoop, List.map_cons, ih]

/-- every fetcher call is made on a range none of whose sequence numbers is cached or
    covered *at the moment of the call* -/
theorem ensureLoopStates_minimal {T : Truth} (hT : T.WF) (M : List Range) : ∀ (s : Store) (k : Nat), Inv T s →
    RangesOk M → (∀ r ∈ M, ∀ q, r.lo ≤ q → q ≤ r.hi → ¬ Known s q) →
    ∀ p ∈ ensureLoopStates T.fetch s M k, ∀ q, p.2.lo ≤ q → q ≤ p.2.hi → ¬ Known p.1 q := by
  induction M with
  | nil => intro s k _ _ _ p hp; simp [ensureLoopStates] at hp
  | cons r M ih =>
    intro s k h hM hd p hp
    have hpw := List.pairwise_cons.mp hM.2
    cases k with
    | zero =>
      simp only [ensureLoopStates, List.mem_singleton] at hp
      subst hp
      exact hd r (List.mem_cons_self ..)
    | succ k =>
      simp only [ensureLoopStates, List.mem_cons] at hp
      rcases hp with rfl | hp
      · exact hd r (List.mem_cons_self ..)
      · have hrv := hM.1 r (List.mem_cons_self ..)
        have hstep := ensureStep_spec hT h r hrv
        refine ih (ensureStep T.fetch s r) k hstep.1
          ⟨fun x hx => hM.1 x (List.mem_cons_of_mem _ hx), hpw.2⟩ ?_ p hp
        intro r' hr' q h1 h2 hk
        have hsep := hpw.1 r' hr'
        have hold := hd r' (List.mem_cons_of_mem _ hr') q h1 h2
        rcases hk with ⟨c, hc, he⟩ | hk
        · rcases (hstep.2.2 c).mp hc with hc | hc
          · exact hold (Or.inl ⟨c, hc, he⟩)
          · omega
        · rcases (hstep.2.1 q).mp hk with hk | hk
          · exact hold (Or.inr hk)
          · omega

/-! ### RemoveChangesByActor -/

theorem removeByActor_spec {s s' : Store} (a : Nat) (hs : Sorted s.tree) (h : removeByActor s a = some s') :
    s'.ranges = s.ranges ∧ Sorted s'.tree ∧
    (∀ x, x ∈ s'.tree ↔ x ∈ s.tree ∧ removable a x = false) ∧
    (∀ c ∈ s.tree, c.actor = a → c.pres ≠ Pres.none) := by
  unfold removeByActor at h
  split at h
  · simp at h
  · rename_i hp
    injection h with h
    subst h
    refine ⟨rfl, sorted_foldl_treeDelete _ hs, ?_, ?_⟩
    · intro x
      simp only []
      rw [mem_foldl_treeDelete _ hs]
      constructor
      · rintro ⟨hx, hd⟩
        refine ⟨hx, ?_⟩
        cases hr : removable a x with
        | false => rfl
        | true => exact absurd rfl (hd x (List.mem_filter.mpr ⟨hx, hr⟩))
      · rintro ⟨hx, hr⟩
        refine ⟨hx, ?_⟩
        intro d hd he
        have hd' := List.mem_filter.mp hd
        have := sorted_unique hs hx hd'.1 he
        subst this
        rw [hr] at hd'; exact Bool.false_ne_true hd'.2
    · intro c hc ha hn
      apply hp
      unfold removePanics
      rw [List.any_eq_true]
      exact ⟨c, hc, by simp [ha, hn]⟩

/-- the table after the same rows have been deleted from the underlying store -/
def Truth.remove (T : Truth) (a : Nat) : Truth :=
  fun q => match T q with
    | some c => if removable a c then none else some c
    | none => none

theorem truth_remove_some {T : Truth} {a q : Nat} {c : Change} :
    T.remove a q = some c ↔ T q = some c ∧ removable a c = false := by
  unfold Truth.remove
  cases hq : T q with
  | none => simp
  | some d =>
    simp only []
    split
    · rename_i hr
      constructor
      · intro h; simp at h
      · rintro ⟨h1, h2⟩; injection h1 with h1; subst h1; rw [hr] at h2; simp at h2
    · rename_i hr
      constructor
      · intro h; injection h with h; subst h; exact ⟨rfl, by simpa using hr⟩
      · rintro ⟨h1, _⟩; exact h1

theorem wf_remove {T : Truth} (hT : T.WF) (a : Nat) : (T.remove a).WF :=
  fun q c h => hT q c (truth_remove_some.mp h).1

/-- presence-store reading: the rows are deleted from the system, cache and truth alike -/
theorem inv_removeByActor {T : Truth} {s s' : Store} (a : Nat) (h : Inv T s)
    (hr : removeByActor s a = some s') : Inv (T.remove a) s' := by
  obtain ⟨h1, h2, h3, _⟩ := removeByActor_spec a h.sorted hr
  refine ⟨h1 ▸ h.ranges, h2, ?_, ?_⟩
  · intro c hc
    have := (h3 c).mp hc
    exact truth_remove_some.mpr ⟨h.cachedTruth c this.1, this.2⟩
  · intro q c hq hc
    have := truth_remove_some.mp hc
    exact (h3 c).mpr ⟨h.coveredCached q c (h1 ▸ hq) this.1, this.2⟩

/-- eviction reading: against an unchanged table the call is harmless as long as no
    removed row lies inside a fetched range (in particular on a store without ranges,
    which is how the presence store is used) -/
theorem inv_removeByActor_uncovered {T : Truth} (hT : T.WF) {s s' : Store} (a : Nat) (h : Inv T s)
    (hr : removeByActor s a = some s')
    (hu : ∀ c ∈ s.tree, removable a c = true → ¬ Covered s.ranges c.seq) : Inv T s' := by
  obtain ⟨h1, h2, h3, _⟩ := removeByActor_spec a h.sorted hr
  refine ⟨h1 ▸ h.ranges, h2, fun c hc => h.cachedTruth c ((h3 c).mp hc).1, ?_⟩
  intro q c hq hc
  have hq' : Covered s.ranges q := h1 ▸ hq
  have hin := h.coveredCached q c hq' hc
  refine (h3 c).mpr ⟨hin, ?_⟩
  cases hrem : removable a c with
  | false => rfl
  | true =>
    have hseq : c.seq = q := hT q c hc
    exact absurd (hseq ▸ hq') (hu c hin hrem)

/-! ### a growing table: the write-through path of `CreateChangeInfos` -/

/-- the table after the rows `cs` have been written to the underlying store -/
def Truth.add (T : Truth) (cs : List Change) : Truth :=
  fun q => match cs.find? (fun c => c.seq == q) with
    | some c => some c
    | none => T q

theorem distinct_unique {cs : List Change} (h : cs.Pairwise (fun a b => a.seq ≠ b.seq)) {a b : Change}
    (ha : a ∈ cs) (hb : b ∈ cs) (he : a.seq = b.seq) : a = b := by
  induction cs with
  | nil => simp at ha
  | cons y ys ih =>
    have hy := List.pairwise_cons.mp h
    rcases List.mem_cons.mp ha with ha' | ha'
    · rcases List.mem_cons.mp hb with hb' | hb'
      · rw [ha', hb']
      · exact absurd (ha' ▸ he) (hy.1 b hb')
    · rcases List.mem_cons.mp hb with hb' | hb'
      · exact absurd (hb' ▸ he.symm) (hy.1 a ha')
      · exact ih hy.2 ha' hb'

theorem truth_add_old {T : Truth} {cs : List Change} (hf : ∀ c ∈ cs, T c.seq = none) {q : Nat} {c : Change}
    (h : T q = some c) : T.add cs q = some c := by
  unfold Truth.add
  cases hfind : cs.find? (fun c => c.seq == q) with
  | none => exact h
  | some d =>
    have hd := List.mem_of_find?_eq_some hfind
    have hq : d.seq = q := by simpa using List.find?_some hfind
    have := hf d hd
    rw [hq, h] at this; simp at this

theorem truth_add_cases {T : Truth} {cs : List Change} {q : Nat} {c : Change}
    (h : T.add cs q = some c) : T q = some c ∨ (c ∈ cs ∧ c.seq = q) := by
  unfold Truth.add at h
  cases hfind : cs.find? (fun c => c.seq == q) with
  | none => rw [hfind] at h; exact Or.inl h
  | some d =>
    rw [hfind] at h
    injection h with h
    subst h
    exact Or.inr ⟨List.mem_of_find?_eq_some hfind, by simpa using List.find?_some hfind⟩

theorem truth_add_new {T : Truth} {cs : List Change} (hd : cs.Pairwise (fun a b => a.seq ≠ b.seq))
    {c : Change} (hc : c ∈ cs) : T.add cs c.seq = some c := by
  unfold Truth.add
  cases hfind : cs.find? (fun x => x.seq == c.seq) with
  | none =>
    have := List.find?_eq_none.mp hfind c hc
    simp at this
  | some d =>
    have hd' := List.mem_of_find?_eq_some hfind
    have hq : d.seq = c.seq := by simpa using List.find?_some hfind
    simp only []
    rw [distinct_unique hd hd' hc hq]

theorem wf_add {T : Truth} (hT : T.WF) (cs : List Change) : (T.add cs).WF := by
  intro q c h
  rcases truth_add_cases h with h | h
  · exact hT q c h
  · exact h.2

/-- `CreateChangeInfos`: new rows are written to the table, inserted into the cache and the
    range of newly assigned sequence numbers is marked fetched – the invariant survives. -/
theorem inv_push {T : Truth} {s : Store} (h : Inv T s) (cs : List Change) (r : Range)
    (hd : cs.Pairwise (fun a b => a.seq ≠ b.seq))
    (hf : ∀ c ∈ cs, T c.seq = none)
    (hr : ∀ q, r.lo ≤ q → q ≤ r.hi → T q = none) :
    Inv (T.add cs) (expandRange (replaceOrInsert s cs) r) := by
  have hmem : ∀ x, x ∈ treeInsertAll s.tree cs ↔ x ∈ s.tree ∨ x ∈ cs :=
    mem_treeInsertAll cs (fun c => T.add cs c.seq = some c) truth_uniq h.sorted
      (fun c hc => truth_add_old hf (h.cachedTruth c hc)) (fun c hc => truth_add_new hd hc)
  have h1 : Inv (T.add cs) (replaceOrInsert s cs) := by
    refine ⟨h.ranges, sorted_treeInsertAll cs h.sorted, ?_, ?_⟩
    · intro c hc
      rcases (hmem c).mp hc with hc | hc
      · exact truth_add_old hf (h.cachedTruth c hc)
      · exact truth_add_new hd hc
    · intro q c hq hc
      rcases truth_add_cases hc with hc | hc
      · exact (hmem c).mpr (Or.inl (h.coveredCached q c hq hc))
      · exact (hmem c).mpr (Or.inr hc.1)
  apply inv_expandRange h1
  intro q c hq1 hq2 hc
  rcases truth_add_cases hc with hc | hc
  · rw [hr q hq1 hq2] at hc; simp at hc
  · exact (hmem c).mpr (Or.inr hc.1)

end Yorkie.CS
