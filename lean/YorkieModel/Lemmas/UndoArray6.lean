/-
Lemmas for C14, part 15: depth k, the stacks.  The identities stacked `Add`s wait for (`addIds`), the
stack entries that recorded operations have become under a renaming (`stackOf ρ`), what `push` and
`ReconcileCreatedAt` do to them, and the history machine on a single popped entry.
-/
import YorkieModel.Lemmas.UndoArray5
namespace Yorkie.Undo
open Yorkie Yorkie.Crdt

/-! ### stacks -/

def addIds (rs : List UOp) : List Ticket := rs.filterMap addId?

/-- the stack entries that the recorded operations `rs` have become -/
def stackOf (ρ : Ticket → Ticket) (rs : List UOp) : List (List UOp) := rs.map (fun r => [fullRen ρ r])

theorem addIds_cons_add (p prev : Ticket) (v : UVal) (ts : Ticket) (rs : List UOp) :
    addIds (.add p prev v ts :: rs) = v.id :: addIds rs := rfl

theorem addIds_cons_remove (p u ts : Ticket) (rs : List UOp) : addIds (.remove p u ts :: rs) = addIds rs := rfl

theorem addIds_dropLast_sublist (rs : List UOp) : (addIds rs.dropLast).Sublist (addIds rs) :=
  List.Sublist.filterMap _ (List.dropLast_sublist rs)

theorem mem_addIds {rs : List UOp} {a : Ticket} : a ∈ addIds rs ↔ ∃ r ∈ rs, addId? r = some a := by
  unfold addIds; exact List.mem_filterMap

theorem stackOf_cons (ρ : Ticket → Ticket) (r : UOp) (rs : List UOp) :
    stackOf ρ (r :: rs) = [fullRen ρ r] :: stackOf ρ rs := rfl

theorem stackOf_length (ρ : Ticket → Ticket) (rs : List UOp) : (stackOf ρ rs).length = rs.length := by
  simp [stackOf]

/-- what `push` keeps of a stack that starts with recorded entries -/
theorem pushTail_stackOf (ρ : Ticket → Ticket) (rs : List UOp) (rest : List (List UOp)) :
    ∃ rs2 rest2, pushTail (stackOf ρ rs ++ rest) = stackOf ρ rs2 ++ rest2 ∧
      (rs2 = rs ∨ (rs2 = rs.dropLast ∧ maxDepth ≤ rs.length)) := by
  unfold pushTail
  split
  · rename_i hlen
    by_cases hr : rest = []
    · subst hr
      refine ⟨rs.dropLast, [], ?_, Or.inr ⟨rfl, ?_⟩⟩
      · simp [stackOf, List.map_dropLast]
      · simpa [stackOf_length] using hlen
    · exact ⟨rs, rest.dropLast, List.dropLast_append_of_ne_nil hr, Or.inl rfl⟩
  · exact ⟨rs, rest, rfl, Or.inl rfl⟩

theorem reconcileStack_stackOf {ρ ρ' : Ticket → Ticket} {a b : Ticket} {rs : List UOp} (rest : List (List UOp))
    (h : ∀ r ∈ rs, reconcileOp a b (fullRen ρ r) = fullRen ρ' r) :
    reconcileStack a b (stackOf ρ rs ++ rest) = stackOf ρ' rs ++ reconcileStack a b rest := by
  rw [reconcileStack_eq]
  unfold stackOf
  rw [List.map_append, List.map_map]
  congr 1
  apply List.map_congr_left
  intro r hr
  simp [h r hr]

theorem skel_of_arr {d : Doc} {p : Ticket} {l : List Ticket} (h : absNode d p = some (.arr l)) :
    skel d p = some false := by
  obtain ⟨pe, nodes, moved, hd, hr, hb, _⟩ := absNode_arr h
  exact skel_some.2 ⟨pe, hd, by simp [hb, leafBody], hr⟩

/-! ### the history machine on one popped entry -/

theorem undo_of_stack {g : Hist} {r q : UOp} {rest : List (List UOp)} {d' : Doc} (hu : g.undo = [r] :: rest)
    (hp : r.plain = true) (he : uexecute g.doc noTw .undoRedo (r.withTs g.next) = .ok (d', some q)) :
    (undo g).doc = d' ∧ (undo g).tw = g.tw ∧ (undo g).lamport = g.lamport + 1 ∧ (undo g).undo = rest ∧
    (undo g).redo = [q] :: pushTail g.redo := by
  rw [undo_one hu hp he]
  exact ⟨rfl, rfl, rfl, rfl, push_eq _ _⟩

theorem undo_of_stack_add {g : Hist} {p pv ts0 : Ticket} {cv : UVal} {q : UOp} {rest : List (List UOp)} {d' : Doc}
    (hu : g.undo = [.add p pv cv ts0] :: rest)
    (he : uexecute g.doc noTw .undoRedo (.add p pv (cv.reid g.next) g.next) = .ok (d', some q)) :
    (undo g).doc = d' ∧ (undo g).tw = g.tw ∧ (undo g).lamport = g.lamport + 1 ∧
    (undo g).undo = reconcileStack cv.id g.next rest ∧
    (undo g).redo = [q] :: pushTail (reconcileStack cv.id g.next g.redo) := by
  rw [undo_add_entry hu he]
  exact ⟨rfl, rfl, rfl, rfl, push_eq _ _⟩

theorem length_after_push {rs rs2 : List UOp} {q : UOp}
    (h : rs2 = rs ∨ (rs2 = rs.dropLast ∧ maxDepth ≤ rs.length)) :
    (q :: rs2).length = rs.length + 1 ∨ maxDepth ≤ (q :: rs2).length := by
  rcases h with rfl | ⟨rfl, h⟩
  · left; rfl
  · right
    have := maxDepth_pos
    simp only [List.length_cons, List.length_dropLast]; omega

end Yorkie.Undo
