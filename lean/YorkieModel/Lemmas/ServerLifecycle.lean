/-
Helper lemmas for C11: writers hold the document (`writes_core`), inversion of `Deactivate`.
-/
import YorkieModel.Lemmas.ServerWrites
import YorkieModel.Lemmas.ServerVV
namespace Yorkie.Server
open Yorkie

def clientActive (s : Server) (c : ClientId) : Prop := ∃ i, s.findClient c = some i ∧ i.activated = true

/-- the request comes from an activated client that holds document `d` (stored status attached
or attaching) – or is the `Attach` through which the client starts holding it -/
def WriterHolds (s : Server) : Request → DocId → Prop
  | .activate, _ => False
  | .deactivate c _, d => clientActive s c ∧ holds s c d = true
  | .attach c key _ dp _, d => clientActive s c ∧ d = (findOrCreateDoc s key dp).2
  | .pushpull c d' _ _ _, d => d' = d ∧ clientActive s c ∧ holds s c d = true
  | .detach c d' _, d => d' = d ∧ clientActive s c ∧ holds s c d = true
  | .remove c d' _, d => d' = d ∧ clientActive s c ∧ holds s c d = true

/-- side condition of the partial theorem (decidable): a Detach/Remove request comes from a holder -/
def detachFromHolder (s : Server) : Request → Bool
  | .detach c d _ => holds s c d
  | .remove c d _ => holds s c d
  | _ => true

abbrev DetachFromHolder (s : Server) (req : Request) : Prop := detachFromHolder s req = true

theorem holds_of_statusOf {s : Server} {c : ClientId} {d : DocId} {info : Client}
    (hi : s.findClient c = some info)
    (h : info.statusOf d = some .attached ∨ info.statusOf d = some .attaching) : holds s c d = true := by
  simp only [holds, entryOf_findClient hi]
  rcases h with h | h <;> obtain ⟨cd, hcd, hs⟩ := statusOf_some h <;> simp [hcd, isOpenSt, hs]

theorem writes_core (s : Server) (hw : WF s) (req : Request) (d : DocId)
    (hsafe : s.cfg.detachGuardFirst = true ∨ DetachFromHolder s req)
    (hwr : ¬ SameDoc s (step s req).1 d) : WriterHolds s req d := by
  cases req with
  | activate => exact absurd (SameDoc.of_docs rfl d) hwr
  | deactivate c order =>
    simp only [step] at hwr
    unfold deactivate at hwr
    split at hwr
    · exact absurd (SameDoc.refl s d) hwr
    · next info hi =>
      obtain ⟨hcl, hact⟩ := findActiveClient_ok hi
      split at hwr
      · exact absurd (SameDoc.refl s d) hwr
      · by_cases hm : d ∈ openDocs info order
        · refine ⟨⟨info, hcl, hact⟩, ?_⟩
          have := mem_openDocs hm
          simp only [isOpenAt] at this
          simp only [holds, entryOf_findClient hcl]
          cases hg : info.docs.get? d with
          | none => rw [hg] at this; simp at this
          | some cd => rw [hg] at this; simpa [isOpenSt] using this
        · exfalso
          have h1 := clusterDetachAll_sameDoc c s (openDocs info order) d hm
          split at hwr
          · next s' e hx => rw [hx] at h1; exact hwr h1
          · next s' _ hx =>
            rw [hx] at h1
            exact hwr (h1.trans (SameDoc.of_docs (dbDeactivate_docs s' c) d))
  | attach c key pack dp nogc =>
    simp only [step] at hwr
    generalize ha : attach s c key pack dp nogc = res at hwr
    obtain ⟨s', out⟩ := res
    rcases attach_inv ha with ⟨e1, _⟩ | ⟨info, hi, hact, haw⟩
    · exact absurd (show SameDoc s s' d by rw [e1]; exact SameDoc.refl s d) hwr
    · refine ⟨⟨info, hi, hact⟩, ?_⟩
      by_cases hne : d = (findOrCreateDoc s key dp).2
      · exact hne
      exfalso
      apply hwr
      refine (findOrCreateDoc_sameDoc s hw key dp d).trans ?_
      rcases attachWith_inv haw with ⟨_, e1, _⟩ | ⟨doc, _, hcase⟩
      · rw [e1]; exact SameDoc.refl _ d
      · rcases hcase with ⟨e, hca, _⟩ | ⟨s2, info2, hca, hpp⟩
        · exact SameDoc.of_docs (clientsAttach_docs' hca) d
        · refine (SameDoc.of_docs (clientsAttach_docs' hca) d).trans ?_
          obtain ⟨l, hl⟩ := clientsAttach_findClient hca (by rw [findOrCreateDoc_findClient]; exact hi)
          rcases hpp with ⟨f', hpp, _⟩ | ⟨e, hpp, _⟩
          · exact pushPull_sameDoc hpp (by simpa using hl) d (by simpa using hne)
          · exact pushPull_sameDoc hpp (by simpa using hl) d (by simpa using hne)
  | pushpull c d' pack po nogc =>
    simp only [step] at hwr
    generalize ha : pushpullReq s c d' pack po nogc = res at hwr
    obtain ⟨s', out⟩ := res
    rcases pushpullReq_inv ha with ⟨e1, _⟩ | ⟨info, doc, hi, hact, hst, _, hf⟩
    · exact absurd (show SameDoc s s' d by rw [e1]; exact SameDoc.refl s d) hwr
    · obtain ⟨x, hx⟩ := finish_inv hf
      by_cases hd : d = d'
      · subst hd; exact ⟨rfl, ⟨info, hi, hact⟩, holds_of_statusOf hi (Or.inl hst)⟩
      · exact absurd (pushPull_sameDoc hx (by simpa using hi) d (by simpa using hd)) hwr
  | detach c d' pack =>
    simp only [step] at hwr
    generalize ha : detach s c d' pack = res at hwr
    obtain ⟨s', out⟩ := res
    rcases detach_inv ha with ⟨e1, _⟩ | ⟨info, doc, hi, hact, hguard, _, hf⟩
    · exact absurd (show SameDoc s s' d by rw [e1]; exact SameDoc.refl s d) hwr
    · obtain ⟨x, hx⟩ := finish_inv hf
      by_cases hd : d = d'
      · subst hd
        refine ⟨rfl, ⟨info, hi, hact⟩, ?_⟩
        rcases hsafe with hg | hh
        · exact holds_of_statusOf hi (detachGuard_ok hguard hg)
        · exact hh
      · exact absurd (pushPull_sameDoc hx (by simpa using hi) d (by simpa using hd)) hwr
  | remove c d' pack =>
    simp only [step] at hwr
    generalize ha : remove s c d' pack = res at hwr
    obtain ⟨s', out⟩ := res
    rcases remove_inv ha with ⟨e1, _⟩ | ⟨info, doc, hi, hact, hguard, _, hf⟩
    · exact absurd (show SameDoc s s' d by rw [e1]; exact SameDoc.refl s d) hwr
    · obtain ⟨x, hx⟩ := finish_inv hf
      by_cases hd : d = d'
      · subst hd
        refine ⟨rfl, ⟨info, hi, hact⟩, ?_⟩
        rcases hsafe with hg | hh
        · exact holds_of_statusOf hi (detachGuard_ok hguard hg)
        · exact hh
      · exact absurd (pushPull_sameDoc hx (by simpa using hi) d (by simpa using hd)) hwr

theorem isOpenAt_false_of_none_open (i : Client) (h : (i.docs.map (·.1)).any (isOpenAt i) = false) (d : DocId) :
    isOpenAt i d = false := by
  cases hg : i.docs.get? d with
  | none => simp [isOpenAt, hg]
  | some cd =>
    have hm : d ∈ i.docs.map (·.1) := List.mem_map_of_mem (f := (·.1)) (AL.mem_of_get? hg)
    rw [List.any_eq_false] at h
    simpa using h d hm

theorem deactivate_ok {s s' : Server} {c : ClientId} {order : List DocId} {r : Resp}
    (h : deactivate s c order = (s', .ok r)) : ∃ s2, dbDeactivate s2 c = (s', .ok r) := by
  unfold deactivate at h
  split at h
  · injection h with _ h2; simp at h2
  · split at h
    · injection h with _ h2; simp at h2
    · split at h
      · injection h with _ h2; simp at h2
      · next s2 _ _ => exact ⟨s2, h⟩

theorem dbDeactivate_ok {s s' : Server} {c : ClientId} {r : Resp} (h : dbDeactivate s c = (s', .ok r)) :
    ∃ i, s.findClient c = some i ∧ (i.docs.map (·.1)).any (isOpenAt i) = false ∧
      s' = s.setClient c { i with activated := false } := by
  unfold dbDeactivate at h
  split at h
  · injection h with _ h2; simp at h2
  · next i hi =>
    split at h
    · injection h with _ h2; simp at h2
    · split at h
      · injection h with _ h2; simp at h2
      · next hnone =>
        injection h with h1 _
        exact ⟨i, hi, by simpa using hnone, h1.symm⟩


/-! ### error kinds -/

/-- errors that report a lifecycle violation (client / attachment state), as opposed to errors
about the content of the pack -/
def isLifecycleErr : ErrKind → Bool
  | .clientNotFound | .clientNotActivated | .documentNotAttached | .documentNeverAttached
  | .documentAlreadyAttached | .documentAlreadyDetached => true
  | _ => false

theorem pushGuard_error_kind {s : Server} {f : Flight} {e : ErrKind} (h : pushGuard s f = .error e) :
    e = .documentNotFound ∨ e = .invalidServerSeq := by
  unfold pushGuard at h
  split at h
  · split at h
    · injection h with h; exact Or.inl h.symm
    · split at h
      · simp at h
      · split at h
        · injection h with h; exact Or.inr h.symm
        · split at h <;> simp at h
  · simp at h

theorem pullPackResp_error_kind {s : Server} {f : Flight} {e : ErrKind} (h : pullPackResp s f = .error e) :
    e = .epochMismatch ∨ e = .invalidServerSeq := by
  unfold pullPackResp at h
  split at h
  · simp at h
  · next e' he' =>
    split at h
    · simp at h
    · injection h with h; subst h
      unfold preparePackCore at he'
      split at he'
      · injection he' with he'; exact Or.inl he'.symm
      · split at he'
        · simp at he'
        · split at he'
          · injection he' with he'; exact Or.inl he'.symm
          · split at he'
            · injection he' with he'; exact Or.inr he'.symm
            · split at he' <;> simp at he'

/-- a failing `PushPull` reports a pack-level error unless `UpdateDocStatus` rejected -/
theorem pushPull_error_kind {s s' : Server} {f : Flight} {e : ErrKind} {loaded : Client}
    (h : pushPull s f = (s', .error e)) (hc : s.findClient f.client = some loaded) :
    isLifecycleErr e = false ∨ ∃ cp, f.info.updateDocStatus f.doc f.status cp = .error e := by
  unfold pushPull at h
  rcases andThen_cases h with ⟨e7, h, he7⟩ | ⟨s6, f6, h, h7⟩
  rotate_left
  · -- persist cannot fail (shown in `pushPull_error`): re-derive through that lemma
    exfalso
    have := persistClientInfo_error h7
    obtain ⟨s5, f5, h, h6⟩ := andThen_ok h
    obtain ⟨s4, f4, h, h5⟩ := andThen_ok h
    obtain ⟨s3, f3, h, h4⟩ := andThen_ok h
    obtain ⟨s2, f2, h, h3⟩ := andThen_ok h
    obtain ⟨s1, f1, h1, h2⟩ := andThen_ok h
    obtain ⟨e1, e2, _⟩ := validateClientSeq_ok h1
    subst e1; subst e2
    rw [stripPresence_eq] at h2
    injection h2 with e1 e2; injection e2 with e2
    subst e1; subst e2
    obtain ⟨doc, pushables, hd, hg, e1, e2⟩ := pushPack_ok h3
    subst e1; subst e2
    obtain ⟨e1, r, hr, e2⟩ := preparePack_ok h4
    subst e1; subst e2
    obtain ⟨e1, i, hi, e2⟩ := updateDocStatus_ok h5
    subst e1; subst e2
    obtain ⟨e2, hv⟩ := updateMinVV_ok h6
    subst e2
    obtain ⟨_, hp⟩ := this
    simp only [minVVFlight_info, minVVFlight_doc, minVVFlight_client] at hp
    rcases hp with hp | hp
    · obtain ⟨cd, hcd⟩ := updateDocStatus_entry hi
      simp only [pushedFlight, stripped_doc] at hp hcd
      rw [hcd] at hp; simp at hp
    · have hcl : s6.clients = s1.clients := by
        rcases hv with ⟨_, hv⟩ | ⟨_, hv⟩
        · rw [hv]; rfl
        · rw [updateVersionVector_clients hv]; rfl
      simp only [pushedFlight, stripped_client, Server.findClient] at hp hc
      rw [hcl, hc] at hp; simp at hp
  injection he7 with he7; subst he7
  rcases andThen_cases h with ⟨e6, h, he6⟩ | ⟨s5, f5, h, h6⟩
  rotate_left
  · exfalso
    obtain ⟨s4, f4, h, h5⟩ := andThen_ok h
    obtain ⟨e1, i, hi, e2⟩ := updateDocStatus_ok h5
    subst e1; subst e2
    obtain ⟨_, e', he'⟩ := updateMinVV_error h6
    obtain ⟨cd, hcd⟩ := updateDocStatus_entry hi
    simp only [Client.isAttached, hcd] at he'
    simp at he'
  injection he6 with he6; subst he6
  rcases andThen_cases h with ⟨e5, h, he5⟩ | ⟨s4, f4, h, h5⟩
  rotate_left
  · -- updateDocStatus fails
    obtain ⟨s3, f3, h, h4⟩ := andThen_ok h
    obtain ⟨s2, f2, h, h3⟩ := andThen_ok h
    obtain ⟨s1, f1, h1, h2⟩ := andThen_ok h
    obtain ⟨e1, e2, _⟩ := validateClientSeq_ok h1
    subst e1; subst e2
    rw [stripPresence_eq] at h2
    injection h2 with e1 e2; injection e2 with e2
    subst e1; subst e2
    obtain ⟨doc, pushables, hd, hg, e1, e2⟩ := pushPack_ok h3
    subst e2
    obtain ⟨e3, r, hr, e2⟩ := preparePack_ok h4
    subst e2
    refine Or.inr ⟨r.cp, ?_⟩
    unfold updateDocStatus at h5
    split at h5
    · next e' he' =>
      injection h5 with _ h5; injection h5 with h5; subst h5
      simpa [pushedFlight] using he'
    · injection h5 with _ h5; simp at h5
  injection he5 with he5; subst he5
  rcases andThen_cases h with ⟨e4, h, he4⟩ | ⟨s3, f3, h, h4⟩
  rotate_left
  · -- preparePack fails
    refine Or.inl ?_
    unfold preparePack at h4
    split at h4
    · next e' he' =>
      injection h4 with _ h4; injection h4 with h4; subst h4
      rcases pullPackResp_error_kind he' with h | h <;> rw [h] <;> rfl
    · injection h4 with _ h4; simp at h4
  injection he4 with he4; subst he4
  rcases andThen_cases h with ⟨e3, h, he3⟩ | ⟨s2, f2, h, h3⟩
  rotate_left
  · -- pushPack fails
    refine Or.inl ?_
    unfold pushPack at h3
    split at h3
    · next e' he' =>
      injection h3 with _ h3; injection h3 with h3; subst h3
      rcases pushGuard_error_kind he' with h | h <;> rw [h] <;> rfl
    · unfold createChangeInfos at h3
      split at h3
      · injection h3 with _ h3; injection h3 with h3; rw [← h3]; rfl
      · dsimp only at h3; injection h3 with _ h3; simp at h3
  injection he3 with he3; subst he3
  rcases andThen_cases h with ⟨e2, h, he2⟩ | ⟨s1, f1, h1, h2⟩
  · refine Or.inl ?_
    unfold validateClientSeq at h
    split at h
    · injection h with _ h; simp at h
    · injection h with _ h; injection h with h
      injection he2 with he2
      rw [he2, ← h]; rfl
  · rw [stripPresence_eq] at h2; injection h2 with _ h2; simp at h2

/-- `UpdateDocStatus` cannot fail on an entry that exists (attached request) / is open (detach, remove) -/
theorem updateDocStatus_no_error {i : Client} {d : DocId} {st : ReqStatus} {cp : Checkpoint} {cd : ClientDoc}
    (ha : i.activated = true) (hcd : i.docs.get? d = some cd)
    (ho : st ≠ .attached → isOpenSt cd.status = true) : ∃ i', i.updateDocStatus d st cp = .ok i' := by
  have hens : st ≠ .attached → i.ensureAttachedOrAttaching d = .ok () := by
    intro hne
    have := ho hne
    simp only [isOpenSt, Bool.or_eq_true, beq_iff_eq] at this
    unfold Client.ensureAttachedOrAttaching
    simp only [ha, Bool.not_true, Bool.false_eq_true, if_false, statusOf_of_get? hcd]
    rcases this with h | h <;> simp [h]
  cases st with
  | attached =>
    refine ⟨{ i with docs := i.docs.set d { cd with serverSeq := cp.serverSeq, clientSeq := cp.clientSeq } }, ?_⟩
    simp [Client.updateDocStatus, Client.updateCheckpoint, hcd]
  | detached =>
    refine ⟨i.closeDoc d .detached, ?_⟩
    simp [Client.updateDocStatus, Client.detachDocument, hens (by simp)]
  | removed =>
    refine ⟨i.closeDoc d .removed, ?_⟩
    simp [Client.updateDocStatus, Client.removeDocument, hens (by simp)]


/-! ### rejections before the store is touched -/

theorem reject_client {s : Server} {c : ClientId} {e : ErrKind} (h : s.findActiveClient c = .error e) :
    (∀ key p dp g, attach s c key p dp g = (s, .error e)) ∧
    (∀ d p po g, pushpullReq s c d p po g = (s, .error e)) ∧
    (∀ d p, detach s c d p = (s, .error e)) ∧ (∀ d p, remove s c d p = (s, .error e)) ∧
    (∀ order, deactivate s c order = (s, .error e)) := by
  refine ⟨?_, ?_, ?_, ?_, ?_⟩ <;> intros <;> simp [attach, pushpullReq, detach, remove, deactivate, h]

theorem findActiveClient_of {s : Server} {c : ClientId} {i : Client} (h : s.findClient c = some i)
    (ha : i.activated = true) : s.findActiveClient c = .ok i := by
  simp [Server.findActiveClient, h, ha]

theorem pushpull_reject_doc {s : Server} {c : ClientId} {d : DocId} {i : Client} (h : s.findClient c = some i)
    (ha : i.activated = true) (hs : i.statusOf d ≠ some .attached) (p : Pack) (po g : Bool) :
    pushpullReq s c d p po g = (s, .error .documentNotAttached) := by
  have : i.ensureAttached d = .error .documentNotAttached := by
    unfold Client.ensureAttached
    simp only [ha, Bool.not_true, Bool.false_eq_true, if_false]
    rw [if_neg (by simpa using hs)]
  simp [pushpullReq, findActiveClient_of h ha, this]

theorem ensureAttachedOrAttaching_reject {i : Client} {d : DocId} (ha : i.activated = true)
    (hs : ¬ (i.statusOf d = some .attached ∨ i.statusOf d = some .attaching)) :
    i.ensureAttachedOrAttaching d = .error .documentNotAttached := by
  unfold Client.ensureAttachedOrAttaching
  simp only [ha, Bool.not_true, Bool.false_eq_true, if_false]
  rw [if_neg (by simpa using hs)]

theorem detach_reject_doc {s : Server} {c : ClientId} {d : DocId} {i : Client} (h : s.findClient c = some i)
    (ha : i.activated = true) (hg : s.cfg.detachGuardFirst = true)
    (hs : ¬ (i.statusOf d = some .attached ∨ i.statusOf d = some .attaching)) (p : Pack) :
    detach s c d p = (s, .error .documentNotAttached) ∧ remove s c d p = (s, .error .documentNotAttached) := by
  have : detachGuard s i d = .error .documentNotAttached := by
    simp [detachGuard, hg, ensureAttachedOrAttaching_reject ha hs]
  constructor <;> simp [detach, remove, findActiveClient_of h ha, this]

theorem findOrCreateDoc_exists (s : Server) (key : Nat) (dp : Bool) :
    ∃ doc, (findOrCreateDoc s key dp).1.findDoc (findOrCreateDoc s key dp).2 = some doc := by
  unfold findOrCreateDoc
  split
  · next d hk =>
    simp only [Server.findDocIdByKey] at hk
    have hm := List.mem_of_getLast? hk
    simp only [List.mem_filter, Server.keyMatches] at hm
    cases hd : s.findDoc d with
    | none => rw [hd] at hm; simp at hm
    | some x => exact ⟨x, rfl⟩
  · refine ⟨freshDoc key dp, ?_⟩
    simp [Server.findDoc, AL.get?_set_self, freshDoc]

/-- Attach on a document the client already has attached: `TryAttaching` answers `ErrClientNotFound` -/
theorem attach_reject_attached {s : Server} {c : ClientId} {i : Client} (h : s.findClient c = some i)
    (ha : i.activated = true) (key : Nat) (p : Pack) (dp g : Bool)
    (hs : i.statusOf (findOrCreateDoc s key dp).2 = some .attached) :
    (attach s c key p dp g).2 = .error .clientNotFound ∧ (attach s c key p dp g).1.clients = s.clients := by
  obtain ⟨doc, hdoc⟩ := findOrCreateDoc_exists s key dp
  have hc1 : (findOrCreateDoc s key dp).1.findClient c = some i := by rw [findOrCreateDoc_findClient]; exact h
  have h1 : i.isAlreadyDetached (findOrCreateDoc s key dp).2 (p.cp.serverSeq != 0) = false := by
    simp [Client.isAlreadyDetached, hs]
  have h2 : i.isAttaching (findOrCreateDoc s key dp).2 = false := by simp [Client.isAttaching, hs]
  have h3 : tryAttaching (findOrCreateDoc s key dp).1 c (findOrCreateDoc s key dp).2
      = ((findOrCreateDoc s key dp).1, .error .clientNotFound) := by
    simp [tryAttaching, hc1, ha, hs]
  simp [attach, findActiveClient_of h ha, attachWith, hdoc, clientsAttach, h1, attachingStep, h2, h3,
    (findOrCreateDoc_clients s key dp).1]

/-- Attach of a detached document with the old Document instance (checkpoint serverSeq ≠ 0) -/
theorem attach_reject_detached {s : Server} {c : ClientId} {i : Client} (h : s.findClient c = some i)
    (ha : i.activated = true) (key : Nat) (p : Pack) (dp g : Bool)
    (hs : i.statusOf (findOrCreateDoc s key dp).2 = some .detached) (hcp : (p.cp.serverSeq != 0) = true) :
    (attach s c key p dp g).2 = .error .documentAlreadyDetached ∧ (attach s c key p dp g).1.clients = s.clients := by
  obtain ⟨doc, hdoc⟩ := findOrCreateDoc_exists s key dp
  have h1 : i.isAlreadyDetached (findOrCreateDoc s key dp).2 (p.cp.serverSeq != 0) = true := by
    simp [Client.isAlreadyDetached, hs, hcp]
  simp [attach, findActiveClient_of h ha, attachWith, hdoc, clientsAttach, h1, (findOrCreateDoc_clients s key dp).1]

/-- in every state the automaton allows, `clients.AttachDocument` succeeds -/
theorem clientsAttach_allowed {s : Server} {c : ClientId} {i : Client} {d : DocId} (h : s.findClient c = some i)
    (ha : i.activated = true) (e : Int) (b : Bool)
    (hs : i.statusOf d ≠ some .attached) (hd : ¬ (i.statusOf d = some .detached ∧ b = true)) :
    ∃ s2 info2, clientsAttach s c i d e b = (s2, .ok info2) := by
  have h1 : i.isAlreadyDetached d b = false := by
    simp only [Client.isAlreadyDetached]
    cases b with
    | false => simp
    | true => simp only [Bool.true_and, beq_eq_false_iff_ne, ne_eq]; exact fun hx => hd ⟨hx, rfl⟩
  by_cases h2 : i.isAttaching d = true
  · have hst : i.statusOf d = some .attaching := by simpa [Client.isAttaching] using h2
    have : i.attachDocument d b e = .ok { i with docs := i.docs.set d (attachedEntry i d e) } := by
      simp [Client.attachDocument, ha, h1, hst, attachedEntry]
    refine ⟨s, { i with docs := i.docs.set d (attachedEntry i d e) }, ?_⟩
    simp [clientsAttach, h1, attachingStep, h2, this]
  · have h3 : tryAttaching s c d = (s.setClient c (i.markAttaching d), .ok (i.markAttaching d)) := by
      simp only [tryAttaching, h, ha, Bool.not_true, Bool.false_eq_true, if_false]
      rw [if_neg (by simpa using hs)]
    have hst : (i.markAttaching d).statusOf d = some .attaching := by
      simp [Client.statusOf, Client.markAttaching, AL.get?_set_self]
    have ha' : (i.markAttaching d).activated = true := ha
    have h1' : (i.markAttaching d).isAlreadyDetached d b = false := by
      simp [Client.isAlreadyDetached, hst]
    have : (i.markAttaching d).attachDocument d b e
        = .ok { (i.markAttaching d) with docs := (i.markAttaching d).docs.set d (attachedEntry (i.markAttaching d) d e) } := by
      unfold Client.attachDocument
      simp only [ha', h1', hst, Bool.not_true, Bool.false_eq_true, if_false]
      simp [attachedEntry]
    refine ⟨s.setClient c (i.markAttaching d),
      { (i.markAttaching d) with docs := (i.markAttaching d).docs.set d (attachedEntry (i.markAttaching d) d e) }, ?_⟩
    simp [clientsAttach, h1, attachingStep, h2, h3, this]

end Yorkie.Server
