/- `Ticket.after` is a strict total order. -/
import YorkieModel.Model.Time
namespace Yorkie
namespace Ticket

/-- `omega` does not look through the `Actor := Nat` abbreviation -/
local macro "tomega" : tactic => `(tactic| ((try unfold Actor at *); omega))

/-- `after` spelled out lexicographically: lamport, then actor, then delimiter. -/
theorem after_iff (a b : Ticket) :
    a.after b = true ↔
      (a.lamport > b.lamport ∨ (a.lamport = b.lamport ∧
        (a.actor > b.actor ∨ (a.actor = b.actor ∧ a.delim > b.delim)))) := by
  unfold after cmp
  repeat' split
  all_goals simp
  all_goals tomega

theorem eq_iff (a b : Ticket) :
    a = b ↔ a.lamport = b.lamport ∧ a.actor = b.actor ∧ a.delim = b.delim := by
  cases a; cases b; simp; tomega

theorem after_irrefl (a : Ticket) : a.after a = false := by
  cases h : a.after a
  · rfl
  · rw [after_iff] at h; tomega

theorem after_asymm {a b : Ticket} (h : a.after b = true) : b.after a = false := by
  cases h' : b.after a
  · rfl
  · rw [after_iff] at h h'; tomega

theorem after_trans {a b c : Ticket} (h₁ : a.after b = true) (h₂ : b.after c = true) :
    a.after c = true := by
  rw [after_iff] at *; tomega

theorem after_total {a b : Ticket} (h : a ≠ b) : a.after b = true ∨ b.after a = true := by
  rw [Ne, eq_iff] at h
  rw [after_iff, after_iff]; tomega

theorem after_ne {a b : Ticket} (h : a.after b = true) : a ≠ b := by
  intro e; subst e; rw [after_irrefl] at h; cases h

theorem after_false_of_after {a b : Ticket} (h : a.after b = true) : b.after a = false :=
  after_asymm h

/-- trichotomy in the form used by the skip rule: "not after" means "equal or before". -/
theorem not_after_iff {a b : Ticket} : a.after b = false ↔ (a = b ∨ b.after a = true) := by
  constructor
  · intro h
    by_cases e : a = b
    · exact Or.inl e
    · rcases after_total e with h' | h'
      · rw [h] at h'; cases h'
      · exact Or.inr h'
  · rintro (e | h)
    · subst e; exact after_irrefl a
    · exact after_asymm h

theorem after_of_not_after {a b : Ticket} (hne : a ≠ b) (h : a.after b = false) :
    b.after a = true := by
  rcases not_after_iff.1 h with e | h'
  · exact absurd e hne
  · exact h'

/-- for distinct tickets exactly one direction holds -/
theorem after_eq_not_after {a b : Ticket} (hne : a ≠ b) : a.after b = !(b.after a) := by
  cases h : b.after a
  · simp [after_of_not_after (Ne.symm hne) h]
  · simp [after_asymm h]

/-- `a > b` and `¬ c > b` give `a > c` -/
theorem after_of_after_of_not_after {a b c : Ticket} (h₁ : a.after b = true)
    (h₂ : c.after b = false) : a.after c = true := by
  rcases not_after_iff.1 h₂ with e | h
  · subst e; exact h₁
  · exact after_trans h₁ h

/-- `¬ a > b` and `b ≥ … ¬ b > c` : "≤" is transitive -/
theorem not_after_trans {a b c : Ticket} (h₁ : a.after b = false) (h₂ : b.after c = false) :
    a.after c = false := by
  cases h : a.after c
  · rfl
  · have := after_of_after_of_not_after h h₂
    rw [h₁] at this; cases this

/-- `¬ a > b` and `c > b` give `c > a` -/
theorem after_of_not_after_of_after {a b c : Ticket} (h₁ : a.after b = false)
    (h₂ : c.after b = true) : c.after a = true := by
  rcases not_after_iff.1 h₁ with e | h
  · subst e; exact h₂
  · exact after_trans h₂ h

end Ticket
end Yorkie
