/-
From single operations to calls and whole updaters: every operation `callOp` builds is enabled
(`callOp_pre`), `localCall` keeps `Inv` and `Dom`, and the operations of a whole updater execute
on the root without error and end in the clone's document.
-/
import YorkieModel.Lemmas.JsonArray2
import YorkieModel.Lemmas.JsonObject
namespace Yorkie.Json
open Yorkie Yorkie.Crdt

set_option linter.unusedSimpArgs false

/-- every operation the json layer pushes creates at most the ticket it was handed -/
theorem callOp_creates {d : Doc} {ts : Ticket} {c : Call} {op : Op}
    (h : callOp d ts c = .ok (some op)) : ∀ i ∈ creates op, i = ts := by
  cases c <;> simp only [callOp] at h
  case objSet o k v =>
    split at h
    · cases h; simp [creates]
    · cases h
  case objDelete o k =>
    split at h
    · simp only [Except.ok.injEq, objDeleteOp] at h
      split at h
      · cases h; simp [creates]
      · cases h
    · cases h
  case arrAdd a v =>
    split at h
    · cases h; simp [creates]
    · cases h
  case arrInsertAfter a i v =>
    split at h
    · simp only [arrInsertOp] at h
      split at h
      · cases h; simp [creates]
      · cases h
    · cases h
  case arrDelete a i =>
    split at h
    · simp only [Except.ok.injEq, arrDeleteOp] at h
      split at h
      · cases h; simp [creates]
      · cases h
    · cases h
  case arrMoveAfter a i j =>
    split at h
    · simp only [arrMoveAfterOp] at h
      split at h
      · cases h; simp [creates]
      · cases h
    · cases h
  case arrMoveFront a j =>
    split at h
    · simp only [arrMoveBeforeOp] at h
      split at h
      · split at h
        · cases h; simp [creates]
        · cases h
      · cases h
    · cases h
  case arrMoveLast a j =>
    split at h
    · simp only [arrMoveLastOp] at h
      split at h
      · cases h; simp [creates]
      · cases h
    · cases h
  case arrMoveBefore a i j =>
    split at h
    · simp only [arrMoveBeforeOp] at h
      split at h
      · split at h
        · cases h; simp [creates]
        · cases h
      · cases h
    · cases h
  case arrSet a i v =>
    split at h
    · simp only [arrSetOp] at h
      split at h
      · cases h; simp [creates]
      · cases h
    · cases h
  case cntIncrease c delta =>
    split at h
    · cases h; simp [creates]
    · cases h

/-- `callOps_pre`, per call: the operation pushed by ANY call kind is enabled on the state it is
    applied to, whenever its ticket is newer than the document -/
theorem callOp_pre {d : Doc} {ts : Ticket} {c : Call} {op : Op} (hi : Inv d) (hn : Newer d ts)
    (h : callOp d ts c = .ok (some op)) : Pre d op := by
  cases c <;> simp only [callOp] at h
  case objSet o k v =>
    split at h
    · rename_i p hob
      obtain ⟨keys, member⟩ := p
      cases h; exact (objSet_spec k v hi hn hob).1
    · cases h
  case objDelete o k =>
    split at h
    · rename_i keys member hob
      simp only [Except.ok.injEq, objDeleteOp] at h
      split at h
      · rename_i c hc
        cases h; exact (objDelete_spec hi hn hob hc).1
      · cases h
    · cases h
  case arrAdd a v =>
    split at h
    · rename_i nodes ha
      cases h; exact (add_spec v hi hn ha).1
    · cases h
  case arrInsertAfter a i v =>
    split at h
    · rename_i nodes ha
      simp only [arrInsertOp] at h
      split at h
      · rename_i prev hp
        cases h; exact (insertAfter_spec v hi hn ha hp).1
      · cases h
    · cases h
  case arrDelete a i =>
    split at h
    · rename_i nodes ha
      simp only [Except.ok.injEq, arrDeleteOp] at h
      split at h
      · rename_i t hp
        cases h; exact (delete_spec hi hn ha hp).1
      · cases h
    · cases h
  case arrMoveAfter a i j =>
    split at h
    · rename_i nodes ha
      simp only [arrMoveAfterOp] at h
      split at h
      · rename_i prev target hp ht
        cases h; exact (moveAfter_spec hi hn ha hp ht).1
      · cases h
    · cases h
  case arrMoveFront a j =>
    split at h
    · rename_i nodes ha
      simp only [arrMoveBeforeOp] at h
      split at h
      · rename_i next target hp ht
        obtain ⟨prev, hprev, hpre, _⟩ := moveBefore_spec hi hn ha hp ht
        rw [hprev] at h
        cases h; exact hpre
      · cases h
    · cases h
  case arrMoveLast a j =>
    split at h
    · rename_i nodes ha
      simp only [arrMoveLastOp] at h
      split at h
      · rename_i target ht
        cases h; exact (moveLast_spec hi hn ha ht).1
      · cases h
    · cases h
  case arrMoveBefore a i j =>
    split at h
    · rename_i nodes ha
      simp only [arrMoveBeforeOp] at h
      split at h
      · rename_i next target hp ht
        obtain ⟨prev, hprev, hpre, _⟩ := moveBefore_spec hi hn ha hp ht
        rw [hprev] at h
        cases h; exact hpre
      · cases h
    · cases h
  case arrSet a i v =>
    split at h
    · rename_i nodes ha
      simp only [arrSetOp] at h
      split at h
      · rename_i target ht
        cases h; exact (set_origin_spec v hi hn ha ht).1
      · cases h
    · cases h
  case cntIncrease c delta =>
    split at h
    · rename_i long v hc
      cases h; exact (increase_spec (ts := ts) delta hi hc).1
    · cases h

/-! ### calls -/

theorem callOps_some {d : Doc} {ctx : Ctx} {c : Call} {op : Op}
    (h : callOp d ctx.ticket c = .ok (some op)) : callOps d ctx c = .ok ([op], ctx.issue.2) := by
  unfold callOps; rw [h]; rfl

theorem callOps_none {d : Doc} {ctx : Ctx} {c : Call}
    (h : callOp d ctx.ticket c = .ok none) : callOps d ctx c = .ok ([], ctx) := by
  unfold callOps; rw [h]; rfl

theorem localCall_some {d : Doc} {ctx : Ctx} {c : Call} {op : Op}
    (h : callOp d ctx.ticket c = .ok (some op)) :
    localCall d ctx c = .ok ⟨apply d op, ctx.issue.2, [op]⟩ := by
  unfold localCall; rw [callOps_some h]; rfl

theorem localCall_none {d : Doc} {ctx : Ctx} {c : Call}
    (h : callOp d ctx.ticket c = .ok none) : localCall d ctx c = .ok ⟨d, ctx, []⟩ := by
  unfold localCall; rw [callOps_none h]; rfl

/-- the three possible outcomes of a call -/
theorem localCall_cases {d : Doc} {ctx : Ctx} {c : Call} {out : Out} (h : localCall d ctx c = .ok out) :
    (callOp d ctx.ticket c = .ok none ∧ out = ⟨d, ctx, []⟩) ∨
    (∃ op, callOp d ctx.ticket c = .ok (some op) ∧ out = ⟨apply d op, ctx.issue.2, [op]⟩) := by
  cases hc : callOp d ctx.ticket c with
  | error e =>
    unfold localCall callOps at h
    rw [hc] at h; cases h
  | ok o =>
    cases o with
    | none =>
      rw [localCall_none hc] at h
      exact Or.inl ⟨rfl, (Except.ok.inj h).symm⟩
    | some op =>
      rw [localCall_some hc] at h
      exact Or.inr ⟨op, rfl, (Except.ok.inj h).symm⟩

/-- sequence of enabled operations, each on the state its predecessors produced -/
def Enabled : Doc → List Op → Prop
  | _, [] => True
  | d, op :: r => Pre d op ∧ Enabled (apply d op) r

theorem Enabled.append {d : Doc} {xs ys : List Op} (h1 : Enabled d xs)
    (h2 : Enabled (applyOps d xs) ys) : Enabled d (xs ++ ys) := by
  induction xs generalizing d with
  | nil => exact h2
  | cons op r ih => exact ⟨h1.1, ih h1.2 h2⟩

/-- one call keeps the invariant and the domination, and pushes only enabled operations -/
theorem localCall_sound {d : Doc} {ctx : Ctx} {c : Call} {out : Out} (hi : Inv d) (hd : Dom ctx d)
    (h : localCall d ctx c = .ok out) :
    Inv out.doc ∧ Dom out.ctx out.doc ∧ Enabled d out.ops ∧ out.doc = applyOps d out.ops := by
  rcases localCall_cases h with ⟨_, rfl⟩ | ⟨op, hc, rfl⟩
  · exact ⟨hi, hd, trivial, rfl⟩
  · have hpre := callOp_pre hi hd.newer hc
    exact ⟨inv_apply hi hpre, hd.issue hpre (callOp_creates hc), ⟨hpre, trivial⟩, rfl⟩

theorem applyOps_append (d : Doc) (xs ys : List Op) :
    applyOps d (xs ++ ys) = applyOps (applyOps d xs) ys := by
  unfold applyOps; rw [List.foldl_append]

/-- a whole updater -/
theorem runCalls_sound {d : Doc} {ctx : Ctx} {calls : List Call} {out : Out} (hi : Inv d)
    (hd : Dom ctx d) (h : runCalls d ctx calls = .ok out) :
    Inv out.doc ∧ Dom out.ctx out.doc ∧ Enabled d out.ops ∧ out.doc = applyOps d out.ops := by
  induction calls generalizing d ctx out with
  | nil =>
    simp only [runCalls, Except.ok.injEq] at h
    subst h
    exact ⟨hi, hd, trivial, rfl⟩
  | cons c r ih =>
    simp only [runCalls] at h
    cases h1 : localCall d ctx c with
    | error e => rw [h1] at h; cases h
    | ok o =>
      rw [h1] at h
      simp only at h
      cases h2 : runCalls o.doc o.ctx r with
      | error e => rw [h2] at h; cases h
      | ok o' =>
        rw [h2] at h
        simp only [Except.ok.injEq] at h
        subst h
        obtain ⟨a1, a2, a3, a4⟩ := localCall_sound hi hd h1
        obtain ⟨b1, b2, b3, b4⟩ := ih a1 a2 h2
        refine ⟨b1, b2, ?_, ?_⟩
        · exact a3.append (a4 ▸ b3)
        · simp only; rw [applyOps_append, ← a4, ← b4]

/-- enabled operations execute without error, and `execAll` computes `applyOps` -/
theorem execAll_of_enabled {d : Doc} {ops : List Op} (h : Enabled d ops) :
    execAll d ops = .ok (applyOps d ops) := by
  induction ops generalizing d with
  | nil => rfl
  | cons op r ih =>
    obtain ⟨d', hd'⟩ := h.1.2.1
    have : apply d op = d' := by unfold apply; rw [hd']
    simp only [execAll, hd']
    rw [← this, ih h.2]
    rfl

end Yorkie.Json
