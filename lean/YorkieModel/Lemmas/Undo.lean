/-
Lemmas for C14 (undo/redo on a single replica): base facts about `Model/Undo.lean`.
Part 1: stack depth, `DeepCopy` of fresh values, agreement of `uexecute` with `execute`.
-/
import YorkieModel.Model.Undo
namespace Yorkie.Undo
open Yorkie Yorkie.Crdt

/-! ### stack depth -/
theorem push_keeps (s : List (List UOp)) (e : List UOp) (h : s.length < maxDepth) : push s e = e :: s := by
  unfold push; split
  · omega
  · rfl

theorem push_evicts_oldest (s : List (List UOp)) (e : List UOp) (h : s.length ≥ maxDepth) :
    push s e = e :: s.dropLast := by
  unfold push; simp [h]

theorem maxDepth_pos : 0 < maxDepth := by decide

theorem push_length_le (s : List (List UOp)) (e : List UOp) :
    (push s e).length ≤ max s.length maxDepth := by
  unfold push; split
  · have := maxDepth_pos
    simp only [List.length_cons, List.length_dropLast]; omega
  · simp only [List.length_cons]; omega

/-! ### fresh values and agreement with the plain executor -/

theorem copyBody_ofVal (look : Ticket → Option Elem) (f : Nat) (self : Ticket) (v : Val) :
    copyBody look f self v.body = (v.body, []) := by
  cases f with
  | zero => rfl
  | succ f => cases v <;> simp [Val.body, emptyObj, copyBody, arrCopy]

theorem instantiate_ofVal (d : Doc) (p : Ticket) (v : Val) (t : Ticket) (r : Bool) :
    instantiate d p (UVal.ofVal v t) r = d.set t ⟨some p, r, v.body⟩ := by
  simp [instantiate, UVal.ofVal, copyBody_ofVal, writeAll]

theorem map_fst_map {ε α β} (x : Except ε α) (r : β) :
    Except.map (fun q : α × β => q.1) (Except.map (fun a => (a, r)) x) = x := by
  cases x <;> rfl

theorem applySetU_ofVal (d : Doc) (p : Ticket) (k : String) (v : Val) (t : Ticket) :
    applySetU d p k (UVal.ofVal v t) t = applySet d p k v t := by
  unfold applySetU applySet
  simp only [instantiate_ofVal]
  rfl

theorem applyAddU_ofVal (d : Doc) (p prev : Ticket) (v : Val) (t : Ticket) :
    applyAddU d p prev (UVal.ofVal v t) t = applyAdd d p prev v t := by
  unfold applyAddU applyAdd
  simp only [instantiate_ofVal]
  rfl

theorem applyArraySetU_ofVal (d : Doc) (p target : Ticket) (v : Val) (t : Ticket) :
    applyArraySetU d p target (UVal.ofVal v t) t = applyArraySet d p target v t := by
  unfold applyArraySetU applyArraySet
  simp only [instantiate_ofVal]
  rfl

theorem prefixBefore_none (target : Ticket) : ∀ (nodes acc : List PosNode),
    prefixBefore target acc nodes = none → holds nodes target = false
  | [], _, _ => rfl
  | n :: r, acc, h => by
    simp only [prefixBefore] at h
    split at h
    · cases h
    · have := prefixBefore_none target r (n :: acc) h
      simp only [holds, List.any_cons, Bool.or_eq_false_iff] at this ⊢
      exact ⟨by simpa using ‹¬ n.elem = some target›, this⟩

theorem findPrev_none {d : Doc} {nodes : List PosNode} {target : Ticket}
    (h : findPrev d nodes target = none) : holds nodes target = false := by
  unfold findPrev at h
  cases hp : prefixBefore target [] nodes with
  | none => exact prefixBefore_none _ _ _ hp
  | some x => simp [hp] at h

theorem applySet_notObj {d : Doc} {p : Ticket} (h : isObj d p = false) (k : String) (v : Val) (t : Ticket) :
    applySet d p k v t = .error .notApplicable := by
  unfold isObj at h; unfold applySet
  cases hd : d p with
  | none => rfl
  | some pe =>
    simp only [hd] at h ⊢
    cases hb : pe.body <;> simp_all


theorem applyMove_notHolds {d : Doc} {p prev target ts : Ticket} {pe : Elem} {nodes moved}
    (hd : d p = some pe) (hb : pe.body = .arr nodes moved) (hh : holds nodes target = false) :
    applyMove d p prev target ts = .error .childNotFound := by
  unfold applyMove
  simp only [hd, hb]
  split
  · rfl
  · have : arrMove prev target ts ⟨nodes, moved⟩ = none := by
      unfold arrMove; simp only [hh]; split <;> simp
    simp [this]

theorem applyRemove_notHolds {d : Doc} {p target ts : Ticket} {pe : Elem} {nodes moved}
    (hd : d p = some pe) (hb : pe.body = .arr nodes moved) (hh : holds nodes target = false) :
    applyRemove d p target ts = .error .childNotFound := by
  unfold applyRemove
  simp [hd, hb, hh]


theorem uexecute_move_agrees (d : Doc) (tw) (src : Source) (p prev target ts : Ticket) :
    Except.map (·.1) (uexecute d tw src (.move p prev target ts)) = liftE (applyMove d p prev target ts) := by
  simp only [uexecute]
  split
  · cases hd : d p with
    | none => simp [applyMove, hd, liftE, Except.map]
    | some pe =>
      cases hb : pe.body with
      | arr nodes moved =>
        simp only []
        unfold reverseMove
        simp only [hd, hb]
        cases hf : findPrev d nodes target with
        | none => simp [applyMove_notHolds hd hb (findPrev_none hf), liftE, Except.map]
        | some x => simp only []; exact map_fst_map _ _
      | _ => simp [applyMove, hd, hb, liftE, Except.map]
  · exact map_fst_map _ _

theorem reverseRemove_error {d : Doc} {p target ts : Ticket} {e : Err}
    (h : reverseRemove d p target ts = .error e) : applyRemove d p target ts = .error e := by
  unfold reverseRemove at h
  split at h
  · cases h
  · split at h
    · rename_i pe hd
      split at h
      · rename_i nodes moved hb
        split at h
        · cases h
        · rename_i hf
          cases h
          exact applyRemove_notHolds hd hb (findPrev_none hf)
      · split at h <;> cases h
      · cases h
    · cases h

theorem reverseMove_error {d : Doc} {p prev target ts : Ticket} {e : Err}
    (h : reverseMove d p target ts = .error e) : applyMove d p prev target ts = .error e := by
  unfold reverseMove at h
  split at h
  · rename_i pe hd
    split at h
    · rename_i nodes moved hb
      split at h
      · cases h
      · rename_i hf
        cases h
        exact applyMove_notHolds hd hb (findPrev_none hf)
    · cases h
  · cases h

theorem uexecute_remove_agrees (d : Doc) (tw) (src : Source) (hs : src ≠ .undoRedo) (p target ts : Ticket) :
    Except.map (·.1) (uexecute d tw src (.remove p target ts)) = liftE (applyRemove d p target ts) := by
  simp only [uexecute]
  split
  · exact map_fst_map _ _
  · simp only [hs, decide_false, Bool.false_and, Bool.false_eq_true, if_false]
    split
    · cases hr : reverseRemove d p target ts with
      | error e => rw [reverseRemove_error hr]; rfl
      | ok r => exact map_fst_map _ _
    · exact map_fst_map _ _

theorem uexecute_agrees' (d : Doc) (tw : Ticket → Bool) (src : Source) (hs : src ≠ .undoRedo) (op : Op) :
    Except.map (·.1) (uexecute d tw src (UOp.ofOp op)) = liftE (execute d op) := by
  cases op with
  | set p k v t =>
    simp only [UOp.ofOp, uexecute, execute, hs, decide_false, Bool.false_and, Bool.false_eq_true, if_false]
    split
    · rename_i h
      rw [applySet_notObj (by simpa using h)]; rfl
    · rw [applySetU_ofVal]; exact map_fst_map _ _
  | add p prev v t =>
    simp only [UOp.ofOp, uexecute, execute, UVal.ofVal, ne_eq, not_true_eq_false, if_false]
    rw [show ({ id := t, body := v.body } : UVal) = UVal.ofVal v t from rfl, applyAddU_ofVal]
    exact map_fst_map _ _
  | move p prev target t => exact uexecute_move_agrees d tw src p prev target t
  | remove p target t => exact uexecute_remove_agrees d tw src hs p target t
  | arraySet p target v t =>
    simp only [UOp.ofOp, uexecute, execute, UVal.ofVal, ne_eq, not_true_eq_false, if_false]
    rw [show ({ id := t, body := v.body } : UVal) = UVal.ofVal v t from rfl, applyArraySetU_ofVal]
    exact map_fst_map _ _
  | increase p dl t =>
    simp only [UOp.ofOp, uexecute, execute]
    exact map_fst_map _ _
/-! ### visible normal form -/

/-- the entry exists and is not a tombstone -/
def live (d : Doc) (c : Ticket) : Bool :=
  match d c with
  | some e => !e.removed
  | none => false

/-- the printed entry of an object key: the key and its live winner -/
def objEntry (d : Doc) (member : String → Option Member) (k : String) : Option (String × Ticket) :=
  match member k with
  | some m => if live d m.child then some (k, m.child) else none
  | none => none

/-- the printed entry of an array node: its live element -/
def arrEntry (d : Doc) (n : PosNode) : Option Ticket :=
  match n.elem with
  | some c => if live d c then some c else none
  | none => none

inductive Vis
  | absent
  | leaf (s : String)
  | obj (l : List (String × Ticket))
  | arr (l : List Ticket)

def visBody (d : Doc) : Body → Vis
  | .prim r => .leaf r
  | .opaque r => .leaf r
  | .counter _ v => .leaf (toString v)
  | .obj keys member => .obj (keys.filterMap (objEntry d member))
  | .arr nodes _ => .arr (nodes.filterMap (arrEntry d))

def vis (d : Doc) (t : Ticket) : Vis :=
  match d t with
  | none => .absent
  | some e => visBody d e.body

def renderKey (rec : Ticket → String) (kc : String × Ticket) : String :=
  "\"" ++ kc.1 ++ "\":" ++ rec kc.2

def render (rec : Ticket → String) : Vis → String
  | .absent => "?"
  | .leaf s => s
  | .obj l => "{" ++ joinComma (l.map (renderKey rec)) ++ "}"
  | .arr l => "[" ++ joinComma (l.map rec) ++ "]"

theorem live_some {d : Doc} {c : Ticket} {e : Elem} (h : d c = some e) : live d c = !e.removed := by
  simp [live, h]

theorem live_none {d : Doc} {c : Ticket} (h : d c = none) : live d c = false := by
  simp [live, h]

theorem marshal_succ (d : Doc) (fuel : Nat) (t : Ticket) :
    marshal d (fuel + 1) t = render (marshal d fuel) (vis d t) := by
  simp only [marshal, vis]
  cases hd : d t with
  | none => rfl
  | some e =>
    simp only []
    cases hb : e.body with
    | prim r => rfl
    | «opaque» r => rfl
    | counter l v => rfl
    | obj keys member =>
      simp only [visBody, render, List.map_filterMap]
      congr 4
      funext k
      cases hm : member k with
      | none => simp [objEntry, hm]
      | some m =>
        cases hc : d m.child with
        | none => simp [objEntry, hm, hc, live_none hc]
        | some ce => cases hr : ce.removed <;> simp [objEntry, hm, hc, live_some hc, hr, renderKey]
    | arr nodes moved =>
      simp only [visBody, render, List.map_filterMap]
      congr 4
      funext n
      cases hm : n.elem with
      | none => simp [arrEntry, hm]
      | some c =>
        cases hc : d c with
        | none => simp [arrEntry, hm, hc, live_none hc]
        | some ce => cases hr : ce.removed <;> simp [arrEntry, hm, hc, live_some hc, hr]

def Vis.children : Vis → List Ticket
  | .obj l => l.map (·.2)
  | .arr l => l
  | _ => []

theorem objEntry_some {d : Doc} {member : String → Option Member} {k : String} {x : String × Ticket}
    (h : objEntry d member k = some x) :
    x.1 = k ∧ live d x.2 = true ∧ ∃ m, member k = some m ∧ m.child = x.2 := by
  unfold objEntry at h
  split at h
  · rename_i m hm
    split at h
    · cases h; exact ⟨rfl, ‹_›, m, hm, rfl⟩
    · cases h
  · cases h

theorem arrEntry_some {d : Doc} {n : PosNode} {c : Ticket} (h : arrEntry d n = some c) :
    n.elem = some c ∧ live d c = true := by
  unfold arrEntry at h
  split at h
  · split at h
    · cases h; exact ⟨‹_›, ‹_›⟩
    · cases h
  · cases h

theorem vis_children_live {d : Doc} {t c : Ticket} (h : c ∈ (vis d t).children) : live d c = true := by
  unfold vis at h
  split at h
  · simp [Vis.children] at h
  · rename_i e _
    cases hb : e.body <;> simp only [hb, visBody, Vis.children, List.mem_map, List.mem_filterMap, List.not_mem_nil] at h
    · obtain ⟨x, ⟨k, _, hk⟩, rfl⟩ := h
      exact (objEntry_some hk).2.1
    · obtain ⟨n, _, hn⟩ := h
      exact (arrEntry_some hn).2

theorem render_congr {f g : Ticket → String} {v : Vis} (h : ∀ c ∈ v.children, f c = g c) :
    render f v = render g v := by
  cases v with
  | absent => rfl
  | leaf s => rfl
  | obj l =>
    simp only [render]
    congr 3
    apply List.map_congr_left
    intro x hx
    simp only [renderKey]
    rw [h x.2 (by simp only [Vis.children, List.mem_map]; exact ⟨x, hx, rfl⟩)]
  | arr l =>
    simp only [render]
    congr 3
    apply List.map_congr_left
    intro x hx
    exact h x hx

/-- two heaps print alike below `t` when every element that is live in the first has the same visible
    normal form in both -/
theorem marshal_congr {d1 d2 : Doc} (hl : ∀ t, live d1 t = true → vis d1 t = vis d2 t) :
    ∀ (fuel : Nat) (t : Ticket), vis d1 t = vis d2 t → marshal d1 fuel t = marshal d2 fuel t
  | 0, _, _ => rfl
  | fuel + 1, t, ht => by
    rw [marshal_succ, marshal_succ, ← ht]
    apply render_congr
    intro c hc
    have := vis_children_live hc
    exact marshal_congr hl fuel c (hl c this)

end Yorkie.Undo
