/- pkg/llrb against its specification (a strictly sorted association list): Put, Floor.
(Remove needs the red-black invariants: Lemmas/LlrbRemove.lean.) -/
import YorkieModel.Model.Llrb
import YorkieModel.Lemmas.RBCore
namespace Yorkie.Llrb
open Yorkie.RB Yorkie.RB.T

def key (a : P) : Nat × Nat := (a.k, a.v)

theorem keyOK : KeyOK cfg key := fun _ _ _ => rfl

theorem toList_eq_klist (t : T) : toList t = klist key t := rfl

@[simp] theorem toList_nil : toList (nil : T) = [] := rfl
@[simp] theorem toList_node (l : T) (a c r) : toList (node l a c r) = toList l ++ (a.k, a.v) :: toList r := by
  simp [toList_eq_klist, key]

theorem keys_eq (t : T) : keys t = (toList t).map (·.1) := by
  simp [keys, toList, List.map_map, Function.comp_def]

/-! ### the specification -/
namespace Spec

abbrev L := List (Nat × Nat)

def keys (l : L) : List Nat := l.map (·.1)

/-- strictly increasing keys -/
def Sorted (l : L) : Prop := (keys l).Pairwise (· < ·)

def put (k v : Nat) : L → L
  | [] => [(k, v)]
  | a :: r => if k < a.1 then (k, v) :: a :: r else if k = a.1 then (k, v) :: r else a :: put k v r

def remove (k : Nat) : L → L
  | [] => []
  | a :: r => if a.1 = k then r else a :: remove k r

/-- the last entry with key ≤ q (on a sorted list: the greatest such key) -/
def floor : L → Nat → Option (Nat × Nat)
  | [], _ => none
  | a :: r, q => if a.1 ≤ q then (match floor r q with | some x => some x | none => some a) else floor r q

theorem put_left {k v : Nat} {Lh : L} {a : Nat × Nat} {R : L} (h : k < a.1) :
    put k v (Lh ++ a :: R) = put k v Lh ++ a :: R := by
  induction Lh with
  | nil => simp [put, h]
  | cons b Lh ih =>
    simp only [List.cons_append, put]
    split
    · rfl
    · split
      · rfl
      · rw [ih]; rfl

theorem put_pass {k v : Nat} {Lh M : L} (h : ∀ x ∈ keys Lh, x < k) :
    put k v (Lh ++ M) = Lh ++ put k v M := by
  induction Lh with
  | nil => rfl
  | cons b Lh ih =>
    have hb : b.1 < k := h b.1 (by simp [keys])
    simp only [List.cons_append, put]
    rw [if_neg (by omega), if_neg (by omega), ih (fun x hx => h x (by simp [keys] at hx ⊢; exact .inr hx))]

theorem put_cons_gt {k v : Nat} {a : Nat × Nat} {r : L} (h : a.1 < k) : put k v (a :: r) = a :: put k v r := by
  simp only [put]; rw [if_neg (by omega), if_neg (by omega)]

theorem put_cons_eq {k v : Nat} {a : Nat × Nat} {r : L} (h : k = a.1) : put k v (a :: r) = (k, v) :: r := by
  simp only [put]; rw [if_neg (by omega), if_pos h]

theorem mem_keys_put {k v : Nat} {l : L} {x : Nat} (h : x ∈ keys (put k v l)) : x = k ∨ x ∈ keys l := by
  induction l with
  | nil => simp [put, keys] at h; exact .inl h
  | cons a l ih =>
    simp only [put] at h
    split at h
    · simp only [keys, List.map_cons, List.mem_cons] at h ⊢
      rcases h with h | h | h
      · exact .inl h
      · exact .inr (.inl h)
      · exact .inr (.inr h)
    · split at h
      · simp only [keys, List.map_cons, List.mem_cons] at h ⊢
        rcases h with h | h
        · exact .inl h
        · exact .inr (.inr h)
      · simp only [keys, List.map_cons, List.mem_cons] at h ⊢
        rcases h with h | h
        · exact .inr (.inl h)
        · rcases ih h with h | h
          · exact .inl h
          · exact .inr (.inr h)

theorem sorted_put {k v : Nat} {l : L} (h : Sorted l) : Sorted (put k v l) := by
  induction l with
  | nil => simp [put, Sorted, keys]
  | cons a l ih =>
    simp only [Sorted, keys, List.map_cons, List.pairwise_cons] at h
    simp only [put]
    split
    · next hk =>
      simp only [Sorted, keys, List.map_cons, List.pairwise_cons, List.mem_cons]
      refine ⟨?_, h⟩
      rintro x (rfl | hx)
      · exact hk
      · have := h.1 x hx; omega
    · split
      · next _ hk =>
        simp only [Sorted, keys, List.map_cons, List.pairwise_cons]
        exact ⟨fun x hx => by have := h.1 x hx; omega, h.2⟩
      · next h1 h2 =>
        simp only [Sorted, keys, List.map_cons, List.pairwise_cons]
        refine ⟨fun x hx => ?_, ih h.2⟩
        rcases mem_keys_put hx with rfl | hx
        · omega
        · exact h.1 x hx

theorem length_put {k v : Nat} {l : L} (h : Sorted l) :
    (put k v l).length = if k ∈ keys l then l.length else l.length + 1 := by
  induction l with
  | nil => simp [put, keys]
  | cons a l ih =>
    simp only [Sorted, keys, List.map_cons, List.pairwise_cons] at h
    simp only [put, keys, List.map_cons, List.mem_cons]
    split
    · next hk =>
      have : ¬ (k = a.1 ∨ k ∈ List.map (·.1) l) := by
        rintro (e | hm)
        · omega
        · have := h.1 k hm; omega
      rw [if_neg this]; rfl
    · split
      · next _ hk => simp [hk]
      · next h1 h2 =>
        have ih' := ih h.2
        simp only [keys] at ih'
        simp only [List.length_cons, ih', h2, false_or]
        split <;> simp_all

/-! `floor` on a sorted list is the greatest key ≤ q -/

theorem floor_none {l : L} {q : Nat} : floor l q = none ↔ ∀ x ∈ keys l, q < x := by
  induction l with
  | nil => simp [floor, keys]
  | cons a l ih =>
    simp only [floor, keys, List.map_cons, List.mem_cons, forall_eq_or_imp]
    split
    · next h =>
      constructor
      · intro hn; split at hn <;> cases hn
      · intro hn; omega
    · next h =>
      rw [ih]; simp only [keys]
      exact ⟨fun hh => ⟨by omega, hh⟩, fun hh => hh.2⟩

theorem floor_some {l : L} {q : Nat} {e : Nat × Nat} (hs : Sorted l) (h : floor l q = some e) :
    e ∈ l ∧ e.1 ≤ q ∧ ∀ x ∈ keys l, x ≤ q → x ≤ e.1 := by
  induction l with
  | nil => simp [floor] at h
  | cons a l ih =>
    simp only [Sorted, keys, List.map_cons, List.pairwise_cons] at hs
    simp only [floor] at h
    split at h
    · next ha =>
      split at h
      · next x hx =>
        injection h with h; subst h
        obtain ⟨g1, g2, g3⟩ := ih hs.2 hx
        refine ⟨List.mem_cons_of_mem _ g1, g2, ?_⟩
        simp only [keys, List.map_cons, List.mem_cons, forall_eq_or_imp]
        refine ⟨fun _ => ?_, g3⟩
        have : x.1 ∈ List.map (·.1) l := List.mem_map_of_mem g1
        have := hs.1 _ this; omega
      · next hx =>
        injection h with h; subst h
        refine ⟨List.mem_cons_self, ha, ?_⟩
        simp only [keys, List.map_cons, List.mem_cons, forall_eq_or_imp]
        refine ⟨fun _ => Nat.le_refl _, fun x hx' hq => ?_⟩
        have := (floor_none.1 hx) x hx'; omega
    · next ha =>
      obtain ⟨g1, g2, g3⟩ := ih hs.2 h
      refine ⟨List.mem_cons_of_mem _ g1, g2, ?_⟩
      simp only [keys, List.map_cons, List.mem_cons, forall_eq_or_imp]
      exact ⟨fun hq => by omega, g3⟩

theorem floor_append_small {A B : L} {q : Nat} (h : ∀ x ∈ keys B, q < x) : floor (A ++ B) q = floor A q := by
  induction A with
  | nil => rw [List.nil_append, floor_none.2 h]; rfl
  | cons a A ih => simp only [List.cons_append, floor, ih]

theorem floor_append_big {A B : L} {q : Nat} (h : ∀ x ∈ keys A, x ≤ q) :
    floor (A ++ B) q = (match floor B q with | some x => some x | none => floor A q) := by
  induction A with
  | nil => rw [List.nil_append]; cases floor B q <;> rfl
  | cons a A ih =>
    have ha : a.1 ≤ q := h a.1 (by simp [keys])
    simp only [List.cons_append, floor, ha, if_true]
    rw [ih (fun x hx => h x (by simp [keys] at hx ⊢; exact .inr hx))]
    cases floor B q <;> rfl

end Spec

/-! ### BST ordering -/

/-- the in-order key sequence is strictly increasing -/
def BST (t : T) : Prop := Spec.Sorted (toList t)

theorem bst_node {l : T} {a : P} {c : Bool} {r : T} (h : BST (node l a c r)) :
    BST l ∧ BST r ∧ (∀ x ∈ Spec.keys (toList l), x < a.k) ∧ (∀ x ∈ Spec.keys (toList r), a.k < x) := by
  simp only [BST, Spec.Sorted, toList_node, Spec.keys, List.map_append, List.map_cons,
    List.pairwise_append, List.pairwise_cons, List.mem_cons] at h ⊢
  exact ⟨h.1, h.2.1.2, fun x hx => h.2.2 x hx a.k (.inl rfl), h.2.1.1⟩

/-! ### Put -/

@[simp] theorem cfg_navI (l : T) (a : P) (q : Nat) : cfg.navI l a q = (compare q a.k, q) := rfl
@[simp] theorem cfg_nav (l : T) (a : P) (q : Nat) : cfg.nav l a q = (compare q a.k, q) := rfl
@[simp] theorem cfg_setV (a new : P) : cfg.setV a new = { a with v := new.v } := rfl
@[simp] theorem cfg_strictFix : cfg.strictFix = false := rfl

theorem ins_spec {t : T} (hb : BST t) (k v : Nat) :
    toList (ins cfg t k ⟨k, v⟩) = Spec.put k v (toList t) := by
  induction t with
  | nil => simp [ins, Spec.put]
  | node l a c r ihl ihr =>
    obtain ⟨hl, hr, hlt, hgt⟩ := bst_node hb
    simp only [ins, cfg_navI]
    rcases Nat.lt_trichotomy k a.k with h | h | h
    · rw [Nat.compare_eq_lt.2 h]
      simp only [toList_eq_klist, klist_fixUp keyOK] at ihl ⊢
      rw [klist_node, ihl hl, klist_node]
      exact (Spec.put_left (a := key a) h).symm
    · rw [Nat.compare_eq_eq.2 h]
      simp only [toList_eq_klist, klist_fixUp keyOK, cfg_setV]
      rw [klist_node, klist_node, Spec.put_pass (by rw [h]; exact hlt),
        Spec.put_cons_eq (show k = (key a).1 from h)]
      simp [key, h]
    · rw [Nat.compare_eq_gt.2 h]
      simp only [toList_eq_klist, klist_fixUp keyOK] at ihr ⊢
      rw [klist_node, ihr hr, klist_node, Spec.put_pass (fun x hx => by have := hlt x hx; omega),
        Spec.put_cons_gt (show (key a).1 < k from h)]

theorem memNav_iff {t : T} (hb : BST t) (k : Nat) : memNav t k = true ↔ k ∈ Spec.keys (toList t) := by
  induction t with
  | nil => simp [memNav, Spec.keys]
  | node l a c r ihl ihr =>
    obtain ⟨hl, hr, hlt, hgt⟩ := bst_node hb
    simp only [memNav, toList_node, Spec.keys, List.map_append, List.map_cons, List.mem_append, List.mem_cons]
    rcases Nat.lt_trichotomy k a.k with h | h | h
    · rw [Nat.compare_eq_lt.2 h]; simp only []; rw [ihl hl]
      constructor
      · exact .inl
      · rintro (hm | rfl | hm)
        · exact hm
        · omega
        · have := hgt k hm; omega
    · rw [Nat.compare_eq_eq.2 h]; simp [h]
    · rw [Nat.compare_eq_gt.2 h]; simp only []; rw [ihr hr]
      constructor
      · exact fun hm => .inr (.inr hm)
      · rintro (hm | rfl | hm)
        · have := hlt k hm; omega
        · omega
        · exact hm

/-! ### Floor -/

theorem floorGo_spec {t : T} (hb : BST t) (q : Nat) (acc : Option (Nat × Nat)) :
    floorGo t q acc = (match Spec.floor (toList t) q with | some x => some x | none => acc) := by
  induction t generalizing acc with
  | nil => simp [floorGo, Spec.floor]
  | node l a c r ihl ihr =>
    obtain ⟨hl, hr, hlt, hgt⟩ := bst_node hb
    simp only [floorGo, toList_node]
    rcases Nat.lt_trichotomy q a.k with h | h | h
    · rw [Nat.compare_eq_lt.2 h]; simp only []
      rw [ihl hl, Spec.floor_append_small]
      simp only [Spec.keys, List.map_cons, List.mem_cons, forall_eq_or_imp]
      exact ⟨h, fun x hx => by have := hgt x hx; omega⟩
    · rw [Nat.compare_eq_eq.2 h]; simp only []
      rw [Spec.floor_append_big (fun x hx => by have := hlt x hx; omega)]
      have : Spec.floor ((a.k, a.v) :: toList r) q = some (a.k, a.v) := by
        simp only [Spec.floor]
        rw [if_pos (by simp [h]), Spec.floor_none.2 (fun x hx => by have := hgt x hx; omega)]
      rw [this]
    · rw [Nat.compare_eq_gt.2 h]; simp only []
      rw [ihr hr, Spec.floor_append_big (fun x hx => by have := hlt x hx; omega)]
      simp only [Spec.floor]
      rw [if_pos (by show a.k ≤ q; omega)]
      cases Spec.floor (toList r) q <;> rfl

end Yorkie.Llrb
