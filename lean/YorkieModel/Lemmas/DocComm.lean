/-
(H2') adjacent swap of two sequentially enabled independent operations of the observable
document model. Array/array pairs on the same array cell are reduced to the array-level
commutation statements collected in `ArrayLemmas`.
-/
import YorkieModel.Lemmas.DocLaws
namespace Yorkie.Crdt
open Yorkie

set_option linter.unusedSimpArgs false

/-! ### commutation of effect runs -/

theorem run_comm_gen {E1 E2 E1' E2' : Effect} {d : Doc}
    (h1 : ∀ t e, E1.new = some (t, e) →
      (∀ e2, E2'.new ≠ some (t, e2)) ∧ E1'.new = some (t, E2'.touch t e))
    (h1' : ∀ t e', E1'.new = some (t, e') → ∃ e, E1.new = some (t, e))
    (h2 : ∀ t e, E2.new = some (t, e) →
      (∀ e1, E1'.new ≠ some (t, e1)) ∧ E2'.new = some (t, E1'.touch t e))
    (h2' : ∀ t e', E2'.new = some (t, e') → ∃ e, E2.new = some (t, e))
    (h3 : ∀ t e, d t = some e → E2'.touch t (E1.touch t e) = E1'.touch t (E2.touch t e)) :
    E2'.run (E1.run d) = E1'.run (E2.run d) := by
  funext t
  by_cases c2 : ∃ e2', E2'.new = some (t, e2')
  · obtain ⟨e2', he2'⟩ := c2
    obtain ⟨e2, he2⟩ := h2' t e2' he2'
    obtain ⟨hn, hx⟩ := h2 t e2 he2
    rw [run_of_mk he2', run_of_not_mk hn, run_of_mk he2]
    rw [he2'] at hx; cases hx; rfl
  · have c2' : ∀ e, E2'.new ≠ some (t, e) := fun e h => c2 ⟨e, h⟩
    by_cases c1 : ∃ e1', E1'.new = some (t, e1')
    · obtain ⟨e1', he1'⟩ := c1
      obtain ⟨e1, he1⟩ := h1' t e1' he1'
      obtain ⟨hn, hx⟩ := h1 t e1 he1
      rw [run_of_mk he1', run_of_not_mk hn, run_of_mk he1]
      rw [he1'] at hx; cases hx; rfl
    · have c1' : ∀ e, E1'.new ≠ some (t, e) := fun e h => c1 ⟨e, h⟩
      have n1 : ∀ e, E1.new ≠ some (t, e) := fun e h => c1' _ (h1 t e h).2
      have n2 : ∀ e, E2.new ≠ some (t, e) := fun e h => c2' _ (h2 t e h).2
      rw [run_of_not_mk c2', run_of_not_mk c1', run_of_not_mk n1, run_of_not_mk n2]
      cases hd : d t with
      | none => rfl
      | some e => simp only [Option.map_some]; rw [h3 t e hd]

theorem run_comm_reg {E1 E2 E1' E2' : Effect} {d : Doc}
    (hnew1 : E1'.new = E1.new) (hnew2 : E2'.new = E2.new)
    (hflag1 : E1'.flag = E1.flag) (hflag2 : E2'.flag = E2.flag)
    (hp1 : E1'.p = E1.p) (hp2 : E2'.p = E2.p)
    (hbs : E1.p = E2.p → E2'.body = E1'.body)
    (hbd : E1.p ≠ E2.p → E2'.body = E2.body ∧ E1'.body = E1.body)
    (hc1 : ∀ t e, E1.new = some (t, e) →
      t ≠ E2.p ∧ E2.flag ≠ some t ∧ ∀ e2, E2.new ≠ some (t, e2))
    (hc2 : ∀ t e, E2.new = some (t, e) → t ≠ E1.p ∧ E1.flag ≠ some t) :
    E2'.run (E1.run d) = E1'.run (E2.run d) := by
  apply run_comm_gen
  · intro t e h
    obtain ⟨a, b, c⟩ := hc1 t e h
    refine ⟨fun e2 => hnew2 ▸ c e2, ?_⟩
    rw [hnew1, h, touch_id (hflag2 ▸ b) (hp2 ▸ a)]
  · intro t e' h; exact ⟨e', hnew1 ▸ h⟩
  · intro t e h
    obtain ⟨a, b⟩ := hc2 t e h
    refine ⟨fun e1 he1 => ?_, ?_⟩
    · rw [hnew1] at he1; exact (hc1 t e1 he1).2.2 e h
    · rw [hnew2, h, touch_id (hflag1 ▸ b) (hp1 ▸ a)]
  · intro t e' h; exact ⟨e', hnew2 ▸ h⟩
  · intro t e _
    simp only [Effect.touch, hflag1, hflag2, hp1, hp2]
    by_cases hpp : E1.p = E2.p
    · have hb := hbs hpp
      simp only [hpp, hb, Bool.or_assoc]
      congr 1
      · rw [Bool.or_comm (decide (E1.flag = some t))]
      · split <;> rfl
    · obtain ⟨hb2, hb1⟩ := hbd hpp
      simp only [hb1, hb2, Bool.or_assoc]
      congr 1
      · rw [Bool.or_comm (decide (E1.flag = some t))]
      · by_cases ht1 : t = E1.p
        · have : t ≠ E2.p := fun h => hpp (ht1 ▸ h)
          simp [ht1, this, hpp]
        · simp [ht1]

/-! ### array-level commutation, assumed -/

/-- The array-level statements `swap` relies on (proved separately on `ArrSt`). Each is the
    commutation of two array transitions with distinct fresh tickets that do not reference each
    other's ticket, on a state satisfying `ElemSlots`, both transitions being enabled. -/
structure ArrayLemmas : Prop where
  add_add : ∀ (s : ArrSt) (p₁ t₁ p₂ t₂ : Ticket), ElemSlots s.nodes →
    Fresh s.nodes t₁ → Fresh s.nodes t₂ → t₁ ≠ t₂ → p₁ ≠ t₂ → p₂ ≠ t₁ →
    (arrAdd p₁ t₁ s).isSome = true → (arrAdd p₂ t₂ s).isSome = true →
    (arrAdd p₁ t₁ s).bind (arrAdd p₂ t₂) = (arrAdd p₂ t₂ s).bind (arrAdd p₁ t₁)
  add_move : ∀ (s : ArrSt) (p₁ t₁ p₂ g₂ t₂ : Ticket), ElemSlots s.nodes →
    Fresh s.nodes t₁ → Fresh s.nodes t₂ → t₁ ≠ t₂ → p₁ ≠ t₂ → p₂ ≠ t₁ → g₂ ≠ t₁ →
    (arrAdd p₁ t₁ s).isSome = true → (arrMove p₂ g₂ t₂ s).isSome = true →
    (arrAdd p₁ t₁ s).bind (arrMove p₂ g₂ t₂) = (arrMove p₂ g₂ t₂ s).bind (arrAdd p₁ t₁)
  add_set : ∀ (s : ArrSt) (p₁ t₁ g₂ t₂ : Ticket), ElemSlots s.nodes →
    Fresh s.nodes t₁ → Fresh s.nodes t₂ → t₁ ≠ t₂ → p₁ ≠ t₂ → g₂ ≠ t₁ →
    (arrAdd p₁ t₁ s).isSome = true → (arrSet g₂ t₂ s).isSome = true →
    (arrAdd p₁ t₁ s).bind (arrSet g₂ t₂) = (arrSet g₂ t₂ s).bind (arrAdd p₁ t₁)
  move_move : ∀ (s : ArrSt) (p₁ g₁ t₁ p₂ g₂ t₂ : Ticket), ElemSlots s.nodes →
    Fresh s.nodes t₁ → Fresh s.nodes t₂ → t₁ ≠ t₂ → p₁ ≠ t₂ → p₂ ≠ t₁ → g₁ ≠ t₂ → g₂ ≠ t₁ →
    (arrMove p₁ g₁ t₁ s).isSome = true → (arrMove p₂ g₂ t₂ s).isSome = true →
    (arrMove p₁ g₁ t₁ s).bind (arrMove p₂ g₂ t₂) = (arrMove p₂ g₂ t₂ s).bind (arrMove p₁ g₁ t₁)
  move_set : ∀ (s : ArrSt) (p₁ g₁ t₁ g₂ t₂ : Ticket), ElemSlots s.nodes →
    Fresh s.nodes t₁ → Fresh s.nodes t₂ → t₁ ≠ t₂ → p₁ ≠ t₂ → g₁ ≠ t₂ → g₂ ≠ t₁ →
    (arrMove p₁ g₁ t₁ s).isSome = true → (arrSet g₂ t₂ s).isSome = true →
    (arrMove p₁ g₁ t₁ s).bind (arrSet g₂ t₂) = (arrSet g₂ t₂ s).bind (arrMove p₁ g₁ t₁)
  set_set : ∀ (s : ArrSt) (g₁ t₁ g₂ t₂ : Ticket), ElemSlots s.nodes →
    Fresh s.nodes t₁ → Fresh s.nodes t₂ → t₁ ≠ t₂ → g₁ ≠ t₂ → g₂ ≠ t₁ →
    (arrSet g₁ t₁ s).isSome = true → (arrSet g₂ t₂ s).isSome = true →
    (arrSet g₁ t₁ s).bind (arrSet g₂ t₂) = (arrSet g₂ t₂ s).bind (arrSet g₁ t₁)

theorem both_orders {f g : ArrSt → Option ArrSt} {s sa sb sab sba : ArrSt}
    (hc : (f s).bind g = (g s).bind f) (h1 : f s = some sa) (h2 : g sa = some sab)
    (h3 : g s = some sb) (h4 : f sb = some sba) : sab = sba := by
  rw [h1, h3] at hc
  simp only [Option.bind_some] at hc
  rw [h2, h4] at hc
  exact Option.some.inj hc

theorem arrStep_comm (AL : ArrayLemmas) {a b : Op} {s sa sb sab sba : ArrSt}
    (hs : ElemSlots s.nodes) (hfa : ∀ i ∈ creates a, Fresh s.nodes i)
    (hfb : ∀ i ∈ creates b, Fresh s.nodes i)
    (hab : ∀ i ∈ creates a, i ∉ rawRefs b ∧ i ∉ creates b) (hba : ∀ i ∈ creates b, i ∉ rawRefs a)
    (h1 : arrStep a s = some sa) (h2 : arrStep b sa = some sab)
    (h3 : arrStep b s = some sb) (h4 : arrStep a sb = some sba) : sab = sba := by
  have i1 : (arrStep a s).isSome = true := by rw [h1]; rfl
  have i3 : (arrStep b s).isSome = true := by rw [h3]; rfl
  cases b with
  | set => simp [arrStep] at h3
  | increase => simp [arrStep] at h3
  | remove p₂ g₂ t₂ =>
    simp only [arrStep] at h2 h3
    split at h2 <;> cases h2
    split at h3 <;> cases h3
    rw [h1] at h4; exact Option.some.inj h4
  | add p₂ v₂ x₂ t₂ =>
    cases a with
    | set => simp [arrStep] at h1
    | increase => simp [arrStep] at h1
    | remove p₁ g₁ t₁ =>
      simp only [arrStep] at h1 h4
      split at h1 <;> cases h1
      split at h4 <;> cases h4
      rw [h2] at h3; exact Option.some.inj h3
    | add p₁ v₁ x₁ t₁ =>
      simp only [creates, rawRefs, forall_eq, List.mem_cons, List.not_mem_nil, or_false,
        not_or] at hfa hfb hab hba
      exact both_orders (AL.add_add s v₁ t₁ v₂ t₂ hs hfa hfb hab.2 (Ne.symm hba.2) (Ne.symm hab.1.2)
        i1 i3) h1 h2 h3 h4
    | move p₁ v₁ g₁ t₁ =>
      simp only [creates, rawRefs, forall_eq, List.mem_cons, List.not_mem_nil, or_false,
        not_or] at hfa hfb hab hba
      exact (both_orders (AL.add_move s v₂ t₂ v₁ g₁ t₁ hs hfb hfa (Ne.symm hab.2) (Ne.symm hab.1.2)
        (Ne.symm hba.2.1) (Ne.symm hba.2.2) i3 i1) h3 h4 h1 h2).symm
    | arraySet p₁ g₁ x₁ t₁ =>
      simp only [creates, rawRefs, forall_eq, List.mem_cons, List.not_mem_nil, or_false,
        not_or] at hfa hfb hab hba
      exact (both_orders (AL.add_set s v₂ t₂ g₁ t₁ hs hfb hfa (Ne.symm hab.2) (Ne.symm hab.1.2)
        (Ne.symm hba.2) i3 i1) h3 h4 h1 h2).symm
  | move p₂ v₂ g₂ t₂ =>
    cases a with
    | set => simp [arrStep] at h1
    | increase => simp [arrStep] at h1
    | remove p₁ g₁ t₁ =>
      simp only [arrStep] at h1 h4
      split at h1 <;> cases h1
      split at h4 <;> cases h4
      rw [h2] at h3; exact Option.some.inj h3
    | add p₁ v₁ x₁ t₁ =>
      simp only [creates, rawRefs, forall_eq, List.mem_cons, List.not_mem_nil, or_false,
        not_or] at hfa hfb hab hba
      exact both_orders (AL.add_move s v₁ t₁ v₂ g₂ t₂ hs hfa hfb hab.2 (Ne.symm hba.2)
        (Ne.symm hab.1.2.1) (Ne.symm hab.1.2.2) i1 i3) h1 h2 h3 h4
    | move p₁ v₁ g₁ t₁ =>
      simp only [creates, rawRefs, forall_eq, List.mem_cons, List.not_mem_nil, or_false,
        not_or] at hfa hfb hab hba
      exact both_orders (AL.move_move s v₁ g₁ t₁ v₂ g₂ t₂ hs hfa hfb hab.2 (Ne.symm hba.2.1)
        (Ne.symm hab.1.2.1) (Ne.symm hba.2.2) (Ne.symm hab.1.2.2) i1 i3) h1 h2 h3 h4
    | arraySet p₁ g₁ x₁ t₁ =>
      simp only [creates, rawRefs, forall_eq, List.mem_cons, List.not_mem_nil, or_false,
        not_or] at hfa hfb hab hba
      exact (both_orders (AL.move_set s v₂ g₂ t₂ g₁ t₁ hs hfb hfa (Ne.symm hab.2)
        (Ne.symm hab.1.2.1) (Ne.symm hab.1.2.2) (Ne.symm hba.2) i3 i1) h3 h4 h1 h2).symm
  | arraySet p₂ g₂ x₂ t₂ =>
    cases a with
    | set => simp [arrStep] at h1
    | increase => simp [arrStep] at h1
    | remove p₁ g₁ t₁ =>
      simp only [arrStep] at h1 h4
      split at h1 <;> cases h1
      split at h4 <;> cases h4
      rw [h2] at h3; exact Option.some.inj h3
    | add p₁ v₁ x₁ t₁ =>
      simp only [creates, rawRefs, forall_eq, List.mem_cons, List.not_mem_nil, or_false,
        not_or] at hfa hfb hab hba
      exact both_orders (AL.add_set s v₁ t₁ g₂ t₂ hs hfa hfb hab.2 (Ne.symm hba.2)
        (Ne.symm hab.1.2) i1 i3) h1 h2 h3 h4
    | move p₁ v₁ g₁ t₁ =>
      simp only [creates, rawRefs, forall_eq, List.mem_cons, List.not_mem_nil, or_false,
        not_or] at hfa hfb hab hba
      exact both_orders (AL.move_set s v₁ g₁ t₁ g₂ t₂ hs hfa hfb hab.2 (Ne.symm hba.2.1)
        (Ne.symm hba.2.2) (Ne.symm hab.1.2) i1 i3) h1 h2 h3 h4
    | arraySet p₁ g₁ x₁ t₁ =>
      simp only [creates, rawRefs, forall_eq, List.mem_cons, List.not_mem_nil, or_false,
        not_or] at hfa hfb hab hba
      exact both_orders (AL.set_set s g₁ t₁ g₂ t₂ hs hfa hfb hab.2 (Ne.symm hba.2)
        (Ne.symm hab.1.2) i1 i3) h1 h2 h3 h4

/-! ### body-level commutation: counters, objects -/

theorem wrap_add_comm (l : Bool) (v a b : Int) :
    wrap l (wrap l (v + a) + b) = wrap l (wrap l (v + b) + a) := by
  unfold wrap
  split
  · rw [Int.bmod_add_bmod, Int.bmod_add_bmod]; congr 1; omega
  · rw [Int.bmod_add_bmod, Int.bmod_add_bmod]; congr 1; omega

theorem String.lt_or_gt_of_ne' {a b : String} (h : a ≠ b) : a < b ∨ b < a := by grind

theorem insertKey_idem (k : String) (l : List String) : insertKey k (insertKey k l) = insertKey k l := by
  induction l with
  | nil => simp [insertKey, String.lt_irrefl]
  | cons x r ih =>
    by_cases h1 : k < x
    · simp [insertKey, h1, String.lt_irrefl]
    · by_cases h2 : k = x
      · simp [insertKey, h2, String.lt_irrefl]
      · simp [insertKey, h1, h2, ih]

theorem insertKey_comm {k k' : String} (hk : k ≠ k') (l : List String) :
    insertKey k (insertKey k' l) = insertKey k' (insertKey k l) := by
  induction l with
  | nil =>
    rcases String.lt_or_gt_of_ne' hk with h | h
    · have := String.lt_asymm h
      simp [insertKey, h, this, Ne.symm hk]
    · have := String.lt_asymm h
      simp [insertKey, h, this, hk]
  | cons x r ih =>
    simp only [insertKey]
    grind [insertKey, String.lt_irrefl, String.lt_asymm, String.lt_trans]

theorem setMem_ne {member : String → Option Member} {k k' : String} (h : k' ≠ k) (ts : Ticket) :
    setMem member k ts k' = member k' := by simp [setMem, h]

theorem setMem_self (member : String → Option Member) (k : String) (ts : Ticket) :
    setMem member k ts k = some ⟨ts, ts⟩ := by simp [setMem]

theorem setMem_comm {member : String → Option Member} {k k' : String} (h : k ≠ k') (t t' : Ticket) :
    setMem (setMem member k t) k' t' = setMem (setMem member k' t') k t := by
  funext x; simp only [setMem]; grind

theorem setMem_idem (member : String → Option Member) (k : String) (t t' : Ticket) :
    setMem (setMem member k t) k t' = setMem member k t' := by
  funext x; simp only [setMem]; grind

/-- effect-level commutation of two operations on the same parent body -/
structure Compat (B : Body) (a b : Op) : Prop where
  new_a : (eff (eff B b).body a).new = (eff B a).new
  new_b : (eff (eff B a).body b).new = (eff B b).new
  flag_a : (eff (eff B b).body a).flag = (eff B a).flag
  flag_b : (eff (eff B a).body b).flag = (eff B b).flag
  body : (eff (eff B a).body b).body = (eff (eff B b).body a).body

theorem compat_arr {n : List PosNode} {m : Ticket → Option Ticket} {a b : Op}
    {sa sb sab sba : ArrSt} (h1 : arrStep a ⟨n, m⟩ = some sa) (h2 : arrStep b sa = some sab)
    (h3 : arrStep b ⟨n, m⟩ = some sb) (h4 : arrStep a sb = some sba) (he : sab = sba) :
    Compat (.arr n m) a b := by
  have e1 : eff (.arr n m) a = ⟨a.parent, .arr sa.nodes sa.moved, a.newCell, a.flag⟩ := by
    simp only [eff, h1]
  have e3 : eff (.arr n m) b = ⟨b.parent, .arr sb.nodes sb.moved, b.newCell, b.flag⟩ := by
    simp only [eff, h3]
  have h2' : arrStep b ⟨sa.nodes, sa.moved⟩ = some sab := h2
  have h4' : arrStep a ⟨sb.nodes, sb.moved⟩ = some sba := h4
  have e2 : eff (.arr sa.nodes sa.moved) b = ⟨b.parent, .arr sab.nodes sab.moved, b.newCell, b.flag⟩ := by
    simp only [eff, h2']
  have e4 : eff (.arr sb.nodes sb.moved) a = ⟨a.parent, .arr sba.nodes sba.moved, a.newCell, a.flag⟩ := by
    simp only [eff, h4']
  constructor <;> simp only [e1, e2, e3, e4, he]

theorem compat_counter {l : Bool} {v : Int} {p₁ p₂ : Ticket} {δ₁ δ₂ : Int} {t₁ t₂ : Ticket} :
    Compat (.counter l v) (.increase p₁ δ₁ t₁) (.increase p₂ δ₂ t₂) := by
  constructor <;> simp only [eff, effCounter]
  rw [wrap_add_comm]

theorem eff_obj_body (keys : List String) (member : String → Option Member) (a : Op) :
    ∃ keys' member', (eff (.obj keys member) a).body = .obj keys' member' := by
  simp only [eff]
  unfold effObj
  split
  · split
    · exact ⟨_, _, rfl⟩
    · split <;> exact ⟨_, _, rfl⟩
  · exact ⟨_, _, rfl⟩
  · exact ⟨_, _, rfl⟩

theorem eff_obj_remove (keys : List String) (member : String → Option Member) (p g t : Ticket) :
    eff (.obj keys member) (.remove p g t) = ⟨p, .obj keys member, none, flagOf g t⟩ := rfl

theorem compat_obj_remove_right {keys : List String} {member : String → Option Member} {a : Op}
    {p g t : Ticket} : Compat (.obj keys member) a (.remove p g t) := by
  obtain ⟨k', m', hb⟩ := eff_obj_body keys member a
  constructor <;> simp only [hb, eff_obj_remove]

theorem compat_obj_remove_left {keys : List String} {member : String → Option Member} {b : Op}
    {p g t : Ticket} : Compat (.obj keys member) (.remove p g t) b := by
  obtain ⟨k', m', hb⟩ := eff_obj_body keys member b
  constructor <;> simp only [hb, eff_obj_remove]

set_option linter.unusedSimpArgs false in
theorem compat_obj_set_set {keys : List String} {member : String → Option Member}
    {p₁ p₂ : Ticket} {k₁ k₂ : String} {v₁ v₂ : Val} {t₁ t₂ : Ticket} (hk : k₁ ≠ k₂) :
    Compat (.obj keys member) (.set p₁ k₁ v₁ t₁) (.set p₂ k₂ v₂ t₂) := by
  have hk' := Ne.symm hk
  cases hm1 : member k₁ with
  | none =>
    cases hm2 : member k₂ with
    | none =>
      constructor <;>
        simp [eff, effObj, hm1, hm2, setMem_ne hk, setMem_ne hk', setMem_comm hk, insertKey_comm hk']
    | some m2 =>
      by_cases w2 : t₂.after m2.positionedAt = true
      · constructor <;>
          simp [eff, effObj, hm1, hm2, w2, setMem_ne hk, setMem_ne hk', setMem_comm hk]
      · constructor <;>
          simp [eff, effObj, hm1, hm2, w2, setMem_ne hk, setMem_ne hk', setMem_comm hk]
  | some m1 =>
    by_cases w1 : t₁.after m1.positionedAt = true
    · cases hm2 : member k₂ with
      | none =>
        constructor <;>
          simp [eff, effObj, hm1, hm2, w1, setMem_ne hk, setMem_ne hk', setMem_comm hk]
      | some m2 =>
        by_cases w2 : t₂.after m2.positionedAt = true
        · constructor <;>
            simp [eff, effObj, hm1, hm2, w1, w2, setMem_ne hk, setMem_ne hk', setMem_comm hk]
        · constructor <;>
            simp [eff, effObj, hm1, hm2, w1, w2, setMem_ne hk, setMem_ne hk', setMem_comm hk]
    · cases hm2 : member k₂ with
      | none =>
        constructor <;>
          simp [eff, effObj, hm1, hm2, w1, setMem_ne hk, setMem_ne hk', setMem_comm hk]
      | some m2 =>
        by_cases w2 : t₂.after m2.positionedAt = true
        · constructor <;>
            simp [eff, effObj, hm1, hm2, w1, w2, setMem_ne hk, setMem_ne hk', setMem_comm hk]
        · constructor <;>
            simp [eff, effObj, hm1, hm2, w1, w2, setMem_ne hk, setMem_ne hk', setMem_comm hk]

set_option linter.unusedSimpArgs false in
theorem set_set_same {d : Doc} {keys : List String} {member : String → Option Member}
    {p : Ticket} {k : String} {v₁ v₂ : Val} {t₁ t₂ : Ticket}
    (hne : t₁ ≠ t₂) (h1 : d t₁ = none) (h2 : d t₂ = none) (hp1 : t₁ ≠ p) (hp2 : t₂ ≠ p) :
    (eff (eff (.obj keys member) (.set p k v₁ t₁)).body (.set p k v₂ t₂)).run
        ((eff (.obj keys member) (.set p k v₁ t₁)).run d) =
      (eff (eff (.obj keys member) (.set p k v₂ t₂)).body (.set p k v₁ t₁)).run
        ((eff (.obj keys member) (.set p k v₂ t₂)).run d) := by
  have tot := Ticket.after_eq_not_after hne
  have hne' := Ne.symm hne
  cases hm : member k with
  | none =>
    cases w : t₂.after t₁
    · apply run_comm_gen
      · intro t e h
        simp [eff, effObj, hm, setMem_self, tot, w] at h ⊢
        obtain ⟨rfl, rfl⟩ := h
        simp [Effect.touch, hne, hne', hp1, hp2, newElem]
      · intro t e h
        simp [eff, effObj, hm, setMem_self, tot, w] at h ⊢
        exact h.1
      · intro t e h
        simp [eff, effObj, hm, setMem_self, tot, w] at h ⊢
        obtain ⟨rfl, rfl⟩ := h
        simp [Effect.touch, hne, hne', hp1, hp2, newElem]
      · intro t e h
        simp [eff, effObj, hm, setMem_self, tot, w] at h ⊢
        exact h.1
      · intro t e h
        have ht1 : t ≠ t₁ := by intro e; rw [e, h1] at h; cases h
        have ht2 : t ≠ t₂ := by intro e; rw [e, h2] at h; cases h
        by_cases htp : t = p <;>
          simp [eff, effObj, hm, setMem_self, tot, w, Effect.touch, ht1, ht2, ht1.symm, ht2.symm, htp, hp1, hp2, setMem_idem,
            insertKey_idem, Bool.or_comm]
    · apply run_comm_gen
      · intro t e h
        simp [eff, effObj, hm, setMem_self, tot, w] at h ⊢
        obtain ⟨rfl, rfl⟩ := h
        simp [Effect.touch, hne, hne', hp1, hp2, newElem]
      · intro t e h
        simp [eff, effObj, hm, setMem_self, tot, w] at h ⊢
        exact h.1
      · intro t e h
        simp [eff, effObj, hm, setMem_self, tot, w] at h ⊢
        obtain ⟨rfl, rfl⟩ := h
        simp [Effect.touch, hne, hne', hp1, hp2, newElem]
      · intro t e h
        simp [eff, effObj, hm, setMem_self, tot, w] at h ⊢
        exact h.1
      · intro t e h
        have ht1 : t ≠ t₁ := by intro e; rw [e, h1] at h; cases h
        have ht2 : t ≠ t₂ := by intro e; rw [e, h2] at h; cases h
        by_cases htp : t = p <;>
          simp [eff, effObj, hm, setMem_self, tot, w, Effect.touch, ht1, ht2, ht1.symm, ht2.symm, htp, hp1, hp2, setMem_idem,
            insertKey_idem, Bool.or_comm]
  | some m =>
    cases w : t₂.after t₁ <;> cases w1 : t₁.after m.positionedAt <;>
      cases w2 : t₂.after m.positionedAt
    · apply run_comm_gen
      · intro t e h
        simp [eff, effObj, hm, setMem_self, tot, w, w1, w2] at h ⊢
        obtain ⟨rfl, rfl⟩ := h
        simp [Effect.touch, hne, hne', hp1, hp2, newElem]
      · intro t e h
        simp [eff, effObj, hm, setMem_self, tot, w, w1, w2] at h ⊢
        exact h.1
      · intro t e h
        simp [eff, effObj, hm, setMem_self, tot, w, w1, w2] at h ⊢
        obtain ⟨rfl, rfl⟩ := h
        simp [Effect.touch, hne, hne', hp1, hp2, newElem]
      · intro t e h
        simp [eff, effObj, hm, setMem_self, tot, w, w1, w2] at h ⊢
        exact h.1
      · intro t e h
        have ht1 : t ≠ t₁ := by intro e; rw [e, h1] at h; cases h
        have ht2 : t ≠ t₂ := by intro e; rw [e, h2] at h; cases h
        by_cases htp : t = p <;>
          simp [eff, effObj, hm, setMem_self, tot, w, w1, w2, Effect.touch, ht1, ht2, ht1.symm, ht2.symm, htp, hp1, hp2, setMem_idem,
            insertKey_idem, Bool.or_comm]
    · have h12 : t₁.after t₂ = true := by rw [tot, w]; rfl
      have := Ticket.after_trans h12 w2
      rw [w1] at this; cases this
    · apply run_comm_gen
      · intro t e h
        simp [eff, effObj, hm, setMem_self, tot, w, w1, w2] at h ⊢
        obtain ⟨rfl, rfl⟩ := h
        simp [Effect.touch, hne, hne', hp1, hp2, newElem]
      · intro t e h
        simp [eff, effObj, hm, setMem_self, tot, w, w1, w2] at h ⊢
        exact h.1
      · intro t e h
        simp [eff, effObj, hm, setMem_self, tot, w, w1, w2] at h ⊢
        obtain ⟨rfl, rfl⟩ := h
        simp [Effect.touch, hne, hne', hp1, hp2, newElem]
      · intro t e h
        simp [eff, effObj, hm, setMem_self, tot, w, w1, w2] at h ⊢
        exact h.1
      · intro t e h
        have ht1 : t ≠ t₁ := by intro e; rw [e, h1] at h; cases h
        have ht2 : t ≠ t₂ := by intro e; rw [e, h2] at h; cases h
        by_cases htp : t = p <;>
          simp [eff, effObj, hm, setMem_self, tot, w, w1, w2, Effect.touch, ht1, ht2, ht1.symm, ht2.symm, htp, hp1, hp2, setMem_idem,
            insertKey_idem, Bool.or_comm]
    · apply run_comm_gen
      · intro t e h
        simp [eff, effObj, hm, setMem_self, tot, w, w1, w2] at h ⊢
        obtain ⟨rfl, rfl⟩ := h
        simp [Effect.touch, hne, hne', hp1, hp2, newElem]
      · intro t e h
        simp [eff, effObj, hm, setMem_self, tot, w, w1, w2] at h ⊢
        exact h.1
      · intro t e h
        simp [eff, effObj, hm, setMem_self, tot, w, w1, w2] at h ⊢
        obtain ⟨rfl, rfl⟩ := h
        simp [Effect.touch, hne, hne', hp1, hp2, newElem]
      · intro t e h
        simp [eff, effObj, hm, setMem_self, tot, w, w1, w2] at h ⊢
        exact h.1
      · intro t e h
        have ht1 : t ≠ t₁ := by intro e; rw [e, h1] at h; cases h
        have ht2 : t ≠ t₂ := by intro e; rw [e, h2] at h; cases h
        by_cases htp : t = p <;>
          simp [eff, effObj, hm, setMem_self, tot, w, w1, w2, Effect.touch, ht1, ht2, ht1.symm, ht2.symm, htp, hp1, hp2, setMem_idem,
            insertKey_idem, Bool.or_comm]
    · apply run_comm_gen
      · intro t e h
        simp [eff, effObj, hm, setMem_self, tot, w, w1, w2] at h ⊢
        obtain ⟨rfl, rfl⟩ := h
        simp [Effect.touch, hne, hne', hp1, hp2, newElem]
      · intro t e h
        simp [eff, effObj, hm, setMem_self, tot, w, w1, w2] at h ⊢
        exact h.1
      · intro t e h
        simp [eff, effObj, hm, setMem_self, tot, w, w1, w2] at h ⊢
        obtain ⟨rfl, rfl⟩ := h
        simp [Effect.touch, hne, hne', hp1, hp2, newElem]
      · intro t e h
        simp [eff, effObj, hm, setMem_self, tot, w, w1, w2] at h ⊢
        exact h.1
      · intro t e h
        have ht1 : t ≠ t₁ := by intro e; rw [e, h1] at h; cases h
        have ht2 : t ≠ t₂ := by intro e; rw [e, h2] at h; cases h
        by_cases htp : t = p <;>
          simp [eff, effObj, hm, setMem_self, tot, w, w1, w2, Effect.touch, ht1, ht2, ht1.symm, ht2.symm, htp, hp1, hp2, setMem_idem,
            insertKey_idem, Bool.or_comm]
    · apply run_comm_gen
      · intro t e h
        simp [eff, effObj, hm, setMem_self, tot, w, w1, w2] at h ⊢
        obtain ⟨rfl, rfl⟩ := h
        simp [Effect.touch, hne, hne', hp1, hp2, newElem]
      · intro t e h
        simp [eff, effObj, hm, setMem_self, tot, w, w1, w2] at h ⊢
        exact h.1
      · intro t e h
        simp [eff, effObj, hm, setMem_self, tot, w, w1, w2] at h ⊢
        obtain ⟨rfl, rfl⟩ := h
        simp [Effect.touch, hne, hne', hp1, hp2, newElem]
      · intro t e h
        simp [eff, effObj, hm, setMem_self, tot, w, w1, w2] at h ⊢
        exact h.1
      · intro t e h
        have ht1 : t ≠ t₁ := by intro e; rw [e, h1] at h; cases h
        have ht2 : t ≠ t₂ := by intro e; rw [e, h2] at h; cases h
        by_cases htp : t = p <;>
          simp [eff, effObj, hm, setMem_self, tot, w, w1, w2, Effect.touch, ht1, ht2, ht1.symm, ht2.symm, htp, hp1, hp2, setMem_idem,
            insertKey_idem, Bool.or_comm]
    · have := Ticket.after_trans w w1
      rw [w2] at this; cases this
    · apply run_comm_gen
      · intro t e h
        simp [eff, effObj, hm, setMem_self, tot, w, w1, w2] at h ⊢
        obtain ⟨rfl, rfl⟩ := h
        simp [Effect.touch, hne, hne', hp1, hp2, newElem]
      · intro t e h
        simp [eff, effObj, hm, setMem_self, tot, w, w1, w2] at h ⊢
        exact h.1
      · intro t e h
        simp [eff, effObj, hm, setMem_self, tot, w, w1, w2] at h ⊢
        obtain ⟨rfl, rfl⟩ := h
        simp [Effect.touch, hne, hne', hp1, hp2, newElem]
      · intro t e h
        simp [eff, effObj, hm, setMem_self, tot, w, w1, w2] at h ⊢
        exact h.1
      · intro t e h
        have ht1 : t ≠ t₁ := by intro e; rw [e, h1] at h; cases h
        have ht2 : t ≠ t₂ := by intro e; rw [e, h2] at h; cases h
        by_cases htp : t = p <;>
          simp [eff, effObj, hm, setMem_self, tot, w, w1, w2, Effect.touch, ht1, ht2, ht1.symm, ht2.symm, htp, hp1, hp2, setMem_idem,
            insertKey_idem, Bool.or_comm]

/-! ### the swap theorem -/

theorem Valid.disjoint {E1 E2 : Effect} {d : Doc} {pe1 pe2 : Elem} {C1 C2 : List Ticket}
    (v1 : Valid E1 d pe1 C1) (v2 : Valid E2 d pe2 C2) (hC : ∀ i ∈ C1, i ∉ C2) :
    ∀ t e, E1.new = some (t, e) → t ≠ E2.p ∧ E2.flag ≠ some t ∧ ∀ e2, E2.new ≠ some (t, e2) := by
  intro t e h
  obtain ⟨hin, hnone, _, _⟩ := v1.mk_ok t e h
  refine ⟨?_, ?_, ?_⟩
  · intro e'; have := v2.hp; rw [← e', hnone] at this; cases this
  · intro hf
    obtain ⟨e', he', _⟩ := isChildOf_iff.1 (v2.flag_ok t hf)
    rw [hnone] at he'; cases he'
  · intro e2 h2
    exact hC t hin (v2.mk_ok t e2 h2).1

theorem Ready.okFor {d : Doc} {op : Op} {pe : Elem} (h : Ready d op pe) :
    op.okFor pe.body.kind = true := by
  have := h.ok
  simp only [succB, Bool.and_eq_true] at this
  exact this.1.1

theorem Ready.step_some {d : Doc} {op : Op} {pe : Elem} (h : Ready d op pe)
    {n : List PosNode} {m : Ticket → Option Ticket} (hb : pe.body = .arr n m) :
    ∃ s', arrStep op ⟨n, m⟩ = some s' := by
  have hok := h.ok
  rw [hb] at hok
  have e1 : (Body.arr n m).hasPos = hasPos n := by funext i; rfl
  have e2 : (Body.arr n m).holds = holds n := by funext i; rfl
  simp only [succB, Body.kind, Bool.and_eq_true, Bool.or_eq_true, bne_iff_ne, ne_eq,
    not_true_eq_false, false_or, e1, e2] at hok
  have hs := arrStep_isSome op ⟨n, m⟩
  cases ha : arrStep op ⟨n, m⟩ with
  | none => rw [ha] at hs; simp [hok.2] at hs
  | some s' => exact ⟨s', rfl⟩

theorem Ready.fresh_nodes {d : Doc} {op : Op} {pe : Elem} {p : Ticket} {pe' : Elem}
    (h : Ready d op pe) (hp : d p = some pe') {n : List PosNode} {m : Ticket → Option Ticket}
    (hb : pe'.body = .arr n m) : ∀ i ∈ creates op, Fresh n i := by
  intro i hi
  have hu := h.fresh i hi
  constructor
  · cases hh : hasPos n i with
    | false => rfl
    | true => exact absurd (Or.inr ⟨_, _, hp, Or.inl (by rw [hb]; exact hh)⟩) hu
  · cases hh : holds n i with
    | false => rfl
    | true => exact absurd (Or.inr ⟨_, _, hp, Or.inr (by rw [hb]; exact hh)⟩) hu

/-- (H2') adjacent swap of sequentially enabled independent operations -/
theorem swap (AL : ArrayLemmas) {d : Doc} {a b : Op} (ha : Pre d a) (hb : Pre (apply d a) b)
    (hi : Indep a b) :
    Pre d b ∧ Pre (apply d b) a ∧ apply (apply d a) b = apply (apply d b) a := by
  have hb0 : Pre d b := pre_back ha hb hi
  have ha' : Pre (apply d b) a := pre_stable hb0 ha hi.symm
  refine ⟨hb0, ha', ?_⟩
  obtain ⟨pa, ra⟩ := ha.ready
  obtain ⟨pb, rb⟩ := hb0.ready
  obtain ⟨pb', rb'⟩ := hb.ready
  obtain ⟨pa', ra'⟩ := ha'.ready
  rw [rb'.apply_eq, ra'.apply_eq, ra.apply_eq, rb.apply_eq]
  have va := valid_eff ra
  have vb := valid_eff rb
  have hcab : ∀ i ∈ creates a, i ∉ creates b := fun i h => (hi.1 i h).2
  have hcba : ∀ i ∈ creates b, i ∉ creates a := fun i h h' => (hi.1 i h').2 h
  have hpb' : pb' = (eff pa.body a).touch b.parent pb := by
    have h1 := rb'.hp
    rw [ra.apply_eq, va.run_old rb.hp] at h1
    exact (Option.some.inj h1).symm
  have hpa' : pa' = (eff pb.body b).touch a.parent pa := by
    have h1 := ra'.hp
    rw [rb.apply_eq, vb.run_old ra.hp] at h1
    exact (Option.some.inj h1).symm
  have hc1 := va.disjoint vb hcab
  have hc2 := vb.disjoint va hcba
  by_cases hpp : a.parent = b.parent
  · -- same parent cell
    have hpab : pa = pb := by
      have h1 := ra.hp; rw [hpp, rb.hp] at h1; exact (Option.some.inj h1).symm
    subst hpab
    have hB2 : pb'.body = (eff pa.body a).body := by
      rw [hpb']; simp [Effect.touch, eff_p, hpp]
    have hB1 : pa'.body = (eff pa.body b).body := by
      rw [hpa']; simp [Effect.touch, eff_p, hpp]
    rw [hB2, hB1]
    -- regular pairs go through `Compat`
    have reg : Compat pa.body a b →
        (eff (eff pa.body a).body b).run ((eff pa.body a).run d) =
          (eff (eff pa.body b).body a).run ((eff pa.body b).run d) := by
      intro hc
      apply run_comm_reg hc.new_a hc.new_b hc.flag_a hc.flag_b
      · simp [eff_p]
      · simp [eff_p]
      · intro _; exact hc.body
      · intro h; simp [eff_p, hpp] at h
      · exact hc1
      · intro t e h; exact ⟨(hc2 t e h).1, (hc2 t e h).2.1⟩
    have oka := ra.okFor
    have okb := rb.okFor
    have hra := ra
    have hrb := rb
    obtain ⟨par, rem, B⟩ := pa
    cases B with
    | prim r => cases a <;> simp [Op.okFor, Body.kind] at oka
    | «opaque» r => cases a <;> simp [Op.okFor, Body.kind] at oka
    | counter l v =>
      cases a <;> simp [Op.okFor, Body.kind] at oka
      cases b <;> simp [Op.okFor, Body.kind] at okb
      exact reg compat_counter
    | arr n m =>
      apply reg
      obtain ⟨sa, h1⟩ := hra.step_some rfl
      obtain ⟨sb, h3⟩ := hrb.step_some rfl
      have e1 : (eff (.arr n m) a).body = .arr sa.nodes sa.moved := by simp only [eff, h1]
      have e3 : (eff (.arr n m) b).body = .arr sb.nodes sb.moved := by simp only [eff, h3]
      obtain ⟨sab, h2⟩ := rb'.step_some (hB2.trans e1)
      obtain ⟨sba, h4⟩ := ra'.step_some (hB1.trans e3)
      have hslots : ElemSlots n := (ha.1 _ _ hra.hp).2.1
      refine compat_arr h1 h2 h3 h4 (arrStep_comm AL (s := ⟨n, m⟩) hslots
        (hra.fresh_nodes hra.hp rfl) (hrb.fresh_nodes hra.hp rfl) ?_ ?_ h1 h2 h3 h4)
      · intro i hia
        exact ⟨fun hib => ha.not_rawRefs (fun j hj => (hi.1 j hj).1) i hib hia, hcab i hia⟩
      · intro i hib hia
        exact hb0.not_rawRefs (fun j hj => hi.2 j hj) i hia hib
    | obj keys member =>
      cases b with
      | remove => exact reg compat_obj_remove_right
      | add => simp [Op.okFor, Body.kind] at okb
      | move => simp [Op.okFor, Body.kind] at okb
      | arraySet => simp [Op.okFor, Body.kind] at okb
      | increase => simp [Op.okFor, Body.kind] at okb
      | set p₂ k₂ v₂ t₂ =>
        cases a with
        | remove => exact reg compat_obj_remove_left
        | add => simp [Op.okFor, Body.kind] at oka
        | move => simp [Op.okFor, Body.kind] at oka
        | arraySet => simp [Op.okFor, Body.kind] at oka
        | increase => simp [Op.okFor, Body.kind] at oka
        | set p₁ k₁ v₁ t₁ =>
          by_cases hk : k₁ = k₂
          · subst hk
            simp only [Op.parent] at hpp
            subst hpp
            have hp := hra.hp
            simp only [Op.parent] at hp
            have n1 : d t₁ = none := hra.none (by simp [creates])
            have n2 : d t₂ = none := hrb.none (by simp [creates])
            refine set_set_same ?_ n1 n2 ?_ ?_
            · have := hcab t₁ (by simp [creates]); simpa [creates] using this
            · intro e; rw [e, hp] at n1; cases n1
            · intro e; rw [e, hp] at n2; cases n2
          · exact reg (compat_obj_set_set hk)
  · -- different parent cells
    have hB2 : pb'.body = pb.body := by
      rw [hpb']; simp [Effect.touch, eff_p, Ne.symm hpp]
    have hB1 : pa'.body = pa.body := by
      rw [hpa']; simp [Effect.touch, eff_p, hpp]
    rw [hB2, hB1]
    apply run_comm_reg rfl rfl rfl rfl rfl rfl
    · intro h; simp [eff_p, hpp] at h
    · intro _; exact ⟨rfl, rfl⟩
    · exact hc1
    · intro t e h; exact ⟨(hc2 t e h).1, (hc2 t e h).2.1⟩

end Yorkie.Crdt
