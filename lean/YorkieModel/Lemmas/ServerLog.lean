/-
Helper lemmas for Model/Server.lean, part 3: reading ranges out of a gap-free log, the pull filter,
checkpoint arithmetic of the push loop.
-/
import YorkieModel.Lemmas.ServerPhases
namespace Yorkie.Server
open Yorkie

/-- a stored document whose log is exactly `1..N` with head `N` -/
def GapFree (doc : Doc) : Prop := seqFrom 0 doc.log ∧ doc.serverSeq = doc.log.length

theorem GapFree.ext {x y : Doc} (e : DocExt x y) (h : GapFree x) : GapFree y := by
  obtain ⟨rows, hl, hq, hs⟩ := e.rows
  refine ⟨?_, ?_⟩
  · rw [hl, seqFrom_append]; exact ⟨h.1, by rw [← h.2, Int.zero_add]; exact hq⟩
  · rw [hs, hl, h.2]; simp

theorem GapFree.fresh (k : Nat) (dp : Bool) : GapFree (freshDoc k dp) := ⟨trivial, rfl⟩

theorem seqFrom_map (n : Nat) (l : List Row) (h : seqFrom (n : Int) l) :
    l.map (·.serverSeq) = (List.range' (n + 1) l.length).map Int.ofNat := by
  induction l generalizing n with
  | nil => simp
  | cons r rs ih =>
    simp only [List.map_cons, List.length_cons, List.range'_succ]
    have h1 : r.serverSeq = Int.ofNat (n + 1) := by rw [h.1]; simp
    have h2 : seqFrom ((n + 1 : Nat) : Int) rs := by simpa using h.2
    rw [h1, ih (n + 1) h2]

def ssLe (m : Int) (r : Row) : Bool := decide (r.serverSeq ≤ m)
def notBy (c : ClientId) (r : Row) : Bool := r.actor != c

theorem filter_ssLe_nil (n m : Int) (l : List Row) (h : seqFrom n l) (hm : m ≤ n) : l.filter (ssLe m) = [] := by
  rw [List.filter_eq_nil_iff]
  intro r hr
  have := (seqFrom_mem_bounds n l h r hr).1
  simp only [ssLe, decide_eq_true_eq]; omega

theorem filter_ssLe_all (n m : Int) (l : List Row) (h : seqFrom n l) (hm : n + l.length ≤ m) :
    l.filter (ssLe m) = l := by
  rw [List.filter_eq_self]
  intro r hr
  have := (seqFrom_mem_bounds n l h r hr).2
  simp only [ssLe, decide_eq_true_eq]; omega

theorem filter_ssLe_take (n m : Int) (l : List Row) (h : seqFrom n l) (hm : n ≤ m) :
    l.filter (ssLe m) = l.take (m - n).toNat := by
  induction l generalizing n with
  | nil => simp
  | cons r rs ih =>
    by_cases hlt : n + 1 ≤ m
    · have e : (m - n).toNat = (m - (n + 1)).toNat + 1 := by omega
      rw [e, List.take_succ_cons, List.filter_cons]
      have : ssLe m r = true := by simp only [ssLe, decide_eq_true_eq]; rw [h.1]; exact hlt
      rw [this, if_pos rfl, ih (n + 1) h.2 hlt]
    · have e : (m - n).toNat = 0 := by omega
      rw [e, List.take_zero]
      exact filter_ssLe_nil n m _ h (by omega)

theorem findBetween_eq (log : List Row) (lo hi : Int) : findBetween log lo hi = log.filter (inRange lo hi) := by
  unfold findBetween
  split
  · next h =>
    symm; rw [List.filter_eq_nil_iff]
    intro r _
    simp only [inRange, Bool.and_eq_true, decide_eq_true_eq]; omega
  · rfl

/-- splitting a sorted log at `a`: rows up to `a`, then rows in `a+1..b`, are the rows up to `b` -/
theorem filter_split (n a b : Int) (l : List Row) (h : seqFrom n l) (hab : a ≤ b) :
    l.filter (ssLe a) ++ l.filter (inRange (a + 1) b) = l.filter (ssLe b) := by
  induction l generalizing n with
  | nil => simp
  | cons r rs ih =>
    by_cases hr : r.serverSeq ≤ a
    · have e1 : ssLe a r = true := by simp [ssLe, hr]
      have e2 : inRange (a + 1) b r = false := by simp [inRange]; omega
      have e3 : ssLe b r = true := by simp only [ssLe, decide_eq_true_eq]; omega
      simp only [List.filter_cons, e1, e2, e3, if_true, Bool.false_eq_true, if_false, List.cons_append]
      rw [ih (n + 1) h.2]
    · have hall : ∀ x ∈ r :: rs, a < x.serverSeq := by
        intro x hx
        have := (seqFrom_mem_bounds n _ h x hx).1
        have h1 := h.1
        rcases List.mem_cons.mp hx with rfl | hx'
        · omega
        · have := (seqFrom_mem_bounds (n + 1) _ h.2 x hx').1; omega
      have e1 : (r :: rs).filter (ssLe a) = [] := by
        rw [List.filter_eq_nil_iff]; intro x hx
        have := hall x hx
        simp only [ssLe, decide_eq_true_eq]; omega
      rw [e1, List.nil_append]
      apply List.filter_congr
      intro x hx
      have := hall x hx
      simp only [inRange, ssLe]
      by_cases hb : x.serverSeq ≤ b <;> simp [hb] <;> omega

theorem pullFilter_others (c : ClientId) (n : Nat) (l : List Row) :
    (pullFilter c n false l).filter (notBy c) = l.filter (notBy c) := by
  induction l with
  | nil => rfl
  | cons r rs ih =>
    simp only [pullFilter, Bool.false_and, Bool.false_eq_true, if_false]
    split
    · next ho =>
      have : notBy c r = false := by
        simp only [isOwnAcked, Bool.and_eq_true, beq_iff_eq] at ho
        simp [notBy, ho.1]
      rw [List.filter_cons, this]; simpa using ih
    · simp only [List.filter_cons, ih]

theorem pullFilter_mem (c : ClientId) (n : Nat) (l : List Row) (r : Row) (h : r ∈ pullFilter c n false l) :
    r ∈ l ∧ isOwnAcked c n r = false := by
  induction l with
  | nil => simp [pullFilter] at h
  | cons x xs ih =>
    simp only [pullFilter, Bool.false_and, Bool.false_eq_true, if_false] at h
    split at h
    · have := ih h; exact ⟨List.mem_cons_of_mem _ this.1, this.2⟩
    · next ho =>
      rcases List.mem_cons.mp h with rfl | h
      · exact ⟨List.mem_cons_self .., by simpa using ho⟩
      · have := ih h; exact ⟨List.mem_cons_of_mem _ this.1, this.2⟩

/-! ### checkpoint arithmetic -/

theorem nextServerSeq_serverSeq (c : Checkpoint) (s : Int) : (c.nextServerSeq s).serverSeq = s := by
  unfold Checkpoint.nextServerSeq; split
  · next h => exact h
  · rfl

theorem nextServerSeq_clientSeq (c : Checkpoint) (s : Int) : (c.nextServerSeq s).clientSeq = c.clientSeq := by
  unfold Checkpoint.nextServerSeq; split <;> rfl

theorem syncClientSeq_clientSeq (c : Checkpoint) (n : Nat) : (c.syncClientSeq n).clientSeq = Max.max c.clientSeq n := by
  unfold Checkpoint.syncClientSeq
  split
  · next h => show n = _; omega
  · next h => show c.clientSeq = _; omega

theorem assignSeqs_cp_ge (gen : Nat) (head : Int) (cp : Checkpoint) (cs : List ChangeReq) :
    cp.clientSeq ≤ (assignSeqs gen head cp cs).2.2.clientSeq := by
  induction cs generalizing head cp with
  | nil => simp [assignSeqs]
  | cons c rest ih =>
    simp only [assignSeqs]
    refine Nat.le_trans ?_ (ih (head + 1) _)
    rw [syncClientSeq_clientSeq, nextServerSeq_clientSeq]; omega

/-- every pushed row is acknowledged by the checkpoint after the push -/
theorem assignSeqs_cp_covers (gen : Nat) (head : Int) (cp : Checkpoint) (cs : List ChangeReq) :
    ∀ r ∈ (assignSeqs gen head cp cs).1, r.clientSeq ≤ (assignSeqs gen head cp cs).2.2.clientSeq := by
  induction cs generalizing head cp with
  | nil => simp [assignSeqs]
  | cons c rest ih =>
    simp only [assignSeqs]
    intro r hr
    rcases List.mem_cons.mp hr with rfl | hr
    · refine Nat.le_trans ?_ (assignSeqs_cp_ge gen (head + 1) _ rest)
      rw [syncClientSeq_clientSeq]; simp [mkRow]; omega
    · exact ih _ _ r hr

end Yorkie.Server
