/-
`Tree.WF` at the level of operations and replicas (Model/TreeDoc.lean): `TreeStyle`, `TreeEdit` without
element split, applied locally, remotely or by the server's replay; both copies of a replica.
-/
import YorkieModel.Lemmas.TreeWFAlloc
namespace Yorkie.Tree
open Yorkie

/-- an operation without element split: every `TreeStyle`, every `TreeEdit` with `splitLevel = 0` -/
def Op.noSplit : Op → Bool
  | .edit _ _ _ sl _ _ => sl == 0
  | .style _ _ _ _ => true

/-- the allocation of the contents of an edit: detached, pairwise distinct roots on a well-formed arena -/
theorem allocFold_good : ∀ (l : List (List Flat)) (a : Tree) (ps : List Ptr) (t1 : Tree) (ps' : List Ptr), a.WF →
    (∀ c ∈ ps, c < a.size ∧ (a.get c).parent = none) → ps.Nodup →
    l.foldl (fun (acc : Except Err (Tree × List Ptr)) fl =>
      match acc with
      | .error e => .error e
      | .ok (a, ps) =>
        match a.allocFlat fl with
        | .error e => .error e
        | .ok (a', p) => .ok (a', ps ++ [p])) (.ok (a, ps)) = .ok (t1, ps') →
    t1.WF ∧ a.size ≤ t1.size ∧ (∀ c ∈ ps', c < t1.size ∧ (t1.get c).parent = none) ∧ ps'.Nodup
  | [], a, ps, t1, ps', w, hps, hnd, h => by
    simp only [List.foldl_nil] at h; cases h; exact ⟨w, Nat.le_refl _, hps, hnd⟩
  | fl :: r, a, ps, t1, ps', w, hps, hnd, h => by
    rw [List.foldl_cons] at h
    simp only at h
    cases hal : a.allocFlat fl with
    | error e =>
      simp only [hal] at h
      exfalso
      have : ∀ (l : List (List Flat)) (e : Err), l.foldl (fun (acc : Except Err (Tree × List Ptr)) fl =>
          match acc with
          | .error e => .error e
          | .ok (a, ps) =>
            match a.allocFlat fl with
            | .error e => .error e
            | .ok (a', p) => .ok (a', ps ++ [p])) (.error e) = .error e := by
        intro l e; induction l with
        | nil => rfl
        | cons x r ih => rw [List.foldl_cons]; exact ih
      rw [this] at h; cases h
    | ok x =>
      obtain ⟨a', p⟩ := x
      simp only [hal] at h
      have g := allocFlat_good w fl hal
      have ih := allocFold_good r a' (ps ++ [p]) t1 ps' g.1
        (fun c hc => by
          rcases List.mem_append.mp hc with hc | hc
          · have := hps c hc
            exact ⟨Nat.lt_of_lt_of_le this.1 g.2.1.1, g.2.1.2 c this.1 this.2⟩
          · simp at hc; subst hc; exact ⟨g.2.2.2.1, g.2.2.2.2⟩)
        (by
          rw [List.nodup_append]
          refine ⟨hnd, by simp, ?_⟩
          intro x hx y hy
          simp at hy; subst hy
          intro e
          have := (hps x hx).1
          have h2 := g.2.2.1
          rw [← e] at h2
          exact absurd this (Nat.not_lt.mpr h2)) h
      exact ⟨ih.1, Nat.le_trans g.2.1.1 ih.2.1, ih.2.2⟩

theorem applyEdit_wf {t t' : Tree} {src src' : TickSrc} (w : t.WF) (fr to : Pos) (contents : List (List Flat))
    (ts : Ticket) (vv : VV) (rev : Bool) (h : t.applyEdit fr to contents 0 ts src vv rev = .ok (t', src')) :
    t'.WF ∧ t.size ≤ t'.size := by
  unfold Tree.applyEdit at h
  simp only at h
  split at h
  · cases h
  · rename_i t1 ps hal
    have g := allocFold_good contents t [] t1 ps w (fun c hc => by cases hc) List.nodup_nil hal
    have e := edit_wf g.1 fr to ps ts vv rev g.2.2.1 g.2.2.2 h
    exact ⟨e.1, Nat.le_trans g.2.1 e.2⟩

/-- **Operations without element split keep the tree well-formed**, wherever they execute (the json-layer
    call on the clone, `Change.Execute` on the root, a remote change, the server's replay) -/
theorem applyOp_wf {t t' : Tree} (w : t.WF) (op : Op) (vv : VV) (rev : Bool) (hop : op.noSplit = true)
    (h : t.applyOp op vv rev = .ok t') : t'.WF := by
  cases op with
  | style fr to arg ts => exact (style_wf w fr to arg ts vv h).1
  | edit fr to cs sl ts st =>
    simp [Op.noSplit] at hop
    subst hop
    unfold Tree.applyOp at h
    simp only at h
    split at h
    · cases h
    · rename_i t'' s'' heq
      cases h
      exact (applyEdit_wf w fr to cs ts vv rev heq).1

/-- a replica whose two copies are well-formed -/
def Rep.WF (r : Rep) : Prop := r.root.WF ∧ r.clone.WF

/-- applying a remote change keeps both copies well-formed -/
theorem Rep.applyRemote_wf {r r' : Rep} (w : r.WF) (ch : Change) (hop : ch.op.noSplit = true)
    (h : r.applyRemote ch = .ok r') : r'.WF := by
  unfold Rep.applyRemote at h
  split at h
  · cases h
  · rename_i clone' hc
    split at h
    · cases h
    · rename_i root' hr
      cases h
      exact ⟨applyOp_wf w.1 _ _ _ hop hr, applyOp_wf w.2 _ _ _ hop hc⟩

/-- a client seeded from a snapshot has two well-formed copies -/
theorem seeded_wf {s : Tree} {r : Rep} (h : seeded s = .ok r) : r.WF := by
  unfold seeded at h
  split at h
  · cases h
  · rename_i t ht
    cases h
    exact ⟨snapshot_wf ht, deepCopy_wf (snapshot_wf ht)⟩

/-- the clone of a snapshot-seeded client renders exactly like its root (every snapshot, every tree) -/
theorem seeded_clone_eq_root {s : Tree} {r : Rep} (h : seeded s = .ok r) :
    r.clone.toXMLCodes = r.root.toXMLCodes ∧ r.clone.marshalCodes = r.root.marshalCodes := by
  unfold seeded at h
  split at h
  · cases h
  · cases h
    exact ⟨toXMLCodes_congr (view_deepCopy _), marshalCodes_congr (view_deepCopy _)⟩

/-! ### the json layer -/

/-- a json-layer call without element split -/
def Call.noSplit : Call → Bool
  | .edit _ _ _ sl => sl == 0
  | _ => true

theorem localCall_wf {clone t' : Tree} {op : Op} (w : clone.WF) (nid : ChangeID) (c : Call) (hc : c.noSplit = true)
    (h : localCall clone nid c = .ok (some (t', op))) : t'.WF ∧ op.noSplit = true := by
  unfold localCall at h
  cases c with
  | nop => simp at h
  | edit fr to contents sl =>
    simp [Call.noSplit] at hc
    subst hc
    simp only at h
    split at h
    · cases h
    · split at h
      · rename_i fp tp _ _
        try simp only at h
        split at h
        · cases h
        · rename_i t'' src'' heq
          cases h
          exact ⟨(applyEdit_wf w _ _ _ _ _ _ heq).1, by simp [Op.noSplit]⟩
      · cases h
      · cases h
  | style fr to kvs =>
    simp only at h
    split at h
    · cases h
    · split at h
      · cases h
      · split at h
        · try simp only at h
          split at h
          · cases h
          · rename_i t'' heq
            cases h
            exact ⟨(style_wf w _ _ _ _ _ heq).1, rfl⟩
        · cases h
        · cases h
  | removeStyle fr to keys =>
    simp only at h
    split at h
    · cases h
    · split at h
      · cases h
      · split at h
        · try simp only at h
          split at h
          · cases h
          · rename_i t'' heq
            cases h
            exact ⟨(style_wf w _ _ _ _ _ heq).1, rfl⟩
        · cases h
        · cases h

/-- **`Document.Update` with a call without element split keeps both copies well-formed**, and the operation it
    emits is again without element split -/
theorem Rep.update_wf {r r' : Rep} {ch : Option Change} (w : r.WF) (c : Call) (hc : c.noSplit = true)
    (h : r.update c = .ok (r', ch)) : r'.WF ∧ ∀ x, ch = some x → x.op.noSplit = true := by
  unfold Rep.update at h
  simp only at h
  split at h
  · cases h
  · cases h; exact ⟨w, fun x hx => by cases hx⟩
  · rename_i clone' op hl
    have g := localCall_wf w.2 _ c hc hl
    split at h
    · cases h
    · rename_i root' hr
      cases h
      exact ⟨⟨applyOp_wf w.1 op _ _ g.2 hr, g.1⟩, fun x hx => by cases hx; exact g.2⟩

/-! ### trees built by the json layer (`buildRoot`/`buildDescendants`) -/

theorem allocJGo_wf (lam : Int) (actor : Actor) : ∀ (items : List JItem) (stack : List (Nat × Ptr)) (delim : Nat)
    (t : Tree) (root : Option Ptr), t.WF → (∀ e ∈ stack, e.2 < t.size) → (∀ p, root = some p → p < t.size) →
    (allocJGo lam actor items stack delim t root).1.WF ∧
    (∀ p, (allocJGo lam actor items stack delim t root).2.2 = some p → p < (allocJGo lam actor items stack delim t root).1.size) ∧
    t.size ≤ (allocJGo lam actor items stack delim t root).1.size
  | [], _, _, t, root, w, _, hr => by unfold allocJGo; exact ⟨w, hr, Nat.le_refl _⟩
  | it :: r, stack, delim, t, root, w, hst, hr => by
    unfold allocJGo
    simp only
    -- the freshly allocated node
    generalize hnd : mkNode ⟨⟨lam, delim + 1, actor⟩, 0⟩ it.type it.value
      (it.attrs.foldl (fun acc kv => rhtSet acc kv.1 kv.2 ⟨lam, delim + 1, actor⟩) []) = nd
    have hndp : nd.parent = none := by rw [← hnd]; rfl
    have hndc : nd.children = [] := by rw [← hnd]; rfl
    have w1 := w.alloc nd hndp hndc
    have hs1 : (t.alloc nd).1.size = t.size + 1 := rfl
    have hp : (t.alloc nd).2 = t.size := rfl
    have hsub : ∀ e ∈ stack.dropWhile (fun e => decide (e.1 ≥ it.depth)), e.2 < t.size :=
      fun e he => hst e ((List.dropWhile_sublist _).subset he)
    -- the linked tree
    have key : ∀ t2, (match stack.dropWhile (fun e => decide (e.1 ≥ it.depth)) with
        | (_, par) :: _ => (((t.alloc nd).1.setChildren' par (((t.alloc nd).1.get par).children ++ [t.size])).setParent t.size (some par)).addLens t.size
        | [] => (t.alloc nd).1) = t2 → t2.WF ∧ t2.size = t.size + 1 := by
      intro t2 h2
      split at h2
      · rename_i d par rest hst'
        have hpar : par < t.size := hsub (d, par) (hst' ▸ List.mem_cons_self)
        subst h2
        have wl := w1.link par t.size (((t.alloc nd).1.get par).children ++ [t.size])
          (by rw [hs1]; exact Nat.lt_succ_of_lt hpar) (by rw [hs1]; exact Nat.lt_succ_self _)
          (by rw [get_alloc t nd w.size_eq]; simp [hndp]) (List.perm_append_singleton _ _)
        have sl := SameLinks.addLens (((t.alloc nd).1.setChildren' par (((t.alloc nd).1.get par).children ++ [t.size])).setParent t.size (some par)) t.size
        exact ⟨wl.sameLinks sl, by rw [sl.1]; rfl⟩
      · subst h2; exact ⟨w1, rfl⟩
    have k2 := key _ rfl
    have ih := allocJGo_wf lam actor r ((it.depth, t.size) :: stack.dropWhile (fun e => decide (e.1 ≥ it.depth))) (delim + 1) _
      (if root.isNone = true then some t.size else root) k2.1
      (fun e he => by
        rw [k2.2]
        rcases List.mem_cons.mp he with he | he
        · rw [he]; exact Nat.lt_succ_self _
        · exact Nat.lt_succ_of_lt (hsub e he))
      (fun p hpp => by
        rw [k2.2]
        split at hpp
        · cases hpp; exact Nat.lt_succ_self _
        · exact Nat.lt_succ_of_lt (hr p hpp))
    exact ⟨ih.1, ih.2.1, Nat.le_trans (by rw [k2.2]; exact Nat.le_succ _) ih.2.2⟩

/-- **every tree `SetNewTree` builds is well-formed** -/
theorem initialTree_wf (a : Actor) (it : JItem) (r : List JItem) : (initialTree a (it :: r)).WF := by
  unfold initialTree
  simp only
  unfold allocJGo
  simp only [List.dropWhile_nil]
  generalize hnd : mkNode ⟨⟨1, 0 + 1, a⟩, 0⟩ it.type it.value
    (it.attrs.foldl (fun acc kv => rhtSet acc kv.1 kv.2 ⟨1, 0 + 1, a⟩) []) = nd
  have hndp : nd.parent = none := by rw [← hnd]; rfl
  have hndc : nd.children = [] := by rw [← hnd]; rfl
  have w1 : (emptyTree.alloc nd).1.WF :=
    wf_of_fresh [nd] (fun x hx => by simp at hx; subst hx; exact ⟨hndp, hndc⟩) (by simp)
  have g := allocJGo_wf 1 a r [(it.depth, (emptyTree.alloc nd).2)] (0 + 1) (emptyTree.alloc nd).1 (some (emptyTree.alloc nd).2) w1
    (fun e he => by simp at he; subst he; exact Nat.lt_succ_self _)
    (fun p hp => by cases hp; exact Nat.lt_succ_self _)
  cases hroot : (allocJGo 1 a r [(it.depth, (emptyTree.alloc nd).2)] (0 + 1) (emptyTree.alloc nd).1 (some (emptyTree.alloc nd).2)).2.2 with
  | none =>
    exact newTree_wf g.1 _ (by
      simp only [Option.isNone_none, if_true]
      rw [hroot]
      exact Nat.lt_of_lt_of_le (Nat.lt_succ_self 0) g.2.2)
  | some p => exact newTree_wf g.1 _ (by simp only [Option.isNone_none, if_true]; rw [hroot]; exact g.2.1 p hroot)

end Yorkie.Tree
