/- FindForArray and DeleteRange against the list specification. -/
import YorkieModel.Lemmas.SplayOps2
namespace Yorkie.Splay
open T

/-! ### FindForArray -/

theorem descendArray_spec {t : T} (hw : t.wf) (i : Nat) (hi : i < t.weight) (p : List Frame) :
    ∃ X q, descendArray t i p = some (X, q) ∧ plug X q = plug t p ∧
      Spec.findArr t.toList i = some (rootId X) := by
  induction t generalizing i p with
  | nil => simp at hi
  | node l id len w r ihl ihr =>
    obtain ⟨hl, hr, hw'⟩ := hw
    have hlw := wf_weight hl
    have hrw := wf_weight hr
    simp only [weight_node] at hi
    simp only [descendArray]
    by_cases c1 : i < l.weight
    · rw [if_pos c1]
      obtain ⟨X, q, h1, h2, h3⟩ := ihl hl i c1 (.inL id len w r :: p)
      refine ⟨X, q, h1, by rw [h2]; rfl, ?_⟩
      rw [toList_node, Spec.findArr_append_left (by rw [← hlw]; exact c1)]; exact h3
    · rw [if_neg c1]
      have hf0 : Spec.findArr (toList (node l id len w r)) i =
          Spec.findArr ((id, len) :: r.toList) (i - l.weight) := by
        rw [toList_node, hlw]; exact Spec.findArr_append_right (by rw [← hlw]; omega)
      by_cases c2 : (!r.isNil && decide (l.weight + len ≤ i)) = true
      · rw [if_pos c2]
        simp only [Bool.and_eq_true, Bool.not_eq_true', decide_eq_true_eq] at c2
        obtain ⟨X, q, h1, h2, h3⟩ := ihr hr (i - (l.weight + len)) (by omega) (.inR l id len w :: p)
        refine ⟨X, q, h1, by rw [h2]; rfl, ?_⟩
        rw [hf0]; simp only [Spec.findArr]
        rw [if_neg (by omega), ← h3]; congr 1; omega
      · rw [if_neg c2]
        refine ⟨_, _, rfl, rfl, ?_⟩
        rw [hf0]; simp only [Spec.findArr, rootId]
        rw [if_pos]
        simp only [Bool.and_eq_true, Bool.not_eq_true', decide_eq_true_eq, not_and, Nat.not_le] at c2
        by_cases e : r = nil
        · subst e; simp at hw'; omega
        · have := c2 (by cases r <;> simp_all [isNil]); omega

theorem findForArray_spec {t : T} (hw : t.wf) (i : Nat) :
    (findForArray t i).2.toList = t.toList ∧ (findForArray t i).2.wf ∧
    (findForArray t i).1 = Spec.findArrRes t.toList i := by
  cases t with
  | nil => simp [findForArray, Spec.findArrRes]
  | node l id len w r =>
    have hcons : ∃ a rest, toList (node l id len w r) = a :: rest := by
      cases hl : l.toList with
      | nil => exact ⟨(id, len), r.toList, by simp [hl]⟩
      | cons a rest => exact ⟨a, rest ++ (id, len) :: r.toList, by simp [hl]⟩
    obtain ⟨a0, rest0, hcons⟩ := hcons
    simp only [findForArray]
    by_cases c : i ≥ (node l id len w r).weight
    · rw [if_pos c]
      refine ⟨rfl, hw, ?_⟩
      have : Spec.findArr (toList (node l id len w r)) i = none := by
        have : sumLen (toList (node l id len w r)) ≤ i := by rw [← wf_weight hw]; exact c
        clear c
        generalize toList (node l id len w r) = L at this
        induction L generalizing i with
        | nil => rfl
        | cons a L ih =>
          simp at this
          simp only [Spec.findArr]; rw [if_neg (by omega)]; exact ih (i - a.2) (by omega)
      rw [hcons] at this ⊢; simp only [Spec.findArrRes, this]
    · rw [if_neg c]
      obtain ⟨X, q, h1, h2, h3⟩ := descendArray_spec hw i (by omega) []
      simp only [h1]
      refine ⟨by rw [toList_splayUp, h2]; rfl,
        wf_iff_okD.2 (okD_splayUp (by rw [h2]; exact wf_iff_okD.1 hw)), ?_⟩
      rw [hcons] at h3 ⊢; simp only [Spec.findArrRes, h3]

/-! ### list decompositions under distinct ids -/

theorem decomp_unique {A A' B B' : Spec.L} {x l l' : Nat}
    (h : A ++ (x, l) :: B = A' ++ (x, l') :: B') (hx : x ∉ Spec.ids A) (hx' : x ∉ Spec.ids A') :
    A = A' ∧ l = l' ∧ B = B' := by
  induction A generalizing A' with
  | nil =>
    cases A' with
    | nil => simp at h; exact ⟨rfl, h.1, h.2⟩
    | cons a' A' =>
      simp at h; simp [Spec.ids] at hx'
      exact absurd (by rw [← h.1]) hx'.1
  | cons a A ih =>
    cases A' with
    | nil =>
      simp at h; simp [Spec.ids] at hx
      exact absurd (by rw [h.1]) hx.1
    | cons a' A' =>
      simp at h
      simp [Spec.ids] at hx hx'
      obtain ⟨e1, e2, e3⟩ := ih h.2 (by simpa [Spec.ids] using hx.2) (by simpa [Spec.ids] using hx'.2)
      exact ⟨by rw [h.1, e1], e2, e3⟩

theorem nodup_mid {A B : Spec.L} {x l : Nat} (h : (Spec.ids (A ++ (x, l) :: B)).Nodup) :
    x ∉ Spec.ids A ∧ x ∉ Spec.ids B ∧ (∀ y ∈ Spec.ids A, y ∉ Spec.ids B) ∧
    (Spec.ids A).Nodup ∧ (Spec.ids B).Nodup := by
  simp only [Spec.ids, List.map_append, List.map_cons] at h ⊢
  obtain ⟨h1, h2, h3⟩ := List.nodup_append.1 h
  simp only [List.nodup_cons] at h2
  refine ⟨fun hm => h3 x hm x (by simp) rfl, h2.1, fun y hy hy' => h3 y hy y (by simp [hy']) rfl, h1, h2.2⟩

/-! ### DeleteRange -/

/-- after `Splay(l); Splay(r)` with `r` to the right of `l`, `l` is the left child or
the left-left grandchild of the root: the only two cases `DeleteRange` handles -/
theorem splayUp_last_inR (xa : T) (x lx wx : Nat) (xb : T) (q' : List Frame) (a : T) (L lL wL : Nat) :
    ∃ A B, splayUp (node xa x lx wx xb) (q' ++ [.inR a L lL wL]) = mk A x lx B ∧
      ((∃ m, A = mk a L lL m) ∨ (∃ m q lq c, A = mk (mk a L lL m) q lq c)) := by
  induction q' using list_two_step generalizing xa wx xb with
  | h0 => exact ⟨_, _, rfl, .inl ⟨_, rfl⟩⟩
  | h1 f =>
    cases f with
    | inL p lp wp c => exact ⟨_, _, rfl, .inl ⟨_, rfl⟩⟩
    | inR c p lp wp => exact ⟨_, _, rfl, .inr ⟨_, _, _, _, rfl⟩⟩
  | h2 f g rest ih =>
    cases f <;> cases g <;> simp only [List.cons_append, splayUp, rotR, rotL, mk] <;> exact ih _ _ _

theorem wf_resetW_of_zero {m : T} (h : ∀ e ∈ m.toList, e.2 = 0) : m.resetW.wf ∧ m.resetW.weight = 0 := by
  induction m with
  | nil => exact ⟨trivial, rfl⟩
  | node l id len w r ihl ihr =>
    have hl := ihl (fun e he => h e (by simp [he]))
    have hr := ihr (fun e he => h e (by simp [he]))
    have : len = 0 := h (id, len) (by simp)
    simp [T.resetW, hl, hr, this]

@[simp] theorem toList_resetW (m : T) : m.resetW.toList = m.toList := by
  induction m with
  | nil => rfl
  | node l id len w r ihl ihr => simp [T.resetW, ihl, ihr]

/-- `cutOffRight` re-initialises each node's weight to its own `Len()`; that is exact
only if every child below has live length 0 -/
theorem wf_resetW_iff_children_zero (l : T) (id len w : Nat) (r : T) :
    (node l id len w r).resetW.wf → sumLen l.toList = 0 ∧ sumLen r.toList = 0 := by
  intro h
  simp only [T.resetW, wf_node] at h
  obtain ⟨hl, hr, hw⟩ := h
  have h1 := wf_weight hl
  have h2 := wf_weight hr
  simp only [toList_resetW] at h1 h2
  omega

theorem clean_of_disjoint {D : Nat → Bool} {a : T} {mid : Spec.L}
    (hD : ∀ y, D y = true → y ∈ Spec.ids mid) (hdis : ∀ y ∈ a.ids, y ∉ Spec.ids mid) : clean D a := by
  intro y hy
  cases h : D y with
  | false => rfl
  | true => exact absurd (hD y h) (hdis y hy)

theorem deleteRange_none_spec {lb : Nat} {t : T} {pre mid : Spec.L} {ll : Nat} {D : Nat → Bool}
    (hn : t.ids.Nodup) (hl : t.toList = pre ++ (lb, ll) :: mid)
    (hD : ∀ y, D y = true → y ∈ Spec.ids mid) (h : okD D t) (h0 : ∀ e ∈ mid, e.2 = 0) :
    (deleteRange lb none t).toList = t.toList ∧ (deleteRange lb none t).wf := by
  have hlb : lb ∈ t.ids := by rw [← ids_toList, hl]; simp [Spec.ids]
  obtain ⟨a, ll', b, hs⟩ := splay_root hlb
  have hl1 : a.toList ++ (lb, ll') :: b.toList = pre ++ (lb, ll) :: mid := by
    rw [← hl, ← toList_splay lb t, hs]; rfl
  have hn' : (Spec.ids (pre ++ (lb, ll) :: mid)).Nodup := by rw [← hl]; exact hn
  have hn1 : (Spec.ids (a.toList ++ (lb, ll') :: b.toList)).Nodup := by rw [hl1]; exact hn'
  obtain ⟨ea, el, eb⟩ := decomp_unique hl1 (nodup_mid hn1).1 (nodup_mid hn').1
  have hk := okD_splay (x := lb) h
  rw [hs, okD_mk] at hk
  have hwa : a.wf := okD_clean_wf hk.1 (clean_of_disjoint hD (fun y hy => by
    rw [← ids_toList, ea] at hy; exact (nodup_mid hn').2.2.1 y hy))
  have hz := wf_resetW_of_zero (m := b) (by rw [eb]; exact h0)
  simp only [deleteRange, hs, mk, if_true]
  exact ⟨by rw [hl, ← hl1]; simp, by simp [hwa, hz.1]⟩

theorem deleteRange_some_spec {lb rb : Nat} {t : T} {pre mid post : Spec.L} {ll lr : Nat}
    {D : Nat → Bool} (hn : t.ids.Nodup) (hl : t.toList = pre ++ (lb, ll) :: (mid ++ (rb, lr) :: post))
    (hD : ∀ y, D y = true → y ∈ Spec.ids mid) (h : okD D t) (h0 : ∀ e ∈ mid, e.2 = 0) :
    (deleteRange lb (some rb) t).toList = t.toList ∧ (deleteRange lb (some rb) t).wf := by
  have hlb : lb ∈ t.ids := by rw [← ids_toList, hl]; simp [Spec.ids]
  obtain ⟨a, ll', b, hs⟩ := splay_root hlb
  have hl1 : a.toList ++ (lb, ll') :: b.toList = pre ++ (lb, ll) :: (mid ++ (rb, lr) :: post) := by
    rw [← hl, ← toList_splay lb t, hs]; rfl
  have hn' : (Spec.ids (pre ++ (lb, ll) :: (mid ++ (rb, lr) :: post))).Nodup := by rw [← hl]; exact hn
  have hn1 : (Spec.ids (a.toList ++ (lb, ll') :: b.toList)).Nodup := by rw [hl1]; exact hn'
  obtain ⟨ea, el, eb⟩ := decomp_unique hl1 (nodup_mid hn1).1 (nodup_mid hn').1
  obtain ⟨hlbpre, hlbrest, hprerest, hnpre, hnrest⟩ := nodup_mid hn'
  obtain ⟨hrbmid, hrbpost, hmidpost, hnmid, hnpost⟩ := nodup_mid hnrest
  have hk := okD_splay (x := lb) h
  -- locate rb in the splayed tree: it is in the right subtree of lb
  have hne : lb ≠ rb := fun e => hlbrest (by rw [e]; simp [Spec.ids])
  have hrba : rb ∉ a.ids := by
    rw [← ids_toList, ea]; intro hm; exact hprerest rb hm (by simp [Spec.ids])
  have hrbb : rb ∈ b.ids := by rw [← ids_toList, eb]; simp [Spec.ids]
  obtain ⟨X, q, hloc⟩ := locate_isSome [.inR a lb ll' (ll' + a.weight + b.weight)] hrbb
  obtain ⟨hplug, ⟨xa, lx, wx, xb, rfl⟩, q', rfl⟩ := locate_plug hloc
  have hloc2 : locate rb (splay lb t) [] =
      some (node xa rb lx wx xb, q' ++ [.inR a lb ll' (ll' + a.weight + b.weight)]) := by
    rw [hs]; simp only [mk, locate, if_neg hne, (locate_none _).2 hrba]; exact hloc
  obtain ⟨A, B, hsp, hform⟩ := splayUp_last_inR xa rb lx wx xb q' a lb ll' (ll' + a.weight + b.weight)
  have hs2 : splay rb (splay lb t) = mk A rb lx B := by rw [splay_eq_of_locate hloc2, hsp]
  have hk2 : okD D (mk A rb lx B) := by rw [← hs2]; exact okD_splay hk
  rw [okD_mk] at hk2
  have hl2 : A.toList ++ (rb, lx) :: B.toList = (pre ++ (lb, ll) :: mid) ++ (rb, lr) :: post := by
    have : (splay rb (splay lb t)).toList = t.toList := by simp
    rw [hs2, hl] at this; simpa using this
  have hn2' : (Spec.ids ((pre ++ (lb, ll) :: mid) ++ (rb, lr) :: post)).Nodup := by simpa using hn'
  have hn2 : (Spec.ids (A.toList ++ (rb, lx) :: B.toList)).Nodup := by rw [hl2]; exact hn2'
  obtain ⟨eA, elx, eB⟩ := decomp_unique hl2 (nodup_mid hn2).1 (nodup_mid hn2').1
  have hwB : B.wf := okD_clean_wf hk2.2 (clean_of_disjoint hD (fun y hy hm => by
    rw [← ids_toList, eB] at hy; exact hmidpost y hm hy))
  have hapre : ∀ y ∈ a.ids, y ∉ Spec.ids mid := fun y hy hm => by
    rw [← ids_toList, ea] at hy
    exact hprerest y hy (by simp only [Spec.ids, List.map_append, List.mem_append]; exact .inl hm)
  rcases hform with ⟨m, rfl⟩ | ⟨m, qq, lq, c, rfl⟩
  · -- rightBoundary.left == leftBoundary
    have em : m.toList = mid := by
      have : a.toList ++ (lb, ll') :: m.toList = pre ++ (lb, ll) :: mid := by simpa using eA
      rw [ea, el] at this; simpa using this
    rw [okD_mk] at hk2
    have hwa : a.wf := okD_clean_wf hk2.1.1 (clean_of_disjoint hD hapre)
    have hz := wf_resetW_of_zero (m := m) (by rw [em]; exact h0)
    simp only [deleteRange, hs2, mk, if_true]
    refine ⟨?_, by simp [hwa, hz.1, hwB]⟩
    rw [hl]; simp [ea, el, em, elx, eB]
  · -- one rotateRight(leftBoundary) is needed
    have em : m.toList ++ (qq, lq) :: c.toList = mid := by
      have : a.toList ++ (lb, ll') :: (m.toList ++ (qq, lq) :: c.toList) = pre ++ (lb, ll) :: mid := by
        simpa using eA
      rw [ea, el] at this; simpa using this
    have hq : qq ≠ lb := by
      rintro rfl
      apply hlbrest
      simp [Spec.ids, ← em]
    rw [okD_mk, okD_mk] at hk2
    have hwa : a.wf := okD_clean_wf hk2.1.1.1 (clean_of_disjoint hD hapre)
    have hz := wf_resetW_of_zero (m := mk m qq lq c) (by simp only [toList_mk]; rw [em]; exact h0)
    simp only [mk] at hz
    simp only [deleteRange, hs2, mk, rotR, if_neg hq, if_true]
    refine ⟨?_, by simp [hwa, hz.1, hwB]⟩
    rw [hl]; simp [ea, el, ← em, elx, eB]

end Yorkie.Splay
