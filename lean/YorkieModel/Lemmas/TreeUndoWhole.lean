/-
Identity preservation of `Tree.Retombstone` / `Tree.Restore` for ANY NUMBER of whole nodes (unbounded): when every
span names exactly one attached, live node of the arena - an element, or a text node the span covers entirely (the
shape of the spans a whole-element / whole-paragraph / multi-sibling delete records) - re-removing all of them and
restoring all of them succeeds and gives back every field of every node except the cached lengths: the SAME nodes
come back under their ids, nothing is copied, `ToXML()` is what it was.
-/
import YorkieModel.Lemmas.TreeUndo
namespace Yorkie.TreeUndo
open Yorkie Yorkie.Tree

/-! ### one node -/

theorem setRemoved_self (x : TNode) (h : x.removedAt = r) : ({ x with removedAt := r } : TNode) = x := by
  cases x; simp only at h; subst h; rfl

/-- `TreeNode.remove` on a live node = set the flag, as far as everything but the cached lengths goes -/
theorem core_removeNode_live (t : Tree) (n : Ptr) (ts : Ticket) (h : (t.get n).removedAt = none) (q : Ptr) :
    coreOf ((t.removeNode n ts).get q) = coreOf ((t.modify n fun x => { x with removedAt := some ts }).get q) := by
  unfold Tree.removeNode
  simp only [h]
  exact core_updAnc _ _ _ _ _ q

/-- `TreeNode.unremove` = clear the flag, as far as everything but the cached lengths goes -/
theorem core_unremove (t : Tree) (n : Ptr) (q : Ptr) :
    coreOf ((unremove t n).get q) = coreOf ((t.modify n fun x => { x with removedAt := none }).get q) := by
  unfold unremove
  split
  · rename_i h
    rw [get_modify]
    split
    · rename_i hq
      obtain ⟨hq, _⟩ := hq
      subst hq
      rw [setRemoved_self _ h]
    · rfl
  · exact core_updAnc _ _ _ _ _ q

theorem frame_removeNode (t : Tree) (n : Ptr) (ts : Ticket) :
    (t.removeNode n ts).size = t.size ∧ (t.removeNode n ts).nodes.length = t.nodes.length ∧
    (t.removeNode n ts).root = t.root ∧ (t.removeNode n ts).idmap = t.idmap :=
  have h := SameLinks.removeNode t n ts
  ⟨h.1, h.2.1, h.2.2.1, h.2.2.2.1⟩

theorem frame_unremove (t : Tree) (n : Ptr) :
    (unremove t n).size = t.size ∧ (unremove t n).nodes.length = t.nodes.length ∧
    (unremove t n).root = t.root ∧ (unremove t n).idmap = t.idmap :=
  have h := sameLinks_unremove t n
  ⟨h.1, h.2.1, h.2.2.1, h.2.2.2.1⟩

/-! ### the relation carried through the folds -/

/-- `a` is `t` with the tombstone of the nodes in `S` set to `r`, up to the cached lengths -/
def Rel (t a : Tree) (S : List Ptr) (r : Option Ticket) : Prop :=
  a.size = t.size ∧ a.nodes.length = t.nodes.length ∧ a.root = t.root ∧ a.idmap = t.idmap ∧
  ∀ q, coreOf (a.get q) = if q ∈ S then coreOf ({ t.get q with removedAt := r } : TNode) else coreOf (t.get q)

theorem Rel.refl (t : Tree) (r : Option Ticket) : Rel t t [] r := ⟨rfl, rfl, rfl, rfl, fun q => by simp⟩

/-- everything but tombstone and cached lengths -/
def shapeOf (n : TNode) :=
  (n.id, n.type, n.isText, n.value, n.insPrev, n.insNext, n.mergedFrom, n.mergedAt, n.mergedInto, n.attrs, n.parent, n.children)

theorem shape_of_core {a b : TNode} (r : Option Ticket) (h : coreOf a = coreOf ({ b with removedAt := r } : TNode)) :
    shapeOf a = shapeOf b := by
  simp only [coreOf, Prod.mk.injEq] at h
  obtain ⟨h1, h2, h3, h4, _, h6, h7, h8, h9, h10, h11, h12, h13⟩ := h
  simp only [shapeOf, Prod.mk.injEq]
  exact ⟨h1, h2, h3, h4, h6, h7, h8, h9, h10, h11, h12, h13⟩

theorem shape_of_core' {a b : TNode} (h : coreOf a = coreOf b) : shapeOf a = shapeOf b := by
  simp only [coreOf, Prod.mk.injEq] at h
  obtain ⟨h1, h2, h3, h4, _, h6, h7, h8, h9, h10, h11, h12, h13⟩ := h
  simp only [shapeOf, Prod.mk.injEq]
  exact ⟨h1, h2, h3, h4, h6, h7, h8, h9, h10, h11, h12, h13⟩

theorem Rel.shape {t a : Tree} {S : List Ptr} {r : Option Ticket} (h : Rel t a S r) (q : Ptr) :
    shapeOf (a.get q) = shapeOf (t.get q) := by
  have := h.2.2.2.2 q
  split at this
  · exact shape_of_core r this
  · exact shape_of_core' this

theorem Rel.removedAt_out {t a : Tree} {S : List Ptr} {r : Option Ticket} (h : Rel t a S r) (q : Ptr) (hq : q ∉ S) :
    (a.get q).removedAt = (t.get q).removedAt := by
  have := h.2.2.2.2 q
  rw [if_neg hq] at this
  exact core_removedAt this

/-- one more node gets the flag -/
theorem Rel.step {t a b : Tree} {S : List Ptr} {r : Option Ticket} (h : Rel t a S r) (n : Ptr)
    (hf : b.size = a.size ∧ b.nodes.length = a.nodes.length ∧ b.root = a.root ∧ b.idmap = a.idmap)
    (hc : ∀ q, coreOf (b.get q) = coreOf ((a.modify n fun x => { x with removedAt := r }).get q))
    (hn : n < t.nodes.length) : Rel t b (n :: S) r := by
  obtain ⟨h1, h2, h3, h4, h5⟩ := h
  refine ⟨hf.1.trans h1, hf.2.1.trans h2, hf.2.2.1.trans h3, hf.2.2.2.trans h4, fun q => ?_⟩
  rw [hc q, get_modify]
  by_cases hq : q = n
  · subst hq
    rw [if_pos ⟨rfl, by rw [h2]; exact hn⟩, if_pos (List.mem_cons_self)]
    have := h5 q
    split at this
    · have e := core_setRemoved r this
      exact e
    · exact core_setRemoved r this
  · rw [if_neg (fun hh => hq hh.1)]
    have := h5 q
    by_cases hs : q ∈ S
    · rw [if_pos hs] at this
      rw [if_pos (List.mem_cons_of_mem _ hs)]; exact this
    · rw [if_neg hs] at this
      rw [if_neg (fun hh => by cases hh with
        | head => exact hq rfl
        | tail _ h' => exact hs h')]; exact this

/-! ### a span that names one whole node -/

/-- `sp` names exactly the attached node `n` of `a`: an element by its id, or a text node it covers entirely -/
structure Whole (a : Tree) (sp : Span) (n : Ptr) : Prop where
  lt : n < a.nodes.length
  parent : ((a.get n).parent).isSome = true
  text : sp.isText = true → (a.get n).isText = true ∧ (a.get n).id.offset = sp.id.offset ∧
    (a.get n).value.length = sp.length ∧ 1 ≤ sp.length ∧
    a.findFloor ⟨sp.id.createdAt, sp.id.offset + sp.length - 1⟩ = some n
  elem : sp.isText = false → (a.get n).isText = false ∧ a.findFloor sp.id = some n ∧ (a.get n).id.eqb sp.id = true

theorem Whole.transfer {t a : Tree} {S : List Ptr} {r : Option Ticket} (h : Rel t a S r) {sp : Span} {n : Ptr}
    (w : Whole t sp n) : Whole a sp n := by
  have sh := h.shape n
  simp only [shapeOf, Prod.mk.injEq] at sh
  obtain ⟨hid, _, htx, hval, _, _, _, _, _, _, hpar, _⟩ := sh
  refine ⟨by rw [h.2.1]; exact w.lt, by rw [hpar]; exact w.parent, fun ht => ?_, fun ht => ?_⟩
  · obtain ⟨a1, a2, a3, a4, a5⟩ := w.text ht
    refine ⟨by rw [htx]; exact a1, by rw [hid]; exact a2, by rw [hval]; exact a3, a4, ?_⟩
    unfold Tree.findFloor at a5 ⊢; rw [h.2.2.2.1]; exact a5
  · obtain ⟨b1, b2, b3⟩ := w.elem ht
    refine ⟨by rw [htx]; exact b1, ?_, by rw [hid]; exact b3⟩
    unfold Tree.findFloor at b2 ⊢; rw [h.2.2.2.1]; exact b2

theorem pieces_whole (t : Tree) (ca : Ticket) (start len : Nat) (n : Ptr) (hl : 1 ≤ len)
    (hf : t.findFloor ⟨ca, start + len - 1⟩ = some n) (ht : (t.get n).isText = true)
    (ho : (t.get n).id.offset = start) (hv : (t.get n).value.length = len) :
    pieces t ca start (start + len) = [n] := by
  unfold pieces
  have hp : (((start + len : Nat) : Int) - 1).toNat = start + len - 1 := by omega
  have hneg : ¬ (((start + len : Nat) : Int) - 1 < 0) := by omega
  have h1 : ¬ (start + len ≤ start) := by omega
  have h2 : start < start + len := by omega
  rw [show t.fuel + (start + len) + 2 = (t.fuel + (start + len) + 1) + 1 from rfl]
  unfold piecesGo
  have hneg' : ¬ ((start : Int) + (len : Int) - 1 < 0) := by omega
  have hp' : ((start : Int) + (len : Int)).toNat - 1 = start + len - 1 := by omega
  simp [hneg', hp', hf, Tree.isText, ht, ho, hv, h1, h2]

theorem isolate_whole (t : Tree) (piece fr to : Nat) (h1 : (t.get piece).id.offset = fr)
    (h2 : to = fr + (t.get piece).value.length) : isolate t piece fr to = .ok (t, piece) := by
  unfold isolate
  simp [h1, h2]

/-- `Retombstone` of a span that names one whole live node = `TreeNode.remove` of that node -/
theorem retombOne_whole {a : Tree} {sp : Span} {n : Ptr} (w : Whole a sp n) (ts : Ticket)
    (hl : (a.get n).removedAt = none) : retombOne ts a sp = .ok (a.removeNode n ts) := by
  have hr : a.removed n = false := by simp [Tree.removed, hl]
  have hp : (a.parentOf n).isNone = false := by
    have := w.parent
    unfold Tree.parentOf
    cases h : (a.get n).parent <;> simp_all
  unfold retombOne
  cases ht : sp.isText with
  | true =>
    obtain ⟨a1, a2, a3, a4, a5⟩ := w.text ht
    have hlen : (if sp.length < 1 then 1 else sp.length) = sp.length := by split <;> omega
    simp only [hlen, if_true]
    rw [pieces_whole a _ _ _ n a4 a5 a1 a2 a3]
    simp only [List.foldl_cons, List.foldl_nil, hr, hp, Tree.isText, a1, a2, a3]
    have e1 : (if sp.id.offset < sp.id.offset then sp.id.offset else sp.id.offset) = sp.id.offset := by split <;> rfl
    have e2 : (if sp.id.offset + sp.length < sp.id.offset + sp.length then sp.id.offset + sp.length
        else sp.id.offset + sp.length) = sp.id.offset + sp.length := by split <;> rfl
    simp only [e1, e2]
    rw [isolate_whole a n _ _ a2 (by rw [a3])]
    simp
  | false =>
    obtain ⟨b1, b2, b3⟩ := w.elem ht
    have hp' : a.parentOf n ≠ none := by
      intro h; rw [h] at hp; simp at hp
    simp [b2, b3, hr, hp', Tree.isText, b1]

/-- `Restore` of a span that names one whole node = `TreeNode.unremove` of that node -/
theorem restoreOne_whole {a : Tree} {sp : Span} {n : Ptr} (w : Whole a sp n) : restoreOne a sp = .ok (unremove a n) := by
  unfold restoreOne
  cases ht : sp.isText with
  | true =>
    obtain ⟨a1, a2, a3, a4, a5⟩ := w.text ht
    simp only [Bool.not_true]
    rw [pieces_whole a _ _ _ n a4 a5 a1 a2 a3]
    rw [show sp.length + 2 = (sp.length + 1) + 1 from rfl]
    unfold restoreText
    have c1 : ¬ (sp.id.offset ≥ sp.id.offset + sp.length) := by omega
    simp only [c1, if_false, a2, a3, Nat.le_refl, if_true]
    have e2 : (if sp.id.offset + sp.length < sp.id.offset + sp.length then sp.id.offset + sp.length
        else sp.id.offset + sp.length) = sp.id.offset + sp.length := by split <;> rfl
    simp only [e2]
    rw [isolate_whole a n _ _ a2 (by rw [a3])]
    simp only [ge_iff_le, Nat.le_refl, if_true]
    unfold restoreText
    simp
  | false =>
    obtain ⟨b1, b2, b3⟩ := w.elem ht
    simp [b2, b3]

/-! ### any number of nodes -/

/-- span by span, `spans` names the whole nodes `ns` of `t` -/
inductive Wholes (t : Tree) : List Span → List Ptr → Prop
  | nil : Wholes t [] []
  | cons {sp : Span} {n : Ptr} {sps : List Span} {ns : List Ptr} : Whole t sp n → Wholes t sps ns → Wholes t (sp :: sps) (n :: ns)

theorem Wholes.transfer {t a : Tree} {S : List Ptr} {r : Option Ticket} (h : Rel t a S r) {spans : List Span} {ns : List Ptr}
    (w : Wholes t spans ns) : Wholes a spans ns := by
  induction w with
  | nil => exact .nil
  | cons hw _ ih => exact .cons (hw.transfer h) ih

theorem mem_shift (q n : Ptr) (ns S S' : List Ptr) (hm : q ∈ S' ↔ q ∈ ns ∨ q ∈ n :: S) :
    q ∈ S' ↔ q ∈ n :: ns ∨ q ∈ S := by
  rw [hm]
  simp only [List.mem_cons]
  constructor
  · intro h
    rcases h with h | h | h
    · exact Or.inl (Or.inr h)
    · exact Or.inl (Or.inl h)
    · exact Or.inr h
  · intro h
    rcases h with (h | h) | h
    · exact Or.inr (Or.inl h)
    · exact Or.inl h
    · exact Or.inr (Or.inr h)

theorem retombstone_whole (t : Tree) (ts : Ticket) {spans : List Span} {ns : List Ptr}
    (hf : Wholes t spans ns) :
    ∀ (a : Tree) (S : List Ptr), (∀ n ∈ ns, (t.get n).removedAt = none) → ns.Nodup → (∀ n ∈ ns, n ∉ S) →
    Rel t a S (some ts) →
    ∃ a' S', spans.foldl (fun (acc : Except Err Tree) sp =>
        match acc with
        | .error e => .error e
        | .ok x => retombOne ts x sp) (.ok a) = .ok a' ∧ Rel t a' S' (some ts) ∧ ∀ q, q ∈ S' ↔ q ∈ ns ∨ q ∈ S := by
  induction hf with
  | nil => intro a S _ _ _ hrel; exact ⟨a, S, rfl, hrel, fun q => by simp⟩
  | @cons sp n sps ns' hw _ ih =>
    intro a S hlive hnd hS hrel
    have wa : Whole a sp n := hw.transfer hrel
    have la : (a.get n).removedAt = none := by
      rw [hrel.removedAt_out n (hS n List.mem_cons_self)]; exact hlive n List.mem_cons_self
    have hstep := retombOne_whole wa ts la
    have rel' : Rel t (a.removeNode n ts) (n :: S) (some ts) :=
      hrel.step n (frame_removeNode a n ts) (core_removeNode_live a n ts la) hw.lt
    have hnd' := List.nodup_cons.mp hnd
    obtain ⟨a', S', e, r, m⟩ := ih (a.removeNode n ts) (n :: S)
      (fun m hm => hlive m (List.mem_cons_of_mem _ hm)) hnd'.2
      (fun m hm hin => by
        cases hin with
        | head => exact hnd'.1 hm
        | tail _ h' => exact hS m (List.mem_cons_of_mem _ hm) h') rel'
    refine ⟨a', S', ?_, r, fun q => mem_shift q n ns' S S' (m q)⟩
    rw [List.foldl_cons]
    show List.foldl _ (retombOne ts a sp) sps = _
    rw [hstep]; exact e

theorem restore_whole (t : Tree) {spans : List Span} {ns : List Ptr} (hf : Wholes t spans ns) :
    ∀ (a : Tree) (S : List Ptr), Rel t a S none →
    ∃ a' S', spans.foldl (fun (acc : Except Err Tree) sp =>
        match acc with
        | .error e => .error e
        | .ok x => restoreOne x sp) (.ok a) = .ok a' ∧ Rel t a' S' none ∧ ∀ q, q ∈ S' ↔ q ∈ ns ∨ q ∈ S := by
  induction hf with
  | nil => intro a S hrel; exact ⟨a, S, rfl, hrel, fun q => by simp⟩
  | @cons sp n sps ns' hw _ ih =>
    intro a S hrel
    have wa : Whole a sp n := hw.transfer hrel
    have hstep := restoreOne_whole wa
    have rel' : Rel t (unremove a n) (n :: S) none :=
      hrel.step n (frame_unremove a n) (core_unremove a n) hw.lt
    obtain ⟨a', S', e, r, m⟩ := ih (unremove a n) (n :: S) rel'
    refine ⟨a', S', ?_, r, fun q => mem_shift q n ns' S S' (m q)⟩
    rw [List.foldl_cons]
    show List.foldl _ (restoreOne a sp) sps = _
    rw [hstep]; exact e

/-- **identity-preserving restore, any number of nodes**: when the spans name pairwise different whole, attached, live
    nodes (elements, or text nodes covered entirely), `Retombstone` of all of them succeeds and tombstones exactly
    them, and `Restore` of the same spans then succeeds and gives back every field of every node except the cached
    lengths - the same nodes under the same ids, the same id index, parents and children -/
theorem restore_retombstone_whole (t : Tree) (spans : List Span) (ns : List Ptr) (ts : Ticket)
    (hw : Wholes t spans ns) (hlive : ∀ n ∈ ns, (t.get n).removedAt = none) (hnd : ns.Nodup) :
    ∃ t1 t2, retombstone t spans ts = .ok t1 ∧ (∀ n ∈ ns, (t1.get n).removedAt = some ts) ∧
      (∀ q, q ∉ ns → (t1.get q).removedAt = (t.get q).removedAt) ∧
      restore t1 spans = .ok t2 ∧ SameCore t t2 := by
  obtain ⟨t1, S1, e1, r1, m1⟩ := retombstone_whole t ts hw t [] hlive hnd (fun _ _ h => by cases h) (Rel.refl t _)
  have hw1 : Wholes t1 spans ns := hw.transfer r1
  obtain ⟨t2, S2, e2, r2, m2⟩ := restore_whole t1 hw1 t1 [] (Rel.refl t1 _)
  have in1 : ∀ q, q ∈ S1 ↔ q ∈ ns := fun q => by rw [m1 q]; simp
  have in2 : ∀ q, q ∈ S2 ↔ q ∈ ns := fun q => by rw [m2 q]; simp
  refine ⟨t1, t2, e1, fun n hn => ?_, fun q hq => ?_, e2, ?_⟩
  · have := r1.2.2.2.2 n
    rw [if_pos ((in1 n).mpr hn)] at this
    exact core_removedAt this
  · exact r1.removedAt_out q (fun h => hq ((in1 q).mp h))
  · refine ⟨r2.1.trans r1.1, r2.2.1.trans r1.2.1, r2.2.2.1.trans r1.2.2.1, r2.2.2.2.1.trans r1.2.2.2.1, fun q => ?_⟩
    have c2 := r2.2.2.2.2 q
    have c1 := r1.2.2.2.2 q
    by_cases hq : q ∈ ns
    · rw [if_pos ((in2 q).mpr hq)] at c2
      rw [if_pos ((in1 q).mpr hq)] at c1
      rw [c2]
      have e := core_setRemoved none c1
      rw [e]
      have : ({ ({ t.get q with removedAt := some ts } : TNode) with removedAt := none } : TNode) = t.get q :=
        setRemoved_self _ (hlive q hq)
      rw [this]
    · rw [if_neg (fun h => hq ((in2 q).mp h))] at c2
      rw [if_neg (fun h => hq ((in1 q).mp h))] at c1
      rw [c2, c1]

/-- the same on the visible document: **undo of a delete of whole nodes restores `ToXML()` exactly** (the delete
    expressed as what Phase 5 of `Tree.Edit` does to the collected nodes, the undo as the identity path of
    `TreeEdit.Execute` with no node to re-remove) -/
theorem undo_whole_delete_xml (t : Tree) (spans : List Span) (ns : List Ptr) (ts ts' : Ticket)
    (hw : Wholes t spans ns) (hlive : ∀ n ∈ ns, (t.get n).removedAt = none) (hnd : ns.Nodup) :
    ∃ t1 t2, retombstone t spans ts = .ok t1 ∧ execRestore t1 spans [] .restore ts' = .ok t2 ∧
      t2.toXMLCodes = t.toXMLCodes ∧ t2.marshalCodes = t.marshalCodes := by
  obtain ⟨t1, t2, e1, _, _, e2, sc⟩ := restore_retombstone_whole t spans ns ts hw hlive hnd
  refine ⟨t1, t2, e1, ?_, sc.toXML, marshalCodes_congr sc.view⟩
  unfold execRestore
  simp only [retombstone, List.foldl_nil]
  exact e2

theorem Rel.of_sameCore {t a : Tree} (h : SameCore t a) (r : Option Ticket) : Rel t a [] r :=
  ⟨h.1, h.2.1, h.2.2.1, h.2.2.2.1, fun q => by simpa using h.2.2.2.2 q⟩

theorem view_setRemoved_some {x y : TNode} (a b : Ticket) (h : coreOf x = coreOf y) :
    ({ x with removedAt := some a } : TNode).view = ({ y with removedAt := some b } : TNode).view := by
  have := core_view (core_setRemoved (some a) h)
  rw [this]
  simp [TNode.view]

/-- **redo∘undo∘do = do for deletes of whole nodes (unbounded)**: re-removing the restored nodes (the redo, with a new
    ticket) shows the same `ToXML()` / `Marshal()` as the first removal -/
theorem redo_whole_delete_xml (t : Tree) (spans : List Span) (ns : List Ptr) (ts ts2 : Ticket)
    (hw : Wholes t spans ns) (hlive : ∀ n ∈ ns, (t.get n).removedAt = none) (hnd : ns.Nodup) :
    ∃ t1 t2 t3, retombstone t spans ts = .ok t1 ∧ restore t1 spans = .ok t2 ∧ retombstone t2 spans ts2 = .ok t3 ∧
      t3.toXMLCodes = t1.toXMLCodes ∧ t3.marshalCodes = t1.marshalCodes := by
  obtain ⟨t1, S1, e1, r1, m1⟩ := retombstone_whole t ts hw t [] hlive hnd (fun _ _ h => by cases h) (Rel.refl t _)
  obtain ⟨t1', t2, e1', _, _, e2, sc⟩ := restore_retombstone_whole t spans ns ts hw hlive hnd
  have : t1' = t1 := by
    have := e1'.symm.trans (show retombstone t spans ts = .ok t1 from e1)
    cases this; rfl
  subst this
  have rel2 : Rel t t2 [] (some ts2) := Rel.of_sameCore sc _
  have hw2 : Wholes t2 spans ns := hw.transfer rel2
  have live2 : ∀ n ∈ ns, (t2.get n).removedAt = none := fun n hn => by
    rw [core_removedAt (sc.2.2.2.2 n)]; exact hlive n hn
  obtain ⟨t3, S3, e3, r3, m3⟩ := retombstone_whole t2 ts2 hw2 t2 [] live2 hnd (fun _ _ h => by cases h) (Rel.refl t2 _)
  have in1 : ∀ q, q ∈ S1 ↔ q ∈ ns := fun q => by rw [m1 q]; simp
  have in3 : ∀ q, q ∈ S3 ↔ q ∈ ns := fun q => by rw [m3 q]; simp
  have hv : t3.view = t1'.view := by
    unfold Tree.view
    rw [r3.1, sc.1, ← r1.1, r3.2.2.1, sc.2.2.1, ← r1.2.2.1]
    rw [map_view_of_get (r3.2.1.trans (sc.2.1.trans r1.2.1.symm)) (fun q => ?_)]
    have c3 := r3.2.2.2.2 q
    have c1 := r1.2.2.2.2 q
    by_cases hq : q ∈ ns
    · rw [if_pos ((in3 q).mpr hq)] at c3
      rw [if_pos ((in1 q).mpr hq)] at c1
      rw [core_view c3, core_view c1]
      exact view_setRemoved_some ts2 ts (sc.2.2.2.2 q)
    · rw [if_neg (fun h => hq ((in3 q).mp h))] at c3
      rw [if_neg (fun h => hq ((in1 q).mp h))] at c1
      rw [core_view c3, core_view c1]
      exact core_view (sc.2.2.2.2 q)
  exact ⟨t1', t2, t3, e1, e2, e3, toXMLCodes_congr hv, marshalCodes_congr hv⟩

end Yorkie.TreeUndo
