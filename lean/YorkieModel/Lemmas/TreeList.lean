/- pkg/treelist against its list specification: cached aggregates, InsertAfter, Find,
IsRemoved toggles + UpdateWeight.  (Delete needs the red-black invariants: Lemmas/TreeListDelete.lean.) -/
import YorkieModel.Model.TreeList
import YorkieModel.Lemmas.RBCore
namespace Yorkie.TreeList
open Yorkie.RB Yorkie.RB.T

/-- what the specification sees of a payload -/
def key (a : P) : Nat × Bool := (a.id, a.rm)

theorem keyOK : KeyOK cfg key := fun _ _ _ => rfl

theorem toList_eq_klist (t : T) : toList t = klist key t := rfl

theorem ids_eq (t : T) : ids t = (toList t).map (·.1) := by
  simp [ids, toList, List.map_map, Function.comp_def]

/-! ### the specification: the structural sequence of (id, removed) -/
namespace Spec

abbrev L := List (Nat × Bool)

def ids (l : L) : List Nat := l.map (·.1)

def insertAfter (prev : Nat) (e : Nat × Bool) : L → L
  | [] => []
  | a :: r => if a.1 = prev then a :: e :: r else a :: insertAfter prev e r

def delete (x : Nat) : L → L
  | [] => []
  | a :: r => if a.1 = x then r else a :: delete x r

def setRm (x : Nat) (b : Bool) (l : L) : L := l.map (fun a => if a.1 = x then (a.1, b) else a)

/-- number of live nodes -/
def live : L → Nat
  | [] => 0
  | a :: r => sz a.2 + live r

/-- `Find(i)`: the i-th live node -/
def find : L → Nat → Option Nat
  | [], _ => none
  | a :: r, i => if a.2 then find r i else if i = 0 then some a.1 else find r (i - 1)

/-- result of `Find(i)` -/
def findRes (l : L) (i : Nat) : FindRes :=
  match find l i with
  | some id => .found id
  | none => .outOfIndex

@[simp] theorem live_append (a b : L) : live (a ++ b) = live a + live b := by
  induction a with
  | nil => simp [live]
  | cons e r ih => simp [live, ih]; omega

theorem find_append_left {A B : L} {i : Nat} (h : i < live A) : find (A ++ B) i = find A i := by
  induction A generalizing i with
  | nil => simp [live] at h
  | cons a A ih =>
    simp only [List.cons_append, find]
    cases ha : a.2 with
    | true => simp only [if_true]; exact ih (by simpa [live, ha, sz] using h)
    | false =>
      simp only [Bool.false_eq_true, if_false]
      split
      · rfl
      · exact ih (by simp [live, ha, sz] at h; omega)

theorem find_append_right {A B : L} {i : Nat} (h : live A ≤ i) : find (A ++ B) i = find B (i - live A) := by
  induction A generalizing i with
  | nil => simp [live]
  | cons a A ih =>
    simp only [List.cons_append, find]
    cases ha : a.2 with
    | true =>
      simp only [if_true]
      rw [ih (by simpa [live, ha, sz] using h)]; simp [live, ha, sz]
    | false =>
      simp only [Bool.false_eq_true, if_false]
      have h' : 1 + live A ≤ i := by simpa [live, ha, sz] using h
      rw [if_neg (by omega), ih (by omega)]
      congr 1; simp [live, ha, sz]; omega

theorem find_none_of_le {A : L} {i : Nat} (h : live A ≤ i) : find A i = none := by
  have := find_append_right (A := A) (B := []) h
  simpa [find] using this

end Spec

/-! ### cached aggregates -/

@[simp] theorem weight_nil : weight (nil : T) = 0 := rfl
@[simp] theorem count_nil : count (nil : T) = 0 := rfl
@[simp] theorem weight_node (l : T) (a c r) : weight (node l a c r) = a.w := rfl
@[simp] theorem count_node (l : T) (a c r) : count (node l a c r) = a.c := rfl
@[simp] theorem wf_nil : wf (nil : T) := trivial
@[simp] theorem wf_node (l : T) (a c r) : wf (node l a c r) ↔
    wf l ∧ wf r ∧ a.w = weight l + sz a.rm + weight r ∧ a.c = count l + 1 + count r := Iff.rfl

@[simp] theorem weight_mkN (l : T) (a c r) : weight (mkN cfg l a c r) = weight l + sz a.rm + weight r := rfl
@[simp] theorem count_mkN (l : T) (a c r) : count (mkN cfg l a c r) = count l + 1 + count r := rfl

@[simp] theorem wf_mkN (l : T) (a c r) : wf (mkN cfg l a c r) ↔ wf l ∧ wf r := by
  simp [mkN, cfg]

theorem count_eq_size {t : T} (h : wf t) : count t = t.size := by
  induction t with
  | nil => rfl
  | node l a c r ihl ihr => simp [h.2.2.2, ihl h.1, ihr h.2.1]

theorem weight_eq_live {t : T} (h : wf t) : weight t = Spec.live (toList t) := by
  induction t with
  | nil => rfl
  | node l a c r ihl ihr =>
    simp [toList_eq_klist, Spec.live, key] at ihl ihr ⊢
    rw [h.2.2.1, ihl h.1, ihr h.2.1]; omega

/-- children have exact aggregates (the node itself is about to be recomputed) -/
def wfSub : T → Prop
  | nil => True
  | node l _ _ r => wf l ∧ wf r

theorem wfSub_of_wf {t : T} (h : wf t) : wfSub t := by
  cases t with
  | nil => trivial
  | node l a c r => exact ⟨h.1, h.2.1⟩

theorem wf_refresh {t : T} (h : wfSub t) : wf (refresh cfg t) := by
  cases t with
  | nil => trivial
  | node l a c r => simp [refresh]; exact h

theorem wf_rotateLeft {t : T} (h : wfSub t) : wfSub (rotateLeft cfg t) := by
  unfold rotateLeft; split
  · next l a c rl b _ rr =>
    apply wfSub_of_wf; simp only [wf_mkN]; exact ⟨⟨h.1, h.2.1⟩, h.2.2.1⟩
  · exact h

theorem wf_rotateRight {t : T} (h : wfSub t) : wfSub (rotateRight cfg t) := by
  unfold rotateRight; split
  · next ll b _ lr a c r =>
    apply wfSub_of_wf; simp only [wf_mkN]; exact ⟨h.1.1, h.1.2.1, h.2⟩
  · exact h

theorem wf_flipRoot {t : T} : wf (flipRoot t) ↔ wf t := by cases t <;> simp [flipRoot]

theorem wfSub_flip {t : T} (h : wfSub t) : wfSub (flipColors t) := by
  cases t with
  | nil => trivial
  | node l a c r => simp only [flipColors, wfSub, wf_flipRoot]; exact h

theorem wf_flip {t : T} (h : wf t) : wf (flipColors t) := by
  cases t with
  | nil => trivial
  | node l a c r =>
    simp only [flipColors, wf_node, wf_flipRoot]
    refine ⟨h.1, h.2.1, ?_, ?_⟩
    · have : ∀ s : T, weight (flipRoot s) = weight s := by intro s; cases s <;> rfl
      rw [this, this]; exact h.2.2.1
    · have : ∀ s : T, count (flipRoot s) = count s := by intro s; cases s <;> rfl
      rw [this, this]; exact h.2.2.2

theorem wf_blacken {t : T} : wf t.blacken ↔ wf t := by cases t <;> simp [blacken]

theorem wf_fixUp (s : Bool) {t : T} (h : wfSub t) : wf (fixUp cfg s t) := by
  unfold fixUp
  simp only []
  apply wf_refresh
  repeat' split
  all_goals first
    | exact wfSub_flip (wf_rotateRight (wf_rotateLeft h))
    | exact wf_rotateRight (wf_rotateLeft h)
    | exact wfSub_flip (wf_rotateLeft h)
    | exact wf_rotateLeft h
    | exact wfSub_flip (wf_rotateRight h)
    | exact wf_rotateRight h
    | exact wfSub_flip h
    | exact h

/-! ### InsertAfter -/

theorem take_drop_left {β} (L R : List β) (a x : β) (i : Nat) (h : i ≤ L.length) :
    (L ++ a :: R).take i ++ x :: (L ++ a :: R).drop i = (L.take i ++ x :: L.drop i) ++ a :: R := by
  rw [List.take_append_of_le_length h, List.drop_append_of_le_length h]; simp

theorem take_drop_right {β} (L R : List β) (a x : β) (i : Nat) (h : L.length < i) :
    (L ++ a :: R).take i ++ x :: (L ++ a :: R).drop i =
      L ++ a :: (R.take (i - L.length - 1) ++ x :: R.drop (i - L.length - 1)) := by
  have e : i = L.length + ((i - L.length - 1) + 1) := by omega
  generalize i - L.length - 1 = j at e
  subst e
  rw [List.take_append, List.drop_append]
  simp
  rw [List.take_of_length_le (by omega), List.drop_eq_nil_of_le (by omega)]
  simp

@[simp] theorem cfg_navI (l : T) (a : P) (i : Nat) :
    cfg.navI l a i = (if i ≤ count l then .lt else .gt, i - count l - 1) := rfl
@[simp] theorem cfg_nav (l : T) (a : P) (i : Nat) :
    cfg.nav l a i = (if i < count l then .lt else if i = count l then .eq else .gt, i - count l - 1) := rfl
@[simp] theorem cfg_strictFix : cfg.strictFix = true := rfl

/-- `insertByCount`: the new payload lands at structural index `i`; aggregates stay exact -/
theorem ins_spec {t : T} (hw : wf t) (i : Nat) (hi : i ≤ t.size) (new : P)
    (hnew : new.w = sz new.rm ∧ new.c = 1) :
    klist key (ins cfg t i new) = (klist key t).take i ++ key new :: (klist key t).drop i ∧
    wf (ins cfg t i new) := by
  induction t generalizing i with
  | nil => simp [ins, hnew.1, hnew.2]
  | node l a c r ihl ihr =>
    have hcl := count_eq_size hw.1
    have hlen : (klist key l).length = l.size := length_klist l
    simp only [ins, cfg_navI]
    by_cases h : i ≤ count l
    · simp only [h, if_true]
      obtain ⟨h1, h2⟩ := ihl hw.1 i (by omega)
      refine ⟨?_, wf_fixUp _ ⟨h2, hw.2.1⟩⟩
      rw [klist_fixUp keyOK, klist_node, h1, klist_node, take_drop_left _ _ _ _ _ (by omega)]
    · simp only [h, if_false]
      simp only [size_node] at hi
      obtain ⟨h1, h2⟩ := ihr hw.2.1 (i - count l - 1) (by omega)
      refine ⟨?_, wf_fixUp _ ⟨hw.1, h2⟩⟩
      rw [klist_fixUp keyOK, klist_node, h1, klist_node, take_drop_right _ _ _ _ _ (by omega), hlen, hcl]

end Yorkie.TreeList
