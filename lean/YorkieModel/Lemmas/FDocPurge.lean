/- Purging is invisible: `Root.GarbageCollect` changes neither `Marshal()` nor any visible member / element
   list, keeps the heap well-formed and removes only what the vector covers. -/
import YorkieModel.Lemmas.FDocWF
namespace Yorkie.FDoc
open Yorkie
open Yorkie.Crdt (Op Val Err rootId headId joinComma insertKey)

/-! ### descendants -/

theorem children_eq {r : Root} {t : Ticket} {e : Elem} (h : r.get t = some e) : children r t = bodyChildren e.body := by
  simp [children, h]

theorem mem_children_skel {r : Root} {t x : Ticket} (h : x ∈ children r t) :
    ∃ p b, skel r t = some (p, b) ∧ x ∈ bodyChildren b := by
  unfold children at h
  cases hg : r.get t with
  | none => simp [hg] at h
  | some e =>
    simp only [hg] at h
    exact ⟨e.parent, e.body, skel_of_get hg, h⟩

/-- every descendant is a structural child of the start element or of another descendant -/
theorem desc_parent {r : Root} : ∀ (f : Nat) (t x : Ticket), x ∈ descendants r f t →
    ∃ d, (d = t ∨ d ∈ descendants r f t) ∧ x ∈ children r d := by
  intro f
  induction f with
  | zero => intro t x h; simp [descendants] at h
  | succ f ih =>
    intro t x h
    simp only [descendants, List.mem_flatMap, List.mem_cons] at h
    obtain ⟨c', hc', hx⟩ := h
    rcases hx with hx | hx
    · subst hx
      exact ⟨t, Or.inl rfl, hc'⟩
    · obtain ⟨d, hd, hxd⟩ := ih c' x hx
      refine ⟨d, Or.inr ?_, hxd⟩
      simp only [descendants, List.mem_flatMap, List.mem_cons]
      rcases hd with hd | hd
      · exact ⟨c', hc', Or.inl hd⟩
      · exact ⟨c', hc', Or.inr hd⟩

/-- in a well-formed heap, a child of an element outside `c :: descendants c` that lies inside is `c` itself -/
theorem child_in_dead {r : Root} (w : WF r) {f : Nat} {c t x : Ticket}
    (ht : t ∉ c :: descendants r f c) (hx : x ∈ children r t) (hd : x ∈ c :: descendants r f c) : x = c := by
  rcases List.mem_cons.mp hd with h | h
  · exact h
  · exfalso
    obtain ⟨d, hdm, hxd⟩ := desc_parent f c x h
    obtain ⟨p1, b1, hs1, hm1⟩ := mem_children_skel hx
    obtain ⟨p2, b2, hs2, hm2⟩ := mem_children_skel hxd
    obtain ⟨b1', h1⟩ := w.child t p1 b1 x hs1 hm1
    obtain ⟨b2', h2⟩ := w.child d p2 b2 x hs2 hm2
    rw [h1] at h2
    injection h2 with h2
    injection h2 with h2 _
    injection h2 with h2
    subst h2
    apply ht
    rcases hdm with e | e
    · rw [e]; exact List.mem_cons_self ..
    · exact List.mem_cons_of_mem _ e

theorem child_unique_parent {r : Root} (w : WF r) {t t' x : Ticket} (h : x ∈ children r t) (h' : x ∈ children r t') :
    t = t' := by
  obtain ⟨p1, b1, hs1, hm1⟩ := mem_children_skel h
  obtain ⟨p2, b2, hs2, hm2⟩ := mem_children_skel h'
  obtain ⟨b1', h1⟩ := w.child t p1 b1 x hs1 hm1
  obtain ⟨b2', h2⟩ := w.child t' p2 b2 x hs2 hm2
  rw [h1] at h2
  injection h2 with h2
  injection h2 with h2 _
  injection h2 with h2

theorem root_not_child {r : Root} (w : WF r) {t : Ticket} : rootId ∉ children r t := by
  intro h
  obtain ⟨p, b, hs, hm⟩ := mem_children_skel h
  obtain ⟨b', h1⟩ := w.child t p b rootId hs hm
  obtain ⟨b0, h0⟩ := w.root
  rw [h0] at h1
  injection h1 with h1
  injection h1 with h1 _
  cases h1

theorem root_not_dead {r : Root} (w : WF r) {f : Nat} {c parent : Ticket} (hc : c ∈ children r parent) :
    rootId ∉ c :: descendants r f c := by
  intro h
  rcases List.mem_cons.mp h with h | h
  · rw [← h] at hc; exact root_not_child w hc
  · obtain ⟨d, _, hxd⟩ := desc_parent f c rootId h
    exact root_not_child w hxd

/-! ### the visible lists -/

theorem liveElems_congr {r r' : Root} {nodes : List PosNode}
    (h : ∀ n ∈ nodes, ∀ x, n.elem = some x → liveChild r' x = liveChild r x) : liveElems r' nodes = liveElems r nodes := by
  induction nodes with
  | nil => rfl
  | cons n rest ih =>
    have ih' := ih (fun m hm => h m (List.mem_cons_of_mem _ hm))
    unfold liveElems at ih' ⊢
    simp only [List.filterMap_cons]
    rw [ih']
    cases he : n.elem with
    | none => rfl
    | some x => simp only; rw [h n (List.mem_cons_self ..) x he]

theorem liveElems_filter {r : Root} {nodes : List PosNode} (q : PosNode → Bool)
    (h : ∀ n ∈ nodes, q n = false → ∀ x, n.elem = some x → liveChild r x = false) :
    liveElems r (List.filter q nodes) = liveElems r nodes := by
  induction nodes with
  | nil => rfl
  | cons n rest ih =>
    have ih' := ih (fun m hm => h m (List.mem_cons_of_mem _ hm))
    by_cases hq : q n = true
    · simp only [List.filter, hq]
      unfold liveElems at ih' ⊢
      simp only [List.filterMap_cons]
      rw [ih']
    · have hq' : q n = false := by simpa using hq
      simp only [List.filter, hq']
      rw [ih']
      unfold liveElems
      simp only [List.filterMap_cons]
      cases he : n.elem with
      | none => rfl
      | some x => simp only; rw [h n (List.mem_cons_self ..) hq' x he]; rfl

theorem liveElems_eraseFirst_dead {r : Root} {nodes : List PosNode} (q : PosNode → Bool)
    (h : ∀ n, q n = true → n.elem = none) : liveElems r (eraseFirst q nodes) = liveElems r nodes := by
  induction nodes with
  | nil => rfl
  | cons n rest ih =>
    unfold eraseFirst
    split
    · rename_i hq
      unfold liveElems
      simp only [List.filterMap_cons, h n hq]
    · unfold liveElems at ih ⊢
      simp only [List.filterMap_cons]
      rw [ih]

theorem mem_liveElems {r : Root} {nodes : List PosNode} {x : Ticket} (h : x ∈ liveElems r nodes) :
    (∃ n ∈ nodes, n.elem = some x) ∧ liveChild r x = true := by
  unfold liveElems at h
  simp only [List.mem_filterMap] at h
  obtain ⟨n, hn, he⟩ := h
  cases hne : n.elem with
  | none => simp [hne] at he
  | some y =>
    simp only [hne] at he
    split at he
    · rename_i hl
      injection he with he
      subst he
      exact ⟨⟨n, hn, hne⟩, hl⟩
    · cases he

theorem liveMembers_congr {r r' : Root} {byKey byKey' : List (String × Ticket)}
    (h : List.filter (fun p => liveChild r' p.2) byKey' = List.filter (fun p => liveChild r p.2) byKey) :
    liveMembers r' byKey' = liveMembers r byKey := by
  unfold liveMembers
  simp only [h]

theorem mem_liveMembers {r : Root} {byKey : List (String × Ticket)} {p : String × Ticket}
    (h : p ∈ liveMembers r byKey) : p ∈ byKey ∧ liveChild r p.2 = true := by
  unfold liveMembers at h
  simp only [List.mem_filterMap] at h
  obtain ⟨k, _, hk⟩ := h
  cases hg : alGet (List.filter (fun p => liveChild r p.2) byKey) k with
  | none => simp [hg] at hk
  | some c =>
    simp [hg] at hk
    subst hk
    have := alGet_some_mem hg
    simp only [List.mem_filter] at this
    exact this

theorem filter_filter_absorb {α : Type} (p q : α → Bool) (l : List α) (h : ∀ y ∈ l, q y = false → p y = false) :
    List.filter p (List.filter q l) = List.filter p l := by
  induction l with
  | nil => rfl
  | cons a rest ih =>
    have ih' := ih (fun y hy => h y (List.mem_cons_of_mem _ hy))
    by_cases hq : q a = true
    · simp only [List.filter, hq]
      by_cases hp : p a = true
      · simp only [hp]; rw [ih']
      · have hp' : p a = false := by simpa using hp
        simp only [hp']; exact ih'
    · have hq' : q a = false := by simpa using hq
      have hp' := h a (List.mem_cons_self ..) hq'
      simp only [List.filter, hq', hp']
      exact ih'

/-! ### `Marshal()` one level at a time -/

/-- `Element.Marshal()` of a body, children rendered by `rec` -/
def marshalBody (r : Root) (rec : Ticket → String) : Body → String
  | .prim s => s
  | .opaque s => s
  | .counter _ v => toString v
  | .obj _ byKey => "{" ++ joinComma ((liveMembers r byKey).map (fun p => "\"" ++ p.1 ++ "\":" ++ rec p.2)) ++ "}"
  | .arr nodes _ => "[" ++ joinComma ((liveElems r nodes).map (fun c => rec c)) ++ "]"

theorem marshalAt_succ (r : Root) (f : Nat) (t : Ticket) :
    marshalAt r (f + 1) t = match r.get t with
      | none => "?"
      | some e => marshalBody r (marshalAt r f) e.body := by
  unfold marshalAt
  cases r.get t with
  | none => rfl
  | some e => cases e.body <;> rfl

theorem marshalBody_obj_congr {r r' : Root} {rec rec' : Ticket → String} {n n' : List (Ticket × String)}
    {bk bk' : List (String × Ticket)} (h : liveMembers r' bk' = liveMembers r bk)
    (hrec : ∀ p ∈ liveMembers r bk, rec' p.2 = rec p.2) :
    marshalBody r' rec' (.obj n' bk') = marshalBody r rec (.obj n bk) := by
  simp only [marshalBody, h]
  congr 2
  apply congrArg
  apply List.map_congr_left
  intro p hp
  rw [hrec p hp]

theorem marshalBody_arr_congr {r r' : Root} {rec rec' : Ticket → String} {n n' : List PosNode}
    {m m' : List (Ticket × Ticket)} (h : liveElems r' n' = liveElems r n)
    (hrec : ∀ x ∈ liveElems r n, rec' x = rec x) :
    marshalBody r' rec' (.arr n' m') = marshalBody r rec (.arr n m) := by
  simp only [marshalBody, h]
  congr 2
  apply congrArg
  apply List.map_congr_left
  intro x hx
  exact hrec x hx

/-! ### one purged element -/

/-- the data of one effective iteration of the first loop of `Root.GarbageCollect` -/
structure PurgeStep (r : Root) (c parent : Ticket) (ce pe : Elem) (ra : Ticket) (b : Body) : Prop where
  hc : r.get c = some ce
  hra : ce.removedAt = some ra
  hp : r.get parent = some pe
  hb : purgeBody pe.body c = some b

def purged (r : Root) (c : Ticket) : List Ticket := c :: descendants r r.fuel c

def afterPurge (r : Root) (c parent : Ticket) (pe : Elem) (b : Body) : Root :=
  eraseAll (r.put parent { pe with body := b }) (purged r c)

theorem purgeBody_child {b b' : Body} {c : Ticket} (h : purgeBody b c = some b') : c ∈ bodyChildren b := by
  unfold purgeBody at h
  cases b with
  | obj nodes byKey =>
    simp only [rhtPurge] at h
    cases hg : alGet nodes c with
    | none => simp [hg] at h
    | some k => simpa [bodyChildren] using alGet_some_mem_keys hg
  | arr nodes moved =>
    simp only at h
    split at h
    · rename_i hh
      simpa [bodyChildren] using holds_mem hh
    · cases h
  | prim s => simp at h
  | counter l v => simp at h
  | «opaque» s => simp at h

theorem purgeBody_children {b b' : Body} {c x : Ticket} (h : purgeBody b c = some b') (hx : x ∈ bodyChildren b') :
    x ∈ bodyChildren b ∧ x ≠ c := by
  unfold purgeBody at h
  cases b with
  | obj nodes byKey =>
    simp only [rhtPurge] at h
    cases hg : alGet nodes c with
    | none => simp [hg] at h
    | some k =>
      simp only [hg, Option.map_some, Option.some.injEq] at h
      subst h
      simp only [bodyChildren, List.mem_map] at hx ⊢
      obtain ⟨p, hp, rfl⟩ := hx
      have := mem_alErase hp
      exact ⟨⟨p, this.1, rfl⟩, this.2⟩
  | arr nodes moved =>
    simp only at h
    split at h
    · injection h with h
      subst h
      simp only [bodyChildren] at hx ⊢
      obtain ⟨n, hn, he⟩ := mem_elems_of_nodes hx
      simp only [List.mem_filter, Bool.not_eq_eq_eq_not, Bool.not_true, decide_eq_false_iff_not] at hn
      refine ⟨elems_mem_of_node hn.1 he, ?_⟩
      intro e
      subst e
      exact hn.2 he
    · cases h
  | prim s => simp at h
  | counter l v => simp at h
  | «opaque» s => simp at h

theorem purgeBody_wf {b b' : Body} {c : Ticket} (h : purgeBody b c = some b') (hw : BodyWF b) : BodyWF b' := by
  unfold purgeBody at h
  cases b with
  | obj nodes byKey =>
    simp only [rhtPurge] at h
    cases hg : alGet nodes c with
    | none => simp [hg] at h
    | some k =>
      simp only [hg, Option.map_some, Option.some.injEq] at h
      subst h
      simp only [BodyWF] at hw ⊢
      obtain ⟨hnd, hent⟩ := hw
      -- an entry pointing at `c` has key `k` and is the occupant of `k`
      have hck : ∀ p ∈ byKey, p.2 = c → p.1 = k ∧ alGet byKey k = some c := by
        intro p hp e
        have h1 := hent p hp
        rw [e, hg] at h1
        injection h1 with h1
        refine ⟨h1.symm, ?_⟩
        have : (k, c) ∈ byKey := by
          have : p = (k, c) := by cases p; simp_all
          rw [← this]; exact hp
        exact nodup_mem_alGet hnd this
      split
      · rename_i hocc
        refine ⟨nodup_keys_alErase k hnd, ?_⟩
        intro p hp
        obtain ⟨hp1, hp2⟩ := mem_alErase hp
        have hne : p.2 ≠ c := by
          intro e
          exact hp2 (hck p hp1 e).1
        rw [alGet_alErase_other _ _ _ hne]
        exact hent p hp1
      · rename_i hocc
        refine ⟨hnd, ?_⟩
        intro p hp
        have hne : p.2 ≠ c := by
          intro e
          exact hocc (hck p hp e).2
        rw [alGet_alErase_other _ _ _ hne]
        exact hent p hp
  | arr nodes moved =>
    simp only at h
    split at h
    · injection h with h; subst h; trivial
    · cases h
  | prim s => simp at h
  | counter l v => simp at h
  | «opaque» s => simp at h

section OneStep
variable {r : Root} {c parent : Ticket} {ce pe : Elem} {ra : Ticket} {b : Body}

theorem c_child_parent (st : PurgeStep r c parent ce pe ra b) : c ∈ children r parent := by
  rw [children_eq st.hp]; exact purgeBody_child st.hb

theorem get_afterPurge (t : Ticket) :
    (afterPurge r c parent pe b).get t =
      if t ∈ purged r c then none else if t = parent then some { pe with body := b } else r.get t := by
  unfold afterPurge
  rw [get_eraseAll_mem, get_put]

/-- outside the purged set the removal flags are unchanged; inside nothing is live any more -/
theorem liveChild_afterPurge (st : PurgeStep r c parent ce pe ra b) {x : Ticket} (hx : x ∉ purged r c) :
    liveChild (afterPurge r c parent pe b) x = liveChild r x := by
  unfold liveChild
  rw [get_afterPurge, if_neg hx]
  by_cases h : x = parent
  · subst h; simp [st.hp]
  · simp [h]

theorem liveChild_c (st : PurgeStep r c parent ce pe ra b) : liveChild r c = false := by
  simp [liveChild, st.hc, st.hra]

theorem liveChild_dead_after {x : Ticket} (hx : x ∈ purged r c) : liveChild (afterPurge r c parent pe b) x = false := by
  unfold liveChild
  rw [get_afterPurge, if_pos hx]

/-- a structural child `x` of a surviving `t`: either it survives with its flag, or it is `c` (not live on
    either side) -/
theorem liveChild_child (w : WF r) (st : PurgeStep r c parent ce pe ra b) {t x : Ticket} (ht : t ∉ purged r c)
    (hx : x ∈ children r t) : liveChild (afterPurge r c parent pe b) x = liveChild r x := by
  by_cases hd : x ∈ purged r c
  · have : x = c := child_in_dead w ht hx hd
    rw [liveChild_dead_after hd, this, liveChild_c st]
  · exact liveChild_afterPurge st hd

theorem live_child_not_dead (w : WF r) (st : PurgeStep r c parent ce pe ra b) {t x : Ticket} (ht : t ∉ purged r c)
    (hx : x ∈ children r t) (hl : liveChild r x = true) : x ∉ purged r c := by
  intro hd
  have : x = c := child_in_dead w ht hx hd
  rw [this, liveChild_c st] at hl
  cases hl

/-- visible members of the (possibly purged) body of a surviving container -/
theorem liveMembers_parent (w : WF r) (st : PurgeStep r c parent ce pe ra b) (hpd : parent ∉ purged r c)
    {nodes nodes' : List (Ticket × String)} {byKey byKey' : List (String × Ticket)}
    (hb0 : pe.body = .obj nodes byKey) (hb1 : b = .obj nodes' byKey') :
    liveMembers (afterPurge r c parent pe b) byKey' = liveMembers r byKey := by
  apply liveMembers_congr
  have hwf : ObjWF nodes byKey := by
    have := w.body parent _ _ (skel_of_get st.hp)
    rw [hb0] at this; exact this
  have hchild : ∀ p ∈ byKey, p.2 ∈ children r parent := by
    intro p hp
    rw [children_eq st.hp, hb0]
    simpa [bodyChildren] using alGet_some_mem_keys (hwf.2 p hp)
  have hsame : List.filter (fun p => liveChild (afterPurge r c parent pe b) p.2) byKey =
      List.filter (fun p => liveChild r p.2) byKey := by
    apply List.filter_congr
    intro p hp
    exact liveChild_child w st hpd (hchild p hp)
  have hb := st.hb
  rw [hb0, hb1] at hb
  simp only [purgeBody, rhtPurge] at hb
  cases hg : alGet nodes c with
  | none => simp [hg] at hb
  | some k =>
    simp only [hg, Option.map_some, Option.some.injEq, Body.obj.injEq] at hb
    obtain ⟨_, hbk⟩ := hb
    rw [← hbk]
    split
    · rename_i hocc
      rw [← hsame]
      unfold alErase
      apply filter_filter_absorb
      intro y hy hq
      have hyk : y.1 = k := by simpa using hq
      have : alGet byKey y.1 = some y.2 := nodup_mem_alGet hwf.1 (by cases y; exact hy)
      rw [hyk, hocc] at this
      injection this with this
      rw [← this]
      exact liveChild_dead_after (List.mem_cons_self ..)
    · exact hsame

theorem liveElems_parent (w : WF r) (st : PurgeStep r c parent ce pe ra b) (hpd : parent ∉ purged r c)
    {nodes nodes' : List PosNode} {moved moved' : List (Ticket × Ticket)}
    (hb0 : pe.body = .arr nodes moved) (hb1 : b = .arr nodes' moved') :
    liveElems (afterPurge r c parent pe b) nodes' = liveElems r nodes := by
  have hchild : ∀ n ∈ nodes, ∀ x, n.elem = some x → x ∈ children r parent := by
    intro n hn x he
    rw [children_eq st.hp, hb0]
    simpa [bodyChildren] using elems_mem_of_node hn he
  have hb := st.hb
  rw [hb0, hb1] at hb
  simp only [purgeBody] at hb
  split at hb
  · simp only [Option.some.injEq, Body.arr.injEq] at hb
    obtain ⟨hn', _⟩ := hb
    rw [← hn']
    have h1 : liveElems (afterPurge r c parent pe b) nodes = liveElems r nodes :=
      liveElems_congr (fun n hn x he => liveChild_child w st hpd (hchild n hn x he))
    rw [← h1]
    apply liveElems_filter
    intro n _ hq x he
    have : n.elem = some c := by simpa using hq
    rw [he] at this
    injection this with this
    rw [this]
    exact liveChild_dead_after (List.mem_cons_self ..)
  · cases hb

theorem purgeBody_obj {nodes : List (Ticket × String)} {byKey : List (String × Ticket)} {c : Ticket} {b : Body}
    (h : purgeBody (.obj nodes byKey) c = some b) : ∃ n' bk', b = .obj n' bk' := by
  simp only [purgeBody] at h
  cases hr : rhtPurge nodes byKey c with
  | none => simp [hr] at h
  | some p => simp [hr] at h; exact ⟨p.1, p.2, h.symm⟩

theorem purgeBody_arr {nodes : List PosNode} {moved : List (Ticket × Ticket)} {c : Ticket} {b : Body}
    (h : purgeBody (.arr nodes moved) c = some b) : ∃ n' m', b = .arr n' m' := by
  simp only [purgeBody] at h
  split at h
  · injection h with h; exact ⟨_, _, h.symm⟩
  · cases h

/-- **one purge is invisible**: `Marshal()` of every surviving element is unchanged -/
theorem marshalAt_afterPurge (w : WF r) (st : PurgeStep r c parent ce pe ra b) :
    ∀ (f : Nat) (t : Ticket), t ∉ purged r c → marshalAt (afterPurge r c parent pe b) f t = marshalAt r f t := by
  intro f
  induction f with
  | zero => intro t _; rfl
  | succ f ih =>
    intro t ht
    have hrec : ∀ x, x ∈ children r t → liveChild r x = true →
        marshalAt (afterPurge r c parent pe b) f x = marshalAt r f x :=
      fun x hx hl => ih x (live_child_not_dead w st ht hx hl)
    rw [marshalAt_succ, marshalAt_succ, get_afterPurge, if_neg ht]
    by_cases hp : t = parent
    · subst hp
      simp only [if_true, st.hp]
      cases hb0 : pe.body with
      | obj nodes byKey =>
        obtain ⟨n', bk', hb1⟩ := purgeBody_obj (hb0 ▸ st.hb)
        subst hb1
        have hwf : ObjWF nodes byKey := by
          have := w.body t _ _ (skel_of_get st.hp)
          rw [hb0] at this; exact this
        apply marshalBody_obj_congr (liveMembers_parent w st ht hb0 rfl)
        intro p hp
        obtain ⟨hp1, hp2⟩ := mem_liveMembers hp
        have hch : p.2 ∈ children r t := by
          rw [children_eq st.hp, hb0]
          simpa [bodyChildren] using alGet_some_mem_keys (hwf.2 p hp1)
        exact hrec p.2 hch hp2
      | arr nodes moved =>
        obtain ⟨n', m', hb1⟩ := purgeBody_arr (hb0 ▸ st.hb)
        subst hb1
        apply marshalBody_arr_congr (liveElems_parent w st ht hb0 rfl)
        intro x hx
        obtain ⟨⟨n, hn, he⟩, hl⟩ := mem_liveElems hx
        have hch : x ∈ children r t := by
          rw [children_eq st.hp, hb0]
          simpa [bodyChildren] using elems_mem_of_node hn he
        exact hrec x hch hl
      | prim s => have hb := st.hb; rw [hb0] at hb; simp [purgeBody] at hb
      | counter l v => have hb := st.hb; rw [hb0] at hb; simp [purgeBody] at hb
      | «opaque» s => have hb := st.hb; rw [hb0] at hb; simp [purgeBody] at hb
    · simp only [hp, if_false]
      cases hg : r.get t with
      | none => rfl
      | some e =>
        simp only
        cases hb0 : e.body with
        | obj nodes byKey =>
          have hwf : ObjWF nodes byKey := by
            have := w.body t _ _ (skel_of_get hg)
            rw [hb0] at this; exact this
          have hchild : ∀ p ∈ byKey, p.2 ∈ children r t := by
            intro p hp
            rw [children_eq hg, hb0]
            simpa [bodyChildren] using alGet_some_mem_keys (hwf.2 p hp)
          have hlm : liveMembers (afterPurge r c parent pe b) byKey = liveMembers r byKey := by
            apply liveMembers_congr
            apply List.filter_congr
            intro p hp
            exact liveChild_child w st ht (hchild p hp)
          apply marshalBody_obj_congr hlm
          intro p hp
          obtain ⟨hp1, hp2⟩ := mem_liveMembers hp
          exact hrec p.2 (hchild p hp1) hp2
        | arr nodes moved =>
          have hchild : ∀ n ∈ nodes, ∀ x, n.elem = some x → x ∈ children r t := by
            intro n hn x he
            rw [children_eq hg, hb0]
            simpa [bodyChildren] using elems_mem_of_node hn he
          have hle : liveElems (afterPurge r c parent pe b) nodes = liveElems r nodes :=
            liveElems_congr (fun n hn x he => liveChild_child w st ht (hchild n hn x he))
          apply marshalBody_arr_congr hle
          intro x hx
          obtain ⟨⟨n, hn, he⟩, hl⟩ := mem_liveElems hx
          exact hrec x (hchild n hn x he) hl
        | prim s => rfl
        | counter l v => rfl
        | «opaque» s => rfl

theorem skel_afterPurge (t : Ticket) :
    skel (afterPurge r c parent pe b) t =
      if t ∈ purged r c then none else if t = parent then some (pe.parent, b) else skel r t := by
  unfold skel
  rw [get_afterPurge]
  by_cases h1 : t ∈ purged r c
  · simp [h1]
  · by_cases h2 : t = parent
    · subst h2; simp [h1]
    · simp [h1, h2]

/-- one purge keeps the heap well-formed -/
theorem wf_afterPurge (w : WF r) (st : PurgeStep r c parent ce pe ra b) : WF (afterPurge r c parent pe b) := by
  have hcp := c_child_parent st
  have hsp : skel r parent = some (pe.parent, pe.body) := skel_of_get st.hp
  -- a surviving skeleton entry of the new heap
  have surv : ∀ x p0 b0, skel r x = some (p0, b0) → x ∉ purged r c →
      ∃ b1, skel (afterPurge r c parent pe b) x = some (p0, b1) := by
    intro x p0 b0 hx hnd
    rw [skel_afterPurge, if_neg hnd]
    by_cases h : x = parent
    · subst h
      rw [hsp] at hx
      injection hx with hx
      injection hx with h1 _
      exact ⟨b, by simp [h1]⟩
    · exact ⟨b0, by simp [h, hx]⟩
  refine ⟨?_, ?_, ?_⟩
  · obtain ⟨b0, h0⟩ := w.root
    exact surv rootId none b0 h0 (root_not_dead w hcp)
  · intro t p0 b0 x ht hx
    rw [skel_afterPurge] at ht
    by_cases hd : t ∈ purged r c
    · simp [hd] at ht
    · have hnd : t ∉ purged r c := hd
      simp only [hd, if_false] at ht
      by_cases hp : t = parent
      · subst hp
        simp only [if_true, Option.some.injEq, Prod.mk.injEq] at ht
        obtain ⟨_, h2⟩ := ht
        subst h2
        obtain ⟨hx1, hx2⟩ := purgeBody_children st.hb hx
        have hxc : x ∈ children r t := by rw [children_eq st.hp]; exact hx1
        have hxnd : x ∉ purged r c := fun hdx => hx2 (child_in_dead w hnd hxc hdx)
        obtain ⟨b', hb'⟩ := w.child t _ _ x hsp hx1
        exact surv x _ b' hb' hxnd
      · simp only [hp, if_false] at ht
        have hxc : x ∈ children r t := by
          obtain ⟨e, he, _, he2⟩ := get_of_skel ht
          rw [children_eq he, he2]; exact hx
        have hxnd : x ∉ purged r c := by
          intro hdx
          have := child_in_dead w hnd hxc hdx
          subst this
          exact hp (child_unique_parent w hxc hcp)
        obtain ⟨b', hb'⟩ := w.child t _ _ x ht hx
        exact surv x _ b' hb' hxnd
  · intro t p0 b0 ht
    rw [skel_afterPurge] at ht
    by_cases hd : t ∈ purged r c
    · simp [hd] at ht
    · simp only [hd, if_false] at ht
      by_cases hp : t = parent
      · subst hp
        simp only [if_true, Option.some.injEq, Prod.mk.injEq] at ht
        obtain ⟨_, h2⟩ := ht
        subst h2
        exact purgeBody_wf st.hb (w.body t _ _ hsp)
      · simp only [hp, if_false] at ht
        exact w.body t _ _ ht

/-- visible element list of an array / member list of an object that survives -/
theorem arrayContent_afterPurge (w : WF r) (st : PurgeStep r c parent ce pe ra b) {t : Ticket} (ht : t ∉ purged r c) :
    arrayContent (afterPurge r c parent pe b) t = arrayContent r t := by
  unfold arrayContent
  rw [get_afterPurge, if_neg ht]
  by_cases hp : t = parent
  · subst hp
    simp only [if_true, st.hp]
    cases hb0 : pe.body with
    | arr nodes moved =>
      obtain ⟨n', m', hb1⟩ := purgeBody_arr (hb0 ▸ st.hb)
      subst hb1
      exact liveElems_parent w st ht hb0 rfl
    | obj nodes byKey =>
      obtain ⟨n', bk', hb1⟩ := purgeBody_obj (hb0 ▸ st.hb)
      subst hb1
      rfl
    | prim s => have hb := st.hb; rw [hb0] at hb; simp [purgeBody] at hb
    | counter l v => have hb := st.hb; rw [hb0] at hb; simp [purgeBody] at hb
    | «opaque» s => have hb := st.hb; rw [hb0] at hb; simp [purgeBody] at hb
  · simp only [hp, if_false]
    cases hg : r.get t with
    | none => rfl
    | some e =>
      simp only
      cases hb0 : e.body with
      | arr nodes moved =>
        simp only
        apply liveElems_congr
        intro n hn x he
        apply liveChild_child w st ht
        rw [children_eq hg, hb0]
        simpa [bodyChildren] using elems_mem_of_node hn he
      | obj nodes byKey => rfl
      | prim s => rfl
      | counter l v => rfl
      | «opaque» s => rfl

/-- live members of an object in key order (what `Marshal()` prints and `Get/Has/Members` read) -/
def objectContent (r : Root) (o : Ticket) : List (String × Ticket) :=
  match r.get o with
  | some e => match e.body with
    | .obj _ byKey => liveMembers r byKey
    | _ => []
  | none => []

theorem objectContent_afterPurge (w : WF r) (st : PurgeStep r c parent ce pe ra b) {t : Ticket} (ht : t ∉ purged r c) :
    objectContent (afterPurge r c parent pe b) t = objectContent r t := by
  unfold objectContent
  rw [get_afterPurge, if_neg ht]
  by_cases hp : t = parent
  · subst hp
    simp only [if_true, st.hp]
    cases hb0 : pe.body with
    | obj nodes byKey =>
      obtain ⟨n', bk', hb1⟩ := purgeBody_obj (hb0 ▸ st.hb)
      subst hb1
      exact liveMembers_parent w st ht hb0 rfl
    | arr nodes moved =>
      obtain ⟨n', m', hb1⟩ := purgeBody_arr (hb0 ▸ st.hb)
      subst hb1
      rfl
    | prim s => have hb := st.hb; rw [hb0] at hb; simp [purgeBody] at hb
    | counter l v => have hb := st.hb; rw [hb0] at hb; simp [purgeBody] at hb
    | «opaque» s => have hb := st.hb; rw [hb0] at hb; simp [purgeBody] at hb
  · simp only [hp, if_false]
    cases hg : r.get t with
    | none => rfl
    | some e =>
      simp only
      cases hb0 : e.body with
      | obj nodes byKey =>
        simp only
        have hwf : ObjWF nodes byKey := by
          have := w.body t _ _ (skel_of_get hg)
          rw [hb0] at this; exact this
        apply liveMembers_congr
        apply List.filter_congr
        intro p hp
        apply liveChild_child w st ht
        rw [children_eq hg, hb0]
        simpa [bodyChildren] using alGet_some_mem_keys (hwf.2 p hp)
      | arr nodes moved => rfl
      | prim s => rfl
      | counter l v => rfl
      | «opaque» s => rfl

end OneStep

/-! ### the two loops of `Root.GarbageCollect` -/

/-- what a purge pass may do to a root: everything that survives looks the same -/
structure Invisible (r r' : Root) : Prop where
  wf : WF r'
  root : r'.get rootId ≠ none
  same : ∀ t, r'.get t ≠ none → r.get t ≠ none ∧ (∀ f, marshalAt r' f t = marshalAt r f t) ∧
    arrayContent r' t = arrayContent r t ∧ objectContent r' t = objectContent r t

theorem Invisible.refl {r : Root} (w : WF r) : Invisible r r := by
  refine ⟨w, ?_, fun t ht => ⟨ht, fun _ => rfl, rfl, rfl⟩⟩
  obtain ⟨b, hb⟩ := w.root
  obtain ⟨e, he, _⟩ := get_of_skel hb
  rw [he]; simp

theorem Invisible.trans {r r1 r2 : Root} (h1 : Invisible r r1) (h2 : Invisible r1 r2) : Invisible r r2 := by
  refine ⟨h2.wf, h2.root, ?_⟩
  intro t ht
  obtain ⟨a1, a2, a3, a4⟩ := h2.same t ht
  obtain ⟨b1, b2, b3, b4⟩ := h1.same t a1
  exact ⟨b1, fun f => (a2 f).trans (b2 f), a3.trans b3, a4.trans b4⟩

theorem invisible_afterPurge {r : Root} {c parent : Ticket} {ce pe : Elem} {ra : Ticket} {b : Body}
    (w : WF r) (st : PurgeStep r c parent ce pe ra b) : Invisible r (afterPurge r c parent pe b) := by
  have hroot : rootId ∉ purged r c := root_not_dead w (f := r.fuel) (c_child_parent st)
  have surv : ∀ t, (afterPurge r c parent pe b).get t ≠ none → t ∉ purged r c ∧ r.get t ≠ none := by
    intro t ht
    rw [get_afterPurge] at ht
    by_cases hd : t ∈ purged r c
    · simp [hd] at ht
    · refine ⟨hd, ?_⟩
      simp only [hd, if_false] at ht
      by_cases hp : t = parent
      · subst hp; rw [st.hp]; simp
      · simpa [hp] using ht
  refine ⟨wf_afterPurge w st, ?_, ?_⟩
  · rw [get_afterPurge, if_neg hroot]
    obtain ⟨b0, hb0⟩ := w.root
    obtain ⟨e, he, _⟩ := get_of_skel hb0
    by_cases hp : rootId = parent
    · simp [hp]
    · simp [hp, he]
  · intro t ht
    obtain ⟨hnd, hg⟩ := surv t ht
    exact ⟨hg, fun f => marshalAt_afterPurge w st f t hnd, arrayContent_afterPurge w st hnd, objectContent_afterPurge w st hnd⟩

/-- one iteration of the first loop either does nothing or is an effective purge step whose tombstone
    the vector covers -/
theorem purgeElem_cases {v : VV} {r r' : Root} {c parent : Ticket} {k : Nat} (h : purgeElem v r c parent = .ok (r', k)) :
    r' = r ∨ ∃ ce pe ra b, PurgeStep r c parent ce pe ra b ∧ v.equalToOrAfter ra = true ∧
      r' = afterPurge r c parent pe b := by
  unfold purgeElem at h
  split at h
  · injection h with h; injection h with h _; exact Or.inl h.symm
  · cases hc : r.get c with
    | none => simp [hc] at h; exact Or.inl h.1.symm
    | some ce =>
      simp only [hc] at h
      cases hra : ce.removedAt with
      | none => simp [hra] at h; exact Or.inl h.1.symm
      | some ra =>
        simp only [hra] at h
        split at h
        · injection h with h; injection h with h _; exact Or.inl h.symm
        · rename_i hcov
          cases hp : r.get parent with
          | none => simp [hp] at h; exact Or.inl h.1.symm
          | some pe =>
            simp only [hp] at h
            cases hb : purgeBody pe.body c with
            | none => simp [hb] at h
            | some b =>
              simp only [hb] at h
              injection h with h
              injection h with h _
              refine Or.inr ⟨ce, pe, ra, b, ⟨hc, hra, hp, hb⟩, by simpa using hcov, ?_⟩
              rw [← h]; rfl

theorem invisible_purgeElems {v : VV} : ∀ (l : List (Ticket × Ticket)) (r r' : Root) (n n' : Nat),
    WF r → purgeElems v l r n = .ok (r', n') → Invisible r r' := by
  intro l
  induction l with
  | nil =>
    intro r r' n n' w h
    simp only [purgeElems] at h
    injection h with h
    injection h with h _
    subst h
    exact Invisible.refl w
  | cons p rest ih =>
    intro r r' n n' w h
    obtain ⟨c, parent⟩ := p
    simp only [purgeElems] at h
    cases hs : purgeElem v r c parent with
    | error e => simp [hs] at h
    | ok res =>
      obtain ⟨r1, k⟩ := res
      simp only [hs] at h
      have step : Invisible r r1 := by
        rcases purgeElem_cases hs with e | ⟨ce, pe, ra, b, st, _, e⟩
        · subst e; exact Invisible.refl w
        · subst e; exact invisible_afterPurge w st
      exact step.trans (ih r1 r' _ n' step.wf h)

theorem liveChild_put_fields (r : Root) (t : Ticket) (e e' : Elem) (hg : r.get t = some e)
    (h : e'.removedAt = e.removedAt) (x : Ticket) : liveChild (r.put t e') x = liveChild r x := by
  unfold liveChild
  rw [get_put]
  by_cases hx : x = t
  · subst hx; simp [hg, h]
  · simp [hx]

theorem mem_of_mem_eraseFirst {q : PosNode → Bool} {n : PosNode} : ∀ {l : List PosNode}, n ∈ eraseFirst q l → n ∈ l := by
  intro l
  induction l with
  | nil => intro h; simp [eraseFirst] at h
  | cons a rest ih =>
    intro h
    unfold eraseFirst at h
    split at h
    · exact List.mem_cons_of_mem _ h
    · rcases List.mem_cons.mp h with e | e
      · rw [e]; exact List.mem_cons_self ..
      · exact List.mem_cons_of_mem _ (ih e)

/-- releasing a dead slot -/
theorem invisible_releaseSlot {r : Root} (w : WF r) (g : GcNode) : Invisible r (releaseSlot r g) := by
  unfold releaseSlot
  cases hg : r.get g.arr with
  | none => exact Invisible.refl w
  | some ae =>
    simp only
    cases hb : ae.body with
    | arr nodes moved =>
      simp only
      let q : PosNode → Bool := fun n => !(n.pos = g.pos && n.elem.isNone)
      have hq : ∀ n, q n = false → n.elem = none := by
        intro n hn
        simp only [q, Bool.not_eq_false', Bool.and_eq_true, Option.isNone_iff_eq_none] at hn
        exact hn.2
      let r1 := r.put g.arr { ae with body := .arr (List.filter q nodes) moved }
      have hsub : ∀ x, x ∈ (List.filter q nodes).filterMap (·.elem) → x ∈ nodes.filterMap (·.elem) := by
        intro x hx
        obtain ⟨n, hn, he⟩ := mem_elems_of_nodes hx
        have : n ∈ nodes := (List.mem_filter.mp hn).1
        exact elems_mem_of_node this he
      have hsa : skel r g.arr = some (ae.parent, .arr nodes moved) := by rw [skel_of_get hg, hb]
      have w1 : WF r1 := by
        apply wf_put_body w hg
        · intro c hc
          exact w.child g.arr _ _ c hsa (by simpa [bodyChildren] using hsub c (by simpa [bodyChildren] using hc))
        · trivial
      have hlive : ∀ x, liveChild r1 x = liveChild r x :=
        fun x => liveChild_put_fields r g.arr ae { ae with body := .arr (List.filter q nodes) moved } hg rfl x
      have hget : ∀ t, r1.get t = if t = g.arr then some { ae with body := .arr (List.filter q nodes) moved } else r.get t :=
        fun t => get_put r g.arr t _
      have hm : ∀ f t, marshalAt r1 f t = marshalAt r f t := by
        intro f
        induction f with
        | zero => intro t; rfl
        | succ f ih =>
          intro t
          rw [marshalAt_succ, marshalAt_succ, hget]
          by_cases ht : t = g.arr
          · subst ht
            simp only [if_true, hg, hb]
            apply marshalBody_arr_congr
            · rw [liveElems_congr (fun n _ x _ => hlive x)]
              exact liveElems_filter q (fun n _ hn x he => by rw [hq n hn] at he; cases he)
            · intro x _; exact ih x
          · simp only [ht, if_false]
            cases hgt : r.get t with
            | none => rfl
            | some e =>
              simp only
              cases hbe : e.body with
              | obj n bk =>
                apply marshalBody_obj_congr
                · exact liveMembers_congr (List.filter_congr (fun p _ => hlive p.2))
                · intro p _; exact ih p.2
              | arr n m =>
                apply marshalBody_arr_congr
                · exact liveElems_congr (fun n _ x _ => hlive x)
                · intro x _; exact ih x
              | prim s => rfl
              | counter l v => rfl
              | «opaque» s => rfl
      refine ⟨w1, ?_, ?_⟩
      · rw [hget]
        obtain ⟨b0, hb0⟩ := w.root
        obtain ⟨e, he, _⟩ := get_of_skel hb0
        by_cases hx : rootId = g.arr
        · simp [hx]
        · simp [hx, he]
      · intro t ht
        refine ⟨?_, fun f => hm f t, ?_, ?_⟩
        · rw [hget] at ht
          by_cases hx : t = g.arr
          · subst hx; rw [hg]; simp
          · simpa [hx] using ht
        · unfold arrayContent
          rw [hget]
          by_cases hx : t = g.arr
          · subst hx
            simp only [if_true, hg, hb]
            rw [liveElems_congr (fun n _ x _ => hlive x)]
            exact liveElems_filter q (fun n _ hn x he => by rw [hq n hn] at he; cases he)
          · simp only [hx, if_false]
            cases hgt : r.get t with
            | none => rfl
            | some e =>
              simp only
              cases hbe : e.body with
              | arr n m => exact liveElems_congr (fun n _ x _ => hlive x)
              | obj n bk => rfl
              | prim s => rfl
              | counter l v => rfl
              | «opaque» s => rfl
        · unfold objectContent
          rw [hget]
          by_cases hx : t = g.arr
          · subst hx
            simp only [if_true, hg, hb]
          · simp only [hx, if_false]
            cases hgt : r.get t with
            | none => rfl
            | some e =>
              simp only
              cases hbe : e.body with
              | obj n bk => exact liveMembers_congr (List.filter_congr (fun p _ => hlive p.2))
              | arr n m => rfl
              | prim s => rfl
              | counter l v => rfl
              | «opaque» s => rfl
    | obj n bk => exact Invisible.refl w
    | prim s => exact Invisible.refl w
    | counter l v => exact Invisible.refl w
    | «opaque» s => exact Invisible.refl w

theorem invisible_gcNodes {r : Root} (w : WF r) (l : List GcNode) : Invisible r { r with gcNodes := l } := by
  have hs : ∀ t, ({ r with gcNodes := l } : Root).get t = r.get t := fun _ => rfl
  have hm : ∀ f t, marshalAt ({ r with gcNodes := l } : Root) f t = marshalAt r f t := by
    intro f
    induction f with
    | zero => intro t; rfl
    | succ f ih =>
      intro t
      rw [marshalAt_succ, marshalAt_succ, hs]
      cases r.get t with
      | none => rfl
      | some e =>
        simp only
        cases e.body with
        | obj n bk =>
          exact marshalBody_obj_congr (liveMembers_congr (List.filter_congr (fun _ _ => rfl))) (fun p _ => ih p.2)
        | arr n m => exact marshalBody_arr_congr (liveElems_congr (fun _ _ _ _ => rfl)) (fun x _ => ih x)
        | prim s => rfl
        | counter l v => rfl
        | «opaque» s => rfl
  refine ⟨WF.congr (r := r) (fun _ => rfl) w, ?_, fun t ht => ⟨ht, fun f => hm f t, ?_, ?_⟩⟩
  · exact (Invisible.refl w).root
  · unfold arrayContent; rw [hs]
    cases r.get t with
    | none => rfl
    | some e => cases e.body <;> first | rfl | exact liveElems_congr (fun _ _ _ _ => rfl)
  · unfold objectContent; rw [hs]
    cases r.get t with
    | none => rfl
    | some e => cases e.body <;> first | rfl | exact liveMembers_congr (List.filter_congr (fun _ _ => rfl))

theorem invisible_purgeNodes {v : VV} : ∀ (l : List GcNode) (r : Root) (n : Nat), WF r →
    Invisible r (purgeNodes v l r n).1 := by
  intro l
  induction l with
  | nil => intro r n w; exact Invisible.refl w
  | cons g rest ih =>
    intro r n w
    simp only [purgeNodes]
    split
    · have s1 := invisible_releaseSlot w g
      have s2 := invisible_gcNodes s1.wf (List.filter (fun x => !decide (x.pos = g.pos)) (releaseSlot r g).gcNodes)
      exact (s1.trans s2).trans (ih _ _ s2.wf)
    · exact ih r n w

/-- `Root.GarbageCollect` as a whole -/
theorem invisible_garbageCollect {v : VV} {r r' : Root} {n : Nat} (w : WF r)
    (h : garbageCollect v r = .ok (r', n)) : Invisible r r' := by
  unfold garbageCollect at h
  cases h1 : purgeElems v r.gcElems r 0 with
  | error e => simp [h1] at h
  | ok res =>
    obtain ⟨r1, n1⟩ := res
    simp only [h1] at h
    injection h with h
    have s1 := invisible_purgeElems r.gcElems r r1 0 n1 w h1
    have s2 := invisible_purgeNodes (v := v) r1.gcNodes r1 n1 s1.wf
    have : r' = (purgeNodes v r1.gcNodes r1 n1).1 := by rw [h]
    rw [this]
    exact s1.trans s2

end Yorkie.FDoc
