/-
Text convergence, part 12: `Text.Marshal()` is determined by the abstract state.

The attribute register of a node is an association list; `RHT.Marshal` prints the live entries sorted
by key.  Under the invariant "keys of a node are unique" (`AttrsNodup`, preserved by every edit and
style operation) the sorted live entries are determined by the canonical lookup function that `abs`
keeps, hence two well-formed block lists with the same abstraction marshal identically.
Core Lean only.
-/
import YorkieModel.Lemmas.TextConvSys
set_option linter.unusedSimpArgs false
namespace Yorkie.TextConv
open Yorkie Yorkie.Text Yorkie.Convergence

/-! ### A. the sorted live entries are a function of the lookup function -/

def akeys (as : List AttrNode) : List String := as.map (·.key)

/-- `RHT.nodeMapByKey` is a map: keys are unique -/
def AttrsOK (as : List AttrNode) : Prop := (akeys as).Nodup

theorem nodup_of_map {α β : Type} (f : α → β) {l : List α} (h : (l.map f).Nodup) : l.Nodup := by
  induction l with
  | nil => exact List.nodup_nil
  | cons a r ih =>
    simp only [List.map_cons, List.nodup_cons] at h ⊢
    exact ⟨fun hm => h.1 (List.mem_map.2 ⟨a, hm, rfl⟩), ih h.2⟩

theorem attrGet_some {as : List AttrNode} {k : String} {a : AttrNode} (h : attrGet as k = some a) :
    a ∈ as ∧ a.key = k := by
  induction as with
  | nil => cases h
  | cons x r ih =>
    unfold attrGet at h
    split at h
    · injection h with h; subst h; exact ⟨by simp, ‹_›⟩
    · exact ⟨List.mem_cons_of_mem _ (ih h).1, (ih h).2⟩

theorem attrGet_of_mem {as : List AttrNode} (ok : AttrsOK as) {a : AttrNode} (h : a ∈ as) :
    attrGet as a.key = some a := by
  induction as with
  | nil => cases h
  | cons x r ih =>
    unfold AttrsOK akeys at ok
    simp only [List.map_cons, List.nodup_cons] at ok
    unfold attrGet
    rcases List.mem_cons.1 h with rfl | h
    · simp
    · rw [if_neg (fun e => ok.1 (by rw [e]; exact List.mem_map.2 ⟨a, h, rfl⟩))]
      exact ih ok.2 h

def lives (as : List AttrNode) : List AttrNode := List.filter (fun a => !a.removed) as

theorem mem_lives_of_norm {as bs : List AttrNode} (oka : AttrsOK as) (h : normAttrs as = normAttrs bs)
    {a : AttrNode} (ha : a ∈ lives as) : a ∈ lives bs := by
  obtain ⟨hmem, hrm⟩ := List.mem_filter.1 ha
  have hrm' : a.removed = false := by simpa using hrm
  have h1 := attrGet_of_mem oka hmem
  have h2 : normAttrs as a.key = some (normAttr a) := by unfold normAttrs; rw [h1]; rfl
  rw [h] at h2
  unfold normAttrs at h2
  cases hb : attrGet bs a.key with
  | none => rw [hb] at h2; cases h2
  | some b =>
    rw [hb] at h2
    simp only [Option.map_some, Option.some.injEq] at h2
    obtain ⟨hbm, hbk⟩ := attrGet_some hb
    have e : b = a := by
      unfold normAttr at h2
      rw [hrm'] at h2
      simp only [Bool.false_eq_true, if_false, AAttr.mk.injEq] at h2
      obtain ⟨e1, e2, e3⟩ := h2
      rw [e3] at e1
      simp only [Bool.false_eq_true, if_false] at e1
      cases a; cases b; simp_all
    subst e
    exact List.mem_filter.2 ⟨hbm, hrm⟩

theorem nodup_lives {as : List AttrNode} (ok : AttrsOK as) : (lives as).Nodup := by
  apply nodup_of_map (·.key)
  exact List.Nodup.sublist (List.Sublist.map _ List.filter_sublist) ok

theorem lives_perm {as bs : List AttrNode} (oka : AttrsOK as) (okb : AttrsOK bs)
    (h : normAttrs as = normAttrs bs) : (lives as).Perm (lives bs) :=
  (List.perm_ext_iff_of_nodup (nodup_lives oka) (nodup_lives okb)).2
    (fun _ => ⟨mem_lives_of_norm oka h, mem_lives_of_norm okb h.symm⟩)

theorem insertAttr_perm (a : AttrNode) (r : List AttrNode) : (insertAttr a r).Perm (a :: r) := by
  induction r with
  | nil => exact List.Perm.refl _
  | cons b r ih =>
    unfold insertAttr
    split
    · exact List.Perm.refl _
    · exact ((List.Perm.cons b ih).trans (List.Perm.swap a b r))

theorem sortAttrs_perm (as : List AttrNode) : (sortAttrs as).Perm as := by
  unfold sortAttrs
  induction as with
  | nil => exact List.Perm.refl _
  | cons a r ih =>
    simp only [List.foldr_cons]
    exact (insertAttr_perm a _).trans (List.Perm.cons a ih)

def keyLt (a b : AttrNode) : Prop := a.key < b.key

theorem insertAttr_sorted {a : AttrNode} {r : List AttrNode} (hs : r.Pairwise keyLt)
    (hne : ∀ b ∈ r, b.key ≠ a.key) : (insertAttr a r).Pairwise keyLt := by
  induction r with
  | nil => simp [insertAttr]
  | cons b r ih =>
    obtain ⟨h1, h2⟩ := List.pairwise_cons.1 hs
    unfold insertAttr
    split
    · rename_i hlt
      refine List.pairwise_cons.2 ⟨?_, hs⟩
      intro c hc
      rcases List.mem_cons.1 hc with rfl | hc
      · exact hlt
      · exact Std.lt_trans hlt (h1 c hc)
    · rename_i hnlt
      have hba : b.key < a.key :=
        Std.lt_of_le_of_ne (Std.not_lt.1 hnlt) (hne b (by simp))
      refine List.pairwise_cons.2 ⟨?_, ih h2 (fun c hc => hne c (List.mem_cons_of_mem _ hc))⟩
      intro c hc
      rcases List.mem_cons.1 ((insertAttr_perm a r).mem_iff.1 hc) with rfl | hc
      · exact hba
      · exact h1 c hc

theorem sortAttrs_sorted {as : List AttrNode} (ok : AttrsOK as) : (sortAttrs as).Pairwise keyLt := by
  unfold sortAttrs
  induction as with
  | nil => simp
  | cons a r ih =>
    unfold AttrsOK akeys at ok
    simp only [List.map_cons, List.nodup_cons] at ok
    simp only [List.foldr_cons]
    apply insertAttr_sorted (ih ok.2)
    intro b hb e
    have : b ∈ r := (sortAttrs_perm r).mem_iff.1 hb
    exact ok.1 (by rw [← e]; exact List.mem_map.2 ⟨b, this, rfl⟩)

theorem attrsOK_lives {as : List AttrNode} (ok : AttrsOK as) : AttrsOK (lives as) :=
  List.Nodup.sublist (List.Sublist.map _ List.filter_sublist) ok

/-- **the printed attributes are a function of the canonical register** -/
theorem liveAttrs_eq_of_norm {as bs : List AttrNode} (oka : AttrsOK as) (okb : AttrsOK bs)
    (h : normAttrs as = normAttrs bs) : liveAttrs as = liveAttrs bs := by
  have hp : (sortAttrs (lives as)).Perm (sortAttrs (lives bs)) :=
    ((sortAttrs_perm _).trans (lives_perm oka okb h)).trans (sortAttrs_perm _).symm
  exact List.Perm.eq_of_pairwise (le := keyLt)
    (fun a b _ _ h1 h2 => absurd (Std.lt_trans h1 h2) Std.lt_irrefl)
    (sortAttrs_sorted (attrsOK_lives oka)) (sortAttrs_sorted (attrsOK_lives okb)) hp

/-! ### B. unique keys is an invariant -/

theorem mem_akeys_attrPut {as : List AttrNode} {n : AttrNode} {k : String}
    (h : k ∈ akeys (attrPut as n)) : k ∈ akeys as ∨ k = n.key := by
  induction as with
  | nil =>
    simp only [attrPut, akeys, List.map_cons, List.map_nil, List.mem_singleton] at h
    exact Or.inr h
  | cons a r ih =>
    unfold attrPut at h
    split at h
    · simp only [akeys, List.map_cons, List.mem_cons] at h ⊢
      rcases h with h | h
      · exact Or.inr h
      · exact Or.inl (Or.inr h)
    · simp only [akeys, List.map_cons, List.mem_cons] at h ⊢
      rcases h with h | h
      · exact Or.inl (Or.inl h)
      · rcases ih h with h | h
        · exact Or.inl (Or.inr h)
        · exact Or.inr h

theorem attrsOK_attrPut {as : List AttrNode} (ok : AttrsOK as) (n : AttrNode) : AttrsOK (attrPut as n) := by
  induction as with
  | nil => simp [attrPut, AttrsOK, akeys]
  | cons a r ih =>
    have ok' := ok
    unfold AttrsOK akeys at ok'
    simp only [List.map_cons, List.nodup_cons] at ok'
    unfold attrPut
    split
    · rename_i e
      unfold AttrsOK akeys
      simp only [List.map_cons, List.nodup_cons]
      exact ⟨by rw [← e]; exact ok'.1, ok'.2⟩
    · rename_i e
      have := ih ok'.2
      unfold AttrsOK akeys at this ⊢
      simp only [List.map_cons, List.nodup_cons]
      refine ⟨?_, this⟩
      intro hm
      rcases mem_akeys_attrPut hm with h | h
      · exact ok'.1 h
      · exact e h

theorem attrsOK_rhtSet {as : List AttrNode} (ok : AttrsOK as) (k v : String) (t : Ticket) :
    AttrsOK (rhtSet as k v t) := by
  unfold rhtSet
  split
  · exact attrsOK_attrPut ok _
  · split
    · exact attrsOK_attrPut ok _
    · exact ok

theorem attrsOK_rhtRemove {as : List AttrNode} (ok : AttrsOK as) (k : String) (t : Ticket) :
    AttrsOK (rhtRemove as k t) := by
  unfold rhtRemove
  split
  · exact attrsOK_attrPut ok _
  · split
    · exact attrsOK_attrPut ok _
    · exact ok

theorem attrsOK_rhtSetAll {as : List AttrNode} (ok : AttrsOK as) (kvs : List (String × String)) (t : Ticket) :
    AttrsOK (rhtSetAll as kvs t) := by
  unfold rhtSetAll
  induction kvs generalizing as with
  | nil => exact ok
  | cons kv r ih => exact ih (attrsOK_rhtSet ok _ _ _)

theorem attrsOK_rhtRemoveAll {as : List AttrNode} (ok : AttrsOK as) (ks : List String) (t : Ticket) :
    AttrsOK (rhtRemoveAll as ks t) := by
  unfold rhtRemoveAll
  induction ks generalizing as with
  | nil => exact ok
  | cons k r ih => exact ih (attrsOK_rhtRemove ok _ _)

theorem attrsOK_nil : AttrsOK [] := by simp [AttrsOK, akeys]

/-- every node's attribute keys are unique -/
def AttrsNodup (s : TextSt) : Prop := ∀ n ∈ s, AttrsOK n.attrs

theorem attrsNodup_init : AttrsNodup Text.init := by
  intro n hn
  simp [Text.init] at hn; subst hn; exact attrsOK_nil

theorem attrsNodup_fnws {s : TextSt} (h : AttrsNodup s) {pos : Pos} {ts : Ticket} {s1 : TextSt} {l : Id}
    {r : Option Id} (e : findNodeWithSplit s pos ts = .ok (s1, l, r)) : AttrsNodup s1 := by
  rcases fnws_cases e with rfl | ⟨n, hn, k, h0, hk, rfl⟩
  · exact h
  · intro x hx
    rcases (mem_splitNode hn h0 hk).1 hx with rfl | ⟨m, hm, rfl⟩
    · exact h n hn
    · rw [splitMap_attrs]; exact h m hm

theorem removeNode_attrs (ts : Ticket) (vv : Option VV) (n : TNode) : (removeNode ts vv n).attrs = n.attrs := by
  unfold removeNode
  split
  · rfl
  · split
    · rfl
    · split <;> rfl

theorem attrsNodup_edit {s s' : TextSt} (h : AttrsNodup s) {fr to : Pos} {content : List Nat}
    {attrs : List (String × String)} {ts : Ticket} {vv : Option VV}
    (e : edit fr to content attrs ts vv s = .ok s') : AttrsNodup s' := by
  unfold edit at e
  split at e
  · cases e
  · rename_i s1 l1 toRight h1
    split at e
    · cases e
    · rename_i s2 fromLeft fromRight h2
      have a2 := attrsNodup_fnws (attrsNodup_fnws h h1) h2
      have a3 : AttrsNodup (s2.map (applyTo (between s2 fromRight toRight) (removeNode ts vv))) := by
        intro x hx
        obtain ⟨m, hm, rfl⟩ := List.mem_map.1 hx
        unfold applyTo
        split
        · rw [removeNode_attrs]; exact a2 m hm
        · exact a2 m hm
      simp only at e
      split at e
      · injection e with e; subst e; exact a3
      · injection e with e; subst e
        intro x hx
        rcases mem_insertAfterId_imp hx with rfl | hx
        · exact attrsOK_rhtSetAll attrsOK_nil _ _
        · exact a3 x hx

theorem attrsNodup_styleWith {s s' : TextSt} (h : AttrsNodup s) {fr to : Pos}
    {g : List AttrNode → List AttrNode} (hg : ∀ as, AttrsOK as → AttrsOK (g as)) {ts : Ticket}
    {vv : Option VV} (e : styleWith fr to g ts vv s = .ok s') : AttrsNodup s' := by
  unfold styleWith at e
  split at e
  · cases e
  · rename_i s1 l1 toRight h1
    split at e
    · cases e
    · rename_i s2 fromLeft fromRight h2
      have a2 := attrsNodup_fnws (attrsNodup_fnws h h1) h2
      injection e with e; subst e
      intro x hx
      obtain ⟨m, hm, rfl⟩ := List.mem_map.1 hx
      unfold applyTo
      split
      · unfold styleNode
        split
        · exact hg _ (a2 m hm)
        · exact a2 m hm
      · exact a2 m hm

theorem attrsNodup_styleOp {s s' : TextSt} (h : AttrsNodup s) {fr to : Pos}
    {attrs : List (String × String)} {keys : List String} {ts : Ticket} {vv : Option VV}
    (e : styleOp fr to attrs keys ts vv s = .ok s') : AttrsNodup s' := by
  unfold styleOp at e
  split at e
  · cases e
  · rename_i s1 h1
    have a1 : AttrsNodup s1 := by
      split at h1
      · injection h1 with h1; subst h1; exact h
      · exact attrsNodup_styleWith h (fun as ok => attrsOK_rhtRemoveAll ok _ _) h1
    split at e
    · injection e with e; subst e; exact a1
    · exact attrsNodup_styleWith a1 (fun as ok => attrsOK_rhtSetAll ok _ _) e

theorem attrsNodup_exec {s s' : TextSt} (h : AttrsNodup s) {o : TOp} (e : exec o s = .ok s') :
    AttrsNodup s' := by
  unfold exec at e
  split at e
  · exact attrsNodup_edit h e
  · exact attrsNodup_styleOp h e

theorem attrsNodup_execLocal {s s' : TextSt} (h : AttrsNodup s) {o : TOp} (e : execLocal o s = .ok s') :
    AttrsNodup s' := by
  unfold execLocal at e
  split at e
  · exact attrsNodup_edit h e
  · exact attrsNodup_styleOp h e

theorem attrsNodup_execAll {L : List TOp} {s s' : TextSt} (h : AttrsNodup s) (e : execAll L s = .ok s') :
    AttrsNodup s' := by
  induction L generalizing s with
  | nil => simp only [execAll] at e; injection e with e; subst e; exact h
  | cons o L ih =>
    simp only [execAll] at e
    split at e
    · cases e
    · rename_i s1 h1
      exact ih (attrsNodup_exec h h1) e

/-- unique keys on every block replica -/
theorem breach_attrs {s : Sys TState TOp} {B : Nat → TextSt} (h : BReach s B) (c : Nat) :
    AttrsNodup (B c) := by
  induction h generalizing c with
  | init => exact attrsNodup_init
  | @edit s B c0 a b' _ _ _ _ he ih =>
    by_cases hx : c = c0
    · subst hx; simp only [updB, if_true]; exact attrsNodup_exec (ih c) he
    · simp only [updB, hx, if_false]; exact ih c
  | @editLocal s B c0 a b' _ _ _ _ _ he ih =>
    by_cases hx : c = c0
    · subst hx; simp only [updB, if_true]; exact attrsNodup_execLocal (ih c) he
    · simp only [updB, hx, if_false]; exact ih c
  | @push s B c0 _ ih => exact ih c
  | @pull s B c0 b' _ he ih =>
    by_cases hx : c = c0
    · subst hx; simp only [updB, if_true]; exact attrsNodup_execAll (ih c) he
    · simp only [updB, hx, if_false]; exact ih c

/-! ### C. `Text.Marshal()` from the cells -/

/-- regroup the cells into blocks: `(createdAt, tombstone flag, attributes, code units)` -/
def obsA : Cells → List (Ticket × Bool × AAttrs × List Nat)
  | [] => []
  | c :: r =>
    match obsA r with
    | [] => [(c.id.1, c.removed, c.attrs, [c.unit])]
    | (t, rm, as, us) :: bs =>
      if startsBlock r then (c.id.1, c.removed, c.attrs, [c.unit]) :: (t, rm, as, us) :: bs
      else (c.id.1, c.removed, c.attrs, c.unit :: us) :: bs

theorem obsA_cons_of {c : Cell} {r : Cells} {t : Ticket} {rm : Bool} {as : AAttrs} {us : List Nat}
    {bs : List (Ticket × Bool × AAttrs × List Nat)} (h : obsA r = (t, rm, as, us) :: bs)
    (hb : startsBlock r = false) : obsA (c :: r) = (c.id.1, c.removed, c.attrs, c.unit :: us) :: bs := by
  simp [obsA, h, hb]

theorem obsA_mkCells (t : Ticket) (rm : Bool) (as : AAttrs) (off : Nat) (b : Bool) {u : List Nat}
    (hu : u ≠ []) {rest : Cells} (hrest : startsBlock rest = true) :
    obsA (mkCells t rm as off b u ++ rest) = (t, rm, as, u) :: obsA rest := by
  induction u generalizing off b with
  | nil => exact absurd rfl hu
  | cons x r ih =>
    cases r with
    | nil =>
      simp only [mkCells, List.cons_append, List.nil_append, obsA]
      cases h : obsA rest with
      | nil => rfl
      | cons p bs => obtain ⟨t', rm', as', us'⟩ := p; simp [hrest]
    | cons y r' =>
      have := ih (off + 1) false (by simp)
      simp only [mkCells, List.cons_append] at this ⊢
      rw [obsA_cons_of this rfl]

theorem obsA_abs (s : TextSt) :
    obsA (abs s) = (s.filter (fun n => !n.units.isEmpty)).map
      (fun n => (n.id.1, n.removedAt.isSome, nodeAttrs n, n.units)) := by
  induction s with
  | nil => rfl
  | cons n r ih =>
    rw [abs_cons]
    by_cases hu : n.units = []
    · have : absNode n = [] := by unfold absNode; rw [hu]; rfl
      rw [this, List.nil_append, ih, List.filter_cons]
      simp [hu]
    · unfold absNode
      rw [obsA_mkCells _ _ _ _ _ hu (startsBlock_abs r), ih, List.filter_cons]
      have : (!n.units.isEmpty) = true := by
        cases h : n.units with
        | nil => exact absurd h hu
        | cons _ _ => rfl
      simp [this]

theorem marshalNode_congr {n m : TNode} (h1 : liveAttrs n.attrs = liveAttrs m.attrs)
    (h2 : n.units = m.units) : marshalNode n = marshalNode m := by
  unfold marshalNode marshalAttrs
  rw [h1, h2]

/-- the view of a node that `abs` keeps -/
def nview (n : TNode) : Ticket × Bool × AAttrs × List Nat :=
  (n.id.1, n.removedAt.isSome, nodeAttrs n, n.units)

theorem shown_marshal_congr (tc : Ticket) {l l' : TextSt} (hv : l.map nview = l'.map nview)
    (ok : ∀ n ∈ l, AttrsOK n.attrs) (ok' : ∀ n ∈ l', AttrsOK n.attrs) :
    (List.filter (fun n => n.id.1.cmp tc != .eq && n.live) l).map marshalNode =
      (List.filter (fun n => n.id.1.cmp tc != .eq && n.live) l').map marshalNode := by
  induction l generalizing l' with
  | nil =>
    cases l' with
    | nil => rfl
    | cons _ _ => simp at hv
  | cons n r ih =>
    cases l' with
    | nil => simp at hv
    | cons m r' =>
      simp only [List.map_cons, List.cons.injEq] at hv
      obtain ⟨hnm, hrest⟩ := hv
      have ihr := ih hrest (fun x hx => ok x (List.mem_cons_of_mem _ hx))
        (fun x hx => ok' x (List.mem_cons_of_mem _ hx))
      unfold nview at hnm
      simp only [Prod.mk.injEq] at hnm
      obtain ⟨e1, e2, e3, e4⟩ := hnm
      have hlive : n.live = m.live := by
        unfold TNode.live
        cases hn : n.removedAt <;> cases hm : m.removedAt <;> simp [hn, hm] at e2 ⊢
      rw [List.filter_cons, List.filter_cons, e1, hlive]
      by_cases hp : (m.id.1.cmp tc != .eq && m.live) = true
      · rw [if_pos hp, if_pos hp, List.map_cons, List.map_cons, ihr]
        congr 1
        apply marshalNode_congr _ e4
        have hm : m.removedAt = none := by
          have : m.live = true := by
            simp only [Bool.and_eq_true] at hp; exact hp.2
          unfold TNode.live at this
          cases h : m.removedAt with
          | none => rfl
          | some _ => rw [h] at this; cases this
        have hn : n.removedAt = none := by
          rw [hm] at e2
          cases h : n.removedAt with
          | none => rfl
          | some _ => rw [h] at e2; cases e2
        unfold nodeAttrs at e3
        rw [hn, hm] at e3
        simp only [Option.isSome_none, Bool.false_eq_true, if_false] at e3
        exact liveAttrs_eq_of_norm (ok n (by simp)) (ok' m (by simp)) e3
      · rw [if_neg hp, if_neg hp]; exact ihr

/-- **`Text.Marshal()` is determined by the abstract state**: two well-formed block lists with unique
    attribute keys and the same abstraction print the same JSON -/
theorem marshal_eq_of_abs {s s' : TextSt} (wf : WFg s) (wf' : WFg s') (a : AttrsNodup s)
    (a' : AttrsNodup s') (h : abs s = abs s') (tc : Ticket) : marshal tc s = marshal tc s' := by
  have hv : (s.drop 1).map nview = (s'.drop 1).map nview := by
    have h1 := obsA_abs s
    have h2 := obsA_abs s'
    rw [filter_nonempty_eq_drop wf] at h1
    rw [filter_nonempty_eq_drop wf'] at h2
    rw [h, h2] at h1
    exact h1.symm
  unfold marshal shown
  rw [shown_marshal_congr tc hv (fun n hn => a n (List.mem_of_mem_drop hn))
    (fun n hn => a' n (List.mem_of_mem_drop hn))]

end Yorkie.TextConv
