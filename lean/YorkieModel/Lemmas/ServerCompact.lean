/-
Helper lemmas for C10 (Model/ServerCompact.lean): what `compactDoc` does, epochs along histories,
requests of stale clients.
-/
import YorkieModel.Model.ServerCompact
import YorkieModel.Lemmas.ServerDeliveryStep
namespace Yorkie.Server
open Yorkie

variable {α : Type}

/-! ### `compactDoc` -/

/-- the two ways `compactDoc` ends -/
theorem compactDoc_cases (sem : ContentSem α) (force : Bool) (s : Server) (d : DocId) :
    (∃ e, compactDoc sem force s d = (s, .error e)) ∨
    (∃ doc, s.findDoc d = some doc ∧ (force = true ∨ isDocHeld s d = false) ∧
      sem.eq (sem.fold (compactRows (sem.rebuild (sem.fold doc.log)))) (sem.fold doc.log) = true ∧
      (sem.rebuild (sem.fold doc.log)).length ≤ 1 ∧
      compactDoc sem force s d =
        (s.setDoc d (compactedDoc doc (compactRows (sem.rebuild (sem.fold doc.log)))), .ok ())) := by
  unfold compactDoc
  split
  · exact Or.inl ⟨_, rfl⟩
  · next doc hd =>
    split
    · exact Or.inl ⟨_, rfl⟩
    · next h1 =>
      split
      · exact Or.inl ⟨_, rfl⟩
      · next h2 =>
        split
        · exact Or.inl ⟨_, rfl⟩
        · next h3 =>
          refine Or.inr ⟨doc, hd, ?_, by simpa using h2, by omega, rfl⟩
          cases force <;> simp_all

theorem compactDoc_error {sem : ContentSem α} {force : Bool} {s : Server} {d : DocId} {e : CompactErr}
    (h : (compactDoc sem force s d).2 = .error e) : (compactDoc sem force s d).1 = s := by
  rcases compactDoc_cases sem force s d with ⟨e', he⟩ | ⟨doc, _, _, _, _, he⟩
  · rw [he]
  · rw [he] at h; simp at h

theorem compactDoc_ok {sem : ContentSem α} {force : Bool} {s : Server} {d : DocId}
    (h : (compactDoc sem force s d).2 = .ok ()) :
    ∃ doc, s.findDoc d = some doc ∧ (force = true ∨ isDocHeld s d = false) ∧
      sem.eq (sem.fold (compactRows (sem.rebuild (sem.fold doc.log)))) (sem.fold doc.log) = true ∧
      (sem.rebuild (sem.fold doc.log)).length ≤ 1 ∧
      (compactDoc sem force s d).1 = s.setDoc d (compactedDoc doc (compactRows (sem.rebuild (sem.fold doc.log)))) := by
  rcases compactDoc_cases sem force s d with ⟨e', he⟩ | ⟨doc, h1, h2, h3, h4, he⟩
  · rw [he] at h; simp at h
  · exact ⟨doc, h1, h2, h3, h4, by rw [he]⟩

/-- refused with `documentAttached` exactly when the document exists, is held and `force` is off -/
theorem compactDoc_attached_iff (sem : ContentSem α) (force : Bool) (s : Server) (d : DocId) :
    (compactDoc sem force s d).2 = .error .documentAttached ↔
      (s.findDoc d).isSome = true ∧ force = false ∧ isDocHeld s d = true := by
  unfold compactDoc
  split
  · next hd => simp [hd]
  · next doc hd =>
    split
    · next h1 =>
      simp only [Bool.and_eq_true, Bool.not_eq_true'] at h1
      simp [hd, h1.1, h1.2]
    · next h1 =>
      have h1' : ¬ (force = false ∧ isDocHeld s d = true) := by
        intro ⟨a, b⟩; simp [a, b] at h1
      split
      · constructor
        · intro h; simp at h
        · intro h; exact absurd ⟨h.2.1, h.2.2⟩ h1'
      · split
        · constructor
          · intro h; simp at h
          · intro h; exact absurd ⟨h.2.1, h.2.2⟩ h1'
        · constructor
          · intro h; simp at h
          · intro h; exact absurd ⟨h.2.1, h.2.2⟩ h1'

theorem compactRows_length (cs : List ChangeReq) : (compactRows cs).length = cs.length := by
  simp [compactRows]

theorem compactRows_gapFree (cs : List ChangeReq) (h : cs.length ≤ 1) : seqFrom 0 (compactRows cs) := by
  match cs, h with
  | [], _ => simp [compactRows, seqFrom]
  | [c], _ => simp [compactRows, seqFrom, mkRow]

theorem compactedDoc_gapFree (doc : Doc) (cs : List ChangeReq) (h : cs.length ≤ 1) :
    GapFree (compactedDoc doc (compactRows cs)) :=
  ⟨compactRows_gapFree cs h, rfl⟩

theorem setDoc_findDoc_self (s : Server) (d : DocId) (x : Doc) : (s.setDoc d x).findDoc d = some x := by
  simp [Server.setDoc, Server.findDoc, AL.get?_set_self]

theorem setDoc_findDoc_ne (s : Server) {d d' : DocId} (x : Doc) (h : d ≠ d') : (s.setDoc d x).findDoc d' = s.findDoc d' := by
  simp [Server.setDoc, Server.findDoc, AL.get?_set_ne _ _ h]

theorem setDoc_wf {s : Server} {d : DocId} {x y : Doc} (hw : WF s) (hx : s.findDoc d = some x) : WF (s.setDoc d y) := by
  refine ⟨?_, hw.clients⟩
  intro d' y' hy'
  simp only [Server.setDoc, AL.get?_set] at hy'
  by_cases h : d = d'
  · subst h; exact hw.docs d x hx
  · simp only [h, if_false] at hy'; exact hw.docs d' y' hy'

theorem compactDoc_wf (sem : ContentSem α) (force : Bool) {s : Server} (d : DocId) (hw : WF s) :
    WF (compactDoc sem force s d).1 := by
  rcases compactDoc_cases sem force s d with ⟨e', he⟩ | ⟨doc, h1, _, _, _, he⟩
  · rw [he]; exact hw
  · rw [he]; exact setDoc_wf hw h1

theorem compactDoc_clients (sem : ContentSem α) (force : Bool) (s : Server) (d : DocId) :
    (compactDoc sem force s d).1.clients = s.clients := by
  rcases compactDoc_cases sem force s d with ⟨e', he⟩ | ⟨doc, _, _, _, _, he⟩
  · rw [he]
  · rw [he]; rfl

theorem compactDoc_cfg (sem : ContentSem α) (force : Bool) (s : Server) (d : DocId) :
    (compactDoc sem force s d).1.cfg = s.cfg := by
  rcases compactDoc_cases sem force s d with ⟨e', he⟩ | ⟨doc, _, _, _, _, he⟩
  · rw [he]
  · rw [he]; rfl

theorem compactDoc_other (sem : ContentSem α) (force : Bool) (s : Server) {d d' : DocId} (h : d ≠ d') :
    (compactDoc sem force s d).1.findDoc d' = s.findDoc d' := by
  rcases compactDoc_cases sem force s d with ⟨e', he⟩ | ⟨doc, _, _, _, _, he⟩
  · rw [he]
  · rw [he]; exact setDoc_findDoc_ne s _ h

/-! ### epochs -/

def epochOr0 (s : Server) (d : DocId) : Int :=
  match s.findDoc d with
  | some x => x.epoch
  | none => 0

/-- no request changes an epoch; a document created by the request starts at epoch 0 -/
theorem step_epoch (s : Server) (hw : WF s) (r : Request) (d : DocId) :
    epochOr0 (step s r).1 d = epochOr0 s d := by
  have ext := step_docsExt s hw r
  unfold epochOr0
  cases hd : s.findDoc d with
  | some x =>
    obtain ⟨y, hy, e⟩ := ext.old d x hd
    simp only [Server.findDoc] at hy ⊢
    rw [hy]; exact e.epoch
  | none =>
    cases hd' : (step s r).1.findDoc d with
    | none => rfl
    | some y =>
      have e := ext.new d y hd hd'
      simp only []
      rw [e.epoch]; rfl

theorem compactDoc_epoch (sem : ContentSem α) (force : Bool) (s : Server) (d d' : DocId) :
    epochOr0 (compactDoc sem force s d').1 d =
      epochOr0 s d + (if d' = d ∧ compactOk sem s d' force = true then 1 else 0) := by
  rcases compactDoc_cases sem force s d' with ⟨e', he⟩ | ⟨doc, h1, _, _, _, he⟩
  · have : compactOk sem s d' force = false := by simp [compactOk, he]
    rw [he]; simp [this]
  · have hok : compactOk sem s d' force = true := by simp [compactOk, he]
    rw [he]
    by_cases h : d' = d
    · subst h
      simp only [epochOr0, setDoc_findDoc_self, h1, hok, and_self, if_true, compactedDoc]
    · simp only [epochOr0, setDoc_findDoc_ne s _ h, h, false_and, if_false, Int.add_zero]

theorem stepEv_wf (sem : ContentSem α) {s : Server} (hw : WF s) (ev : Ev) : WF (stepEv sem s ev) := by
  cases ev with
  | req r => exact (step_docsExt s hw r).wf hw
  | compact d force => exact compactDoc_wf sem force d hw

theorem runEv_wf (sem : ContentSem α) {s : Server} (hw : WF s) (evs : List Ev) : WF (runEv sem s evs) := by
  induction evs generalizing s with
  | nil => exact hw
  | cons ev rest ih => exact ih (stepEv_wf sem hw ev)

/-- the epoch after a history = the epoch before + the number of successful compactions of that document -/
theorem runEv_epoch (sem : ContentSem α) (s : Server) (hw : WF s) (evs : List Ev) (d : DocId) :
    epochOr0 (runEv sem s evs) d = epochOr0 s d + compactions sem d s evs := by
  induction evs generalizing s with
  | nil => simp [runEv, compactions]
  | cons ev rest ih =>
    cases ev with
    | req r =>
      have := ih (step s r).1 ((step_docsExt s hw r).wf hw)
      simp only [runEv, List.foldl_cons, stepEv, compactions] at this ⊢
      rw [this, step_epoch s hw r d]
    | compact d' force =>
      have := ih (compactDoc sem force s d').1 (compactDoc_wf sem force d' hw)
      simp only [runEv, List.foldl_cons, stepEv, compactions] at this ⊢
      rw [this, compactDoc_epoch]
      push_cast
      split <;> omega

/-! ### the log stays gap-free -/

theorem stepEv_gapFree (sem : ContentSem α) {s : Server} (hw : WF s)
    (hg : ∀ d doc, s.docs.get? d = some doc → GapFree doc) (ev : Ev) :
    ∀ d doc, (stepEv sem s ev).docs.get? d = some doc → GapFree doc := by
  cases ev with
  | req r => exact gapFree_after (step_docsExt s hw r) hg
  | compact d' force =>
    intro d doc hd
    simp only [stepEv] at hd
    rcases compactDoc_cases sem force s d' with ⟨e', he⟩ | ⟨doc0, h1, _, _, h4, he⟩
    · rw [he] at hd; exact hg d doc hd
    · rw [he] at hd
      by_cases h : d' = d
      · subst h
        have := setDoc_findDoc_self s d' (compactedDoc doc0 (compactRows (sem.rebuild (sem.fold doc0.log))))
        simp only [Server.findDoc] at this
        rw [this] at hd; injection hd with hd; subst hd
        exact compactedDoc_gapFree doc0 _ h4
      · have := setDoc_findDoc_ne s (compactedDoc doc0 (compactRows (sem.rebuild (sem.fold doc0.log)))) h
        simp only [Server.findDoc] at this
        rw [this] at hd; exact hg d doc hd

theorem runEv_gapFree (sem : ContentSem α) {s : Server} (hw : WF s)
    (hg : ∀ d doc, s.docs.get? d = some doc → GapFree doc) (evs : List Ev) :
    ∀ d doc, (runEv sem s evs).docs.get? d = some doc → GapFree doc := by
  induction evs generalizing s with
  | nil => exact hg
  | cons ev rest ih => exact ih (stepEv_wf sem hw ev) (stepEv_gapFree sem hw hg ev)

/-! ### evaluating `pushPull` forwards (converse of `pushPull_ok`) -/

theorem validateClientSeq_intro {s : Server} {f : Flight}
    (h : seqsContinuous (f.info.checkpoint f.doc).clientSeq ((f.info.checkpoint f.doc).clientSeq + 1) f.pack.changes = true) :
    validateClientSeq s f = (s, .ok f) := by
  unfold validateClientSeq; rw [if_pos h]

theorem validateClientSeq_reject {s : Server} {f : Flight}
    (h : seqsContinuous (f.info.checkpoint f.doc).clientSeq ((f.info.checkpoint f.doc).clientSeq + 1) f.pack.changes = false) :
    validateClientSeq s f = (s, .error .invalidClientSeq) := by
  unfold validateClientSeq; rw [if_neg (by simp [h])]

theorem pushPack_intro {s : Server} {g : Flight} {doc : Doc} {p : List ChangeReq}
    (hd : s.findDoc g.doc = some doc) (hg : pushGuard s g = .ok p) :
    pushPack s g = (s.setDoc g.doc (pushedDoc doc g p), .ok (pushedFlight doc g p)) := by
  unfold pushPack; rw [hg]; simp only []
  unfold createChangeInfos; rw [hd]; rfl

theorem preparePack_intro {s : Server} {f : Flight} {r : Resp} (h : pullPackResp s f = .ok r) :
    preparePack s f = (s, .ok { f with resp := { r with isRemoved := f.docInfo.removed } }) := by
  unfold preparePack; rw [h]

theorem preparePack_reject {s : Server} {f : Flight} {e : ErrKind} (h : pullPackResp s f = .error e) :
    preparePack s f = (s, .error e) := by
  unfold preparePack; rw [h]

theorem updateDocStatus_intro {s : Server} {f : Flight} {i : Client}
    (h : f.info.updateDocStatus f.doc f.status f.resp.cp = .ok i) :
    updateDocStatus s f = (s, .ok { f with info := i }) := by
  unfold updateDocStatus; rw [h]

theorem updateMinVV_intro {s s5 : Server} {f : Flight}
    (h : (f.disableGC = true ∧ s5 = s) ∨ (f.disableGC = false ∧ updateVersionVector s f = .ok s5)) :
    updateMinVV s f = (s5, .ok (minVVFlight s5 f)) := by
  unfold updateMinVV minVVFlight
  rcases h with ⟨h1, h2⟩ | ⟨h1, h2⟩
  · subst h2; simp [h1]
  · simp only [h1, h2]
    split <;> simp_all

theorem persistClientInfo_intro {s : Server} {f : Flight} {cd : ClientDoc} {loaded : Client}
    (h1 : f.info.docs.get? f.doc = some cd) (h2 : s.findClient f.client = some loaded) :
    persistClientInfo s f =
      (s.setClient f.client { loaded with docs := loaded.docs.set f.doc (persistEntry cd loaded f.doc) }, .ok f) := by
  unfold persistClientInfo; rw [h1]; simp only []; rw [h2]

/-- the flight between `preparePack` and `updateDocStatus` -/
def preparedFlight (doc : Doc) (f : Flight) (p : List ChangeReq) (r : Resp) : Flight :=
  { pushedFlight doc (stripped f) p with resp := { r with isRemoved := (pushedDoc doc (stripped f) p).removed } }

theorem pushPull_intro {s s5 : Server} {f : Flight} {doc : Doc} {p : List ChangeReq} {r : Resp} {info' : Client}
    {cd : ClientDoc} {loaded : Client}
    (hcont : seqsContinuous (f.info.checkpoint f.doc).clientSeq ((f.info.checkpoint f.doc).clientSeq + 1) f.pack.changes = true)
    (hdoc : s.findDoc f.doc = some doc)
    (hguard : pushGuard s (stripped f) = .ok p)
    (hpull : pullPackResp (s.setDoc f.doc (pushedDoc doc (stripped f) p)) (pushedFlight doc (stripped f) p) = .ok r)
    (hstatus : f.info.updateDocStatus f.doc f.status r.cp = .ok info')
    (hvv : (f.disableGC = true ∧ s5 = s.setDoc f.doc (pushedDoc doc (stripped f) p)) ∨
           (f.disableGC = false ∧
            updateVersionVector (s.setDoc f.doc (pushedDoc doc (stripped f) p))
              { preparedFlight doc f p r with info := info' } = .ok s5))
    (hcd : info'.docs.get? f.doc = some cd)
    (hl : s5.findClient f.client = some loaded) :
    pushPull s f =
      (s5.setClient f.client { loaded with docs := loaded.docs.set f.doc (persistEntry cd loaded f.doc) },
       .ok (minVVFlight s5 { preparedFlight doc f p r with info := info' })) := by
  have e1 := validateClientSeq_intro (s := s) hcont
  have e2 := stripPresence_eq s f
  have e3 := pushPack_intro (g := stripped f) (by simpa using hdoc) hguard
  simp only [stripped_doc] at e3
  have e4 := preparePack_intro hpull
  have e5 : updateDocStatus (s.setDoc f.doc (pushedDoc doc (stripped f) p)) (preparedFlight doc f p r) =
      (s.setDoc f.doc (pushedDoc doc (stripped f) p), .ok { preparedFlight doc f p r with info := info' }) :=
    updateDocStatus_intro (by simpa [preparedFlight, pushedFlight] using hstatus)
  have e6 := updateMinVV_intro (s := s.setDoc f.doc (pushedDoc doc (stripped f) p)) (s5 := s5)
    (f := { preparedFlight doc f p r with info := info' }) (by simpa [preparedFlight, pushedFlight] using hvv)
  have e7 := persistClientInfo_intro (s := s5) (f := minVVFlight s5 { preparedFlight doc f p r with info := info' })
    (cd := cd) (loaded := loaded) (by simpa [preparedFlight, pushedFlight] using hcd) (by simpa [preparedFlight, pushedFlight] using hl)
  simp only [minVVFlight_client, minVVFlight_doc] at e7
  unfold pushPull
  simp only [Phase.andThen, e1, e2, e3]
  have e4' : preparePack (s.setDoc f.doc (pushedDoc doc (stripped f) p)) (pushedFlight doc (stripped f) p) =
      (s.setDoc f.doc (pushedDoc doc (stripped f) p), .ok (preparedFlight doc f p r)) := by
    rw [e4]; simp [preparedFlight, pushedFlight]
  simp only [e4', e5, e6, e7]
  simp [preparedFlight, pushedFlight]

/-! ### requests of a stale client (stored epoch ≠ document epoch) -/

theorem pushGuard_stale {s : Server} {g : Flight} {doc : Doc} (hd : s.findDoc g.doc = some doc)
    (he : epochDiffers g.info g.doc doc.epoch = true) : pushGuard s g = .ok [] := by
  unfold pushGuard
  split
  · rw [hd]; simp only [he, if_true]
  · next hc =>
    have : pushablesOf g = [] := by
      have := hc; simp at this; exact this.1
    rw [this]

@[simp] theorem pushedDoc_nil_log (doc : Doc) (f : Flight) : (pushedDoc doc f []).log = doc.log := by
  simp [pushedDoc, assignSeqs]
@[simp] theorem pushedDoc_nil_serverSeq (doc : Doc) (f : Flight) : (pushedDoc doc f []).serverSeq = doc.serverSeq := by
  simp [pushedDoc, assignSeqs]
@[simp] theorem pushedDoc_epoch (doc : Doc) (f : Flight) (p) : (pushedDoc doc f p).epoch = doc.epoch := rfl
@[simp] theorem pushedDoc_vvRows (doc : Doc) (f : Flight) (p) : (pushedDoc doc f p).vvRows = doc.vvRows := rfl
@[simp] theorem pushedDoc_key (doc : Doc) (f : Flight) (p) : (pushedDoc doc f p).key = doc.key := rfl
@[simp] theorem pushedDoc_dp (doc : Doc) (f : Flight) (p) : (pushedDoc doc f p).disablePresence = doc.disablePresence := rfl
@[simp] theorem pushedDoc_removed (doc : Doc) (f : Flight) (p) :
    (pushedDoc doc f p).removed = (doc.removed || f.pack.isRemoved) := rfl
@[simp] theorem pushedFlight_nil_cp (doc : Doc) (f : Flight) :
    (pushedFlight doc f []).cpAfterPush = f.info.checkpoint f.doc := by simp [pushedFlight, assignSeqs]

/-- a stale sync – not push-only, or ANY sync once the epoch comparison precedes the push-only return
(`cfg.stalePushOnlyRefused`): rejected by the continuity check, or answered `epochMismatch` after
`CreateChangeInfos` ran with an EMPTY list (it can only set the removed flag of a crafted pack) -/
theorem pushPull_stale_refused {s : Server} {f : Flight} {doc : Doc}
    (hd : s.findDoc f.doc = some doc) (he : epochDiffers f.info f.doc doc.epoch = true)
    (hpo : f.pushOnly = false ∨ s.cfg.stalePushOnlyRefused = true) (hst : f.status = .attached) :
    pushPull s f = (s, .error .invalidClientSeq) ∨
    pushPull s f = (s.setDoc f.doc (pushedDoc doc (stripped f) []), .error .epochMismatch) := by
  cases hcont : seqsContinuous (f.info.checkpoint f.doc).clientSeq ((f.info.checkpoint f.doc).clientSeq + 1) f.pack.changes with
  | false =>
    left
    unfold pushPull
    simp only [Phase.andThen, validateClientSeq_reject hcont]
  | true =>
    right
    have e1 := validateClientSeq_intro (s := s) hcont
    have e2 := stripPresence_eq s f
    have e3 := pushPack_intro (g := stripped f) (by simpa using hd) (pushGuard_stale (g := stripped f) (by simpa using hd) (by simpa using he))
    simp only [stripped_doc] at e3
    have e4 : preparePack (s.setDoc f.doc (pushedDoc doc (stripped f) [])) (pushedFlight doc (stripped f) []) =
        (s.setDoc f.doc (pushedDoc doc (stripped f) []), .error .epochMismatch) := by
      apply preparePack_reject
      unfold pullPackResp preparePackCore
      have hcfg : (s.setDoc f.doc (pushedDoc doc (stripped f) [])).cfg = s.cfg := rfl
      rcases hpo with hpo | hpo
      · simp [pushedFlight, hpo, he, hst]
      · simp [pushedFlight, hcfg, hpo, he, hst]
    unfold pushPull
    simp only [Phase.andThen, e1, e2, e3, e4]

/-- whatever a `PushPull` whose guard lets nothing through answers, the document's rows, head and
epoch are what they were -/
theorem pushPull_nopush_docs {s s' : Server} {f : Flight} {r : Except ErrKind Flight} {doc : Doc} {loaded : Client}
    (h : pushPull s f = (s', r)) (hc : s.findClient f.client = some loaded)
    (hd : s.findDoc f.doc = some doc) (hp : ∀ p, pushGuard s (stripped f) = .ok p → p = []) :
    (∃ doc', s'.findDoc f.doc = some doc' ∧ doc'.log = doc.log ∧ doc'.serverSeq = doc.serverSeq ∧
      doc'.epoch = doc.epoch ∧ doc'.key = doc.key ∧ doc'.disablePresence = doc.disablePresence) ∧
    (∀ d', d' ≠ f.doc → s'.findDoc d' = s.findDoc d') := by
  cases r with
  | ok f' =>
    obtain ⟨doc0, p, loaded', info', cd, r', vv, h1, _, _, h4, _, _, _, h8, _⟩ := (pushPull_ppok h).ex
    rw [hd] at h1; injection h1 with h1; subst h1
    have := hp p h4; subst this
    constructor
    · refine ⟨{ pushedDoc doc (stripped f) [] with vvRows := vv }, ?_, ?_⟩
      · simp only [Server.findDoc]; rw [h8]; exact AL.get?_set_self _ _ _
      · simp
    · intro d' hne
      simp only [Server.findDoc]; rw [h8]; exact AL.get?_set_ne _ _ (Ne.symm hne)
  | error e =>
    obtain ⟨_, _, _, _, h5⟩ := pushPull_err h hc
    rcases h5 with h5 | ⟨doc0, p, h1, h4, h5⟩
    · constructor
      · exact ⟨doc, by simp only [Server.findDoc]; rw [h5]; exact hd, rfl, rfl, rfl, rfl, rfl⟩
      · intro d' _; simp only [Server.findDoc]; rw [h5]
    · rw [hd] at h1; injection h1 with h1; subst h1
      have := hp p h4; subst this
      constructor
      · refine ⟨pushedDoc doc (stripped f) [], ?_, ?_⟩
        · simp only [Server.findDoc]; rw [h5]; exact AL.get?_set_self _ _ _
        · simp
      · intro d' hne
        simp only [Server.findDoc]; rw [h5]; exact AL.get?_set_ne _ _ (Ne.symm hne)

def closedStatus : ReqStatus → DocStatus
  | .detached => .detached
  | .removed => .removed
  | .attached => .attached

theorem updateDocStatus_close {i : Client} {d : DocId} {st : ReqStatus} {cp : Checkpoint} {cd : ClientDoc}
    (hst : st = .detached ∨ st = .removed) (ha : i.activated = true) (hcd : i.docs.get? d = some cd)
    (ho : cd.status = .attached ∨ cd.status = .attaching) :
    i.updateDocStatus d st cp = .ok (i.closeDoc d (closedStatus st)) := by
  have hs : i.statusOf d = some cd.status := by simp [Client.statusOf, hcd]
  have hg : i.ensureAttachedOrAttaching d = .ok () := by
    unfold Client.ensureAttachedOrAttaching
    rcases ho with h | h <;> simp [ha, hs, h]
  rcases hst with h | h <;> subst h <;>
    simp [Client.updateDocStatus, Client.detachDocument, Client.removeDocument, hg, closedStatus]

theorem closeDoc_get {i : Client} {d : DocId} {st : DocStatus} {cd : ClientDoc} (hcd : i.docs.get? d = some cd) :
    (i.closeDoc d st).docs.get? d = some { cd with status := st, clientSeq := 0, serverSeq := 0 } := by
  simp [Client.closeDoc, hcd, AL.get?_set_self]

/-- a Detach / Remove of a stale holder: accepted; `CreateChangeInfos` ran with an empty list, the
pull is skipped (empty response at the request's own checkpoint), the version-vector row is erased,
the stored entry is closed -/
theorem pushPull_stale_close {s : Server} {f : Flight} {doc : Doc} {loaded : Client} {cd0 : ClientDoc}
    (hd : s.findDoc f.doc = some doc) (he : epochDiffers f.info f.doc doc.epoch = true)
    (hcont : seqsContinuous (f.info.checkpoint f.doc).clientSeq ((f.info.checkpoint f.doc).clientSeq + 1) f.pack.changes = true)
    (hst : f.status = .detached ∨ f.status = .removed) (hpo : f.pushOnly = false) (hgc : f.disableGC = false)
    (ha : f.info.activated = true) (hcd : f.info.docs.get? f.doc = some cd0)
    (ho : cd0.status = .attached ∨ cd0.status = .attaching)
    (hl : s.findClient f.client = some loaded) :
    ∃ s' f', pushPull s f = (s', .ok f') ∧ f'.resp.changes = [] ∧
      f'.resp.cp = ⟨f.pack.cp.serverSeq, (f.info.checkpoint f.doc).clientSeq⟩ ∧
      s'.findDoc f.doc = some { pushedDoc doc (stripped f) [] with vvRows := doc.vvRows.erase f.client } ∧
      (∀ d', d' ≠ f.doc → s'.findDoc d' = s.findDoc d') ∧
      entryOf s' f.client f.doc =
        some { status := closedStatus f.status, serverSeq := 0, clientSeq := 0, epoch := 0, gen := cd0.gen } ∧
      (∀ c', c' ≠ f.client → s'.findClient c' = s.findClient c') := by
  have hne : closedStatus f.status ≠ .attached := by rcases hst with h | h <;> simp [h, closedStatus]
  have hpull : pullPackResp (s.setDoc f.doc (pushedDoc doc (stripped f) [])) (pushedFlight doc (stripped f) []) =
      .ok { cp := ⟨f.pack.cp.serverSeq, (f.info.checkpoint f.doc).clientSeq⟩ } := by
    unfold pullPackResp preparePackCore
    simp [pushedFlight, hpo, he, hst, assignSeqs]
  have hstatus := updateDocStatus_close (cp := (⟨f.pack.cp.serverSeq, (f.info.checkpoint f.doc).clientSeq⟩ : Checkpoint))
    hst ha hcd ho
  have hcd' := closeDoc_get (st := closedStatus f.status) hcd
  have hvv : updateVersionVector (s.setDoc f.doc (pushedDoc doc (stripped f) []))
      { preparedFlight doc f [] { cp := ⟨f.pack.cp.serverSeq, (f.info.checkpoint f.doc).clientSeq⟩ } with
        info := f.info.closeDoc f.doc (closedStatus f.status) } =
      .ok ((s.setDoc f.doc (pushedDoc doc (stripped f) [])).setDoc f.doc
        { pushedDoc doc (stripped f) [] with vvRows := (pushedDoc doc (stripped f) []).vvRows.erase f.client }) := by
    unfold updateVersionVector
    simp only [preparedFlight, pushedFlight, stripped_doc, stripped_client, Client.isAttached, hcd']
    rw [setDoc_findDoc_self]
    simp [hne]
  have := pushPull_intro hcont hd (pushGuard_stale (g := stripped f) (by simpa using hd) (by simpa using he)) hpull
    hstatus (Or.inr ⟨hgc, hvv⟩) hcd' (loaded := loaded) (by simpa [Server.findClient, Server.setDoc] using hl)
  refine ⟨_, _, this, ?_, ?_, ?_, ?_, ?_, ?_⟩
  · simp [preparedFlight]
  · simp [preparedFlight]
  · simp only [Server.findDoc, Server.setClient, Server.setDoc, AL.set_set, AL.get?_set_self, pushedDoc_vvRows]
  · intro d' hne'
    simp only [Server.findDoc, Server.setClient, Server.setDoc, AL.set_set]
    exact AL.get?_set_ne _ _ (Ne.symm hne')
  · simp only [entryOf, Server.setClient, AL.get?_set_self, persistEntry]
    simp [hne]
  · intro c' hne'
    simp only [Server.findClient, Server.setClient, Server.setDoc]
    exact AL.get?_set_ne _ _ (Ne.symm hne')

/-! ### a fresh attach is answered from the current generation -/

theorem findOrCreateDoc_old {s : Server} (hw : WF s) (key : Nat) (dp : Bool) {d : DocId} {doc : Doc}
    (h : s.findDoc d = some doc) : (findOrCreateDoc s key dp).1.findDoc d = some doc := by
  unfold findOrCreateDoc
  split
  · exact h
  · have hlt := hw.docs d doc h
    simp only [Server.findDoc]
    rw [AL.get?_set_ne _ _ (by omega)]
    exact h

theorem stripChanges_mem {l : List ChangeReq} {x : ChangeReq} (h : x ∈ stripChanges l) :
    ∃ y ∈ l, y.actor = x.actor := by
  induction l with
  | nil => simp [stripChanges] at h
  | cons a r ih =>
    simp only [stripChanges] at h
    split at h
    · split at h
      · obtain ⟨y, hy, e⟩ := ih h; exact ⟨y, List.mem_cons_of_mem _ hy, e⟩
      · rcases List.mem_cons.mp h with h | h
        · exact ⟨a, List.mem_cons_self, by rw [h]⟩
        · obtain ⟨y, hy, e⟩ := ih h; exact ⟨y, List.mem_cons_of_mem _ hy, e⟩
    · rcases List.mem_cons.mp h with h | h
      · exact ⟨a, List.mem_cons_self, by rw [h]⟩
      · obtain ⟨y, hy, e⟩ := ih h; exact ⟨y, List.mem_cons_of_mem _ hy, e⟩

theorem pullPackResp_attached {s : Server} {f : Flight} {r : Resp} (h : pullPackResp s f = .ok r)
    (hpo : f.pushOnly = false) (hst : f.status = .attached) (hsn : r.snapshot = false) :
    r.cp = (pullChangeInfos s f).1 ∧ r.changes = (pullChangeInfos s f).2 ∧
    epochDiffers f.info f.doc f.docInfo.epoch = false := by
  unfold pullPackResp at h
  split at h
  · next r' hr =>
    injection h with h; subst h
    unfold preparePackCore at hr
    rw [hpo] at hr
    simp only [Bool.false_eq_true, if_false] at hr
    split at hr
    · simp at hr
    · split at hr
      · simp at hr
      · next he =>
        split at hr
        · simp at hr
        · split at hr
          · injection hr with hr; subst hr; exact ⟨rfl, rfl, by simpa using he⟩
          · injection hr with hr; subst hr; simp at hsn
  · split at h
    · next hc => rw [hst] at hc; simp at hc
    · simp at h

/-- One successful `AttachDocument` from a fresh `Document` (checkpoint (0,0), own changes) on a
document with presence enabled: the response carries, restricted to the other actors, EVERY row of
the stored log as it is after the request, in order; its checkpoint is the head; the stored entry
of the client now carries the document's epoch. -/
theorem attach_fresh_delivery {s s' : Server} {c : ClientId} {key : Nat} {pack : Pack} {dp nogc : Bool} {resp : Resp}
    (hw : WF s) (hgap : ∀ d doc, s.docs.get? d = some doc → GapFree doc)
    (h : attach s c key pack dp nogc = (s', .ok resp))
    (hcp : pack.cp = Checkpoint.initial) (hown : ∀ x ∈ pack.changes, x.actor = c) (hsn : resp.snapshot = false) :
    ∃ doc', s'.findDoc (findOrCreateDoc s key dp).2 = some doc' ∧ resp.doc = some (findOrCreateDoc s key dp).2 ∧
      (doc'.disablePresence = false →
        resp.changes.filter (notBy c) = doc'.log.filter (notBy c) ∧ resp.cp.serverSeq = doc'.log.length) ∧
      (∃ cd, entryOf s' c (findOrCreateDoc s key dp).2 = some cd ∧ cd.status = .attached ∧ cd.epoch = doc'.epoch) ∧
      (∀ doc, s.findDoc (findOrCreateDoc s key dp).2 = some doc →
        ∃ own, doc'.log = doc.log ++ own ∧ ∀ r ∈ own, r.actor = c) := by
  have hold := fun doc => findOrCreateDoc_old (s := s) hw key dp (d := (findOrCreateDoc s key dp).2) (doc := doc)
  rcases attach_inv h with ⟨_, e, he, _⟩ | ⟨info, hi, ha, h⟩
  · simp at he
  have ext1 := findOrCreateDoc_docsExt s hw key dp
  have hgap1 := gapFree_after ext1 hgap
  generalize hs1 : (findOrCreateDoc s key dp).1 = s1 at h ext1 hgap1 hold
  generalize hd1 : (findOrCreateDoc s key dp).2 = d at h hold ⊢
  rcases attachWith_inv h with ⟨_, _, he⟩ | ⟨doc, hd, hr⟩
  · simp at he
  rcases hr with ⟨e, _, he⟩ | ⟨s2, info2, hca, hr⟩
  · simp at he
  rcases hr with ⟨f', hpp, hout⟩ | ⟨e, _, he⟩
  rotate_left
  · simp at he
  injection hout with hout
  obtain ⟨info1, hi2, _, _, hs2⟩ := clientsAttach_ok hca
  have hdocs2 : s2.docs = s1.docs := by
    rcases hs2 with ⟨_, e, _⟩ | ⟨_, i, _, _, _, _, e⟩ <;> rw [e] <;> rfl
  have hd2 : s2.findDoc d = some doc := by simp only [Server.findDoc] at hd ⊢; rw [hdocs2]; exact hd
  have hgd : GapFree doc := hgap1 d doc hd
  have hp := pushPull_ppok hpp
  obtain ⟨doc0, p, loaded, info', cd, r, vv, h1, h2, _, h4, h5, h6, h7, h8, _, h10, _, _, _, h14, h15, h16, _⟩ := hp.ex
  simp only [mkFlight_doc, mkFlight_client, mkFlight_info, mkFlight_status] at h1 h2 h5 h6 h7 h8 h10
  rw [hd2] at h1; injection h1 with h1; subst h1
  have hfd' : s'.findDoc d = some { pushedDoc doc (stripped (mkFlight c d info2 pack false .attached nogc doc.disablePresence)) p with vvRows := vv } := by
    simp only [Server.findDoc]; rw [h8]; exact AL.get?_set_self _ _ _
  refine ⟨_, hfd', by rw [hout], ?_, ?_, ?_⟩
  rotate_left 2
  · -- the rows this request appended are the pack's own changes
    intro docS hdS
    have := hold docS hdS
    rw [hd] at this; injection this with this; subst this
    refine ⟨(assignSeqs (info2.genOf d) doc.serverSeq (info2.checkpoint d) p).1, ?_, ?_⟩
    · simp [pushedDoc]
    · intro row hrow
      have sp := assignSeqs_spec (info2.genOf d) doc.serverSeq (info2.checkpoint d) p
      simp only [] at sp
      obtain ⟨_, _, _, _, q5, _⟩ := sp
      have : row.actor ∈ ((assignSeqs (info2.genOf d) doc.serverSeq (info2.checkpoint d) p).1).map (·.actor) :=
        List.mem_map_of_mem (f := (·.actor)) hrow
      rw [q5] at this
      obtain ⟨y, hy, hya⟩ := List.mem_map.mp this
      have hy' := (pushGuard_sub h4 y hy).1
      have hya2 : y.actor = c := by
        rw [stripped_changes] at hy'
        simp only [mkFlight_dp, mkFlight_pack] at hy'
        cases hdpp : doc.disablePresence with
        | true =>
          simp [hdpp] at hy'
          obtain ⟨z, hz, e⟩ := stripChanges_mem hy'; rw [← e]; exact hown z hz
        | false => simp [hdpp] at hy'; exact hown y hy'
      rw [← hya]; exact hya2
  · intro hdp
    have hdp0 : doc.disablePresence = false := hdp
    have hsn' : f'.resp.snapshot = false := by rw [hout] at hsn; exact hsn
    obtain ⟨doc', hd', e', hv, _, _⟩ := view_after_pushPull hp (v := {}) (by simpa using hd2) hgd (by simpa using hdp0) hdp0
      (by simpa using hcp) (by simpa using hown) (ViewOk.init c doc.log hgd.1) hsn'
    simp only [mkFlight_doc, mkFlight_client] at hd' hv
    have hdd : doc' = { pushedDoc doc (stripped (mkFlight c d info2 pack false .attached nogc doc.disablePresence)) p with vvRows := vv } := by
      simp only [Server.findDoc] at hfd'; rw [hfd'] at hd'; injection hd' with hd'; exact hd'.symm
    subst hdd
    have hg' : GapFree { pushedDoc doc (stripped (mkFlight c d info2 pack false .attached nogc doc.disablePresence)) p with vvRows := vv } :=
      GapFree.ext e' hgd
    -- the checkpoint is the head
    have hr16 : r.snapshot = false := by rw [← h16]; exact hsn'
    obtain ⟨hrcp, _, _⟩ := pullPackResp_attached h5 (by simp [pushedFlight]) (by simp [pushedFlight]) hr16
    have hhead : f'.resp.cp.serverSeq = (pushedDoc doc (stripped (mkFlight c d info2 pack false .attached nogc doc.disablePresence)) p).serverSeq := by
      rw [h14, hrcp]; simp [pullChangeInfos, nextServerSeq_serverSeq, pushedFlight]
    have hlen := hg'.2
    simp only [] at hlen
    have hex := hv.exact
    simp only [receive, List.nil_append] at hex
    rw [hout]
    simp only []
    constructor
    · rw [hex]
      congr 1
      exact filter_ssLe_all 0 _ _ hg'.1 (by rw [hhead, hlen]; omega)
    · rw [hhead, hlen]
  · -- the stored entry
    obtain ⟨cd0, hcd0, _, hm⟩ := updateDocStatus_spec h6
    simp only [StatusPost] at hm
    have hcd0' : cd0 = attachedEntry info1 d doc.epoch := by
      rw [hi2] at hcd0; simp only [AL.get?_set_self] at hcd0; injection hcd0 with hcd0; exact hcd0.symm
    rw [hm] at h7; simp only [AL.get?_set_self] at h7; injection h7 with h7
    refine ⟨persistEntry cd loaded d, ?_, ?_, ?_⟩
    · simp only [entryOf]; rw [h10]; simp [AL.get?_set_self]
    · rw [← h7, hcd0']; simp [persistEntry, attachedEntry, mergeClientDoc]
    · rw [← h7, hcd0']; simp [persistEntry, attachedEntry, mergeClientDoc]

/-- whatever a `PushPull` of a stale flight answers, the document's rows, head and epoch are what they were -/
theorem pushPull_stale_docs {s s' : Server} {f : Flight} {r : Except ErrKind Flight} {doc : Doc} {loaded : Client}
    (h : pushPull s f = (s', r)) (hc : s.findClient f.client = some loaded)
    (hd : s.findDoc f.doc = some doc) (he : epochDiffers f.info f.doc doc.epoch = true) :
    (∃ doc', s'.findDoc f.doc = some doc' ∧ doc'.log = doc.log ∧ doc'.serverSeq = doc.serverSeq ∧
      doc'.epoch = doc.epoch ∧ doc'.key = doc.key ∧ doc'.disablePresence = doc.disablePresence) ∧
    (∀ d', d' ≠ f.doc → s'.findDoc d' = s.findDoc d') := by
  refine pushPull_nopush_docs h hc hd ?_
  intro p hp
  rw [pushGuard_stale (g := stripped f) (by simpa using hd) (by simpa using he)] at hp
  injection hp with hp; exact hp.symm

/-- with the repair switch `pushAfterRemoveDiscards`, nothing passes the guard on a removed document -/
theorem pushGuard_removed_nil {s : Server} {g : Flight} {doc : Doc} {p : List ChangeReq}
    (hsw : s.cfg.pushAfterRemoveDiscards = true) (hd : s.findDoc g.doc = some doc) (hr : doc.removed = true)
    (h : pushGuard s g = .ok p) : p = [] := by
  unfold pushGuard at h
  split at h
  · rw [hd] at h
    simp only [] at h
    split at h
    · injection h with h; exact h.symm
    · split at h
      · simp at h
      · rw [hsw, hr] at h
        simp only [Bool.and_self, if_true] at h
        injection h with h; exact h.symm
  · next hc =>
    have hx : pushablesOf g = [] := by
      have := hc; simp only [Bool.or_eq_true, Bool.not_eq_true', not_or, Bool.not_eq_false] at this
      simpa using this.1
    rw [hx] at h; injection h with h; exact h.symm

end Yorkie.Server
