/-
Generic strong convergence for an operation-based CRDT replicated through a
central log (model of Yorkie's push/pull delivery discipline).

Self-contained: core Lean only.

Scope: full three-step system (`edit`, `push`, `pull` as separate steps), no ghost state.
`Pre` is an abstract parameter; laws are `H0`, `H1`, `H1r`, `H2` (= `swap_adjacent`) and the extra
law `H3` (an operation cannot disable a co-enabled independent one), which is necessary once `Pre`
is abstract and is derivable for the concrete `Pre` (`Sem.Laws.ofConcrete`).
Main results: `Sem.replica_eq_fold`, `Sem.replica_valid`, `Sem.server_valid`, `Sem.server_fold`,
`Sem.converge_quiescent`.  The inductive invariant is `Sem.Inv`; causality is carried entirely by
`Valid init log` + `Valid init (view c)` + disjointness of created ids (log vs pending, pending vs
pending), so no per-operation history is needed.
-/
namespace Yorkie.Convergence

/-- Semantics of a replicated datatype: states `S`, operations `Op`, identifiers `Id`.
`Pre d a` is the (abstract) enabledness condition of `a` in `d`. -/
structure Sem (S Op Id : Type) where
  apply : S → Op → S
  init : S
  author : Op → Nat
  creates : Op → List Id
  refs : Op → List Id
  ids : S → Id → Prop
  Pre : S → Op → Prop

variable {S Op Id : Type}

namespace Sem
variable (M : Sem S Op Id)

/-- Causal independence of two operations (concrete disjointness condition). -/
def Indep (a b : Op) : Prop :=
  (∀ i ∈ M.creates a, i ∉ M.refs b ∧ i ∉ M.creates b) ∧ (∀ i ∈ M.creates b, i ∉ M.refs a)

/-- The hypotheses on the datatype.
* `H0`  : the initial state has no ids;
* `H1`  : an enabled operation adds exactly its created ids;
* `H1r` : an enabled operation references only existing ids and creates only new ones;
* `H2`  : adjacent swap of sequentially enabled independent operations;
* `H3`  : an operation cannot disable a co-enabled independent operation. -/
structure Laws : Prop where
  H0 : ∀ i, ¬ M.ids M.init i
  H1 : ∀ d a, M.Pre d a → ∀ i, (M.ids (M.apply d a) i ↔ M.ids d i ∨ i ∈ M.creates a)
  H1r : ∀ d a, M.Pre d a → (∀ i ∈ M.refs a, M.ids d i) ∧ (∀ i ∈ M.creates a, ¬ M.ids d i)
  H2 : ∀ d a b, M.Pre d a → M.Pre (M.apply d a) b → M.Indep a b →
        M.Pre d b ∧ M.Pre (M.apply d b) a ∧ M.apply (M.apply d a) b = M.apply (M.apply d b) a
  H3 : ∀ d a b, M.Pre d a → M.Pre d b → M.Indep a b → M.Pre (M.apply d a) b

/-- Every operation of `L` satisfies `Pre` at its application point when run from `d`. -/
def Valid : S → List Op → Prop
  | _, [] => True
  | d, a :: L => M.Pre d a ∧ Valid (M.apply d a) L

/-- The created ids of `a` and `b` are disjoint. -/
def CD (a b : Op) : Prop := ∀ i ∈ M.creates a, i ∉ M.creates b

variable {M}

theorem Indep_symm {a b : Op} (h : M.Indep a b) : M.Indep b a :=
  ⟨fun i hb => ⟨h.2 i hb, fun ha => (h.1 i ha).2 hb⟩, fun i ha => (h.1 i ha).1⟩

theorem CD_symm {a b : Op} (h : M.CD a b) : M.CD b a :=
  fun i hb ha => h i ha hb

theorem swap_adjacent (h : M.Laws) {d : S} {a b : Op}
    (ha : M.Pre d a) (hb : M.Pre (M.apply d a) b) (hi : M.Indep a b) :
    M.Pre d b ∧ M.Pre (M.apply d b) a ∧
      M.apply (M.apply d a) b = M.apply (M.apply d b) a :=
  h.H2 d a b ha hb hi

/-- Two operations enabled in the same state and independent: one stays enabled after the other. -/
theorem pre_step (h : M.Laws) {d : S} {a b : Op}
    (ha : M.Pre d a) (hb : M.Pre d b) (hi : M.Indep a b) : M.Pre (M.apply d a) b :=
  h.H3 d a b ha hb hi

@[simp] theorem Valid_nil (d : S) : M.Valid d [] = True := rfl

@[simp] theorem Valid_cons (d : S) (a : Op) (L : List Op) :
    M.Valid d (a :: L) = (M.Pre d a ∧ M.Valid (M.apply d a) L) := rfl

theorem Valid_append (A B : List Op) (d : S) :
    M.Valid d (A ++ B) ↔ M.Valid d A ∧ M.Valid (A.foldl M.apply d) B := by
  induction A generalizing d with
  | nil => simp
  | cons a A ih => simp [ih, and_assoc]

theorem ids_foldl (h : M.Laws) (L : List Op) (d : S) (hv : M.Valid d L) (i : Id) :
    M.ids (L.foldl M.apply d) i ↔ M.ids d i ∨ ∃ b ∈ L, i ∈ M.creates b := by
  induction L generalizing d with
  | nil => simp
  | cons a L ih =>
    simp only [List.foldl_cons, ih _ hv.2, h.H1 d a hv.1, List.mem_cons, exists_eq_or_imp,
      or_assoc]

theorem valid_not_creates (h : M.Laws) {L : List Op} {d : S} {i : Id}
    (hv : M.Valid d L) (hi : M.ids d i) : ∀ b ∈ L, i ∉ M.creates b := by
  induction L generalizing d with
  | nil => simp
  | cons a L ih =>
    intro b hb
    rcases List.mem_cons.1 hb with rfl | hb
    · exact fun hc => (h.H1r d b hv.1).2 i hc hi
    · exact ih hv.2 ((h.H1 d a hv.1 i).2 (Or.inl hi)) b hb

theorem valid_refs (h : M.Laws) {L : List Op} {d : S} {o : Op} {i : Id}
    (hv : M.Valid d L) (ho : o ∈ L) (hr : i ∈ M.refs o) :
    M.ids d i ∨ ∃ x ∈ L, i ∈ M.creates x := by
  induction L generalizing d with
  | nil => simp at ho
  | cons a L ih =>
    rcases List.mem_cons.1 ho with rfl | ho
    · exact Or.inl ((h.H1r d o hv.1).1 i hr)
    · rcases ih hv.2 ho with h1 | ⟨x, hx, hc⟩
      · rcases (h.H1 d a hv.1 i).1 h1 with h2 | h2
        · exact Or.inl h2
        · exact Or.inr ⟨a, List.mem_cons_self, h2⟩
      · exact Or.inr ⟨x, List.mem_cons_of_mem _ hx, hc⟩

theorem valid_pairwise_CD (h : M.Laws) {L : List Op} {d : S} (hv : M.Valid d L) :
    L.Pairwise M.CD := by
  induction L generalizing d with
  | nil => exact List.Pairwise.nil
  | cons a L ih =>
    refine List.pairwise_cons.2 ⟨?_, ih hv.2⟩
    intro b hb i hc
    exact valid_not_creates h hv.2 ((h.H1 d a hv.1 i).2 (Or.inr hc)) b hb

/-- In a valid list no operation references an id created by a later one. -/
theorem valid_pairwise_refs (h : M.Laws) {L : List Op} {d : S} (hv : M.Valid d L) :
    L.Pairwise (fun e o => ∀ i ∈ M.creates o, i ∉ M.refs e) := by
  induction L generalizing d with
  | nil => exact List.Pairwise.nil
  | cons a L ih =>
    refine List.pairwise_cons.2 ⟨?_, ih hv.2⟩
    intro b hb i hc hr
    exact valid_not_creates h hv.2
      ((h.H1 d a hv.1 i).2 (Or.inl ((h.H1r d a hv.1).1 i hr))) b hb hc

theorem pairwise_ne {α : Type} {R : α → α → Prop} {l : List α} (hp : l.Pairwise R)
    {x y : α} (hx : x ∈ l) (hy : y ∈ l) (hne : x ≠ y) : R x y ∨ R y x := by
  induction l with
  | nil => simp at hx
  | cons a l ih =>
    have ⟨h1, h2⟩ := List.pairwise_cons.1 hp
    rcases List.mem_cons.1 hx with hxa | hx'
    · rcases List.mem_cons.1 hy with hya | hy'
      · exact absurd (hxa.trans hya.symm) hne
      · exact Or.inl (hxa ▸ h1 y hy')
    · rcases List.mem_cons.1 hy with hya | hy'
      · exact Or.inr (hya ▸ h1 x hx')
      · exact ih h2 hx' hy'

/-! ### Reordering lemmas -/

/-- Move one operation to the right past a block of operations independent of it. -/
theorem bubble (h : M.Laws) (P : List Op) (d : S) (a : Op) (R : List Op)
    (hv : M.Valid d (a :: (P ++ R))) (hi : ∀ o ∈ P, M.Indep a o) :
    M.Valid d (P ++ a :: R) ∧
      (P ++ a :: R).foldl M.apply d = (a :: (P ++ R)).foldl M.apply d := by
  induction P generalizing d with
  | nil => exact ⟨hv, rfl⟩
  | cons o P ih =>
    obtain ⟨ha, ho, hrest⟩ := hv
    obtain ⟨ho', ha', heq⟩ := swap_adjacent h ha ho (hi o List.mem_cons_self)
    have hv' : M.Valid (M.apply d o) (a :: (P ++ R)) := by
      refine ⟨ha', ?_⟩
      rw [← heq]; exact hrest
    obtain ⟨h1, h2⟩ := ih (M.apply d o) hv' (fun x hx => hi x (List.mem_cons_of_mem _ hx))
    refine ⟨⟨ho', h1⟩, ?_⟩
    simp only [List.cons_append, List.foldl_cons] at h2 ⊢
    rw [h2, heq]

/-- **Reorder lemma.** In a valid list, the elements satisfying `p` can be moved to the front
(keeping relative orders) provided every `¬p` element is independent of every later `p` element;
the result is valid and has the same fold. -/
theorem reorder_front (h : M.Laws) (p : Op → Bool) (X : List Op) (d : S)
    (hv : M.Valid d X)
    (hi : X.Pairwise (fun e o => p e = false → p o = true → M.Indep e o)) :
    M.Valid d (X.filter p ++ X.filter (fun x => !p x)) ∧
      (X.filter p ++ X.filter (fun x => !p x)).foldl M.apply d = X.foldl M.apply d := by
  induction X generalizing d with
  | nil => exact ⟨trivial, rfl⟩
  | cons a X ih =>
    obtain ⟨hia, hiX⟩ := List.pairwise_cons.1 hi
    obtain ⟨ih1, ih2⟩ := ih (M.apply d a) hv.2 hiX
    cases hpa : p a with
    | true =>
      simp only [List.filter_cons, hpa, Bool.not_true, if_true, Bool.false_eq_true, if_false,
        List.cons_append, Valid_cons, List.foldl_cons]
      exact ⟨⟨hv.1, ih1⟩, ih2⟩
    | false =>
      simp only [List.filter_cons, hpa, Bool.not_false, if_true, Bool.false_eq_true, if_false,
        List.foldl_cons]
      have hb := bubble h (X.filter p) d a (X.filter (fun x => !p x)) ⟨hv.1, ih1⟩
        (fun o ho => hia o (List.mem_filter.1 ho).1 hpa (List.mem_filter.1 ho).2)
      refine ⟨hb.1, ?_⟩
      rw [hb.2, List.foldl_cons, ih2]

/-- One operation commutes past a valid list of operations independent of it. -/
theorem commute_one (h : M.Laws) (B : List Op) (d : S) (a : Op)
    (hB : M.Valid d B) (ha : M.Pre d a) (hi : ∀ b ∈ B, M.Indep a b) :
    M.Valid (M.apply d a) B ∧ M.Pre (B.foldl M.apply d) a ∧
      B.foldl M.apply (M.apply d a) = M.apply (B.foldl M.apply d) a := by
  induction B generalizing d with
  | nil => exact ⟨trivial, ha, rfl⟩
  | cons b B ih =>
    have hab := hi b List.mem_cons_self
    have h1 : M.Pre (M.apply d a) b := pre_step h ha hB.1 hab
    have h2 : M.Pre (M.apply d b) a := pre_step h hB.1 ha (Indep_symm hab)
    have heq := (h.H2 d a b ha h1 hab).2.2
    obtain ⟨i1, i2, i3⟩ := ih (M.apply d b) hB.2 h2 (fun x hx => hi x (List.mem_cons_of_mem _ hx))
    simp only [Valid_cons, List.foldl_cons]
    rw [heq]
    exact ⟨⟨h1, i1⟩, i2, i3⟩

/-- Two valid lists from the same state, pairwise independent, commute as blocks. -/
theorem commute_lists (h : M.Laws) (A B : List Op) (d : S)
    (hA : M.Valid d A) (hB : M.Valid d B) (hi : ∀ a ∈ A, ∀ b ∈ B, M.Indep a b) :
    M.Valid (A.foldl M.apply d) B ∧ M.Valid (B.foldl M.apply d) A ∧
      B.foldl M.apply (A.foldl M.apply d) = A.foldl M.apply (B.foldl M.apply d) := by
  induction A generalizing d with
  | nil => exact ⟨hB, trivial, rfl⟩
  | cons a A ih =>
    obtain ⟨c1, c2, c3⟩ := commute_one h B d a hB hA.1 (hi a List.mem_cons_self)
    obtain ⟨i1, i2, i3⟩ := ih (M.apply d a) hA.2 c1 (fun x hx => hi x (List.mem_cons_of_mem _ hx))
    simp only [Valid_cons, List.foldl_cons]
    rw [c3] at i2 i3
    exact ⟨i1, ⟨c2, i2⟩, i3⟩

/-- Pure list core of the push/pull argument: `seg` is an unpulled log segment valid from `d0`,
`seg.filter p` are the client's own operations in it, `pend` its unpushed operations. -/
theorem merge_lemma (h : M.Laws) (p : Op → Bool) (d0 : S) (seg pend : List Op)
    (hseg : M.Valid d0 seg) (hown : M.Valid d0 (seg.filter p ++ pend))
    (hP1 : seg.Pairwise (fun e o => p e = false → p o = true → M.Indep e o))
    (hP2 : ∀ e ∈ seg, p e = false → ∀ o ∈ pend, M.Indep e o) :
    M.Valid (seg.foldl M.apply d0) pend ∧
      pend.foldl M.apply (seg.foldl M.apply d0) =
        (seg.filter (fun x => !p x)).foldl M.apply ((seg.filter p ++ pend).foldl M.apply d0) ∧
      M.Valid ((seg.filter p ++ pend).foldl M.apply d0) (seg.filter (fun x => !p x)) := by
  obtain ⟨hv, hf⟩ := reorder_front h p seg d0 hseg hP1
  rw [Valid_append] at hv hown
  rw [List.foldl_append] at hf
  have hi : ∀ a ∈ seg.filter (fun x => !p x), ∀ b ∈ pend, M.Indep a b := by
    intro a ha b hb
    have := List.mem_filter.1 ha
    exact hP2 a this.1 (by simpa using this.2) b hb
  obtain ⟨c1, c2, c3⟩ := commute_lists h _ _ _ hv.2 hown.2 hi
  rw [hf] at c1 c3
  refine ⟨c1, ?_, ?_⟩
  · rw [c3, List.foldl_append]
  · rw [List.foldl_append]; exact c2

end Sem

/-! ### The replicated system -/

structure Client (S Op : Type) where
  /-- replica state -/
  st : S
  /-- number of log entries this client has pulled past -/
  cp : Nat
  /-- own operations not yet pushed, oldest first -/
  pending : List Op

structure Sys (S Op : Type) where
  /-- server order -/
  log : List Op
  clients : Nat → Client S Op

/-- Function update on the client map. -/
def upd (f : Nat → Client S Op) (c : Nat) (v : Client S Op) : Nat → Client S Op :=
  fun x => if x = c then v else f x

@[simp] theorem upd_same (f : Nat → Client S Op) (c : Nat) (v : Client S Op) :
    upd f c v c = v := by simp [upd]

theorem upd_other (f : Nat → Client S Op) {c x : Nat} (v : Client S Op) (hne : x ≠ c) :
    upd f c v x = f x := by simp [upd, hne]

namespace Sem
variable (M : Sem S Op Id)

/-- Global freshness of the ids created by `a`. -/
def Fresh (s : Sys S Op) (a : Op) : Prop :=
  ∀ i ∈ M.creates a,
    (∀ c', ¬ M.ids (s.clients c').st i) ∧ (∀ b ∈ s.log, i ∉ M.creates b) ∧
    (∀ c', ∀ b ∈ (s.clients c').pending, i ∉ M.creates b)

/-- Operations of other clients that `c` has not pulled yet, in server order. -/
def news (s : Sys S Op) (c : Nat) : List Op :=
  (s.log.drop (s.clients c).cp).filter (fun b => M.author b ≠ c)

/-- The sequence of operations client `c` has applied, in the order that yields its state. -/
def view (s : Sys S Op) (c : Nat) : List Op :=
  s.log.take (s.clients c).cp ++
    (s.log.drop (s.clients c).cp).filter (fun b => M.author b = c) ++ (s.clients c).pending

/-- Post-state of `edit c a`. -/
def editSys (s : Sys S Op) (c : Nat) (a : Op) : Sys S Op :=
  { log := s.log,
    clients := upd s.clients c
      { st := M.apply (s.clients c).st a, cp := (s.clients c).cp,
        pending := (s.clients c).pending ++ [a] } }

/-- Post-state of `push c`. -/
def pushSys (s : Sys S Op) (c : Nat) : Sys S Op :=
  { log := s.log ++ (s.clients c).pending,
    clients := upd s.clients c
      { st := (s.clients c).st, cp := (s.clients c).cp, pending := [] } }

/-- Post-state of `pull c`. -/
def pullSys (s : Sys S Op) (c : Nat) : Sys S Op :=
  { log := s.log,
    clients := upd s.clients c
      { st := (M.news s c).foldl M.apply (s.clients c).st, cp := s.log.length,
        pending := (s.clients c).pending } }

@[simp] theorem editSys_log (s : Sys S Op) (c : Nat) (a : Op) : (M.editSys s c a).log = s.log := rfl
@[simp] theorem editSys_clients (s : Sys S Op) (c : Nat) (a : Op) :
    (M.editSys s c a).clients = upd s.clients c
      { st := M.apply (s.clients c).st a, cp := (s.clients c).cp,
        pending := (s.clients c).pending ++ [a] } := rfl
@[simp] theorem pushSys_log (s : Sys S Op) (c : Nat) :
    (pushSys s c).log = s.log ++ (s.clients c).pending := rfl
@[simp] theorem pushSys_clients (s : Sys S Op) (c : Nat) :
    (pushSys s c).clients = upd s.clients c
      { st := (s.clients c).st, cp := (s.clients c).cp, pending := [] } := rfl
@[simp] theorem pullSys_log (s : Sys S Op) (c : Nat) : (M.pullSys s c).log = s.log := rfl
@[simp] theorem pullSys_clients (s : Sys S Op) (c : Nat) :
    (M.pullSys s c).clients = upd s.clients c
      { st := (M.news s c).foldl M.apply (s.clients c).st, cp := s.log.length,
        pending := (s.clients c).pending } := rfl

inductive Step : Sys S Op → Sys S Op → Prop
  | edit (s : Sys S Op) (c : Nat) (a : Op) :
      M.author a = c → M.Pre (s.clients c).st a → M.Fresh s a → Step s (M.editSys s c a)
  | push (s : Sys S Op) (c : Nat) : Step s (pushSys s c)
  | pull (s : Sys S Op) (c : Nat) : Step s (M.pullSys s c)

/-- The initial system: empty log, every client in the initial state. -/
def initSys : Sys S Op := { log := [], clients := fun _ => { st := M.init, cp := 0, pending := [] } }

inductive Reachable : Sys S Op → Prop
  | init : Reachable M.initSys
  | step {s s' : Sys S Op} : Reachable s → M.Step s s' → Reachable s'

/-- The inductive invariant. -/
structure Inv (s : Sys S Op) : Prop where
  cp_le : ∀ c, (s.clients c).cp ≤ s.log.length
  auth : ∀ c, ∀ o ∈ (s.clients c).pending, M.author o = c
  st_eq : ∀ c, (s.clients c).st = (M.view s c).foldl M.apply M.init
  view_valid : ∀ c, M.Valid M.init (M.view s c)
  log_valid : M.Valid M.init s.log
  log_pend : ∀ x ∈ s.log, ∀ c, ∀ y ∈ (s.clients c).pending, M.CD x y
  pend_pend : ∀ c c', c ≠ c' → ∀ x ∈ (s.clients c).pending, ∀ y ∈ (s.clients c').pending, M.CD x y

variable {M}

theorem key_aux (h : M.Laws) (c : Nat) (T seg pend : List Op)
    (hlog : M.Valid M.init (T ++ seg))
    (hview : M.Valid M.init (T ++ seg.filter (fun b => M.author b = c) ++ pend))
    (hlp : ∀ x ∈ T ++ seg, ∀ y ∈ pend, M.CD x y) :
    M.Valid ((T ++ seg).foldl M.apply M.init) pend ∧
      pend.foldl M.apply ((T ++ seg).foldl M.apply M.init) =
        (seg.filter (fun b => M.author b ≠ c)).foldl M.apply
          ((T ++ seg.filter (fun b => M.author b = c) ++ pend).foldl M.apply M.init) ∧
      M.Valid ((T ++ seg.filter (fun b => M.author b = c) ++ pend).foldl M.apply M.init)
        (seg.filter (fun b => M.author b ≠ c)) := by
  have hcd := valid_pairwise_CD h hlog
  have hseg := ((Valid_append _ _ _).1 hlog).2
  have hown : M.Valid (T.foldl M.apply M.init) (seg.filter (fun b => M.author b = c) ++ pend) := by
    rw [List.append_assoc] at hview
    exact ((Valid_append _ _ _).1 hview).2
  -- an unpulled foreign operation creates ids unknown to the whole view of `c`
  have fresh : ∀ e ∈ seg, M.author e ≠ c →
      ∀ x ∈ T ++ seg.filter (fun b => M.author b = c) ++ pend, M.CD x e := by
    intro e he hne x hx
    rcases List.mem_append.1 hx with hx | hx
    · rcases List.mem_append.1 hx with hx | hx
      · exact (List.pairwise_append.1 hcd).2.2 x hx e he
      · have hx' := List.mem_filter.1 hx
        have hxe : x ≠ e := by
          intro hxe; subst hxe; exact hne (by simpa using hx'.2)
        rcases pairwise_ne (List.pairwise_append.1 hcd).2.1 hx'.1 he hxe with h1 | h1
        · exact h1
        · exact CD_symm h1
    · exact CD_symm (hlp e (List.mem_append_right _ he) x hx)
  have partA : ∀ e ∈ seg, M.author e ≠ c →
      ∀ o ∈ T ++ seg.filter (fun b => M.author b = c) ++ pend,
        ∀ i ∈ M.creates e, i ∉ M.refs o ∧ i ∉ M.creates o := by
    intro e he hne o ho i hie
    refine ⟨fun hr => ?_, fun hc => fresh e he hne o ho i hc hie⟩
    rcases valid_refs h hview ho hr with h0 | ⟨x, hx, hxc⟩
    · exact h.H0 i h0
    · exact fresh e he hne x hx i hxc hie
  have hP1 : seg.Pairwise (fun e o => decide (M.author e = c) = false →
      decide (M.author o = c) = true → M.Indep e o) := by
    refine List.Pairwise.imp_of_mem ?_ (valid_pairwise_refs h hseg)
    intro e o he ho hR hpe hpo
    have hne : M.author e ≠ c := by simpa using hpe
    have ho' : o ∈ T ++ seg.filter (fun b => M.author b = c) ++ pend :=
      List.mem_append_left _ (List.mem_append_right _ (List.mem_filter.2 ⟨ho, hpo⟩))
    exact ⟨partA e he hne o ho', hR⟩
  have hP2 : ∀ e ∈ seg, decide (M.author e = c) = false → ∀ o ∈ pend, M.Indep e o := by
    intro e he hpe o ho
    have hne : M.author e ≠ c := by simpa using hpe
    refine ⟨partA e he hne o (List.mem_append_right _ ho), ?_⟩
    intro i hio hr
    rcases valid_refs h hlog (List.mem_append_right _ he) hr with h0 | ⟨x, hx, hxc⟩
    · exact h.H0 i h0
    · exact hlp x hx o ho i hxc hio
  obtain ⟨m1, m2, m3⟩ := merge_lemma h (fun b => decide (M.author b = c))
    (T.foldl M.apply M.init) seg pend hseg hown hP1 hP2
  rw [List.foldl_append]
  refine ⟨m1, ?_, ?_⟩
  · rw [m2]
    simp only [decide_not, List.append_assoc, List.foldl_append]
  · simpa only [decide_not, List.append_assoc, List.foldl_append] using m3

/-- Key consequence of the invariant: the pending operations of any client are valid on top of
the full server log, pulling the missing foreign operations yields `log ++ pending`, and those
foreign operations are valid on top of the client's current state. -/
theorem key (h : M.Laws) {s : Sys S Op} (inv : M.Inv s) (c : Nat) :
    M.Valid (s.log.foldl M.apply M.init) (s.clients c).pending ∧
      (s.clients c).pending.foldl M.apply (s.log.foldl M.apply M.init) =
        (M.news s c).foldl M.apply ((M.view s c).foldl M.apply M.init) ∧
      M.Valid ((M.view s c).foldl M.apply M.init) (M.news s c) := by
  have hl := List.take_append_drop (s.clients c).cp s.log
  have := key_aux h c (s.log.take (s.clients c).cp) (s.log.drop (s.clients c).cp)
    (s.clients c).pending (by rw [hl]; exact inv.log_valid) (inv.view_valid c)
    (by rw [hl]; exact fun x hx => inv.log_pend x hx c)
  rw [hl] at this
  exact this

theorem view_congr {s s' : Sys S Op} {x : Nat} (hl : s'.log = s.log)
    (hc : s'.clients x = s.clients x) : M.view s' x = M.view s x := by
  simp [view, hl, hc]

theorem inv_init : M.Inv M.initSys := by
  constructor <;> simp [initSys, view]

theorem inv_edit {s : Sys S Op} (inv : M.Inv s) (c : Nat) (a : Op)
    (ha : M.author a = c) (hp : M.Pre (s.clients c).st a) (hf : M.Fresh s a) :
    M.Inv (M.editSys s c a) := by
  have hvc : M.view (M.editSys s c a) c = M.view s c ++ [a] := by
    simp [view, List.append_assoc]
  have hvo : ∀ x, x ≠ c → M.view (M.editSys s c a) x = M.view s x :=
    fun x hx => view_congr rfl (upd_other _ _ hx)
  constructor
  · intro x
    by_cases hx : x = c
    · subst hx; simpa using inv.cp_le x
    · simpa [upd_other _ _ hx] using inv.cp_le x
  · intro x o ho
    by_cases hx : x = c
    · subst hx
      simp only [editSys_clients, upd_same, List.mem_append, List.mem_singleton] at ho
      rcases ho with ho | rfl
      · exact inv.auth x o ho
      · exact ha
    · simp only [editSys_clients, upd_other _ _ hx] at ho; exact inv.auth x o ho
  · intro x
    by_cases hx : x = c
    · subst hx
      rw [hvc, List.foldl_append, ← inv.st_eq x]; simp
    · rw [hvo x hx]; simpa [upd_other _ _ hx] using inv.st_eq x
  · intro x
    by_cases hx : x = c
    · subst hx
      rw [hvc]
      refine (Valid_append _ _ _).2 ⟨inv.view_valid x, ?_⟩
      rw [← inv.st_eq x]; exact ⟨hp, trivial⟩
    · rw [hvo x hx]; exact inv.view_valid x
  · exact inv.log_valid
  · intro x hx c' y hy
    by_cases hc : c' = c
    · subst hc
      simp only [editSys_clients, upd_same, List.mem_append, List.mem_singleton] at hy
      rcases hy with hy | rfl
      · exact inv.log_pend x hx c' y hy
      · exact fun i hi hia => (hf i hia).2.1 x hx hi
    · simp only [editSys_clients, upd_other _ _ hc] at hy; exact inv.log_pend x hx c' y hy
  · intro c1 c2 hne x hx y hy
    by_cases h1 : c1 = c
    · subst h1
      have h2 : c2 ≠ c1 := fun e => hne e.symm
      simp only [editSys_clients, upd_other _ _ h2] at hy
      simp only [editSys_clients, upd_same, List.mem_append, List.mem_singleton] at hx
      rcases hx with hx | rfl
      · exact inv.pend_pend c1 c2 hne x hx y hy
      · exact fun i hi => (hf i hi).2.2 c2 y hy
    · simp only [editSys_clients, upd_other _ _ h1] at hx
      by_cases h2 : c2 = c
      · subst h2
        simp only [editSys_clients, upd_same, List.mem_append, List.mem_singleton] at hy
        rcases hy with hy | rfl
        · exact inv.pend_pend c1 c2 hne x hx y hy
        · exact fun i hi hia => (hf i hia).2.2 c1 x hx hi
      · simp only [editSys_clients, upd_other _ _ h2] at hy
        exact inv.pend_pend c1 c2 hne x hx y hy

theorem inv_push (h : M.Laws) {s : Sys S Op} (inv : M.Inv s) (c : Nat) :
    M.Inv (pushSys s c) := by
  have hv : ∀ x, M.view (pushSys s c) x
              = M.view s x := by
    intro x
    by_cases hx : x = c
    · subst hx
      have hfil : (s.clients x).pending.filter (fun b => M.author b = x) = (s.clients x).pending :=
        List.filter_eq_self.2 (fun o ho => by simpa using inv.auth x o ho)
      simp [view, List.take_append_of_le_length (inv.cp_le x),
        List.drop_append_of_le_length (inv.cp_le x), hfil, List.append_assoc]
    · have hfil : (s.clients c).pending.filter (fun b => M.author b = x) = [] :=
        List.filter_eq_nil_iff.2 (fun o ho => by
          have := inv.auth c o ho
          simp only [decide_eq_true_eq]; intro e; exact hx (e.symm.trans this))
      simp [view, upd_other _ _ hx, List.take_append_of_le_length (inv.cp_le x),
        List.drop_append_of_le_length (inv.cp_le x), hfil]
  constructor
  · intro x
    have := inv.cp_le x
    by_cases hx : x = c
    · subst hx; simp only [pushSys_clients, pushSys_log, upd_same, List.length_append]; omega
    · simp only [pushSys_clients, pushSys_log, upd_other _ _ hx, List.length_append]; omega
  · intro x o ho
    by_cases hx : x = c
    · subst hx; simp at ho
    · simp only [pushSys_clients, upd_other _ _ hx] at ho; exact inv.auth x o ho
  · intro x
    rw [hv x]
    by_cases hx : x = c
    · subst hx; simpa using inv.st_eq x
    · simpa [upd_other _ _ hx] using inv.st_eq x
  · intro x; rw [hv x]; exact inv.view_valid x
  · exact (Valid_append _ _ _).2 ⟨inv.log_valid, (key h inv c).1⟩
  · intro x hx c' y hy
    by_cases hc : c' = c
    · subst hc; simp at hy
    · simp only [pushSys_clients, upd_other _ _ hc] at hy
      rcases List.mem_append.1 hx with hx | hx
      · exact inv.log_pend x hx c' y hy
      · exact inv.pend_pend c c' (fun e => hc e.symm) x hx y hy
  · intro c1 c2 hne x hx y hy
    by_cases h1 : c1 = c
    · subst h1; simp at hx
    · by_cases h2 : c2 = c
      · subst h2; simp at hy
      · simp only [pushSys_clients, upd_other _ _ h1] at hx
        simp only [pushSys_clients, upd_other _ _ h2] at hy
        exact inv.pend_pend c1 c2 hne x hx y hy

theorem inv_pull (h : M.Laws) {s : Sys S Op} (inv : M.Inv s) (c : Nat) :
    M.Inv (M.pullSys s c) := by
  have hvc : M.view (M.pullSys s c) c = s.log ++ (s.clients c).pending := by
    simp [view]
  have hvo : ∀ x, x ≠ c → M.view (M.pullSys s c) x = M.view s x :=
    fun x hx => view_congr rfl (upd_other _ _ hx)
  obtain ⟨k1, k2, _⟩ := key h inv c
  constructor
  · intro x
    by_cases hx : x = c
    · subst hx; simp
    · simpa [upd_other _ _ hx] using inv.cp_le x
  · intro x o ho
    by_cases hx : x = c
    · subst hx; exact inv.auth x o (by simpa using ho)
    · simp only [pullSys_clients, upd_other _ _ hx] at ho; exact inv.auth x o ho
  · intro x
    by_cases hx : x = c
    · subst hx
      rw [hvc, List.foldl_append, k2, ← inv.st_eq x]; simp
    · rw [hvo x hx]; simpa [upd_other _ _ hx] using inv.st_eq x
  · intro x
    by_cases hx : x = c
    · subst hx
      rw [hvc]
      exact (Valid_append _ _ _).2 ⟨inv.log_valid, k1⟩
    · rw [hvo x hx]; exact inv.view_valid x
  · exact inv.log_valid
  · intro x hx c' y hy
    by_cases hc : c' = c
    · subst hc; exact inv.log_pend x hx c' y (by simpa using hy)
    · simp only [pullSys_clients, upd_other _ _ hc] at hy; exact inv.log_pend x hx c' y hy
  · intro c1 c2 hne x hx y hy
    have e1 : ∀ z, ((M.pullSys s c).clients z).pending = (s.clients z).pending := by
      intro z
      by_cases hz : z = c
      · subst hz; simp
      · simp [upd_other _ _ hz]
    simp only [e1] at hx hy
    exact inv.pend_pend c1 c2 hne x hx y hy

theorem inv_step (h : M.Laws) {s s' : Sys S Op} (inv : M.Inv s) (st : M.Step s s') : M.Inv s' := by
  cases st with
  | edit c a ha hp hf => exact inv_edit inv c a ha hp hf
  | push c => exact inv_push h inv c
  | pull c => exact inv_pull h inv c

theorem inv_reachable (h : M.Laws) {s : Sys S Op} (hr : M.Reachable s) : M.Inv s := by
  induction hr with
  | init => exact inv_init
  | step _ st ih => exact inv_step h ih st

/-! ### Main theorems -/

/-- **Main theorem.** Every replica state is the fold, from the initial state, of: the pulled
log prefix, then the client's own operations beyond it in the log, then its pending operations. -/
theorem replica_eq_fold (h : M.Laws) {s : Sys S Op} (hr : M.Reachable s) (c : Nat) :
    (s.clients c).st =
      (s.log.take (s.clients c).cp ++
        (s.log.drop (s.clients c).cp).filter (fun b => M.author b = c) ++
        (s.clients c).pending).foldl M.apply M.init :=
  (inv_reachable h hr).st_eq c

/-- The applied sequence of every replica is valid (every `Pre` holds at its application point). -/
theorem replica_valid (h : M.Laws) {s : Sys S Op} (hr : M.Reachable s) (c : Nat) :
    M.Valid M.init
      (s.log.take (s.clients c).cp ++
        (s.log.drop (s.clients c).cp).filter (fun b => M.author b = c) ++
        (s.clients c).pending) :=
  (inv_reachable h hr).view_valid c

/-- The server log is valid from the initial state: the server can rebuild the document. -/
theorem server_valid (h : M.Laws) {s : Sys S Op} (hr : M.Reachable s) :
    M.Valid M.init s.log :=
  (inv_reachable h hr).log_valid

/-- A quiescent replica equals the server's own rebuild of the log. -/
theorem server_fold (h : M.Laws) {s : Sys S Op} (hr : M.Reachable s) (c : Nat)
    (hp : (s.clients c).pending = []) (hc : (s.clients c).cp = s.log.length) :
    (s.clients c).st = s.log.foldl M.apply M.init := by
  rw [replica_eq_fold h hr c, hp, hc]; simp

/-- **No pull step fails.** Every foreign operation a client is about to pull is enabled at the
moment the client applies it (the client applies `news s c` in order on top of its state). -/
theorem pull_valid (h : M.Laws) {s : Sys S Op} (hr : M.Reachable s) (c : Nat) :
    M.Valid (s.clients c).st (M.news s c) := by
  have inv := inv_reachable h hr
  rw [inv.st_eq c]
  exact (key h inv c).2.2

/-- **Strong convergence.** Two quiescent replicas are equal. -/
theorem converge_quiescent (h : M.Laws) {s : Sys S Op} (hr : M.Reachable s) (c₁ c₂ : Nat)
    (hp₁ : (s.clients c₁).pending = []) (hc₁ : (s.clients c₁).cp = s.log.length)
    (hp₂ : (s.clients c₂).pending = []) (hc₂ : (s.clients c₂).cp = s.log.length) :
    (s.clients c₁).st = (s.clients c₂).st := by
  rw [server_fold h hr c₁ hp₁ hc₁, server_fold h hr c₂ hp₂ hc₂]

/-- Recover the original interface: when `Pre` is the concrete "references exist, created ids are
new" condition, `H1r` and `H3` are automatic and `H2` only needs the commutation equation. -/
theorem Laws.ofConcrete
    (hPre : ∀ d a, M.Pre d a ↔
      (∀ i ∈ M.refs a, M.ids d i) ∧ (∀ i ∈ M.creates a, ¬ M.ids d i))
    (H0 : ∀ i, ¬ M.ids M.init i)
    (H1 : ∀ d a i, M.ids (M.apply d a) i ↔ M.ids d i ∨ i ∈ M.creates a)
    (H2 : ∀ d a b, M.Pre d a → M.Pre (M.apply d a) b → M.Indep a b →
      M.apply (M.apply d a) b = M.apply (M.apply d b) a) : M.Laws where
  H0 := H0
  H1 := fun d a _ i => H1 d a i
  H1r := fun d a hp => (hPre d a).1 hp
  H2 := by
    intro d a b ha hb hi
    have ha' := (hPre _ _).1 ha
    have hb' := (hPre _ _).1 hb
    refine ⟨(hPre _ _).2 ⟨?_, ?_⟩, (hPre _ _).2 ⟨?_, ?_⟩, H2 d a b ha hb hi⟩
    · intro i hr
      rcases (H1 d a i).1 (hb'.1 i hr) with h1 | h1
      · exact h1
      · exact absurd hr (hi.1 i h1).1
    · intro i hc hd
      exact hb'.2 i hc ((H1 d a i).2 (Or.inl hd))
    · intro i hr
      exact (H1 d b i).2 (Or.inl (ha'.1 i hr))
    · intro i hc hd
      rcases (H1 d b i).1 hd with h1 | h1
      · exact ha'.2 i hc h1
      · exact (hi.1 i hc).2 h1
  H3 := by
    intro d a b _ hb hi
    have hb' := (hPre _ _).1 hb
    refine (hPre _ _).2 ⟨fun i hr => (H1 d a i).2 (Or.inl (hb'.1 i hr)), ?_⟩
    intro i hc hd
    rcases (H1 d a i).1 hd with h1 | h1
    · exact hb'.2 i hc h1
    · exact (hi.1 i h1).2 hc

end Sem
/-! ### Non-vacuity: an add/delete set

Operations either create a fresh element id or delete (reference) an existing one.  `create i`
and `delete i` do not commute, but they are not independent either. -/
namespace Example

structure XOp where
  auth : Nat
  id : Nat
  del : Bool
  deriving DecidableEq

structure XS where
  made : Nat → Bool
  live : Nat → Bool

def xapply (d : XS) (a : XOp) : XS :=
  if a.del then { made := d.made, live := fun j => j != a.id && d.live j }
  else { made := fun j => j == a.id || d.made j, live := fun j => j == a.id || d.live j }

def xcreates (a : XOp) : List Nat := if a.del then [] else [a.id]
def xrefs (a : XOp) : List Nat := if a.del then [a.id] else []

def X : Sem XS XOp Nat where
  apply := xapply
  init := { made := fun _ => false, live := fun _ => false }
  author := XOp.auth
  creates := xcreates
  refs := xrefs
  ids := fun d i => d.made i = true
  Pre := fun d a => (∀ i ∈ xrefs a, d.made i = true) ∧ (∀ i ∈ xcreates a, ¬ d.made i = true)

theorem X_laws : X.Laws := by
  refine Sem.Laws.ofConcrete (fun _ _ => Iff.rfl) (fun i => by simp [X]) ?_ ?_
  · intro d a i
    rcases a with ⟨u, k, _ | _⟩ <;> simp [X, xapply, xcreates, or_comm]
  · intro d a b _ _ hi
    rcases a with ⟨u, k, _ | _⟩ <;> rcases b with ⟨v, l, _ | _⟩ <;>
      simp only [X, xapply, xcreates, xrefs, Sem.Indep] at hi ⊢ <;>
      simp only [Bool.false_eq_true, if_false, if_true, XS.mk.injEq, true_and] <;>
      (try refine ⟨?_, ?_⟩) <;> (try rfl) <;> funext j
    · cases d.made j <;> cases (j == k) <;> cases (j == l) <;> rfl
    · cases d.live j <;> cases (j == k) <;> cases (j == l) <;> rfl
    · have hkl : k ≠ l := by simpa using hi
      cases hjk : (j == k) <;> cases hjl : (j == l) <;> cases d.live j <;> simp_all [bne]
    · have hkl : l ≠ k := by simpa using hi
      cases hjk : (j == k) <;> cases hjl : (j == l) <;> cases d.live j <;> simp_all [bne]
    · cases d.live j <;> cases (j != k) <;> cases (j != l) <;> rfl

def a1 : XOp := ⟨1, 10, false⟩
def a2 : XOp := ⟨2, 20, false⟩

/-- Clients 1 and 2 edit concurrently, then both push, then both pull. -/
def final : Sys XS XOp :=
  X.pullSys (X.pullSys (Sem.pushSys (Sem.pushSys (X.editSys (X.editSys X.initSys 1 a1) 2 a2) 1) 2) 1) 2

theorem final_reachable : X.Reachable final := by
  have r0 := Sem.Reachable.init (M := X)
  have r1 : X.Reachable (X.editSys X.initSys 1 a1) := by
    refine r0.step (Sem.Step.edit _ 1 a1 rfl ?_ ?_)
    · simp [X, Sem.initSys, xrefs, xcreates, a1]
    · simp [Sem.Fresh, X, Sem.initSys, xcreates, a1]
  have r2 : X.Reachable (X.editSys (X.editSys X.initSys 1 a1) 2 a2) := by
    refine r1.step (Sem.Step.edit _ 2 a2 rfl ?_ ?_)
    · simp [X, Sem.initSys, Sem.editSys, upd, xrefs, xcreates, a2]
    · intro i hi
      have hi' : i = 20 := by simpa [X, xcreates, a2] using hi
      subst hi'
      refine ⟨fun c' => ?_, fun b hb => ?_, fun c' b hb => ?_⟩
      · by_cases hc : c' = 1 <;> simp [X, Sem.initSys, Sem.editSys, upd, hc, xapply, a1]
      · simp [Sem.initSys] at hb
      · by_cases hc : c' = 1
        · subst hc
          have : b = a1 := by simpa [Sem.initSys, Sem.editSys, upd] using hb
          subst this; simp [X, xcreates, a1]
        · simp [Sem.initSys, Sem.editSys, upd, hc] at hb
  exact (((r2.step (Sem.Step.push _ 1)).step (Sem.Step.push _ 2)).step
    (Sem.Step.pull _ 1)).step (Sem.Step.pull _ 2)

/-- Second round: client 1 deletes the element created by client 2 while client 2 concurrently
deletes the element created by client 1; pushes arrive in the opposite order; both pull. -/
def d1 : XOp := ⟨1, 20, true⟩
def d2 : XOp := ⟨2, 10, true⟩

def final2 : Sys XS XOp :=
  X.pullSys (X.pullSys (Sem.pushSys (Sem.pushSys (X.editSys (X.editSys final 1 d1) 2 d2) 2) 1) 1) 2

theorem final2_reachable : X.Reachable final2 := by
  have r1 : X.Reachable (X.editSys final 1 d1) := by
    refine final_reachable.step (Sem.Step.edit _ 1 d1 rfl ?_ ?_)
    · refine ⟨?_, ?_⟩
      · simp only [xrefs, d1, if_true, List.mem_singleton, forall_eq]; decide
      · simp [xcreates, d1]
    · intro i hi; simp [X, xcreates, d1] at hi
  have r2 : X.Reachable (X.editSys (X.editSys final 1 d1) 2 d2) := by
    refine r1.step (Sem.Step.edit _ 2 d2 rfl ?_ ?_)
    · refine ⟨?_, ?_⟩
      · simp only [xrefs, d2, if_true, List.mem_singleton, forall_eq]; decide
      · simp [xcreates, d2]
    · intro i hi; simp [X, xcreates, d2] at hi
  exact (((r2.step (Sem.Step.push _ 2)).step (Sem.Step.push _ 1)).step
    (Sem.Step.pull _ 1)).step (Sem.Step.pull _ 2)

/-- The executions are reachable, both clients are quiescent, the concurrent operations are in
the log, and (by the convergence theorem) the replicas agree. -/
example :
    X.Reachable final ∧ final.log = [a1, a2] ∧
    (final.clients 1).pending = [] ∧ (final.clients 1).cp = final.log.length ∧
    (final.clients 2).pending = [] ∧ (final.clients 2).cp = final.log.length ∧
    (final.clients 1).st = (final.clients 2).st :=
  ⟨final_reachable, by decide, by decide, by decide, by decide, by decide,
    Sem.converge_quiescent X_laws final_reachable 1 2 (by decide) (by decide) (by decide)
      (by decide)⟩

example :
    X.Reachable final2 ∧ final2.log = [a1, a2, d2, d1] ∧
    (final2.clients 1).st = (final2.clients 2).st ∧
    (final2.clients 1).st = final2.log.foldl X.apply X.init ∧
    (final2.clients 1).st.live 10 = false ∧ (final2.clients 2).st.live 20 = false :=
  ⟨final2_reachable, by decide,
    Sem.converge_quiescent X_laws final2_reachable 1 2 (by decide) (by decide) (by decide)
      (by decide),
    Sem.server_fold X_laws final2_reachable 1 (by decide) (by decide), by decide, by decide⟩

end Example

end Yorkie.Convergence
