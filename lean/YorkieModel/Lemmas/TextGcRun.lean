/-
Text garbage collection, part 5: the GC invariant is kept by every operation (`gcInv_exec`), and the
lockstep lift (c): `Lock d t g keep` – `t` is the GC-off replica, `g` the replica on which the same
stream of operations is executed with purges (any vectors) at arbitrary moments in between.
Core Lean only.
-/
import YorkieModel.Lemmas.TextGcSafe
set_option linter.unusedSimpArgs false
namespace Yorkie.TextConv
open Yorkie Yorkie.Text Yorkie.Convergence

/-! ### `Zero` -/

theorem zero_splitNode {s : TextSt} (z : Zero s) {n : TNode} (hn : n ∈ s) {k : Nat} (h0 : 0 < k)
    (hk : k < n.len) : Zero (splitNode s n k) := by
  intro x hx hz
  rcases (mem_splitNode hn h0 hk).1 hx with rfl | ⟨m, hm, rfl⟩
  · have : (rightPart n k).id.2 = n.id.2 + k := rfl
    omega
  · simp only [splitMap_id] at hz
    have := z m hm hz
    rw [splitMap_insPrev, if_neg (by rw [this]; intro h; cases h)]
    exact this

theorem zero_fnws {s : TextSt} (z : Zero s) {pos : Pos} {ts : Ticket} {s1 : TextSt} {l : Id} {r : Option Id}
    (h : findNodeWithSplit s pos ts = .ok (s1, l, r)) : Zero s1 := by
  rcases fnws_cases h with rfl | ⟨n, hn, k, h0, hk, rfl⟩
  · exact z
  · exact zero_splitNode z hn h0 hk

theorem zero_map_keeps {s : TextSt} (z : Zero s) {f : TNode → TNode} (hf : KeepsShape f) : Zero (s.map f) := by
  intro x hx hz
  obtain ⟨m, hm, rfl⟩ := List.mem_map.1 hx
  rw [(hf m).1] at hz
  rw [(hf m).2.2]; exact z m hm hz

theorem zero_edit {s s' : TextSt} (z : Zero s) {fr to : Pos} {content : List Nat}
    {attrs : List (String × String)} {ts : Ticket} {vv : Option VV}
    (h : edit fr to content attrs ts vv s = .ok s') : Zero s' := by
  unfold edit at h
  split at h
  · cases h
  · rename_i s1 l1 toRight h1
    split at h
    · cases h
    · rename_i s2 fromLeft fromRight h2
      have z3 := zero_map_keeps (zero_fnws (zero_fnws z h1) h2)
        (keeps_applyTo (keeps_removeNode ts vv) (between s2 fromRight toRight))
      simp only at h
      split at h
      · injection h with h; subst h; exact z3
      · injection h with h; subst h
        intro x hx hz
        rcases mem_insertAfterId_imp hx with rfl | hx
        · rfl
        · exact z3 x hx hz

theorem zero_styleWith {s s' : TextSt} (z : Zero s) {fr to : Pos} {g : List AttrNode → List AttrNode}
    {ts : Ticket} {vv : Option VV} (h : styleWith fr to g ts vv s = .ok s') : Zero s' := by
  unfold styleWith at h
  split at h
  · cases h
  · rename_i s1 l1 toRight h1
    split at h
    · cases h
    · rename_i s2 fromLeft fromRight h2
      injection h with h; subst h
      exact zero_map_keeps (zero_fnws (zero_fnws z h1) h2) (keeps_applyTo (keeps_styleNode ts vv g) _)

theorem zero_styleOp {s s' : TextSt} (z : Zero s) {fr to : Pos} {attrs : List (String × String)}
    {keys : List String} {ts : Ticket} {vv : Option VV}
    (h : styleOp fr to attrs keys ts vv s = .ok s') : Zero s' := by
  unfold styleOp at h
  split at h
  · cases h
  · rename_i s1 h1
    have z1 : Zero s1 := by
      split at h1
      · injection h1 with h1; subst h1; exact z
      · exact zero_styleWith z h1
    split at h
    · injection h with h; subst h; exact z1
    · exact zero_styleWith z1 h

/-! ### `HeadLive`: the head is never a deletion candidate -/

theorem locate_decomp {s : TextSt} {i : Id} {c : TNode} {rest : TextSt} (h : locate s i = some (c, rest)) :
    ∃ A, s = A ++ c :: rest := by
  induction s with
  | nil => cases h
  | cons x r ih =>
    unfold locate at h
    split at h
    · injection h with h; injection h with h1 h2; subst h1; subst h2; exact ⟨[], rfl⟩
    · obtain ⟨A, hA⟩ := ih h; exact ⟨x :: A, by rw [hA]; rfl⟩

theorem skipFrom_snd_mem {ts : Ticket} {cur : TNode} {rest : TextSt} {x : TNode}
    (h : (skipFrom ts cur rest).2 = some x) : x ∈ rest := by
  induction rest generalizing cur with
  | nil => simp [skipFrom] at h
  | cons y r ih =>
    unfold skipFrom at h
    split at h
    · exact List.mem_cons_of_mem _ (ih h)
    · simp only [Option.some.injEq] at h; subst h; simp

/-- the right neighbour `findNodeWithSplit` returns is not the first node of the list -/
theorem fnws_right_not_first {s : TextSt} {pos : Pos} {ts : Ticket} {s1 : TextSt} {l : Id} {r : Option Id}
    (h : findNodeWithSplit s pos ts = .ok (s1, l, r)) :
    ∀ j, r = some j → ∃ A c rest x, s1 = A ++ c :: rest ∧ x ∈ rest ∧ x.id = j := by
  unfold findNodeWithSplit at h
  simp only at h
  split at h
  · cases h
  · split at h
    · cases h
    · split at h
      · cases h
      · split at h
        · cases h
        · rename_i cur rest hloc
          injection h with h
          simp only [Prod.mk.injEq] at h
          obtain ⟨e1, _, e3⟩ := h
          intro j hj
          rw [← e3] at hj
          cases hx : (skipFrom ts cur rest).2 with
          | none => rw [hx] at hj; cases hj
          | some x =>
            rw [hx] at hj
            simp only [Option.map_some, Option.some.injEq] at hj
            obtain ⟨A, hA⟩ := locate_decomp hloc
            exact ⟨A, cur, rest, x, by rw [← e1, hA], skipFrom_snd_mem hx, hj⟩

theorem between_sub {s : TextSt} {x y : Option Id} {i : Id} (h : i ∈ between s x y) :
    ∃ f c rest, x = some f ∧ locate s f = some (c, rest) ∧ i ∈ ids (c :: rest) := by
  unfold between at h
  cases x with
  | none => cases h
  | some f =>
    simp only at h
    cases hl : locate s f with
    | none => rw [hl] at h; cases h
    | some p =>
      obtain ⟨c, rest⟩ := p
      rw [hl] at h
      simp only at h
      obtain ⟨m, hm, rfl⟩ := List.mem_map.1 h
      exact ⟨f, c, rest, rfl, hl, mem_ids ((List.takeWhile_sublist _).subset hm)⟩

/-- the head is not between two right neighbours -/
theorem head_not_between {s2 : TextSt} (nd : (ids s2).Nodup) {hd : TNode} {r : TextSt} (hs : s2 = hd :: r)
    {x y : Option Id}
    (hx : ∀ j, x = some j → ∃ A c rest z, s2 = A ++ c :: rest ∧ z ∈ rest ∧ z.id = j) :
    hd.id ∉ between s2 x y := by
  intro h
  obtain ⟨f, c, rest, e, hl, hin⟩ := between_sub h
  obtain ⟨A, c0, rest0, z, hA, hz, hzid⟩ := hx f e
  -- `f` is the id of a node that is not the first one; so the located suffix lies in the tail
  have hfne : f ≠ hd.id := by
    intro e'
    have hzmem : z ∈ r := by
      have : z ∈ s2 := by rw [hA]; simp [hz]
      rw [hs] at this
      rcases List.mem_cons.1 this with e'' | h'
      · exfalso
        -- z = hd would make hd occur twice in A ++ c :: rest
        rw [hs] at hA
        cases A with
        | nil =>
          simp only [List.nil_append, List.cons.injEq] at hA
          rw [hs, ids_cons, List.nodup_cons] at nd
          exact nd.1 (by rw [← e'', hA.2]; exact mem_ids hz)
        | cons a A' =>
          simp only [List.cons_append, List.cons.injEq] at hA
          rw [hs, ids_cons, List.nodup_cons] at nd
          apply nd.1
          rw [hA.2, ← e'', ids_append]
          exact List.mem_append_right _ (mem_ids (List.mem_cons_of_mem _ hz))
      · exact h'
    rw [hs, ids_cons, List.nodup_cons] at nd
    exact nd.1 (by rw [← e', ← hzid]; exact mem_ids hzmem)
  rw [hs] at hl
  unfold locate at hl
  rw [if_neg (fun e' => hfne e'.symm)] at hl
  obtain ⟨A', hA'⟩ := locate_decomp hl
  rw [hs, ids_cons, List.nodup_cons] at nd
  apply nd.1
  rw [hA', ids_append]
  exact List.mem_append_right _ hin

theorem headLive_fnws {s : TextSt} (wf : WFg s) (hl : HeadLive s) {pos : Pos} {ts : Ticket} {s1 : TextSt}
    {l : Id} {r : Option Id} (h : findNodeWithSplit s pos ts = .ok (s1, l, r)) : HeadLive s1 := by
  rcases fnws_cases h with rfl | ⟨n, hn, k, h0, hk, rfl⟩
  · exact hl
  · obtain ⟨hd, r0, hs, _, _⟩ := wf.head
    intro h' r' hs'
    rw [splitNode_eq h0 hk, hs, List.map_cons] at hs'
    obtain ⟨r'', hr''⟩ := @insertAfterId_head (splitMap n k hd) (r0.map (splitMap n k)) n.id (rightPart n k)
    rw [hr''] at hs'
    injection hs' with e1 _
    rw [← e1, splitMap_removedAt]
    exact hl hd r0 hs

theorem headLive_edit {s s' : TextSt} (wf : WFg s) (hl : HeadLive s) {fr to : Pos} {content : List Nat}
    {attrs : List (String × String)} {ts : Ticket} {vv : Option VV}
    (h : edit fr to content attrs ts vv s = .ok s') : HeadLive s' := by
  unfold edit at h
  split at h
  · cases h
  · rename_i s1 l1 toRight h1
    split at h
    · cases h
    · rename_i s2 fromLeft fromRight h2
      have wf1 := (fnws_wfg wf h1).1
      have wf2 := (fnws_wfg wf1 h2).1
      have hl2 := headLive_fnws wf1 (headLive_fnws wf hl h1) h2
      obtain ⟨hd, r, hs2, _, _⟩ := wf2.head
      have hnot := head_not_between (y := toRight) wf2.nodup hs2 (fnws_right_not_first h2)
      have hl3 : HeadLive (s2.map (applyTo (between s2 fromRight toRight) (removeNode ts vv))) := by
        intro h' r' hs'
        rw [hs2, List.map_cons] at hs'
        injection hs' with e1 _
        rw [← e1, applyTo_not_mem (by rw [← hs2]; exact hnot)]
        exact hl2 hd r hs2
      simp only at h
      split at h
      · injection h with h; subst h; exact hl3
      · injection h with h; subst h
        intro h' r' hs'
        rw [hs2, List.map_cons] at hs'
        obtain ⟨r'', hr''⟩ := @insertAfterId_head
          (applyTo (between (hd :: r) fromRight toRight) (removeNode ts vv) hd)
          (r.map (applyTo (between (hd :: r) fromRight toRight) (removeNode ts vv))) fromLeft
          (newNode ts content attrs)
        rw [hr''] at hs'
        injection hs' with e1 _
        rw [← e1]
        exact hl3 _ _ (by rw [hs2, List.map_cons])

theorem styleNode_removedAt (ts : Ticket) (vv : Option VV) (g : List AttrNode → List AttrNode) (n : TNode) :
    (styleNode ts vv g n).removedAt = n.removedAt := by
  unfold styleNode; split <;> rfl

theorem headLive_styleWith {s s' : TextSt} (wf : WFg s) (hl : HeadLive s) {fr to : Pos}
    {g : List AttrNode → List AttrNode} {ts : Ticket} {vv : Option VV}
    (h : styleWith fr to g ts vv s = .ok s') : HeadLive s' := by
  unfold styleWith at h
  split at h
  · cases h
  · rename_i s1 l1 toRight h1
    split at h
    · cases h
    · rename_i s2 fromLeft fromRight h2
      have wf1 := (fnws_wfg wf h1).1
      have hl2 := headLive_fnws wf1 (headLive_fnws wf hl h1) h2
      injection h with h; subst h
      intro h' r' hs'
      cases hs2 : s2 with
      | nil => rw [hs2] at hs'; cases hs'
      | cons hd r =>
        rw [hs2, List.map_cons] at hs'
        injection hs' with e1 _
        rw [← e1]
        unfold applyTo
        split
        · rw [styleNode_removedAt]; exact hl2 hd r hs2
        · exact hl2 hd r hs2

theorem headLive_styleOp {s s' : TextSt} (wf : WFg s) (hl : HeadLive s) {fr to : Pos}
    {attrs : List (String × String)} {keys : List String} {ts : Ticket} {vv : Option VV}
    (h : styleOp fr to attrs keys ts vv s = .ok s') : HeadLive s' := by
  unfold styleOp at h
  split at h
  · cases h
  · rename_i s1 h1
    have w1 : WFg s1 ∧ HeadLive s1 := by
      split at h1
      · injection h1 with h1; subst h1; exact ⟨wf, hl⟩
      · exact ⟨wfg_styleWith wf h1, headLive_styleWith wf hl h1⟩
    split at h
    · injection h with h; subst h; exact w1.2
    · exact headLive_styleWith w1.1 w1.2 h

/-- **every operation keeps the GC invariant** -/
theorem gcInv_exec {s s' : TextSt} (inv : GcInv s) {o : TOp} (hfresh : Fresh s o.ts)
    (hfix : ∀ content attrs, o.body = .edit content attrs → Fixed content) (h : exec o s = .ok s') :
    GcInv s' := by
  unfold exec at h
  cases hb : o.body with
  | edit content attrs =>
    rw [hb] at h
    exact ⟨wfg_edit inv.wf hfresh (hfix content attrs hb) h, zero_edit inv.zero h,
      headLive_edit inv.wf inv.headLive h⟩
  | style attrs keys =>
    rw [hb] at h
    exact ⟨wfg_styleOp inv.wf h, zero_styleOp inv.zero h, headLive_styleOp inv.wf inv.headLive h⟩

theorem gcInv_init : GcInv Text.init := by
  refine ⟨wf_init.toG, ?_, ?_⟩
  · intro m hm _; simp [Text.init] at hm; subst hm; rfl
  · intro h r hs; simp [Text.init] at hs; rw [← hs.1]; rfl

/-! ### (c) the lockstep lift -/

/-- joint reachability: `d` abstract state of the GC-off replica `t`; `g` the GC replica; `keep` what has
    not been erased so far.  An operation step requires the operation to be enabled on the GC-off side
    and the two side conditions of `op_safe` (`SafeRun`); a GC step is unconditional (ANY vector). -/
inductive Lock : TState → TextSt → TextSt → (Id → Bool) → Prop
  | init : Lock TState.init Text.init Text.init (fun _ => true)
  | op {d : TState} {t g : TextSt} {keep : Id → Bool} (o : TOp) (t' g' : TextSt) :
      Lock d t g keep → Pre d o →
      (∀ i, anchorOf o.fr = some i ∨ anchorOf o.to = some i → keep i = true) →
      (o.aop.X = [] ∨ SafeSkip o.ts keep (dropAfterO (anchorOf o.fr) (cids (abs t)))) →
      exec o t = .ok t' → exec o g = .ok g' → Lock (tapply d o) t' g' keep
  | gc {d : TState} {t g : TextSt} {keep : Id → Bool} (vv : VV) :
      Lock d t g keep → Lock d t (purge vv g) (fun i => keep i && keepOf vv g i)

theorem fkeep_fkeep (k1 k2 : Id → Bool) (l : Cells) :
    fkeep k2 (fkeep k1 l) = fkeep (fun i => k1 i && k2 i) l := by
  unfold fkeep; rw [List.filter_filter]
  apply List.filter_congr; intro c _; exact Bool.and_comm _ _

theorem liveUnits_fkeep {keep : Id → Bool} {l : Cells} (h : ∀ c ∈ l, keep c.id = false → c.removed = true) :
    liveUnits (fkeep keep l) = liveUnits l := by
  unfold liveUnits fkeep
  rw [List.filter_filter]
  congr 1
  apply List.filter_congr
  intro c hc
  cases hk : keep c.id with
  | true => simp
  | false => rw [h c hc hk]; simp

/-- the invariant of the joint run -/
theorem lock_inv {d : TState} {t g : TextSt} {keep : Id → Bool} (h : Lock d t g keep) :
    GcInv t ∧ GcInv g ∧ abs t = d.cells ∧ abs g = fkeep keep (abs t) ∧ Erasure keep (abs t) := by
  induction h with
  | init => exact ⟨gcInv_init, gcInv_init, rfl, rfl, erasure_all _⟩
  | @op d t g keep o t' g' _ hp hanch hsafe e1 e2 ih =>
    obtain ⟨it, ig, hd, hg, er⟩ := ih
    obtain ⟨t'', g'', h1, h2, _, _, a1, a2, er'⟩ := op_safe it.wf ig.wf hd hg er hp hanch hsafe
    rw [e1] at h1; injection h1 with h1; subst h1
    rw [e2] at h2; injection h2 with h2; subst h2
    have hfix := hp.2.2.2.2.2.2.2.2.2.2.2.1
    have hfresh := (pre_facts it.wf hd hp).2.2.1
    have hdg : abs g = (gcState d keep).cells := by rw [hg, hd]; rfl
    have hfreshg := (pre_facts ig.wf hdg (pre_gcState hp hanch)).2.2.1
    exact ⟨gcInv_exec it hfresh hfix e1, gcInv_exec ig hfreshg hfix e2, a1, a2, er'⟩
  | @gc d t g keep vv _ ih =>
    obtain ⟨it, ig, hd, hg, er⟩ := ih
    refine ⟨it, gcInv_purge ig vv, hd, ?_, ?_⟩
    · rw [purge_abs_keep ig.wf, hg, fkeep_fkeep]
    · have eg := erasure_keepOf ig.wf vv
      have sub : ∀ c, c ∈ abs g → c ∈ abs t ∧ keep c.id = true := by
        intro c hc; rw [hg] at hc; exact List.mem_filter.1 hc
      have inG : ∀ c ∈ abs t, keep c.id = true → c ∈ abs g := by
        intro c hc hk; rw [hg]; exact List.mem_filter.2 ⟨hc, hk⟩
      refine ⟨?_, ?_, ?_⟩
      · intro i hi
        simp only [Bool.and_eq_false_iff] at hi
        rcases hi with hi | hi
        · exact er.exists_ i hi
        · obtain ⟨c, hc, e⟩ := List.mem_map.1 (eg.exists_ i hi)
          exact List.mem_map.2 ⟨c, (sub c hc).1, e⟩
      · intro c hc hk
        simp only [Bool.and_eq_false_iff] at hk
        rcases hk with hk | hk
        · exact er.dead c hc hk
        · cases hk1 : keep c.id with
          | false => exact er.dead c hc hk1
          | true => exact eg.dead c (inG c hc hk1) hk
      · intro i hi c hc e hb
        simp only [Bool.and_eq_true] at hi ⊢
        have k1 := er.closed i hi.1 c hc e hb
        exact ⟨k1, eg.closed i hi.2 c (inG c hc k1) e hb⟩

/-- **(c) GC-on = GC-off, lockstep form**: after any stream of operations with purges (any vectors) in
    between, satisfying the side conditions of `op_safe` at every operation, the GC replica is the
    GC-off replica with tombstone cells erased; the live content is the same -/
theorem gc_lockstep {d : TState} {t g : TextSt} {keep : Id → Bool} (h : Lock d t g keep) :
    abs g = fkeep keep (abs t) ∧ (∀ c ∈ abs t, keep c.id = false → c.removed = true) ∧
      visible g = visible t := by
  obtain ⟨_, _, _, hg, er⟩ := lock_inv h
  refine ⟨hg, er.dead, ?_⟩
  rw [visible_eq_liveUnits, visible_eq_liveUnits, hg, liveUnits_fkeep er.dead]

/-- **(c) no call fails**: an operation that is enabled on the GC-off replica and meets the side
    conditions executes successfully on both replicas -/
theorem gc_lockstep_progress {d : TState} {t g : TextSt} {keep : Id → Bool} (h : Lock d t g keep)
    {o : TOp} (hp : Pre d o)
    (hanch : ∀ i, anchorOf o.fr = some i ∨ anchorOf o.to = some i → keep i = true)
    (hsafe : o.aop.X = [] ∨ SafeSkip o.ts keep (dropAfterO (anchorOf o.fr) (cids (abs t)))) :
    ∃ t' g', exec o t = .ok t' ∧ exec o g = .ok g' ∧ Lock (tapply d o) t' g' keep := by
  obtain ⟨it, ig, hd, hg, er⟩ := lock_inv h
  obtain ⟨t', g', h1, h2, _⟩ := op_safe it.wf ig.wf hd hg er hp hanch hsafe
  exact ⟨t', g', h1, h2, Lock.op o t' g' h hp hanch hsafe h1 h2⟩

end Yorkie.TextConv
