/-
Lemmas for C14, part 35: values with TOMBSTONES inside.  `TreeBelowT` is `TreeBelow` without the demand
that every child is live: a removed child is kept by the copy as a tombstone without content
(`emptied`), a live child is copied with what lies below it.  `capture` followed by `instantiate` then
writes back the live entries as they are and the removed ones without content.
-/
import YorkieModel.Lemmas.UndoArray21
namespace Yorkie.Undo
open Yorkie Yorkie.Crdt

/-- what a copy keeps of a removed child -/
def tomb (e : Elem) : Elem := { e with body := emptied e.body }

def tombIf (e : Elem) : Elem := if e.removed then tomb e else e

theorem emptied_idem (b : Body) : emptied (emptied b) = emptied b := by
  cases b <;> rfl

theorem leafBody_emptied (b : Body) : leafBody (emptied b) = leafBody b := by
  cases b <;> rfl

theorem tombIf_removed (e : Elem) : (tombIf e).removed = e.removed := by
  unfold tombIf tomb; split <;> rfl

theorem tombIf_parent (e : Elem) : (tombIf e).parent = e.parent := by
  unfold tombIf tomb; split <;> rfl

theorem tombIf_live {e : Elem} (h : e.removed = false) : tombIf e = e := by
  simp [tombIf, h]

theorem leafBody_tombIf (e : Elem) : leafBody (tombIf e).body = leafBody e.body := by
  unfold tombIf tomb; split
  · exact leafBody_emptied _
  · rfl

/-- below `self` there is a tree of elements of depth at most the fuel: every child exists and hangs
    below the container it is reached through, every array is reproduced by `Array.DeepCopy`; below a
    REMOVED child nothing is asked -/
def TreeBelowT (look : Ticket → Option Elem) : Nat → Ticket → Body → Prop
  | 0, _, b => leafBody b = true
  | f + 1, self, .obj keys member => ∀ k ∈ keys, ∀ c, memberChild member k = some c →
      ∃ ce, look c = some ce ∧ ce.parent = some self ∧ (ce.removed = false → TreeBelowT look f c ce.body)
  | f + 1, self, .arr nodes moved => arrCopy nodes moved = nodes ∧ ∀ n ∈ nodes, ∀ c, n.elem = some c →
      ∃ ce, look c = some ce ∧ ce.parent = some self ∧ (ce.removed = false → TreeBelowT look f c ce.body)
  | _ + 1, _, _ => True

theorem TreeBelowT.of_tree {look : Ticket → Option Elem} : ∀ (f : Nat) (self : Ticket) (b : Body),
    TreeBelow look f self b → TreeBelowT look f self b
  | 0, _, _, h => h
  | f + 1, self, b, h => by
    cases b with
    | prim r => trivial
    | «opaque» r => trivial
    | counter l v => trivial
    | obj keys member =>
      intro k hk c hc
      obtain ⟨ce, hl, _, hp, htc⟩ := h k hk c hc
      exact ⟨ce, hl, hp, fun _ => TreeBelowT.of_tree f c ce.body htc⟩
    | arr nodes moved =>
      refine ⟨h.1, fun n hn c hc => ?_⟩
      obtain ⟨ce, hl, _, hp, htc⟩ := h.2 n hn c hc
      exact ⟨ce, hl, hp, fun _ => TreeBelowT.of_tree f c ce.body htc⟩

theorem copyChild_dead {look : Ticket → Option Elem} {rec : Ticket → Body → Body × List (Ticket × Elem)}
    {self c : Ticket} {ce : Elem} (hl : look c = some ce) (hr : ce.removed = true) (hp : ce.parent = some self) :
    copyChild look rec self (some c) = [(c, tomb ce)] := by
  have hce : ({ ce with parent := some self, body := emptied ce.body } : Elem) = tomb ce := by
    unfold tomb; cases ce; simp_all
  unfold copyChild
  simp only [hl, hr, if_true]
  rw [← hce, hr]

/-- the deep copy of such a tree: the body is unchanged; a live entry is copied as it is, a removed one
    without content -/
theorem copyBodyT_tree {look : Ticket → Option Elem} : ∀ (f : Nat) (self : Ticket) (b : Body),
    TreeBelowT look f self b →
    (copyBody look f self b).1 = b ∧
      ∀ x ∈ (copyBody look f self b).2, ∃ e, look x.1 = some e ∧ x.2 = tombIf e
  | 0, _, _, _ => ⟨rfl, fun _ hx => by simp [copyBody] at hx⟩
  | f + 1, self, b, ht => by
    have child : ∀ (c : Ticket) (ce : Elem), look c = some ce → ce.parent = some self →
        (ce.removed = false → TreeBelowT look f c ce.body) →
        ∀ x ∈ copyChild look (copyBody look f) self (some c), ∃ e, look x.1 = some e ∧ x.2 = tombIf e := by
      intro c ce hl hp htc x hx
      cases hr : ce.removed with
      | true =>
        rw [copyChild_dead hl hr hp] at hx
        simp only [List.mem_singleton] at hx
        subst hx
        exact ⟨ce, hl, by simp [tombIf, hr]⟩
      | false =>
        have ih := copyBodyT_tree f c ce.body (htc hr)
        rw [copyChild_exact hl hr hp ih.1] at hx
        simp only [List.mem_cons] at hx
        rcases hx with rfl | hx
        · exact ⟨ce, hl, (tombIf_live hr).symm⟩
        · exact ih.2 x hx
    cases b with
    | prim r => exact ⟨rfl, fun _ hx => by simp [copyBody] at hx⟩
    | «opaque» r => exact ⟨rfl, fun _ hx => by simp [copyBody] at hx⟩
    | counter l v => exact ⟨rfl, fun _ hx => by simp [copyBody] at hx⟩
    | obj keys member =>
      refine ⟨rfl, fun x hx => ?_⟩
      simp only [copyBody, List.mem_flatMap] at hx
      obtain ⟨k, hk, hx⟩ := hx
      cases hm : memberChild member k with
      | none => simp [hm, copyChild] at hx
      | some c =>
        obtain ⟨ce, hl, hp, htc⟩ := ht k hk c hm
        rw [hm] at hx
        exact child c ce hl hp htc x hx
    | arr nodes moved =>
      refine ⟨by simp only [copyBody, ht.1], fun x hx => ?_⟩
      simp only [copyBody, List.mem_flatMap] at hx
      obtain ⟨n, hn, hx⟩ := hx
      cases hm : n.elem with
      | none => simp [hm, copyChild] at hx
      | some c =>
        obtain ⟨ce, hl, hp, htc⟩ := ht.2 n hn c hm
        rw [hm] at hx
        exact child c ce hl hp htc x hx

/-- copying again from any duplicate-free list that contains the first copy gives the first copy -/
theorem copyBodyT_relook {look : Ticket → Option Elem} {M : List (Ticket × Elem)} (hM : (M.map (·.1)).Nodup) :
    ∀ (f : Nat) (self : Ticket) (b : Body), TreeBelowT look f self b →
    (∀ x ∈ (copyBody look f self b).2, x ∈ M) → copyBody (lookupSub M) f self b = copyBody look f self b
  | 0, _, _, _, _ => rfl
  | f + 1, self, b, ht, hsub => by
    have child : ∀ (c : Ticket) (ce : Elem), look c = some ce → ce.parent = some self →
        (ce.removed = false → TreeBelowT look f c ce.body) →
        (∀ x ∈ copyChild look (copyBody look f) self (some c), x ∈ M) →
        copyChild (lookupSub M) (copyBody (lookupSub M) f) self (some c) =
          copyChild look (copyBody look f) self (some c) := by
      intro c ce hl hp htc hin
      cases hr : ce.removed with
      | true =>
        rw [copyChild_dead hl hr hp] at hin ⊢
        have hl2 : lookupSub M c = some (tomb ce) := lookupSub_of_mem hM (hin _ (by simp))
        rw [copyChild_dead hl2 (by simp [tomb, hr]) (by simp [tomb, hp])]
        simp [tomb, emptied_idem]
      | false =>
        have ih1 := copyBodyT_tree f c ce.body (htc hr)
        rw [copyChild_exact hl hr hp ih1.1] at hin ⊢
        have ih := copyBodyT_relook hM f c ce.body (htc hr) (fun x hx => hin x (List.mem_cons_of_mem _ hx))
        have hl2 : lookupSub M c = some ce := lookupSub_of_mem hM (hin _ (by simp))
        rw [copyChild_exact hl2 hr hp (by rw [ih]; exact ih1.1), ih]
    cases b with
    | prim r => rfl
    | «opaque» r => rfl
    | counter l v => rfl
    | obj keys member =>
      simp only [copyBody, Prod.mk.injEq, true_and]
      apply flatMap_congr'
      intro k hk
      cases hm : memberChild member k with
      | none => rfl
      | some c =>
        obtain ⟨ce, hl, hp, htc⟩ := ht k hk c hm
        apply child c ce hl hp htc
        intro x hx
        apply hsub
        simp only [copyBody, List.mem_flatMap]
        exact ⟨k, hk, by rw [hm]; exact hx⟩
    | arr nodes moved =>
      simp only [copyBody, Prod.mk.injEq, true_and]
      apply flatMap_congr'
      intro n hn
      cases hm : n.elem with
      | none => rfl
      | some c =>
        obtain ⟨ce, hl, hp, htc⟩ := ht.2 n hn c hm
        apply child c ce hl hp htc
        intro x hx
        apply hsub
        simp only [copyBody, List.mem_flatMap]
        exact ⟨n, hn, by rw [hm]; exact hx⟩

/-! ### a decidable check (for concrete heaps) -/

def treeChildTB (look : Ticket → Option Elem) (rec : Ticket → Body → Bool) (self : Ticket) (o : Option Ticket) : Bool :=
  match o with
  | none => true
  | some c =>
    match look c with
    | some ce => ce.parent == some self && (ce.removed || rec c ce.body)
    | none => false

def treeBelowTB (look : Ticket → Option Elem) : Nat → Ticket → Body → Bool
  | 0, _, b => leafBody b
  | f + 1, self, .obj keys member =>
    keys.all (fun k => treeChildTB look (treeBelowTB look f) self (memberChild member k))
  | f + 1, self, .arr nodes moved =>
    (arrCopy nodes moved == nodes) && nodes.all (fun n => treeChildTB look (treeBelowTB look f) self n.elem)
  | _ + 1, _, _ => true

theorem treeBelowTB_sound {look : Ticket → Option Elem} : ∀ (f : Nat) (self : Ticket) (b : Body),
    treeBelowTB look f self b = true → TreeBelowT look f self b
  | 0, _, _, h => h
  | f + 1, self, b, h => by
    have child : ∀ (o : Option Ticket) (c : Ticket), treeChildTB look (treeBelowTB look f) self o = true → o = some c →
        ∃ ce, look c = some ce ∧ ce.parent = some self ∧ (ce.removed = false → TreeBelowT look f c ce.body) := by
      intro o c ho hoc
      subst hoc
      unfold treeChildTB at ho
      cases hl : look c with
      | none => simp [hl] at ho
      | some ce =>
        simp only [hl, Bool.and_eq_true, beq_iff_eq, Bool.or_eq_true] at ho
        refine ⟨ce, rfl, ho.1, fun hr => ?_⟩
        rcases ho.2 with h1 | h1
        · rw [hr] at h1; cases h1
        · exact treeBelowTB_sound f c ce.body h1
    cases b with
    | prim r => trivial
    | «opaque» r => trivial
    | counter l v => trivial
    | obj keys member =>
      simp only [treeBelowTB, List.all_eq_true] at h
      intro k hk c hc
      exact child _ c (h k hk) hc
    | arr nodes moved =>
      simp only [treeBelowTB, Bool.and_eq_true, beq_iff_eq, List.all_eq_true] at h
      exact ⟨h.1, fun n hn c hc => child _ c (h.2 n hn) hc⟩

/-! ### writing the copy back -/

/-- the heap in which every removed entry has lost its content -/
def tombed (X : Doc) : Doc := fun t => (X t).map tombIf

section
variable {d : Doc} {u : Ticket} {ue : Elem}

theorem copy2_capturedT (tree : TreeBelowT d copyFuel u ue.body)
    (hnd : ((copyBody d copyFuel u ue.body).2.map (·.1)).Nodup) :
    copy2 (captured d u ue) = copyBody d copyFuel u ue.body := by
  obtain ⟨hb1, _⟩ := copyBodyT_tree copyFuel u ue.body tree
  unfold copy2 captured
  simp only [hb1]
  exact copyBodyT_relook hnd copyFuel u ue.body tree (fun _ hx => hx)

theorem writtenT_iff (tree : TreeBelowT d copyFuel u ue.body)
    (hnd : ((copyBody d copyFuel u ue.body).2.map (·.1)).Nodup) (t : Ticket) :
    written (captured d u ue) t = true ↔ t = u ∨ t ∈ (copyBody d copyFuel u ue.body).2.map (·.1) := by
  have hid : (captured d u ue).id = u := rfl
  simp only [written, copy2_capturedT tree hnd, hid, Bool.or_eq_true, beq_iff_eq, lookupSub_isSome]

/-- the copy of such a tree, written over any heap: the written entries are those of `d`, the removed
    ones without content -/
theorem instantiate_treeT_base {p : Ticket} (hu : d u = some ue) (hur : ue.removed = false)
    (hup : ue.parent = some p) (tree : TreeBelowT d copyFuel u ue.body)
    (hnd : ((copyBody d copyFuel u ue.body).2.map (·.1)).Nodup) (dB : Doc) (t : Ticket) :
    instantiate dB p (captured d u ue) false t =
      if written (captured d u ue) t = true then tombed d t else dB t := by
  obtain ⟨hb1, hent⟩ := copyBodyT_tree copyFuel u ue.body tree
  have hc2 := copy2_capturedT tree hnd
  have hid : (captured d u ue).id = u := rfl
  cases hw : written (captured d u ue) t with
  | false => simp only [Bool.false_eq_true, if_false]; exact instantiate_not_written hw
  | true =>
    simp only [if_true]
    rw [instantiate_apply, hc2, hid]
    by_cases h1 : t = u
    · subst h1
      simp only [if_true, hb1, tombed, hu, Option.map_some, Option.some.injEq, tombIf_live hur]
      cases ue; simp_all
    · simp only [h1, if_false]
      cases hl : lookupSub (copyBody d copyFuel u ue.body).2 t with
      | none =>
        simp only [written, hc2, hid, Bool.or_eq_true, beq_iff_eq, h1, false_or, hl] at hw
        cases hw
      | some e =>
        simp only []
        obtain ⟨e0, he0, hee⟩ := hent _ (lookupSub_mem hl)
        simp only [] at he0 hee
        rw [tombed, he0, hee]; rfl

end

/-! ### the heap without the content of removed entries -/

section tombedFacts
variable {H : Home} {X : Doc}

theorem tombed_some {t : Ticket} {e' : Elem} (h : tombed X t = some e') :
    ∃ e, X t = some e ∧ e' = tombIf e := by
  unfold tombed at h
  cases hx : X t with
  | none => simp [hx] at h
  | some e => simp only [hx, Option.map_some, Option.some.injEq] at h; exact ⟨e, rfl, h.symm⟩

theorem tombed_live_entry {t : Ticket} {e' : Elem} (h : tombed X t = some e') (hr : e'.removed = false) :
    X t = some e' := by
  obtain ⟨e, hx, rfl⟩ := tombed_some h
  rw [tombIf_removed] at hr
  rw [hx, tombIf_live hr]

theorem live_tombed (t : Ticket) : live (tombed X) t = live X t := by
  unfold live tombed
  cases X t with
  | none => rfl
  | some e => simp only [Option.map_some, tombIf_removed]

theorem skel_tombed (t : Ticket) : skel (tombed X) t = skel X t := by
  unfold skel tombed
  cases X t with
  | none => rfl
  | some e => simp only [Option.map_some, tombIf_removed, leafBody_tombIf]

theorem absNode_tombed : absNode (tombed X) = absNode X := by
  funext t
  unfold absNode
  cases hx : X t with
  | none => simp [tombed, hx]
  | some e =>
    simp only [tombed, hx, Option.map_some, tombIf_removed]
    cases hr : e.removed with
    | true => rfl
    | false =>
      simp only [Bool.false_eq_true, if_false, tombIf_live hr]
      congr 1
      exact absBody_congr (fun _ _ _ _ _ _ => (live_tombed _).symm ▸ rfl)
        (fun _ _ _ _ _ _ _ => (live_tombed _).symm ▸ rfl) |>.symm

theorem WF_tombed (w : WF H X) : WF H (tombed X) := by
  have hcont : ∀ q, isContainer (tombed X) q = isContainer X q := isContainer_of_skel skel_tombed
  constructor
  · intro t e' h
    obtain ⟨e, hx, rfl⟩ := tombed_some h
    rw [tombIf_parent]; exact w.par _ _ hx
  · intro t e' q h hq
    obtain ⟨e, hx, rfl⟩ := tombed_some h
    rw [hcont]; exact w.parCont _ _ _ hx hq
  · intro q qe keys m h hb
    obtain ⟨e, hx, rfl⟩ := tombed_some h
    unfold tombIf at hb
    split at hb
    · unfold tomb at hb
      simp only at hb
      cases hbe : e.body <;> simp [hbe, emptied, emptyObj] at hb
      obtain ⟨rfl, _⟩ := hb
      exact List.Pairwise.nil
    · exact w.objSorted _ _ _ _ hx hb
  · intro q qe keys m k mm h hr hb hm
    exact w.objMem _ _ _ _ _ _ (tombed_live_entry h hr) hr hb hm
  · intro q qe nodes mv n c h hr hb hn hc
    exact w.arrMem _ _ _ _ _ _ (tombed_live_entry h hr) hr hb hn hc

theorem Bounded_tombed {L : Int} (bd : Bounded X L) : Bounded (tombed X) L := by
  have hbody : ∀ t e', tombed X t = some e' → ∃ e, X t = some e ∧ (e'.body = e.body ∨ e'.body = emptied e.body) := by
    intro t e' h
    obtain ⟨e, hx, rfl⟩ := tombed_some h
    refine ⟨e, hx, ?_⟩
    unfold tombIf tomb; split
    · exact Or.inr rfl
    · exact Or.inl rfl
  constructor
  · intro t e' h
    obtain ⟨e, hx, _⟩ := tombed_some h
    exact bd.ent _ _ hx
  · intro q qe keys m k mm h hb hm
    obtain ⟨e, hx, hbe | hbe⟩ := hbody q qe h
    · exact bd.pos _ _ _ _ _ _ hx (hbe ▸ hb) hm
    · rw [hbe] at hb
      cases hb2 : e.body <;> simp [hb2, emptied, emptyObj] at hb
      obtain ⟨_, rfl⟩ := hb
      cases hm
  · intro q qe keys m k mm h hb hm
    obtain ⟨e, hx, hbe | hbe⟩ := hbody q qe h
    · exact bd.child _ _ _ _ _ _ hx (hbe ▸ hb) hm
    · rw [hbe] at hb
      cases hb2 : e.body <;> simp [hb2, emptied, emptyObj] at hb
      obtain ⟨_, rfl⟩ := hb
      cases hm
  · intro q qe nodes mv n c h hb hn hc
    obtain ⟨e, hx, hbe | hbe⟩ := hbody q qe h
    · exact bd.elem _ _ _ _ _ _ hx (hbe ▸ hb) hn hc
    · rw [hbe] at hb
      cases hb2 : e.body <;> simp [hb2, emptied, emptyObj] at hb
      obtain ⟨rfl, _⟩ := hb
      cases hn

end tombedFacts

end Yorkie.Undo
