/-
Text undo/redo: on a TILED span the restore / retombstone loops are plain maps that flip
`removedAt` of whole blocks - no split happens, no gap is hit, no node id changes.
Core Lean only.
-/
import YorkieModel.Lemmas.TextUndoDefs
namespace Yorkie.TextUndo
open Yorkie Yorkie.Text

/-! ### basic facts -/

theorem covers_iff {ca : Ticket} {c : Nat} {n : TNode} :
    covers ca c n = true ↔ n.id.1 = ca ∧ n.id.2 ≤ c ∧ c < n.id.2 + n.len := by
  simp [covers, and_assoc]

theorem inSpan_iff {sp : Span} {n : TNode} :
    inSpan sp n = true ↔ n.id.1 = sp.ca ∧ sp.start ≤ n.id.2 ∧ n.id.2 < sp.stop ∧ 0 < n.len := by
  simp [inSpan, and_assoc]

theorem inSpan_congr {sp : Span} {a b : TNode} (h1 : a.id = b.id) (h2 : a.len = b.len) :
    inSpan sp a = inSpan sp b := by
  unfold inSpan; rw [h1, h2]

theorem covers_congr {ca : Ticket} {c : Nat} {a b : TNode} (h1 : a.id = b.id) (h2 : a.len = b.len) :
    covers ca c a = covers ca c b := by
  unfold covers; rw [h1, h2]

theorem any_congr_mem {α : Type} {l : List α} {f g : α → Bool} (h : ∀ a ∈ l, f a = g a) :
    l.any f = l.any g := by
  induction l with
  | nil => rfl
  | cons a r ih =>
    simp only [List.any_cons]
    rw [h a (by simp), ih (fun b hb => h b (List.mem_cons_of_mem _ hb))]

theorem keeps_len {f : TNode → TNode} (hf : Text.KeepsShape f) (n : TNode) : (f n).len = n.len := by
  simp [TNode.len, (hf n).2.1]

/-! ### maps that only flip `removedAt` -/

theorem keeps_setRemoved (i : Id) (r : Option Ticket) : Text.KeepsShape (setRemoved i r) := by
  intro n; unfold setRemoved; split <;> exact ⟨rfl, rfl, rfl⟩

theorem keeps_revive (sp : Span) : Text.KeepsShape (revive sp) := by
  intro n; unfold revive; split <;> exact ⟨rfl, rfl, rfl⟩

theorem keeps_kill (ts : Ticket) (sp : Span) : Text.KeepsShape (kill ts sp) := by
  intro n; unfold kill; split <;> exact ⟨rfl, rfl, rfl⟩

theorem tiled_map_keeps_r {f : TNode → TNode} (hf : Text.KeepsShape f) {s : TextSt} {sp : Span}
    (t : Tiled s sp) : Tiled (s.map f) sp := by
  refine ⟨?_, ?_⟩
  · intro x hx
    obtain ⟨n, hn, rfl⟩ := List.mem_map.mp hx
    rw [(hf n).1, keeps_len hf]
    exact t.inside n hn
  · intro c h1 h2
    obtain ⟨n, hn, hc⟩ := t.cover c h1 h2
    exact ⟨f n, List.mem_map.mpr ⟨n, hn, rfl⟩, by rw [covers_congr (hf n).1 (keeps_len hf n)]; exact hc⟩

/-- the part of `WF` the loops rely on -/
structure Shape (s : TextSt) : Prop where
  nodup : (ids s).Nodup
  disjoint : ∀ n ∈ s, ∀ m ∈ s, n.id.1 = m.id.1 → n.id.2 < m.id.2 → n.id.2 + n.len ≤ m.id.2

theorem shape_of_wf {s : TextSt} (wf : WF s) : Shape s := ⟨wf.nodup, wf.disjoint⟩

theorem shape_map_keeps {f : TNode → TNode} (hf : Text.KeepsShape f) {s : TextSt} (sh : Shape s) :
    Shape (s.map f) := by
  refine ⟨?_, ?_⟩
  · rw [ids_map_keeps hf]; exact sh.nodup
  · intro a' ha' b' hb'
    obtain ⟨a, ha, rfl⟩ := List.mem_map.mp ha'
    obtain ⟨b, hb, rfl⟩ := List.mem_map.mp hb'
    rw [(hf a).1, (hf b).1, keeps_len hf]; exact sh.disjoint a ha b hb

/-- no block of the insertion strictly straddles the cursor -/
def NoStraddle (s : TextSt) (sp : Span) (cur : Nat) : Prop :=
  ∀ n ∈ s, n.id.1 = sp.ca → n.id.2 < cur → cur < n.id.2 + n.len → False

theorem noStraddle_map_keeps {f : TNode → TNode} (hf : Text.KeepsShape f) {s : TextSt} {sp : Span}
    {cur : Nat} (h : NoStraddle s sp cur) : NoStraddle (s.map f) sp cur := by
  intro x hx
  obtain ⟨n, hn, rfl⟩ := List.mem_map.mp hx
  rw [(hf n).1, keeps_len hf]
  exact h n hn

theorem noStraddle_start {s : TextSt} {sp : Span} (t : Tiled s sp) (h : sp.start < sp.stop) :
    NoStraddle s sp sp.start := by
  intro n hn h1 h2 h3
  have := t.inside n hn h1 (by omega) h3
  omega

/-- the end of a block of the insertion is a cursor nothing straddles -/
theorem noStraddle_end {s : TextSt} {sp : Span} (sh : Shape s) {piece : TNode} (hp : piece ∈ s)
    (hca : piece.id.1 = sp.ca) : NoStraddle s sp (piece.id.2 + piece.len) := by
  intro n hn h1 h2 h3
  have e : n.id.1 = piece.id.1 := by rw [h1, hca]
  by_cases hlt : n.id.2 < piece.id.2
  · have := sh.disjoint n hn piece hp e hlt; omega
  · by_cases heq : n.id.2 = piece.id.2
    · have : n = piece := eq_of_id_eq sh.nodup hn hp (Prod.ext e heq)
      subst this; omega
    · have := sh.disjoint piece hp n hn e.symm (by omega); omega

/-! ### 1. `isolate` on a whole block -/

theorem isolate_exact_nodup {s : TextSt} {piece : TNode} (nd : (ids s).Nodup) (hp : piece ∈ s) :
    isolate s piece piece.id.2 (piece.id.2 + piece.len) = (s, piece.id) := by
  unfold isolate
  simp only [Nat.lt_irrefl, if_false, findById_of_mem nd hp]

theorem isolate_exact {s : TextSt} {piece : TNode} (wf : WF s) (hp : piece ∈ s) :
    isolate s piece piece.id.2 (piece.id.2 + piece.len) = (s, piece.id) :=
  isolate_exact_nodup wf.nodup hp

/-! ### the piece under the cursor -/

theorem covering_tiled {s : TextSt} {sp : Span} {cur : Nat} (t : Tiled s sp) (h1 : sp.start ≤ cur)
    (h2 : cur < sp.stop) (hns : NoStraddle s sp cur) :
    ∃ piece, covering s sp.ca cur = some piece ∧ piece ∈ s ∧ piece.id.1 = sp.ca ∧ piece.id.2 = cur ∧
      0 < piece.len ∧ piece.id.2 + piece.len ≤ sp.stop := by
  obtain ⟨n, hn, hc⟩ := t.cover cur h1 h2
  cases hf : covering s sp.ca cur with
  | none =>
    unfold covering at hf
    have := List.find?_eq_none.mp hf n hn
    exact absurd hc this
  | some piece =>
    unfold covering at hf
    have hp : piece ∈ s := List.mem_of_find?_eq_some hf
    have hcv := covers_iff.mp (List.find?_some hf)
    have heq : piece.id.2 = cur := by
      by_cases h : piece.id.2 < cur
      · exact absurd (hns piece hp hcv.1 h hcv.2.2) id
      · omega
    have := t.inside piece hp hcv.1 (by omega) (by omega)
    exact ⟨piece, rfl, hp, hcv.1, heq, by omega, this.2⟩

/-- blocks other than the piece under the cursor: starting at the cursor or after the piece is the same -/
theorem from_step {s : TextSt} {sp : Span} (sh : Shape s) {piece : TNode} (hp : piece ∈ s)
    (hca : piece.id.1 = sp.ca) {n : TNode} (hn : n ∈ s) (hne : n.id ≠ piece.id) :
    (inSpan sp n && decide (piece.id.2 ≤ n.id.2)) =
      (inSpan sp n && decide (piece.id.2 + piece.len ≤ n.id.2)) := by
  cases hin : inSpan sp n with
  | false => rfl
  | true =>
    have e : piece.id.1 = n.id.1 := by rw [hca, (inSpan_iff.mp hin).1]
    simp only [Bool.true_and, decide_eq_decide]
    constructor
    · intro h
      have hlt : piece.id.2 < n.id.2 := by
        rcases Nat.lt_or_eq_of_le h with h | h
        · exact h
        · exact absurd (Prod.ext e.symm h.symm) hne
      exact sh.disjoint piece hp n hn e hlt
    · intro h; omega

theorem from_past {sp : Span} {cur : Nat} (h : sp.stop ≤ cur) (n : TNode) :
    (inSpan sp n && decide (cur ≤ n.id.2)) = false := by
  cases hin : inSpan sp n with
  | false => rfl
  | true =>
    have := (inSpan_iff.mp hin).2.2.1
    simp only [Bool.true_and, decide_eq_false_iff_not]; omega

theorem from_self {sp : Span} {piece : TNode} (hca : piece.id.1 = sp.ca) (h1 : sp.start ≤ piece.id.2)
    (h2 : piece.id.2 < sp.stop) (h3 : 0 < piece.len) :
    (inSpan sp piece && decide (piece.id.2 ≤ piece.id.2)) = true := by
  rw [inSpan_iff.mpr ⟨hca, h1, h2, h3⟩]; simp

/-! ### 2. restore -/

/-- what the restore loop started at cursor `cur` does to one block -/
def reviveFrom (sp : Span) (cur : Nat) (n : TNode) : TNode :=
  if inSpan sp n && decide (cur ≤ n.id.2) then { n with removedAt := none } else n

def deadFrom (sp : Span) (cur : Nat) (n : TNode) : Bool :=
  inSpan sp n && decide (cur ≤ n.id.2) && !n.live

theorem live_eta {n : TNode} (h : n.live = true) : { n with removedAt := none } = n := by
  cases n with
  | mk id units removedAt attrs insPrev =>
    cases removedAt with
    | none => rfl
    | some r => simp [TNode.live] at h

theorem reviveFrom_start (sp : Span) : reviveFrom sp sp.start = revive sp := by
  funext n
  unfold reviveFrom revive
  cases hin : inSpan sp n with
  | false => rfl
  | true => simp [(inSpan_iff.mp hin).2.1]

theorem deadFrom_start (sp : Span) : deadFrom sp sp.start = fun n => inSpan sp n && !n.live := by
  funext n
  unfold deadFrom
  cases hin : inSpan sp n with
  | false => rfl
  | true => simp [(inSpan_iff.mp hin).2.1]

theorem restore_past {sp : Span} {cur : Nat} (h : sp.stop ≤ cur) (s : TextSt) (ch : Bool) :
    (s.map (reviveFrom sp cur), ch || s.any (deadFrom sp cur)) = (s, ch) := by
  have h1 : reviveFrom sp cur = id := by
    funext n; unfold reviveFrom; rw [from_past h]; rfl
  have h2 : deadFrom sp cur = fun _ => false := by
    funext n; unfold deadFrom; rw [from_past h]; rfl
  rw [h1, h2]; simp

theorem restoreLoop_tiled {sp : Span} : ∀ (fuel cur : Nat) (s : TextSt) (ch : Bool), Shape s →
    Tiled s sp → sp.start ≤ cur → (cur < sp.stop → NoStraddle s sp cur) → sp.stop - cur ≤ fuel →
    restoreLoop sp fuel cur s ch = .ok (s.map (reviveFrom sp cur), ch || s.any (deadFrom sp cur)) := by
  intro fuel
  induction fuel with
  | zero =>
    intro cur s ch _ _ _ _ hf
    rw [restore_past (by omega)]; rfl
  | succ fuel ih =>
    intro cur s ch sh t hcur hns hf
    by_cases hstop : sp.stop ≤ cur
    · rw [restore_past hstop]; simp [restoreLoop, hstop]
    · obtain ⟨piece, hcov, hp, hca, heq, hlen, hend⟩ :=
        covering_tiled t hcur (by omega) (hns (by omega))
      subst heq
      have hmin : min (piece.id.2 + piece.len) sp.stop = piece.id.2 + piece.len := Nat.min_eq_left hend
      have hself := from_self hca hcur (by omega) hlen
      simp only [restoreLoop, hstop, if_false, hcov, hmin]
      by_cases hl : piece.live = true
      · -- live piece: skipped
        simp only [hl, if_true]
        rw [ih _ s ch sh t (by omega) (fun _ => noStraddle_end sh hp hca) (by omega)]
        congr 2
        · apply List.map_congr_left
          intro n hn
          unfold reviveFrom
          by_cases hid : n.id = piece.id
          · have : n = piece := eq_of_id_eq sh.nodup hn hp hid
            subst this
            rw [hself, live_eta hl]; simp
          · rw [← from_step sh hp hca hn hid]
        · congr 1
          apply any_congr_mem
          intro n hn
          unfold deadFrom
          by_cases hid : n.id = piece.id
          · have : n = piece := eq_of_id_eq sh.nodup hn hp hid
            subst this
            rw [hl]; simp
          · rw [← from_step sh hp hca hn hid]
      · -- tombstoned piece: isolated (no split) and revived
        simp only [hl, if_false, Bool.false_eq_true, isolate_exact_nodup sh.nodup hp]
        have kp := keeps_setRemoved piece.id none
        rw [ih _ _ true (shape_map_keeps kp sh) (tiled_map_keeps_r kp t) (by omega)
          (fun _ => noStraddle_map_keeps kp (noStraddle_end sh hp hca)) (by omega)]
        congr 2
        · rw [List.map_map]
          apply List.map_congr_left
          intro n hn
          simp only [Function.comp]
          by_cases hid : n.id = piece.id
          · have : n = piece := eq_of_id_eq sh.nodup hn hp hid
            subst this
            have h1 : setRemoved n.id none n = { n with removedAt := none } := by simp [setRemoved]
            rw [h1]
            unfold reviveFrom
            rw [hself]
            have h2 : inSpan sp { n with removedAt := none } = inSpan sp n := inSpan_congr rfl rfl
            simp [h2]
          · have h1 : setRemoved piece.id none n = n := by simp [setRemoved, hid]
            rw [h1]; unfold reviveFrom
            rw [← from_step sh hp hca hn hid]
        · have : s.any (deadFrom sp piece.id.2) = true := by
            apply List.any_eq_true.mpr
            refine ⟨piece, hp, ?_⟩
            unfold deadFrom
            rw [hself]; simpa using hl
          rw [this]; simp

theorem restoreSpan_tiled_shape {s : TextSt} (sh : Shape s) {sp : Span} (t : Tiled s sp) (ch : Bool) :
    restoreSpan sp s ch = .ok (s.map (revive sp), ch || s.any (fun n => inSpan sp n && !n.live)) := by
  unfold restoreSpan
  rw [restoreLoop_tiled _ _ s ch sh t (Nat.le_refl _) (fun h => noStraddle_start t h) (Nat.le_refl _),
    reviveFrom_start, deadFrom_start]

theorem restoreSpan_tiled {s : TextSt} (wf : WF s) {sp : Span} (t : Tiled s sp) (ch : Bool) :
    restoreSpan sp s ch = .ok (s.map (revive sp), ch || s.any (fun n => inSpan sp n && !n.live)) :=
  restoreSpan_tiled_shape (shape_of_wf wf) t ch

/-! ### 3. retombstone -/

/-- what the retombstone loop started at cursor `cur` does to one block -/
def killFrom (ts : Ticket) (sp : Span) (cur : Nat) (n : TNode) : TNode :=
  if inSpan sp n && decide (cur ≤ n.id.2) && n.live then { n with removedAt := some ts } else n

def liveFrom (sp : Span) (cur : Nat) (n : TNode) : Bool :=
  inSpan sp n && decide (cur ≤ n.id.2) && n.live

theorem killFrom_start (ts : Ticket) (sp : Span) : killFrom ts sp sp.start = kill ts sp := by
  funext n
  unfold killFrom kill
  cases hin : inSpan sp n with
  | false => rfl
  | true => simp [(inSpan_iff.mp hin).2.1]

theorem liveFrom_start (sp : Span) : liveFrom sp sp.start = fun n => inSpan sp n && n.live := by
  funext n
  unfold liveFrom
  cases hin : inSpan sp n with
  | false => rfl
  | true => simp [(inSpan_iff.mp hin).2.1]

theorem retomb_past (ts : Ticket) {sp : Span} {cur : Nat} (h : sp.stop ≤ cur) (s : TextSt) (ch : Bool) :
    (s.map (killFrom ts sp cur), ch || s.any (liveFrom sp cur)) = (s, ch) := by
  have h1 : killFrom ts sp cur = id := by
    funext n; unfold killFrom; rw [from_past h]; rfl
  have h2 : liveFrom sp cur = fun _ => false := by
    funext n; unfold liveFrom; rw [from_past h]; rfl
  rw [h1, h2]; simp

theorem retombLoop_tiled (ts : Ticket) {sp : Span} : ∀ (fuel cur : Nat) (s : TextSt) (ch : Bool),
    Shape s → Tiled s sp → sp.start ≤ cur → (cur < sp.stop → NoStraddle s sp cur) →
    sp.stop - cur ≤ fuel →
    retombLoop ts sp fuel cur s ch = .ok (s.map (killFrom ts sp cur), ch || s.any (liveFrom sp cur)) := by
  intro fuel
  induction fuel with
  | zero =>
    intro cur s ch _ _ _ _ hf
    rw [retomb_past ts (by omega)]; rfl
  | succ fuel ih =>
    intro cur s ch sh t hcur hns hf
    by_cases hstop : sp.stop ≤ cur
    · rw [retomb_past ts hstop]; simp [retombLoop, hstop]
    · obtain ⟨piece, hcov, hp, hca, heq, hlen, hend⟩ :=
        covering_tiled t hcur (by omega) (hns (by omega))
      subst heq
      have hmin : min (piece.id.2 + piece.len) sp.stop = piece.id.2 + piece.len := Nat.min_eq_left hend
      have hself := from_self hca hcur (by omega) hlen
      simp only [retombLoop, hstop, if_false, hcov, hmin]
      by_cases hl : piece.live = true
      · -- live piece: isolated (no split) and tombstoned
        simp only [hl, if_true, isolate_exact_nodup sh.nodup hp]
        have kp := keeps_setRemoved piece.id (some ts)
        rw [ih _ _ true (shape_map_keeps kp sh) (tiled_map_keeps_r kp t) (by omega)
          (fun _ => noStraddle_map_keeps kp (noStraddle_end sh hp hca)) (by omega)]
        congr 2
        · rw [List.map_map]
          apply List.map_congr_left
          intro n hn
          simp only [Function.comp]
          by_cases hid : n.id = piece.id
          · have : n = piece := eq_of_id_eq sh.nodup hn hp hid
            subst this
            have h1 : setRemoved n.id (some ts) n = { n with removedAt := some ts } := by
              simp [setRemoved]
            rw [h1]
            unfold killFrom
            rw [hself, hl]
            have h2 : inSpan sp { n with removedAt := some ts } = inSpan sp n := inSpan_congr rfl rfl
            simp [h2, TNode.live]
          · have h1 : setRemoved piece.id (some ts) n = n := by simp [setRemoved, hid]
            rw [h1]; unfold killFrom
            rw [← from_step sh hp hca hn hid]
        · have : s.any (liveFrom sp piece.id.2) = true := by
            apply List.any_eq_true.mpr
            refine ⟨piece, hp, ?_⟩
            unfold liveFrom
            rw [hself]; simpa using hl
          rw [this]; simp
      · -- tombstoned piece: skipped
        simp only [hl, if_false, Bool.false_eq_true]
        rw [ih _ s ch sh t (by omega) (fun _ => noStraddle_end sh hp hca) (by omega)]
        have hl' : piece.live = false := by simpa using hl
        congr 2
        · apply List.map_congr_left
          intro n hn
          unfold killFrom
          by_cases hid : n.id = piece.id
          · have : n = piece := eq_of_id_eq sh.nodup hn hp hid
            subst this
            rw [hl']; simp
          · rw [← from_step sh hp hca hn hid]
        · congr 1
          apply any_congr_mem
          intro n hn
          unfold liveFrom
          by_cases hid : n.id = piece.id
          · have : n = piece := eq_of_id_eq sh.nodup hn hp hid
            subst this
            rw [hl']; simp
          · rw [← from_step sh hp hca hn hid]

theorem retombSpan_tiled_shape {s : TextSt} (sh : Shape s) {sp : Span} (t : Tiled s sp) (ts : Ticket)
    (ch : Bool) :
    retombSpan ts sp s ch = .ok (s.map (kill ts sp), ch || s.any (fun n => inSpan sp n && n.live)) := by
  unfold retombSpan
  rw [retombLoop_tiled ts _ _ s ch sh t (Nat.le_refl _) (fun h => noStraddle_start t h) (Nat.le_refl _),
    killFrom_start, liveFrom_start]

theorem retombSpan_tiled {s : TextSt} (wf : WF s) {sp : Span} (t : Tiled s sp) (ts : Ticket) (ch : Bool) :
    retombSpan ts sp s ch = .ok (s.map (kill ts sp), ch || s.any (fun n => inSpan sp n && n.live)) :=
  retombSpan_tiled_shape (shape_of_wf wf) t ts ch

/-! ### 4. lists of spans -/

theorem reviveAll_cons (sp : Span) (r : List Span) (n : TNode) :
    reviveAll (sp :: r) n = reviveAll r (revive sp n) := rfl

theorem killAll_cons (ts : Ticket) (sp : Span) (r : List Span) (n : TNode) :
    killAll ts (sp :: r) n = killAll ts r (kill ts sp n) := rfl

theorem restoreAll_tiled {s : TextSt} (wf : WF s) {sps : List Span} (t : ∀ sp ∈ sps, Tiled s sp)
    (ch : Bool) : ∃ ch', restoreAll sps s ch = .ok (s.map (reviveAll sps), ch') := by
  induction sps generalizing s ch with
  | nil => exact ⟨ch, by rw [show reviveAll [] = id from rfl]; simp [restoreAll]⟩
  | cons sp r ih =>
    have kp := keeps_revive sp
    obtain ⟨ch', h⟩ := ih (wf_map_keeps wf kp)
      (fun sp' h' => tiled_map_keeps_r kp (t sp' (List.mem_cons_of_mem _ h')))
      (ch || s.any (fun n => inSpan sp n && !n.live))
    refine ⟨ch', ?_⟩
    simp only [restoreAll, restoreSpan_tiled wf (t sp (by simp)) ch, h, List.map_map]
    congr 2

theorem retombAll_tiled {s : TextSt} (wf : WF s) (ts : Ticket) {sps : List Span}
    (t : ∀ sp ∈ sps, Tiled s sp) (ch : Bool) :
    ∃ ch', retombAll ts sps s ch = .ok (s.map (killAll ts sps), ch') := by
  induction sps generalizing s ch with
  | nil => exact ⟨ch, by rw [show killAll ts [] = id from rfl]; simp [retombAll]⟩
  | cons sp r ih =>
    have kp := keeps_kill ts sp
    obtain ⟨ch', h⟩ := ih (wf_map_keeps wf kp)
      (fun sp' h' => tiled_map_keeps_r kp (t sp' (List.mem_cons_of_mem _ h')))
      (ch || s.any (fun n => inSpan sp n && n.live))
    refine ⟨ch', ?_⟩
    simp only [retombAll, retombSpan_tiled wf (t sp (by simp)) ts ch, h, List.map_map]
    congr 2

/-! ### 5. identity preservation -/

/-- `f` changes nothing but `removedAt` -/
def OnlyRemoved (f : TNode → TNode) : Prop :=
  ∀ n, (f n).id = n.id ∧ (f n).units = n.units ∧ (f n).attrs = n.attrs ∧ (f n).insPrev = n.insPrev

theorem onlyRemoved_revive (sp : Span) : OnlyRemoved (revive sp) := by
  intro n; unfold revive; split <;> exact ⟨rfl, rfl, rfl, rfl⟩

theorem onlyRemoved_kill (ts : Ticket) (sp : Span) : OnlyRemoved (kill ts sp) := by
  intro n; unfold kill; split <;> exact ⟨rfl, rfl, rfl, rfl⟩

theorem onlyRemoved_reviveAll (sps : List Span) : OnlyRemoved (reviveAll sps) := by
  induction sps with
  | nil => intro n; exact ⟨rfl, rfl, rfl, rfl⟩
  | cons sp r ih =>
    intro n
    rw [reviveAll_cons]
    have h1 := ih (revive sp n)
    have h2 := onlyRemoved_revive sp n
    exact ⟨h1.1.trans h2.1, h1.2.1.trans h2.2.1, h1.2.2.1.trans h2.2.2.1, h1.2.2.2.trans h2.2.2.2⟩

theorem onlyRemoved_killAll (ts : Ticket) (sps : List Span) : OnlyRemoved (killAll ts sps) := by
  induction sps with
  | nil => intro n; exact ⟨rfl, rfl, rfl, rfl⟩
  | cons sp r ih =>
    intro n
    rw [killAll_cons]
    have h1 := ih (kill ts sp n)
    have h2 := onlyRemoved_kill ts sp n
    exact ⟨h1.1.trans h2.1, h1.2.1.trans h2.2.1, h1.2.2.1.trans h2.2.2.1, h1.2.2.2.trans h2.2.2.2⟩

theorem onlyRemoved_map {f : TNode → TNode} (hf : OnlyRemoved f) (s : TextSt) :
    (s.map f).map (·.id) = s.map (·.id) ∧ (s.map f).map (·.units) = s.map (·.units) ∧
    (s.map f).map (·.attrs) = s.map (·.attrs) ∧ (s.map f).map (·.insPrev) = s.map (·.insPrev) := by
  simp only [List.map_map]
  refine ⟨?_, ?_, ?_, ?_⟩ <;> apply List.map_congr_left <;> intro n _ <;> simp only [Function.comp]
  · exact (hf n).1
  · exact (hf n).2.1
  · exact (hf n).2.2.1
  · exact (hf n).2.2.2

theorem restoreAll_ids {s s' : TextSt} {sps : List Span} {ch ch' : Bool} (wf : WF s)
    (t : ∀ sp ∈ sps, Tiled s sp) (h : restoreAll sps s ch = .ok (s', ch')) :
    s'.map (·.id) = s.map (·.id) ∧ s'.map (·.units) = s.map (·.units) ∧
    s'.map (·.attrs) = s.map (·.attrs) ∧ s'.map (·.insPrev) = s.map (·.insPrev) := by
  obtain ⟨c, hc⟩ := restoreAll_tiled wf t ch
  rw [hc] at h
  injection h with h; injection h with h1 _
  subst h1
  exact onlyRemoved_map (onlyRemoved_reviveAll sps) s

theorem retombAll_ids {s s' : TextSt} {ts : Ticket} {sps : List Span} {ch ch' : Bool} (wf : WF s)
    (t : ∀ sp ∈ sps, Tiled s sp) (h : retombAll ts sps s ch = .ok (s', ch')) :
    s'.map (·.id) = s.map (·.id) ∧ s'.map (·.units) = s.map (·.units) ∧
    s'.map (·.attrs) = s.map (·.attrs) ∧ s'.map (·.insPrev) = s.map (·.insPrev) := by
  obtain ⟨c, hc⟩ := retombAll_tiled wf ts t ch
  rw [hc] at h
  injection h with h; injection h with h1 _
  subst h1
  exact onlyRemoved_map (onlyRemoved_killAll ts sps) s

/-! ### 6. non-vacuity: a split chain `a | bc | d` of one insertion, `bc` and `d` tombstoned -/

namespace RestoreExample

def tA : Ticket := ⟨2, 1, 7⟩
def tB : Ticket := ⟨3, 1, 7⟩
def tC : Ticket := ⟨4, 1, 7⟩

def s0 : TextSt :=
  [headNode,
   ⟨(tA, 0), [0x61], none, [], none⟩,
   ⟨(tA, 1), [0x62, 0x63], some tB, [], some (tA, 0)⟩,
   ⟨(tA, 3), [0x64], some tB, [], some (tA, 1)⟩]

def sp0 : Span := { ca := tA, start := 1, stop := 4 }

/-- everything revived -/
def s1 : TextSt :=
  [headNode,
   ⟨(tA, 0), [0x61], none, [], none⟩,
   ⟨(tA, 1), [0x62, 0x63], none, [], some (tA, 0)⟩,
   ⟨(tA, 3), [0x64], none, [], some (tA, 1)⟩]

/-- the span re-tombstoned at `tC` -/
def s2 : TextSt :=
  [headNode,
   ⟨(tA, 0), [0x61], none, [], none⟩,
   ⟨(tA, 1), [0x62, 0x63], some tC, [], some (tA, 0)⟩,
   ⟨(tA, 3), [0x64], some tC, [], some (tA, 1)⟩]

theorem tiled_s0 : Tiled s0 sp0 := by
  refine ⟨by decide, ?_⟩
  intro c h1 h2
  have hc : c = 1 ∨ c = 2 ∨ c = 3 := by
    simp only [sp0] at h1 h2; omega
  rcases hc with rfl | rfl | rfl <;> decide

example : restoreSpan sp0 s0 false = .ok (s1, true) := by rfl
example : s0.map (revive sp0) = s1 := by decide
example : restoreSpan sp0 s1 false = .ok (s1, false) := by rfl
example : retombSpan tC sp0 s1 false = .ok (s2, true) := by rfl
example : s1.map (kill tC sp0) = s2 := by decide
example : restoreAll [sp0] s0 false = .ok (s1, true) := by rfl
/-- a span that is NOT tiled (it cuts the block `bc`): the loop does split, a new id `(tA, 2)` appears -/
example : (restoreSpan { ca := tA, start := 2, stop := 4 } s0 false).toOption.map (fun r => ids r.1) =
    some [headId, (tA, 0), (tA, 1), (tA, 2), (tA, 3)] := by rfl

end RestoreExample

end Yorkie.TextUndo
