/-
Helper lemmas for Model/Conc.lean, part 7: an executable checker for well-behaved concurrent
schedules (`wbRunC`) and its soundness with respect to `WbReach` – used for the non-vacuity
examples (explicit interleavings evaluated by the kernel).
-/
import YorkieModel.Lemmas.ConcStart
namespace Yorkie.Conc
open Yorkie Yorkie.Server

/-- run a schedule; `none` as soon as an item is not enabled, a request breaks the client
discipline when it starts, or a response is a snapshot -/
def wbRunC : Sys → Ghost → List Item → Option (Sys × Ghost)
  | σ, g, [] => some (σ, g)
  | σ, g, .activate :: rest => wbRunC { σ with srv := (Server.activate σ.srv).1 } g rest
  | σ, g, .start id req lost :: rest =>
    if isReq req = true ∧ σ.lockFree (lockOf σ.srv req) = true ∧ wbReq σ.srv g req = true then
      wbRunC { σ with srv := (startFlight σ.srv id req lost).1,
                      flights := σ.flights ++ [(startFlight σ.srv id req lost).2] } (ghostStart σ.srv g req) rest
    else none
  | σ, g, .phase id :: rest =>
    match splitAt id σ.flights with
    | none => none
    | some (pre, r, post) =>
      if r.pc ≠ .done ∧ (stepFlight σ.srv r).2.f.resp.snapshot = false then
        wbRunC { σ with srv := (stepFlight σ.srv r).1, flights := pre ++ (stepFlight σ.srv r).2 :: post } g rest
      else none
  | σ, g, .finish id :: rest =>
    match splitAt id σ.flights with
    | none => none
    | some (pre, r, post) =>
      if r.pc = .done then
        wbRunC { σ with flights := pre ++ post, hist := Sys.doneOf r :: σ.hist } (ghostFinish g r) rest
      else none

theorem wbRunC_sound {cfg : Config} {σ0 : Sys} {g0 : Ghost} (h0 : WbReach cfg σ0 g0) (items : List Item)
    {σ : Sys} {g : Ghost} (h : wbRunC σ0 g0 items = some (σ, g)) : WbReach cfg σ g := by
  induction items generalizing σ0 g0 with
  | nil => simp only [wbRunC] at h; injection h with h; injection h with h1 h2; subst h1; subst h2; exact h0
  | cons it rest ih =>
    cases it with
    | activate => simp only [wbRunC] at h; exact ih (WbReach.activate h0) h
    | start id req lost =>
      simp only [wbRunC] at h
      split at h
      · next hc => exact ih (WbReach.start id req lost h0 hc.1 hc.2.1 hc.2.2) h
      · simp at h
    | phase id =>
      simp only [wbRunC] at h
      split at h
      · simp at h
      · next pre r post hs =>
        split at h
        · next hc => exact ih (WbReach.phase pre post r h0 (splitAt_eq hs) hc.1 hc.2) h
        · simp at h
    | finish id =>
      simp only [wbRunC] at h
      split at h
      · simp at h
      · next pre r post hs =>
        split at h
        · next hc => exact ih (WbReach.finish pre post r h0 (splitAt_eq hs) hc) h
        · simp at h

/-- `n` consecutive phases of request `id` -/
def phases (id : Nat) : Nat → List Item
  | 0 => []
  | n + 1 => .phase id :: phases id n

/-- a request run alone: start, its 8 phases, finish -/
def alone (id : Nat) (req : Request) : List Item := .start id req false :: phases id 8 ++ [.finish id]

end Yorkie.Conc
