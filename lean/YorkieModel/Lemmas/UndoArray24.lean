/-
Lemmas for C14, part 33: depth k with container VALUES, step 1.  The entry `Set p k cv` that the deletion
of a member with content (`delete obj.k`, the value a tree of live elements) leaves on the undo stack,
executed LATER on a heap that is only observationally equivalent (`Eqv`) to the heap after the
deletion: the copy writes back the entries recorded at deletion time, and the result is
observationally equivalent to the heap before the deletion.
-/
import YorkieModel.Lemmas.UndoArray26
namespace Yorkie.Undo
open Yorkie Yorkie.Crdt

theorem live_eq_isSome (d : Doc) (t : Ticket) : live d t = (absNode d t).isSome := by
  unfold live absNode
  cases d t with
  | none => rfl
  | some e => cases hr : e.removed <;> simp [hr]

theorem isContainer_eq_skel (d : Doc) (q : Ticket) : isContainer d q = (skel d q).isSome := by
  unfold isContainer skel
  cases d q with
  | none => rfl
  | some e => cases hb : e.body <;> simp [leafBody, hb]

/-- tombstoning the child of a member that has no live winner changes nothing -/
theorem kill_dead_member {d : Doc} {member : String → Option Member} {k : String}
    (hk : liveMember d member k = none) : kill d ((member k).map (·.child)) = d := by
  cases hmk : member k with
  | none => exact kill_none _
  | some m =>
    funext t
    simp only [Option.map_some, kill]
    split
    · rename_i hmt
      injection hmt with hmt
      cases hdt : d t with
      | none => rfl
      | some e =>
        have : e.removed = true := by
          cases hr : e.removed with
          | true => rfl
          | false =>
            have : liveMember d member k = some m.child := by
              simp [liveMember, hmk, hmt, hdt, hr]
            rw [this] at hk; cases hk
        simp only [Option.map_some]
        cases e; simp_all
    · rfl

/-- `applySetU` for a value of any kind -/
theorem applySetU_gen {d : Doc} {p : Ticket} {k : String} {val : UVal} {ts : Ticket} {pe : Elem}
    {keys : List String} {member : String → Option Member}
    (hd : d p = some pe) (hb : pe.body = .obj keys member)
    (hm : ∀ m, member k = some m → ts.after m.positionedAt = true ∧ ∀ e, d m.child = some e → ts.after m.child = true) :
    applySetU d p k val ts = .ok ((instantiate (kill d ((member k).map (·.child))) p val val.removed).set p
      { pe with body := .obj (if (member k).isNone then insertKey k keys else keys)
                              (fun k' => if k' = k then some ⟨val.id, ts⟩ else member k') }) := by
  unfold applySetU
  simp only [hd, hb]
  cases hmk : member k with
  | none => simp only [Option.map_none, kill_none, Option.isNone_none, if_true]
  | some m =>
    obtain ⟨h1, h2⟩ := hm m hmk
    simp only [h1, if_true, Option.map_some, markRemoved_eq_kill h2, Option.isNone_some, Bool.false_eq_true, if_false]

/-- observable nodes after tombstoning a member (of any kind) of a live object -/
theorem absNode_killC {H : Home} {X : Doc} {p u : Ticket} {k : String} {pe : Elem} {keys : List String}
    {member : String → Option Member} {m : Member} (w : WF H X) (hd : X p = some pe) (hpr : pe.removed = false)
    (hb : pe.body = .obj keys member) (hm : member k = some m) (hmc : m.child = u) (hpu : p ≠ u) :
    absNode (kill X (some u)) u = none ∧
    absNode (kill X (some u)) p = some (.obj (fun k' => if k' = k then none else liveMember X member k')) ∧
    ∀ t, t ≠ u → t ≠ p → absNode (kill X (some u)) t = absNode X t := by
  obtain ⟨_, hkey, hparu⟩ := w.objMem _ _ _ _ _ _ hd hpr hb hm
  rw [hmc] at hkey hparu
  have hliveK : ∀ s, s ≠ u → live (kill X (some u)) s = live X s := by
    intro s hs; rw [live_kill]; simp [hs]
  have hkt : ∀ t, t ≠ u → kill X (some u) t = X t := by
    intro t h1
    have : ¬ u = t := fun hx => h1 hx.symm
    simp [kill, this]
  refine ⟨?_, ?_, ?_⟩
  · rw [absNode_none_iff, live_kill]; simp
  · unfold absNode
    rw [hkt p hpu, hd]
    simp only [hpr, Bool.false_eq_true, if_false, hb, absBody]
    congr 2
    funext k'
    rw [liveMember_eq]
    by_cases hk' : k' = k
    · subst hk'; simp only [if_true, hm, hmc, live_kill]; simp
    · simp only [hk', if_false]
      rw [liveMember_eq]
      cases hmk : member k' with
      | none => rfl
      | some mm =>
        simp only []
        have hcu : mm.child ≠ u := by
          intro hx
          have := (w.objMem _ _ _ _ _ _ hd hpr hb hmk).2.1
          rw [hx, hkey] at this; exact hk' this.symm
        rw [hliveK _ hcu]
  · intro t h1 h2
    unfold absNode
    rw [hkt t h1]
    cases hx : X t with
    | none => rfl
    | some e =>
      simp only []
      cases hr : e.removed with
      | true => rfl
      | false =>
        simp only [Bool.false_eq_true, if_false]
        congr 1
        apply absBody_congr
        · intro keys2 m2 k2 mm hbe hm2
          have hcu : mm.child ≠ u := by
            intro hx'
            have := (w.objMem _ _ _ _ _ _ hx hr hbe hm2).2.2
            rw [hx', hparu] at this; injection this with this; exact h2 this.symm
          exact hliveK _ hcu
        · intro nodes mv n c hbe hn hc
          have hcu : c ≠ u := by
            intro hx'
            have := w.arrMem _ _ _ _ _ _ hx hr hbe hn hc
            rw [hx', hparu] at this; injection this with this; exact h2 this.symm
          exact hliveK _ hcu

theorem skel_killC {X : Doc} {u : Ticket} {ue : Elem} (hu : X u = some ue) (t : Ticket) :
    skel (kill X (some u)) t = if t = u then (skel X u).map (fun _ => true) else skel X t := by
  by_cases h1 : t = u
  · subst h1
    simp only [if_true]
    unfold skel
    simp only [kill, if_true, hu, Option.map_some]
    cases leafBody ue.body <;> rfl
  · simp only [h1, if_false]
    have hkt : kill X (some u) t = X t := by
      have : ¬ u = t := fun hx => h1 hx.symm
      simp [kill, this]
    unfold skel; rw [hkt]

theorem kill_kill (d : Doc) (o : Option Ticket) : kill (kill d o) o = kill d o := by
  funext t
  unfold kill
  split
  · cases d t <;> rfl
  · rfl

/-- the heap after a member with content was written back: `p` updated, the written entries from `X` -/
def restObj (d X : Doc) (W : Ticket → Bool) (p : Ticket) (pe' : Elem) : Doc :=
  fun t => if t = p then some pe' else if W t = true then X t else d t

/-- what is recorded about the deletion (`oc = none`) or the overwriting by the leaf `c` (`oc = some c`) of
    the member `u` (key `k`, content a tree of live elements) of the object `p`: `X` the heap before,
    `Y` the heap after -/
structure EntryR (H : Home) (L : Int) (p : Ticket) (k : String) (u : Ticket) (ue : Elem)
    (f : String → Option Ticket) (oc : Option Ticket) (X Y : Doc) : Prop where
  wfX : WF H X
  bdX : Bounded X L
  hu : X u = some ue
  hur : ue.removed = false
  tree : TreeBelowT X copyFuel u ue.body
  hnd : ((copyBody X copyFuel u ue.body).2.map (·.1)).Nodup
  hpu : p ≠ u
  hpS : p ∉ (copyBody X copyFuel u ue.body).2.map (·.1)
  hp : absNode X p = some (.obj f)
  hk : f k = some u
  wfY : WF H Y
  horphX : orphaned X noTw orphanFuel p = false
  horphY : orphaned Y noTw orphanFuel p = false
  nodeYu : absNode Y u = none
  nodeYp : absNode Y p = some (.obj (fun k' => if k' = k then oc else f k'))
  nodeYo : ∀ t, t ≠ u → t ≠ p → oc ≠ some t → absNode Y t = absNode X t
  skelY : ∀ t, skel Y t = if t = u then (skel X u).map (fun _ => true) else skel X t
  hoc : ∀ c, oc = some c → X c = none ∧ c ≠ u ∧ c ≠ p ∧ H.key c = k ∧ H.par c = some p ∧
    written (captured X u ue) c = false
  hocY : ∀ c, oc = some c → ∃ b, absNode Y c = some b ∧ b.isLeaf = true
  hocB : ∀ c, oc = some c → c.lamport ≤ L + 1

/-- the operation that goes forward again (what the restoring `Set` returns as its reverse) -/
def FwdOp (Y : Doc) (oc : Option Ticket) (p : Ticket) (k : String) (u ts : Ticket) (q : UOp) : Prop :=
  match oc with
  | none => q = .remove p u ts
  | some c => ∃ cb, leafBody cb = true ∧ absNode Y c = some (absLeaf cb) ∧
      q = .set p k { id := c, removed := false, body := cb, sub := [] } ts

section restore
variable {H : Home} {L : Int} {p : Ticket} {k : String} {u : Ticket} {ue : Elem} {f : String → Option Ticket}
  {oc : Option Ticket} {X Y d : Doc}

theorem EntryR.home (en : EntryR H L p k u ue f oc X Y) : H.key u = k ∧ H.par u = some p ∧ ue.parent = some p := by
  obtain ⟨pe, keys, member, hd, hr, hb, hf⟩ := absNode_obj en.hp
  obtain ⟨a, b, _⟩ := fk_home en.wfX hd hr hb hf en.hk
  exact ⟨a, b, (en.wfX.par _ _ en.hu).trans b⟩

theorem EntryR.liveY (en : EntryR H L p k u ue f oc X Y) {s : Ticket} (hs : s ≠ u) (hc : oc ≠ some s) :
    live Y s = live X s := by
  rw [live_eq_isSome, live_eq_isSome]
  by_cases hp : s = p
  · subst hp; rw [en.nodeYp, en.hp]; rfl
  · rw [en.nodeYo s hs hp hc]

theorem kill_member_eq {d : Doc} {member : String → Option Member} {k : String} {oc : Option Ticket}
    (h : liveMember d member k = oc) : kill d ((member k).map (·.child)) = kill d oc := by
  cases oc with
  | none => rw [kill_dead_member h, kill_none]
  | some c =>
    obtain ⟨_, m, hm, hmc⟩ := liveMember_some h
    rw [hm, Option.map_some, hmc]

/-- executing the restoring `Set` on a heap equivalent to the heap after the deletion -/
theorem restore_exec {Ld : Int} {ts : Ticket} (en : EntryR H L p k u ue f oc X Y) (w : WF H d) (bd : Bounded d Ld)
    (hL : L ≤ Ld) (hts : Ld < ts.lamport) (hsk : ∀ t, skel d t = skel Y t) (hnode : absNode d = absNode Y) :
    ∃ d' q, uexecute d noTw .undoRedo (.set p k (captured X u ue) ts) = .ok (d', some q) ∧
      WF H d' ∧ Bounded d' ts.lamport ∧ (∀ t, skel d' t = skel X t) ∧ absNode d' = absNode X ∧
      FwdOp Y oc p k u ts q := by
  obtain ⟨hkey, hpar, hup⟩ := en.home
  have hpu := en.hpu
  -- the object in the actual heap
  have hnp : absNode d p = some (.obj (fun k' => if k' = k then oc else f k')) := by
    rw [hnode, en.nodeYp]
  obtain ⟨pe, keys, member, hd, hpr, hb, hf⟩ := absNode_obj hnp
  have hobj : isObj d p = true := by simp [isObj, hd, hb]
  have hcontp : isContainer d p = true := by simp [isContainer, hd, hb]
  have horph : orphaned d noTw orphanFuel p = false := by
    rw [orphaned_eqv w en.wfY ⟨hsk, fun t => congrFun hnode t⟩ noTw orphanFuel p hcontp]; exact en.horphY
  have hlmk : liveMember d member k = oc := by
    have := congrFun hf k; simp only [if_true] at this; exact this.symm
  have hlm : ∀ k', k' ≠ k → liveMember d member k' = f k' := by
    intro k' hk'; have := congrFun hf k'; simp only [hk', if_false] at this; exact this.symm
  -- the execution
  have happ := applySetU_gen (d := d) (p := p) (k := k) (val := captured X u ue) (ts := ts) hd hb (by
    intro m hm
    refine ⟨after_of_lamport ?_, fun e he => after_of_lamport ?_⟩
    · have := bd.pos _ _ _ _ _ _ hd hb hm; omega
    · have := bd.ent _ _ he; omega)
  rw [kill_member_eq hlmk] at happ
  have hcr : (captured X u ue).removed = false := en.hur
  have hcid : (captured X u ue).id = u := rfl
  rw [hcr, hcid] at happ
  generalize hkeys' : (if (member k).isNone then insertKey k keys else keys) = keys' at happ
  obtain ⟨member', hmem'⟩ : ∃ m1 : String → Option Member,
      m1 = fun k' => if k' = k then some (⟨u, ts⟩ : Member) else member k' := ⟨_, rfl⟩
  rw [← hmem'] at happ
  obtain ⟨q, hq, hfwd⟩ : ∃ q, reverseSet d p k (captured X u ue) ts = some q ∧ FwdOp Y oc p k u ts q := by
    unfold reverseSet
    simp only [hd, hb, hlmk]
    cases hoc : oc with
    | none => exact ⟨_, rfl, rfl⟩
    | some c =>
      obtain ⟨b, hbY, hbl⟩ := en.hocY c hoc
      rw [← hnode] at hbY
      obtain ⟨ce, hce, hcr, hcl, hbe⟩ := absNode_leaf hbY hbl
      simp only [capture_leaf hce hcl, hcr]
      refine ⟨_, rfl, ce.body, hcl, ?_, rfl⟩
      rw [← hnode, hbY, hbe]
  have hWu : written (captured X u ue) u = true := by simp [written, captured]
  have hWp : written (captured X u ue) p = false := by
    cases hx : written (captured X u ue) p with
    | false => rfl
    | true =>
      rcases (writtenT_iff en.tree en.hnd p).1 hx with h | h
      · exact absurd h hpu
      · exact absurd h en.hpS
  have hWc : ∀ c, oc = some c → written (captured X u ue) c = false := fun c hc => (en.hoc c hc).2.2.2.2.2
  generalize hW : written (captured X u ue) = W at hWu hWp hWc
  -- the heap with the overwriting leaf (if any) tombstoned
  have wk : WF H (kill d oc) := WF_kill w oc
  have bdk : Bounded (kill d oc) Ld := Bounded_kill bd oc
  have hkp : kill d oc p = some pe := by
    have : oc ≠ some p := fun hx => (en.hoc p hx).2.2.1 rfl
    simp [kill, this, hd]
  have hko : ∀ t, oc ≠ some t → kill d oc t = d t := by
    intro t ht; simp [kill, ht]
  have hdeq : (instantiate (kill d oc) p (captured X u ue) false).set p { pe with body := .obj keys' member' } =
      restObj (kill d oc) (tombed X) W p { pe with body := .obj keys' member' } := by
    funext t
    unfold restObj
    rw [set_apply]
    by_cases h1 : t = p
    · simp [h1]
    · simp only [h1, if_false]
      rw [instantiate_treeT_base en.hu en.hur hup en.tree en.hnd, hW]
  rw [hdeq] at happ
  generalize hd' : restObj (kill d oc) (tombed X) W p { pe with body := .obj keys' member' } = d' at happ
  have hex : uexecute d noTw .undoRedo (.set p k (captured X u ue) ts) = .ok (d', some q) := by
    simp only [uexecute, hobj, Bool.not_true, Bool.false_eq_true, if_false, horph, Bool.and_false, happ,
      Source.needsReverse, gate, if_true, hq]
    rfl
  -- pointwise description
  have hd'p : d' p = some { pe with body := .obj keys' member' } := by rw [← hd']; simp [restObj]
  have hd'W : ∀ t, W t = true → d' t = tombed X t := by
    intro t ht
    have : t ≠ p := by intro hx; rw [hx, hWp] at ht; cases ht
    rw [← hd']; simp [restObj, this, ht]
  have hd'o : ∀ t, t ≠ p → W t = false → d' t = kill d oc t := by
    intro t h1 h2; rw [← hd']; simp [restObj, h1, h2]
  have hnotW : ∀ t, W t = false → t ≠ u := by
    intro t ht hx; rw [hx, hWu] at ht; cases ht
  -- liveness
  have hlived : ∀ s, live d s = live Y s := by
    intro s; rw [live_eq_isSome, live_eq_isSome, hnode]
  have hliveXp : live X p = true := by rw [live_eq_isSome, en.hp]; rfl
  have hliveXu : live X u = true := by simp [live, en.hu, en.hur]
  have hliveXc : ∀ c, oc = some c → live X c = false := fun c hc => live_none (en.hoc c hc).1
  have hlive : ∀ s, live d' s = live X s := by
    intro s
    by_cases h1 : s = p
    · subst h1; rw [hliveXp]; simp [live, hd'p, hpr]
    · cases h2 : W s with
      | true =>
        have e1 : live d' s = live (tombed X) s := by unfold live; rw [hd'W s h2]
        rw [e1, live_tombed]
      | false =>
        by_cases hc : oc = some s
        · rw [hliveXc s hc]
          unfold live; rw [hd'o s h1 h2, hc]
          cases hds : d s <;> simp [kill, hds]
        · have e1 : live d' s = live d s := by unfold live; rw [hd'o s h1 h2, hko s hc]
          rw [e1, hlived s, en.liveY (hnotW s h2) hc]
  -- skeleton
  have hskk : ∀ t, skel (kill d oc) t = skel d t := by
    intro t
    cases hoc : oc with
    | none => rw [kill_none]
    | some c =>
      apply skel_kill_leaf
      rw [hsk, en.skelY]
      simp only [(en.hoc c hoc).2.1, if_false]
      simp [skel, (en.hoc c hoc).1]
  have hskel : ∀ t, skel d' t = skel X t := by
    intro t
    by_cases h1 : t = p
    · subst h1
      obtain ⟨peX, keysX, memberX, hdX, hrX, hbX, _⟩ := absNode_obj en.hp
      rw [skel_some.2 ⟨peX, hdX, by simp [hbX, leafBody], hrX⟩]
      exact skel_some.2 ⟨_, hd'p, by simp [leafBody], hpr⟩
    · cases h2 : W t with
      | true =>
        have e1 : skel d' t = skel (tombed X) t := by unfold skel; rw [hd'W t h2]
        rw [e1, skel_tombed]
      | false =>
        have e1 : skel d' t = skel (kill d oc) t := by unfold skel; rw [hd'o t h1 h2]
        rw [e1, hskk, hsk, en.skelY]; simp [hnotW t h2]
  -- observable nodes
  have hmkc : ∀ c, oc = some c → ∀ k' mm, k' ≠ k → member k' = some mm → mm.child ≠ c := by
    intro c hc k' mm hk' hmk hx
    have := (w.objMem _ _ _ _ _ _ hd hpr hb hmk).2.1
    rw [hx, (en.hoc c hc).2.2.2.1] at this; exact hk' this.symm
  have habs : absNode d' = absNode X := by
    funext t
    by_cases h1 : t = p
    · subst h1
      rw [en.hp]
      unfold absNode
      rw [hd'p]
      simp only [hpr, Bool.false_eq_true, if_false, absBody]
      congr 2
      funext k'
      rw [liveMember_eq, hmem']
      by_cases hk' : k' = k
      · subst hk'; simp only [if_true]; rw [hlive, hliveXu]; exact en.hk.symm
      · simp only [hk', if_false]
        rw [← hlm k' hk', liveMember_eq]
        cases hmk : member k' with
        | none => rfl
        | some mm =>
          simp only []
          have hcu : mm.child ≠ u := by
            intro hx
            have := (w.objMem _ _ _ _ _ _ hd hpr hb hmk).2.1
            rw [hx, hkey] at this; exact hk' this.symm
          have hcc : oc ≠ some mm.child := fun hx => hmkc _ hx k' mm hk' hmk rfl
          rw [hlive, hlived, en.liveY hcu hcc]
    · cases h2 : W t with
      | true =>
        have hl2 : ∀ s, live d' s = live (tombed X) s := fun s => (hlive s).trans (live_tombed s).symm
        have e0 : absNode d' t = absNode (tombed X) t := by
          unfold absNode; rw [hd'W t h2]
          cases hx : tombed X t with
          | none => rfl
          | some e =>
            simp only []
            rw [absBody_congr (d := d') (d' := tombed X) (fun _ _ _ _ _ _ => hl2 _) (fun _ _ _ _ _ _ _ => hl2 _)]
        rw [e0, absNode_tombed]
      | false =>
        have htu := hnotW t h2
        by_cases hc : oc = some t
        · have e0 : absNode X t = none := by simp [absNode, (en.hoc t hc).1]
          rw [e0, absNode_none_iff, hlive, hliveXc t hc]
        · have e1 : absNode X t = absNode d t := by rw [hnode, en.nodeYo t htu h1 hc]
          rw [e1]
          unfold absNode; rw [hd'o t h1 h2, hko t hc]
          cases hx : d t with
          | none => rfl
          | some e =>
            simp only []
            cases hr : e.removed with
            | true => rfl
            | false =>
              simp only [Bool.false_eq_true, if_false]
              congr 1
              apply absBody_congr
              · intro keys2 m2 k2 mm hbe hm2
                have hpc := (w.objMem _ _ _ _ _ _ hx hr hbe hm2).2.2
                have hcu : mm.child ≠ u := by
                  intro hx'
                  rw [hx', hpar] at hpc; injection hpc with hpc; exact h1 hpc.symm
                have hcc : oc ≠ some mm.child := by
                  intro hx'
                  rw [(en.hoc _ hx').2.2.2.2.1] at hpc; injection hpc with hpc; exact h1 hpc.symm
                rw [hlive, hlived, en.liveY hcu hcc]
              · intro nodes mv n c hbe hn hc'
                have hpc := w.arrMem _ _ _ _ _ _ hx hr hbe hn hc'
                have hcu : c ≠ u := by
                  intro hx'
                  rw [hx', hpar] at hpc; injection hpc with hpc; exact h1 hpc.symm
                have hcc : oc ≠ some c := by
                  intro hx'
                  rw [(en.hoc _ hx').2.2.2.2.1] at hpc; injection hpc with hpc; exact h1 hpc.symm
                rw [hlive, hlived, en.liveY hcu hcc]
  -- well-formedness
  have hcontEq : ∀ q, isContainer d' q = isContainer X q := isContainer_of_skel hskel
  have hcontd : ∀ q, isContainer (kill d oc) q = isContainer X q := by
    intro q
    rw [isContainer_kill, isContainer_eq_skel, isContainer_eq_skel, hsk, en.skelY]
    by_cases hq : q = u
    · subst hq; simp
    · simp [hq]
  have hcase : ∀ t e', d' t = some e' → (t = p ∧ e' = { pe with body := .obj keys' member' }) ∨
      (t ≠ p ∧ tombed X t = some e') ∨ (t ≠ p ∧ kill d oc t = some e') := by
    intro t e' h
    by_cases h1 : t = p
    · left; subst h1; rw [hd'p] at h; exact ⟨rfl, (Option.some.inj h).symm⟩
    · cases h2 : W t with
      | true => right; left; rw [hd'W t h2] at h; exact ⟨h1, h⟩
      | false => right; right; rw [hd'o t h1 h2] at h; exact ⟨h1, h⟩
  have wfT : WF H (tombed X) := WF_tombed en.wfX
  have hwf : WF H d' := by
    constructor
    · intro t e' h
      rcases hcase t e' h with ⟨rfl, rfl⟩ | ⟨_, hx⟩ | ⟨_, hx⟩
      · exact w.par _ pe hd
      · exact wfT.par _ _ hx
      · exact wk.par _ _ hx
    · intro t e' q2 h hq2
      rw [hcontEq]
      rcases hcase t e' h with ⟨rfl, rfl⟩ | ⟨_, hx⟩ | ⟨_, hx⟩
      · rw [← hcontd]; exact wk.parCont _ _ _ hkp hq2
      · exact (by rw [← isContainer_of_skel (d := X) (d' := tombed X) skel_tombed]; exact wfT.parCont _ _ _ hx hq2)
      · rw [← hcontd]; exact wk.parCont _ _ _ hx hq2
    · intro q qe keys2 m2 h hbq
      rcases hcase q qe h with ⟨rfl, rfl⟩ | ⟨_, hx⟩ | ⟨_, hx⟩
      · simp only [Body.obj.injEq] at hbq
        obtain ⟨rfl, _⟩ := hbq
        rw [← hkeys']
        split
        · exact insertKey_sorted _ _ (w.objSorted _ _ _ _ hd hb)
        · exact w.objSorted _ _ _ _ hd hb
      · exact wfT.objSorted _ _ _ _ hx hbq
      · exact wk.objSorted _ _ _ _ hx hbq
    · intro q qe keys2 m2 k2 m h hrq hbq hm
      rcases hcase q qe h with ⟨rfl, rfl⟩ | ⟨_, hx⟩ | ⟨_, hx⟩
      · simp only [Body.obj.injEq] at hbq
        obtain ⟨rfl, rfl⟩ := hbq
        rw [hmem'] at hm
        by_cases hk2 : k2 = k
        · subst hk2
          simp only [if_true, Option.some.injEq] at hm
          subst hm
          refine ⟨?_, hkey, hpar⟩
          rw [← hkeys']
          cases hmk : member k2 with
          | none => simp [mem_insertKey]
          | some mm => simpa using (w.objMem _ _ _ _ _ _ hd hpr hb hmk).1
        · simp only [hk2, if_false] at hm
          obtain ⟨a, b, c⟩ := w.objMem _ _ _ _ _ _ hd hpr hb hm
          refine ⟨?_, b, c⟩
          rw [← hkeys']
          split
          · exact (mem_insertKey _ _ _).2 (Or.inr a)
          · exact a
      · exact wfT.objMem _ _ _ _ _ _ hx hrq hbq hm
      · exact wk.objMem _ _ _ _ _ _ hx hrq hbq hm
    · intro q qe nodes mv n c h hrq hbq hn hc
      rcases hcase q qe h with ⟨rfl, rfl⟩ | ⟨_, hx⟩ | ⟨_, hx⟩
      · simp at hbq
      · exact wfT.arrMem _ _ _ _ _ _ hx hrq hbq hn hc
      · exact wk.arrMem _ _ _ _ _ _ hx hrq hbq hn hc
  -- bounds
  have hbd : Bounded d' ts.lamport := by
    have bdX' := en.bdX.mono (show L ≤ ts.lamport by omega)
    have bdT' := (Bounded_tombed en.bdX).mono (show L ≤ ts.lamport by omega)
    have bd' := bd.mono (show Ld ≤ ts.lamport by omega)
    have bdk' := bdk.mono (show Ld ≤ ts.lamport by omega)
    constructor
    · intro t e' h
      rcases hcase t e' h with ⟨rfl, rfl⟩ | ⟨_, hx⟩ | ⟨_, hx⟩
      · exact bd'.ent _ _ hd
      · exact bdT'.ent _ _ hx
      · exact bdk'.ent _ _ hx
    · intro q qe keys2 m2 k2 m h hbq hm
      rcases hcase q qe h with ⟨rfl, rfl⟩ | ⟨_, hx⟩ | ⟨_, hx⟩
      · simp only [Body.obj.injEq] at hbq
        obtain ⟨rfl, rfl⟩ := hbq
        rw [hmem'] at hm
        by_cases hk2 : k2 = k
        · simp only [hk2, if_true, Option.some.injEq] at hm; subst hm; exact Int.le_refl _
        · simp only [hk2, if_false] at hm; exact bd'.pos _ _ _ _ _ _ hd hb hm
      · exact bdT'.pos _ _ _ _ _ _ hx hbq hm
      · exact bdk'.pos _ _ _ _ _ _ hx hbq hm
    · intro q qe keys2 m2 k2 m h hbq hm
      rcases hcase q qe h with ⟨rfl, rfl⟩ | ⟨_, hx⟩ | ⟨_, hx⟩
      · simp only [Body.obj.injEq] at hbq
        obtain ⟨rfl, rfl⟩ := hbq
        rw [hmem'] at hm
        by_cases hk2 : k2 = k
        · simp only [hk2, if_true, Option.some.injEq] at hm; subst hm; exact bdX'.ent _ _ en.hu
        · simp only [hk2, if_false] at hm; exact bd'.child _ _ _ _ _ _ hd hb hm
      · exact bdT'.child _ _ _ _ _ _ hx hbq hm
      · exact bdk'.child _ _ _ _ _ _ hx hbq hm
    · intro q qe nodes mv n c h hbq hn hc
      rcases hcase q qe h with ⟨rfl, rfl⟩ | ⟨_, hx⟩ | ⟨_, hx⟩
      · simp at hbq
      · exact bdT'.elem _ _ _ _ _ _ hx hbq hn hc
      · exact bdk'.elem _ _ _ _ _ _ hx hbq hn hc
  exact ⟨d', q, hex, hwf, hbd, hskel, habs, hfwd⟩

end restore

end Yorkie.Undo
