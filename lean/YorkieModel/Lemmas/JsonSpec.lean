/-
List-level vocabulary of the C07 array specifications (`moveTo`) and the glue between an index
into the visible list and the hypotheses of the per-call lemmas.
-/
import YorkieModel.Lemmas.JsonCalls
namespace Yorkie.Json
open Yorkie Yorkie.Crdt

set_option linter.unusedSimpArgs false

/-- the plain list move: take `x` out of the list and put it back directly after the first `k`
    elements of the ORIGINAL list (`k = 0`: front; `k = length`: end) -/
def moveTo (l : List Ticket) (k : Nat) (x : Ticket) : List Ticket :=
  (l.take k).erase x ++ x :: (l.drop k).erase x

theorem moveTo_of_filter {l : List Ticket} (hn : l.Nodup) (k : Nat) (x : Ticket) :
    (l.take k).filter (isNot x) ++ x :: (l.drop k).filter (isNot x) = moveTo l k x := by
  unfold moveTo
  rw [filter_isNot_eq_erase ((List.take_sublist k l).nodup hn),
    filter_isNot_eq_erase ((List.drop_sublist k l).nodup hn)]

theorem moveTo_perm {l : List Ticket} (hn : l.Nodup) (k : Nat) {x : Ticket} (hx : x ∈ l) :
    (moveTo l k x).Perm l := by
  rw [← moveTo_of_filter hn]
  refine List.perm_middle.trans ?_
  rw [← List.filter_append, List.take_append_drop, filter_isNot_eq_erase hn]
  exact (List.perm_cons_erase hx).symm

theorem moveTo_zero {l : List Ticket} (hn : l.Nodup) {j : Nat} {x : Ticket} (h : l[j]? = some x) :
    moveTo l 0 x = x :: l.eraseIdx j := by
  unfold moveTo
  simp only [List.take_zero, List.erase_nil, List.nil_append, List.drop_zero]
  rw [← filter_isNot_eq_erase hn, filter_isNot_eq_eraseIdx hn h]

theorem moveTo_length {l : List Ticket} (hn : l.Nodup) {j : Nat} {x : Ticket} (h : l[j]? = some x) :
    moveTo l l.length x = l.eraseIdx j ++ [x] := by
  unfold moveTo
  simp only [List.take_length, List.drop_length, List.erase_nil]
  rw [← filter_isNot_eq_erase hn, filter_isNot_eq_eraseIdx hn h]

/-- moving in front of another element: `x` ends up directly before `next` -/
theorem moveTo_before {l : List Ticket} {i : Nat} {next x : Ticket}
    (hi : l[i]? = some next) (hne : next ≠ x) :
    moveTo l i x = (l.take i).erase x ++ x :: next :: (l.drop (i + 1)).erase x := by
  unfold moveTo
  have hd : l.drop i = next :: l.drop (i + 1) := by
    have := take_append_getElem_drop hi
    conv => lhs; rw [this]
    have hlen : (l.take i).length = i := by
      rw [List.length_take]; have := (List.getElem?_eq_some_iff.1 hi).1; omega
    rw [List.drop_append_of_le_length (by omega), List.drop_of_length_le (by omega)]
    rfl
  rw [hd, List.erase_cons]
  have : (next == x) = false := by simpa using hne
  rw [this]; rfl

/-- moving an element in front of itself changes nothing -/
theorem moveTo_self {l : List Ticket} (hn : l.Nodup) {i : Nat} {x : Ticket} (hi : l[i]? = some x) :
    moveTo l i x = l := by
  unfold moveTo
  have hsplit := take_append_getElem_drop hi
  have hlen : (l.take i).length = i := by
    rw [List.length_take]; have := (List.getElem?_eq_some_iff.1 hi).1; omega
  have hd : l.drop i = x :: l.drop (i + 1) := by
    conv => lhs; rw [hsplit]
    rw [List.drop_append_of_le_length (by omega), List.drop_of_length_le (by omega)]
    rfl
  have hnot : x ∉ l.take i := by
    intro hm
    rw [hsplit] at hn
    have := (List.nodup_append.1 hn).2.2 x hm x (List.mem_cons_self ..)
    exact this rfl
  rw [hd, List.erase_cons_head, List.erase_of_not_mem hnot, ← hsplit]

/-- an in-range index into the visible list -/
theorem visible_idx {d : Doc} {a : Ticket} {i : Nat} (h : i < (arrLive d a).length) :
    ∃ nodes t, arrNodes d a = some nodes ∧ arrLive d a = liveOf d nodes ∧
      (liveOf d nodes)[i]? = some t ∧ (arrLive d a)[i]? = some t := by
  cases hn : arrNodes d a with
  | none =>
    have : arrLive d a = [] := by unfold arrLive; rw [hn]
    rw [this] at h; simp at h
  | some nodes =>
    have e : arrLive d a = liveOf d nodes := by unfold arrLive; rw [hn]
    rw [e] at h ⊢
    exact ⟨nodes, (liveOf d nodes)[i], rfl, rfl, List.getElem?_eq_getElem h, List.getElem?_eq_getElem h⟩

theorem arrLive_get {d : Doc} {arr t : Ticket} {idx : Nat} (h : (arrLive d arr)[idx]? = some t) :
    ∃ nodes, arrNodes d arr = some nodes ∧ arrLive d arr = liveOf d nodes ∧
      (liveOf d nodes)[idx]? = some t := by
  cases hn : arrNodes d arr with
  | none =>
    have : arrLive d arr = [] := by unfold arrLive; rw [hn]
    rw [this] at h; simp at h
  | some nodes =>
    have e : arrLive d arr = liveOf d nodes := by unfold arrLive; rw [hn]
    exact ⟨nodes, rfl, e, e ▸ h⟩

theorem visible_nodup {d : Doc} {a : Ticket} (hi : Inv d) : (arrLive d a).Nodup := by
  unfold arrLive
  cases hn : arrNodes d a with
  | none => exact List.nodup_nil
  | some nodes =>
    obtain ⟨pe, moved, ha⟩ := arrNodes_eq_some.1 hn
    exact liveOf_nodup (ha.ok hi).elemNodup

/-! ### `Marshal()` prints exactly the visible structure -/

theorem marshal_arr {d : Doc} {arr : Ticket} {nodes : List PosNode} (fuel : Nat)
    (ha : arrNodes d arr = some nodes) :
    marshal d (fuel + 1) arr = "[" ++ joinComma ((arrLive d arr).map (marshal d fuel)) ++ "]" := by
  obtain ⟨pe, moved, ha'⟩ := arrNodes_eq_some.1 ha
  rw [ha'.arrLive]
  simp only [marshal, ha'.hp, ha'.hb]
  congr 2
  congr 1
  clear ha ha'
  induction nodes with
  | nil => rfl
  | cons n r ih =>
    rw [List.filterMap_cons, liveOf_cons, List.map_append, ← ih]
    unfold nodeLive live
    cases n.elem with
    | none => rfl
    | some c =>
      simp only
      cases d c with
      | none => rfl
      | some ce => cases h : ce.removed <;> simp [h]

def showMember (d : Doc) (fuel : Nat) (o : Ticket) (k : String) : String :=
  match objGet d o k with
  | some c => "\"" ++ k ++ "\":" ++ marshal d fuel c
  | none => ""

theorem marshal_obj {d : Doc} {o : Ticket} {keys : List String} {member : String → Option Member}
    (fuel : Nat) (ho : objBody d o = some (keys, member)) :
    marshal d (fuel + 1) o = "{" ++ joinComma ((objKeys d o).map (showMember d fuel o)) ++ "}" := by
  obtain ⟨pe, ho'⟩ := objBody_eq_some.1 ho
  have hget : ∀ k, objGet d o k = memberLive d (member k) := by
    intro k; unfold objGet; rw [ho]
  unfold objKeys
  rw [ho]
  simp only [marshal, ho'.hp, ho'.hb]
  congr 2
  congr 1
  clear ho ho'
  induction keys with
  | nil => rfl
  | cons k r ih =>
    rw [List.filterMap_cons, List.filter_cons, ih]
    have hkl : keyLive d member k = (memberLive d (member k)).isSome := rfl
    rw [hkl]
    cases hm : member k with
    | none => simp [memberLive]
    | some m =>
      simp only
      cases hd : d m.child with
      | none => simp [memberLive, live, hd]
      | some ce =>
        cases h : ce.removed <;> simp [memberLive, live, hd, h, showMember, hget, hm]

end Yorkie.Json
