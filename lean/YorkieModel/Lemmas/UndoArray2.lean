/-
Lemmas for C14, part 11: redo at depth 1 for arrays.  The re-insertion of a deleted leaf element
under a fresh identity, stated on an arbitrary heap (`reinsert_core`), and the two round trips
insert / undo / redo and delete / undo / redo.
-/
import YorkieModel.Lemmas.UndoArray
namespace Yorkie.Undo
open Yorkie Yorkie.Crdt

/-- `u ↦ t'`, every other identity stays -/
def ren1 (u t' : Ticket) (c : Ticket) : Ticket := if c = u then t' else c

/-- `ArrDel` on a heap `d` whose identities are bounded by `L` -/
structure ArrAt (d : Doc) (L : Int) (p u : Ticket) (pe ue : Elem) (nodes : List PosNode)
    (moved : Ticket → Option Ticket) : Prop where
  hd : d p = some pe
  hpr : pe.removed = false
  hb : pe.body = .arr nodes moved
  hu : d u = some ue
  hur : ue.removed = false
  hul : leafBody ue.body = true
  hheld : holds nodes u = true
  huniq : ∀ a ∈ nodes, ∀ b ∈ nodes, a.elem = some u → b.elem = some u → a = b
  hpos : nodes.Pairwise (fun a b => a.pos ≠ b.pos)
  hhead : ∀ n ∈ nodes, n.pos ≠ headId
  hposL : ∀ n ∈ nodes, n.pos.lamport ≤ L

theorem ArrDel.toAt {h : Hist} {p u : Ticket} {pe ue : Elem} {nodes : List PosNode}
    {moved : Ticket → Option Ticket} (a : ArrDel h p u pe ue nodes moved) :
    ArrAt h.doc h.lamport p u pe ue nodes moved :=
  ⟨a.hd, a.hpr, a.hb, a.hu, a.hur, a.hul, a.hheld, a.huniq, a.hpos, a.hhead, a.hposL⟩

/-- the heap after the deleted element `u` came back as `t'` -/
def reins (d : Doc) (p u : Ticket) (pe ue : Elem) (nodes2 : List PosNode) (moved : Ticket → Option Ticket)
    (t' : Ticket) : Doc :=
  ((kill d (some u)).set t' ⟨some p, false, ue.body⟩).set p { pe with body := .arr nodes2 moved }

/-- the copy of a leaf that `Remove` puts into its reverse operation -/
def leafCopy (u : Ticket) (ue : Elem) : UVal := { id := u, removed := false, body := ue.body, sub := [] }

/-- re-inserting the (just tombstoned) leaf element `u` of the array `p` under the later identity `t'`
    behind its nearest live predecessor: the operation succeeds, its reverse is `remove p t'`, and the
    result has, renamed, the visible normal forms of the heap before the deletion -/
theorem reinsert_core {H : Home} {d : Doc} {L : Int} {p u : Ticket} {pe ue : Elem} {nodes : List PosNode}
    {moved : Ticket → Option Ticket} (w : WF H d) (bd : Bounded d L) (a : ArrAt d L p u pe ue nodes moved)
    (tw : Ticket → Bool) {t' : Ticket} (ht' : L < t'.lamport) :
    ∃ pv nodes2, findPrev d nodes u = some pv ∧
      uexecute (kill d (some u)) tw .undoRedo (.add p pv ((leafCopy u ue).reid t') t') =
        .ok (reins d p u pe ue nodes2 moved t', some (.remove p t' t')) ∧
      holds nodes2 t' = true ∧
      (∀ c, live d c = true →
        vis (reins d p u pe ue nodes2 moved t') (ren1 u t' c) = (vis d c).map (ren1 u t')) := by
  obtain ⟨hd, hpr, hb, hu, hur, hul, hheld, huniq, hpos, hhead, hposL⟩ := a
  obtain ⟨r, hr⟩ := prefixBefore_isSome u nodes [] hheld
  obtain ⟨pre, nu, C, hnodes, hrr, hnu, hpre⟩ := prefixBefore_split u nodes [] r hr
  simp only [List.append_nil] at hrr
  have hnumem : nu ∈ nodes := by rw [hnodes]; simp
  have hparu : H.par u = some p := w.arrMem _ _ _ _ _ _ hd hpr hb hnumem hnu
  have hpu : p ≠ u := by intro hx; subst hx; rw [hd] at hu; injection hu with hu; subst hu; simp [hb, leafBody] at hul
  have hfp : findPrev d nodes u = some (prevLive d pre.reverse) := by simp [findPrev, hr, hrr]
  have hfresh' : ∀ e, d t' ≠ some e := fun e he => by have := bd.ent _ _ he; omega
  have hd1p : kill d (some u) p = some pe := by
    have : ¬ u = p := fun hx => hpu hx.symm
    simp [kill, this, hd]
  have htp : ¬ t' = p := fun hx => hfresh' pe (hx ▸ hd)
  -- liveness after the re-insertion
  have hlive2 : ∀ nodes2 c, live (reins d p u pe ue nodes2 moved t') c =
      if c = t' then true else if c = u then false else live d c := by
    intro nodes2 c
    unfold live
    simp only [reins, set_apply]
    by_cases h1 : c = t'
    · subst h1; simp [htp]
    · by_cases h2 : c = p
      · subst h2
        have : ¬ c = u := hpu
        simp [h1, this, hd]
      · simp only [h1, h2, if_false]
        by_cases h3 : c = u
        · subst h3; simp [kill, hu]
        · have : ¬ u = c := fun hx => h3 hx.symm
          simp [kill, this, h3]
  -- the list after re-insertion
  have hnuu : arrEntry d nu = some u := by simp [arrEntry, hnu, live_some hu, hur]
  have hother : ∀ n ∈ nodes, n ≠ nu → n.elem ≠ some u := fun n hn hne hx => hne (huniq n hn nu hnumem hx hnu)
  have hlist : ∀ g2 : PosNode → Option Ticket,
      (∀ n ∈ nodes, n ≠ nu → g2 n = arrEntry d n) → g2 nu = none → g2 ⟨t', some t'⟩ = some t' →
      ∃ nodes2, insertAfter (prevLive d pre.reverse) ⟨t', some t'⟩ nodes = some nodes2 ∧
        nodes2.filterMap g2 = (nodes.filterMap (arrEntry d)).map (fun c => if c = u then t' else c) := by
    intro g2 h1 h2 h3
    rw [hnodes]
    apply reinsert_list (L := L) hnu hnuu (hnodes ▸ hpos) (hnodes ▸ hhead) (hnodes ▸ hposL) ht' _ h2 h3
    intro n hn hne
    refine ⟨h1 n (hnodes ▸ hn) hne, ?_⟩
    intro c hc hcu
    subst hcu
    exact hother n (hnodes ▸ hn) hne (arrEntry_some hc).1
  let g2 : PosNode → Option Ticket := fun n =>
    match n.elem with
    | some c => if (if c = t' then true else if c = u then false else live d c) = true then some c else none
    | none => none
  have hg2 : ∀ nodes2, arrEntry (reins d p u pe ue nodes2 moved t') = g2 := by
    intro nodes2; funext n
    cases hc : n.elem with
    | none => simp [arrEntry, g2, hc]
    | some c => simp [arrEntry, g2, hc, hlive2]
  obtain ⟨nodes2, hins, hfm⟩ := hlist g2
    (by
      intro n hn hne
      simp only [g2, arrEntry]
      cases hc : n.elem with
      | none => rfl
      | some c =>
        have h1 : c ≠ u := fun hx => hother n hn hne (hx ▸ hc)
        have h2 : c ≠ t' := fun hx => by have := bd.elem _ _ _ _ _ _ hd hb hn hc; rw [hx] at this; omega
        simp [h1, h2])
    (by
      have : ¬ u = t' := fun hx => hfresh' ue (hx ▸ hu)
      simp [g2, hnu, this])
    (by simp [g2])
  refine ⟨prevLive d pre.reverse, nodes2, hfp, ?_, ?_, ?_⟩
  · have happ : applyAddU (kill d (some u)) p (prevLive d pre.reverse) ((leafCopy u ue).reid t') t' =
        .ok (reins d p u pe ue nodes2 moved t') := by
      unfold applyAddU
      simp only [hd1p, hb, arrAdd, hins, Option.map_some]
      rw [instantiate_leaf _ _ _ _ (by simpa [UVal.reid, leafCopy] using hul)]
      rfl
    simp only [uexecute, UVal.reid, leafCopy, ne_eq, not_true_eq_false, if_false]
    simp only [UVal.reid, leafCopy] at happ
    rw [happ]
    rfl
  · exact holds_iff.2 ⟨_, (mem_insertAfter hins).2 (Or.inl rfl), rfl⟩
  · intro a hla
    have hat' : a ≠ t' := by
      intro hx; obtain ⟨e, he, _⟩ := live_elem hla; exact hfresh' e (hx ▸ he)
    by_cases h1 : a = u
    · subst h1
      simp only [ren1, if_true, vis, reins, set_apply, htp, if_false, hu]
      exact visBody_leaf hul _ _
    · simp only [ren1, h1, if_false]
      by_cases h2 : a = p
      · subst h2
        simp only [vis, reins, set_apply, if_true, hd, hb, visBody, Vis.map]
        have := hg2 nodes2
        simp only [reins] at this
        rw [this, hfm]
        rfl
      · have hda : (reins d p u pe ue nodes2 moved t') a = d a := by
          have : ¬ u = a := fun hx => h1 hx.symm
          simp [reins, set_apply, h2, hat', kill, this]
        cases hdoc : d a with
        | none => simp [vis, hda, hdoc, Vis.map]
        | some e =>
          have her : e.removed = false := by rw [live_some hdoc] at hla; simpa using hla
          have hch : ∀ c ∈ (vis d a).children, c ≠ u ∧ c ≠ t' := by
            intro c hc
            rcases vis_children_ref hdoc hc with ⟨keys, m, k, mm, hbe, hmm, rfl⟩ | ⟨ns, mv, n, hbe, hn, hne⟩
            · constructor
              · intro hx
                have := (w.objMem _ _ _ _ _ _ hdoc her hbe hmm).2.2
                rw [hx, hparu] at this; injection this with this; exact h2 this.symm
              · intro hx
                have := bd.child _ _ _ _ _ _ hdoc hbe hmm; rw [hx] at this; omega
            · constructor
              · intro hx
                have := w.arrMem _ _ _ _ _ _ hdoc her hbe hn hne
                rw [hx, hparu] at this; injection this with this; exact h2 this.symm
              · intro hx
                have := bd.elem _ _ _ _ _ _ hdoc hbe hn hne; rw [hx] at this; omega
          rw [Vis.map_fix (fun c hc => by simp [ren1, (hch c hc).1])]
          simp only [vis, hda, hdoc]
          apply visBody_congr
          · intro keys m k mm hbe hmm
            rw [hlive2]
            have hc1 : mm.child ≠ u := by
              intro hx
              have := (w.objMem _ _ _ _ _ _ hdoc her hbe hmm).2.2
              rw [hx, hparu] at this; injection this with this; exact h2 this.symm
            have hc2 : mm.child ≠ t' := by
              intro hx
              have := bd.child _ _ _ _ _ _ hdoc hbe hmm; rw [hx] at this; omega
            simp [hc1, hc2]
          · intro ns mv n c hbe hn hne
            rw [hlive2]
            have hc1 : c ≠ u := by
              intro hx
              have := w.arrMem _ _ _ _ _ _ hdoc her hbe hn hne
              rw [hx, hparu] at this; injection this with this; exact h2 this.symm
            have hc2 : c ≠ t' := by
              intro hx
              have := bd.elem _ _ _ _ _ _ hdoc hbe hn hne; rw [hx] at this; omega
            simp [hc1, hc2]

/-! ### tombstoning and the visible normal form -/

def Vis.drop (u : Ticket) : Vis → Vis
  | .obj l => .obj (l.filter (fun kc => kc.2 ≠ u))
  | .arr l => .arr (l.filter (fun c => c ≠ u))
  | v => v

theorem visBody_kill (d : Doc) (u : Ticket) (b : Body) : visBody (kill d (some u)) b = (visBody d b).drop u := by
  cases b with
  | prim r => rfl
  | «opaque» r => rfl
  | counter l v => rfl
  | obj keys m =>
    simp only [visBody, Vis.drop, List.filter_filterMap]
    congr 1
    apply filterMap_congr'
    intro k _
    unfold objEntry
    cases hm : m k with
    | none => rfl
    | some mm =>
      simp only [live_kill]
      by_cases h : mm.child = u
      · by_cases hl : live d u = true <;> simp [h, hl, Option.filter]
      · by_cases hl : live d mm.child = true <;> simp [h, hl, Option.filter]
  | arr nodes mv =>
    simp only [visBody, Vis.drop, List.filter_filterMap]
    congr 1
    apply filterMap_congr'
    intro n _
    unfold arrEntry
    cases hm : n.elem with
    | none => rfl
    | some c =>
      simp only [live_kill]
      by_cases h : c = u
      · by_cases hl : live d u = true <;> simp [h, hl, Option.filter]
      · by_cases hl : live d c = true <;> simp [h, hl, Option.filter]

theorem vis_kill (d : Doc) (u a : Ticket) : vis (kill d (some u)) a = (vis d a).drop u := by
  unfold vis
  cases hd : d a with
  | none =>
    have : kill d (some u) a = none := by unfold kill; split <;> simp [hd]
    rw [this]; rfl
  | some e =>
    have : ∃ e', kill d (some u) a = some e' ∧ e'.body = e.body := by
      unfold kill; split
      · exact ⟨{ e with removed := true }, by rw [hd]; rfl, rfl⟩
      · exact ⟨e, hd, rfl⟩
    obtain ⟨e', he', hb'⟩ := this
    rw [he']
    simp only [hb']
    exact visBody_kill d u e.body

theorem Vis.drop_map {ρ : Ticket → Ticket} {u t' : Ticket} {v : Vis}
    (h : ∀ c ∈ v.children, (ρ c = t' ↔ c = u)) : (v.map ρ).drop t' = (v.drop u).map ρ := by
  cases v with
  | absent => rfl
  | leaf s => rfl
  | obj l =>
    simp only [Vis.map, Vis.drop, List.filter_map]
    congr 2
    apply List.filter_congr
    intro x hx
    have := h x.2 (by simp only [Vis.children, List.mem_map]; exact ⟨x, hx, rfl⟩)
    simp only [Function.comp, ne_eq, decide_not, this]
  | arr l =>
    simp only [Vis.map, Vis.drop, List.filter_map]
    congr 2
    apply List.filter_congr
    intro x hx
    have := h x hx
    simp only [Function.comp, ne_eq, decide_not, this]

/-! ### `isRemovedOrOrphaned` only looks at containers above the element -/

theorem orphaned_ext_cont {H : Home} {d d1 : Doc} {tw : Ticket → Bool} (w : WF H d)
    (hagree : ∀ t e, d t = some e → leafBody e.body = false →
      ∃ e1, d1 t = some e1 ∧ e1.removed = e.removed ∧ e1.parent = e.parent) :
    ∀ (f : Nat) (t : Ticket), isContainer d t = true → orphaned d1 tw f t = orphaned d tw f t
  | 0, _, _ => rfl
  | f + 1, t, ht => by
    obtain ⟨e, hd, hb⟩ := isContainer_iff.1 ht
    obtain ⟨e1, hd1, hr, hp⟩ := hagree t e hd hb
    simp only [orphaned, hd, hd1, hr, hp]
    cases hpar : e.parent with
    | none => rfl
    | some q =>
      simp only []
      have hq : isContainer d q = true := w.parCont t e q hd ((w.par t e hd) ▸ hpar)
      rw [orphaned_ext_cont w hagree f q hq]

/-! ### removal of a live array element, with its reverse -/

theorem uexecute_remove_arr {d : Doc} {tw : Ticket → Bool} {src : Source} {p x ts : Ticket} {pe xe : Elem}
    {nodes : List PosNode} {moved : Ticket → Option Ticket}
    (hd : d p = some pe) (hb : pe.body = .arr nodes moved) (hx : d x = some xe) (hxp : xe.parent = some p)
    (hh : holds nodes x = true) (hsrc : src.needsReverse = true)
    (horph : src = .undoRedo → orphaned d tw orphanFuel x = false) (hafter : ts.after x = true) :
    ∃ pv cv, findPrev d nodes x = some pv ∧ capture d x = some cv ∧
      uexecute d tw src (.remove p x ts) = .ok (kill d (some x), some (.add p pv cv ts)) := by
  obtain ⟨pv, hpv, _⟩ := findPrev_ok (d := d) hh
  have hcap : ∃ cv, capture d x = some cv := by simp [capture, hx]
  obtain ⟨cv, hcv⟩ := hcap
  refine ⟨pv, cv, hpv, hcv, ?_⟩
  have hcont : isContainer d p = true := by simp [isContainer, hd, hb]
  have hchild : isChildOf d x p = true := by simp [isChildOf, hx, hxp]
  have hk : markRemoved d x ts = kill d (some x) := markRemoved_eq_kill (fun _ _ => hafter)
  have hsk : (decide (src = Source.undoRedo) && orphaned d tw orphanFuel x) = false := by
    by_cases hs : src = .undoRedo
    · simp [horph hs]
    · simp [hs]
  simp only [uexecute, hcont, Bool.not_true, Bool.false_eq_true, if_false, hsk, hsrc, if_true,
    reverseRemove, hcv, hd, hb, hpv, applyRemove, hchild, hh, Bool.and_self, hk]
  rfl

/-! ### the history machine on a single `Add` entry -/

theorem undo_add_entry {h : Hist} {p pv ts0 : Ticket} {cv : UVal} {rest : List (List UOp)} {d' : Doc} {q : UOp}
    (hu : h.undo = [.add p pv cv ts0] :: rest)
    (he : uexecute h.doc noTw .undoRedo (.add p pv (cv.reid h.next) h.next) = .ok (d', some q)) :
    undo h = { h with undo := reconcileStack cv.id h.next rest,
                      redo := push (reconcileStack cv.id h.next h.redo) [q],
                      doc := d', lamport := h.lamport + 1 } := by
  unfold Hist.next at he ⊢
  simp only [undo, undoRedo_eq, hu, if_true, List.isEmpty_cons, Bool.false_eq_true, if_false, reticket_single,
    Hist.reconcile_eq, runOps_cons, runOps_nil, he, List.nil_append, Option.toList_some, List.reverse_cons,
    List.reverse_nil]

theorem redo_add_entry {h : Hist} {p pv ts0 : Ticket} {cv : UVal} {rest : List (List UOp)} {d' : Doc} {q : UOp}
    (hu : h.redo = [.add p pv cv ts0] :: rest)
    (he : uexecute h.doc noTw .undoRedo (.add p pv (cv.reid h.next) h.next) = .ok (d', some q)) :
    redo h = { h with redo := reconcileStack cv.id h.next rest,
                      undo := push (reconcileStack cv.id h.next h.undo) [q],
                      doc := d', lamport := h.lamport + 1 } := by
  unfold Hist.next at he ⊢
  simp only [redo, undoRedo_eq, hu, Bool.false_eq_true, if_false, List.isEmpty_cons, reticket_single,
    Hist.reconcile_eq, runOps_cons, runOps_nil, he, List.nil_append, Option.toList_some, List.reverse_cons,
    List.reverse_nil]

/-! ### delete / undo / redo -/

theorem redo_doc_of_push {g : Hist} {r q : UOp} {s : List (List UOp)} {d' : Doc}
    (hr : g.redo = push s [r]) (hp : r.plain = true)
    (he : uexecute g.doc noTw .undoRedo (r.withTs g.next) = .ok (d', some q)) : (redo g).doc = d' := by
  rw [push_eq] at hr
  rw [redo_one hr hp he]

theorem undo_doc_of_push {g : Hist} {r q : UOp} {s : List (List UOp)} {d' : Doc}
    (hr : g.undo = push s [r]) (hp : r.plain = true)
    (he : uexecute g.doc noTw .undoRedo (r.withTs g.next) = .ok (d', some q)) : (undo g).doc = d' := by
  rw [push_eq] at hr
  rw [undo_one hr hp he]

theorem reins_p (d : Doc) (p u : Ticket) (pe ue : Elem) (nodes2 : List PosNode) (moved : Ticket → Option Ticket)
    (t' : Ticket) : reins d p u pe ue nodes2 moved t' p = some { pe with body := .arr nodes2 moved } := by
  simp [reins, set_apply]

theorem reins_new (d : Doc) {p : Ticket} (u : Ticket) (pe ue : Elem) (nodes2 : List PosNode)
    (moved : Ticket → Option Ticket) {t' : Ticket} (h : t' ≠ p) :
    reins d p u pe ue nodes2 moved t' t' = some ⟨some p, false, ue.body⟩ := by
  simp [reins, set_apply, h]

theorem reins_other (d : Doc) {p u : Ticket} (pe ue : Elem) (nodes2 : List PosNode)
    (moved : Ticket → Option Ticket) {t' c : Ticket} (h1 : c ≠ p) (h2 : c ≠ t') (h3 : c ≠ u) :
    reins d p u pe ue nodes2 moved t' c = d c := by
  have : ¬ u = c := fun hx => h3 hx.symm
  simp [reins, set_apply, h1, h2, kill, this]

/-- the restored element is not orphaned when the array is not -/
theorem orphaned_reins {H : Home} {d : Doc} {L : Int} {p u : Ticket} {pe ue : Elem} {nodes : List PosNode}
    {moved : Ticket → Option Ticket} (w : WF H d) (bd : Bounded d L) (a : ArrAt d L p u pe ue nodes moved)
    {tw : Ticket → Bool} {t' : Ticket} (ht' : L < t'.lamport) (htw : tw t' = false) (nodes2 : List PosNode)
    (horph : orphaned d tw orphanFuel p = false) :
    orphaned (reins d p u pe ue nodes2 moved t') tw orphanFuel t' = false := by
  have htp : t' ≠ p := fun hx => by have := bd.ent _ _ (hx ▸ a.hd); omega
  have hagree : ∀ t e, d t = some e → leafBody e.body = false →
      ∃ e1, reins d p u pe ue nodes2 moved t' t = some e1 ∧ e1.removed = e.removed ∧ e1.parent = e.parent := by
    intro t e hte hlb
    by_cases h1 : t = p
    · subst h1; rw [a.hd] at hte; injection hte with hte; subst hte
      exact ⟨_, reins_p _ _ _ _ _ _ _ _, rfl, rfl⟩
    · have h2 : t ≠ t' := fun hx => by have := bd.ent _ _ (hx ▸ hte); omega
      have h3 : t ≠ u := fun hx => by
        subst hx; rw [a.hu] at hte; injection hte with hte; subst hte; rw [a.hul] at hlb; cases hlb
      exact ⟨e, by rw [reins_other _ _ _ _ _ h1 h2 h3]; exact hte, rfl, rfl⟩
  have hcont : isContainer d p = true := by simp [isContainer, a.hd, a.hb]
  have h63 : orphaned (reins d p u pe ue nodes2 moved t') tw 63 p = false := by
    rw [orphaned_ext_cont w hagree 63 p hcont]; exact orphaned_mono _ _ 63 p horph
  rw [show orphanFuel = 63 + 1 from rfl, orphaned_succ_some (reins_new d u pe ue nodes2 moved htp) rfl, htw, h63]; rfl

theorem ArrAt.parent {H : Home} {d : Doc} {L : Int} {p u : Ticket} {pe ue : Elem} {nodes : List PosNode}
    {moved : Ticket → Option Ticket} (w : WF H d) (a : ArrAt d L p u pe ue nodes moved) : ue.parent = some p := by
  obtain ⟨n, hn, hne⟩ := holds_iff.1 a.hheld
  exact (w.par _ _ a.hu).trans (w.arrMem _ _ _ _ _ _ a.hd a.hpr a.hb hn hne)

theorem redo_undo_do_array_delete_lemma {h : Hist} {p u : Ticket} {pe ue : Elem} {nodes : List PosNode}
    {moved : Ticket → Option Ticket} (fr : Fresh h) (a : ArrDel h p u pe ue nodes moved)
    (horph : orphaned h.doc noTw orphanFuel p = false) (fuel : Nat) :
    marshal (redo (undo (doChange h [.remove p u h.next]))).doc fuel rootId =
      marshal (doChange h [.remove p u h.next]).doc fuel rootId := by
  obtain ⟨H, w⟩ := fr.wf
  have bd := fr.bd
  have aa := a.toAt
  have hupar := aa.parent w
  -- the forward removal
  have hafter1 : h.next.after u = true :=
    after_of_lamport (by have := bd.ent _ _ a.hu; simp only [Hist.next]; omega)
  obtain ⟨pv1, cv1, hfp1, hcv1, he1⟩ := uexecute_remove_arr (tw := noTw) (src := .loc) (ts := h.next)
    a.hd a.hb a.hu hupar a.hheld rfl (by intro hx; cases hx) hafter1
  rw [capture_leaf a.hu a.hul, a.hur] at hcv1
  have hcv1' : cv1 = leafCopy u ue := (Option.some.inj hcv1).symm
  subst hcv1'
  rw [doChange_one (by rfl) he1]
  -- the undo re-inserts under `t'`
  generalize ht' : (⟨h.lamport + 1 + 1, 1, h.actor⟩ : Ticket) = t'
  have ht'l : t'.lamport = h.lamport + 2 := by rw [← ht']; simp only []; omega
  obtain ⟨pv, nodes2, hfp, he2, hh2, hvis⟩ := reinsert_core w bd aa noTw (t' := t') (by omega)
  rw [hfp1] at hfp
  have hpv : pv1 = pv := Option.some.inj hfp
  subst hpv
  rw [undo_add_entry (cv := leafCopy u ue) (push_eq _ _) (by rw [← ht'] at he2; exact he2)]
  simp only [Hist.next, ht']
  -- the redo removes `t'` again
  generalize hd2 : reins h.doc p u pe ue nodes2 moved t' = d2 at he2 hvis
  have htp : t' ≠ p := fun hx => by have := bd.ent _ _ (hx ▸ a.hd); omega
  have hd2p : d2 p = some { pe with body := .arr nodes2 moved } := by rw [← hd2]; exact reins_p _ _ _ _ _ _ _ _
  have hd2t : d2 t' = some ⟨some p, false, ue.body⟩ := by rw [← hd2]; exact reins_new _ _ _ _ _ _ htp
  have htw' : noTw t' = false := rfl
  have horph2 : orphaned d2 noTw orphanFuel t' = false := by
    rw [← hd2]; exact orphaned_reins w bd aa (by omega) htw' nodes2 horph
  generalize ht'' : (⟨h.lamport + 1 + 1 + 1, 1, h.actor⟩ : Ticket) = t''
  have hafter2 : t''.after t' = true := after_of_lamport (by rw [← ht'']; simp only []; omega)
  obtain ⟨pv3, cv3, _, _, he3⟩ := uexecute_remove_arr (tw := noTw) (src := .undoRedo) (ts := t'')
    hd2p rfl hd2t rfl hh2 rfl (fun _ => horph2) hafter2
  rw [redo_doc_of_push (r := .remove p t' t') (s := reconcileStack (leafCopy u ue).id t' []) rfl (by rfl)
    (by simp only [Hist.next, UOp.withTs]; rw [ht'']; exact he3)]
  -- printing up to the renaming u ↦ t'
  have hroot : rootId ≠ u := by
    intro hx
    obtain ⟨e, he, hl, _⟩ := skel_some.1 fr.root
    rw [hx, a.hu] at he; injection he with he; subst he; rw [a.hul] at hl; cases hl
  have hnot : ∀ c, (live h.doc c = true ∨ c = rootId) → c ≠ t' := by
    intro c hc hx
    subst hx
    rcases hc with hc | hc
    · obtain ⟨e, he, _⟩ := live_elem hc; have := bd.ent _ _ he; omega
    · obtain ⟨e, he, _⟩ := skel_some.1 fr.root; have := bd.ent _ _ (hc ▸ he); omega
  have key := marshal_rename (d1 := kill h.doc (some u)) (d2 := kill d2 (some t')) (ren1 u t') rootId ?_
    fuel rootId (Or.inr rfl)
  · rw [key]; simp [ren1, hroot]
  · intro c hc
    have hc' : live h.doc c = true ∨ c = rootId := by
      rcases hc with hc | hc
      · rw [live_kill] at hc
        by_cases hcu : c = u
        · simp [hcu] at hc
        · simp only [hcu, if_false] at hc; exact Or.inl hc
      · exact Or.inr hc
    have hlc : live h.doc c = true := by
      rcases hc' with hc' | hc'
      · exact hc'
      · exact hc' ▸ live_of_skel fr.root
    rw [vis_kill, vis_kill, hvis c hlc, Vis.drop_map]
    intro x hx
    have hxl := vis_children_live hx
    have hxt : x ≠ t' := hnot x (Or.inl hxl)
    unfold ren1
    by_cases hxu : x = u
    · simp [hxu]
    · simp [hxu, hxt]

/-! ### insertion keeps the other nodes in order -/

theorem insertSkip_split (new : PosNode) : ∀ l : List PosNode, ∃ A B, l = A ++ B ∧ insertSkip new l = A ++ new :: B
  | [] => ⟨[], [], rfl, rfl⟩
  | a :: l => by
    unfold insertSkip
    split
    · obtain ⟨A, B, h1, h2⟩ := insertSkip_split new l
      exact ⟨a :: A, B, by simp [h1], by simp [h2]⟩
    · exact ⟨[], a :: l, rfl, rfl⟩

theorem insertAfterWhere_split' (s : PosNode → Bool) (new : PosNode) : ∀ (l l' : List PosNode),
    insertAfterWhere s new l = some l' → ∃ A B, l = A ++ B ∧ l' = A ++ new :: B
  | [], _, h => by simp [insertAfterWhere] at h
  | a :: l, l', h => by
    unfold insertAfterWhere at h
    split at h
    · cases h
      obtain ⟨A, B, h1, h2⟩ := insertSkip_split new l
      exact ⟨a :: A, B, by simp [h1], by simp [h2]⟩
    · cases hr : insertAfterWhere s new l with
      | none => simp [hr] at h
      | some l'' =>
        simp only [hr, Option.map_some, Option.some.injEq] at h
        subst h
        obtain ⟨A, B, h1, h2⟩ := insertAfterWhere_split' s new l l'' hr
        exact ⟨a :: A, B, by simp [h1], by simp [h2]⟩

theorem insertAfter_split {prev : Ticket} {new : PosNode} {l l' : List PosNode}
    (h : insertAfter prev new l = some l') : ∃ A B, l = A ++ B ∧ l' = A ++ new :: B := by
  unfold insertAfter at h
  split at h
  · cases h; exact insertSkip_split new l
  · unfold insertAfterNodes at h
    split at h <;> exact insertAfterWhere_split' _ new l l' h

theorem pairwise_insert {α} {R : α → α → Prop} {A B : List α} {x : α} (h : (A ++ B).Pairwise R)
    (h1 : ∀ a ∈ A, R a x) (h2 : ∀ b ∈ B, R x b) : (A ++ x :: B).Pairwise R := by
  rw [List.pairwise_append] at h ⊢
  refine ⟨h.1, List.pairwise_cons.2 ⟨h2, h.2.1⟩, ?_⟩
  intro a ha b hb
  simp only [List.mem_cons] at hb
  rcases hb with rfl | hb
  · exact h1 a ha
  · exact h.2.2 a ha b hb

/-! ### the heap after an insertion -/

/-- the heap after inserting an element with body `b` under the identity `x` -/
def insRes (d : Doc) (p : Ticket) (pe : Elem) (nodes' : List PosNode) (moved : Ticket → Option Ticket)
    (b : Body) (x : Ticket) : Doc :=
  (d.set x ⟨some p, false, b⟩).set p { pe with body := .arr nodes' moved }

theorem addRes_eq (d : Doc) (p : Ticket) (pe : Elem) (nodes' : List PosNode) (moved : Ticket → Option Ticket)
    (v : Val) (x : Ticket) : addRes d p pe nodes' moved v x = insRes d p pe nodes' moved v.body x := rfl

theorem insRes_apply (d : Doc) (p : Ticket) (pe : Elem) (nodes' : List PosNode) (moved : Ticket → Option Ticket)
    (b : Body) (x t : Ticket) :
    insRes d p pe nodes' moved b x t =
      if t = p then some { pe with body := .arr nodes' moved }
      else if t = x then some ⟨some p, false, b⟩ else d t := rfl

theorem insRes_cases {d : Doc} {p : Ticket} {pe : Elem} {nodes' : List PosNode} {moved : Ticket → Option Ticket}
    {b : Body} {x t : Ticket} {e : Elem} (h : insRes d p pe nodes' moved b x t = some e) :
    (t = p ∧ e = { pe with body := .arr nodes' moved }) ∨ (t ≠ p ∧ t = x ∧ e = ⟨some p, false, b⟩) ∨
    (t ≠ p ∧ t ≠ x ∧ d t = some e) := by
  rw [insRes_apply] at h
  by_cases h1 : t = p
  · simp only [h1, if_true, Option.some.injEq] at h; exact Or.inl ⟨h1, h.symm⟩
  · by_cases h2 : t = x
    · subst h2
      simp only [h1, if_true, if_false, Option.some.injEq] at h
      exact Or.inr (Or.inl ⟨h1, rfl, h.symm⟩)
    · simp only [h1, h2, if_false] at h; exact Or.inr (Or.inr ⟨h1, h2, h⟩)

section insResInv
variable {H : Home} {d : Doc} {L : Int} {p x : Ticket} {pe : Elem} {nodes nodes' : List PosNode}
  {moved : Ticket → Option Ticket} {b : Body}

theorem isContainer_insRes (hx : d x = none) {q : Ticket} (hq : isContainer d q = true) :
    isContainer (insRes d p pe nodes' moved b x) q = true := by
  by_cases h1 : q = p
  · simp [isContainer, insRes_apply, h1]
  · have h2 : q ≠ x := by intro h; subst h; simp [isContainer, hx] at hq
    simpa [isContainer, insRes_apply, h1, h2] using hq

theorem WF_insRes (w : WF H d) (bd : Bounded d L) (hx : L < x.lamport) (hd : d p = some pe)
    (hb : pe.body = .arr nodes moved) (hv : leafBody b = true)
    (hmem : ∀ n, n ∈ nodes' ↔ n = ⟨x, some x⟩ ∨ n ∈ nodes) (hpar : H.par x = some p) :
    WF H (insRes d p pe nodes' moved b x) := by
  have hdx : d x = none := by
    cases h : d x with
    | none => rfl
    | some e => have := bd.ent _ _ h; omega
  have hpc : isContainer (insRes d p pe nodes' moved b x) p = true := by simp [isContainer, insRes_apply]
  constructor
  · intro t e h
    rcases insRes_cases h with ⟨rfl, rfl⟩ | ⟨_, rfl, rfl⟩ | ⟨_, _, h3⟩
    · exact w.par _ pe hd
    · exact hpar.symm
    · exact w.par _ _ h3
  · intro t e q h hq
    rcases insRes_cases h with ⟨rfl, rfl⟩ | ⟨_, rfl, rfl⟩ | ⟨_, _, h3⟩
    · exact isContainer_insRes hdx (w.parCont _ pe _ hd hq)
    · rw [hpar] at hq; injection hq with hq; subst hq; exact hpc
    · exact isContainer_insRes hdx (w.parCont _ _ _ h3 hq)
  · intro t e keys m h hbe
    rcases insRes_cases h with ⟨rfl, rfl⟩ | ⟨_, rfl, rfl⟩ | ⟨_, _, h3⟩
    · simp at hbe
    · simp only [] at hbe; rw [hbe] at hv; simp [leafBody] at hv
    · exact w.objSorted _ _ _ _ h3 hbe
  · intro t e keys m k mm h hre hbe hm
    rcases insRes_cases h with ⟨rfl, rfl⟩ | ⟨_, rfl, rfl⟩ | ⟨_, _, h3⟩
    · simp at hbe
    · simp only [] at hbe; rw [hbe] at hv; simp [leafBody] at hv
    · exact w.objMem _ _ _ _ _ _ h3 hre hbe hm
  · intro t e ns mv n c h hre hbe hn hc
    rcases insRes_cases h with ⟨rfl, rfl⟩ | ⟨_, rfl, rfl⟩ | ⟨_, _, h3⟩
    · simp only [Body.arr.injEq] at hbe
      obtain ⟨rfl, rfl⟩ := hbe
      rcases (hmem n).1 hn with rfl | hn'
      · simp only [Option.some.injEq] at hc; subst hc; exact hpar
      · exact w.arrMem _ _ _ _ _ _ hd hre hb hn' hc
    · simp only [] at hbe; rw [hbe] at hv; simp [leafBody] at hv
    · exact w.arrMem _ _ _ _ _ _ h3 hre hbe hn hc

theorem Bounded_insRes (bd : Bounded d L) (hx : L < x.lamport) (hd : d p = some pe)
    (hb : pe.body = .arr nodes moved) (hv : leafBody b = true)
    (hmem : ∀ n, n ∈ nodes' ↔ n = ⟨x, some x⟩ ∨ n ∈ nodes) :
    Bounded (insRes d p pe nodes' moved b x) x.lamport := by
  constructor
  · intro t e h
    rcases insRes_cases h with ⟨rfl, rfl⟩ | ⟨_, rfl, rfl⟩ | ⟨_, _, h3⟩
    · have := bd.ent _ _ hd; omega
    · omega
    · have := bd.ent _ _ h3; omega
  · intro t e keys m k mm h hbe hm
    rcases insRes_cases h with ⟨rfl, rfl⟩ | ⟨_, rfl, rfl⟩ | ⟨_, _, h3⟩
    · simp at hbe
    · simp only [] at hbe; rw [hbe] at hv; simp [leafBody] at hv
    · have := bd.pos _ _ _ _ _ _ h3 hbe hm; omega
  · intro t e keys m k mm h hbe hm
    rcases insRes_cases h with ⟨rfl, rfl⟩ | ⟨_, rfl, rfl⟩ | ⟨_, _, h3⟩
    · simp at hbe
    · simp only [] at hbe; rw [hbe] at hv; simp [leafBody] at hv
    · have := bd.child _ _ _ _ _ _ h3 hbe hm; omega
  · intro t e ns mv n c h hbe hn hc
    rcases insRes_cases h with ⟨rfl, rfl⟩ | ⟨_, rfl, rfl⟩ | ⟨_, _, h3⟩
    · simp only [Body.arr.injEq] at hbe
      obtain ⟨rfl, rfl⟩ := hbe
      rcases (hmem n).1 hn with rfl | hn'
      · simp only [Option.some.injEq] at hc; subst hc; omega
      · have := bd.elem _ _ _ _ _ _ hd hb hn' hc; omega
    · simp only [] at hbe; rw [hbe] at hv; simp [leafBody] at hv
    · have := bd.elem _ _ _ _ _ _ h3 hbe hn hc; omega

end insResInv

/-! ### insert / undo / redo -/

theorem redo_doc_of_push_add {g : Hist} {p pv ts0 : Ticket} {cv : UVal} {q : UOp} {s : List (List UOp)} {d' : Doc}
    (hr : g.redo = push s [.add p pv cv ts0])
    (he : uexecute g.doc noTw .undoRedo (.add p pv (cv.reid g.next) g.next) = .ok (d', some q)) :
    (redo g).doc = d' := by
  rw [push_eq] at hr
  rw [redo_add_entry hr he]

/-- hypotheses on the array `p` for the insert / undo / redo round trip: the array is not orphaned (the
    undo is a `Remove`, subject to the skip rule), position identities are pairwise distinct, not the
    head identity, and not later than the clock -/
structure ArrIns (h : Hist) (p : Ticket) (pe : Elem) (nodes : List PosNode) (moved : Ticket → Option Ticket) :
    Prop where
  hd : h.doc p = some pe
  hb : pe.body = .arr nodes moved
  horph : orphaned h.doc noTw orphanFuel p = false
  hpos : nodes.Pairwise (fun a b => a.pos ≠ b.pos)
  hhead : ∀ n ∈ nodes, n.pos ≠ headId
  hposL : ∀ n ∈ nodes, n.pos.lamport ≤ h.lamport

theorem redo_undo_do_insert_lemma {h : Hist} {p prev : Ticket} {v : Val} {pe : Elem} {nodes nodes' : List PosNode}
    {moved : Ticket → Option Ticket} (fr : Fresh h) (a : ArrIns h p pe nodes moved)
    (hv : leafBody v.body = true)
    (hins : insertAfter prev ⟨h.next, some h.next⟩ nodes = some nodes') (fuel : Nat) :
    marshal (redo (undo (doChange h [.add p prev (UVal.ofVal v h.next) h.next]))).doc fuel rootId =
      marshal (doChange h [.add p prev (UVal.ofVal v h.next) h.next]).doc fuel rootId := by
  obtain ⟨H0, w0⟩ := fr.wf
  have bd := fr.bd
  obtain ⟨hfresh, htw⟩ := fresh_next fr
  have hxl : h.next.lamport = h.lamport + 1 := rfl
  have hL0 : 0 ≤ h.lamport := by
    obtain ⟨e, he, _⟩ := skel_some.1 fr.root
    have := bd.ent _ _ he; simpa [rootId] using this
  have w : WF (H0.update h.next p "") h.doc := WF_update w0 bd (by omega) p ""
  have hpar : (H0.update h.next p "").par h.next = some p := by simp [Home.update]
  generalize H0.update h.next p "" = H at w hpar
  have hpts : p ≠ h.next := by intro hx; have := a.hd; rw [hx, hfresh] at this; cases this
  have hmem : ∀ n, n ∈ nodes' ↔ n = ⟨h.next, some h.next⟩ ∨ n ∈ nodes := fun n => mem_insertAfter hins
  have he1 := uexecute_add (v := v) (tw := noTw) a.hd a.hb hins
  rw [doChange_add he1]
  have w1 := WF_insRes (nodes' := nodes') (b := v.body) w bd (by omega) a.hd a.hb hv hmem hpar
  have bd1 := Bounded_insRes (nodes' := nodes') (b := v.body) bd (x := h.next) (by omega) a.hd a.hb hv hmem
  rw [hxl] at bd1
  rw [← addRes_eq] at w1 bd1
  -- the state after the insertion
  generalize hd1 : addRes h.doc p pe nodes' moved v h.next = d1 at he1 w1 bd1 ⊢
  have hd1p : d1 p = some { pe with body := .arr nodes' moved } := by rw [← hd1]; simp [addRes, set_apply]
  have hd1t : d1 h.next = some ⟨some p, false, v.body⟩ := by
    have hne : ¬ h.next = p := fun hx => hpts hx.symm
    rw [← hd1]; simp [addRes, set_apply, hne]
  have hd1o : ∀ t, t ≠ p → t ≠ h.next → d1 t = h.doc t := by
    intro t h1 h2; rw [← hd1]; simp [addRes, set_apply, h1, h2]
  have hnew : (⟨h.next, some h.next⟩ : PosNode) ∈ nodes' := (hmem _).2 (Or.inl rfl)
  have hholds : holds nodes' h.next = true := holds_iff.2 ⟨_, hnew, rfl⟩
  have hold : ∀ n ∈ nodes, n.pos ≠ h.next ∧ n.elem ≠ some h.next := by
    intro n hn
    constructor
    · intro hx; have := a.hposL n hn; rw [hx] at this; omega
    · intro hx; have := bd.elem _ _ _ _ _ _ a.hd a.hb hn hx; omega
  have aa : ArrAt d1 (h.lamport + 1) p h.next { pe with body := .arr nodes' moved } ⟨some p, false, v.body⟩
      nodes' moved := by
    refine ⟨hd1p, (orphaned_root_removed (n := 63) a.horph a.hd).1, rfl, hd1t, rfl, hv, hholds, ?_, ?_, ?_, ?_⟩
    · intro x hx y hy hxe hye
      rcases (hmem x).1 hx with rfl | hx'
      · rcases (hmem y).1 hy with rfl | hy'
        · rfl
        · exact absurd hye (hold y hy').2
      · exact absurd hxe (hold x hx').2
    · obtain ⟨A, B, h1, h2⟩ := insertAfter_split hins
      rw [h2]
      apply pairwise_insert (h1 ▸ a.hpos)
      · intro x hx; exact (hold x (by rw [h1]; simp [hx])).1
      · intro x hx; exact fun hh => (hold x (by rw [h1]; simp [hx])).1 hh.symm
    · intro n hn
      rcases (hmem n).1 hn with rfl | hn'
      · intro hx
        have : h.next.lamport = 0 := by simp only [] at hx; rw [hx]; rfl
        omega
      · exact a.hhead n hn'
    · intro n hn
      rcases (hmem n).1 hn with rfl | hn'
      · simp only []; omega
      · have := a.hposL n hn'; omega
  -- the undo executes `remove p ts`
  have horph1 : orphaned d1 noTw orphanFuel h.next = false := by
    have hagree : ∀ t e, h.doc t = some e → ∃ e1, d1 t = some e1 ∧ e1.removed = e.removed ∧ e1.parent = e.parent := by
      intro t e hte
      by_cases h1 : t = p
      · subst h1; rw [a.hd] at hte; injection hte with hte; subst hte; exact ⟨_, hd1p, rfl, rfl⟩
      · have h2 : t ≠ h.next := by intro hx; rw [hx, hfresh] at hte; cases hte
        exact ⟨e, by rw [hd1o t h1 h2]; exact hte, rfl, rfl⟩
    have h63 : orphaned d1 noTw 63 p = false := by
      rw [orphaned_ext w hagree 63 p (by simp [a.hd])]; exact orphaned_mono _ _ 63 p a.horph
    rw [show orphanFuel = 63 + 1 from rfl, orphaned_succ_some hd1t rfl, htw, h63]; rfl
  generalize ht2 : (⟨h.lamport + 1 + 1, 1, h.actor⟩ : Ticket) = t2
  have hafter : t2.after h.next = true := after_of_lamport (by rw [← ht2]; simp only [Hist.next]; omega)
  obtain ⟨pv, cv, hfp, hcv, he2⟩ := uexecute_remove_arr (tw := noTw) (src := .undoRedo) (ts := t2)
    hd1p rfl hd1t rfl hholds rfl (fun _ => horph1) hafter
  rw [capture_leaf hd1t hv] at hcv
  have hcv' : cv = leafCopy h.next ⟨some p, false, v.body⟩ := (Option.some.inj hcv).symm
  subst hcv'
  rw [undo_one (r := .remove p h.next h.next) (push_eq _ _) (by rfl)
    (by simp only [Hist.next, UOp.withTs]; rw [ht2]; exact he2)]
  -- the redo re-inserts under `t3`
  generalize ht3 : (⟨h.lamport + 1 + 1 + 1, 1, h.actor⟩ : Ticket) = t3
  obtain ⟨pv', nodes3, hfp', he3, _, hvis⟩ := reinsert_core w1 bd1 aa noTw (t' := t3)
    (by rw [← ht3]; simp only []; omega)
  rw [hfp] at hfp'
  have hpv : pv = pv' := Option.some.inj hfp'
  subst hpv
  rw [redo_doc_of_push_add (cv := leafCopy h.next ⟨some p, false, v.body⟩) (s := []) rfl
    (by simp only [Hist.next]; rw [ht3]; exact he3)]
  -- printing up to the renaming ts ↦ t3
  have hroot : rootId ≠ h.next := by
    intro hx
    obtain ⟨e, he, _⟩ := skel_some.1 fr.root
    rw [hx, hfresh] at he; cases he
  have key := marshal_rename (d1 := d1) (d2 := reins d1 p h.next { pe with body := .arr nodes' moved }
    ⟨some p, false, v.body⟩ nodes3 moved t3) (ren1 h.next t3) rootId ?_ fuel rootId (Or.inr rfl)
  · rw [key]; simp [ren1, hroot]
  · intro c hc
    apply hvis
    rcases hc with hc | hc
    · exact hc
    · subst hc
      by_cases h1 : rootId = p
      · rw [h1]; simp [live, hd1p, (orphaned_root_removed (n := 63) a.horph a.hd).1]
      · have := live_of_skel fr.root
        unfold live at this ⊢
        rw [hd1o rootId h1 hroot]; exact this

end Yorkie.Undo
