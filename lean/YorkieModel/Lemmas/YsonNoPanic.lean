/-
C18: since the UseNumber / checked-assertions fix no input makes the model of `Unmarshal`
panic – for every JSON tree, hence every text.  Core Lean only.
-/
import YorkieModel.Lemmas.Yson
namespace Yorkie.Yson

/-- the outcome is a value or an error, not a failed type assertion -/
def Res.calm {α} : Res α → Prop
  | .panic _ _ => False
  | .setPanic _ => False
  | _ => True

theorem Res.calm_bind {α β} {r : Res α} {f : α → Res β} (hr : r.calm) (hf : ∀ a, (f a).calm) :
    (r.bind f).calm := by
  cases r with
  | ok a => exact hf a
  | err e => trivial
  | panic g w => exact hr
  | setPanic n => exact hr

theorem Res.calm_map {α β} {r : Res α} {f : α → β} (hr : r.calm) : (r.map f).calm :=
  Res.calm_bind hr (fun _ => trivial)

theorem asInt32_calm (j : J) : (J.asInt32 j).calm := by
  unfold J.asInt32; split
  · split <;> trivial
  · trivial

theorem asInt64_calm (j : J) : (J.asInt64 j).calm := by
  unfold J.asInt64; split
  · split <;> trivial
  · trivial

theorem parseAttrs_calm (e : Err) : ∀ (l : List (Str × J)), (parseAttrs e l).calm
  | [] => trivial
  | (k, v) :: r => by
    unfold parseAttrs
    split
    · exact Res.calm_bind (parseAttrs_calm e r) (fun _ => trivial)
    · trivial

theorem parseCounter_calm (raw : List (Str × J)) : (parseCounter raw).calm := by
  unfold parseCounter
  split
  · split
    · split
      · exact Res.calm_bind (asInt32_calm _) (fun _ => trivial)
      · split
        · exact Res.calm_bind (asInt64_calm _) (fun _ => trivial)
        · trivial
    · trivial
  · trivial

theorem parseDedupCounter_calm (raw : List (Str × J)) : (parseDedupCounter raw).calm := by
  unfold parseDedupCounter
  split
  · trivial
  · split
    · trivial
    · split
      · trivial
      · split
        · split <;> trivial
        · trivial

theorem parseTextNode_calm (j : J) : (parseTextNode j).calm := by
  unfold parseTextNode
  split
  · split
    · trivial
    · split
      · exact Res.calm_bind (parseAttrs_calm _ _) (fun _ => trivial)
      · trivial
  · trivial

theorem parseText_calm : ∀ (l : List J), (parseText l).calm
  | [] => trivial
  | x :: r => by
    unfold parseText
    exact Res.calm_bind (parseTextNode_calm x) (fun _ => Res.calm_bind (parseText_calm r) (fun _ => trivial))

theorem treeAttrsIn_calm (raw : List (Str × J)) : (treeAttrsIn raw).calm := by
  unfold treeAttrsIn
  split
  · exact parseAttrs_calm _ _
  · trivial

mutual
theorem parseTreeNode_calm : ∀ (j : J), (parseTreeNode j).calm
  | .obj raw => by
    unfold parseTreeNode
    exact Res.calm_bind (treeAttrsIn_calm raw) (fun _ => Res.calm_bind (treeChildrenIn_calm raw) (fun _ => trivial))
  | .null => by unfold parseTreeNode; trivial
  | .bool _ => by unfold parseTreeNode; trivial
  | .num _ => by unfold parseTreeNode; trivial
  | .str _ => by unfold parseTreeNode; trivial
  | .arr _ => by unfold parseTreeNode; trivial
theorem treeChildrenIn_calm : ∀ (l : List (Str × J)), (treeChildrenIn l).calm
  | [] => by unfold treeChildrenIn; trivial
  | (k, v) :: r => by
    unfold treeChildrenIn
    split
    · cases v with
      | arr xs => exact parseTreeList_calm xs
      | _ => trivial
    · exact treeChildrenIn_calm r
theorem parseTreeList_calm : ∀ (l : List J), (parseTreeList l).calm
  | [] => by unfold parseTreeList; trivial
  | x :: r => by
    unfold parseTreeList
    exact Res.calm_bind (parseTreeNode_calm x) (fun _ => Res.calm_bind (parseTreeList_calm r) (fun _ => trivial))
end

theorem parseTypedValue_calm (raw : List (Str × J)) (t : Str) : (parseTypedValue raw t).calm := by
  unfold parseTypedValue
  split
  · exact Res.calm_bind (asInt32_calm _) (fun _ => trivial)
  split
  · exact Res.calm_bind (asInt64_calm _) (fun _ => trivial)
  split
  · split
    · split <;> trivial
    · trivial
  split
  · split
    · split <;> trivial
    · trivial
  split
  · exact Res.calm_map (parseCounter_calm raw)
  split
  · exact Res.calm_map (parseDedupCounter_calm raw)
  split
  · split
    · exact Res.calm_map (parseTreeNode_calm _)
    · trivial
  split
  · split
    · exact Res.calm_map (parseText_calm _)
    · trivial
  · trivial

mutual
theorem parseMember_calm : ∀ (j : J), (parseMember j).calm
  | .obj kvs => by
    unfold parseMember
    split
    · exact parseTypedValue_calm _ _
    · exact Res.calm_map (parseObject_calm kvs)
  | .arr xs => by unfold parseMember; exact Res.calm_map (parseArray_calm xs)
  | .null => by unfold parseMember; trivial
  | .bool _ => by unfold parseMember; trivial
  | .num _ => by unfold parseMember; trivial
  | .str _ => by unfold parseMember; trivial
theorem parseObject_calm : ∀ (l : List (Str × J)), (parseObject l).calm
  | [] => by unfold parseObject; trivial
  | (k, v) :: r => by
    unfold parseObject
    exact Res.calm_bind (parseMember_calm v) (fun _ => Res.calm_bind (parseObject_calm r) (fun _ => trivial))
theorem parseArray_calm : ∀ (l : List J), (parseArray l).calm
  | [] => by unfold parseArray; trivial
  | x :: r => by
    unfold parseArray
    exact Res.calm_bind (parseMember_calm x) (fun _ => Res.calm_bind (parseArray_calm r) (fun _ => trivial))
end

theorem fromJRoot_calm (wantObj : Bool) (j : J) : (fromJRoot wantObj j).calm := by
  unfold fromJRoot
  split
  · split
    · exact Res.calm_map (parseObject_calm _)
    · trivial
  · split
    · exact Res.calm_map (parseArray_calm _)
    · trivial

/-- `Unmarshal` (model) never panics, whatever the text -/
theorem parse_calm (wantObj : Bool) (text : Str) : (parse wantObj text).calm := by
  unfold parse
  split
  · trivial
  · exact fromJRoot_calm _ _

end Yorkie.Yson
