/-
Array calls of the json layer: for each call kind, the pushed operation is enabled (`Pre`) and the
live list afterwards is the specified list function of the live list before.
Everything is stated for an arbitrary ticket `ts` that is `Newer` than the document.
-/
import YorkieModel.Lemmas.JsonInv
namespace Yorkie.Json
open Yorkie Yorkie.Crdt

set_option linter.unusedSimpArgs false

/-! ### addressing an array cell -/

structure IsArr (d : Doc) (a : Ticket) (pe : Elem) (nodes : List PosNode)
    (moved : Ticket → Option Ticket) : Prop where
  hp : d a = some pe
  hb : pe.body = .arr nodes moved

theorem arrNodes_eq_some {d : Doc} {a : Ticket} {nodes : List PosNode} :
    arrNodes d a = some nodes ↔ ∃ pe moved, IsArr d a pe nodes moved := by
  unfold arrNodes
  cases hd : d a with
  | none => simp; intro pe moved h; have := h.hp; rw [hd] at this; cases this
  | some e =>
    simp only
    constructor
    · intro h
      cases hb : e.body <;> simp [hb, arrNodesOfBody] at h
      subst h
      exact ⟨e, _, ⟨hd, hb⟩⟩
    · rintro ⟨pe, moved, h⟩
      have := h.hp; rw [hd] at this; cases this
      rw [h.hb]; rfl

theorem IsArr.arrNodes {d : Doc} {a : Ticket} {pe : Elem} {nodes : List PosNode}
    {moved : Ticket → Option Ticket} (h : IsArr d a pe nodes moved) : arrNodes d a = some nodes :=
  arrNodes_eq_some.2 ⟨pe, moved, h⟩

theorem IsArr.arrLive {d : Doc} {a : Ticket} {pe : Elem} {nodes : List PosNode}
    {moved : Ticket → Option Ticket} (h : IsArr d a pe nodes moved) : arrLive d a = liveOf d nodes := by
  unfold Json.arrLive; rw [h.arrNodes]

theorem IsArr.ok {d : Doc} {a : Ticket} {pe : Elem} {nodes : List PosNode}
    {moved : Ticket → Option Ticket} (h : IsArr d a pe nodes moved) (hi : Inv d) :
    NodesOK nodes moved := by
  have := hi.body a pe h.hp; rw [h.hb] at this; exact this

theorem IsArr.slots {d : Doc} {a : Ticket} {pe : Elem} {nodes : List PosNode}
    {moved : Ticket → Option Ticket} (h : IsArr d a pe nodes moved) (hi : Inv d) : ElemSlots nodes := by
  have := (hi.wf a pe h.hp).2.1; rw [h.hb] at this; exact this

/-- an element held by the array is a heap cell whose parent is the array -/
theorem IsArr.child {d : Doc} {a : Ticket} {pe : Elem} {nodes : List PosNode}
    {moved : Ticket → Option Ticket} (h : IsArr d a pe nodes moved) (hi : Inv d) {c : Ticket}
    (hc : holds nodes c = true) : isChildOf d c a = true := by
  have := (hi.wf a pe h.hp).2.2 c
  rw [h.hb] at this
  exact this hc

theorem holds_of_mem_liveOf {d : Doc} {nodes : List PosNode} {e : Ticket} (h : e ∈ liveOf d nodes) :
    holds nodes e = true := by
  obtain ⟨n, hn, he, _⟩ := mem_liveOf.1 h
  exact (holds_iff nodes e).2 ⟨n, hn, he⟩

/-! ### what an enabled array operation does to the addressed array -/

theorem live_run (E : Effect) (d : Doc) (c : Ticket) :
    live (E.run d) c =
      match E.new with
      | some (ts, e) => if c = ts then !e.removed else (live d c && !decide (E.flag = some c))
      | none => live d c && !decide (E.flag = some c) := by
  unfold Effect.run live
  cases hnew : E.new with
  | none =>
    simp only
    cases hd : d c <;> simp [Effect.touch]
  | some p =>
    obtain ⟨ts, e⟩ := p
    simp only
    by_cases hc : c = ts
    · simp [hc]
    · simp only [hc, if_false]
      cases hd : d c <;> simp [Effect.touch]

/-- the uniform shape of a successful array operation -/
theorem apply_arr {d : Doc} {op : Op} {pe : Elem} {nodes : List PosNode}
    {moved : Ticket → Option Ticket} {st : ArrSt} (hr : Ready d op pe)
    (hb : pe.body = .arr nodes moved) (hs : arrStep op ⟨nodes, moved⟩ = some st) :
    apply d op = (Effect.mk op.parent (.arr st.nodes st.moved) op.newCell op.flag).run d := by
  rw [hr.apply_eq, hb]
  simp only [eff, hs]

theorem arrNodes_run {d : Doc} {op : Op} {pe : Elem} {nodes : List PosNode}
    {moved : Ticket → Option Ticket} {st : ArrSt} (hr : Ready d op pe)
    (hb : pe.body = .arr nodes moved) (hs : arrStep op ⟨nodes, moved⟩ = some st) :
    arrNodes (apply d op) op.parent = some st.nodes := by
  have hv := valid_eff hr
  have he : eff pe.body op = Effect.mk op.parent (.arr st.nodes st.moved) op.newCell op.flag := by
    rw [hb]; simp only [eff, hs]
  rw [he] at hv
  rw [apply_arr hr hb hs]
  unfold arrNodes
  rw [hv.run_p]
  simp [Effect.touch, arrNodesOfBody]

/-- readiness of an array operation from observations -/
theorem ready_arr {d : Doc} {op : Op} {a : Ticket} {pe : Elem} {nodes : List PosNode}
    {moved : Ticket → Option Ticket} (hi : Inv d) (ha : IsArr d a pe nodes moved) (hpar : op.parent = a)
    (hk : op.okFor .arr = true) (hc : ∀ t, op.target? = some t → holds nodes t = true)
    (hok : arrOk (hasPos nodes) (holds nodes) op = true) (hf : ∀ i ∈ creates op, ¬ used d i) :
    Ready d op pe := by
  refine ⟨hi.wf, by rw [hpar]; exact ha.hp, ?_, hf⟩
  have e1 : (Body.arr nodes moved).hasPos = hasPos nodes := by funext i; rfl
  have e2 : (Body.arr nodes moved).holds = holds nodes := by funext i; rfl
  rw [ha.hb]
  simp only [succB, Body.kind, hk, Bool.true_and, e1, e2, hok, Bool.or_true, Bool.and_true, childOk]
  cases ht : op.target? with
  | none => rfl
  | some t => simp only; rw [hpar]; exact ha.child hi (hc t ht)

/-! ### `LastCreatedAt()` as an anchor (what `RGATreeList.Add` and the snapshot decoder use) -/

theorem insertAfter_lastPos {nodes : List PosNode} {moved : Ticket → Option Ticket}
    (h : NodesOK nodes moved) (hs : ElemSlots nodes) (new : PosNode) :
    insertAfter (lastPos nodes) new nodes = some (nodes ++ [new]) := by
  by_cases hn : nodes = []
  · subst hn; simp [lastPos, lastPosFrom, insertAfter, insertSkip]
  · have hsplit := List.dropLast_concat_getLast hn
    generalize nodes.dropLast = ini at hsplit
    generalize nodes.getLast hn = l at hsplit
    subst hsplit
    rw [lastPos_append, insertAfter_eq_insertPosAfter_of_elemSlots hs]
    have hl : l.pos ≠ headId := h.headFree l (by simp)
    unfold insertPosAfter
    rw [if_neg hl]
    have hu := pos_unique_split (pre := ini) (n := l) (post := []) h.posNodup
    have := insertAfterWhere_split (p := posIs l.pos) (new := new) (n := l) (pre := ini) (post := [])
      hu.1 (by simp [posIs])
    show insertAfterWhere (posIs l.pos) new (ini ++ [l]) = some ((ini ++ [l]) ++ [new])
    simpa [insertSkip] using this

/-! ### shared steps -/

theorem live_apply_arr {d : Doc} {op : Op} {pe : Elem} {nodes : List PosNode}
    {moved : Ticket → Option Ticket} {st : ArrSt} (hr : Ready d op pe)
    (hb : pe.body = .arr nodes moved) (hs : arrStep op ⟨nodes, moved⟩ = some st) (c : Ticket) :
    live (apply d op) c =
      match op.newCell with
      | some (ts, e) => if c = ts then !e.removed else (live d c && !decide (op.flag = some c))
      | none => live d c && !decide (op.flag = some c) := by
  rw [apply_arr hr hb hs, live_run]

/-- old nodes show the same elements when liveness changed only at a ticket they do not hold -/
theorem liveOf_of_live_eq {d d' : Doc} {ts : Ticket} {xs : List PosNode}
    (hl : ∀ c, c ≠ ts → live d' c = live d c) (hx : ∀ n ∈ xs, n.elem ≠ some ts) :
    liveOf d' xs = liveOf d xs := by
  apply liveOf_congr
  intro n hn
  unfold nodeLive
  cases he : n.elem with
  | none => rfl
  | some c =>
    have hc : c ≠ ts := by intro e; subst e; exact hx n hn he
    simp [hl c hc]

theorem take_succ_of_split {A B : List Ticket} {x : Ticket} {i : Nat} (h : A.length = i) :
    (A ++ x :: B).take (i + 1) = A ++ [x] ∧ (A ++ x :: B).drop (i + 1) = B := by
  subst h
  induction A with
  | nil => simp
  | cons y r ih => exact ⟨by simp [ih.1], by simp [ih.2]⟩

theorem take_of_split {A B : List Ticket} {i : Nat} (h : A.length = i) :
    (A ++ B).take i = A ∧ (A ++ B).drop i = B := by
  subst h
  induction A with
  | nil => simp
  | cons y r ih => exact ⟨by simp [ih.1], by simp [ih.2]⟩

theorem not_holds_fresh {d : Doc} {a ts : Ticket} {pe : Elem} {nodes : List PosNode}
    {moved : Ticket → Option Ticket} (hn : Newer d ts) (ha : IsArr d a pe nodes moved) :
    ∀ n ∈ nodes, n.elem ≠ some ts := by
  intro n hn' he
  have := (hn.freshIn ha.hp ha.hb).elem
  rw [(holds_iff nodes ts).2 ⟨n, hn', he⟩] at this; cases this

/-! ### insertAfter -/

theorem insertAfter_spec {d : Doc} {a ts prev : Ticket} {nodes : List PosNode} {i : Nat} (v : Val)
    (hi : Inv d) (hn : Newer d ts) (ha : arrNodes d a = some nodes)
    (hp : (liveOf d nodes)[i]? = some prev) :
    Pre d (.add a (anchorOf nodes prev) v ts) ∧
      arrLive (apply d (.add a (anchorOf nodes prev) v ts)) a =
        (arrLive d a).take (i + 1) ++ ts :: (arrLive d a).drop (i + 1) := by
  obtain ⟨pe, moved, ha⟩ := arrNodes_eq_some.1 ha
  have hok := ha.ok hi
  obtain ⟨pre, n, post, hsplit, hnl, hlen⟩ := split_at_live hp
  obtain ⟨hne, hlv⟩ := nodeLive_eq_some.1 hnl
  have huniq := elem_unique_split hne (hsplit ▸ hok.elemNodup)
  have hupos := pos_unique_split (hsplit ▸ hok.posNodup)
  have hanch : anchorOf nodes prev = n.pos := by
    unfold anchorOf; rw [hsplit, posOf_split huniq.1 hne]; rfl
  rw [hanch]
  have hnmem : n ∈ nodes := by rw [hsplit]; simp
  have hhead : n.pos ≠ headId := hok.headFree n hnmem
  have hna : NoneAfter ts post :=
    hn.noneAfter ha.hp ha.hb (by intro m hm; rw [hsplit]; simp [hm])
  have hins : insertAfter n.pos ⟨ts, some ts⟩ nodes = some (pre ++ n :: ⟨ts, some ts⟩ :: post) := by
    rw [insertAfter_eq_insertPosAfter_of_elemSlots (ha.slots hi)]
    unfold insertPosAfter
    rw [if_neg hhead, hsplit]
    show insertAfterWhere (posIs n.pos) _ (pre ++ n :: post) = _
    rw [insertAfterWhere_split hupos.1 (by simp [posIs]),
      insertSkip_of_noneAfter (new := ⟨ts, some ts⟩) hna]
  have hstep : arrStep (.add a n.pos v ts) ⟨nodes, moved⟩ =
      some ⟨pre ++ n :: ⟨ts, some ts⟩ :: post, moved⟩ := by
    simp [arrStep, arrAdd, hins]
  have hr : Ready d (.add a n.pos v ts) pe := by
    refine ready_arr hi ha rfl rfl (by simp [Op.target?]) ?_ (by simp [creates]; exact hn.not_used)
    have := arrStep_isSome (.add a n.pos v ts) ⟨nodes, moved⟩
    rw [hstep] at this; exact this.symm
  have hnodes := arrNodes_run hr ha.hb hstep
  simp only [Op.parent] at hnodes
  refine ⟨hr.pre (by simp [creates]; exact hn.1), ?_⟩
  have hlive : ∀ c, live (apply d (.add a n.pos v ts)) c = (decide (c = ts) || live d c) := by
    intro c
    rw [live_apply_arr hr ha.hb hstep]
    simp only [Op.newCell, Op.flag, newElem]
    by_cases hc : c = ts <;> simp [hc]
  have hfr := not_holds_fresh hn ha
  have hold : ∀ xs : List PosNode, (∀ m ∈ xs, m ∈ nodes) →
      liveOf (apply d (.add a n.pos v ts)) xs = liveOf d xs := fun xs hxs =>
    liveOf_of_live_eq (ts := ts) (fun c hc => by simp [hlive, hc]) (fun m hm => hfr m (hxs m hm))
  unfold Json.arrLive
  rw [hnodes, ha.arrNodes]
  simp only
  have e1 : liveOf d nodes = liveOf d pre ++ prev :: liveOf d post := by
    rw [hsplit, liveOf_append, liveOf_cons, hnl]; rfl
  rw [e1, (take_succ_of_split hlen).1, (take_succ_of_split hlen).2]
  rw [liveOf_append, liveOf_cons, liveOf_cons,
    hold pre (by intro m hm; rw [hsplit]; simp [hm]),
    hold post (by intro m hm; rw [hsplit]; simp [hm])]
  have h1 : nodeLive (apply d (.add a n.pos v ts)) n = some prev := by
    rw [nodeLive_eq_some]; refine ⟨hne, ?_⟩; rw [hlive, hlv]; simp
  have h2 : nodeLive (apply d (.add a n.pos v ts)) ⟨ts, some ts⟩ = some ts := by
    rw [nodeLive_eq_some]; refine ⟨rfl, ?_⟩; rw [hlive]; simp
  rw [h1, h2]
  simp

/-! ### add (append): anchored on the last LIVE position -/

theorem posOf_of_holds {nodes : List PosNode} {e : Ticket} (h : holds nodes e = true) :
    ∃ p, posOf nodes e = some p := by
  induction nodes with
  | nil => simp [holds] at h
  | cons n r ih =>
    unfold posOf
    by_cases hn : n.elem = some e
    · exact ⟨n.pos, by simp [hn]⟩
    · simp only [hn, if_false]
      apply ih
      simp only [holds, List.any_cons, Bool.or_eq_true, decide_eq_true_eq] at h ⊢
      rcases h with h | h
      · exact absurd h hn
      · exact h

/-- `lastLivePosCreatedAt()` is the anchor `InsertAfter(Len()-1)` would compute -/
theorem lastLivePos_of_concat {d : Doc} {nodes : List PosNode} {ys : List Ticket} {e : Ticket}
    (h : liveOf d nodes = ys ++ [e]) : lastLivePos d nodes = anchorOf nodes e := by
  have hm : e ∈ liveOf d nodes := by rw [h]; simp
  obtain ⟨p, hp⟩ := posOf_of_holds (holds_of_mem_liveOf hm)
  unfold lastLivePos anchorOf
  rw [h, List.getLast?_concat]
  show (posOf nodes e).getD (lastPos nodes) = (posOf nodes e).getD e
  rw [hp]; rfl

theorem lastLivePos_of_nil {d : Doc} {nodes : List PosNode} (h : liveOf d nodes = []) :
    lastLivePos d nodes = headId := by
  unfold lastLivePos; rw [h]; rfl

/-- appending to an array that shows nothing: the new node goes in front of all the debris -/
theorem add_head_spec {d : Doc} {a ts : Ticket} {nodes : List PosNode} (v : Val) (hi : Inv d)
    (hn : Newer d ts) (ha : arrNodes d a = some nodes) :
    Pre d (.add a headId v ts) ∧ arrLive (apply d (.add a headId v ts)) a = ts :: arrLive d a := by
  obtain ⟨pe, moved, ha⟩ := arrNodes_eq_some.1 ha
  have hna : NoneAfter ts nodes := hn.noneAfter ha.hp ha.hb (fun m hm => hm)
  have hins : insertAfter headId ⟨ts, some ts⟩ nodes = some (⟨ts, some ts⟩ :: nodes) := by
    unfold insertAfter
    rw [if_pos rfl, insertSkip_of_noneAfter (new := ⟨ts, some ts⟩) hna]
  have hstep : arrStep (.add a headId v ts) ⟨nodes, moved⟩ = some ⟨⟨ts, some ts⟩ :: nodes, moved⟩ := by
    simp [arrStep, arrAdd, hins]
  have hr : Ready d (.add a headId v ts) pe := by
    refine ready_arr hi ha rfl rfl (by simp [Op.target?]) ?_ (by simp [creates]; exact hn.not_used)
    have := arrStep_isSome (.add a headId v ts) ⟨nodes, moved⟩
    rw [hstep] at this; exact this.symm
  have hnodes := arrNodes_run hr ha.hb hstep
  simp only [Op.parent] at hnodes
  refine ⟨hr.pre (by simp [creates]; exact hn.1), ?_⟩
  have hlive : ∀ c, live (apply d (.add a headId v ts)) c = (decide (c = ts) || live d c) := by
    intro c
    rw [live_apply_arr hr ha.hb hstep]
    simp only [Op.newCell, Op.flag, newElem]
    by_cases hc : c = ts <;> simp [hc]
  have hfr := not_holds_fresh hn ha
  unfold Json.arrLive
  rw [hnodes, ha.arrNodes]
  simp only
  have hold : liveOf (apply d (.add a headId v ts)) nodes = liveOf d nodes :=
    liveOf_of_live_eq (ts := ts) (fun c hc => by simp [hlive, hc]) hfr
  rw [liveOf_cons, hold]
  have h2 : nodeLive (apply d (.add a headId v ts)) ⟨ts, some ts⟩ = some ts := by
    rw [nodeLive_eq_some]; refine ⟨rfl, ?_⟩; rw [hlive]; simp
  rw [h2]; rfl

theorem add_spec {d : Doc} {a ts : Ticket} {nodes : List PosNode} (v : Val) (hi : Inv d)
    (hn : Newer d ts) (ha : arrNodes d a = some nodes) :
    Pre d (.add a (lastLivePos d nodes) v ts) ∧
      arrLive (apply d (.add a (lastLivePos d nodes) v ts)) a = arrLive d a ++ [ts] := by
  obtain ⟨pe, moved, ha'⟩ := arrNodes_eq_some.1 ha
  rcases List.eq_nil_or_concat (liveOf d nodes) with hnil | ⟨ys, e, hcc⟩
  · rw [lastLivePos_of_nil hnil]
    obtain ⟨h1, h2⟩ := add_head_spec v hi hn ha
    refine ⟨h1, ?_⟩
    rw [h2, ha'.arrLive, hnil]; rfl
  · have hcc' : liveOf d nodes = ys ++ [e] := by rw [hcc]; simp
    rw [lastLivePos_of_concat hcc']
    have hget : (liveOf d nodes)[ys.length]? = some e := by rw [hcc']; simp
    obtain ⟨h1, h2⟩ := insertAfter_spec v hi hn ha hget
    refine ⟨h1, ?_⟩
    rw [h2, ha'.arrLive, hcc', (take_succ_of_split (A := ys) (x := e) (B := []) rfl).1,
      (take_succ_of_split (A := ys) (x := e) (B := []) rfl).2]

/-! ### delete -/

theorem delete_spec {d : Doc} {a ts t : Ticket} {nodes : List PosNode} {i : Nat}
    (hi : Inv d) (hn : Newer d ts) (ha : arrNodes d a = some nodes)
    (hp : (liveOf d nodes)[i]? = some t) :
    Pre d (.remove a t ts) ∧
      arrLive (apply d (.remove a t ts)) a = (arrLive d a).eraseIdx i := by
  obtain ⟨pe, moved, ha⟩ := arrNodes_eq_some.1 ha
  have hok := ha.ok hi
  have hh : holds nodes t = true := holds_of_mem_liveOf (List.mem_of_getElem? hp)
  have hstep : arrStep (.remove a t ts) ⟨nodes, moved⟩ = some ⟨nodes, moved⟩ := by
    simp [arrStep, hh]
  have hr : Ready d (.remove a t ts) pe :=
    ready_arr hi ha rfl rfl (by simp [Op.target?]; exact hh) (by simp [arrOk]; exact hh)
      (by simp [creates])
  have hnodes := arrNodes_run hr ha.hb hstep
  simp only [Op.parent] at hnodes
  refine ⟨hr.pre (by simp [creates]), ?_⟩
  obtain ⟨te, hte, _⟩ := isChildOf_iff.1 (ha.child hi hh)
  have hafter : ts.after t = true := hn.cell hte
  have hlive : ∀ c, live (apply d (.remove a t ts)) c = (live d c && isNot t c) := by
    intro c
    rw [live_apply_arr hr ha.hb hstep]
    simp only [Op.newCell, Op.flag, flagOf, hafter, if_true, isNot]
    by_cases hc : c = t
    · simp [hc]
    · have : ¬ (t = c) := fun e => hc e.symm
      simp [hc, this]
  unfold Json.arrLive
  rw [hnodes, ha.arrNodes]
  simp only
  rw [liveOf_tombstone nodes hlive]
  exact filter_isNot_eq_eraseIdx (liveOf_nodup hok.elemNodup) hp

/-! ### move -/

theorem movedLoses_newer {d : Doc} {a ts : Ticket} {pe : Elem} {nodes : List PosNode}
    {moved : Ticket → Option Ticket} (hi : Inv d) (hn : Newer d ts) (ha : IsArr d a pe nodes moved)
    (target : Ticket) : movedLoses moved target ts = false := by
  unfold movedLoses
  cases hm : moved target with
  | none => rfl
  | some m =>
    simp only
    rw [hn.pos ha.hp ha.hb ((ha.ok hi).movedPos target m hm)]; rfl

theorem vacate_split (t : Ticket) (pre post : List PosNode) (q : PosNode) :
    vacate t (pre ++ q :: post) = vacate t pre ++ vac1 t q :: vacate t post := by
  simp [vacate_eq]

theorem noneAfter_vacate {ts t : Ticket} {xs : List PosNode} (h : NoneAfter ts xs) :
    NoneAfter ts (vacate t xs) := by
  intro m hm
  rw [vacate_eq, List.mem_map] at hm
  obtain ⟨m0, hm0, e⟩ := hm
  rw [← e, vac1_pos]; exact h m0 hm0

/-- a winning move anchored at the position of node `q` -/
theorem arrMove_at {nodes pre post : List PosNode} {q : PosNode} {moved : Ticket → Option Ticket}
    {target ts : Ticket} (hok : NodesOK nodes moved) (hsplit : nodes = pre ++ q :: post)
    (hh : holds nodes target = true) (hl : movedLoses moved target ts = false)
    (hna : NoneAfter ts post) :
    arrMove q.pos target ts ⟨nodes, moved⟩ =
      some ⟨vacate target pre ++ vac1 target q :: ⟨ts, some target⟩ :: vacate target post,
        setMoved moved target ts⟩ := by
  have hq : q ∈ nodes := by rw [hsplit]; simp
  have hhead : q.pos ≠ headId := hok.headFree q hq
  have hpos : hasPos nodes q.pos = true := hasPos_iff.2 ⟨q, hq, rfl⟩
  have hupos := pos_unique_split (hsplit ▸ hok.posNodup)
  have hins : insertPosAfter q.pos ⟨ts, some target⟩ (vacate target nodes) =
      some (vacate target pre ++ vac1 target q :: ⟨ts, some target⟩ :: vacate target post) := by
    unfold insertPosAfter
    rw [if_neg hhead, hsplit, vacate_split]
    show insertAfterWhere (posIs q.pos) _ _ = _
    rw [insertAfterWhere_split (n := vac1 target q) ?_ (by simp [posIs]),
      insertSkip_of_noneAfter (new := ⟨ts, some target⟩) (noneAfter_vacate hna)]
    intro m hm
    rw [vacate_eq, List.mem_map] at hm
    obtain ⟨m0, hm0, e⟩ := hm
    rw [← e, posIs_vac1]; exact hupos.1 m0 hm0
  unfold arrMove
  simp [hhead, hpos, hh, hl, hins] <;> rfl

/-- a winning move anchored at the dummy head -/
theorem arrMove_head {nodes : List PosNode} {moved : Ticket → Option Ticket} {target ts : Ticket}
    (hh : holds nodes target = true) (hl : movedLoses moved target ts = false)
    (hna : NoneAfter ts nodes) :
    arrMove headId target ts ⟨nodes, moved⟩ =
      some ⟨⟨ts, some target⟩ :: vacate target nodes, setMoved moved target ts⟩ := by
  have hins : insertPosAfter headId ⟨ts, some target⟩ (vacate target nodes) =
      some (⟨ts, some target⟩ :: vacate target nodes) := by
    unfold insertPosAfter
    rw [if_pos rfl, insertSkip_of_noneAfter (new := ⟨ts, some target⟩) (noneAfter_vacate hna)]
  unfold arrMove
  simp [hh, hl, hins] <;> rfl

theorem liveOf_vac1 (d : Doc) (t : Ticket) (q : PosNode) :
    liveOf d [vac1 t q] = (liveOf d [q]).filter (isNot t) := by
  have := liveOf_vacate d t [q]
  simpa [vacate_eq] using this

/-- shared conclusion of a successful move whose new list is `st.nodes` -/
theorem move_finish {d : Doc} {a ts target prev : Ticket} {pe : Elem} {nodes : List PosNode}
    {moved : Ticket → Option Ticket} {st : ArrSt} (hi : Inv d) (hn : Newer d ts)
    (ha : IsArr d a pe nodes moved) (hh : holds nodes target = true)
    (hstep : arrMove prev target ts ⟨nodes, moved⟩ = some st) :
    Pre d (.move a prev target ts) ∧
      arrLive (apply d (.move a prev target ts)) a = liveOf d st.nodes := by
  have hstep' : arrStep (.move a prev target ts) ⟨nodes, moved⟩ = some st := hstep
  have hr : Ready d (.move a prev target ts) pe := by
    refine ready_arr hi ha rfl rfl (by simp [Op.target?]; exact hh) ?_
      (by simp [creates]; exact hn.not_used)
    have := arrStep_isSome (.move a prev target ts) ⟨nodes, moved⟩
    rw [hstep'] at this; exact this.symm
  have hnodes := arrNodes_run hr ha.hb hstep'
  simp only [Op.parent] at hnodes
  refine ⟨hr.pre (by simp [creates]; exact hn.1), ?_⟩
  unfold Json.arrLive
  rw [hnodes]
  simp only
  apply liveOf_congr
  intro n _
  unfold nodeLive
  cases n.elem with
  | none => rfl
  | some c =>
    have : live (apply d (.move a prev target ts)) c = live d c := by
      rw [live_apply_arr hr ha.hb hstep']; simp [Op.newCell, Op.flag]
    simp [this]

theorem move_pos_spec {d : Doc} {a ts target : Ticket} {nodes pre post : List PosNode} {q : PosNode}
    (hi : Inv d) (hn : Newer d ts) (ha : arrNodes d a = some nodes)
    (ht : target ∈ liveOf d nodes) (hsplit : nodes = pre ++ q :: post) :
    Pre d (.move a q.pos target ts) ∧
      arrLive (apply d (.move a q.pos target ts)) a =
        (liveOf d (pre ++ [q])).filter (isNot target) ++
          target :: (liveOf d post).filter (isNot target) := by
  obtain ⟨pe, moved, ha⟩ := arrNodes_eq_some.1 ha
  have hh : holds nodes target = true := holds_of_mem_liveOf ht
  have hlt : live d target = true := by
    obtain ⟨_, _, _, h⟩ := mem_liveOf.1 ht; exact h
  have hna : NoneAfter ts post :=
    hn.noneAfter ha.hp ha.hb (by intro m hm; rw [hsplit]; simp [hm])
  have hstep := arrMove_at (ha.ok hi) hsplit hh (movedLoses_newer hi hn ha target) hna
  obtain ⟨hpre, hlive⟩ := move_finish hi hn ha hh hstep
  refine ⟨hpre, ?_⟩
  rw [hlive]
  simp only
  rw [liveOf_append, liveOf_vacate, liveOf_cons, liveOf_cons, liveOf_vacate, liveOf_append,
    List.filter_append, ← liveOf_vac1]
  have : nodeLive d ⟨ts, some target⟩ = some target := by
    rw [nodeLive_eq_some]; exact ⟨rfl, hlt⟩
  rw [this]
  simp [liveOf_cons, liveOf_nil]

theorem move_head_spec {d : Doc} {a ts target : Ticket} {nodes : List PosNode}
    (hi : Inv d) (hn : Newer d ts) (ha : arrNodes d a = some nodes) (ht : target ∈ liveOf d nodes) :
    Pre d (.move a headId target ts) ∧
      arrLive (apply d (.move a headId target ts)) a =
        target :: (liveOf d nodes).filter (isNot target) := by
  obtain ⟨pe, moved, ha⟩ := arrNodes_eq_some.1 ha
  have hh : holds nodes target = true := holds_of_mem_liveOf ht
  have hlt : live d target = true := by
    obtain ⟨_, _, _, h⟩ := mem_liveOf.1 ht; exact h
  have hna : NoneAfter ts nodes := hn.noneAfter ha.hp ha.hb (fun m hm => hm)
  have hstep := arrMove_head (moved := moved) hh (movedLoses_newer hi hn ha target) hna
  obtain ⟨hpre, hlive⟩ := move_finish hi hn ha hh hstep
  refine ⟨hpre, ?_⟩
  rw [hlive]
  simp only
  rw [liveOf_cons, liveOf_vacate]
  have : nodeLive d ⟨ts, some target⟩ = some target := by
    rw [nodeLive_eq_some]; exact ⟨rfl, hlt⟩
  rw [this]; rfl

end Yorkie.Json
