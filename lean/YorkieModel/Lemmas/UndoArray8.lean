/-
Lemmas for C14, part 17: arrays of leaves at depth k, a decidable checker for the array operations and
the example heap `{"arr":[1,2]}`.
-/
import YorkieModel.Lemmas.UndoArray6
import YorkieModel.Lemmas.UndoExample
namespace Yorkie.Undo
open Yorkie Yorkie.Crdt

/-! ### decidable executability (for concrete runs) -/

def checkAOp (H : Home) (tw : Ticket → Bool) (d : Doc) : UOp → Bool
  | .add p prev val _ =>
    match d p with
    | some pe =>
      match pe.body with
      | .arr nodes _ =>
        !pe.removed && !orphaned d tw orphanFuel p && (prev == headId || (ll d nodes).contains prev) &&
        leafBody val.body && val.sub.isEmpty && !val.removed && H.par val.id == some p && !tw val.id &&
        !live d val.id && (skel d val.id).isNone && val.id != headId
      | _ => false
    | none => false
  | .remove p u _ =>
    match d p with
    | some pe =>
      match pe.body with
      | .arr nodes _ =>
        !pe.removed && !orphaned d tw orphanFuel p && (ll d nodes).contains u && isLeafAt d u && !tw u
      | _ => false
    | none => false
  | _ => false

theorem checkAOp_good {H : Home} {tw : Ticket → Bool} {d : Doc} {op : UOp} (h : checkAOp H tw d op = true) :
    GoodOp2 H tw d op := by
  cases op with
  | add p prev val ts =>
    unfold checkAOp at h
    cases hd : d p with
    | none => simp [hd] at h
    | some pe =>
      cases hb : pe.body <;> simp only [hd, hb, Bool.false_eq_true] at h
      rename_i nodes moved
      simp only [Bool.and_eq_true, Bool.not_eq_true', Bool.or_eq_true, beq_iff_eq, List.isEmpty_iff,
        Option.isNone_iff_eq_none, List.contains_iff_mem, bne_iff_ne, ne_eq] at h
      obtain ⟨⟨⟨⟨⟨⟨⟨⟨⟨⟨h1, h2⟩, h3⟩, h4⟩, h5⟩, h6⟩, h7⟩, h8⟩, h9⟩, h10⟩, h11⟩ := h
      refine ⟨ll d nodes, ⟨?_, h2, h3, h4, h5, h6, h7, h8, absNode_none_iff.2 h9, h10, h11⟩⟩
      simp [absNode, hd, h1, hb, absBody, ll]
  | remove p u ts =>
    unfold checkAOp at h
    cases hd : d p with
    | none => simp [hd] at h
    | some pe =>
      cases hb : pe.body <;> simp only [hd, hb, Bool.false_eq_true] at h
      rename_i nodes moved
      simp only [Bool.and_eq_true, Bool.not_eq_true', List.contains_iff_mem] at h
      obtain ⟨⟨⟨⟨h1, h2⟩, h3⟩, h4⟩, h5⟩ := h
      obtain ⟨ue, hue, hul⟩ := isLeafAt_some h4
      obtain ⟨_, _, _, hlu⟩ := mem_ll.1 h3
      obtain ⟨ue', hue', hur⟩ := live_elem hlu
      rw [hue] at hue'; injection hue' with hue'; subst hue'
      refine ⟨ll d nodes, ⟨?_, h2, h3, ⟨_, absNode_of_leaf hue hur hul, absLeaf_isLeaf hul⟩, h5⟩⟩
      simp [absNode, hd, h1, hb, absBody, ll]
  | set => simp [checkAOp] at h
  | move => simp [checkAOp] at h
  | arraySet => simp [checkAOp] at h
  | increase => simp [checkAOp] at h

/-! ### the example heap -/

namespace Example

theorem plain_dArr : PlainArrs dArr 3 := by
  intro x xe nodes moved h hb
  rcases dArr_cases h with ⟨rfl, rfl⟩ | ⟨rfl, rfl⟩ | ⟨rfl, rfl⟩ | ⟨rfl, rfl⟩ <;>
    simp [eRoot, eArr, eX, eY] at hb
  obtain ⟨rfl, rfl⟩ := hb
  refine ⟨?_, by decide, by decide, by decide⟩
  intro n hn c hc
  simp at hn
  rcases hn with rfl | rfl <;> simp at hc <;> subst hc <;> rfl

end Example

end Yorkie.Undo
