/-
Character-level abstraction of the block list (DESIGN §4, "Text"): every UTF-16 unit is a cell with
the identity `(createdAt, absolute offset)`; splitting a block is invisible at this level (up to the
Go-string round trip of the unit values at the cut). Core Lean only.

Proved here: `expand` of a split node = `expand` of the node (`expandNode_split`, identities,
tombstones and attributes exactly; unit values under the alignment condition), and `visible` is
the live projection of `expand` (`visible_eq_expand`).

NOT ATTEMPTED (statement only, for the C01 text stage; the differential runs of engine `text` –
several thousand histories with concurrent inserts – show no counterexample):

  theorem insert_insert_comm
      (wf : WF s) (h12 : t1 ≠ t2) (f1 : Fresh s t1) (f2 : Fresh s t2)
      (c1 c2 : List Nat) (hc1 : c1 ≠ []) (hc2 : c2 ≠ []) (x1 : Fixed c1) (x2 : Fixed c2)
      -- both are pure inserts whose positions exist in `s` (so neither anchors on the other's node)
      (e1  : edit p1 p1 c1 a1 t1 vv1 s  = .ok s1)  (e2  : edit p2 p2 c2 a2 t2 vv2 s  = .ok s2)
      (e12 : edit p2 p2 c2 a2 t2 vv2 s1 = .ok s12) (e21 : edit p1 p1 c1 a1 t1 vv1 s2 = .ok s21) :
      expand s12 = expand s21
  -- expected proof: `expand` turns `findNodeWithSplit`+`InsertAfter` into the textbook RGA
  -- `insertBody` on cells (anchor = the cell `(createdAt, abs-1)`, skip while the next cell's
  -- createdAt is after the new ticket); commutation of `insertBody` on arbitrary lists is the
  -- design-round spike (Gomes et al.). The block-level ingredient is `expandNode_split` below.
-/
import YorkieModel.Lemmas.TextStyle
namespace Yorkie.Text

structure CharCell where
  /-- `(createdAt, absolute offset of this unit inside its insertion)` -/
  id : Id
  unit : Nat
  removedAt : Option Ticket
  attrs : List AttrNode
deriving DecidableEq, Repr

def cellsFrom (c : Ticket) (rm : Option Ticket) (at_ : List AttrNode) : Nat → List Nat → List CharCell
  | _, [] => []
  | off, u :: r => ⟨(c, off), u, rm, at_⟩ :: cellsFrom c rm at_ (off + 1) r

def expandNode (n : TNode) : List CharCell := cellsFrom n.id.1 n.removedAt n.attrs n.id.2 n.units

/-- the character-level view of a block list -/
def expand : TextSt → List CharCell
  | [] => []
  | n :: r => expandNode n ++ expand r

theorem cellsFrom_append (c : Ticket) (rm : Option Ticket) (at_ : List AttrNode) (off : Nat)
    (a b : List Nat) :
    cellsFrom c rm at_ off (a ++ b) = cellsFrom c rm at_ off a ++ cellsFrom c rm at_ (off + a.length) b := by
  induction a generalizing off with
  | nil => simp [cellsFrom]
  | cons u r ih =>
    simp only [List.cons_append, cellsFrom, ih, List.length_cons]
    rw [show off + 1 + r.length = off + (r.length + 1) by omega]

theorem expand_append (a b : TextSt) : expand (a ++ b) = expand a ++ expand b := by
  induction a with
  | nil => rfl
  | cons n r ih => simp only [List.cons_append, expand, ih, List.append_assoc]

theorem cellsFrom_units (c : Ticket) (rm : Option Ticket) (at_ : List AttrNode) (off : Nat) (u : List Nat) :
    (cellsFrom c rm at_ off u).map (·.unit) = u := by
  induction u generalizing off with
  | nil => rfl
  | cons x r ih => simp [cellsFrom, ih]

theorem cellsFrom_removedAt (c : Ticket) (rm : Option Ticket) (at_ : List AttrNode) (off : Nat) (u : List Nat) :
    ∀ x ∈ cellsFrom c rm at_ off u, x.removedAt = rm := by
  induction u generalizing off with
  | nil => intro x hx; cases hx
  | cons y r ih =>
    intro x hx
    simp only [cellsFrom, List.mem_cons] at hx
    rcases hx with rfl | hx
    · rfl
    · exact ih _ x hx

/-- `visible` is the live projection of the character view -/
theorem visible_eq_expand (s : TextSt) :
    visible s = (List.filter (fun c => c.removedAt.isNone) (expand s)).map (·.unit) := by
  induction s with
  | nil => rfl
  | cons n r ih =>
    rw [visible_cons, expand, List.filter_append, List.map_append, ← ih]
    congr 1
    unfold expandNode TNode.live
    cases hr : n.removedAt with
    | none =>
      have : List.filter (fun c : CharCell => c.removedAt.isNone) (cellsFrom n.id.1 none n.attrs n.id.2 n.units)
          = cellsFrom n.id.1 none n.attrs n.id.2 n.units :=
        List.filter_eq_self.mpr (fun x hx => by rw [cellsFrom_removedAt _ _ _ _ _ x hx]; rfl)
      simp [this, cellsFrom_units]
    | some t =>
      have : List.filter (fun c : CharCell => c.removedAt.isNone) (cellsFrom n.id.1 (some t) n.attrs n.id.2 n.units)
          = [] :=
        List.filter_eq_nil_iff.mpr (fun x hx => by rw [cellsFrom_removedAt _ _ _ _ _ x hx]; simp)
      simp [this]

/-- **Block splitting is a representation change only**: the two parts of a split node expand to
    the cells of the original node whenever the cut does not fall inside a surrogate pair … -/
theorem expandNode_split (n : TNode) {k : Nat} (hk : k ≤ n.len) (hl : Fixed (n.units.take k))
    (hr : Fixed (n.units.drop k)) :
    expandNode (splitMap n k n) ++ expandNode (rightPart n k) = expandNode n := by
  unfold expandNode
  have e1 : (splitMap n k n).units = n.units.take k := by rw [splitMap_units, if_pos rfl]; exact hl
  have e2 : (rightPart n k).units = n.units.drop k := hr
  rw [e1, e2]
  simp only [splitMap_id, splitMap_removedAt, splitMap_attrs]
  have e3 : (rightPart n k).id = (n.id.1, n.id.2 + k) := rfl
  have e4 : (rightPart n k).removedAt = n.removedAt := rfl
  have e5 : (rightPart n k).attrs = n.attrs := rfl
  rw [e3, e4, e5]
  have hlen : (n.units.take k).length = k := by rw [List.length_take]; unfold TNode.len at hk; omega
  have := cellsFrom_append n.id.1 n.removedAt n.attrs n.id.2 (n.units.take k) (n.units.drop k)
  rw [List.take_append_drop, hlen] at this
  exact this.symm

/-- … and in every case as far as identities, tombstones and attributes are concerned -/
theorem expandNode_split_shape (n : TNode) {k : Nat} (hk : k ≤ n.len) :
    (expandNode (splitMap n k n) ++ expandNode (rightPart n k)).map (fun c => (c.id, c.removedAt, c.attrs)) =
      (expandNode n).map (fun c => (c.id, c.removedAt, c.attrs)) := by
  have shape : ∀ (c : Ticket) (rm : Option Ticket) (at_ : List AttrNode) (off : Nat) (u v : List Nat),
      u.length = v.length →
      (cellsFrom c rm at_ off u).map (fun c => (c.id, c.removedAt, c.attrs)) =
        (cellsFrom c rm at_ off v).map (fun c => (c.id, c.removedAt, c.attrs)) := by
    intro c rm at_ off u
    induction u generalizing off with
    | nil => intro v hv; cases v with
      | nil => rfl
      | cons _ _ => simp at hv
    | cons x r ih =>
      intro v hv
      cases v with
      | nil => simp at hv
      | cons y t =>
        simp only [cellsFrom, List.map_cons]
        rw [ih (off + 1) t (by simpa using hv)]
  unfold expandNode
  have e1 : (splitMap n k n).units = sanitize (n.units.take k) := by rw [splitMap_units, if_pos rfl]
  have e2 : (rightPart n k).units = sanitize (n.units.drop k) := rfl
  have e3 : (rightPart n k).id = (n.id.1, n.id.2 + k) := rfl
  have e4 : (rightPart n k).removedAt = n.removedAt := rfl
  have e5 : (rightPart n k).attrs = n.attrs := rfl
  rw [e1, e2, e3, e4, e5]
  simp only [splitMap_id, splitMap_removedAt, splitMap_attrs, List.map_append]
  rw [shape _ _ _ _ (sanitize (n.units.take k)) (n.units.take k) (sanitize_length _),
    shape _ _ _ _ (sanitize (n.units.drop k)) (n.units.drop k) (sanitize_length _)]
  have hlen : (n.units.take k).length = k := by rw [List.length_take]; unfold TNode.len at hk; omega
  have := cellsFrom_append n.id.1 n.removedAt n.attrs n.id.2 (n.units.take k) (n.units.drop k)
  rw [List.take_append_drop, hlen] at this
  rw [this, List.map_append]

end Yorkie.Text
