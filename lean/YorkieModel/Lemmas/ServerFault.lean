/-
Helper lemmas for C05 (Model/ServerFault.lean): what one faulty storage call leaves behind, and what
the identical retry then does.
-/
import YorkieModel.Model.ServerFault
import YorkieModel.Lemmas.ServerCompact
namespace Yorkie.Server
open Yorkie

/-! ### no fault -/

theorem pushPullF_none : pushPullF none = pushPull := rfl

theorem stepF_none (s : Server) (req : Request) : stepF none s req = step s req := by
  cases req <;> rfl

/-! ### where a fault sits -/

/-- the fault is on a call that runs before `CreateChangeInfos` took effect: reads at handler level,
`FindDocInfoByRefKey` inside `pushPack`, or `CreateChangeInfos` failing before it wrote -/
def Fault.beforeCommit (k : Fault) : Bool :=
  k.point == .handlerFindClient || k.point == .handlerFindDoc || k.point == .pushFindDoc ||
  (k.point == .createChanges && !k.after)

/-- THE WINDOW: the pushed changes are committed (`CreateChangeInfos` took effect), the client's
checkpoint is not yet persisted (`UpdateClientInfoAfterPushPull` has not taken effect) -/
def Fault.inWindow (k : Fault) : Bool :=
  (k.point == .createChanges && k.after) || k.point == .pullFindChanges || k.point == .updateMinVV ||
  (k.point == .updateClientInfo && !k.after)

/-- everything committed, only the answer is an error: the same store as a lost response -/
def Fault.afterAll (k : Fault) : Bool := k.point == .updateClientInfo && k.after

/-- attach-only calls (`FindOrCreateDocInfo`, `TryAttaching`): never reached by a PushPull/Detach/Remove -/
def Fault.attachOnly (k : Fault) : Bool := k.point == .findOrCreateDoc || k.point == .tryAttaching

theorem Fault.classes (k : Fault) :
    k.beforeCommit = true ∨ k.inWindow = true ∨ k.afterAll = true ∨ k.attachOnly = true := by
  obtain ⟨p, a⟩ := k
  cases p <;> cases a <;> simp [Fault.beforeCommit, Fault.inWindow, Fault.afterAll, Fault.attachOnly]

theorem andThen_error {p q : Phase} {s s0 : Server} {f : Flight} {e : ErrKind} (h : p s f = (s0, .error e)) :
    (p ⨟ q) s f = (s0, .error e) := by
  unfold Phase.andThen; rw [h]

theorem andThen_ok' {p q : Phase} {s s0 : Server} {f f0 : Flight} (h : p s f = (s0, .ok f0)) :
    (p ⨟ q) s f = q s0 f0 := by
  unfold Phase.andThen; rw [h]

/-! ### a fault before the commit leaves the store untouched -/

theorem pushPackF_beforeCommit {k : Fault} (hk : k.beforeCommit = true) (s : Server) (g : Flight) :
    (∃ e, pushPackF (some k) s g = (s, .error e)) ∨ pushPackF (some k) s g = pushPack s g := by
  obtain ⟨p, a⟩ := k
  cases p <;> simp [Fault.beforeCommit] at hk
  · exact Or.inr rfl
  · exact Or.inr rfl
  · -- pushFindDoc
    by_cases hr : pushReadsDoc g = true
    · left
      simp only [pushPackF, Fault.hits, Fault.isAfter, beq_self_eq_true, hr, Bool.and_self, if_true]
      by_cases hc : (a && (s.findDoc g.doc).isNone) = true
      · exact ⟨.documentNotFound, by simp [hc]⟩
      · exact ⟨.internal, by simp [hc]⟩
    · right
      simp only [Bool.not_eq_true] at hr
      simp [pushPackF, Fault.hits, hr]
  · -- createChanges, before
    subst hk
    left
    have h0 : (FaultAt.createChanges == FaultAt.pushFindDoc) = false := by decide
    simp only [pushPackF, Fault.hits, Fault.isAfter, h0, Bool.false_and, Bool.false_eq_true, if_false,
      beq_self_eq_true, if_true]
    split
    · exact ⟨_, rfl⟩
    · exact ⟨.internal, by simp [faultyCall]⟩

theorem pushPullF_beforeCommit {k : Fault} (hk : k.beforeCommit = true) (s : Server) (f : Flight) :
    (∃ e, pushPullF (some k) s f = (s, .error e)) ∨ pushPullF (some k) s f = pushPull s f := by
  have e4 : preparePackF (some k) = preparePack := by
    obtain ⟨p, a⟩ := k
    cases p <;> simp [Fault.beforeCommit] at hk <;> rfl
  have e6 : updateMinVVF (some k) = updateMinVV := by
    obtain ⟨p, a⟩ := k
    cases p <;> simp [Fault.beforeCommit] at hk <;> rfl
  have e7 : persistClientInfoF (some k) = persistClientInfo := by
    obtain ⟨p, a⟩ := k
    cases p <;> simp [Fault.beforeCommit] at hk <;> rfl
  cases hcont : seqsContinuous (f.info.checkpoint f.doc).clientSeq ((f.info.checkpoint f.doc).clientSeq + 1) f.pack.changes with
  | false =>
    left
    refine ⟨.invalidClientSeq, ?_⟩
    simp only [pushPullF, Phase.andThen, validateClientSeq_reject hcont]
  | true =>
    have e1 := validateClientSeq_intro (s := s) hcont
    have e2 := stripPresence_eq s f
    rcases pushPackF_beforeCommit hk s (stripped f) with ⟨e, h⟩ | h
    · left
      refine ⟨e, ?_⟩
      simp only [pushPullF, Phase.andThen, e1, e2, h]
    · right
      simp only [pushPullF, pushPull, Phase.andThen, e1, e2, e4, e6, e7, h]

/-! ### small facts used by the retry analysis -/

theorem AL.set_get_self {α : Type} (m : AL α) (a : Nat) (x : α) (h : m.get? a = some x) : m.set a x = m := by
  induction m with
  | nil => simp at h
  | cons p r ih =>
    obtain ⟨k, v⟩ := p
    simp only [AL.set]
    by_cases hk : k = a
    · subst hk; simp at h; subst h; simp
    · simp only [hk, if_false]
      simp only [AL.get?_cons, hk, if_false] at h
      rw [ih h]

theorem Server.ext' {a b : Server} (h1 : a.cfg = b.cfg) (h2 : a.clients = b.clients) (h3 : a.docs = b.docs)
    (h4 : a.nextClient = b.nextClient) (h5 : a.nextDoc = b.nextDoc) : a = b := by
  cases a; cases b; simp_all

/-- raising the acknowledged client sequence keeps a continuous pack continuous -/
theorem seqsContinuous_mono {a b : Nat} (hab : a ≤ b) (l : List ChangeReq) (e : Nat) (he : a < e)
    (h : seqsContinuous a e l = true) : seqsContinuous b (Max.max e (b + 1)) l = true := by
  induction l generalizing e with
  | nil => simp [seqsContinuous]
  | cons c r ih =>
    simp only [seqsContinuous] at h ⊢
    by_cases h1 : c.clientSeq ≤ a
    · have h2 : c.clientSeq ≤ b := Nat.le_trans h1 hab
      simp only [h1, if_true] at h
      simp only [h2, if_true]
      exact ih e he h
    · simp only [h1, if_false] at h
      by_cases h3 : c.clientSeq ≠ e
      · simp [h3] at h
      · simp only [h3, if_false] at h
        have h3' : c.clientSeq = e := by simpa using h3
        have := ih (e + 1) (by omega) h
        by_cases h2 : c.clientSeq ≤ b
        · simp only [h2, if_true]
          have hm : Max.max e (b + 1) = Max.max (e + 1) (b + 1) := by
            rw [Nat.max_def, Nat.max_def]; split <;> split <;> omega
          rw [hm]; exact this
        · simp only [h2, if_false]
          have hm : Max.max e (b + 1) = e := by rw [Nat.max_def]; split <;> omega
          have hm2 : Max.max (e + 1) (b + 1) = e + 1 := by rw [Nat.max_def]; split <;> omega
          rw [hm]
          simp only [h3', ne_eq, not_true_eq_false, if_false]
          rw [hm2] at this; exact this

theorem seqsContinuous_raise {a b : Nat} (hab : a ≤ b) (l : List ChangeReq)
    (h : seqsContinuous a (a + 1) l = true) : seqsContinuous b (b + 1) l = true := by
  have := seqsContinuous_mono hab l (a + 1) (by omega) h
  have hm : Max.max (a + 1) (b + 1) = b + 1 := by rw [Nat.max_def]; split <;> omega
  rw [hm] at this; exact this

/-- the pushables are discarded: stale epoch, or (repair switch) the document is already removed -/
def discards (s : Server) (g : Flight) (doc : Doc) : Prop :=
  epochDiffers g.info g.doc doc.epoch = true ∨
  (epochDiffers g.info g.doc doc.epoch = false ∧ ¬ g.pack.cp.serverSeq > doc.serverSeq ∧
   s.cfg.pushAfterRemoveDiscards = true ∧ doc.removed = true)

/-- `pushGuard` answers with the pushables or (stale epoch / removed document under the repair) with nothing -/
theorem pushGuard_ok_cases {s : Server} {g : Flight} {p : List ChangeReq} (h : pushGuard s g = .ok p) :
    p = pushablesOf g ∨ (p = [] ∧ ∃ doc, s.findDoc g.doc = some doc ∧ discards s g doc) := by
  unfold pushGuard at h
  split at h
  · split at h
    · simp at h
    · next cur hcur =>
      split at h
      · next he => injection h with h; exact Or.inr ⟨h.symm, cur, hcur, Or.inl he⟩
      · next he =>
        split at h
        · simp at h
        · next hs =>
          split at h
          · next hr =>
            injection h with h
            simp only [Bool.and_eq_true] at hr
            exact Or.inr ⟨h.symm, cur, hcur, Or.inr ⟨by simpa using he, hs, hr.1, hr.2⟩⟩
          · injection h with h; exact Or.inl h.symm
  · injection h with h; exact Or.inl h.symm

/-- the guard on a document that has only grown (same epoch, head not smaller, removed flag not
reset): the same answer – except that, under the repair switch, a document that has meanwhile become
removed makes the guard discard the pushables -/
theorem pushGuard_grown {s : Server} {g : Flight} {p : List ChangeReq} {doc dw : Doc}
    (h : pushGuard s g = .ok p) (hd : s.findDoc g.doc = some doc) (he : dw.epoch = doc.epoch)
    (hs : doc.serverSeq ≤ dw.serverSeq) (hr : doc.removed = true → dw.removed = true) :
    ∃ p2, pushGuard (s.setDoc g.doc dw) g = .ok p2 ∧
      (p2 = p ∨ (p2 = [] ∧ s.cfg.pushAfterRemoveDiscards = true ∧ dw.removed = true ∧ doc.removed = false)) := by
  unfold pushGuard at h ⊢
  split
  · next hc =>
    rw [if_pos hc, hd] at h
    rw [setDoc_findDoc_self]
    simp only [] at h ⊢
    rw [he]
    split
    · next hx => rw [if_pos hx] at h; exact ⟨[], rfl, Or.inl (by injection h)⟩
    · next hx =>
      rw [if_neg hx] at h
      split at h
      · simp at h
      · next hy =>
        rw [if_neg (by omega)]
        have hcfg : (s.setDoc g.doc dw).cfg = s.cfg := rfl
        rw [hcfg]
        cases hsw : s.cfg.pushAfterRemoveDiscards with
        | false =>
          rw [hsw] at h
          simp only [Bool.false_and, Bool.false_eq_true, if_false] at h ⊢
          exact ⟨_, rfl, Or.inl (by injection h)⟩
        | true =>
          rw [hsw] at h
          simp only [Bool.true_and] at h ⊢
          cases hdr : doc.removed with
          | true =>
            rw [hdr] at h; rw [hr hdr]
            simp only [if_true] at h ⊢
            exact ⟨_, rfl, Or.inl (by injection h)⟩
          | false =>
            rw [hdr] at h
            simp only [Bool.false_eq_true, if_false] at h
            cases hwr : dw.removed with
            | true => simp only [if_true]; exact ⟨[], rfl, Or.inr ⟨rfl, trivial, trivial, trivial⟩⟩
            | false => simp only [Bool.false_eq_true, if_false]; exact ⟨_, rfl, Or.inl (by injection h)⟩
  · next hc => rw [if_neg hc] at h; exact ⟨_, rfl, Or.inl (by injection h)⟩

/-- when `pullPackResp` accepts, for a request that keeps the document attached -/
theorem pullPackResp_accepts {s : Server} {f : Flight} (hst : f.status = .attached) :
    (∃ r, pullPackResp s f = .ok r) ↔
      ((s.cfg.stalePushOnlyRefused = true → epochDiffers f.info f.doc f.docInfo.epoch = false) ∧
       (f.pushOnly = true ∨ (epochDiffers f.info f.doc f.docInfo.epoch = false ∧ f.pack.cp.serverSeq ≤ f.initialSeq))) := by
  unfold pullPackResp preparePackCore
  cases hsw : (s.cfg.stalePushOnlyRefused && epochDiffers f.info f.doc f.docInfo.epoch) with
  | true =>
    simp only [Bool.and_eq_true] at hsw
    simp [hsw.1, hsw.2, hst]
  | false =>
    have h0 : s.cfg.stalePushOnlyRefused = true → epochDiffers f.info f.doc f.docInfo.epoch = false := by
      intro h; rw [h] at hsw; simpa using hsw
    simp only [Bool.false_eq_true, if_false]
    rw [and_iff_right h0]
    cases hpo : f.pushOnly with
    | true => simp
    | false =>
      simp only [Bool.false_eq_true, if_false, false_or]
      cases he : epochDiffers f.info f.doc f.docInfo.epoch with
      | true => simp [hst]
      | false =>
        simp only [Bool.false_eq_true, if_false, true_and]
        by_cases hlt : f.initialSeq < f.pack.cp.serverSeq
        · simp [hlt, hst]
        · simp only [hlt, if_false]
          constructor
          · intro _; omega
          · intro _
            by_cases hth : f.initialSeq - f.pack.cp.serverSeq < s.cfg.snapshotThreshold
            · exact ⟨{ cp := (pullChangeInfos s f).1, changes := (pullChangeInfos s f).2 }, by simp [hth]⟩
            · exact ⟨{ cp := f.cpAfterPush.nextServerSeq f.docInfo.serverSeq, snapshot := true }, by simp [hth]⟩

/-! ### when a sync is accepted (forward direction) -/

theorem pushPull_accepts {s : Server} {f : Flight} {doc : Doc} {p : List ChangeReq} {cd0 : ClientDoc} {loaded : Client}
    (hcont : seqsContinuous (f.info.checkpoint f.doc).clientSeq ((f.info.checkpoint f.doc).clientSeq + 1) f.pack.changes = true)
    (hdoc : s.findDoc f.doc = some doc) (hguard : pushGuard s (stripped f) = .ok p)
    (hpull : ∃ r, pullPackResp (s.setDoc f.doc (pushedDoc doc (stripped f) p)) (pushedFlight doc (stripped f) p) = .ok r)
    (hst : f.status = .attached) (hcd0 : f.info.docs.get? f.doc = some cd0)
    (hl : s.findClient f.client = some loaded) :
    ∃ s' f', pushPull s f = (s', .ok f') := by
  obtain ⟨r, hpull⟩ := hpull
  have hstatus : f.info.updateDocStatus f.doc f.status r.cp =
      .ok { f.info with docs := f.info.docs.set f.doc { cd0 with serverSeq := r.cp.serverSeq, clientSeq := r.cp.clientSeq } } := by
    simp [hst, Client.updateDocStatus, Client.updateCheckpoint, hcd0]
  have hcd : ({ f.info with docs := f.info.docs.set f.doc { cd0 with serverSeq := r.cp.serverSeq, clientSeq := r.cp.clientSeq } } : Client).docs.get? f.doc
      = some { cd0 with serverSeq := r.cp.serverSeq, clientSeq := r.cp.clientSeq } := AL.get?_set_self _ _ _
  cases hgc : f.disableGC with
  | true =>
    exact ⟨_, _, pushPull_intro hcont hdoc hguard hpull hstatus (Or.inl ⟨hgc, rfl⟩) hcd
      (loaded := loaded) (by simpa [Server.findClient, Server.setDoc] using hl)⟩
  | false =>
    have hvv : ∃ s5, updateVersionVector (s.setDoc f.doc (pushedDoc doc (stripped f) p))
        { preparedFlight doc f p r with
          info := { f.info with docs := f.info.docs.set f.doc { cd0 with serverSeq := r.cp.serverSeq, clientSeq := r.cp.clientSeq } } } = .ok s5 ∧
        s5.clients = s.clients := by
      unfold updateVersionVector
      simp only [preparedFlight, pushedFlight, stripped_doc, stripped_client, Client.isAttached, hcd]
      rw [setDoc_findDoc_self]
      simp only []
      split
      · exact ⟨_, rfl, rfl⟩
      · exact ⟨_, rfl, rfl⟩
    obtain ⟨s5, hvv, hcl⟩ := hvv
    exact ⟨_, _, pushPull_intro hcont hdoc hguard hpull hstatus (Or.inr ⟨hgc, hvv⟩) hcd
      (loaded := loaded) (by simp only [Server.findClient] at hl ⊢; rw [hcl]; exact hl)⟩

/-! ### the retry inside the window -/

/-- the (actor, clientSeq) keys of rows / changes -/
def rowKey (r : Row) : Actor × Nat := (r.actor, r.clientSeq)
def chgKey (c : ChangeReq) : Actor × Nat := (c.actor, c.clientSeq)

theorem assignSeqs_keys (gen : Nat) (head : Int) (cp : Checkpoint) (cs : List ChangeReq) :
    (assignSeqs gen head cp cs).1.map rowKey = cs.map chgKey := by
  induction cs generalizing head cp with
  | nil => simp [assignSeqs]
  | cons c rest ih =>
    simp only [assignSeqs, List.map_cons]
    rw [ih]
    simp [rowKey, chgKey, mkRow]

/-- The state a fault inside the window leaves behind: the pushed rows are in the log (`dw` = the
document after `CreateChangeInfos`, with any version-vector rows), the client table is untouched.
The identical request is ACCEPTED there, and stores the same pushables once more (`p2 = p`) – unless,
under the repair switch `pushAfterRemoveDiscards`, the first attempt has itself removed the document,
in which case the retry's pushables are discarded (`p2 = []`). -/
theorem pushPull_window_retry {s s' : Server} {f f' : Flight} (h : pushPull s f = (s', .ok f'))
    (hst : f.status = .attached) (v : AL VV) :
    ∃ doc p, s.findDoc f.doc = some doc ∧ pushGuard s (stripped f) = .ok p ∧
      ∃ p2 s'' f'' d'', (p2 = p ∨ (p2 = [] ∧ s.cfg.pushAfterRemoveDiscards = true ∧ f.pack.isRemoved = true)) ∧
        pushPull (s.setDoc f.doc { pushedDoc doc (stripped f) p with vvRows := v }) f = (s'', .ok f'') ∧
        s''.findDoc f.doc = some d'' ∧
        ∃ rows1 rows2, d''.log = doc.log ++ rows1 ++ rows2 ∧ rows1.map rowKey = p.map chgKey ∧
          rows2.map rowKey = p2.map chgKey ∧ rows1.length = p.length := by
  obtain ⟨doc, p, loaded, info', cd, r, vv, hdoc, hl, hcont, hguard, hpull, hstatus, _, hdocs, _⟩ := (pushPull_ppok h).ex
  obtain ⟨cd0, hcd0, _, _⟩ := updateDocStatus_spec hstatus
  refine ⟨doc, p, hdoc, hguard, ?_⟩
  have hdw : (s.setDoc f.doc { pushedDoc doc (stripped f) p with vvRows := v }).findDoc f.doc =
      some { pushedDoc doc (stripped f) p with vvRows := v } := setDoc_findDoc_self _ _ _
  obtain ⟨p2, hguard2, hp2⟩ := pushGuard_grown (doc := doc) (dw := { pushedDoc doc (stripped f) p with vvRows := v })
    hguard (by simpa using hdoc) rfl
    (by show doc.serverSeq ≤ (pushedDoc doc (stripped f) p).serverSeq; rw [pushedDoc_serverSeq]; omega)
    (by intro hr; show (doc.removed || (stripped f).pack.isRemoved) = true; simp [hr])
  simp only [stripped_doc] at hguard2
  have hp2' : p2 = p ∨ (p2 = [] ∧ s.cfg.pushAfterRemoveDiscards = true ∧ f.pack.isRemoved = true) := by
    rcases hp2 with e | ⟨e1, e2, e3, e4⟩
    · exact Or.inl e
    · refine Or.inr ⟨e1, e2, ?_⟩
      have e3' : (doc.removed || (stripped f).pack.isRemoved) = true := e3
      rw [e4] at e3'; simpa using e3'
  have hpull2 : ∃ r2, pullPackResp
      ((s.setDoc f.doc { pushedDoc doc (stripped f) p with vvRows := v }).setDoc f.doc
        (pushedDoc { pushedDoc doc (stripped f) p with vvRows := v } (stripped f) p2))
      (pushedFlight { pushedDoc doc (stripped f) p with vvRows := v } (stripped f) p2) = .ok r2 := by
    obtain ⟨h0, h1⟩ := (pullPackResp_accepts (s := s.setDoc f.doc (pushedDoc doc (stripped f) p))
      (f := pushedFlight doc (stripped f) p) (by simpa [pushedFlight] using hst)).mp ⟨r, hpull⟩
    refine (pullPackResp_accepts (by simpa [pushedFlight] using hst)).mpr ⟨?_, ?_⟩
    · intro hsw; exact h0 hsw
    rcases h1 with h1 | ⟨h1, h2⟩
    · exact Or.inl (by simpa [pushedFlight] using h1)
    · refine Or.inr ⟨by simpa [pushedFlight] using h1, ?_⟩
      rw [pushedFlight_initialSeq] at h2 ⊢
      have : (pushedFlight { pushedDoc doc (stripped f) p with vvRows := v } (stripped f) p2).pack.cp =
          (pushedFlight doc (stripped f) p).pack.cp := rfl
      rw [this]
      show _ ≤ (pushedDoc doc (stripped f) p).serverSeq
      rw [pushedDoc_serverSeq]; omega
  obtain ⟨s'', f'', h2⟩ := pushPull_accepts hcont hdw hguard2 hpull2 hst hcd0
    (loaded := loaded) (by simpa [Server.findClient, Server.setDoc] using hl)
  obtain ⟨doc2, p2', _, _, _, _, vv2, hdoc2, _, _, hg2, _, _, _, hdocs2, _⟩ := (pushPull_ppok h2).ex
  rw [hdw] at hdoc2; injection hdoc2 with hdoc2; subst hdoc2
  rw [hguard2] at hg2; injection hg2 with hg2; subst hg2
  refine ⟨p2, s'', f'', _, hp2', h2, by simp only [Server.findDoc]; rw [hdocs2]; exact AL.get?_set_self _ _ _,
    (assignSeqs ((stripped f).info.genOf (stripped f).doc) doc.serverSeq ((stripped f).info.checkpoint (stripped f).doc) p).1,
    (assignSeqs ((stripped f).info.genOf (stripped f).doc) (pushedDoc doc (stripped f) p).serverSeq
      ((stripped f).info.checkpoint (stripped f).doc) p2).1, ?_, assignSeqs_keys _ _ _ _, assignSeqs_keys _ _ _ _, ?_⟩
  · simp [pushedDoc]
  · exact (assignSeqs_spec _ _ _ _).2.2.1

/-! ### the retry after everything was committed (lost response, or an error after the last write) -/

/-- the checkpoint of an accepted answer, for a request that keeps the document attached -/
theorem pullPackResp_cp {s : Server} {f : Flight} {r : Resp} (h : pullPackResp s f = .ok r) (hst : f.status = .attached) :
    r.cp.clientSeq = f.cpAfterPush.clientSeq ∧
    r.cp.serverSeq = (if f.pushOnly then f.pack.cp.serverSeq else f.docInfo.serverSeq) := by
  unfold pullPackResp at h
  split at h
  · next r' hr =>
    injection h with h; subst h
    unfold preparePackCore at hr
    split at hr
    · simp at hr
    · split at hr
      · next hpo => injection hr with hr; subst hr; simp [hpo]
      · next hpo =>
        split at hr
        · simp at hr
        · split at hr
          · simp at hr
          · split at hr
            · injection hr with hr; subst hr
              simp [pullChangeInfos, nextServerSeq_clientSeq, nextServerSeq_serverSeq, hpo]
            · injection hr with hr; subst hr
              simp [nextServerSeq_clientSeq, nextServerSeq_serverSeq, hpo]
  · split at h
    · next hc => rw [hst] at hc; simp at hc
    · simp at h

theorem assignSeqs_covers_changes (gen : Nat) (head : Int) (cp : Checkpoint) (cs : List ChangeReq) :
    ∀ c ∈ cs, c.clientSeq ≤ (assignSeqs gen head cp cs).2.2.clientSeq := by
  intro c hc
  have h1 := assignSeqs_cp_covers gen head cp cs
  have sp := assignSeqs_spec gen head cp cs
  simp only [] at sp
  obtain ⟨_, _, _, q4, _, _⟩ := sp
  have : c.clientSeq ∈ cs.map (·.clientSeq) := List.mem_map_of_mem (f := (·.clientSeq)) hc
  rw [← q4] at this
  obtain ⟨r, hr, hre⟩ := List.mem_map.mp this
  rw [← hre]; exact h1 r hr

/-- the stored entry after an accepted sync: `UpdateClientInfoAfterPushPull` max-merges the response
checkpoint into the stored one -/
def mergedEntry (cp : Checkpoint) (cd0 : ClientDoc) : ClientDoc :=
  { status := .attached, serverSeq := Max.max cp.serverSeq cd0.serverSeq, clientSeq := Max.max cp.clientSeq cd0.clientSeq,
    epoch := cd0.epoch, gen := cd0.gen }

/-- A sync that was accepted, sent again unchanged (the response was lost, or the handler failed after
its last write): accepted again, and the store is EXACTLY what it was – no row, no checkpoint, no
version-vector row changes. -/
theorem pushPull_idempotent {s s' : Server} {f f' : Flight} (h : pushPull s f = (s', .ok f'))
    (hst : f.status = .attached) (hinfo : s.findClient f.client = some f.info)
    (hatt : f.info.statusOf f.doc = some .attached) :
    ∃ info1 f2', s'.findClient f.client = some info1 ∧ info1.activated = f.info.activated ∧
      info1.statusOf f.doc = some .attached ∧ (∃ d1, s'.findDoc f.doc = some d1) ∧
      pushPull s' { f with info := info1 } = (s', .ok f2') ∧
      f2'.resp.cp = f'.resp.cp := by
  obtain ⟨doc, p, loaded, info', cd, r, vv, hdoc, hl, hcont, hguard, hpull, hstatus, hcd, hdocs, hvv, hclients,
    hnd, hnc, hcfg, hcp', _, _, _⟩ := (pushPull_ppok h).ex
  rw [hinfo] at hl; injection hl with hl; subst hl
  obtain ⟨cd0, hcd0, _, hm⟩ := updateDocStatus_spec hstatus
  rw [hst] at hm; simp only [StatusPost] at hm
  have hst0 : cd0.status = .attached := by
    rw [statusOf_of_get? hcd0] at hatt; injection hatt
  have hcdv : cd = { cd0 with serverSeq := r.cp.serverSeq, clientSeq := r.cp.clientSeq } := by
    rw [hm, AL.get?_set_self] at hcd; injection hcd with hcd; exact hcd.symm
  obtain ⟨hrc, hrs⟩ := pullPackResp_cp hpull (by simpa [pushedFlight] using hst)
  simp only [pushedFlight] at hrc hrs
  -- the stored entry and client row after the first run
  have hent : persistEntry cd f.info f.doc =
      { status := .attached, serverSeq := Max.max r.cp.serverSeq cd0.serverSeq, clientSeq := Max.max r.cp.clientSeq cd0.clientSeq,
        epoch := cd0.epoch, gen := cd0.gen } := by
    simp [persistEntry, hcdv, hst0, mergeClientDoc, hcd0]
  change persistEntry cd f.info f.doc = mergedEntry r.cp cd0 at hent
  generalize hE : mergedEntry r.cp cd0 = entry1 at hent
  have hE1 : entry1.status = .attached := by rw [← hE]; rfl
  have hE2 : entry1.clientSeq = Max.max r.cp.clientSeq cd0.clientSeq := by rw [← hE]; rfl
  have hE3 : entry1.serverSeq = Max.max r.cp.serverSeq cd0.serverSeq := by rw [← hE]; rfl
  have hE4 : entry1.epoch = cd0.epoch := by rw [← hE]; rfl
  rw [hent] at hclients
  have hfc : s'.findClient f.client = some { f.info with docs := f.info.docs.set f.doc entry1 } := by
    simp only [Server.findClient]; rw [hclients]; exact AL.get?_set_self _ _ _
  have hfd : s'.findDoc f.doc = some { pushedDoc doc (stripped f) p with vvRows := vv } := by
    simp only [Server.findDoc]; rw [hdocs]; exact AL.get?_set_self _ _ _
  generalize hI : ({ f.info with docs := f.info.docs.set f.doc entry1 } : Client) = info1 at hfc
  have hI1 : info1.docs.get? f.doc = some entry1 := by rw [← hI]; exact AL.get?_set_self _ _ _
  have hcp1 : info1.checkpoint f.doc = ⟨entry1.serverSeq, entry1.clientSeq⟩ := by simp [Client.checkpoint, hI1]
  have hcp0 : f.info.checkpoint f.doc = ⟨cd0.serverSeq, cd0.clientSeq⟩ := by simp [Client.checkpoint, hcd0]
  have hstripped : stripped { f with info := info1 } = { stripped f with info := info1 } := by
    unfold stripped; split <;> rfl
  -- the acknowledged client sequence covers everything that was pushed
  have hcover : ∀ c ∈ p, c.clientSeq ≤ entry1.clientSeq := by
    intro c hc
    have := assignSeqs_covers_changes ((stripped f).info.genOf (stripped f).doc) doc.serverSeq
      ((stripped f).info.checkpoint (stripped f).doc) p c hc
    rw [hE2, hrc]
    exact Nat.le_trans this (Nat.le_max_left _ _)
  have hle : cd0.clientSeq ≤ entry1.clientSeq := by rw [hE2]; exact Nat.le_max_right _ _
  -- 1. continuity
  have hcont2 : seqsContinuous (info1.checkpoint f.doc).clientSeq ((info1.checkpoint f.doc).clientSeq + 1) f.pack.changes = true := by
    rw [hcp1]; rw [hcp0] at hcont
    exact seqsContinuous_raise hle _ hcont
  -- 2. nothing is pushable any more
  have hdocE : ({ pushedDoc doc (stripped f) p with vvRows := vv } : Doc).epoch = doc.epoch := rfl
  have hguard2 : pushGuard s' (stripped { f with info := info1 }) = .ok [] := by
    rw [hstripped]
    have hepoch : ∀ e : Int, epochDiffers info1 f.doc e = epochDiffers f.info f.doc e := by
      intro e; simp only [epochDiffers, hI1, hE4, hcd0]
    have hfd' : s'.findDoc ({ stripped f with info := info1 } : Flight).doc =
        some { pushedDoc doc (stripped f) p with vvRows := vv } := by simpa using hfd
    rcases pushGuard_ok_cases hguard with hp | ⟨hp, doc', hd', hdis⟩
    · -- nothing was discarded: everything pushable has been stored and acknowledged
      have hnil : pushablesOf { stripped f with info := info1 } = [] := by
        simp only [pushablesOf, List.filter_eq_nil_iff, stripped_doc, isPushable, decide_eq_true_eq, hcp1]
        intro c hc hgt
        by_cases hc0 : c.clientSeq > cd0.clientSeq
        · have : c ∈ p := by
            rw [hp]; simp only [pushablesOf, List.mem_filter, isPushable, decide_eq_true_eq, stripped_doc, stripped_info, hcp0]
            exact ⟨hc, hc0⟩
          have := hcover c this; omega
        · omega
      unfold pushGuard
      rw [hnil]
      simp only [List.isEmpty_nil, Bool.not_true, Bool.false_or]
      split
      · next hrm =>
        rw [hfd']
        simp only []
        -- the original guard went through the same tests on a head that was not larger
        have hrm' : f.pack.isRemoved = true := by simpa using hrm
        unfold pushGuard at hguard
        simp only [stripped_isRemoved, stripped_doc, stripped_info, stripped_cp, hrm', Bool.or_true, if_true, hdoc] at hguard
        simp only [stripped_doc, pushedDoc_epoch, hepoch]
        split
        · rfl
        · next hx =>
          rw [if_neg hx] at hguard
          split at hguard
          · simp at hguard
          · next hy =>
            rw [if_neg (by rw [stripped_cp, pushedDoc_serverSeq]; omega)]
            split <;> rfl
      · rfl
    · -- the pushables were discarded (stale epoch / removed document): they are discarded again
      simp only [stripped_doc] at hd' hdis
      rw [hdoc] at hd'; injection hd' with hd'; subst hd'
      unfold pushGuard
      split
      · rw [hfd']
        simp only [stripped_doc, pushedDoc_epoch, hepoch]
        rcases hdis with hst' | ⟨hst', hss, hsw, hrem⟩
        · simp only [stripped_doc, stripped_info] at hst'; rw [if_pos hst']
        · simp only [stripped_doc, stripped_info, stripped_cp] at hst' hss
          rw [if_neg (by simp [hst']), if_neg (by rw [stripped_cp, pushedDoc_serverSeq]; omega)]
          have : ((s'.cfg.pushAfterRemoveDiscards && (doc.removed || (stripped f).pack.isRemoved)) = true) := by
            rw [hcfg, hsw, hrem]; rfl
          show (if (s'.cfg.pushAfterRemoveDiscards && (doc.removed || (stripped f).pack.isRemoved)) = true then _ else _) = _
          rw [if_pos this]
      · next hc =>
        have hx : pushablesOf { stripped f with info := info1 } = [] := by
          have := hc; simp only [Bool.or_eq_true, Bool.not_eq_true', not_or, Bool.not_eq_false] at this
          simpa using this.1
        rw [hx]
  -- 3. the pull is accepted
  have hpull2 : ∃ r2, pullPackResp
      (s'.setDoc f.doc (pushedDoc { pushedDoc doc (stripped f) p with vvRows := vv } (stripped { f with info := info1 }) []))
      (pushedFlight { pushedDoc doc (stripped f) p with vvRows := vv } (stripped { f with info := info1 }) []) = .ok r2 := by
    obtain ⟨h0, h1⟩ := (pullPackResp_accepts (s := s.setDoc f.doc (pushedDoc doc (stripped f) p))
      (f := pushedFlight doc (stripped f) p) (by simpa [pushedFlight] using hst)).mp ⟨r, hpull⟩
    refine (pullPackResp_accepts (by simpa [pushedFlight, hstripped] using hst)).mpr ⟨?_, ?_⟩
    · intro hsw
      have hsw' : (s.setDoc f.doc (pushedDoc doc (stripped f) p)).cfg.stalePushOnlyRefused = true := by
        show s.cfg.stalePushOnlyRefused = true
        rw [← hcfg]; exact hsw
      have h0' := h0 hsw'
      rw [hstripped]
      simp only [pushedFlight, stripped_doc, stripped_info, pushedDoc_epoch] at h0' ⊢
      simp only [epochDiffers, hI1, hE4]
      simpa [epochDiffers, hcd0] using h0'
    rw [hstripped]
    rcases h1 with h1 | ⟨h1, h2⟩
    · exact Or.inl (by simpa [pushedFlight] using h1)
    · refine Or.inr ⟨?_, ?_⟩
      · simp only [pushedFlight, stripped_doc, stripped_info, pushedDoc_epoch] at h1 ⊢
        simp only [epochDiffers, hI1, hE4]
        simpa [epochDiffers, hcd0] using h1
      · rw [pushedFlight_initialSeq] at h2 ⊢
        have e1 : (pushedFlight doc (stripped f) p).pack.cp = f.pack.cp := by simp [pushedFlight]
        rw [e1] at h2
        simp only [pushedFlight, stripped_cp]
        show f.pack.cp.serverSeq ≤ (pushedDoc doc (stripped f) p).serverSeq
        rw [pushedDoc_serverSeq]; omega
  obtain ⟨s'', f2', h2⟩ := pushPull_accepts (f := { f with info := info1 }) hcont2 hfd hguard2 hpull2 hst hI1
    (loaded := info1) hfc
  obtain ⟨doc2, p2, loaded2, info2', cd2, r2, vv2, hdoc2, hl2, _, hg2, hpull2', hstatus2, hcd2, hdocs2, hvv2, hclients2,
    hnd2, hnc2, hcfg2, hcp2, _⟩ := (pushPull_ppok h2).ex
  simp only [] at hdoc2 hl2 hg2 hpull2' hstatus2 hcd2 hdocs2 hvv2 hclients2
  rw [hfd] at hdoc2; injection hdoc2 with hdoc2; subst hdoc2
  rw [hguard2] at hg2; injection hg2 with hg2; subst hg2
  rw [hfc] at hl2; injection hl2 with hl2; subst hl2
  obtain ⟨hrc2, hrs2⟩ := pullPackResp_cp hpull2' (by simpa [pushedFlight, hstripped] using hst)
  have e1 : r2.cp.clientSeq = entry1.clientSeq := by
    rw [hrc2, hstripped]; simp [pushedFlight, assignSeqs, hcp1]
  have e2 : r2.cp.serverSeq = r.cp.serverSeq := by
    rw [hrs2, hrs, hstripped]
    simp only [pushedFlight, stripped_pushOnly, stripped_cp]
    split
    · rfl
    · simp [pushedDoc, assignSeqs]
  have hge : cd0.clientSeq ≤ r.cp.clientSeq := by
    rw [hrc]
    have := assignSeqs_cp_ge ((stripped f).info.genOf (stripped f).doc) doc.serverSeq
      ((stripped f).info.checkpoint (stripped f).doc) p
    rw [show ((stripped f).info.checkpoint (stripped f).doc).clientSeq = cd0.clientSeq from by simp [hcp0]] at this
    exact this
  have e3 : entry1.clientSeq = r.cp.clientSeq := by rw [hE2]; exact Nat.max_eq_left hge
  have hrr : r2.cp = r.cp := by
    rcases hx : r2.cp with ⟨a, b⟩
    rcases hy : r.cp with ⟨c, d⟩
    rw [hx] at e1 e2; rw [hy] at e2 e3
    simp only [] at e1 e2 e3
    rw [e2, e1, e3]
  -- the second run stores exactly what is stored already
  obtain ⟨cd1, hcd1, _, hm2⟩ := updateDocStatus_spec hstatus2
  rw [hst] at hm2; simp only [StatusPost] at hm2
  rw [hI1] at hcd1; injection hcd1 with hcd1; subst hcd1
  have hcd2v : cd2 = { entry1 with serverSeq := r2.cp.serverSeq, clientSeq := r2.cp.clientSeq } := by
    rw [hm2, AL.get?_set_self] at hcd2; injection hcd2 with hcd2; exact hcd2.symm
  have hent2 : persistEntry cd2 info1 f.doc = entry1 := by
    rw [hcd2v]
    simp only [persistEntry, hE1, beq_self_eq_true, if_true, mergeClientDoc, hI1, Option.getD_some]
    rw [hrr, ← e3, hE3]
    have hm : Max.max r.cp.serverSeq (Max.max r.cp.serverSeq cd0.serverSeq) = Max.max r.cp.serverSeq cd0.serverSeq := by
      omega
    rw [hm, Nat.max_self]
    rw [← hE1, ← hE3]
  have hs'' : s'' = s' := by
    refine Server.ext' hcfg2 ?_ ?_ hnc2 hnd2
    · rw [hclients2, hent2]
      have : ({ info1 with docs := info1.docs.set f.doc entry1 } : Client) = info1 := by
        rw [AL.set_get_self _ _ _ hI1]
      rw [this]
      exact AL.set_get_self _ _ _ (by simpa [Server.findClient] using hfc)
    · rw [hdocs2]
      have hd2 : ({ pushedDoc { pushedDoc doc (stripped f) p with vvRows := vv } (stripped { f with info := info1 }) [] with vvRows := vv2 } : Doc)
          = { pushedDoc doc (stripped f) p with vvRows := vv } := by
        have hvveq : vv2 = vv := by
          have hcs2 : (cd2.status == DocStatus.attached) = true := by rw [hcd2v]; simp [hE1]
          have hcs1 : (cd.status == DocStatus.attached) = true := by rw [hcdv]; simp [hst0]
          rcases hvv2 with ⟨hv, _⟩ | ⟨hg, hv⟩
          · rw [hv]; rfl
          · rcases hvv with ⟨_, hgc⟩ | ⟨_, hv1⟩
            · rw [hgc] at hg; simp at hg
            · rw [hv, hcs2, hv1, hcs1]
              simp only [if_true, pushedDoc_vvRows]
              exact AL.set_set _ _ _ _
        rw [hvveq]
        simp [pushedDoc, assignSeqs, hstripped]
      rw [hd2]
      exact AL.set_get_self _ _ _ (by simpa [Server.findDoc] using hfd)
  refine ⟨info1, f2', hfc, by rw [← hI], by simp [Client.statusOf, hI1, hE1], ⟨_, hfd⟩, ?_, ?_⟩
  · rw [hs''] at h2; exact h2
  · rw [hcp2, hcp', hrr]

/-! ### what a fault inside the window leaves behind -/

theorem createChangeInfos_intro {s : Server} {g : Flight} {doc : Doc} (p : List ChangeReq)
    (hd : s.findDoc g.doc = some doc) :
    createChangeInfos s g p = (s.setDoc g.doc (pushedDoc doc g p), .ok (pushedFlight doc g p)) := by
  unfold createChangeInfos; rw [hd]; rfl

theorem updateVersionVector_form {s s5 : Server} {f : Flight} {pd : Doc} (h : updateVersionVector s f = .ok s5)
    (hd : s.findDoc f.doc = some pd) : ∃ v, s5 = s.setDoc f.doc { pd with vvRows := v } := by
  unfold updateVersionVector at h
  split at h
  · simp at h
  · rw [hd] at h
    simp only [] at h
    split at h <;> injection h with h <;> exact ⟨_, h.symm⟩

theorem setDoc_setDoc (s : Server) (d : DocId) (x y : Doc) : (s.setDoc d x).setDoc d y = s.setDoc d y := by
  simp [Server.setDoc, AL.set_set]

/-- An accepted sync with ONE fault inside the window: either the call the fault sits on is not
reached by this request (then nothing happened: the request runs as without fault), or the answer is
the injected error and the store is the original one with the document AFTER `CreateChangeInfos`
(rows appended, head forwarded; version-vector row possibly written) – the client row is untouched. -/
theorem pushPullF_inWindow {s s' : Server} {f f' : Flight} (h : pushPull s f = (s', .ok f')) {k : Fault}
    (hk : k.inWindow = true) :
    pushPullF (some k) s f = pushPull s f ∨
    ∃ doc p v, s.findDoc f.doc = some doc ∧ pushGuard s (stripped f) = .ok p ∧
      pushPullF (some k) s f = (s.setDoc f.doc { pushedDoc doc (stripped f) p with vvRows := v }, .error .internal) := by
  obtain ⟨ch⟩ := pushPull_ok h
  obtain ⟨doc, p, r, info', s5, cd, loaded, hcont, hdoc, hguard, hpull, hstatus, hvv, hcd, hl, hfinal, hfl⟩ := ch
  have e1 := validateClientSeq_intro (s := s) hcont
  have e2 := stripPresence_eq s f
  have e3 := pushPack_intro (g := stripped f) (by simpa using hdoc) hguard
  simp only [stripped_doc] at e3
  have e4 : preparePack (s.setDoc f.doc (pushedDoc doc (stripped f) p)) (pushedFlight doc (stripped f) p) =
      (s.setDoc f.doc (pushedDoc doc (stripped f) p), .ok (preparedFlight doc f p r)) := by
    rw [preparePack_intro hpull]; simp [preparedFlight, pushedFlight]
  have e5 : updateDocStatus (s.setDoc f.doc (pushedDoc doc (stripped f) p)) (preparedFlight doc f p r) =
      (s.setDoc f.doc (pushedDoc doc (stripped f) p), .ok { preparedFlight doc f p r with info := info' }) :=
    updateDocStatus_intro (by simpa [preparedFlight, pushedFlight] using hstatus)
  have hvv' : (f.disableGC = true ∧ s5 = s.setDoc f.doc (pushedDoc doc (stripped f) p)) ∨
      (f.disableGC = false ∧ updateVersionVector (s.setDoc f.doc (pushedDoc doc (stripped f) p))
        { preparedFlight doc f p r with info := info' } = .ok s5) := by
    simpa [preparedFlight, pushedFlight] using hvv
  have e6 := updateMinVV_intro (s := s.setDoc f.doc (pushedDoc doc (stripped f) p)) (s5 := s5)
    (f := { preparedFlight doc f p r with info := info' }) (by simpa [preparedFlight, pushedFlight] using hvv')
  -- the store after the version-vector phase is the original with the document replaced
  have hs5 : ∃ v, s5 = s.setDoc f.doc { pushedDoc doc (stripped f) p with vvRows := v } := by
    rcases hvv' with ⟨_, e⟩ | ⟨_, e⟩
    · exact ⟨(pushedDoc doc (stripped f) p).vvRows, by rw [e]⟩
    · obtain ⟨v, hv⟩ := updateVersionVector_form e (pd := pushedDoc doc (stripped f) p)
        (by simp only [preparedFlight, pushedFlight, stripped_doc]; exact setDoc_findDoc_self _ _ _)
      refine ⟨v, ?_⟩
      rw [hv]; simp only [preparedFlight, pushedFlight, stripped_doc]; exact setDoc_setDoc _ _ _ _
  have hs1 : s.setDoc f.doc (pushedDoc doc (stripped f) p) =
      s.setDoc f.doc { pushedDoc doc (stripped f) p with vvRows := (pushedDoc doc (stripped f) p).vvRows } := rfl
  obtain ⟨pt, a⟩ := k
  cases pt <;> simp [Fault.inWindow] at hk
  · -- createChanges, after
    subst hk
    right
    refine ⟨doc, p, (pushedDoc doc (stripped f) p).vvRows, hdoc, hguard, ?_⟩
    have e3f : pushPackF (some ⟨.createChanges, true⟩) s (stripped f) =
        (s.setDoc f.doc (pushedDoc doc (stripped f) p), .error .internal) := by
      have h0 : (FaultAt.createChanges == FaultAt.pushFindDoc) = false := by decide
      simp only [pushPackF, Fault.hits, Fault.isAfter, h0, Bool.false_and, Bool.false_eq_true, if_false,
        beq_self_eq_true, if_true, hguard, faultyCall, Bool.not_true]
      rw [createChangeInfos_intro p (by simpa using hdoc)]
      simp
    simp only [pushPullF, Phase.andThen, e1, e2, e3f]
  · -- pullFindChanges
    have e3' : pushPackF (some ⟨.pullFindChanges, a⟩) = pushPack := rfl
    have e6' : updateMinVVF (some ⟨.pullFindChanges, a⟩) = updateMinVV := rfl
    have e7' : persistClientInfoF (some ⟨.pullFindChanges, a⟩) = persistClientInfo := rfl
    by_cases hr : pullReadsChanges (s.setDoc f.doc (pushedDoc doc (stripped f) p)) (pushedFlight doc (stripped f) p) = true
    · right
      refine ⟨doc, p, (pushedDoc doc (stripped f) p).vvRows, hdoc, hguard, ?_⟩
      have e4f : preparePackF (some ⟨.pullFindChanges, a⟩) (s.setDoc f.doc (pushedDoc doc (stripped f) p))
          (pushedFlight doc (stripped f) p) = (s.setDoc f.doc (pushedDoc doc (stripped f) p), .error .internal) := by
        simp [preparePackF, Fault.hits, hr]
      simp only [pushPullF, Phase.andThen, e1, e2, e3', e3, e4f]
    · left
      have e4f : preparePackF (some ⟨.pullFindChanges, a⟩) (s.setDoc f.doc (pushedDoc doc (stripped f) p))
          (pushedFlight doc (stripped f) p) = preparePack (s.setDoc f.doc (pushedDoc doc (stripped f) p))
          (pushedFlight doc (stripped f) p) := by
        simp only [Bool.not_eq_true] at hr
        simp [preparePackF, Fault.hits, hr]
      simp only [pushPullF, pushPull, Phase.andThen, e1, e2, e3', e3, e4f, e6', e7']
  · -- updateMinVV
    have e3' : pushPackF (some ⟨.updateMinVV, a⟩) = pushPack := rfl
    have e4' : preparePackF (some ⟨.updateMinVV, a⟩) = preparePack := rfl
    have e7' : persistClientInfoF (some ⟨.updateMinVV, a⟩) = persistClientInfo := rfl
    cases hgc : f.disableGC with
    | true =>
      left
      have e6f : updateMinVVF (some ⟨.updateMinVV, a⟩) (s.setDoc f.doc (pushedDoc doc (stripped f) p))
          { preparedFlight doc f p r with info := info' } = updateMinVV (s.setDoc f.doc (pushedDoc doc (stripped f) p))
          { preparedFlight doc f p r with info := info' } := by
        simp [updateMinVVF, Fault.hits, preparedFlight, pushedFlight, hgc]
      simp only [pushPullF, pushPull, Phase.andThen, e1, e2, e3', e3, e4', e4, e5, e6f, e7']
    | false =>
      right
      cases a with
      | false =>
        refine ⟨doc, p, (pushedDoc doc (stripped f) p).vvRows, hdoc, hguard, ?_⟩
        have e6f : updateMinVVF (some ⟨.updateMinVV, false⟩) (s.setDoc f.doc (pushedDoc doc (stripped f) p))
            { preparedFlight doc f p r with info := info' } =
            (s.setDoc f.doc (pushedDoc doc (stripped f) p), .error .internal) := by
          simp [updateMinVVF, Fault.hits, Fault.isAfter, faultyCall, preparedFlight, pushedFlight, hgc]
        simp only [pushPullF, Phase.andThen, e1, e2, e3', e3, e4', e4, e5, e6f]
      | true =>
        obtain ⟨v, hv⟩ := hs5
        refine ⟨doc, p, v, hdoc, hguard, ?_⟩
        have e6f : updateMinVVF (some ⟨.updateMinVV, true⟩) (s.setDoc f.doc (pushedDoc doc (stripped f) p))
            { preparedFlight doc f p r with info := info' } = (s5, .error .internal) := by
          have hg2 : (preparedFlight doc f p r).disableGC = false := by
            simpa [preparedFlight, pushedFlight] using hgc
          simp only [updateMinVVF, Fault.hits, Fault.isAfter, beq_self_eq_true, faultyCall, Bool.not_true,
            Bool.false_eq_true, if_false, e6]
          simp [hg2]
        simp only [pushPullF, Phase.andThen, e1, e2, e3', e3, e4', e4, e5, e6f]
        rw [hv]
  · -- updateClientInfo, before
    subst hk
    right
    obtain ⟨v, hv⟩ := hs5
    refine ⟨doc, p, v, hdoc, hguard, ?_⟩
    have e3' : pushPackF (some ⟨.updateClientInfo, false⟩) = pushPack := rfl
    have e4' : preparePackF (some ⟨.updateClientInfo, false⟩) = preparePack := rfl
    have e6' : updateMinVVF (some ⟨.updateClientInfo, false⟩) = updateMinVV := rfl
    have e7f : persistClientInfoF (some ⟨.updateClientInfo, false⟩) s5
        (minVVFlight s5 { preparedFlight doc f p r with info := info' }) = (s5, .error .internal) := by
      simp [persistClientInfoF, Fault.hits, Fault.isAfter, faultyCall]
    simp only [pushPullF, Phase.andThen, e1, e2, e3', e3, e4', e4, e5, e6', e6, e7f]
    rw [hv]

/-- an error after the last write: the store is that of the fault-free request -/
theorem pushPullF_afterAll {s s' : Server} {f f' : Flight} (h : pushPull s f = (s', .ok f')) :
    pushPullF (some ⟨.updateClientInfo, true⟩) s f = (s', .error .internal) := by
  have e3' : pushPackF (some ⟨.updateClientInfo, true⟩) = pushPack := rfl
  have e4' : preparePackF (some ⟨.updateClientInfo, true⟩) = preparePack := rfl
  have e6' : updateMinVVF (some ⟨.updateClientInfo, true⟩) = updateMinVV := rfl
  have h' := h
  unfold pushPull at h'
  obtain ⟨s6, f6, h6, h7⟩ := andThen_ok h'
  have e7f : persistClientInfoF (some ⟨.updateClientInfo, true⟩) s6 f6 = (s', .error .internal) := by
    simp [persistClientInfoF, Fault.hits, Fault.isAfter, faultyCall, h7]
  simp only [pushPullF, e3', e4', e6']
  rw [andThen_ok' h6]
  exact e7f

/-! ### lifting to the `PushPullChanges` handler -/

theorem pushpullReq_eval {s : Server} {c : ClientId} {d : DocId} {info : Client} {doc : Doc}
    (hc : s.findClient c = some info) (ha : info.activated = true) (hst : info.statusOf d = some .attached)
    (hd : s.findDoc d = some doc) (pack : Pack) (po nogc : Bool) :
    pushpullReq s c d pack po nogc = finish (pushPull s (mkFlight c d info pack po .attached nogc doc.disablePresence)) := by
  unfold pushpullReq
  simp [Server.findActiveClient, hc, ha, Client.ensureAttached, hst, hd]

theorem pushpullReqF_eval {s : Server} {c : ClientId} {d : DocId} {info : Client} {doc : Doc}
    (hc : s.findClient c = some info) (ha : info.activated = true) (hst : info.statusOf d = some .attached)
    (hd : s.findDoc d = some doc) (pack : Pack) (po nogc : Bool) (k : Fault)
    (h1 : k.point ≠ .handlerFindClient) (h2 : k.point ≠ .handlerFindDoc) :
    pushpullReqF (some k) s c d pack po nogc =
      finish (pushPullF (some k) s (mkFlight c d info pack po .attached nogc doc.disablePresence)) := by
  unfold pushpullReqF
  simp [readFault, Fault.hits, h1, h2, Server.findActiveClient, hc, ha, Client.ensureAttached, hst, hd]

/-- a fault on one of the two reads at handler level: nothing was written -/
theorem pushpullReqF_handlerRead (s : Server) (c : ClientId) (d : DocId) (pack : Pack) (po nogc : Bool) (k : Fault)
    (h : k.point = .handlerFindClient ∨ k.point = .handlerFindDoc) :
    (pushpullReqF (some k) s c d pack po nogc).1 = s := by
  obtain ⟨p, a⟩ := k
  simp only [] at h
  unfold pushpullReqF
  rcases h with rfl | rfl
  · simp only [readFault, Fault.hits, beq_self_eq_true, if_true]
    split <;> rfl
  · have h0 : (FaultAt.handlerFindDoc == FaultAt.handlerFindClient) = false := by decide
    simp only [readFault, Fault.hits, h0, Bool.false_eq_true, if_false, beq_self_eq_true, if_true]
    split
    · rfl
    · split
      · rfl
      · split <;> rfl

/-- the sync is accepted again after it was accepted once, and nothing changes -/
theorem pushpullReq_idempotent {s s' : Server} {c : ClientId} {d : DocId} {pack : Pack} {po nogc : Bool} {r : Resp}
    (h : pushpullReq s c d pack po nogc = (s', .ok r)) :
    ∃ r', pushpullReq s' c d pack po nogc = (s', .ok r') ∧ r'.cp = r.cp := by
  rcases pushpullReq_inv h with ⟨_, e, he⟩ | ⟨info, doc, hi, ha, hst, hd, hf⟩
  · simp at he
  obtain ⟨f', hpp, hr⟩ := finish_ok hf
  obtain ⟨info1, f2', h1, h2, h3, ⟨d1, h4⟩, h5, h6⟩ := pushPull_idempotent hpp (by simp) (by simpa using hi) (by simpa using hst)
  simp only [mkFlight_client, mkFlight_doc, mkFlight_info] at h1 h2 h3 h4
  -- the document keeps its presence option
  have hdp : d1.disablePresence = doc.disablePresence := by
    obtain ⟨doc0, p, _, _, _, _, vv, hd0, _, _, _, _, _, _, hdocs, _⟩ := (pushPull_ppok hpp).ex
    simp only [mkFlight_doc] at hd0 hdocs
    rw [hd] at hd0; injection hd0 with hd0; subst hd0
    simp only [Server.findDoc] at h4; rw [hdocs, AL.get?_set_self] at h4
    injection h4 with h4; subst h4; rfl
  rw [pushpullReq_eval h1 (by rw [h2]; exact ha) h3 h4, hdp]
  have : ({ mkFlight c d info pack po .attached nogc doc.disablePresence with info := info1 } : Flight) =
      mkFlight c d info1 pack po .attached nogc doc.disablePresence := rfl
  rw [this] at h5
  rw [h5]
  exact ⟨f2'.resp, rfl, by rw [h6, hr]⟩

theorem pushPullF_attachOnly {k : Fault} (hk : k.attachOnly = true) : pushPullF (some k) = pushPull := by
  obtain ⟨p, a⟩ := k
  cases p <;> simp [Fault.attachOnly] at hk <;> rfl

/-- where one faulty `PushPullChanges` that would have been accepted leaves the store: untouched, or
as after the fault-free request, or – only for a fault inside the window – the original store with
the document as `CreateChangeInfos` left it -/
theorem pushpullReqF_outcomes {s s' : Server} {c : ClientId} {d : DocId} {pack : Pack} {po nogc : Bool} {r : Resp}
    (h : pushpullReq s c d pack po nogc = (s', .ok r)) (k : Fault) :
    (pushpullReqF (some k) s c d pack po nogc).1 = s ∨ (pushpullReqF (some k) s c d pack po nogc).1 = s' ∨
    (k.inWindow = true ∧ ∃ info doc p v f', s.findClient c = some info ∧ info.activated = true ∧
      info.statusOf d = some .attached ∧ s.findDoc d = some doc ∧
      pushGuard s (stripped (mkFlight c d info pack po .attached nogc doc.disablePresence)) = .ok p ∧
      pushPull s (mkFlight c d info pack po .attached nogc doc.disablePresence) = (s', .ok f') ∧
      pushpullReqF (some k) s c d pack po nogc =
        (s.setDoc d { pushedDoc doc (stripped (mkFlight c d info pack po .attached nogc doc.disablePresence)) p with vvRows := v },
         .error .internal)) := by
  rcases pushpullReq_inv h with ⟨_, e, he⟩ | ⟨info, doc, hi, ha, hst, hd, hf⟩
  · simp at he
  obtain ⟨f', hpp, hr⟩ := finish_ok hf
  by_cases h1 : k.point = .handlerFindClient
  · exact Or.inl (pushpullReqF_handlerRead s c d pack po nogc k (Or.inl h1))
  by_cases h2 : k.point = .handlerFindDoc
  · exact Or.inl (pushpullReqF_handlerRead s c d pack po nogc k (Or.inr h2))
  rw [pushpullReqF_eval hi ha hst hd pack po nogc k h1 h2]
  rcases Fault.classes k with hk | hk | hk | hk
  · rcases pushPullF_beforeCommit hk s (mkFlight c d info pack po .attached nogc doc.disablePresence) with ⟨e, he⟩ | he
    · left; rw [he]; rfl
    · right; left; rw [he, hpp]; rfl
  · rcases pushPullF_inWindow hpp hk with he | ⟨doc0, p, v, hd0, hg, he⟩
    · right; left; rw [he, hpp]; rfl
    · simp only [mkFlight_doc] at hd0 he
      rw [hd] at hd0; injection hd0 with hd0; subst hd0
      right; right
      exact ⟨hk, info, doc, p, v, f', hi, ha, hst, hd, hg, hpp, by rw [he]; rfl⟩
  · have : k = ⟨.updateClientInfo, true⟩ := by
      obtain ⟨p, a⟩ := k
      simp only [Fault.afterAll, Bool.and_eq_true, beq_iff_eq] at hk
      obtain ⟨rfl, rfl⟩ := hk; rfl
    subst this
    right; left
    rw [pushPullF_afterAll hpp]; rfl
  · right; left
    rw [pushPullF_attachOnly hk, hpp]; rfl

end Yorkie.Server
