/-
Helper lemmas for Model/Server.lean, part 4: what a successful / failing `pushPull` does to the
client table and to the document table, in a form the invariants can consume.
-/
import YorkieModel.Lemmas.ServerLog
namespace Yorkie.Server
open Yorkie

namespace AL
variable {α : Type}

theorem set_set (m : AL α) (a : Nat) (x y : α) : (m.set a x).set a y = m.set a y := by
  induction m with
  | nil => simp [AL.set]
  | cons p r ih =>
    obtain ⟨k, v⟩ := p
    simp only [AL.set]
    by_cases h : k = a
    · simp [h, AL.set]
    · simp [h, AL.set, ih]

end AL

/-- the stored per-document entry of a client -/
def entryOf (s : Server) (c : ClientId) (d : DocId) : Option ClientDoc :=
  match s.clients.get? c with
  | some i => i.docs.get? d
  | none => none

/-- summary of a successful `PushPull` -/
structure PPOk (s : Server) (f : Flight) (s' : Server) (f' : Flight) : Prop where
  ex : ∃ (doc : Doc) (pushables : List ChangeReq) (loaded info' : Client) (cd : ClientDoc) (r : Resp) (vv : AL VV),
    s.findDoc f.doc = some doc ∧
    s.findClient f.client = some loaded ∧
    seqsContinuous (f.info.checkpoint f.doc).clientSeq ((f.info.checkpoint f.doc).clientSeq + 1) f.pack.changes = true ∧
    pushGuard s (stripped f) = .ok pushables ∧
    pullPackResp (s.setDoc f.doc (pushedDoc doc (stripped f) pushables)) (pushedFlight doc (stripped f) pushables) = .ok r ∧
    f.info.updateDocStatus f.doc f.status r.cp = .ok info' ∧
    info'.docs.get? f.doc = some cd ∧
    s'.docs = s.docs.set f.doc { pushedDoc doc (stripped f) pushables with vvRows := vv } ∧
    (vv = (pushedDoc doc (stripped f) pushables).vvRows ∧ f.disableGC = true ∨
     f.disableGC = false ∧
      vv = (if cd.status == .attached then (pushedDoc doc (stripped f) pushables).vvRows.set f.client f.pack.vv
            else (pushedDoc doc (stripped f) pushables).vvRows.erase f.client)) ∧
    s'.clients = s.clients.set f.client { loaded with docs := loaded.docs.set f.doc (persistEntry cd loaded f.doc) } ∧
    s'.nextDoc = s.nextDoc ∧ s'.nextClient = s.nextClient ∧ s'.cfg = s.cfg ∧
    f'.resp.cp = r.cp ∧ f'.resp.changes = r.changes ∧ f'.resp.snapshot = r.snapshot ∧
    f'.resp.isRemoved = (pushedDoc doc (stripped f) pushables).removed

theorem pushPull_ppok {s s' : Server} {f f' : Flight} (h : pushPull s f = (s', .ok f')) : PPOk s f s' f' := by
  obtain ⟨ch⟩ := pushPull_ok h
  obtain ⟨doc, pushables, r, info', s5, cd, loaded, hcont, hdoc, hguard, hpull, hstatus, hvv0, hcd, hl5, hfinal, hfl⟩ := ch
  have hcl5 : s5.clients = s.clients := by
    rcases hvv0 with ⟨_, hv⟩ | ⟨_, hv⟩
    · rw [hv]; rfl
    · rw [updateVersionVector_clients hv]; rfl
  have hloaded : s.findClient f.client = some loaded := by
    simp only [Server.findClient] at hl5 ⊢
    rw [hcl5] at hl5; exact hl5
  -- the document table after the version-vector phase
  have hdocs : ∃ vv, s5.docs = s.docs.set f.doc { pushedDoc doc (stripped f) pushables with vvRows := vv } ∧
      s5.nextDoc = s.nextDoc ∧ s5.nextClient = s.nextClient ∧ s5.cfg = s.cfg ∧
      (vv = (pushedDoc doc (stripped f) pushables).vvRows ∧ f.disableGC = true ∨
       f.disableGC = false ∧
        vv = (if cd.status == .attached then (pushedDoc doc (stripped f) pushables).vvRows.set f.client f.pack.vv
              else (pushedDoc doc (stripped f) pushables).vvRows.erase f.client)) := by
    rcases hvv0 with ⟨hg, hv⟩ | ⟨hg, hv⟩
    · exact ⟨(pushedDoc doc (stripped f) pushables).vvRows, by rw [hv]; rfl, by rw [hv]; rfl, by rw [hv]; rfl,
        by rw [hv]; rfl, Or.inl ⟨rfl, hg⟩⟩
    · unfold updateVersionVector at hv
      simp only [Client.isAttached, pushedFlight, stripped_doc, hcd] at hv
      have hfd : (s.setDoc f.doc (pushedDoc doc (stripped f) pushables)).findDoc f.doc
          = some (pushedDoc doc (stripped f) pushables) := by
        simp [Server.findDoc, Server.setDoc, AL.get?_set_self]
      simp only [hfd, stripped_client, stripped_vv] at hv
      split at hv
      · next ha =>
        injection hv with hv
        refine ⟨(pushedDoc doc (stripped f) pushables).vvRows.set f.client f.pack.vv,
          by rw [← hv]; simp [Server.setDoc, AL.set_set], by rw [← hv]; rfl, by rw [← hv]; rfl,
          by rw [← hv]; rfl, Or.inr ⟨hg, ?_⟩⟩
        simp [ha]
      · next ha =>
        injection hv with hv
        refine ⟨(pushedDoc doc (stripped f) pushables).vvRows.erase f.client,
          by rw [← hv]; simp [Server.setDoc, AL.set_set], by rw [← hv]; rfl, by rw [← hv]; rfl,
          by rw [← hv]; rfl, Or.inr ⟨hg, ?_⟩⟩
        simp [ha]
  obtain ⟨vv, hd5, hn1, hn2, hn3, hvv⟩ := hdocs
  subst hfinal
  refine ⟨doc, pushables, loaded, info', cd, r, vv, hdoc, hloaded, hcont, hguard,
    hpull, hstatus, hcd, hd5, hvv, ?_, hn1, hn2, hn3, ?_, ?_, ?_, ?_⟩
  · simp only [Server.setClient]; rw [hcl5]
  · rw [hfl]; simp
  · rw [hfl]; simp
  · rw [hfl]; simp
  · rw [hfl]; simp

/-- summary of a failing `PushPull` for an existing client -/
theorem pushPull_err {s s' : Server} {f : Flight} {e : ErrKind} {loaded : Client}
    (h : pushPull s f = (s', .error e)) (hc : s.findClient f.client = some loaded) :
    s'.clients = s.clients ∧ s'.nextDoc = s.nextDoc ∧ s'.nextClient = s.nextClient ∧ s'.cfg = s.cfg ∧
    (s'.docs = s.docs ∨ ∃ doc pushables, s.findDoc f.doc = some doc ∧ pushGuard s (stripped f) = .ok pushables ∧
      s'.docs = s.docs.set f.doc (pushedDoc doc (stripped f) pushables)) := by
  rcases pushPull_error h hc with e1 | ⟨doc, p, hd, hg, e1, _⟩
  · subst e1; exact ⟨rfl, rfl, rfl, rfl, Or.inl rfl⟩
  · subst e1; exact ⟨rfl, rfl, rfl, rfl, Or.inr ⟨doc, p, hd, hg, rfl⟩⟩

end Yorkie.Server
