/- Sequential specification of the splay index tree on plain lists, and the lemmas
relating every model operation to it. -/
import YorkieModel.Lemmas.Splay
namespace Yorkie.Splay
open T

/-! ### the specification: a plain list of (id, len) -/
namespace Spec

abbrev L := List (Nat × Nat)

def ids (l : L) : List Nat := l.map (·.1)

def insertAfter (prev : Nat) (e : Nat × Nat) : L → L
  | [] => []
  | a :: r => if a.1 = prev then a :: e :: r else a :: insertAfter prev e r

def delete (x : Nat) : L → L
  | [] => []
  | a :: r => if a.1 = x then r else a :: delete x r

def setLen (x n : Nat) (l : L) : L := l.map (fun a => if a.1 = x then (a.1, n) else a)

/-- `FindForText`: the FIRST node `k` with `p ≤ prefix(k) + len(k)`, offset `p - prefix(k)`
(a position on a node boundary belongs to the node on its left; zero-length nodes
to the right of the boundary are never returned) -/
def find : L → Nat → Option (Nat × Nat)
  | [], _ => none
  | a :: r, p => if p ≤ a.2 then some (a.1, p) else find r (p - a.2)

/-- `FindForArray`: the node `k` with `prefix(k) ≤ i < prefix(k) + len(k)` -/
def findArr : L → Nat → Option Nat
  | [], _ => none
  | a :: r, i => if i < a.2 then some a.1 else findArr r (i - a.2)

/-- `IndexOf`: sum of the lens before the node -/
def indexOf (x : Nat) : L → Option Nat
  | [] => none
  | a :: r => if a.1 = x then some 0 else (indexOf x r).map (· + a.2)

/-- lens become 0 up to (excluding) the right boundary `rb`; `none` = to the end -/
def zeroUntil (rb : Option Nat) : L → L
  | [] => []
  | a :: r => if some a.1 = rb then a :: r else (a.1, 0) :: zeroUntil rb r

/-- the nodes strictly between the boundaries are tombstoned -/
def zeroBetween (lb : Nat) (rb : Option Nat) : L → L
  | [] => []
  | a :: r => if a.1 = lb then a :: zeroUntil rb r else a :: zeroBetween lb rb r

/-- ids strictly between the boundaries -/
def idsUntil (rb : Option Nat) : L → List Nat
  | [] => []
  | a :: r => if some a.1 = rb then [] else a.1 :: idsUntil rb r

def idsBetween (lb : Nat) (rb : Option Nat) : L → List Nat
  | [] => []
  | a :: r => if a.1 = lb then idsUntil rb r else idsBetween lb rb r

/-- `rb` occurs after (the first occurrence of) `lb` -/
def before (lb rb : Nat) : L → Bool
  | [] => false
  | a :: r => if a.1 = lb then (ids r).contains rb else before lb rb r

/-- result of `FindForText(p)` -/
def findRes (l : L) (p : Nat) : FindRes :=
  match l with
  | [] => .nilTree
  | _ :: _ => match find l p with
    | some (id, o) => .found id o
    | none => .outOfIndex

/-- result of `FindForArray(i)` -/
def findArrRes (l : L) (i : Nat) : FindRes :=
  match l with
  | [] => .nilTree
  | _ :: _ => match findArr l i with
    | some id => .found id 0
    | none => .outOfIndex

theorem insertAfter_decomp {prev : Nat} {e : Nat × Nat} {A : L} {lp : Nat} {B : L}
    (h : prev ∉ ids A) : insertAfter prev e (A ++ (prev, lp) :: B) = A ++ (prev, lp) :: e :: B := by
  induction A with
  | nil => simp [insertAfter]
  | cons a A ih =>
    simp only [ids, List.map_cons, List.mem_cons, not_or] at h
    simp [insertAfter, Ne.symm h.1, ih (by simpa [ids] using h.2)]

theorem delete_decomp {x : Nat} {A : L} {lx : Nat} {B : L}
    (h : x ∉ ids A) : delete x (A ++ (x, lx) :: B) = A ++ B := by
  induction A with
  | nil => simp [delete]
  | cons a A ih =>
    simp only [ids, List.map_cons, List.mem_cons, not_or] at h
    simp [delete, Ne.symm h.1, ih (by simpa [ids] using h.2)]

theorem indexOf_decomp {x : Nat} {A : L} {lx : Nat} {B : L}
    (h : x ∉ ids A) : indexOf x (A ++ (x, lx) :: B) = some (sumLen A) := by
  induction A with
  | nil => simp [indexOf]
  | cons a A ih =>
    simp only [ids, List.map_cons, List.mem_cons, not_or] at h
    simp [indexOf, Ne.symm h.1, ih (by simpa [ids] using h.2)]; omega

theorem indexOf_none {x : Nat} {l : L} (h : x ∉ ids l) : indexOf x l = none := by
  induction l with
  | nil => rfl
  | cons a A ih =>
    simp only [ids, List.map_cons, List.mem_cons, not_or] at h
    simp [indexOf, Ne.symm h.1, ih (by simpa [ids] using h.2)]

theorem setLen_decomp {x n : Nat} {A : L} {lx : Nat} {B : L}
    (hA : x ∉ ids A) (hB : x ∉ ids B) : setLen x n (A ++ (x, lx) :: B) = A ++ (x, n) :: B := by
  have key : ∀ C : L, x ∉ ids C → setLen x n C = C := by
    intro C hC
    induction C with
    | nil => rfl
    | cons a C ih =>
      simp only [ids, List.map_cons, List.mem_cons, not_or] at hC
      simp only [setLen, List.map_cons, Ne.symm hC.1, if_false]
      congr 1
      exact ih (by simpa [ids] using hC.2)
  have e : setLen x n (A ++ (x, lx) :: B) = setLen x n A ++ (x, n) :: setLen x n B := by
    simp [setLen]
  rw [e, key A hA, key B hB]

theorem setLen_notMem {x n : Nat} {C : L} (hC : x ∉ ids C) : setLen x n C = C := by
  induction C with
  | nil => rfl
  | cons a C ih =>
    simp only [ids, List.map_cons, List.mem_cons, not_or] at hC
    simp only [setLen, List.map_cons, Ne.symm hC.1, if_false]
    congr 1
    exact ih (by simpa [ids] using hC.2)

theorem find_append_left {A B : L} {p : Nat} (hne : A ≠ []) (hp : p ≤ sumLen A) :
    find (A ++ B) p = find A p := by
  induction A generalizing p with
  | nil => exact absurd rfl hne
  | cons a A ih =>
    simp only [List.cons_append, find]
    split
    · rfl
    · next h =>
      cases A with
      | nil => simp at hp; omega
      | cons b A => exact ih (by simp) (by simp at hp ⊢; omega)

theorem find_append_right {A B : L} {p : Nat} (hp : A = [] ∨ sumLen A < p) :
    find (A ++ B) p = find B (p - sumLen A) := by
  induction A generalizing p with
  | nil => simp
  | cons a A ih =>
    have hp' : a.2 + sumLen A < p := by
      rcases hp with h | h
      · cases h
      · simpa using h
    simp only [List.cons_append, find]
    rw [if_neg (by omega), ih (.inr (by omega))]
    congr 1
    simp; omega

theorem findArr_append_left {A B : L} {i : Nat} (hp : i < sumLen A) :
    findArr (A ++ B) i = findArr A i := by
  induction A generalizing i with
  | nil => simp at hp
  | cons a A ih =>
    simp only [List.cons_append, findArr]
    split
    · rfl
    · exact ih (by simp at hp; omega)

theorem findArr_append_right {A B : L} {i : Nat} (hp : sumLen A ≤ i) :
    findArr (A ++ B) i = findArr B (i - sumLen A) := by
  induction A generalizing i with
  | nil => simp
  | cons a A ih =>
    simp at hp
    simp only [List.cons_append, findArr]
    rw [if_neg (by omega), ih (by omega)]
    congr 1
    simp; omega

end Spec

/-! ### `Splay` restores exact weights -/

theorem ids_toList (t : T) : Spec.ids t.toList = t.ids := rfl

theorem okD_splay {D} {x : Nat} {t : T} (h : okD D t) : okD D (splay x t) := by
  unfold splay
  split
  · exact h
  · next X p hl => exact okD_splayUp (by rw [(locate_plug hl).1]; exact h)

theorem wf_splay {x : Nat} {t : T} (h : t.wf) : (splay x t).wf :=
  wf_iff_okD.2 (okD_splay (wf_iff_okD.1 h))

/-- If the only stale weights are above `x` (its value changed its `Len()`), splaying
`x` makes every weight exact again; the result has `x` at the root. -/
theorem splay_mk_wf {x : Nat} {t : T} (hn : t.ids.Nodup) (h : okD (· == x) t) (hx : x ∈ t.ids) :
    ∃ a len b, splay x t = mk a x len b ∧ a.wf ∧ b.wf ∧
      t.toList = a.toList ++ (x, len) :: b.toList ∧ x ∉ a.ids ∧ x ∉ b.ids := by
  obtain ⟨a, len, b, hs⟩ := splay_root hx
  have hl : t.toList = a.toList ++ (x, len) :: b.toList := by
    rw [← toList_splay x t, hs]; rfl
  have hi : t.ids = a.ids ++ x :: b.ids := by
    rw [← ids_toList, hl]; simp [Spec.ids, ids]
  rw [hi] at hn
  have hxa : x ∉ a.ids := fun hm => by
    have := (List.nodup_append.1 hn).2.2 x hm x (by simp); exact this rfl
  have hxb : x ∉ b.ids := by
    have := (List.nodup_append.1 hn).2.1
    simp at this; exact this.1
  have hk := okD_splay (x := x) h
  rw [hs, okD_mk] at hk
  refine ⟨a, len, b, hs, okD_clean_wf hk.1 ?_, okD_clean_wf hk.2 ?_, hl, hxa, hxb⟩
  · intro y hy; simp; rintro rfl; exact hxa hy
  · intro y hy; simp; rintro rfl; exact hxb hy

theorem splay_restores_wf {x : Nat} {t : T} (hn : t.ids.Nodup) (h : okD (· == x) t) :
    (splay x t).wf := by
  by_cases hx : x ∈ t.ids
  · obtain ⟨a, len, b, hs, ha, hb, -⟩ := splay_mk_wf hn h hx
    rw [hs]; simp [ha, hb]
  · have : splay x t = t := by simp [splay, (locate_none []).2 hx]
    rw [this]
    exact okD_clean_wf h (fun y hy => by simp; rintro rfl; exact hx hy)

/-! ### value mutation -/

@[simp] theorem toList_mapLen (f : Nat → Nat → Nat) (t : T) :
    (t.mapLen f).toList = t.toList.map (fun a => (a.1, f a.1 a.2)) := by
  induction t with
  | nil => rfl
  | node l id len w r ihl ihr => simp [T.mapLen, ihl, ihr]

@[simp] theorem weight_mapLen (f : Nat → Nat → Nat) (t : T) : (t.mapLen f).weight = t.weight := by
  cases t <;> rfl

@[simp] theorem ids_mapLen (f : Nat → Nat → Nat) (t : T) : (t.mapLen f).ids = t.ids := by
  simp [ids, List.map_map, Function.comp_def]

theorem setLen_eq_mapLen (x n : Nat) (t : T) :
    t.setLen x n = t.mapLen (fun id len => if id = x then n else len) := by
  induction t with
  | nil => rfl
  | node l id len w r ihl ihr => simp [T.setLen, T.mapLen, ihl, ihr]

@[simp] theorem toList_setLen (x n : Nat) (t : T) : (t.setLen x n).toList = Spec.setLen x n t.toList := by
  rw [setLen_eq_mapLen, toList_mapLen, Spec.setLen]
  apply List.map_congr_left
  intro a _
  split <;> simp_all

@[simp] theorem ids_setLen (x n : Nat) (t : T) : (t.setLen x n).ids = t.ids := by
  rw [setLen_eq_mapLen, ids_mapLen]

/-- changing lens of marked values only leaves the weights stale in the `okD` sense -/
theorem okD_mapLen {D : Nat → Bool} {f : Nat → Nat → Nat} {t : T} (h : okD D t)
    (hf : ∀ id len, D id = false → f id len = len) : okD D (t.mapLen f) := by
  induction t with
  | nil => trivial
  | node l id len w r ihl ihr =>
    refine ⟨ihl h.1, ihr h.2.1, ?_⟩
    intro hc
    have hc' : clean D (node l id len w r) := by
      intro y hy; apply hc; simpa [ids_mapLen] using hy
    rw [weight_mapLen, weight_mapLen, hf id len (clean_node.1 hc').2.1]
    exact h.2.2 hc'

theorem okD_setLen {x n : Nat} {t : T} (h : t.wf) : okD (· == x) (t.setLen x n) := by
  rw [setLen_eq_mapLen]
  apply okD_mapLen (okD_of_wf h)
  intro id len hid
  have : id ≠ x := by simpa using hid
  simp [this]

end Yorkie.Splay
