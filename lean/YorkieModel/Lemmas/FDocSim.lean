/- Simulation between the GC-on and the GC-off run of one history: the GC-on root `g` is the GC-off root `n`
   minus nodes that are invisible in `n`.  `Sim g n` implies equal `Marshal()`; purging `g` keeps `Sim`. -/
import YorkieModel.Lemmas.FDocSnap
namespace Yorkie.FDoc
open Yorkie
open Yorkie.Crdt (Op Val Err rootId headId)

def present (r : Root) (t : Ticket) : Prop := r.get t ≠ none

instance (r : Root) (t : Ticket) : Decidable (present r t) := by unfold present; infer_instance

theorem present_of_get {r : Root} {t : Ticket} {e : Elem} (h : r.get t = some e) : present r t := by
  unfold present; rw [h]; simp

theorem present_of_live {r : Root} {t : Ticket} (h : liveChild r t = true) : present r t := by
  unfold present
  unfold liveChild at h
  cases hg : r.get t with
  | none => rw [hg] at h; cases h
  | some e => simp

/-- object of `g` against the same object of `n` -/
structure ObjSim (g n : Root) (gn : List (Ticket × String)) (gb : List (String × Ticket))
    (nn : List (Ticket × String)) (nb : List (String × Ticket)) : Prop where
  /-- the nodes of `g` are the nodes of `n` that still exist -/
  nodes : ∀ c k, alGet gn c = some k ↔ (alGet nn c = some k ∧ present g c)
  keysG : (gb.map (·.1)).Nodup
  keysN : (nb.map (·.1)).Nodup
  /-- an occupant in `g` is the occupant in `n` -/
  occ1 : ∀ k c, alGet gb k = some c → alGet nb k = some c ∧ present g c
  /-- an occupant in `n` that still exists is the occupant in `g` -/
  occ2 : ∀ k c, alGet nb k = some c → present g c → alGet gb k = some c
  /-- an occupant in `n` that was purged was not live -/
  gone : ∀ k c, alGet nb k = some c → ¬ present g c → liveChild n c = false

/-- array of `g` against the same array of `n`: a sublist (same slots, same order) -/
structure ArrSim (g n : Root) (gn nn : List PosNode) : Prop where
  filt : ∃ q : PosNode → Bool, gn = List.filter q nn ∧
    (∀ x ∈ nn, q x = false → ∀ c, x.elem = some c → liveChild n c = false) ∧
    (∀ x ∈ nn, q x = true → ∀ c, x.elem = some c → present g c)

def BodySim (g n : Root) : Body → Body → Prop
  | .obj gn gb, .obj nn nb => ObjSim g n gn gb nn nb
  | .arr gn _, .arr nn _ => ArrSim g n gn nn
  | .prim a, .prim b => a = b
  | .counter l v, .counter l' v' => l = l' ∧ v = v'
  | .opaque a, .opaque b => a = b
  | _, _ => False

/-- every element of `g` is an element of `n` with the same parent pointer, `movedAt`, `removedAt` and a
    body that is the `n` body minus invisible nodes -/
structure Sim (g n : Root) : Prop where
  sub : ∀ t eg, g.get t = some eg → ∃ en, n.get t = some en ∧ eg.parent = en.parent ∧ eg.movedAt = en.movedAt ∧
    eg.removedAt = en.removedAt ∧ BodySim g n eg.body en.body

theorem wf_child_present {r : Root} (w : WF r) {t : Ticket} {e : Elem} (he : r.get t = some e) {c : Ticket}
    (hc : c ∈ bodyChildren e.body) : present r c := by
  obtain ⟨b', hb'⟩ := w.child t _ _ c (skel_of_get he) hc
  obtain ⟨e', he', _⟩ := get_of_skel hb'
  exact present_of_get he'

/-- a well-formed root simulates itself -/
theorem Sim.refl {r : Root} (w : WF r) : Sim r r := by
  refine ⟨fun t e he => ⟨e, he, rfl, rfl, rfl, ?_⟩⟩
  cases hb : e.body with
  | obj nodes bk =>
    have hwf : ObjWF nodes bk := by
      have := w.body t _ _ (skel_of_get he); rw [hb] at this; exact this
    have hp : ∀ c k, alGet nodes c = some k → present r c := by
      intro c k hc
      apply wf_child_present w he
      rw [hb]; simpa [bodyChildren] using alGet_some_mem_keys hc
    have hpo : ∀ k c, alGet bk k = some c → present r c :=
      fun k c hc => hp c k (hwf.2 (k, c) (alGet_some_mem hc))
    exact ⟨fun c k => ⟨fun h => ⟨h, hp c k h⟩, fun h => h.1⟩, hwf.1, hwf.1,
      fun k c h => ⟨h, hpo k c h⟩, fun _ _ h _ => h, fun k c h hn => absurd (hpo k c h) hn⟩
  | arr nodes moved =>
    refine ⟨⟨fun _ => true, ?_, ?_, ?_⟩⟩
    · exact (List.filter_eq_self.mpr (fun _ _ => rfl)).symm
    · intro _ _ h; cases h
    · intro x hx _ c hc
      apply wf_child_present w he
      rw [hb]; simpa [bodyChildren] using elems_mem_of_node hx hc
  | prim s => rfl
  | counter l v => exact ⟨rfl, rfl⟩
  | «opaque» s => rfl

theorem Sim.live {g n : Root} (s : Sim g n) {c : Ticket} (hc : present g c) : liveChild g c = liveChild n c := by
  unfold present at hc
  cases hg : g.get c with
  | none => exact absurd hg hc
  | some eg =>
    obtain ⟨en, hn, _, _, hr, _⟩ := s.sub c eg hg
    unfold liveChild
    simp only [hg, hn, hr]

/-! ### equal views, equal `Marshal()` -/

theorem sim_liveMembers {g n : Root} (s : Sim g n) {gn nn : List (Ticket × String)} {gb nb : List (String × Ticket)}
    (h : ObjSim g n gn gb nn nb) : liveMembers g gb = liveMembers n nb := by
  apply liveMembers_ext
  intro k
  rw [alGet_filter_nodup h.keysG, alGet_filter_nodup h.keysN]
  unfold liveOcc
  cases hN : alGet nb k with
  | some c =>
    by_cases hp : present g c
    · rw [h.occ2 k c hN hp]
      simp only [s.live hp]
    · have hG : alGet gb k = none := by
        cases hG : alGet gb k with
        | none => rfl
        | some c' =>
          obtain ⟨a1, a2⟩ := h.occ1 k c' hG
          rw [hN] at a1
          injection a1 with a1
          subst a1
          exact absurd a2 hp
      rw [hG]
      simp [h.gone k c hN hp]
  | none =>
    cases hG : alGet gb k with
    | none => rfl
    | some c' =>
      obtain ⟨a1, _⟩ := h.occ1 k c' hG
      rw [hN] at a1
      cases a1

theorem sim_liveElems {g n : Root} (s : Sim g n) {gn nn : List PosNode} (h : ArrSim g n gn nn) :
    liveElems g gn = liveElems n nn := by
  obtain ⟨q, hq, hdrop, hkeep⟩ := h.filt
  rw [hq]
  have h1 : liveElems g (List.filter q nn) = liveElems n (List.filter q nn) := by
    apply liveElems_congr
    intro x hx c hc
    obtain ⟨hx1, hx2⟩ := List.mem_filter.mp hx
    exact s.live (hkeep x hx1 hx2 c hc)
  rw [h1]
  exact liveElems_filter q hdrop

theorem sim_view {g n : Root} (s : Sim g n) {t : Ticket} (ht : present g t) : view g t = view n t := by
  unfold present at ht
  cases hg : g.get t with
  | none => exact absurd hg ht
  | some eg =>
    obtain ⟨en, hn, _, _, _, hb⟩ := s.sub t eg hg
    unfold view
    rw [hg, hn]
    simp only [Option.map_some]
    cases hbg : eg.body with
    | obj gn gb =>
      cases hbn : en.body with
      | obj nn nb =>
        rw [hbg, hbn] at hb
        simp only [viewBody, sim_liveMembers s hb]
      | arr a b => rw [hbg, hbn] at hb; exact absurd hb id
      | prim a => rw [hbg, hbn] at hb; exact absurd hb id
      | counter a b => rw [hbg, hbn] at hb; exact absurd hb id
      | «opaque» a => rw [hbg, hbn] at hb; exact absurd hb id
    | arr gn gm =>
      cases hbn : en.body with
      | arr nn nm =>
        rw [hbg, hbn] at hb
        simp only [viewBody, sim_liveElems s hb]
      | obj a b => rw [hbg, hbn] at hb; exact absurd hb id
      | prim a => rw [hbg, hbn] at hb; exact absurd hb id
      | counter a b => rw [hbg, hbn] at hb; exact absurd hb id
      | «opaque» a => rw [hbg, hbn] at hb; exact absurd hb id
    | prim a =>
      cases hbn : en.body with
      | prim b => rw [hbg, hbn] at hb; simp only [BodySim] at hb; rw [hb]; rfl
      | obj a b => rw [hbg, hbn] at hb; exact absurd hb id
      | arr a b => rw [hbg, hbn] at hb; exact absurd hb id
      | counter a b => rw [hbg, hbn] at hb; exact absurd hb id
      | «opaque» a => rw [hbg, hbn] at hb; exact absurd hb id
    | counter l v =>
      cases hbn : en.body with
      | counter l' v' => rw [hbg, hbn] at hb; simp only [BodySim] at hb; simp only [viewBody, hb.2]
      | obj a b => rw [hbg, hbn] at hb; exact absurd hb id
      | arr a b => rw [hbg, hbn] at hb; exact absurd hb id
      | prim a => rw [hbg, hbn] at hb; exact absurd hb id
      | «opaque» a => rw [hbg, hbn] at hb; exact absurd hb id
    | «opaque» a =>
      cases hbn : en.body with
      | «opaque» b => rw [hbg, hbn] at hb; simp only [BodySim] at hb; rw [hb]; rfl
      | obj a b => rw [hbg, hbn] at hb; exact absurd hb id
      | arr a b => rw [hbg, hbn] at hb; exact absurd hb id
      | prim a => rw [hbg, hbn] at hb; exact absurd hb id
      | counter a b => rw [hbg, hbn] at hb; exact absurd hb id

/-- elements named by a view are live, hence present -/
theorem view_children_present {r : Root} {t : Ticket} {v : View} (h : view r t = some v) :
    (∀ ms, v = .obj ms → ∀ p ∈ ms, present r p.2) ∧ (∀ es, v = .arr es → ∀ c ∈ es, present r c) := by
  unfold view at h
  cases hg : r.get t with
  | none => rw [hg] at h; cases h
  | some e =>
    rw [hg] at h
    simp only [Option.map_some, Option.some.injEq] at h
    subst h
    constructor
    · intro ms hv p hp
      cases hb : e.body with
      | obj n bk =>
        rw [hb] at hv
        simp only [viewBody, View.obj.injEq] at hv
        rw [← hv] at hp
        exact present_of_live (mem_liveMembers hp).2
      | arr n m => rw [hb] at hv; simp [viewBody] at hv
      | prim s => rw [hb] at hv; simp [viewBody] at hv
      | counter l x => rw [hb] at hv; simp [viewBody] at hv
      | «opaque» s => rw [hb] at hv; simp [viewBody] at hv
    · intro es hv c hc
      cases hb : e.body with
      | arr n m =>
        rw [hb] at hv
        simp only [viewBody, View.arr.injEq] at hv
        rw [← hv] at hc
        exact present_of_live (mem_liveElems hc).2
      | obj n bk => rw [hb] at hv; simp [viewBody] at hv
      | prim s => rw [hb] at hv; simp [viewBody] at hv
      | counter l x => rw [hb] at hv; simp [viewBody] at hv
      | «opaque» s => rw [hb] at hv; simp [viewBody] at hv

theorem sim_marshalAt {g n : Root} (s : Sim g n) : ∀ f t, present g t → marshalAt g f t = marshalAt n f t := by
  intro f
  induction f with
  | zero => intro t _; rfl
  | succ f ih =>
    intro t ht
    rw [marshalAt_view, marshalAt_view, ← sim_view s ht]
    cases hv : view g t with
    | none => rfl
    | some v =>
      simp only
      obtain ⟨h1, h2⟩ := view_children_present hv
      cases v with
      | scalar x => rfl
      | obj ms =>
        simp only [renderView]
        congr 2
        apply congrArg
        apply List.map_congr_left
        intro p hp
        rw [ih p.2 (h1 ms rfl p hp)]
      | arr es =>
        simp only [renderView]
        congr 2
        apply congrArg
        apply List.map_congr_left
        intro c hc
        exact ih c (h2 es rfl c hc)

/-- **the simulation relation implies equal content** -/
theorem sim_marshal {g n : Root} (s : Sim g n) (hr : present g rootId) : marshal g = marshal n :=
  sim_marshalAt s 64 rootId hr

/-! ### purging `g` keeps the simulation -/

/-- the body of a container none of whose children is lost -/
theorem bodySim_shrink {g g' n : Root} (hsub : ∀ x, present g' x → present g x) {bg bn : Body}
    (hwf : BodyWF bg) (hkeep : ∀ c ∈ bodyChildren bg, present g' c) (h : BodySim g n bg bn) : BodySim g' n bg bn := by
  cases bg with
  | obj gn gb =>
    cases bn with
    | obj nn nb =>
      simp only [BodySim] at h ⊢
      have hk : ∀ c k, alGet gn c = some k → present g' c :=
        fun c k hc => hkeep c (by simpa [bodyChildren] using alGet_some_mem_keys hc)
      have hko : ∀ k c, alGet gb k = some c → present g' c :=
        fun k c hc => hk c k (hwf.2 (k, c) (alGet_some_mem hc))
      refine ⟨?_, h.keysG, h.keysN, ?_, ?_, ?_⟩
      · intro c k
        constructor
        · intro hc; exact ⟨((h.nodes c k).mp hc).1, hk c k hc⟩
        · intro hc; exact (h.nodes c k).mpr ⟨hc.1, hsub c hc.2⟩
      · intro k c hc; exact ⟨(h.occ1 k c hc).1, hko k c hc⟩
      · intro k c hc hp; exact h.occ2 k c hc (hsub c hp)
      · intro k c hc hp
        by_cases hpg : present g c
        · exact absurd (hko k c (h.occ2 k c hc hpg)) hp
        · exact h.gone k c hc hpg
    | arr a b => exact absurd h id
    | prim a => exact absurd h id
    | counter a b => exact absurd h id
    | «opaque» a => exact absurd h id
  | arr gn gm =>
    cases bn with
    | arr nn nm =>
      simp only [BodySim] at h ⊢
      obtain ⟨q, hq, hdrop, hkeepq⟩ := h.filt
      refine ⟨⟨q, hq, hdrop, ?_⟩⟩
      intro x hx hqx c hc
      apply hkeep c
      simp only [bodyChildren]
      exact elems_mem_of_node (by rw [hq]; exact List.mem_filter.mpr ⟨hx, hqx⟩) hc
    | obj a b => exact absurd h id
    | prim a => exact absurd h id
    | counter a b => exact absurd h id
    | «opaque» a => exact absurd h id
  | prim a => cases bn <;> first | exact h | exact absurd h id
  | counter l v => cases bn <;> first | exact h | exact absurd h id
  | «opaque» a => cases bn <;> first | exact h | exact absurd h id

section PurgeSim
variable {g n : Root} {c parent : Ticket} {ce pe : Elem} {ra : Ticket} {b : Body}

theorem present_afterPurge (x : Ticket) :
    present (afterPurge g c parent pe b) x ↔ (x ∉ purged g c ∧ (x = parent ∨ present g x)) := by
  unfold present
  rw [get_afterPurge]
  by_cases hd : x ∈ purged g c
  · simp [hd]
  · by_cases hp : x = parent
    · simp [hd, hp]
    · simp [hd, hp]

theorem sim_afterPurge (s : Sim g n) (w : WF g) (st : PurgeStep g c parent ce pe ra b) :
    Sim (afterPurge g c parent pe b) n := by
  have hcp := c_child_parent st
  have hsub : ∀ x, present (afterPurge g c parent pe b) x → present g x := by
    intro x hx
    rcases ((present_afterPurge x).mp hx).2 with e | e
    · rw [e]; exact present_of_get st.hp
    · exact e
  -- a child of a surviving container other than `c` survives
  have childKeep : ∀ t, t ∉ purged g c → ∀ x ∈ children g t, x ≠ c → present (afterPurge g c parent pe b) x := by
    intro t ht x hx hxc
    rw [present_afterPurge]
    refine ⟨fun hd => hxc (child_in_dead w ht hx hd), Or.inr ?_⟩
    obtain ⟨p0, b0, hs0, hm0⟩ := mem_children_skel hx
    obtain ⟨e0, he0, _, hb0⟩ := get_of_skel hs0
    exact wf_child_present w he0 (by rw [hb0]; exact hm0)
  -- `c` is not live in `n`
  have hcDead : liveChild n c = false := by
    obtain ⟨en, hn, _, _, hr, _⟩ := s.sub c ce st.hc
    unfold liveChild
    simp only [hn, ← hr, st.hra]
    rfl
  refine ⟨?_⟩
  intro t eg' hg'
  rw [get_afterPurge] at hg'
  by_cases hd : t ∈ purged g c
  · simp [hd] at hg'
  · simp only [hd, if_false] at hg'
    by_cases hp : t = parent
    · -- the container the element is purged from
      subst hp
      simp only [if_true, Option.some.injEq] at hg'
      subst hg'
      obtain ⟨en, hn, h1, h2, h3, hb⟩ := s.sub t pe st.hp
      refine ⟨en, hn, h1, h2, h3, ?_⟩
      have hbwf : BodyWF pe.body := w.body t _ _ (skel_of_get st.hp)
      have hkeepc : ∀ x ∈ bodyChildren pe.body, x ≠ c → present (afterPurge g c t pe b) x :=
        fun x hx hxc => childKeep t hd x (by rw [children_eq st.hp]; exact hx) hxc
      have hpb := st.hb
      cases hbg : pe.body with
      | obj gn gb =>
        rw [hbg] at hb hpb hbwf hkeepc
        cases hbn : en.body with
        | obj nn nb =>
          rw [hbn] at hb
          simp only [BodySim] at hb
          simp only [purgeBody, rhtPurge] at hpb
          cases hgc : alGet gn c with
          | none => simp [hgc] at hpb
          | some k0 =>
            simp only [hgc, Option.map_some, Option.some.injEq] at hpb
            subst hpb
            simp only [BodySim]
            -- an entry of `gb` pointing at `c` is the entry of key `k0`
            have hck : ∀ k x, alGet gb k = some x → x = c → k = k0 ∧ alGet gb k0 = some c := by
              intro k x hx e
              subst e
              have h1 := hbwf.2 (k, x) (alGet_some_mem hx)
              simp only at h1
              rw [hgc] at h1
              injection h1 with h1
              subst h1
              exact ⟨rfl, hx⟩
            have hkn : ∀ x k, alGet gn x = some k → x ≠ c → present (afterPurge g c t pe (Body.obj (alErase gn c)
                (if alGet gb k0 = some c then alErase gb k0 else gb))) x :=
              fun x k hx hxc => hkeepc x (by simpa [bodyChildren] using alGet_some_mem_keys hx) hxc
            have hcgone : ¬ present (afterPurge g c t pe (Body.obj (alErase gn c)
                (if alGet gb k0 = some c then alErase gb k0 else gb))) c := by
              rw [present_afterPurge]
              exact fun h => h.1 (List.mem_cons_self ..)
            -- the new occupant table
            have hgb' : ∀ k x, alGet (if alGet gb k0 = some c then alErase gb k0 else gb) k = some x ↔
                (alGet gb k = some x ∧ x ≠ c) := by
              intro k x
              split
              · rename_i hocc
                by_cases hk : k = k0
                · subst hk
                  rw [alGet_alErase_same, hocc]
                  constructor
                  · intro h; cases h
                  · rintro ⟨h, hne⟩; injection h with h; exact absurd h.symm hne
                · rw [alGet_alErase_other _ _ _ hk]
                  constructor
                  · intro h; exact ⟨h, fun e => hk (hck k x h e).1⟩
                  · intro h; exact h.1
              · rename_i hocc
                constructor
                · intro h; exact ⟨h, fun e => hocc (hck k x h e).2⟩
                · intro h; exact h.1
            refine ⟨?_, ?_, hb.keysN, ?_, ?_, ?_⟩
            · intro x k
              by_cases hxc : x = c
              · subst hxc
                rw [alGet_alErase_same]
                constructor
                · intro h; cases h
                · intro h; exact absurd h.2 hcgone
              · rw [alGet_alErase_other _ _ _ hxc]
                constructor
                · intro h; exact ⟨((hb.nodes x k).mp h).1, hkn x k h hxc⟩
                · intro h; exact (hb.nodes x k).mpr ⟨h.1, hsub x h.2⟩
            · split
              · exact nodup_keys_alErase k0 hb.keysG
              · exact hb.keysG
            · intro k x hx
              obtain ⟨hx1, hx2⟩ := (hgb' k x).mp hx
              refine ⟨(hb.occ1 k x hx1).1, ?_⟩
              have := hbwf.2 (k, x) (alGet_some_mem hx1)
              exact hkn x k this hx2
            · intro k x hx hpx
              have hxc : x ≠ c := fun e => hcgone (e ▸ hpx)
              exact (hgb' k x).mpr ⟨hb.occ2 k x hx (hsub x hpx), hxc⟩
            · intro k x hx hpx
              by_cases hpg : present g x
              · have hgx := hb.occ2 k x hx hpg
                by_cases hxc : x = c
                · rw [hxc]; exact hcDead
                · exact absurd (hkn x k (hbwf.2 (k, x) (alGet_some_mem hgx)) hxc) hpx
              · exact hb.gone k x hx hpg
        | arr a b' => rw [hbn] at hb; exact absurd hb id
        | prim a => rw [hbn] at hb; exact absurd hb id
        | counter a b' => rw [hbn] at hb; exact absurd hb id
        | «opaque» a => rw [hbn] at hb; exact absurd hb id
      | arr gn gm =>
        rw [hbg] at hb hpb hkeepc
        cases hbn : en.body with
        | arr nn nm =>
          rw [hbn] at hb
          simp only [BodySim] at hb
          simp only [purgeBody] at hpb
          split at hpb
          · injection hpb with hpb
            subst hpb
            simp only [BodySim]
            obtain ⟨q, hq, hdrop, hkeepq⟩ := hb.filt
            refine ⟨⟨fun x => q x && !decide (x.elem = some c), ?_, ?_, ?_⟩⟩
            · rw [hq, List.filter_filter]
              apply List.filter_congr
              intro x _
              rw [Bool.and_comm]
            · intro x hx hqx y hy
              by_cases hq1 : q x = true
              · have : x.elem = some c := by simpa [hq1] using hqx
                rw [hy] at this
                injection this with this
                rw [this]; exact hcDead
              · exact hdrop x hx (by simpa using hq1) y hy
            · intro x hx hqx y hy
              simp only [Bool.and_eq_true, Bool.not_eq_eq_eq_not, Bool.not_true, decide_eq_false_iff_not] at hqx
              have hyc : y ≠ c := fun e => hqx.2 (e ▸ hy)
              apply hkeepc y _ hyc
              simp only [bodyChildren]
              exact elems_mem_of_node (by rw [hq]; exact List.mem_filter.mpr ⟨hx, hqx.1⟩) hy
          · cases hpb
        | obj a b' => rw [hbn] at hb; exact absurd hb id
        | prim a => rw [hbn] at hb; exact absurd hb id
        | counter a b' => rw [hbn] at hb; exact absurd hb id
        | «opaque» a => rw [hbn] at hb; exact absurd hb id
      | prim a => rw [hbg] at hpb; simp [purgeBody] at hpb
      | counter l v => rw [hbg] at hpb; simp [purgeBody] at hpb
      | «opaque» a => rw [hbg] at hpb; simp [purgeBody] at hpb
    · -- any other surviving element: no child is lost
      simp only [hp, if_false] at hg'
      obtain ⟨en, hn, h1, h2, h3, hb⟩ := s.sub t eg' hg'
      refine ⟨en, hn, h1, h2, h3, ?_⟩
      apply bodySim_shrink hsub (w.body t _ _ (skel_of_get hg')) _ hb
      intro x hx
      have hxc : x ∈ children g t := by rw [children_eq hg']; exact hx
      apply childKeep t hd x hxc
      intro e
      subst e
      exact hp (child_unique_parent w hxc hcp)

end PurgeSim

/-- `BodySim` reads `g` only through presence -/
theorem bodySim_congr_g {g g' n : Root} (h : ∀ x, present g' x ↔ present g x) {bg bn : Body}
    (hb : BodySim g n bg bn) : BodySim g' n bg bn := by
  cases bg with
  | obj gn gb =>
    cases bn with
    | obj nn nb =>
      simp only [BodySim] at hb ⊢
      exact ⟨fun c k => by rw [h]; exact hb.nodes c k, hb.keysG, hb.keysN,
        fun k c hc => by rw [h]; exact hb.occ1 k c hc,
        fun k c hc hp => hb.occ2 k c hc ((h c).mp hp),
        fun k c hc hp => hb.gone k c hc (fun hp' => hp ((h c).mpr hp'))⟩
    | arr a b => exact absurd hb id
    | prim a => exact absurd hb id
    | counter a b => exact absurd hb id
    | «opaque» a => exact absurd hb id
  | arr gn gm =>
    cases bn with
    | arr nn nm =>
      simp only [BodySim] at hb ⊢
      obtain ⟨q, hq, hdrop, hkeep⟩ := hb.filt
      exact ⟨⟨q, hq, hdrop, fun x hx hqx c hc => (h c).mpr (hkeep x hx hqx c hc)⟩⟩
    | obj a b => exact absurd hb id
    | prim a => exact absurd hb id
    | counter a b => exact absurd hb id
    | «opaque» a => exact absurd hb id
  | prim a => cases bn <;> first | exact hb | exact absurd hb id
  | counter l v => cases bn <;> first | exact hb | exact absurd hb id
  | «opaque» a => cases bn <;> first | exact hb | exact absurd hb id

theorem sim_same_heap {g g' n : Root} (h : ∀ t, g'.get t = g.get t) (s : Sim g n) : Sim g' n := by
  refine ⟨fun t eg hg => ?_⟩
  rw [h] at hg
  obtain ⟨en, a1, a2, a3, a4, a5⟩ := s.sub t eg hg
  exact ⟨en, a1, a2, a3, a4, bodySim_congr_g (fun x => by unfold present; rw [h]) a5⟩

theorem sim_releaseSlot {g n : Root} (s : Sim g n) (gc : GcNode) : Sim (releaseSlot g gc) n := by
  unfold releaseSlot
  cases hg : g.get gc.arr with
  | none => exact s
  | some ae =>
    simp only
    cases hb : ae.body with
    | arr nodes moved =>
      simp only
      have hpres : ∀ x, present (g.put gc.arr { ae with body := .arr (List.filter (fun n => !(n.pos = gc.pos && n.elem.isNone)) nodes) moved }) x ↔ present g x := by
        intro x
        unfold present
        rw [get_put]
        by_cases hx : x = gc.arr
        · subst hx; simp [hg]
        · simp [hx]
      refine ⟨fun t eg hgt => ?_⟩
      rw [get_put] at hgt
      by_cases ht : t = gc.arr
      · subst ht
        simp only [if_true, Option.some.injEq] at hgt
        subst hgt
        obtain ⟨en, a1, a2, a3, a4, a5⟩ := s.sub gc.arr ae hg
        refine ⟨en, a1, a2, a3, a4, ?_⟩
        rw [hb] at a5
        cases hbn : en.body with
        | arr nn nm =>
          rw [hbn] at a5
          simp only [BodySim] at a5 ⊢
          obtain ⟨q, hq, hdrop, hkeep⟩ := a5.filt
          refine ⟨⟨fun x => q x && !(x.pos = gc.pos && x.elem.isNone), ?_, ?_, ?_⟩⟩
          · rw [hq, List.filter_filter]
            apply List.filter_congr
            intro x _
            rw [Bool.and_comm]
          · intro x hx hqx c hc
            by_cases hq1 : q x = true
            · have : x.elem.isNone = true := by
                simp only [hq1, Bool.true_and, Bool.not_eq_false', Bool.and_eq_true] at hqx
                exact hqx.2
              rw [hc] at this
              cases this
            · exact hdrop x hx (by simpa using hq1) c hc
          · intro x hx hqx c hc
            simp only [Bool.and_eq_true] at hqx
            exact (hpres c).mpr (hkeep x hx hqx.1 c hc)
        | obj a b => rw [hbn] at a5; exact absurd a5 id
        | prim a => rw [hbn] at a5; exact absurd a5 id
        | counter a b => rw [hbn] at a5; exact absurd a5 id
        | «opaque» a => rw [hbn] at a5; exact absurd a5 id
      · simp only [ht, if_false] at hgt
        obtain ⟨en, a1, a2, a3, a4, a5⟩ := s.sub t eg hgt
        exact ⟨en, a1, a2, a3, a4, bodySim_congr_g hpres a5⟩
    | obj a b => exact s
    | prim a => exact s
    | counter a b => exact s
    | «opaque» a => exact s

theorem sim_purgeElems {v : VV} {n : Root} : ∀ (l : List (Ticket × Ticket)) (g g' : Root) (k k' : Nat),
    Sim g n → WF g → purgeElems v l g k = .ok (g', k') → Sim g' n ∧ WF g' := by
  intro l
  induction l with
  | nil =>
    intro g g' k k' s w h
    simp only [purgeElems] at h
    injection h with h
    injection h with h _
    subst h
    exact ⟨s, w⟩
  | cons p rest ih =>
    intro g g' k k' s w h
    obtain ⟨c, parent⟩ := p
    simp only [purgeElems] at h
    cases hs : purgeElem v g c parent with
    | error e => simp [hs] at h
    | ok res =>
      obtain ⟨g1, k1⟩ := res
      simp only [hs] at h
      have step : Sim g1 n ∧ WF g1 := by
        rcases purgeElem_cases hs with e | ⟨ce, pe, ra, b, st, _, e⟩
        · subst e; exact ⟨s, w⟩
        · subst e; exact ⟨sim_afterPurge s w st, wf_afterPurge w st⟩
      exact ih g1 g' _ k' step.1 step.2 h

theorem sim_purgeNodes {v : VV} {n : Root} : ∀ (l : List GcNode) (g : Root) (k : Nat), Sim g n →
    Sim (purgeNodes v l g k).1 n := by
  intro l
  induction l with
  | nil => intro g k s; exact s
  | cons a rest ih =>
    intro g k s
    simp only [purgeNodes]
    split
    · apply ih
      exact sim_same_heap (g := releaseSlot g a) (fun _ => rfl) (sim_releaseSlot s a)
    · exact ih g k s

/-- purging the GC-on root keeps it a simulation of the GC-off root -/
theorem sim_garbageCollect {v : VV} {g g' n : Root} {k : Nat} (s : Sim g n) (w : WF g)
    (h : garbageCollect v g = .ok (g', k)) : Sim g' n := by
  unfold garbageCollect at h
  cases h1 : purgeElems v g.gcElems g 0 with
  | error e => simp [h1] at h
  | ok res =>
    obtain ⟨g1, k1⟩ := res
    simp only [h1] at h
    injection h with h
    have : g' = (purgeNodes v g1.gcNodes g1 k1).1 := by rw [h]
    rw [this]
    exact sim_purgeNodes _ _ _ (sim_purgeElems _ _ _ _ _ s w h1).1

end Yorkie.FDoc
