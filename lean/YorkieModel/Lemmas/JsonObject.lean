/-
Object and counter calls of the json layer: the pushed operation is enabled and the visible map /
counter value afterwards is the specified one.
-/
import YorkieModel.Lemmas.JsonInv
namespace Yorkie.Json
open Yorkie Yorkie.Crdt

set_option linter.unusedSimpArgs false

/-! ### addressing an object cell -/

structure IsObj (d : Doc) (o : Ticket) (pe : Elem) (keys : List String)
    (member : String → Option Member) : Prop where
  hp : d o = some pe
  hb : pe.body = .obj keys member

theorem objBody_eq_some {d : Doc} {o : Ticket} {keys : List String} {member : String → Option Member} :
    objBody d o = some (keys, member) ↔ ∃ pe, IsObj d o pe keys member := by
  unfold objBody
  cases hd : d o with
  | none => simp; intro pe h; have := h.hp; rw [hd] at this; cases this
  | some e =>
    simp only
    constructor
    · intro h
      cases hb : e.body <;> simp [hb, objOfBody] at h
      obtain ⟨rfl, rfl⟩ := h
      exact ⟨e, ⟨hd, hb⟩⟩
    · rintro ⟨pe, h⟩
      have := h.hp; rw [hd] at this; cases this
      rw [h.hb]; rfl

theorem IsObj.objBody {d : Doc} {o : Ticket} {pe : Elem} {keys : List String}
    {member : String → Option Member} (h : IsObj d o pe keys member) :
    objBody d o = some (keys, member) := objBody_eq_some.2 ⟨pe, h⟩

theorem IsObj.ok {d : Doc} {o : Ticket} {pe : Elem} {keys : List String}
    {member : String → Option Member} (h : IsObj d o pe keys member) (hi : Inv d) :
    ObjOK keys member := by
  have := hi.body o pe h.hp; rw [h.hb] at this; exact this

theorem live_run' (E : Effect) (d : Doc) (c : Ticket) :
    live (E.run d) c =
      match E.new with
      | some (ts, e) => if c = ts then !e.removed else (live d c && !decide (E.flag = some c))
      | none => live d c && !decide (E.flag = some c) := by
  unfold Effect.run live
  cases hnew : E.new with
  | none =>
    simp only
    cases hd : d c <;> simp [Effect.touch]
  | some p =>
    obtain ⟨ts, e⟩ := p
    simp only
    by_cases hc : c = ts
    · simp [hc]
    · simp only [hc, if_false]
      cases hd : d c <;> simp [Effect.touch]

theorem ready_obj {d : Doc} {op : Op} {o : Ticket} {pe : Elem} {keys : List String}
    {member : String → Option Member} (hi : Inv d) (ho : IsObj d o pe keys member)
    (hpar : op.parent = o) (hk : op.okFor .obj = true)
    (hc : ∀ t, op.target? = some t → isChildOf d t o = true) (hf : ∀ i ∈ creates op, ¬ used d i) :
    Ready d op pe := by
  refine ⟨hi.wf, by rw [hpar]; exact ho.hp, ?_, hf⟩
  rw [ho.hb]
  simp only [succB, Body.kind, hk, Bool.true_and, childOk]
  cases ht : op.target? with
  | none => simp
  | some t => simp; rw [hpar]; exact hc t ht

/-- the body of the parent cell after an enabled operation -/
theorem body_run {d : Doc} {op : Op} {pe : Elem} (hr : Ready d op pe) :
    ∃ pe', apply d op op.parent = some pe' ∧ pe'.body = (eff pe.body op).body := by
  have hv := valid_eff hr
  rw [hr.apply_eq]
  have hp := hv.run_p
  rw [eff_p] at hp
  exact ⟨_, hp, by simp [Effect.touch, eff_p]⟩

/-! ### set -/

theorem objSet_spec {d : Doc} {o ts : Ticket} {keys : List String} {member : String → Option Member}
    (k : String) (v : Val) (hi : Inv d) (hn : Newer d ts) (ho : objBody d o = some (keys, member)) :
    Pre d (.set o k v ts) ∧
      (∀ k', objGet (apply d (.set o k v ts)) o k' = if k' = k then some ts else objGet d o k') ∧
      apply d (.set o k v ts) ts = some (newElem o v) := by
  obtain ⟨pe, ho⟩ := objBody_eq_some.1 ho
  have hok := ho.ok hi
  have hr : Ready d (.set o k v ts) pe :=
    ready_obj hi ho rfl rfl (by simp [Op.target?]) (by simp [creates]; exact hn.not_used)
  have hpre : Pre d (.set o k v ts) := hr.pre (by simp [creates]; exact hn.1)
  have hts : d ts = none := hn.none
  have hcell : ∀ k' m', member k' = some m' → ∃ e, d m'.child = some e := by
    intro k' m' hm'
    obtain ⟨_, hc, _⟩ := hi.wf.member ho.hp ho.hb hm'
    obtain ⟨e, he, _⟩ := isChildOf_iff.1 hc
    exact ⟨e, he⟩
  have hchild_ne : ∀ k' m', member k' = some m' → m'.child ≠ ts := by
    intro k' m' hm' e
    obtain ⟨e', he'⟩ := hcell k' m' hm'
    rw [e, hts] at he'; cases he'
  -- the effect, in both cases of the key
  have heff : ∃ keys' flag, eff pe.body (.set o k v ts) =
      ⟨o, .obj keys' (setMem member k ts), some (ts, newElem o v), flag⟩ ∧
      (∀ c, flag = some c → ∃ m, member k = some m ∧ m.child = c) := by
    rw [ho.hb]
    simp only [eff, effObj]
    cases hm : member k with
    | none => exact ⟨_, _, rfl, by simp⟩
    | some m =>
      obtain ⟨hpos, _, _⟩ := hi.wf.member ho.hp ho.hb hm
      obtain ⟨e, he⟩ := hcell k m hm
      have : ts.after m.positionedAt = true := by rw [hpos]; exact hn.cell he
      simp only [this, if_true]
      exact ⟨_, _, rfl, by intro c hc; cases hc; exact ⟨m, rfl, rfl⟩⟩
  obtain ⟨keys', flag, heff, hflag⟩ := heff
  have happ : apply d (.set o k v ts) = (Effect.mk o (.obj keys' (setMem member k ts))
      (some (ts, newElem o v)) flag).run d := by rw [hr.apply_eq, heff]
  obtain ⟨pe', hpe', hbody'⟩ := body_run hr
  rw [heff] at hbody'
  simp only [Op.parent] at hpe'
  have hlive : ∀ c, live (apply d (.set o k v ts)) c =
      if c = ts then true else (live d c && !decide (flag = some c)) := by
    intro c
    rw [happ, live_run']
    simp [newElem]
  refine ⟨hpre, ?_, ?_⟩
  · intro k'
    have hob : objBody (apply d (.set o k v ts)) o = some (keys', setMem member k ts) :=
      objBody_eq_some.2 ⟨pe', ⟨hpe', hbody'⟩⟩
    unfold objGet
    rw [hob, ho.objBody]
    simp only [setMem]
    by_cases hk : k' = k
    · simp [hk, memberLive, hlive]
    · simp only [hk, if_false]
      cases hm' : member k' with
      | none => rfl
      | some m' =>
        simp only [memberLive]
        have h1 : m'.child ≠ ts := hchild_ne k' m' hm'
        have h2 : flag ≠ some m'.child := by
          intro hf
          obtain ⟨m, hm, hc⟩ := hflag _ hf
          exact hk (hok.inj k' k m' m hm' hm hc.symm)
        rw [hlive]
        simp [h1, h2]
  · rw [happ]; exact run_of_mk rfl

/-! ### delete -/

theorem objDelete_spec {d : Doc} {o ts c : Ticket} {keys : List String}
    {member : String → Option Member} {k : String} (hi : Inv d) (hn : Newer d ts)
    (ho : objBody d o = some (keys, member)) (hc : memberLive d (member k) = some c) :
    Pre d (.remove o c ts) ∧
      ∀ k', objGet (apply d (.remove o c ts)) o k' = if k' = k then none else objGet d o k' := by
  obtain ⟨pe, ho⟩ := objBody_eq_some.1 ho
  have hok := ho.ok hi
  obtain ⟨m, hm, hmc⟩ : ∃ m, member k = some m ∧ m.child = c := by
    cases hm : member k with
    | none => rw [hm] at hc; simp [memberLive] at hc
    | some m =>
      rw [hm] at hc
      simp only [memberLive] at hc
      split at hc
      · exact ⟨m, rfl, Option.some.inj hc⟩
      · cases hc
  obtain ⟨_, hchild, _⟩ := hi.wf.member ho.hp ho.hb hm
  rw [hmc] at hchild
  obtain ⟨ce, hce, _⟩ := isChildOf_iff.1 hchild
  have hafter : ts.after c = true := hn.cell hce
  have hr : Ready d (.remove o c ts) pe :=
    ready_obj hi ho rfl rfl (by simp [Op.target?]; exact hchild) (by simp [creates])
  have hpre : Pre d (.remove o c ts) := hr.pre (by simp [creates])
  have heff : eff pe.body (.remove o c ts) = ⟨o, pe.body, none, some c⟩ := by
    rw [ho.hb]; simp [eff, effObj, flagOf, hafter]
  have happ : apply d (.remove o c ts) = (Effect.mk o pe.body none (some c)).run d := by
    rw [hr.apply_eq, heff]
  obtain ⟨pe', hpe', hbody'⟩ := body_run hr
  rw [heff] at hbody'
  simp only [Op.parent] at hpe'
  have hlive : ∀ x, live (apply d (.remove o c ts)) x = (live d x && !decide (some c = some x)) := by
    intro x; rw [happ, live_run']
  refine ⟨hpre, ?_⟩
  intro k'
  have hob : objBody (apply d (.remove o c ts)) o = some (keys, member) :=
    objBody_eq_some.2 ⟨pe', ⟨hpe', by rw [hbody', ho.hb]⟩⟩
  unfold objGet
  rw [hob, ho.objBody]
  simp only
  by_cases hk : k' = k
  · subst hk
    simp [hm, memberLive, hlive, hmc]
  · simp only [hk, if_false]
    cases hm' : member k' with
    | none => rfl
    | some m' =>
      simp only [memberLive]
      have h2 : c ≠ m'.child := by
        intro e
        exact hk (hok.inj k' k m' m hm' hm (by rw [hmc, e]))
      rw [hlive]
      simp [h2]

/-! ### visible keys -/

theorem mem_objKeys {d : Doc} {o : Ticket} (hi : Inv d) (k : String) :
    k ∈ objKeys d o ↔ (objGet d o k).isSome = true := by
  unfold objKeys objGet
  cases hob : objBody d o with
  | none => simp
  | some p =>
    obtain ⟨keys, member⟩ := p
    obtain ⟨pe, ho⟩ := objBody_eq_some.1 hob
    simp only [List.mem_filter, keyLive]
    constructor
    · exact fun h => h.2
    · intro h
      refine ⟨?_, h⟩
      cases hm : member k with
      | none => rw [hm] at h; simp [memberLive] at h
      | some m => exact (ho.ok hi).keys k m hm

/-! ### counter -/

theorem increase_spec {d : Doc} {c ts : Ticket} {long : Bool} {v : Int} (delta : Int) (hi : Inv d)
    (ho : counterOf d c = some (long, v)) :
    Pre d (.increase c (wrap long delta) ts) ∧
      counterOf (apply d (.increase c (wrap long delta) ts)) c = some (long, wrap long (v + delta)) := by
  obtain ⟨pe, hp, hb⟩ : ∃ pe, d c = some pe ∧ pe.body = .counter long v := by
    unfold counterOf at ho
    cases hd : d c with
    | none => rw [hd] at ho; cases ho
    | some e =>
      rw [hd] at ho
      simp only at ho
      cases hb : e.body <;> simp [hb, counterOfBody] at ho
      obtain ⟨rfl, rfl⟩ := ho
      exact ⟨e, rfl, hb⟩
  have hr : Ready d (.increase c (wrap long delta) ts) pe := by
    refine ⟨hi.wf, hp, ?_, by simp [creates]⟩
    rw [hb]; simp [succB, Body.kind, Op.okFor, childOk, Op.target?]
  refine ⟨hr.pre (by simp [creates]), ?_⟩
  obtain ⟨pe', hpe', hbody'⟩ := body_run hr
  simp only [Op.parent] at hpe'
  unfold counterOf
  rw [hpe']
  simp only
  rw [hbody', hb]
  simp only [eff, effCounter, counterOfBody]
  congr 2
  unfold wrap
  cases long <;> simp [Int.add_bmod_bmod]

end Yorkie.Json
