/-
The cached lengths of the index tree, as an executable predicate: `Tree.lensExact t` holds when every allocated
node's `VisibleLength`/`TotalLength` is its own UTF-16 length plus the padded lengths of its visible / of all its
children - what `index.Node` intends to maintain. It was NOT an invariant of the code before two repairs and is not proved as one (Props/C19.lean:
`lens_exact_witness_surrogate_off` is repaired, 0e18e1d8; `stale_length_witness_off` is repaired, 7d079773), which is why `Tree.WF` does not contain it.
-/
import YorkieModel.Model.TreeDoc
namespace Yorkie.Tree
open Yorkie

def Tree.lensOk (t : Tree) (p : Ptr) : Bool :=
  (t.get p).visLen == ((t.get p).value.length : Int) + (t.kids p false).foldl (fun s c => s + t.padded c false) 0 &&
  (t.get p).totLen == ((t.get p).value.length : Int) + (t.kids p true).foldl (fun s c => s + t.padded c true) 0

/-- every allocated node carries exact cached lengths -/
def Tree.lensExact (t : Tree) : Bool := (List.range t.size).all t.lensOk

end Yorkie.Tree
