/- Red-black invariants of the LLRB core under removeMin and the recursive delete. -/
import YorkieModel.Lemmas.RBColor
namespace Yorkie.RB
open T

variable {α Q β : Type} {cfg : Cfg α Q} {key : α → β}

/-- what a recursive delete / removeMin returns for the subtree `t` it was called on -/
def Post (t t' : T α) : Prop :=
  LL t' ∧ Bal t' ∧ bhOf t' = bhOf t ∧ (t.isRed = false → t'.isRed = false)

/-! ### moveRedLeft / moveRedRight on the shapes where they are called -/

theorem moveRedLeft_plain {l rl rr : T α} {a b : α} (h : rl.isRed = false) :
    moveRedLeft cfg (node l a true (node rl b false rr)) = node (flipRoot l) a false (node rl b true rr) := by
  simp [moveRedLeft, flipColors, flipRoot, h]

theorem moveRedLeft_rot {l rll rlr rr : T α} {a b x : α} :
    ∃ a' x' b', moveRedLeft cfg (node l a true (node (node rll x true rlr) b false rr)) =
      node (node (flipRoot l) a' false rll) x' true (node rlr b' false rr) := by
  simp [moveRedLeft, flipColors, flipRoot, rotateLeft, rotateRight, mkN]

theorem moveRedRight_plain {ll lr r : T α} {a la : α} (h : ll.isRed = false) :
    moveRedRight cfg (node (node ll la false lr) a true r) =
      node (node ll la true lr) a false (flipRoot r) := by
  simp [moveRedRight, flipColors, flipRoot, h]

theorem moveRedRight_rot {lll llr lr r : T α} {a la lla : α} :
    ∃ la' a', moveRedRight cfg (node (node (node lll lla true llr) la false lr) a true r) =
      node (node lll lla false llr) la' true (node lr a' false (flipRoot r)) := by
  simp [moveRedRight, flipColors, flipRoot, rotateRight, mkN]

theorem size_flipRoot (t : T α) : (flipRoot t).size = t.size := by cases t <;> rfl

@[simp] theorem flipRoot_node (l : T α) (a c r) : flipRoot (node l a c r) = node l a (!c) r := rfl
@[simp] theorem flipRoot_nil : flipRoot (nil : T α) = nil := rfl

theorem minP_node_node (ll : T α) (la lc lr a c r) :
    minP (node (node ll la lc lr) a c r) = minP (node ll la lc lr) := rfl

theorem minP_color (ll : T α) (la c c' lr) : minP (node ll la c lr) = minP (node ll la c' lr) := by
  cases ll <;> rfl

theorem minP_payload_node (l1 : T α) (x1 c1 r1 a a' c c' r r') :
    minP (node (node l1 x1 c1 r1) a c r) = minP (node (node l1 x1 c1 r1) a' c' r') := rfl

/-! ### `fixUp` after the recursive call: the five situations

`T1` is the node just before the recursive call (after moveRedLeft / rotateRight /
moveRedRight), one child of which is then replaced by the result of the call
(`Post child result`).  The conclusion speaks about colours only, so the payloads of
`T1` and of the node handed to `fixUp` may differ (successor replacement, recomputed
aggregates). -/

def Res (T1 res : T α) (black : Prop) : Prop :=
  LL res ∧ Bal res ∧ bhOf res = bhOf T1 ∧ (black → res.isRed = false)

/-- left call, `T1` left-leaning: nothing to repair -/
theorem finish_LA (s : Bool) {L l' r : T α} {a a' : α} {c : Bool} (hp : Post L l')
    (hr : LL r) (hrb : r.isRed = false) (hc : c = true → L.isRed = false)
    (hb : Bal (node L a c r)) :
    Res (node L a c r) (fixUp cfg s (node l' a' c r)) (c = false) ∧
    fixUp cfg s (node l' a' c r) = mkN cfg l' a' c r := by
  obtain ⟨p1, p2, p3, p4⟩ := hp
  have e := fixUp_id (cfg := cfg) s (l := l') (a := a') (c := c) hrb (by
    rcases l' with _ | ⟨x1, x2, x3, x4⟩
    · exact .inl rfl
    · cases x3
      · exact .inl rfl
      · exact .inr (by simpa using p1.2.2.2))
  refine ⟨?_, e⟩
  rw [e]
  cases c <;> simp_all [Res, mkN] <;> omega

/-- left call below a black node whose children were both made red by moveRedLeft -/
theorem finish_LB (s : Bool) {L l' rl rr : T α} {a a' b : α} (hp : Post L l')
    (_hL : L.isRed = true) (hrl : LL rl) (hrr : LL rr) (hrlb : rl.isRed = false) (hrrb : rr.isRed = false)
    (hb : Bal (node L a false (node rl b true rr))) :
    Res (node L a false (node rl b true rr)) (fixUp cfg s (node l' a' false (node rl b true rr))) False := by
  obtain ⟨p1, p2, p3, p4⟩ := hp
  rcases l' with _ | ⟨x1, x2, x3, x4⟩
  · obtain ⟨a1, b1, e⟩ := fixUp_rotL (cfg := cfg) s (l := (nil : T α)) (rl := rl) (rr := rr) (a := a') (b := b)
      (c := false) rfl hrrb
    rw [e]; simp_all [Res] <;> omega
  · cases x3
    · obtain ⟨a1, b1, e⟩ := fixUp_rotL (cfg := cfg) s (l := node x1 x2 false x4) (rl := rl) (rr := rr) (a := a') (b := b)
        (c := false) rfl hrrb
      rw [e]; simp_all [Res] <;> omega
    · obtain ⟨la', a1, b1, e⟩ := fixUp_flip (cfg := cfg) s (ll := x1) (lr := x4) (rl := rl) (rr := rr) (la := x2)
        (a := a') (b := b) (by simpa using p1.2.2.2) hrlb hrrb
      rw [e]; simp_all [Res] <;> omega

/-- right call, black right child before the call: nothing to repair -/
theorem finish_RA (s : Bool) {l R r' : T α} {a a' : α} {c : Bool} (hp : Post R r')
    (hRb : R.isRed = false) (hl : LL l) (hc : c = true → l.isRed = false)
    (hb : Bal (node l a c R)) :
    Res (node l a c R) (fixUp cfg s (node l a' c r')) (c = false) ∧
    fixUp cfg s (node l a' c r') = mkN cfg l a' c r' := by
  obtain ⟨p1, p2, p3, p4⟩ := hp
  have e := fixUp_id (cfg := cfg) s (l := l) (r := r') (a := a') (c := c) (p4 hRb) (by
    rcases l with _ | ⟨x1, x2, x3, x4⟩
    · exact .inl rfl
    · cases x3
      · exact .inl rfl
      · exact .inr (by simpa using hl.2.2.2))
  refine ⟨?_, e⟩
  rw [e]
  cases c <;> simp_all [Res, mkN] <;> omega

/-- right call into a red right child of a black node with black left child -/
theorem finish_RB (s : Bool) {l R r' : T α} {a a' : α} (hp : Post R r')
    (hR : R.isRed = true) (hl : LL l) (hlb : l.isRed = false) (hb : Bal (node l a false R)) :
    Res (node l a false R) (fixUp cfg s (node l a' false r')) True := by
  obtain ⟨p1, p2, p3, p4⟩ := hp
  rcases r' with _ | ⟨x1, x2, x3, x4⟩
  · rw [fixUp_id (cfg := cfg) s (l := l) (r := nil) (a := a') (c := false) rfl (.inl hlb)]
    rcases R with _ | ⟨y1, y2, y3, y4⟩ <;> simp_all [Res, mkN] <;> omega
  · cases x3
    · rw [fixUp_id (cfg := cfg) s (l := l) (r := node x1 x2 false x4) (a := a') (c := false) rfl (.inl hlb)]
      rcases R with _ | ⟨y1, y2, y3, y4⟩ <;> simp_all [Res, mkN] <;> omega
    · obtain ⟨a1, b1, e⟩ := fixUp_rotL (cfg := cfg) s (l := l) (rl := x1) (rr := x4) (a := a') (b := x2)
        (c := false) hlb (by simpa using p1.2.2.1)
      rw [e]
      rcases R with _ | ⟨y1, y2, y3, y4⟩ <;> simp_all [Res] <;> omega

/-- right call below a black node whose children were both made red by moveRedRight -/
theorem finish_RC (s : Bool) {ll lr R r' : T α} {a a' la : α} (hp : Post R r')
    (hR : R.isRed = true) (hll : LL ll) (hlr : LL lr) (hllb : ll.isRed = false) (hlrb : lr.isRed = false)
    (hb : Bal (node (node ll la true lr) a false R)) :
    Res (node (node ll la true lr) a false R) (fixUp cfg s (node (node ll la true lr) a' false r')) False := by
  obtain ⟨p1, p2, p3, p4⟩ := hp
  rcases r' with _ | ⟨x1, x2, x3, x4⟩
  · rw [fixUp_id (cfg := cfg) s (l := node ll la true lr) (r := nil) (a := a') (c := false) rfl (.inr hllb)]
    rcases R with _ | ⟨y1, y2, y3, y4⟩ <;> simp_all [Res, mkN] <;> omega
  · cases x3
    · rw [fixUp_id (cfg := cfg) s (l := node ll la true lr) (r := node x1 x2 false x4) (a := a') (c := false) rfl (.inr hllb)]
      rcases R with _ | ⟨y1, y2, y3, y4⟩ <;> simp_all [Res, mkN] <;> omega
    · obtain ⟨la', a1, b1, e⟩ := fixUp_flip (cfg := cfg) s (ll := ll) (lr := lr) (rl := x1) (rr := x4) (la := la)
        (a := a') (b := x2) hllb (by simpa using p1.2.2.2) (by simpa using p1.2.2.1)
      rw [e]
      rcases R with _ | ⟨y1, y2, y3, y4⟩ <;> simp_all [Res] <;> omega

/-! ### removeMin -/

theorem removeMin_good (hk : KeyOK cfg key) : ∀ (f : Nat) (t : T α), t.size < f → t ≠ nil → LL t → Bal t →
    (t.isRed = true ∨ t.left.isRed = true) →
    Post t (removeMin cfg f t) ∧
    ∃ m, t.minP = some m ∧ klist key t = key m :: klist key (removeMin cfg f t) := by
  intro f
  induction f with
  | zero => intro t h; omega
  | succ f ih =>
    intro t hs hne hl hb hpre
    rcases t with _ | ⟨l, a, c, r⟩
    · exact absurd rfl hne
    rcases l with _ | ⟨ll, la, lc, lr⟩
    · -- leftmost node: it is a red leaf
      have hr : r = nil := nil_of_bh0 (by simpa using hb.2.2.symm) hl.2.2.1
      subst hr
      simp at hpre; subst hpre
      simp [removeMin, Post, minP]
    · have hsl : (node ll la lc lr).size < f := by simp at hs ⊢; omega
      by_cases hmove : lc = false ∧ ll.isRed = false
      · -- moveRedLeft: the node is red, both children black
        obtain ⟨hlc, hllb⟩ := hmove
        subst hlc
        have hc : c = true := by simpa using hpre
        subst hc
        have hrb : r.isRed = false := hl.2.2.1
        rcases r with _ | ⟨rl, b, rc, rr⟩
        · simp at hb
        simp at hrb; subst hrb
        have hkl := klist_moveRedLeft (key := key) hk
          (node (node ll la false lr) a true (node rl b false rr))
        simp only [LL_node, Bal_node, bhOf_node] at hl hb
        by_cases hrl : rl.isRed = true
        · rcases rl with _ | ⟨rll, x, rlc, rlr⟩
          · simp at hrl
          simp at hrl; subst hrl
          obtain ⟨a', x', b', e⟩ := moveRedLeft_rot (cfg := cfg) (l := node ll la false lr) (rll := rll)
            (rlr := rlr) (rr := rr) (a := a) (b := b) (x := x)
          simp only [flipRoot_node, Bool.not_false] at e
          rw [e] at hkl
          simp only [removeMin, isRed_node, left_node, hllb, Bool.not_false, Bool.and_self, if_true, e]
          simp only [LL_node, Bal_node, bhOf_node] at hl hb
          obtain ⟨p1, m, p2, p3⟩ := ih (node (node ll la true lr) a' false rll) (by simp at hs ⊢; omega) (by simp)
            (by simp_all) (by simp_all <;> omega) (by simp)
          generalize removeMin cfg f (node (node ll la true lr) a' false rll) = l1' at p1 p3
          obtain ⟨q1, q2⟩ := finish_LA (cfg := cfg) cfg.strictFix (L := node (node ll la true lr) a' false rll)
            (l' := l1') (r := node rlr b' false rr) (a := x') (a' := x') (c := true) p1
            (by simp_all) rfl (by simp) (by simp_all <;> omega)
          refine ⟨?_, m, ?_, ?_⟩
          · obtain ⟨r1, r2, r3, r4⟩ := q1
            exact ⟨r1, r2, by simp_all <;> omega, by simp⟩
          · rw [minP_node_node, minP_color _ _ false true, ← minP_node_node _ _ _ _ a' false rll]; exact p2
          · rw [q2, ← hkl, klist_mkN hk,
              klist_node (key := key) (node (node ll la true lr) a' false rll) x' true _, p3]; simp
        · have hrl' : rl.isRed = false := by simpa using hrl
          have e := moveRedLeft_plain (cfg := cfg) (l := node ll la false lr) (rl := rl) (rr := rr) (a := a) (b := b) hrl'
          simp only [flipRoot_node, Bool.not_false] at e
          rw [e] at hkl
          simp only [removeMin, isRed_node, left_node, hllb, Bool.not_false, Bool.and_self, if_true, e]
          obtain ⟨p1, m, p2, p3⟩ := ih (node ll la true lr) (by simp at hs ⊢; omega) (by simp)
            (by simp_all) (by simp_all) (by simp)
          generalize removeMin cfg f (node ll la true lr) = l1' at p1 p3
          have q1 := finish_LB (cfg := cfg) cfg.strictFix (L := node ll la true lr) (l' := l1') (rl := rl) (rr := rr)
            (a := a) (a' := a) (b := b) p1 rfl (by simp_all) (by simp_all) hrl' (by simp_all) (by simp_all <;> omega)
          refine ⟨?_, m, ?_, ?_⟩
          · obtain ⟨r1, r2, r3, r4⟩ := q1
            exact ⟨r1, r2, by simp_all <;> omega, by simp⟩
          · rw [minP_node_node, minP_color _ _ false true]; exact p2
          · rw [klist_fixUp hk, ← hkl, klist_node (key := key) l1' a false _,
              klist_node (key := key) (node ll la true lr) a false _, p3]; simp
      · -- no move: descend into the left child as it is
        have hnm : (!lc && !ll.isRed) = false := by
          cases lc <;> cases h : ll.isRed <;> simp_all
        simp only [removeMin, left_node, isRed_node, hnm, Bool.false_eq_true, if_false]
        obtain ⟨p1, m, p2, p3⟩ := ih (node ll la lc lr) hsl (by simp) hl.1 hb.1 (by
          cases lc <;> cases h : ll.isRed <;> simp_all)
        generalize removeMin cfg f (node ll la lc lr) = l1' at p1 p3
        obtain ⟨q1, q2⟩ := finish_LA (cfg := cfg) cfg.strictFix (L := node ll la lc lr) (l' := l1') (r := r)
          (a := a) (a' := a) (c := c) p1 hl.2.1 hl.2.2.1 hl.2.2.2 hb
        refine ⟨?_, m, ?_, ?_⟩
        · obtain ⟨r1, r2, r3, r4⟩ := q1
          exact ⟨r1, r2, r3, fun h => r4 (by simpa using h)⟩
        · rw [minP_node_node]; exact p2
        · rw [q2, klist_mkN hk, klist_node (key := key) (node ll la lc lr) a c r, p3]; simp

end Yorkie.RB
