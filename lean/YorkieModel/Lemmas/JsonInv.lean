/-
The document invariant the json-layer specifications need on top of `WF` (`Inv`: per-array
`NodesOK`, per-object `ObjOK`), its preservation by EVERY enabled operation (local or remote), and
the "local ticket is newer than the document" hypothesis (`Newer`, `Dom`).
-/
import YorkieModel.Lemmas.JsonList
namespace Yorkie.Json
open Yorkie Yorkie.Crdt

set_option linter.unusedSimpArgs false

/-! ### invariant -/

/-- distinct keys have distinct children, and every occupied key is in the key list -/
structure ObjOK (keys : List String) (member : String → Option Member) : Prop where
  inj : ∀ k k' m m', member k = some m → member k' = some m' → m.child = m'.child → k = k'
  keys : ∀ k m, member k = some m → k ∈ keys

def BodyOK : Body → Prop
  | .arr nodes moved => NodesOK nodes moved
  | .obj keys member => ObjOK keys member
  | _ => True

/-- `WF` plus the per-container invariants -/
structure Inv (d : Doc) : Prop where
  wf : WF d
  body : ∀ t e, d t = some e → BodyOK e.body

theorem bodyOK_val (v : Val) : BodyOK v.body := by
  cases v <;> simp [Val.body, emptyObj, BodyOK]
  · exact ⟨by simp, by simp⟩
  · exact NodesOK.nil

theorem Inv.init : Inv Doc.init := by
  refine ⟨WF_init, ?_⟩
  intro t e h
  unfold Doc.init at h
  split at h
  · cases h; exact ⟨by simp, by simp⟩
  · cases h

/-! ### `NodesOK` is preserved by the array transitions -/

theorem hasPos_of_perm {xs ys : List PosNode} (h : xs.Perm ys) (p : Ticket) :
    hasPos xs p = hasPos ys p := by
  rw [Bool.eq_iff_iff, hasPos_iff, hasPos_iff]
  constructor
  · rintro ⟨n, hn, e⟩; exact ⟨n, h.mem_iff.1 hn, e⟩
  · rintro ⟨n, hn, e⟩; exact ⟨n, h.mem_iff.2 hn, e⟩

theorem nodesOK_insert {nodes nodes' : List PosNode} {moved : Ticket → Option Ticket} {new : PosNode}
    (h : NodesOK nodes moved) (hp : nodes'.Perm (new :: nodes))
    (hpos : hasPos nodes new.pos = false) (hhead : new.pos ≠ headId)
    (helem : ∀ e, new.elem = some e → holds nodes e = false) : NodesOK nodes' moved := by
  refine ⟨?_, ?_, ?_, ?_⟩
  · have : (posList nodes').Perm (posList (new :: nodes)) := List.Perm.map _ hp
    rw [this.nodup_iff, posList_cons, List.nodup_cons]
    refine ⟨?_, h.posNodup⟩
    intro hm; rw [mem_posList, hpos] at hm; cases hm
  · have : (elemList nodes').Perm (elemList (new :: nodes)) := List.Perm.filterMap _ hp
    rw [this.nodup_iff]
    cases he : new.elem with
    | none => rw [elemList_cons_none he]; exact h.elemNodup
    | some e =>
      rw [elemList_cons_some he, List.nodup_cons]
      refine ⟨?_, h.elemNodup⟩
      intro hm; rw [mem_elemList, helem e he] at hm; cases hm
  · intro n hn
    rcases List.mem_cons.1 (hp.mem_iff.1 hn) with e | hn'
    · subst e; exact hhead
    · exact h.headFree n hn'
  · intro t m hm
    rw [hasPos_of_perm hp]
    have := h.movedPos t m hm
    rw [hasPos_iff] at this ⊢
    obtain ⟨n, hn, e⟩ := this
    exact ⟨n, List.mem_cons_of_mem _ hn, e⟩

theorem nodesOK_vacate {nodes : List PosNode} {moved : Ticket → Option Ticket}
    (h : NodesOK nodes moved) (t : Ticket) : NodesOK (vacate t nodes) moved := by
  refine ⟨?_, ?_, ?_, ?_⟩
  · rw [posList_vacate]; exact h.posNodup
  · rw [elemList_vacate]; exact h.elemNodup.filter _
  · intro n hn
    rw [vacate_eq, List.mem_map] at hn
    obtain ⟨m, hm, e⟩ := hn
    rw [← e, vac1_pos]; exact h.headFree m hm
  · intro x m hm
    rw [hasPos_vacate]; exact h.movedPos x m hm

theorem nodesOK_setMoved {nodes : List PosNode} {moved : Ticket → Option Ticket}
    (h : NodesOK nodes moved) {target ts : Ticket} (hts : hasPos nodes ts = true) :
    NodesOK nodes (setMoved moved target ts) := by
  refine ⟨h.posNodup, h.elemNodup, h.headFree, ?_⟩
  intro t m hm
  unfold setMoved at hm
  split at hm
  · cases hm; exact hts
  · exact h.movedPos t m hm

/-- freshness of the operation's ticket inside one array -/
structure FreshIn (nodes : List PosNode) (ts : Ticket) : Prop where
  pos : hasPos nodes ts = false
  elem : holds nodes ts = false
  head : ts ≠ headId

theorem nodesOK_arrAdd {prev ts : Ticket} {a a' : ArrSt} (h : NodesOK a.nodes a.moved)
    (hf : FreshIn a.nodes ts) (hs : arrAdd prev ts a = some a') : NodesOK a'.nodes a'.moved := by
  unfold arrAdd at hs
  cases hi : insertAfter prev ⟨ts, some ts⟩ a.nodes with
  | none => simp [hi] at hs
  | some ns =>
    simp [hi] at hs; subst hs
    exact nodesOK_insert h (insertAfter_perm hi) hf.pos hf.head
      (by intro e he; cases he; exact hf.elem)

theorem nodesOK_arrSet {target ts : Ticket} {a a' : ArrSt} (h : NodesOK a.nodes a.moved)
    (hf : FreshIn a.nodes ts) (hs : arrSet target ts a = some a') : NodesOK a'.nodes a'.moved := by
  unfold arrSet at hs
  split at hs
  · cases hs
  · cases hi : insertAfterNodes target ⟨ts, some ts⟩ a.nodes with
    | none => simp [hi] at hs
    | some ns =>
      simp [hi] at hs; subst hs
      exact nodesOK_insert h (insertAfterNodes_perm hi) hf.pos hf.head
        (by intro e he; cases he; exact hf.elem)

theorem nodesOK_arrMove {prev target ts : Ticket} {a a' : ArrSt} (h : NodesOK a.nodes a.moved)
    (hf : FreshIn a.nodes ts) (hs : arrMove prev target ts a = some a') :
    NodesOK a'.nodes a'.moved := by
  unfold arrMove at hs
  split at hs
  · cases hs
  · split at hs
    · cases hs
    · split at hs
      · rw [hf.pos] at hs
        simp only [Bool.false_eq_true, if_false] at hs
        cases hi : insertPosAfter prev ⟨ts, none⟩ a.nodes with
        | none => simp [hi] at hs
        | some ns =>
          simp [hi] at hs; subst hs
          exact nodesOK_insert h (insertPosAfter_perm hi) hf.pos hf.head (by intro e he; cases he)
      · cases hi : insertPosAfter prev ⟨ts, some target⟩ (vacate target a.nodes) with
        | none => simp [hi] at hs
        | some ns =>
          simp [hi] at hs; subst hs
          have hv := nodesOK_vacate h target
          have h1 : NodesOK ns a.moved :=
            nodesOK_insert hv (insertPosAfter_perm hi) (by rw [hasPos_vacate]; exact hf.pos) hf.head
              (by intro e he; cases he; rw [holds_vacate]; simp)
          have hts : hasPos ns ts = true := by
            rw [hasPos_of_perm (insertPosAfter_perm hi)]; simp [hasPos]
          exact nodesOK_setMoved h1 hts

theorem nodesOK_arrStep {op : Op} {nodes : List PosNode} {moved : Ticket → Option Ticket} {a : ArrSt}
    (h : NodesOK nodes moved) (hf : ∀ i ∈ creates op, FreshIn nodes i)
    (hs : arrStep op ⟨nodes, moved⟩ = some a) : NodesOK a.nodes a.moved := by
  cases op with
  | set => simp [arrStep] at hs
  | increase => simp [arrStep] at hs
  | add p prev v ts => exact nodesOK_arrAdd (a := ⟨nodes, moved⟩) h (hf ts (by simp [creates])) hs
  | arraySet p target v ts =>
    exact nodesOK_arrSet (a := ⟨nodes, moved⟩) h (hf ts (by simp [creates])) hs
  | move p prev target ts =>
    exact nodesOK_arrMove (a := ⟨nodes, moved⟩) h (hf ts (by simp [creates])) hs
  | remove p target ts =>
    simp only [arrStep] at hs
    split at hs
    · cases hs; exact h
    · cases hs

/-! ### `ObjOK` is preserved by `set` -/

theorem mem_insertKey {x k : String} {keys : List String} :
    x ∈ insertKey k keys ↔ x = k ∨ x ∈ keys := by
  induction keys with
  | nil => simp [insertKey]
  | cons y r ih =>
    unfold insertKey
    split
    · simp
    · split
      · rename_i h; subst h; simp
      · simp [ih]; constructor
        · rintro (h | h | h)
          · exact Or.inr (Or.inl h)
          · exact Or.inl h
          · exact Or.inr (Or.inr h)
        · rintro (h | h | h)
          · exact Or.inr (Or.inl h)
          · exact Or.inl h
          · exact Or.inr (Or.inr h)

theorem objOK_setMem {keys keys' : List String} {member : String → Option Member} {k : String}
    {ts : Ticket} (h : ObjOK keys member) (hfresh : ∀ k' m', member k' = some m' → m'.child ≠ ts)
    (hk : k ∈ keys') (hsub : ∀ x, x ∈ keys → x ∈ keys') : ObjOK keys' (setMem member k ts) := by
  refine ⟨?_, ?_⟩
  · intro k1 k2 m1 m2 h1 h2 hc
    unfold setMem at h1 h2
    by_cases e1 : k1 = k <;> by_cases e2 : k2 = k
    · rw [e1, e2]
    · simp only [e1, if_true, Option.some.injEq] at h1
      simp only [e2, if_false] at h2
      subst h1
      exact absurd hc.symm (hfresh k2 m2 h2)
    · simp only [e2, if_true, Option.some.injEq] at h2
      simp only [e1, if_false] at h1
      subst h2
      exact absurd hc (hfresh k1 m1 h1)
    · simp only [e1, if_false] at h1
      simp only [e2, if_false] at h2
      exact h.inj k1 k2 m1 m2 h1 h2 hc
  · intro k1 m1 h1
    unfold setMem at h1
    by_cases e1 : k1 = k
    · rw [e1]; exact hk
    · simp only [e1, if_false] at h1
      exact hsub _ (h.keys k1 m1 h1)

/-! ### every enabled operation preserves `Inv` -/

theorem freshIn_of_ready {d : Doc} {op : Op} {pe : Elem} {nodes : List PosNode}
    {moved : Ticket → Option Ticket} (h : Ready d op pe) (hb : pe.body = .arr nodes moved)
    (hroot : ∀ i ∈ creates op, i ≠ rootId) : ∀ i ∈ creates op, FreshIn nodes i := by
  intro i hi
  have hu := h.fresh i hi
  refine ⟨?_, ?_, hroot i hi⟩
  · cases hh : hasPos nodes i with
    | false => rfl
    | true => exact absurd (Or.inr ⟨_, _, h.hp, Or.inl (by rw [hb]; exact hh)⟩) hu
  · cases hh : holds nodes i with
    | false => rfl
    | true => exact absurd (Or.inr ⟨_, _, h.hp, Or.inr (by rw [hb]; exact hh)⟩) hu

theorem bodyOK_eff {d : Doc} {op : Op} {pe : Elem} (h : Ready d op pe) (hb : BodyOK pe.body)
    (hroot : ∀ i ∈ creates op, i ≠ rootId) : BodyOK (eff pe.body op).body := by
  have hp := h.hp
  cases hbody : pe.body with
  | arr nodes moved =>
    rw [hbody] at hb
    simp only [eff]
    cases hs : arrStep op ⟨nodes, moved⟩ with
    | none => exact hb
    | some a => exact nodesOK_arrStep hb (freshIn_of_ready h hbody hroot) hs
  | obj keys member =>
    rw [hbody] at hb
    simp only [eff]
    cases op with
    | set p k v ts =>
      simp only [Op.parent] at hp
      have hts : d ts = none := h.none (by simp [creates])
      have hfresh : ∀ k' m', member k' = some m' → m'.child ≠ ts := by
        intro k' m' hm' e
        obtain ⟨_, hc, _⟩ := h.wf.member hp hbody hm'
        obtain ⟨e', he', _⟩ := isChildOf_iff.1 hc
        rw [e, hts] at he'; cases he'
      simp only [effObj]
      cases hm : member k with
      | none =>
        exact objOK_setMem hb hfresh (mem_insertKey.2 (Or.inl rfl)) (fun x hx => mem_insertKey.2 (Or.inr hx))
      | some m =>
        simp only
        split
        · exact objOK_setMem hb hfresh (hb.keys k m hm) (fun x hx => hx)
        · exact hb
    | remove p target ts => exact hb
    | add => exact hb
    | move => exact hb
    | arraySet => exact hb
    | increase => exact hb
  | counter l v =>
    simp only [eff]
    cases op <;> simp [effCounter, idEff, BodyOK]
  | prim r => simp [eff, idEff, BodyOK]
  | «opaque» r => simp [eff, idEff, BodyOK]

/-- `Inv` is an invariant of every replica: every enabled operation (local or remote) keeps it -/
theorem inv_apply {d : Doc} {op : Op} (hi : Inv d) (h : Pre d op) : Inv (apply d op) := by
  refine ⟨wf_apply h, ?_⟩
  obtain ⟨pe, hr⟩ := h.ready
  have hroot : ∀ i ∈ creates op, i ≠ rootId := fun i hi' => (h.2.2 i hi').1
  rw [hr.apply_eq]
  have hv := valid_eff hr
  intro t e' hrun
  rcases hv.run_cases hrun with hm | ⟨e0, h0, he⟩
  · obtain ⟨_, _, _, v, hvb⟩ := hv.mk_ok t e' hm
    rw [hvb]; exact bodyOK_val v
  · subst he
    by_cases hpp : t = (eff pe.body op).p
    · have : e0 = pe := by
        have := hv.hp; rw [← hpp, h0] at this; cases this; rfl
      subst this
      simp only [Effect.touch, hpp, if_true]
      exact bodyOK_eff hr (hi.body _ _ hr.hp) hroot
    · simp only [Effect.touch, hpp, if_false]
      exact hi.body t e0 h0

/-! ### the local ticket is newer than everything in the document -/

/-- `ts` is not the initial ticket and is after every ticket the document uses (heap cells,
    position identities, elements). True of every ticket a `change.Context` issues, see `Dom`. -/
def Newer (d : Doc) (ts : Ticket) : Prop := ts ≠ rootId ∧ ∀ i, used d i → ts.after i = true

theorem Newer.not_used {d : Doc} {ts : Ticket} (h : Newer d ts) : ¬ used d ts := by
  intro hu
  have := h.2 ts hu
  rw [Ticket.after_irrefl] at this; cases this

theorem Newer.none {d : Doc} {ts : Ticket} (h : Newer d ts) : d ts = none := by
  cases hd : d ts with
  | none => rfl
  | some e => exact absurd (Or.inl (by simp [hd])) h.not_used

theorem Newer.cell {d : Doc} {ts t : Ticket} {e : Elem} (h : Newer d ts) (ht : d t = some e) :
    ts.after t = true := h.2 t (Or.inl (by simp [ht]))

theorem Newer.ne_cell {d : Doc} {ts t : Ticket} {e : Elem} (h : Newer d ts) (ht : d t = some e) :
    ts ≠ t := Ticket.after_ne (h.cell ht)

theorem Newer.pos {d : Doc} {ts a : Ticket} {e : Elem} {nodes : List PosNode}
    {moved : Ticket → Option Ticket} (h : Newer d ts) (ha : d a = some e)
    (hb : e.body = .arr nodes moved) {p : Ticket} (hp : hasPos nodes p = true) : ts.after p = true :=
  h.2 p (Or.inr ⟨a, e, ha, Or.inl (by rw [hb]; exact hp)⟩)

theorem Newer.noneAfter {d : Doc} {ts a : Ticket} {e : Elem} {nodes : List PosNode}
    {moved : Ticket → Option Ticket} (h : Newer d ts) (ha : d a = some e)
    (hb : e.body = .arr nodes moved) {xs : List PosNode} (hsub : ∀ m ∈ xs, m ∈ nodes) :
    NoneAfter ts xs := by
  intro m hm
  exact Ticket.after_asymm (h.pos ha hb (hasPos_iff.2 ⟨m, hsub m hm, rfl⟩))

theorem Newer.freshIn {d : Doc} {ts a : Ticket} {e : Elem} {nodes : List PosNode}
    {moved : Ticket → Option Ticket} (h : Newer d ts) (ha : d a = some e)
    (hb : e.body = .arr nodes moved) : FreshIn nodes ts := by
  refine ⟨?_, ?_, h.1⟩
  · cases hh : hasPos nodes ts with
    | false => rfl
    | true => exact absurd (Or.inr ⟨a, e, ha, Or.inl (by rw [hb]; exact hh)⟩) h.not_used
  · cases hh : holds nodes ts with
    | false => rfl
    | true => exact absurd (Or.inr ⟨a, e, ha, Or.inr (by rw [hb]; exact hh)⟩) h.not_used

/-- the context dominates the document: every used ticket is older than the change being built,
    or was issued by this very context -/
def Dom (ctx : Ctx) (d : Doc) : Prop :=
  ∀ i, used d i → i.lamport < ctx.lamport ∨
    (i.lamport = ctx.lamport ∧ i.actor = ctx.actor ∧ i.delim ≤ ctx.delim)

/-- the hypothesis of every specification below is discharged for `Ctx.issue` -/
theorem Dom.newer {ctx : Ctx} {d : Doc} (h : Dom ctx d) : Newer d ctx.ticket := by
  refine ⟨?_, ?_⟩
  · intro e
    have : ctx.ticket.delim = rootId.delim := by rw [e]
    simp [Ctx.ticket, rootId] at this
  · intro i hi
    rw [Ticket.after_iff]
    simp only [Ctx.ticket]
    rcases h i hi with h1 | ⟨h1, h2, h3⟩
    · exact Or.inl h1
    · refine Or.inr ⟨h1.symm, Or.inr ⟨h2.symm, ?_⟩⟩
      omega

/-- a fresh context (`change.NewContext`) dominates a document all of whose tickets have a lamport
    not above the document's `changeID` -/
theorem Dom.begin {d : Doc} {lamport : Int} (actor : Nat) (h : ∀ i, used d i → i.lamport ≤ lamport) :
    Dom (Ctx.begin lamport actor) d := by
  intro i hi
  left
  have := h i hi
  simp only [Ctx.begin]
  omega

theorem Dom.issue {ctx : Ctx} {d : Doc} {op : Op} (h : Dom ctx d) (hp : Pre d op)
    (hc : ∀ i ∈ creates op, i = ctx.ticket) : Dom ctx.issue.2 (apply d op) := by
  intro i hi
  obtain ⟨pe, hr⟩ := hp.ready
  rw [hr.apply_eq, (valid_eff hr).used_run] at hi
  simp only [Ctx.issue]
  rcases hi with hi | hi
  · rcases h i hi with h1 | ⟨h1, h2, h3⟩
    · exact Or.inl h1
    · exact Or.inr ⟨h1, h2, by omega⟩
  · rw [hc i hi]
    exact Or.inr ⟨rfl, rfl, by simp [Ctx.ticket]⟩

end Yorkie.Json
