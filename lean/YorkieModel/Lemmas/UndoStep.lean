/-
Lemmas for C14, part 3: abstract transformers on observable heaps and the concrete effect of `Set`
of a leaf value (result heap, reverse operation, preservation of the invariants).
-/
import YorkieModel.Lemmas.UndoEqv
namespace Yorkie.Undo
open Yorkie Yorkie.Crdt

/-! ### small facts -/

theorem after_of_lamport {a b : Ticket} (h : b.lamport < a.lamport) : a.after b = true := by
  simp [Ticket.after, Ticket.cmp, h]

theorem set_apply (d : Doc) (t : Ticket) (e : Elem) (t' : Ticket) :
    (d.set t e) t' = if t' = t then some e else d t' := rfl

theorem liveMember_eq (d : Doc) (m : String → Option Member) (k : String) :
    liveMember d m k = match m k with
      | none => none
      | some mm => if live d mm.child then some mm.child else none := by
  unfold liveMember
  cases hm : m k with
  | none => rfl
  | some mm =>
    cases hc : d mm.child with
    | none => simp [live_none hc, hc]
    | some ce => cases hr : ce.removed <;> simp [live_some hc, hr, hc]

theorem filterMap_congr' {α β} {f g : α → Option β} : ∀ {l : List α}, (∀ x ∈ l, f x = g x) →
    l.filterMap f = l.filterMap g
  | [], _ => rfl
  | a :: l, h => by
    simp only [List.filterMap_cons, h a (by simp)]
    rw [filterMap_congr' (fun x hx => h x (by simp [hx]))]

/-- the observable body depends on the heap only through the liveness of the children -/
theorem absBody_congr {d d' : Doc} {b : Body}
    (ho : ∀ keys m k mm, b = .obj keys m → m k = some mm → live d mm.child = live d' mm.child)
    (ha : ∀ nodes mv n c, b = .arr nodes mv → n ∈ nodes → n.elem = some c → live d c = live d' c) :
    absBody d b = absBody d' b := by
  cases b with
  | prim r => rfl
  | «opaque» r => rfl
  | counter l v => rfl
  | obj keys m =>
    simp only [absBody]
    congr 1
    funext k
    rw [liveMember_eq, liveMember_eq]
    cases hm : m k with
    | none => rfl
    | some mm => simp only [ho keys m k mm rfl hm]
  | arr nodes mv =>
    simp only [absBody]
    congr 1
    apply filterMap_congr'
    intro n hn
    unfold arrEntry
    cases hc : n.elem with
    | none => rfl
    | some c => simp only [ha nodes mv n c rfl hn hc]

def ABody.isLeaf : ABody → Bool
  | .prim _ => true
  | .opq _ => true
  | .cnt _ _ => true
  | _ => false

def absLeaf (b : Body) : ABody := absBody (fun _ => none) b

theorem absBody_leaf (d : Doc) {b : Body} (h : leafBody b = true) : absBody d b = absLeaf b := by
  cases b <;> simp [leafBody] at h <;> rfl

theorem absLeaf_isLeaf {b : Body} (h : leafBody b = true) : (absLeaf b).isLeaf = true := by
  cases b <;> simp [leafBody] at h <;> rfl

theorem leafBody_of_abs {d : Doc} {b : Body} (h : (absBody d b).isLeaf = true) : leafBody b = true := by
  cases b <;> simp [absBody, ABody.isLeaf] at h <;> rfl

theorem copyBody_leaf (look : Ticket → Option Elem) (f : Nat) (self : Ticket) {b : Body}
    (h : leafBody b = true) : copyBody look f self b = (b, []) := by
  cases f with
  | zero => rfl
  | succ f => cases b <;> simp [leafBody] at h <;> rfl

theorem instantiate_leaf (d : Doc) (p : Ticket) (v : UVal) (r : Bool) (hb : leafBody v.body = true) :
    instantiate d p v r = d.set v.id ⟨some p, r, v.body⟩ := by
  simp [instantiate, copyBody_leaf _ _ _ hb, writeAll]

theorem capture_leaf {d : Doc} {c : Ticket} {ce : Elem} (hd : d c = some ce) (hb : leafBody ce.body = true) :
    capture d c = some { id := c, removed := ce.removed, body := ce.body, sub := [] } := by
  simp [capture, hd, copyBody_leaf _ _ _ hb]

theorem mem_insertKey (k x : String) : ∀ l : List String, x ∈ insertKey k l ↔ x = k ∨ x ∈ l
  | [] => by simp [insertKey]
  | a :: l => by
    unfold insertKey
    split
    · simp
    · split
      · rename_i h; subst h; simp
      · simp only [List.mem_cons, mem_insertKey k x l]
        constructor
        · rintro (h | h | h)
          · exact Or.inr (Or.inl h)
          · exact Or.inl h
          · exact Or.inr (Or.inr h)
        · rintro (h | h | h)
          · exact Or.inr (Or.inl h)
          · exact Or.inl h
          · exact Or.inr (Or.inr h)

theorem str_lt_of_not {a b : String} (h1 : ¬ a < b) (h2 : a ≠ b) : b < a := by
  have hle : b ≤ a := String.not_lt.1 h1
  rcases Classical.em (b < a) with h | h
  · exact h
  · exact absurd (String.le_antisymm (String.not_lt.1 h) hle) h2

theorem insertKey_sorted (k : String) : ∀ l : List String, l.Pairwise (· < ·) → (insertKey k l).Pairwise (· < ·)
  | [], _ => by simp [insertKey]
  | a :: l, h => by
    unfold insertKey
    rw [List.pairwise_cons] at h
    split
    · rename_i hka
      rw [List.pairwise_cons]
      refine ⟨?_, List.pairwise_cons.2 h⟩
      intro x hx
      simp only [List.mem_cons] at hx
      rcases hx with rfl | hx
      · exact hka
      · exact String.lt_trans hka (h.1 x hx)
    · split
      · exact List.pairwise_cons.2 h
      · rename_i h1 h2
        rw [List.pairwise_cons]
        refine ⟨?_, insertKey_sorted k l h.2⟩
        intro x hx
        rcases (mem_insertKey k x l).1 hx with rfl | hx
        · exact str_lt_of_not h1 h2
        · exact h.1 x hx

/-! ### abstract transformers -/

abbrev AHeap := Ticket → Option ABody

def aset (A : AHeap) (p : Ticket) (k : String) (id : Ticket) (b : ABody) : AHeap := fun t =>
  match A p with
  | some (.obj f) =>
    if t = id then some b
    else if t = p then some (.obj (fun k' => if k' = k then some id else f k'))
    else if f k = some t then none
    else A t
  | _ => A t

def aremove (A : AHeap) (p : Ticket) (k : String) (u : Ticket) : AHeap := fun t =>
  match A p with
  | some (.obj f) =>
    if t = u then none
    else if t = p then some (.obj (fun k' => if k' = k then none else f k'))
    else A t
  | _ => A t

def ainc (A : AHeap) (c : Ticket) (delta : Int) : AHeap := fun t =>
  if t = c then
    match A c with
    | some (.cnt l v) => some (.cnt l (wrap l (v + delta)))
    | x => x
  else A t

theorem aremove_aset {A : AHeap} {p id : Ticket} {k : String} {b : ABody} {f : String → Option Ticket}
    (hp : A p = some (.obj f)) (hk : f k = none) (hid : A id = none) :
    aremove (aset A p k id b) p k id = A := by
  have hpid : p ≠ id := by intro h; rw [h] at hp; rw [hp] at hid; cases hid
  funext t
  simp only [aremove, aset, hp, hpid, if_true, if_false]
  by_cases h1 : t = id
  · simp [h1, hid]
  · by_cases h2 : t = p
    · subst h2
      simp only [h1, if_false, if_true, hp]
      congr 2
      funext k'
      by_cases hk' : k' = k
      · simp [hk', hk]
      · simp [hk']
    · simp [h1, h2, hk]

theorem aset_aremove {A : AHeap} {p u : Ticket} {k : String} {b : ABody} {f : String → Option Ticket}
    (hp : A p = some (.obj f)) (hk : f k = some u) (hu : A u = some b) (hpu : p ≠ u) :
    aset (aremove A p k u) p k u b = A := by
  funext t
  simp only [aset, aremove, hp, hpu, if_true, if_false]
  by_cases h1 : t = u
  · simp [h1, hu]
  · by_cases h2 : t = p
    · subst h2
      simp only [h1, if_false, if_true, hp]
      congr 2
      funext k'
      by_cases hk' : k' = k
      · simp [hk', hk]
      · simp [hk']
    · simp [h1, h2]

theorem aset_aset {A : AHeap} {p id w : Ticket} {k : String} {b bw : ABody} {f : String → Option Ticket}
    (hp : A p = some (.obj f)) (hk : f k = some w) (hw : A w = some bw) (hid : A id = none) (hpw : p ≠ w) :
    aset (aset A p k id b) p k w bw = A := by
  have hpid : p ≠ id := by intro h; rw [h] at hp; rw [hp] at hid; cases hid
  have hwid : w ≠ id := by intro h; rw [h] at hw; rw [hw] at hid; cases hid
  funext t
  simp only [aset, hp, hpid, if_true, if_false]
  by_cases h1 : t = w
  · simp [h1, hw]
  · by_cases h2 : t = p
    · subst h2
      simp only [h1, if_false, if_true, hp]
      congr 2
      funext k'
      by_cases hk' : k' = k
      · simp [hk', hk]
      · simp [hk']
    · by_cases h3 : t = id
      · subst h3
        have : ¬ (t = w) := h1
        simp [h2, hid, this]
      · have : ¬ (w = t) := fun h => h1 h.symm
        have h3' : ¬ (id = t) := fun h => h3 h.symm
        simp [h1, h2, h3, h3', hk, this]


/-! ### concrete effect of the operations -/

/-- tombstone the entry `o` (if any) -/
def kill (d : Doc) (o : Option Ticket) : Doc :=
  fun t => if o = some t then (d t).map (fun e => { e with removed := true }) else d t

theorem kill_none (d : Doc) : kill d none = d := by
  funext t; simp [kill]

theorem markRemoved_eq_kill {d : Doc} {c ts : Ticket} (h : ∀ e, d c = some e → ts.after c = true) :
    markRemoved d c ts = kill d (some c) := by
  funext t
  unfold markRemoved kill
  cases hd : d c with
  | none =>
    by_cases ht : c = t
    · subst ht; simp [hd]
    · simp [ht]
  | some e =>
    simp only [h e hd, if_true, set_apply, Option.some.injEq]
    by_cases ht : c = t
    · subst ht; simp [hd]
    · have : ¬ t = c := fun h => ht h.symm
      simp [ht, this]

theorem applySetU_eq {d : Doc} {p : Ticket} {k : String} {val : UVal} {ts : Ticket} {pe : Elem}
    {keys : List String} {member : String → Option Member}
    (hd : d p = some pe) (hb : pe.body = .obj keys member) (hl : leafBody val.body = true)
    (hr : val.removed = false)
    (hm : ∀ m, member k = some m → ts.after m.positionedAt = true ∧ ∀ e, d m.child = some e → ts.after m.child = true) :
    applySetU d p k val ts = .ok (((kill d ((member k).map (·.child))).set val.id ⟨some p, false, val.body⟩).set p
      { pe with body := .obj (if (member k).isNone then insertKey k keys else keys)
                              (fun k' => if k' = k then some ⟨val.id, ts⟩ else member k') }) := by
  unfold applySetU
  simp only [hd, hb]
  cases hmk : member k with
  | none => simp only [instantiate_leaf _ _ _ _ hl, hr, Option.map_none, kill_none, Option.isNone_none, if_true]
  | some m =>
    obtain ⟨h1, h2⟩ := hm m hmk
    simp only [h1, if_true, instantiate_leaf _ _ _ _ hl, hr, Option.map_some, markRemoved_eq_kill h2,
      Option.isNone_some, Bool.false_eq_true, if_false]


theorem absNode_obj {d : Doc} {p : Ticket} {f : String → Option Ticket} (h : absNode d p = some (.obj f)) :
    ∃ pe keys member, d p = some pe ∧ pe.removed = false ∧ pe.body = .obj keys member ∧
      f = liveMember d member := by
  unfold absNode at h
  cases hd : d p with
  | none => simp [hd] at h
  | some pe =>
    simp only [hd] at h
    cases hr : pe.removed with
    | true => simp [hr] at h
    | false =>
      simp only [hr, Bool.false_eq_true, if_false, Option.some.injEq] at h
      cases hb : pe.body <;> simp only [hb, absBody, reduceCtorEq] at h
      rename_i keys member
      injection h with h
      exact ⟨pe, keys, member, rfl, hr, hb, h.symm⟩

theorem absNode_leaf {d : Doc} {c : Ticket} {b : ABody} (h : absNode d c = some b) (hl : b.isLeaf = true) :
    ∃ ce, d c = some ce ∧ ce.removed = false ∧ leafBody ce.body = true ∧ b = absLeaf ce.body := by
  unfold absNode at h
  cases hd : d c with
  | none => simp [hd] at h
  | some ce =>
    simp only [hd] at h
    cases hr : ce.removed with
    | true => simp [hr] at h
    | false =>
      simp only [hr, Bool.false_eq_true, if_false, Option.some.injEq] at h
      subst h
      have := leafBody_of_abs hl
      exact ⟨ce, rfl, hr, this, absBody_leaf d this⟩

theorem absNode_none_iff {d : Doc} {t : Ticket} : absNode d t = none ↔ live d t = false := by
  rw [live_eq_absNode]; cases absNode d t <;> simp

theorem skel_none_iff {d : Doc} {t : Ticket} : skel d t = none ↔ ∀ e, d t = some e → leafBody e.body = true := by
  unfold skel
  cases hd : d t with
  | none => simp
  | some e => cases hb : leafBody e.body <;> simp

/-- the object body after `Set` -/
def setBody (keys : List String) (member : String → Option Member) (k : String) (id ts : Ticket) : Body :=
  .obj (if (member k).isNone then insertKey k keys else keys)
       (fun k' => if k' = k then some ⟨id, ts⟩ else member k')

/-- the heap after `Set` of a leaf value -/
def setRes (d : Doc) (p : Ticket) (pe : Elem) (keys : List String) (member : String → Option Member)
    (k : String) (val : UVal) (ts : Ticket) : Doc :=
  ((kill d ((member k).map (·.child))).set val.id ⟨some p, false, val.body⟩).set p
      { pe with body := setBody keys member k val.id ts }

theorem setRes_apply (d : Doc) (p : Ticket) (pe : Elem) (keys : List String) (member : String → Option Member)
    (k : String) (val : UVal) (ts t : Ticket) :
    setRes d p pe keys member k val ts t =
      if t = p then some { pe with body := setBody keys member k val.id ts }
      else if t = val.id then some ⟨some p, false, val.body⟩
      else if (member k).map (·.child) = some t then (d t).map (fun e => { e with removed := true })
      else d t := rfl

/-- side conditions of a `Set` of a leaf value on a live, reachable object -/
structure GoodSet (H : Home) (tw : Ticket → Bool) (d : Doc) (p : Ticket) (k : String) (val : UVal)
    (f : String → Option Ticket) : Prop where
  hp : absNode d p = some (.obj f)
  horph : orphaned d tw orphanFuel p = false
  hleaf : leafBody val.body = true
  hsub : val.sub = []
  hrem : val.removed = false
  hkey : H.key val.id = k
  hpar : H.par val.id = some p
  htw : tw val.id = false
  hdead : absNode d val.id = none
  hnc : skel d val.id = none
  hold : ∀ c, f k = some c → (∃ b, absNode d c = some b ∧ b.isLeaf = true) ∧ tw c = false

section setEffect
variable {H : Home} {tw : Ticket → Bool} {d : Doc} {p : Ticket} {k : String} {val : UVal}
  {f : String → Option Ticket} {pe : Elem} {keys : List String} {member : String → Option Member}
  {ts : Ticket}

theorem live_setRes (w : WF H d) (g : GoodSet H tw d p k val f) (hd : d p = some pe) (hr : pe.removed = false)
    (hb : pe.body = .obj keys member) (hf : f = liveMember d member) (t : Ticket) :
    live (setRes d p pe keys member k val ts) t =
      if t = val.id then true else if f k = some t then false else live d t := by
  have hpid : p ≠ val.id := by
    intro h
    have := skel_none_iff.1 g.hnc pe (h ▸ hd)
    simp [hb, leafBody] at this
  unfold live
  rw [setRes_apply]
  by_cases h1 : t = p
  · subst h1
    have hfk : f k ≠ some t := by
      intro h
      obtain ⟨b, hb', hl⟩ := (g.hold t h).1
      rw [g.hp] at hb'; injection hb' with hb'; subst hb'; simp [ABody.isLeaf] at hl
    simp [hpid, hfk, hd, hr]
  · by_cases h2 : t = val.id
    · subst h2
      have : ¬ val.id = p := fun h => hpid h.symm
      simp [this]
    · simp only [h1, h2, if_false]
      subst hf
      rw [liveMember_eq]
      cases hm : member k with
      | none => simp
      | some m =>
        simp only [Option.map_some, Option.some.injEq]
        by_cases h3 : m.child = t
        · subst h3
          cases hdc : d m.child with
          | none => simp [live_none hdc]
          | some ce => cases hrc : ce.removed <;> simp [live_some hdc, hrc]
        · simp only [h3, if_false]
          by_cases hlv : live d m.child = true
          · simp [hlv, h3]
          · simp [hlv]

theorem fk_home (w : WF H d) (hd : d p = some pe) (hr : pe.removed = false) (hb : pe.body = .obj keys member)
    (hf : f = liveMember d member) {k' : String} {c : Ticket} (h : f k' = some c) :
    H.key c = k' ∧ H.par c = some p ∧ live d c = true := by
  subst hf
  obtain ⟨hl, mm, hmm, rfl⟩ := liveMember_some h
  exact ⟨(w.objMem _ _ _ _ _ _ hd hr hb hmm).2.1, (w.objMem _ _ _ _ _ _ hd hr hb hmm).2.2, hl⟩

theorem live_setRes_other (w : WF H d) (g : GoodSet H tw d p k val f) (hd : d p = some pe)
    (hr : pe.removed = false) (hb : pe.body = .obj keys member) (hf : f = liveMember d member)
    {c : Ticket} (hc : H.par c ≠ some p ∨ H.key c ≠ k) :
    live (setRes d p pe keys member k val ts) c = live d c := by
  rw [live_setRes w g hd hr hb hf]
  have h1 : c ≠ val.id := by
    intro h; subst h
    rcases hc with hc | hc
    · exact hc g.hpar
    · exact hc g.hkey
  have h2 : f k ≠ some c := by
    intro h
    obtain ⟨a, b, _⟩ := fk_home w hd hr hb hf h
    rcases hc with hc | hc
    · exact hc b
    · exact hc a
  simp [h1, h2]

theorem absNode_setRes (w : WF H d) (g : GoodSet H tw d p k val f) (hd : d p = some pe)
    (hr : pe.removed = false) (hb : pe.body = .obj keys member) (hf : f = liveMember d member) :
    absNode (setRes d p pe keys member k val ts) = aset (absNode d) p k val.id (absLeaf val.body) := by
  have hpid : p ≠ val.id := by
    intro h
    have := skel_none_iff.1 g.hnc pe (h ▸ hd)
    simp [hb, leafBody] at this
  have hlive := live_setRes (ts := ts) w g hd hr hb hf
  funext t
  simp only [aset, g.hp]
  by_cases h1 : t = val.id
  · subst h1
    have : ¬ val.id = p := fun h => hpid h.symm
    simp [absNode, setRes_apply, this, absBody_leaf _ g.hleaf]
  · simp only [h1, if_false]
    by_cases h2 : t = p
    · subst h2
      simp only [absNode, setRes_apply, if_true, hr, Bool.false_eq_true, if_false, setBody, absBody]
      congr 2
      funext k'
      rw [liveMember_eq]
      by_cases hk : k' = k
      · subst hk; simp [hlive]
      · simp only [hk, if_false]
        cases hm : member k' with
        | none => subst hf; simp [liveMember_eq, hm]
        | some mm =>
          have hkey := (w.objMem _ _ _ _ _ _ hd hr hb hm).2.1
          simp only []
          rw [live_setRes_other w g hd hr hb hf (Or.inr (by rw [hkey]; exact hk))]
          subst hf; simp [liveMember_eq, hm]
    · simp only [h2, if_false]
      by_cases h3 : f k = some t
      · simp only [h3, if_true]
        rw [absNode_none_iff, hlive]; simp [h1, h3]
      · simp only [h3, if_false]
        have hlt : live (setRes d p pe keys member k val ts) t = live d t := by
          rw [hlive]; simp [h1, h3]
        cases hl : live d t with
        | false => rw [absNode_none_iff.2 hl, absNode_none_iff.2 (hlt.trans hl)]
        | true =>
          obtain ⟨e, hde, hre, ha⟩ := absNode_live hl
          have hd't : setRes d p pe keys member k val ts t = some e := by
            rw [setRes_apply]; simp only [h1, h2, if_false]
            split
            · rename_i ho
              exfalso
              apply h3
              subst hf
              rw [liveMember_eq]
              cases hm : member k with
              | none => simp [hm] at ho
              | some mm =>
                simp only [hm, Option.map_some, Option.some.injEq] at ho
                simp [ho, hl]
            · exact hde
          rw [ha]
          simp only [absNode, hd't, hre, Bool.false_eq_true, if_false]
          congr 1
          apply absBody_congr
          · intro keys' m' k' mm hbe hmm
            apply live_setRes_other w g hd hr hb hf
            left
            rw [(w.objMem _ _ _ _ _ _ hde hre hbe hmm).2.2]
            intro h; injection h with h; exact h2 h
          · intro nodes mv n c hbe hn hc
            apply live_setRes_other w g hd hr hb hf
            left
            rw [w.arrMem _ _ _ _ _ _ hde hre hbe hn hc]
            intro h; injection h with h; exact h2 h

theorem setRes_other (hd : d p = some pe) {t : Ticket} {e' : Elem} (h1 : t ≠ p) (h2 : t ≠ val.id)
    (h : setRes d p pe keys member k val ts t = some e') :
    ∃ e, d t = some e ∧ e'.body = e.body ∧ e'.parent = e.parent ∧
      (e'.removed = e.removed ∨ e'.removed = true ∧ (member k).map (·.child) = some t) := by
  rw [setRes_apply] at h
  simp only [h1, h2, if_false] at h
  split at h
  · cases hdt : d t with
    | none => simp [hdt] at h
    | some e =>
      simp only [hdt, Option.map_some, Option.some.injEq] at h
      subst h
      exact ⟨e, rfl, rfl, rfl, Or.inr ⟨rfl, ‹_›⟩⟩
  · exact ⟨e', h, rfl, rfl, Or.inl rfl⟩

theorem skel_setRes (g : GoodSet H tw d p k val f) (hd : d p = some pe)
    (hb : pe.body = .obj keys member) (hf : f = liveMember d member) (t : Ticket) :
    skel (setRes d p pe keys member k val ts) t = skel d t := by
  by_cases h1 : t = p
  · subst h1
    simp [skel, setRes_apply, hd, hb, setBody, leafBody]
  · by_cases h2 : t = val.id
    · subst h2
      rw [g.hnc]
      simp [skel, setRes_apply, h1, g.hleaf]
    · cases hs : setRes d p pe keys member k val ts t with
      | none =>
        have : d t = none := by
          rw [setRes_apply] at hs
          simp only [h1, h2, if_false] at hs
          split at hs
          · cases hdt : d t with
            | none => rfl
            | some e => simp [hdt] at hs
          · exact hs
        simp [skel, hs, this]
      | some e' =>
        obtain ⟨e, hdt, hbe, _, hre⟩ := setRes_other hd h1 h2 hs
        simp only [skel, hs, hdt, hbe]
        cases hl : leafBody e.body with
        | true => rfl
        | false =>
          simp only [Bool.false_eq_true, if_false, Option.some.injEq]
          rcases hre with hre | ⟨hre, ho⟩
          · exact hre
          · rw [hre]
            cases hr : e.removed with
            | true => rfl
            | false =>
              exfalso
              have hfk : f k = some t := by
                subst hf
                rw [liveMember_eq]
                cases hm : member k with
                | none => simp [hm] at ho
                | some mm =>
                  simp only [hm, Option.map_some, Option.some.injEq] at ho
                  simp [ho, live_some hdt, hr]
              obtain ⟨⟨b, hb', hbl⟩, _⟩ := g.hold t hfk
              obtain ⟨ce, hce, _, hcl, _⟩ := absNode_leaf hb' hbl
              rw [hdt] at hce; injection hce with hce; subst hce
              rw [hl] at hcl; cases hcl

theorem isContainer_of_skel {d d' : Doc} (h : ∀ t, skel d' t = skel d t) (q : Ticket) :
    isContainer d' q = isContainer d q := by
  have key : ∀ (x : Doc), isContainer x q = (skel x q).isSome := by
    intro x
    unfold isContainer skel
    cases x q with
    | none => rfl
    | some e => cases hb : e.body <;> simp [leafBody, hb]
  rw [key, key, h]

theorem WF_setRes (w : WF H d) (g : GoodSet H tw d p k val f) (hd : d p = some pe) (hr : pe.removed = false)
    (hb : pe.body = .obj keys member) (hf : f = liveMember d member) :
    WF H (setRes d p pe keys member k val ts) := by
  have hsk := skel_setRes (ts := ts) g hd hb hf
  have hpid : p ≠ val.id := by
    intro h
    have := skel_none_iff.1 g.hnc pe (h ▸ hd)
    simp [hb, leafBody] at this
  have hcase : ∀ t e', setRes d p pe keys member k val ts t = some e' →
      (t = p ∧ e' = { pe with body := setBody keys member k val.id ts }) ∨
      (t ≠ p ∧ t = val.id ∧ e' = ⟨some p, false, val.body⟩) ∨
      (t ≠ p ∧ t ≠ val.id ∧ ∃ e, d t = some e ∧ e'.body = e.body ∧ e'.parent = e.parent ∧
        (e'.removed = false → e.removed = false)) := by
    intro t e' h
    by_cases h1 : t = p
    · left; subst h1; rw [setRes_apply] at h; simp only [if_true, Option.some.injEq] at h; exact ⟨rfl, h.symm⟩
    · by_cases h2 : t = val.id
      · right; left; subst h2; rw [setRes_apply] at h
        simp only [h1, if_false, if_true, Option.some.injEq] at h; exact ⟨h1, rfl, h.symm⟩
      · right; right
        obtain ⟨e, a, b, c, hrm⟩ := setRes_other hd h1 h2 h
        refine ⟨h1, h2, e, a, b, c, fun h0 => ?_⟩
        rcases hrm with hrm | ⟨hrm, _⟩
        · rw [← hrm]; exact h0
        · rw [h0] at hrm; cases hrm
  constructor
  · intro t e' h
    rcases hcase t e' h with ⟨rfl, rfl⟩ | ⟨_, rfl, rfl⟩ | ⟨_, _, e, hdt, _, hp, _⟩
    · exact w.par _ pe hd
    · exact g.hpar.symm
    · rw [hp]; exact w.par _ _ hdt
  · intro t e' q h hq
    rw [isContainer_of_skel hsk]
    rcases hcase t e' h with ⟨rfl, rfl⟩ | ⟨_, rfl, rfl⟩ | ⟨_, _, e, hdt, _, _, _⟩
    · exact w.parCont _ _ _ hd hq
    · rw [g.hpar] at hq; injection hq with hq; subst hq
      exact isContainer_iff.2 ⟨pe, hd, by simp [hb, leafBody]⟩
    · exact w.parCont _ _ _ hdt hq
  · intro q qe keys' m' h hbq
    rcases hcase q qe h with ⟨rfl, rfl⟩ | ⟨_, rfl, rfl⟩ | ⟨_, _, e, hdt, hbe, _, hrm⟩
    · simp only [setBody, Body.obj.injEq] at hbq
      obtain ⟨rfl, _⟩ := hbq
      split
      · exact insertKey_sorted _ _ (w.objSorted _ _ _ _ hd hb)
      · exact w.objSorted _ _ _ _ hd hb
    · simp only at hbq; have := g.hleaf; simp [hbq, leafBody] at this
    · exact w.objSorted _ _ _ _ hdt (hbe ▸ hbq)
  · intro q qe keys' m' k' m h hrq hbq hm
    rcases hcase q qe h with ⟨rfl, rfl⟩ | ⟨_, rfl, rfl⟩ | ⟨_, _, e, hdt, hbe, _, hrm⟩
    · simp only [setBody, Body.obj.injEq] at hbq
      obtain ⟨rfl, rfl⟩ := hbq
      by_cases hk : k' = k
      · subst hk
        simp only [if_true, Option.some.injEq] at hm
        subst hm
        refine ⟨?_, g.hkey, g.hpar⟩
        cases hmk : member k' with
        | none => simp [mem_insertKey]
        | some mm => simpa using (w.objMem _ _ _ _ _ _ hd hr hb hmk).1
      · simp only [hk, if_false] at hm
        obtain ⟨a, b, c⟩ := w.objMem _ _ _ _ _ _ hd hr hb hm
        refine ⟨?_, b, c⟩
        split
        · exact (mem_insertKey _ _ _).2 (Or.inr a)
        · exact a
    · simp only at hbq; have := g.hleaf; simp [hbq, leafBody] at this
    · exact w.objMem _ _ _ _ _ _ hdt (hrm hrq) (hbe ▸ hbq) hm
  · intro q qe nodes mv n c h hrq hbq hn hc
    rcases hcase q qe h with ⟨rfl, rfl⟩ | ⟨_, rfl, rfl⟩ | ⟨_, _, e, hdt, hbe, _, hrm⟩
    · simp [setBody] at hbq
    · simp only at hbq; have := g.hleaf; simp [hbq, leafBody] at this
    · exact w.arrMem _ _ _ _ _ _ hdt (hrm hrq) (hbe ▸ hbq) hn hc

theorem Bounded_setRes {L : Int} (g : GoodSet H tw d p k val f) (bd : Bounded d L) (hL : L < ts.lamport) (hid : val.id.lamport ≤ ts.lamport)
    (hd : d p = some pe) (hb : pe.body = .obj keys member) :
    Bounded (setRes d p pe keys member k val ts) ts.lamport := by
  have hmem : ∀ q qe keys' m' k' m, setRes d p pe keys member k val ts q = some qe → qe.body = .obj keys' m' →
      m' k' = some m → (m = ⟨val.id, ts⟩) ∨ ∃ q' qe' keys'' m'', d q' = some qe' ∧ qe'.body = .obj keys'' m'' ∧ m'' k' = some m := by
    intro q qe keys' m' k' m h hbq hm
    by_cases h1 : q = p
    · subst h1
      rw [setRes_apply] at h
      simp only [if_true, Option.some.injEq] at h
      subst h
      simp only [setBody, Body.obj.injEq] at hbq
      obtain ⟨_, rfl⟩ := hbq
      by_cases hk : k' = k
      · simp only [hk, if_true, Option.some.injEq] at hm
        exact Or.inl hm.symm
      · simp only [hk, if_false] at hm
        exact Or.inr ⟨_, _, _, _, hd, hb, hm⟩
    · by_cases h2 : q = val.id
      · subst h2
        rw [setRes_apply] at h
        simp only [h1, if_false, if_true, Option.some.injEq] at h
        subst h
        simp only at hbq
        exact absurd hbq (by intro h; have := g.hleaf; simp [h, leafBody] at this)
      · obtain ⟨e, hdt, hbe, _⟩ := setRes_other hd h1 h2 h
        exact Or.inr ⟨_, _, _, _, hdt, hbe ▸ hbq, hm⟩
  constructor
  · intro t e' h
    by_cases h1 : t = p
    · subst h1; have := bd.ent _ _ hd; omega
    · by_cases h2 : t = val.id
      · subst h2; exact hid
      · obtain ⟨e, hdt, _⟩ := setRes_other hd h1 h2 h
        have := bd.ent _ _ hdt; omega
  · intro q qe keys' m' k' m h hbq hm
    rcases hmem q qe keys' m' k' m h hbq hm with rfl | ⟨q', qe', keys'', m'', a, b, c⟩
    · simp
    · have := bd.pos _ _ _ _ _ _ a b c; omega
  · intro q qe keys' m' k' m h hbq hm
    rcases hmem q qe keys' m' k' m h hbq hm with rfl | ⟨q', qe', keys'', m'', a, b, c⟩
    · exact hid
    · have := bd.child _ _ _ _ _ _ a b c; omega
  · intro q qe nodes mv n c h hbq hn hc
    by_cases h1 : q = p
    · subst h1
      rw [setRes_apply] at h
      simp only [if_true, Option.some.injEq] at h
      subst h
      simp [setBody] at hbq
    · by_cases h2 : q = val.id
      · subst h2
        rw [setRes_apply] at h
        simp only [h1, if_false, if_true, Option.some.injEq] at h
        subst h
        simp only at hbq
        exact absurd hbq (by intro h; have := g.hleaf; simp [h, leafBody] at this)
      · obtain ⟨e, hdt, hbe, _⟩ := setRes_other hd h1 h2 h
        have := bd.elem _ _ _ _ _ _ hdt (hbe ▸ hbq) hn hc; omega

/-- the reverse operation of a `Set` of a leaf value -/
def setRev (d : Doc) (p : Ticket) (k : String) (val : UVal) (ts : Ticket) (f : String → Option Ticket) : UOp :=
  match f k with
  | none => .remove p val.id ts
  | some c =>
    match d c with
    | some ce => .set p k { id := c, removed := false, body := ce.body, sub := [] } ts
    | none => .remove p val.id ts

theorem orphaned_root_removed {d : Doc} {tw : Ticket → Bool} {p : Ticket} {pe : Elem} {n : Nat}
    (h : orphaned d tw (n + 1) p = false) (hd : d p = some pe) : pe.removed = false ∧ tw p = false := by
  simp only [orphaned, hd, Bool.or_eq_false_iff] at h
  exact ⟨h.1.1, h.1.2⟩

theorem uexecute_set {L : Int} {src : Source} (bd : Bounded d L) (hL : L < ts.lamport)
    (g : GoodSet H tw d p k val f) (hsrc : src.needsReverse = true)
    (hd : d p = some pe) (hb : pe.body = .obj keys member) (hf : f = liveMember d member) :
    uexecute d tw src (.set p k val ts) =
      .ok (setRes d p pe keys member k val ts, some (setRev d p k val ts f)) := by
  have hobj : isObj d p = true := by simp [isObj, hd, hb]
  have happ := applySetU_eq (d := d) (p := p) (k := k) (val := val) (ts := ts) hd hb g.hleaf g.hrem
    (by
      intro m hm
      refine ⟨after_of_lamport ?_, fun e he => after_of_lamport ?_⟩
      · have := bd.pos _ _ _ _ _ _ hd hb hm; omega
      · have := bd.ent _ _ he; omega)
  have hrev : reverseSet d p k val ts = some (setRev d p k val ts f) := by
    unfold reverseSet setRev
    simp only [hd, hb, ← hf]
    cases hfk : f k with
    | none => rfl
    | some c =>
      obtain ⟨⟨b, hb', hbl⟩, _⟩ := g.hold c hfk
      obtain ⟨ce, hce, hcr, hcl, _⟩ := absNode_leaf hb' hbl
      simp only [capture_leaf hce hcl, hce, hcr]
  simp only [uexecute, hobj, Bool.not_true, Bool.false_eq_true, if_false, g.horph, Bool.and_false, happ, hsrc,
    gate, if_true, hrev]
  rfl

end setEffect




end Yorkie.Undo
