/-
Helper lemmas for C16 (lock-order discipline ⇒ no deadlock).  Core Lean only.
-/
import YorkieModel.Model.Locks
namespace Yorkie.Locks

variable {α : Type} [DecidableEq α]

/-! ### the discipline check -/

theorem violations_skip_eq (rank : α → Option Nat) (l : α) (held : List (α × Mode)) (r : List (Op α)) :
    violations rank (some l) held r = violations rank none held (dropThrough l r) := by
  induction r with
  | nil => simp [violations, dropThrough]
  | cons op r ih =>
    cases op with
    | acq l' m o => simp [violations, dropThrough, ih]
    | rel l' o =>
      simp only [violations, dropThrough]
      split <;> simp_all

theorem held_nil_of_violations_nil (rank : α → Option Nat) (held : List (α × Mode))
    (h : violations rank none held [] = []) : held = [] := by
  simpa [violations] using h

omit [DecidableEq α] in
theorem acqViolations_nil (rank : α → Option Nat) (held : List (α × Mode)) (l : α) (m : Mode) (o : Nat)
    (h : acqViolations rank held l m o = []) :
    ∃ rl, rank l = some rl ∧ (m ≠ .T → ∀ x ∈ held, rankLt rank x.1 rl = true) := by
  unfold acqViolations at h
  split at h
  · simp at h
  · rename_i rl hrl
    refine ⟨rl, hrl, ?_⟩
    intro hm x hx
    simp only [hm, if_false, List.map_eq_nil_iff, List.filter_eq_nil_iff] at h
    simpa using h x hx

/-- what "no violations" says about a script that starts with an acquisition -/
theorem violations_acq (rank : α → Option Nat) (held : List (α × Mode)) (l : α) (m : Mode) (o : Nat)
    (r : List (Op α)) (h : violations rank none held (.acq l m o :: r) = []) :
    (∃ rl, rank l = some rl ∧ (m ≠ .T → ∀ x ∈ held, rankLt rank x.1 rl = true))
    ∧ violations rank none ((l, m) :: held) r = []
    ∧ (m = .T → violations rank none held (dropThrough l r) = []) := by
  simp only [violations, List.append_eq_nil_iff] at h
  obtain ⟨⟨h1, h2⟩, h3⟩ := h
  refine ⟨acqViolations_nil rank held l m o h1, h2, ?_⟩
  intro hm
  simp only [hm, if_true] at h3
  rw [← violations_skip_eq]; exact h3

theorem violations_rel (rank : α → Option Nat) (held : List (α × Mode)) (l : α) (o : Nat)
    (r : List (Op α)) (h : violations rank none held (.rel l o :: r) = []) :
    holdsName held l = true ∧ violations rank none (release l held) r = [] := by
  simp only [violations, List.append_eq_nil_iff] at h
  obtain ⟨h1, h2⟩ := h
  refine ⟨?_, h2⟩
  split at h1
  · assumption
  · simp at h1

/-- every outcome of a thread's step keeps its remaining script within the discipline -/
theorem next_preserves (rank : α → Option Nat) (S : State α) (t t' : Thread α)
    (h : violations rank none t.held t.rest = []) (ht' : t' ∈ t.next S) :
    violations rank none t'.held t'.rest = [] := by
  unfold Thread.next at ht'
  split at ht'
  · simp at ht'
  · rename_i l m o r hr
    have h0 := h
    rw [hr] at h
    obtain ⟨_, h2, h3⟩ := violations_acq rank t.held l m o r h
    split at ht'
    · rename_i hm
      subst hm
      simp only [List.mem_append, List.mem_singleton] at ht'
      rcases ht' with ht' | ht'
      · split at ht'
        · simp at ht'
        · simp only [List.mem_singleton] at ht'
          subst ht'; exact h2
      · subst ht'; exact h3 rfl
    · split at ht'
      · simp only [List.mem_singleton] at ht'
        subst ht'; exact h0
      · split at ht'
        · simp at ht'
        · simp only [List.mem_singleton] at ht'
          subst ht'; exact h2
  · rename_i l o r hr
    rw [hr] at h
    simp only [List.mem_singleton] at ht'
    subst ht'
    exact (violations_rel rank t.held l o r h).2

/-! ### successor states -/

theorem mem_succs_of_next (S : State α) (t t' : Thread α) (ht : t ∈ S) (ht' : t' ∈ t.next S) :
    ∃ S', S' ∈ succs S := by
  obtain ⟨i, hi, rfl⟩ := List.getElem_of_mem ht
  refine ⟨S.set i t', ?_⟩
  unfold succs
  rw [List.mem_flatMap]
  refine ⟨i, by simpa using hi, ?_⟩
  simp only [List.getElem?_eq_getElem hi]
  exact List.mem_map.mpr ⟨t', ht', rfl⟩

theorem succs_elim (S S' : State α) (h : S' ∈ succs S) :
    ∃ i t t', S[i]? = some t ∧ t' ∈ t.next S ∧ S' = S.set i t' := by
  unfold succs at h
  rw [List.mem_flatMap] at h
  obtain ⟨i, _, hi⟩ := h
  split at hi
  · simp at hi
  · rename_i t ht
    obtain ⟨t', ht', rfl⟩ := List.mem_map.mp hi
    exact ⟨i, t, t', ht, ht', rfl⟩

theorem stateOK_step (rank : α → Option Nat) (S S' : State α) (h : StateOK rank S) (hs : Step S S') :
    StateOK rank S' := by
  obtain ⟨i, t, t', hi, ht', rfl⟩ := succs_elim S S' hs
  intro u hu
  rcases List.mem_or_eq_of_mem_set hu with hu | rfl
  · exact h u hu
  · exact next_preserves rank S t u (h t (List.mem_of_getElem? hi)) ht'

theorem stateOK_reach (rank : α → Option Nat) (S₀ S : State α) (h : StateOK rank S₀) (hr : Reach S₀ S) :
    StateOK rank S := by
  induction hr with
  | init => exact h
  | step _ hs ih => exact stateOK_step rank _ _ ih hs

theorem stateOK_init (rank : α → Option Nat) (scripts : List (List (Op α)))
    (h : ∀ s ∈ scripts, violations rank none [] s = []) : StateOK rank (initState scripts) := by
  intro t ht
  simp only [initState, List.mem_map] at ht
  obtain ⟨s, hs, rfl⟩ := ht
  exact h s hs

/-! ### the maximal-rank argument -/

/-- rank of the lock the thread is about to acquire (0 otherwise) -/
def wantRank (rank : α → Option Nat) (t : Thread α) : Nat :=
  match t.rest with
  | .acq l _ _ :: _ => (rank l).getD 0
  | _ => 0

theorem exists_max {β : Type} (f : β → Nat) (p : β → Prop) (l : List β) (h : ∃ x ∈ l, p x) :
    ∃ x ∈ l, p x ∧ ∀ y ∈ l, p y → f y ≤ f x := by
  induction l with
  | nil => obtain ⟨x, hx, _⟩ := h; simp at hx
  | cons a l ih =>
    by_cases hl : ∃ x ∈ l, p x
    · obtain ⟨m, hm, hpm, hmax⟩ := ih hl
      by_cases hpa : p a
      · by_cases hle : f a ≤ f m
        · refine ⟨m, List.mem_cons_of_mem _ hm, hpm, ?_⟩
          intro y hy hpy
          rcases List.mem_cons.mp hy with rfl | hy
          · exact hle
          · exact hmax y hy hpy
        · refine ⟨a, List.mem_cons_self, hpa, ?_⟩
          intro y hy hpy
          rcases List.mem_cons.mp hy with rfl | hy
          · exact Nat.le_refl _
          · have := hmax y hy hpy; omega
      · refine ⟨m, List.mem_cons_of_mem _ hm, hpm, ?_⟩
        intro y hy hpy
        rcases List.mem_cons.mp hy with rfl | hy
        · exact absurd hpy hpa
        · exact hmax y hy hpy
    · obtain ⟨x, hx, hpx⟩ := h
      rcases List.mem_cons.mp hx with rfl | hx
      · refine ⟨x, List.mem_cons_self, hpx, ?_⟩
        intro y hy hpy
        rcases List.mem_cons.mp hy with rfl | hy
        · exact Nat.le_refl _
        · exact absurd ⟨y, hy, hpy⟩ hl
      · exact absurd ⟨x, hx, hpx⟩ hl

theorem holdsName_mem (held : List (α × Mode)) (l : α) (h : holdsName held l = true) :
    ∃ x ∈ held, x.1 = l := by
  simpa [holdsName] using h

theorem holdsExcl_holds (t : Thread α) (l : α) (h : t.holdsExcl l = true) : t.holds l = true := by
  simp only [Thread.holdsExcl, List.any_eq_true, Bool.and_eq_true, decide_eq_true_eq] at h
  obtain ⟨x, hx, h1, _⟩ := h
  simp only [Thread.holds, holdsName, List.any_eq_true, decide_eq_true_eq]
  exact ⟨x, hx, h1⟩

/-- a thread whose next operation is a release or a try-lock can always move -/
theorem next_ne_nil_of_nonblocking (S : State α) (t : Thread α)
    (h : (∃ l o r, t.rest = .rel l o :: r) ∨ (∃ l o r, t.rest = .acq l .T o :: r)) : t.next S ≠ [] := by
  rcases h with ⟨l, o, r, h⟩ | ⟨l, o, r, h⟩
  · simp [Thread.next, h]
  · simp [Thread.next, h]

/-- Key step: if `x` is an unfinished thread whose wanted lock has maximal rank among
    all unfinished threads, and some thread `v` holds that lock, then `v` can move. -/
theorem holder_can_move (rank : α → Option Nat) (S : State α) (hok : StateOK rank S)
    (x : Thread α) (l : α) (m : Mode) (o : Nat) (r : List (Op α)) (hxr : x.rest = .acq l m o :: r)
    (hmax : ∀ y ∈ S, y.rest ≠ [] → wantRank rank y ≤ wantRank rank x)
    (v : Thread α) (hv : v ∈ S) (hvl : v.holds l = true) : v.next S ≠ [] := by
  have hvok := hok v hv
  obtain ⟨e, he, hel⟩ := holdsName_mem v.held l hvl
  -- v holds something, so it is not finished
  have hvne : v.rest ≠ [] := by
    intro hnil
    rw [hnil] at hvok
    have := held_nil_of_violations_nil rank v.held hvok
    rw [this] at he; simp at he
  cases hvr : v.rest with
  | nil => exact absurd hvr hvne
  | cons op r' =>
    cases op with
    | rel l' o' => exact next_ne_nil_of_nonblocking S v (Or.inl ⟨l', o', r', hvr⟩)
    | acq l' m' o' =>
      by_cases hm' : m' = .T
      · subst hm'; exact next_ne_nil_of_nonblocking S v (Or.inr ⟨l', o', r', hvr⟩)
      · -- v is about to block on l', which is strictly above everything v holds, in
        -- particular above l: contradiction with maximality of x
        exfalso
        rw [hvr] at hvok
        obtain ⟨⟨rl', hrl', hall⟩, _, _⟩ := violations_acq rank v.held l' m' o' r' hvok
        have hlt := hall hm' e he
        rw [hel] at hlt
        have hle := hmax v hv hvne
        simp only [wantRank, hvr, hxr, hrl', Option.getD_some] at hle
        unfold rankLt at hlt
        split at hlt
        · rename_i rh hrh
          simp only [hrh, Option.getD_some] at hle
          simp at hlt; omega
        · simp at hlt

/-- **Progress.**  In every state that satisfies the lock-order discipline and still
    has an unfinished thread, some thread can perform its next operation – with the
    writer-preferring blocking predicate. -/
theorem progress (rank : α → Option Nat) (S : State α) (hok : StateOK rank S)
    (hnd : allDone S = false) : ∃ S', Step S S' := by
  -- an unfinished thread exists; take one whose wanted lock has maximal rank
  have hex : ∃ t ∈ S, t.rest ≠ [] := by
    simp only [allDone, Thread.done, List.all_eq_false, List.isEmpty_iff] at hnd
    simpa using hnd
  obtain ⟨x, hx, hxne, hmax⟩ := exists_max (wantRank rank) (fun t : Thread α => t.rest ≠ []) S hex
  suffices h : ∃ t ∈ S, t.next S ≠ [] by
    obtain ⟨t, ht, hne⟩ := h
    obtain ⟨t', ht'⟩ := List.exists_mem_of_ne_nil _ hne
    exact mem_succs_of_next S t t' ht ht'
  cases hxr : x.rest with
  | nil => exact absurd hxr hxne
  | cons op r =>
    cases op with
    | rel l o => exact ⟨x, hx, next_ne_nil_of_nonblocking S x (Or.inl ⟨l, o, r, hxr⟩)⟩
    | acq l m o =>
      cases m with
      | T => exact ⟨x, hx, next_ne_nil_of_nonblocking S x (Or.inr ⟨l, o, r, hxr⟩)⟩
      | W =>
        by_cases hp : x.pending = false
        · -- calling `Lock` (becoming a pending writer) is always possible
          exact ⟨x, hx, by simp [Thread.next, hxr, hp]⟩
        · by_cases hb : anyHolds S l = true
          · simp only [anyHolds, List.any_eq_true] at hb
            obtain ⟨v, hv, hvl⟩ := hb
            exact ⟨v, hv, holder_can_move rank S hok x l .W o r hxr hmax v hv hvl⟩
          · refine ⟨x, hx, ?_⟩
            simp [Thread.next, hxr, blockedOn, hb, hp]
      | R =>
        by_cases hb : anyHoldsExcl S l = true
        · simp only [anyHoldsExcl, List.any_eq_true] at hb
          obtain ⟨v, hv, hvl⟩ := hb
          exact ⟨v, hv, holder_can_move rank S hok x l .R o r hxr hmax v hv (holdsExcl_holds v l hvl)⟩
        · by_cases hw : anyPendingW S l = true
          · -- a pending writer u of l: either nobody holds l and u is granted, or a holder can move
            simp only [anyPendingW, List.any_eq_true] at hw
            obtain ⟨u, hu, hul⟩ := hw
            by_cases hh : anyHolds S l = true
            · simp only [anyHolds, List.any_eq_true] at hh
              obtain ⟨v, hv, hvl⟩ := hh
              exact ⟨v, hv, holder_can_move rank S hok x l .R o r hxr hmax v hv hvl⟩
            · refine ⟨u, hu, ?_⟩
              simp only [Thread.pendingW, Bool.and_eq_true] at hul
              obtain ⟨hup, hul⟩ := hul
              unfold Thread.wantsW at hul
              split at hul
              · rename_i l' o' r' hur
                simp only [decide_eq_true_eq] at hul
                subst hul
                simp [Thread.next, hur, blockedOn, hh, hup]
              · simp at hul
          · refine ⟨x, hx, ?_⟩
            simp [Thread.next, hxr, blockedOn, hb, hw]

/-! ### no deadlocked set, no wait-for cycle -/

/-- a holder of `l` that is about to block on `l'` has `rank l < rank l'` -/
theorem holder_rank_lt (rank : α → Option Nat) (v : Thread α)
    (hvok : violations rank none v.held v.rest = [])
    (l : α) (hvl : v.holds l = true) (l' : α) (m' : Mode) (o' : Nat) (r' : List (Op α))
    (hvr : v.rest = .acq l' m' o' :: r') (hm' : m' ≠ .T) :
    ∃ rl rl', rank l = some rl ∧ rank l' = some rl' ∧ rl < rl' := by
  obtain ⟨e, he, hel⟩ := holdsName_mem v.held l hvl
  rw [hvr] at hvok
  obtain ⟨⟨rl', hrl', hall⟩, _, _⟩ := violations_acq rank v.held l' m' o' r' hvok
  have hlt := hall hm' e he
  rw [hel] at hlt
  unfold rankLt at hlt
  split at hlt
  · rename_i rh hrh
    exact ⟨rh, rl', hrh, hrl', by simpa using hlt⟩
  · simp at hlt

/-- what a wait-for edge says -/
theorem waitsFor_cases (t u : Thread α) (h : waitsFor t u = true) :
    (∃ l o r, t.rest = .acq l .W o :: r ∧ u.holds l = true) ∨
    (∃ l o r, t.rest = .acq l .R o :: r ∧ (u.holds l = true ∨ u.pendingW l = true)) := by
  unfold waitsFor at h
  split at h
  · rename_i l o r hr
    simp only [Bool.and_eq_true] at h
    exact Or.inl ⟨l, o, r, hr, h.2⟩
  · rename_i l o r hr
    simp only [Bool.or_eq_true] at h
    refine Or.inr ⟨l, o, r, hr, ?_⟩
    rcases h with h | h
    · exact Or.inl (holdsExcl_holds u l h)
    · exact Or.inr h
  · simp at h

/-- a thread that waits for another has a blocking acquisition at its head -/
theorem waitsFor_head (t u : Thread α) (h : waitsFor t u = true) :
    ∃ l m o r, t.rest = .acq l m o :: r ∧ m ≠ .T := by
  rcases waitsFor_cases t u h with ⟨l, o, r, hr, _⟩ | ⟨l, o, r, hr, _⟩
  · exact ⟨l, .W, o, r, hr, by decide⟩
  · exact ⟨l, .R, o, r, hr, by decide⟩

/-- **No deadlocked set** (in particular no wait-for cycle): in a state that satisfies the
    discipline there is no non-empty collection `C` of threads in which every member
    waits for a member. -/
theorem no_deadlocked_set (rank : α → Option Nat) (S : State α) (hok : StateOK rank S)
    (C : List (Thread α)) (hne : C ≠ []) (hsub : ∀ t ∈ C, t ∈ S)
    (hwait : ∀ t ∈ C, ∃ u ∈ C, waitsFor t u = true) : False := by
  obtain ⟨x0, hx0⟩ := List.exists_mem_of_ne_nil C hne
  obtain ⟨x, hx, _, hmax⟩ := exists_max (wantRank rank) (fun _ : Thread α => True) C ⟨x0, hx0, trivial⟩
  -- key: a member v of C that holds a lock l with rank l = wantRank x contradicts maximality
  have key : ∀ v ∈ C, ∀ l rl, rank l = some rl → rl = wantRank rank x → v.holds l = true → False := by
    intro v hv l rl hrl hrx hvl
    obtain ⟨w, _, hvw⟩ := hwait v hv
    obtain ⟨l', m', o', r', hvr, hm'⟩ := waitsFor_head v w hvw
    obtain ⟨a, b, ha, hb, hab⟩ := holder_rank_lt rank v (hok v (hsub v hv)) l hvl l' m' o' r' hvr hm'
    have hle := hmax v hv trivial
    have hv' : wantRank rank v = b := by simp [wantRank, hvr, hb]
    rw [hv'] at hle
    rw [hrl] at ha
    simp only [Option.some.injEq] at ha
    omega
  obtain ⟨u, hu, hxu⟩ := hwait x hx
  -- the lock x wants is ranked, and its rank is wantRank x
  have hxrank : ∀ l m o r, x.rest = .acq l m o :: r → ∃ rl, rank l = some rl ∧ rl = wantRank rank x := by
    intro l m o r hr
    have := hok x (hsub x hx)
    rw [hr] at this
    obtain ⟨⟨rl, hrl, _⟩, _, _⟩ := violations_acq rank x.held l m o r this
    exact ⟨rl, hrl, by simp [wantRank, hr, hrl]⟩
  rcases waitsFor_cases x u hxu with ⟨l, o, r, hr, hul⟩ | ⟨l, o, r, hr, hul | hup⟩
  · obtain ⟨rl, hrl, hrx⟩ := hxrank l .W o r hr
    exact key u hu l rl hrl hrx hul
  · obtain ⟨rl, hrl, hrx⟩ := hxrank l .R o r hr
    exact key u hu l rl hrl hrx hul
  · -- u is a pending writer of l; u waits for a holder v of l
    obtain ⟨rl, hrl, hrx⟩ := hxrank l .R o r hr
    obtain ⟨v, hv, huv⟩ := hwait u hu
    simp only [Thread.pendingW, Bool.and_eq_true] at hup
    have hw := hup.2
    unfold Thread.wantsW at hw
    split at hw
    · rename_i l' o' r' hur
      simp only [decide_eq_true_eq] at hw
      subst hw
      rcases waitsFor_cases u v huv with ⟨l2, o2, r2, hr2, hvl⟩ | ⟨l2, o2, r2, hr2, _⟩
      · rw [hur] at hr2
        simp only [List.cons.injEq, Op.acq.injEq, true_and] at hr2
        obtain ⟨⟨h1, _⟩, _⟩ := hr2
        subst h1
        exact key v hv l' rl hrl hrx hvl
      · rw [hur] at hr2
        simp at hr2
    · simp at hw

/-! ### every run is finite -/

theorem length_dropThrough_le (l : α) (r : List (Op α)) : (dropThrough l r).length ≤ r.length := by
  induction r with
  | nil => simp [dropThrough]
  | cons op r ih =>
    cases op with
    | acq _ _ _ => simp only [dropThrough, List.length_cons]; omega
    | rel l' _ =>
      simp only [dropThrough, List.length_cons]
      split <;> omega

theorem measure_lt_aux (p : Bool) (a b : Nat) (h : a ≤ b) :
    (2 * a + if false = true then 0 else 1) < 2 * (b + 1) + if p = true then 0 else 1 := by
  cases p <;> simp <;> omega

theorem next_measure_lt (S : State α) (t t' : Thread α) (h : t' ∈ t.next S) :
    t'.measure < t.measure := by
  unfold Thread.next at h
  split at h
  · simp at h
  · rename_i l m o r hr
    have hd := length_dropThrough_le l r
    split at h
    · simp only [List.mem_append, List.mem_singleton] at h
      rcases h with h | h
      · split at h
        · simp at h
        · simp only [List.mem_singleton] at h; subst h
          simp only [Thread.measure, hr, List.length_cons]
          exact measure_lt_aux _ _ _ (Nat.le_refl _)
      · subst h
        simp only [Thread.measure, hr, List.length_cons]
        exact measure_lt_aux _ _ _ hd
    · split at h
      · rename_i hwp
        simp only [List.mem_singleton] at h; subst h
        simp [Thread.measure, hwp.2]
      · split at h
        · simp at h
        · simp only [List.mem_singleton] at h; subst h
          simp only [Thread.measure, hr, List.length_cons]
          exact measure_lt_aux _ _ _ (Nat.le_refl _)
  · rename_i l o r hr
    simp only [List.mem_singleton] at h; subst h
    simp only [Thread.measure, hr, List.length_cons]
    exact measure_lt_aux _ _ _ (Nat.le_refl _)

omit [DecidableEq α] in
theorem sum_map_set_lt (S : State α) (i : Nat) (t t' : Thread α) (hi : S[i]? = some t)
    (hlt : t'.measure < t.measure) : measure (S.set i t') < measure S := by
  unfold measure
  induction S generalizing i with
  | nil => simp at hi
  | cons a S ih =>
    cases i with
    | zero =>
      simp only [List.getElem?_cons_zero, Option.some.injEq] at hi
      subst hi
      simp only [List.set_cons_zero, List.map_cons, List.sum_cons]; omega
    | succ i =>
      simp only [List.getElem?_cons_succ] at hi
      have := ih i hi
      simp only [List.set_cons_succ, List.map_cons, List.sum_cons]; omega

theorem step_measure_lt (S S' : State α) (h : Step S S') : measure S' < measure S := by
  obtain ⟨i, t, t', hi, ht', rfl⟩ := succs_elim S S' h
  exact sum_map_set_lt S i t t' hi (next_measure_lt S t t' ht')

/-- a run of exactly `n` steps -/
inductive Run : State α → Nat → State α → Prop
  | nil (S) : Run S 0 S
  | cons {S S' S'' n} : Step S S' → Run S' n S'' → Run S (n + 1) S''

theorem run_measure (S S' : State α) (n : Nat) (h : Run S n S') : measure S' + n ≤ measure S := by
  induction h with
  | nil => simp
  | cons hs _ ih => have := step_measure_lt _ _ hs; omega

theorem run_reach (S₀ S S' : State α) (n : Nat) (hr : Reach S₀ S) (h : Run S n S') : Reach S₀ S' := by
  induction h with
  | nil => exact hr
  | cons hs _ ih => exact ih (Reach.step hr hs)

/-! ### schedules (for the witnesses) -/

theorem exec1_step (S S' : State α) (i : Nat) (h : exec1 S i = some S') : Step S S' := by
  unfold exec1 at h
  split at h
  · simp at h
  · rename_i t ht
    split at h
    · simp at h
    · rename_i t' r hn
      simp only [Option.some.injEq] at h
      subst h
      unfold Step succs
      rw [List.mem_flatMap]
      have hi : i < S.length := by
        rcases Nat.lt_or_ge i S.length with h | h
        · exact h
        · simp [List.getElem?_eq_none h] at ht
      refine ⟨i, by simpa using hi, ?_⟩
      simp only [ht]
      exact List.mem_map.mpr ⟨t', by simp [hn], rfl⟩

theorem execSchedule_reach (S₀ S S' : State α) (sched : List Nat) (hr : Reach S₀ S)
    (h : execSchedule S sched = some S') : Reach S₀ S' := by
  induction sched generalizing S with
  | nil => simp only [execSchedule, Option.some.injEq] at h; subst h; exact hr
  | cons i is ih =>
    simp only [execSchedule] at h
    split at h
    · simp at h
    · rename_i S1 h1
      exact ih S1 (Reach.step hr (exec1_step S S1 i h1)) h

/-! ### instantiating a class-level script with concrete keys -/

def Viol.map {β : Type} (f : α → β) (v : Viol α) : Viol β := ⟨v.origin, v.kind, f v.lock, v.held.map f⟩

section Map
variable {β : Type} [DecidableEq β] (f : α → β) (hinj : ∀ a b, f a = f b → a = b)
include hinj

theorem holdsName_map (held : List (α × Mode)) (l : α) :
    holdsName (held.map (fun h => (f h.1, h.2))) (f l) = holdsName held l := by
  induction held with
  | nil => rfl
  | cons h t ih =>
    simp only [holdsName, List.map_cons, List.any_cons] at ih ⊢
    rw [ih]
    congr 1
    by_cases hh : h.1 = l
    · simp [hh]
    · have : f h.1 ≠ f l := fun e => hh (hinj _ _ e)
      simp [hh, this]

theorem release_map (held : List (α × Mode)) (l : α) :
    release (f l) (held.map (fun h => (f h.1, h.2))) = (release l held).map (fun h => (f h.1, h.2)) := by
  induction held with
  | nil => rfl
  | cons h t ih =>
    simp only [release, List.map_cons]
    by_cases hh : h.1 = l
    · simp [hh]
    · have : f h.1 ≠ f l := fun e => hh (hinj _ _ e)
      simp [hh, this, ih]

omit [DecidableEq α] [DecidableEq β] hinj in
theorem acqViolations_map (rank : α → Option Nat) (rank' : β → Option Nat) (hr : ∀ a, rank' (f a) = rank a)
    (held : List (α × Mode)) (l : α) (m : Mode) (o : Nat) :
    acqViolations rank' (held.map (fun h => (f h.1, h.2))) (f l) m o
      = (acqViolations rank held l m o).map (Viol.map f) := by
  unfold acqViolations
  rw [hr l]
  cases rank l with
  | none => simp [Viol.map]
  | some rl =>
    by_cases hm : m = .T
    · simp [hm]
    · simp only [hm, if_false, List.filter_map, List.map_map]
      have hp : ((fun h : β × Mode => !rankLt rank' h.fst rl) ∘ fun h : α × Mode => (f h.fst, h.snd))
          = (fun h : α × Mode => !rankLt rank h.fst rl) := by
        funext h; simp [rankLt, hr]
      rw [hp]
      apply List.map_congr_left
      intro h _
      simp [Viol.map]

theorem violations_map (rank : α → Option Nat) (rank' : β → Option Nat) (hr : ∀ a, rank' (f a) = rank a)
    (skip : Option α) (held : List (α × Mode)) (s : List (Op α)) :
    violations rank' (skip.map f) (held.map (fun h => (f h.1, h.2))) (s.map (Op.map f))
      = (violations rank skip held s).map (Viol.map f) := by
  induction s generalizing skip held with
  | nil =>
    cases skip <;> simp [violations, List.map_map, Viol.map, Function.comp_def]
  | cons op s ih =>
    cases skip with
    | some sk =>
      cases op with
      | acq l m o => simpa [violations, Op.map] using ih (some sk) held
      | rel l o =>
        simp only [Option.map_some, List.map_cons, Op.map, violations]
        by_cases hl : l = sk
        · subst hl; simpa using ih none held
        · have : f l ≠ f sk := fun e => hl (hinj _ _ e)
          simpa [hl, this] using ih (some sk) held
    | none =>
      cases op with
      | acq l m o =>
        simp only [Option.map_none, List.map_cons, Op.map, violations, List.map_append]
        have h1 := ih none ((l, m) :: held)
        have h2 := ih (some l) held
        simp only [Option.map_none, Option.map_some, List.map_cons] at h1 h2
        rw [acqViolations_map f rank rank' hr, h1]
        by_cases hm : m = .T
        · simp [hm, h2]
        · simp [hm]
      | rel l o =>
        simp only [Option.map_none, List.map_cons, Op.map, violations, List.map_append]
        have h1 := ih none (release l held)
        simp only [Option.map_none] at h1
        rw [holdsName_map f hinj, release_map f hinj, h1]
        by_cases hh : holdsName held l = true
        · simp [hh]
        · simp [hh, Viol.map]

end Map

end Yorkie.Locks
