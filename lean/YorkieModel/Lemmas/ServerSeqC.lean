/-
Helper lemmas for C10: the client-sequence invariant of C04 (`SInv`, Lemmas/ServerSeq.lean) restated
so that it survives compactions – `SInvC` – and re-proved for every request.  A compaction removes
the rows of every generation; a client of the old generation keeps its stored client sequence but
can never add a row again.  What stays true of the CURRENT log, and is all the property needs, is:
the rows of one actor and one attachment generation carry CONSECUTIVE client sequences in log order
(`runs`), and for an open attachment they are the LAST ones up to its stored client sequence (`cur`).
The proofs follow Lemmas/ServerSeq.lean line by line; only `SInvC.trans` does new arithmetic.
-/
import YorkieModel.Lemmas.ServerGenC
namespace Yorkie.Server
open Yorkie

structure SInvC (s : Server) : Prop where
  /-- per actor and generation: consecutive client sequences, in log order (no gap, no duplicate, no
  reordering) -/
  runs : ∀ c d g, c ≠ initialActorNo → dpOf s d = false → ∃ a k, csOf (ownRows s d c g) = List.range' a k
  /-- … and for the current generation of an open attachment they are the last `k` client sequences up
  to the stored one -/
  cur : ∀ c d cd, c ≠ initialActorNo → dpOf s d = false → entryOf s c d = some cd → isOpenSt cd.status = true →
    ∃ k, k ≤ cd.clientSeq ∧ csOf (ownRows s d c cd.gen) = List.range' (cd.clientSeq + 1 - k) k

theorem SInvC.init (cfg : Config) : SInvC (Server.init cfg) :=
  ⟨fun _ _ _ _ _ => ⟨1, 0, by simp [csOf, ownRows, storedLog, Server.findDoc, Server.init]⟩,
   fun _ _ _ _ _ h => by simp [entryOf, Server.init] at h⟩

theorem SInvC.of_eq {s s' : Server} (h : SInvC s) (hl : ∀ d, storedLog s' d = storedLog s d)
    (he : ∀ c d, entryOf s' c d = entryOf s c d) (hdp : ∀ d, dpOf s' d = false → dpOf s d = false) : SInvC s' :=
  ⟨fun c d g hn hd => by simp only [ownRows, hl]; exact h.runs c d g hn (hdp d hd),
   fun c d cd hn hd hcd ho => by simp only [ownRows, hl]; rw [he] at hcd; exact h.cur c d cd hn (hdp d hd) hcd ho⟩

/-- the generic transition: client `c` appends its own rows `P` (generation `e'.gen`) to `d`, its entry
becomes `e'`.  If `P` is not empty the attachment was open and `P` continues its numbering. -/
theorem SInvC.trans {s s' : Server} (h : SInvC s) (c : ClientId) (d : DocId) (P : List Row) (e' : ClientDoc)
    (hlog : storedLog s' d = storedLog s d ++ P) (hother : ∀ d', d' ≠ d → storedLog s' d' = storedLog s d')
    (hdp : ∀ d', dpOf s' d' = false → dpOf s d' = false)
    (hP : ∀ r ∈ P, r.actor = c ∧ r.gen = e'.gen)
    (hent : entryOf s' c d = some e')
    (hents : ∀ c' d', (c' ≠ c ∨ d' ≠ d) → entryOf s' c' d' = entryOf s c' d')
    (hold : dpOf s' d = false →
      (∃ cd0, entryOf s c d = some cd0 ∧ isOpenSt cd0.status = true ∧ cd0.gen = e'.gen ∧
          csOf P = List.range' (cd0.clientSeq + 1) P.length ∧
          (isOpenSt e'.status = true → e'.clientSeq = cd0.clientSeq + P.length)) ∨
      (P = [] ∧ ((∃ cd0, entryOf s c d = some cd0 ∧ cd0.gen = e'.gen ∧
                    (isOpenSt e'.status = true → isOpenSt cd0.status = true ∧ e'.clientSeq = cd0.clientSeq)) ∨
                 (e'.clientSeq = 0 ∧ ∀ r ∈ storedLog s d, r.actor = c → r.gen < e'.gen)))) : SInvC s' := by
  -- appending a continuation to the last `k` sequences
  have happ : ∀ (n k : Nat), k ≤ n → List.range' (n + 1 - k) k ++ List.range' (n + 1) P.length =
      List.range' (n + P.length + 1 - (k + P.length)) (k + P.length) := by
    intro n k hk
    have e1 : List.range' (n + 1) P.length = List.range' ((n + 1 - k) + k) P.length := by
      congr 1; omega
    have e2 : n + P.length + 1 - (k + P.length) = n + 1 - k := by omega
    rw [e1, e2, List.range'_append_1]
  -- rows of (c, e'.gen) in `d` after the step
  have hcur : c ≠ initialActorNo → dpOf s' d = false → isOpenSt e'.status = true →
      ∃ k, k ≤ e'.clientSeq ∧ csOf (ownRows s' d c e'.gen) = List.range' (e'.clientSeq + 1 - k) k := by
    intro hn hd ho
    rw [ownRows_append_same hlog, filter_byGen_all hP]
    rcases hold hd with ⟨cd0, hcd0, ho0, hg0, hcs, hecs⟩ | ⟨hPn, hcase⟩
    · obtain ⟨k, hk, hrows⟩ := h.cur c d cd0 hn (hdp d hd) hcd0 ho0
      rw [hg0] at hrows
      refine ⟨k + P.length, by rw [hecs ho]; omega, ?_⟩
      simp only [csOf, List.map_append] at hrows ⊢
      rw [hrows, show List.map (fun x => x.clientSeq) P = csOf P from rfl, hcs, hecs ho]
      exact happ cd0.clientSeq k hk
    · rw [hPn, List.append_nil]
      rcases hcase with ⟨cd0, hcd0, hg0, hop⟩ | ⟨hz, hnew⟩
      · obtain ⟨ho0, hecs⟩ := hop ho
        rw [← hg0, hecs]; exact h.cur c d cd0 hn (hdp d hd) hcd0 ho0
      · refine ⟨0, Nat.zero_le _, ?_⟩
        have : ownRows s d c e'.gen = [] := by
          simp only [ownRows]; rw [List.filter_eq_nil_iff]; intro r hr
          simp only [byGen, Bool.and_eq_true, beq_iff_eq, not_and]
          intro ha hg; have := hnew r hr ha; omega
        simp [this, csOf]
  refine ⟨?_, ?_⟩
  · intro c' d' g hn hd
    by_cases hdd : d' = d
    · subst hdd
      rw [ownRows_append_same hlog]
      by_cases ht : c' = c ∧ g = e'.gen
      · obtain ⟨hc, hg⟩ := ht
        subst hc; subst hg
        rw [filter_byGen_all hP]
        rcases hold hd with ⟨cd0, hcd0, ho0, hg0, hcs, _⟩ | ⟨hPn, _⟩
        · obtain ⟨k, hk, hrows⟩ := h.cur c' d' cd0 hn (hdp d' hd) hcd0 ho0
          rw [hg0] at hrows
          refine ⟨cd0.clientSeq + P.length + 1 - (k + P.length), k + P.length, ?_⟩
          simp only [csOf, List.map_append] at hrows ⊢
          rw [hrows, show List.map (fun x => x.clientSeq) P = csOf P from rfl, hcs]
          exact happ cd0.clientSeq k hk
        · rw [hPn, List.append_nil]; exact h.runs c' d' e'.gen hn (hdp d' hd)
      · have hne : c' ≠ c ∨ g ≠ e'.gen := by
          by_cases hc : c' = c
          · exact Or.inr (fun hg => ht ⟨hc, hg⟩)
          · exact Or.inl hc
        rw [filter_byGen_none hP hne, List.append_nil]; exact h.runs c' d' g hn (hdp d' hd)
    · simp only [ownRows, hother d' hdd]; exact h.runs c' d' g hn (hdp d' hd)
  · intro c' d' cd hn hd hcd ho
    by_cases ht : c' = c ∧ d' = d
    · obtain ⟨hc, hdd⟩ := ht
      subst hc; subst hdd
      rw [hent] at hcd; injection hcd with hcd; subst hcd
      exact hcur hn hd ho
    · have hne : c' ≠ c ∨ d' ≠ d := by
        by_cases hc : c' = c
        · exact Or.inr (fun hd => ht ⟨hc, hd⟩)
        · exact Or.inl hc
      rw [hents c' d' hne] at hcd
      by_cases hdd : d' = d
      · subst hdd
        have hcne : c' ≠ c := by
          rcases hne with hne | hne
          · exact hne
          · exact absurd rfl hne
        rw [ownRows_append_same hlog, filter_byGen_none hP (Or.inl hcne), List.append_nil]
        exact h.cur c' d' cd hn (hdp d' hd) hcd ho
      · simp only [ownRows, hother d' hdd]; exact h.cur c' d' cd hn (hdp d' hd) hcd ho

/-- One `PushPull` of an honest flight whose attachment is open keeps the numbering invariant. -/
theorem sinv_pushPullC {s s' : Server} {f : Flight} {x : Except ErrKind Flight} (h : SInvC s)
    (hpp : pushPull s f = (s', x)) {loaded : Client} (hc : s.findClient f.client = some loaded)
    (hhon : (∀ x ∈ f.pack.changes, x.actor = f.client) ∨ (∀ p, pushGuard s (stripped f) = .ok p → p = []))
    (hfdp : ∀ doc, s.findDoc f.doc = some doc → f.disablePresence = doc.disablePresence)
    {cd0 cdS : ClientDoc} (hcd0 : f.info.docs.get? f.doc = some cd0) (hcdS : loaded.docs.get? f.doc = some cdS)
    (hgen : cdS.gen = cd0.gen) (hcs : cdS.clientSeq = cd0.clientSeq)
    (hopenS : isOpenSt cdS.status = true) (hopen0 : isOpenSt cd0.status = true)
    (hatt : f.status = .attached → cd0.status = .attached) (hact : f.info.activated = true) : SInvC s' := by
  have hentS : entryOf s f.client f.doc = some cdS := by rw [entryOf_findClient hc]; exact hcdS
  cases x with
  | ok f' =>
    have hp := pushPull_ppok hpp
    obtain ⟨cd0', loaded', doc, p, vv, hcd0', hl, hfd, hguard, _, hent, hdocs, _, _, _⟩ := ppok_target hp
    rw [hcd0] at hcd0'; injection hcd0' with hcd0'; subst hcd0'
    rw [hc] at hl; injection hl with hl; subst hl
    obtain ⟨doc2, p2, _, _, _, r2, _, hfd2, _, hcont, hg2, hpull2, _, _, _, _, _, _, _, _, hcp2, _⟩ := hp.ex
    rw [hfd] at hfd2; injection hfd2 with hfd2; subst hfd2
    rw [hguard] at hg2; injection hg2 with hg2; subst hg2
    have hcpcs : f'.resp.cp.clientSeq = (pushedFlight doc (stripped f) p).cpAfterPush.clientSeq := by
      rw [hcp2]; exact pullPackResp_cp_clientSeq hpull2
    have hrows : ∀ r ∈ pushedRows doc (stripped f) p, r.actor = f.client ∧ r.gen = cd0.gen ∧
        r.clientSeq ≤ (pushedFlight doc (stripped f) p).cpAfterPush.clientSeq := by
      rcases hhon with hhon | hno
      · exact pushedRows_spec (doc := doc) hguard hhon hcd0
      · have := hno p hguard; subst this
        intro r hr; simp [pushedRows, assignSeqs] at hr
    have hcp0 : (f.info.checkpoint f.doc).clientSeq = cd0.clientSeq := by simp [Client.checkpoint, hcd0]
    have sp := assignSeqs_spec ((stripped f).info.genOf (stripped f).doc) doc.serverSeq
      ((stripped f).info.checkpoint (stripped f).doc) p
    simp only [] at sp
    obtain ⟨_, _, q3, q4, _, _⟩ := sp
    have hdpeq : ∀ d', dpOf s' d' = dpOf s d' := dpOf_docs_set hfd hdocs rfl
    refine h.trans f.client f.doc (pushedRows doc (stripped f) p)
      (persistEntry (statusEntry f.status cd0 f'.resp.cp) loaded f.doc) ?_ ?_ (fun d' hd' => by rw [← hdpeq]; exact hd')
      ?_ hent ?_ ?_
    · rw [storedLog_docs_set hdocs, if_pos rfl, storedLog_findDoc hfd]; rfl
    · intro d' hd'; rw [storedLog_docs_set hdocs, if_neg (Ne.symm hd')]
    · intro r hr
      obtain ⟨h1, h2, _⟩ := hrows r hr
      refine ⟨h1, ?_⟩
      rw [h2]; cases hs : f.status <;> simp [persistEntry, statusEntry, mergeClientDoc] <;> split <;> rfl
    · intro c' d' hne; exact pushPull_entries_other hpp hc c' d' hne
    · intro hdpd
      -- the document keeps presence, so nothing was stripped
      have hdocdp : doc.disablePresence = false := by
        have := hdpeq f.doc; rw [hdpd] at this; simpa [dpOf, hfd] using this.symm
      have hstr : stripped f = f := stripped_of_not_dp (by rw [hfdp doc hfd]; exact hdocdp)
      rw [hstr] at hguard hrows q3 q4 hcpcs ⊢
      -- the pushed client sequences continue the stored numbering
      have hpcs : p.map (·.clientSeq) = List.range' (cd0.clientSeq + 1) p.length := by
        rcases pushGuard_cases hguard with hp0 | hp0
        · rw [hp0]; simp
        · rw [hp0]; simp only [pushablesOf, hcp0]
          have := pushable_consecutive cd0.clientSeq (cd0.clientSeq + 1) f.pack.changes (by omega)
            (by rw [hcp0] at hcont; exact hcont)
          exact this
      have hlen : (pushedRows doc f p).length = p.length := q3
      refine Or.inl ⟨cdS, hentS, hopenS, ?_, ?_, ?_⟩
      · rw [hgen]; cases hs : f.status <;> simp [persistEntry, statusEntry, mergeClientDoc] <;> split <;> rfl
      · rw [hlen, hcs]
        show List.map (fun x => x.clientSeq) (pushedRows doc f p) = _
        simp only [pushedRows]; rw [q4]; exact hpcs
      · intro ho
        cases hs : f.status with
        | attached =>
          have hst := hatt hs
          have hex := assignSeqs_cp_exact (f.info.genOf f.doc) doc.serverSeq (f.info.checkpoint f.doc) p
            (by rw [hcp0]; exact hpcs)
          simp only [persistEntry, statusEntry, hst, beq_self_eq_true, if_true, mergeClientDoc, hcdS,
            Option.getD_some, hlen]
          rw [hcpcs]
          simp only [pushedFlight]
          rw [hex, hcp0, hcs]; omega
        | detached => rw [hs] at ho; simp [persistEntry, statusEntry, isOpenSt] at ho
        | removed => rw [hs] at ho; simp [persistEntry, statusEntry, isOpenSt] at ho
  | error e =>
    have hcl := (pushPull_err hpp hc).1
    rcases pushPull_error_log hpp hc with hl | ⟨cp, hu⟩
    · refine h.of_eq hl (fun c d => entryOf_of_clients_eq hcl c d) ?_
      intro d hd
      obtain ⟨_, _, _, _, hdocs⟩ := pushPull_err hpp hc
      rcases hdocs with hdd | ⟨doc, p, hfd, _, hdd⟩
      · simp only [dpOf, Server.findDoc, hdd] at hd ⊢; exact hd
      · rw [dpOf_docs_set hfd hdd rfl] at hd; exact hd
    · exfalso
      obtain ⟨i', hi'⟩ := updateDocStatus_no_error (st := f.status) (cp := cp) hact hcd0 (fun _ => hopen0)
      rw [hi'] at hu; simp at hu

theorem sinv_markAttachingC {s : Server} (h : SInvC s) (hG : GInvC s) {c : ClientId} {d : DocId} {i : Client}
    (hi : s.findClient c = some i) (hcn : c ≠ initialActorNo) : SInvC (s.setClient c (i.markAttaching d)) := by
  have hent : entryOf (s.setClient c (i.markAttaching d)) c d = some (attachingEntry i d) := by
    rw [entryOf_setClient, if_pos rfl]; simp [Client.markAttaching, AL.get?_set_self, attachingEntry]
  refine h.trans c d [] (attachingEntry i d) (by simp [storedLog, Server.setClient, Server.findDoc])
    (fun d' _ => by simp [storedLog, Server.setClient, Server.findDoc])
    (fun d' hd' => by simpa [dpOf, Server.findDoc, Server.setClient] using hd') (by simp) hent ?_ ?_
  · intro c' d' hne
    rw [entryOf_setClient]
    by_cases hc : c = c'
    · rw [if_pos hc, ← hc, entryOf_findClient hi]
      have hd : d ≠ d' := by
        rcases hne with hne | hne
        · exact absurd hc.symm hne
        · exact fun h => hne h.symm
      simp only [Client.markAttaching, AL.get?_set, hd, if_false]
    · rw [if_neg hc]
  · intro _
    refine Or.inr ⟨rfl, Or.inr ⟨rfl, ?_⟩⟩
    intro r hr ha
    obtain ⟨cd, hcd, hle⟩ := hG.g1 c d r hr ha hcn
    rw [entryOf_findClient hi] at hcd
    simp only [attachingEntry, Client.nextGen, hcd]
    omega

theorem sinv_clientsAttachC {s s' : Server} {c : ClientId} {info : Client} {d : DocId} {e : Int} {b : Bool}
    {x : Except ErrKind Client} (h : SInvC s) (hG : GInvC s) (hca : clientsAttach s c info d e b = (s', x))
    (hcn : c ≠ initialActorNo) : SInvC s' := by
  have hx : s' = s ∨ ∃ i, s.findClient c = some i ∧ s' = s.setClient c (i.markAttaching d) := by
    cases x with
    | error err =>
      rcases clientsAttach_error hca with e1 | ⟨i, hi, _, e1⟩
      · exact Or.inl e1
      · exact Or.inr ⟨i, hi, e1⟩
    | ok info2 =>
      obtain ⟨info1, _, _, _, hcase⟩ := clientsAttach_ok hca
      rcases hcase with ⟨_, e1, _⟩ | ⟨_, i, hi, _, _, _, e1⟩
      · exact Or.inl e1
      · exact Or.inr ⟨i, hi, e1⟩
  rcases hx with e1 | ⟨i, hi, e1⟩
  · subst e1; exact h
  · subst e1; exact sinv_markAttachingC h hG hi hcn

theorem sinv_attachWithC {s1 s' : Server} {c : ClientId} {info : Client} {d : DocId} {pack : Pack} {nogc : Bool}
    {out : Except ErrKind Resp} (h : SInvC s1) (hG : GInvC s1) (haw : attachWith s1 c info d pack nogc = (s', out))
    (hc : s1.findClient c = some info) (ha : info.activated = true)
    (hhon : ∀ x ∈ pack.changes, x.actor = c) (hcn : c ≠ initialActorNo) : SInvC s' := by
  rcases attachWith_inv haw with ⟨_, e1, _⟩ | ⟨doc, hd1, hcase⟩
  · subst e1; exact h
  · rcases hcase with ⟨e, hca, _⟩ | ⟨s2, info2, hca, hpp⟩
    · exact sinv_clientsAttachC h hG hca hcn
    · have h2 := sinv_clientsAttachC h hG hca hcn
      have hG2 := ginv_clientsAttachC hG hca hcn
      obtain ⟨info1, hi2, hst1, _, hcase⟩ := clientsAttach_ok hca
      have hl2 : s2.findClient c = some info1 ∧ info1.activated = true := by
        rcases hcase with ⟨_, e1, e2⟩ | ⟨_, i, hi, hact, _, e2, e1⟩
        · rw [e1, e2]; exact ⟨hc, ha⟩
        · rw [e1, e2]; exact ⟨by simp [Server.findClient, Server.setClient, AL.get?_set_self], hact⟩
      obtain ⟨cdS, hcdS, hsS⟩ := statusOf_some hst1
      have hentS : entryOf s2 c d = some cdS := by rw [entryOf_findClient hl2.1]; exact hcdS
      have hcs0 : cdS.clientSeq = 0 := hG2.g3 _ _ _ hentS (by rw [hsS]; simp)
      have hcd0 : info2.docs.get? d = some (attachedEntry info1 d doc.epoch) := by
        rw [hi2]; exact AL.get?_set_self _ _ _
      have hd2 : s2.findDoc d = some doc := by
        simp only [Server.findDoc] at hd1 ⊢; rw [clientsAttach_docs' hca]; exact hd1
      have key : ∀ {x : Except ErrKind Flight},
          pushPull s2 (mkFlight c d info2 pack false .attached nogc doc.disablePresence) = (s', x) → SInvC s' := by
        intro x hx
        refine sinv_pushPullC h2 hx (loaded := info1) (by simpa using hl2.1) (Or.inl (by simpa using hhon)) ?_
          (cd0 := attachedEntry info1 d doc.epoch) (cdS := cdS) (by simpa using hcd0) (by simpa using hcdS)
          ?_ ?_ ?_ ?_ ?_ ?_
        · intro doc' hd'
          simp only [mkFlight_doc] at hd'
          rw [hd2] at hd'; injection hd' with hd'; subst hd'; rfl
        · simp [attachedEntry, genOf_of_get? hcdS]
        · rw [hcs0]; rfl
        · simp [isOpenSt, hsS]
        · simp [attachedEntry, isOpenSt]
        · intro _; rfl
        · simp only [mkFlight_info]; rw [hi2]; exact hl2.2
      rcases hpp with ⟨f', hpp, _⟩ | ⟨e, hpp, _⟩
      · exact key hpp
      · exact key hpp

theorem sinv_clusterDetachC {s s' : Server} {c : ClientId} {d : DocId} {x : Except ErrKind Unit} (h : SInvC s)
    (hcd : clusterDetach s c d = (s', x)) (hop : holds s c d = true) : SInvC s' := by
  unfold clusterDetach at hcd
  split at hcd
  · injection hcd with h1 _; subst h1; exact h
  · next info hi =>
    obtain ⟨hcl, hact⟩ := findActiveClient_ok hi
    split at hcd
    · injection hcd with h1 _; subst h1; exact h
    · split at hcd
      · injection hcd with h1 _; subst h1; exact h
      · next doc hd =>
        simp only [holds, entryOf_findClient hcl] at hop
        cases hcdE : info.docs.get? d with
        | none => rw [hcdE] at hop; simp at hop
        | some cd =>
          rw [hcdE] at hop
          have hne := detachMode_status_ne' s c d (clusterPack c (info.checkpoint d))
          have hhon : ∀ x ∈ (detachMode s c d (clusterPack c (info.checkpoint d))).1.changes, x.actor = c := by
            rw [(detachMode_pack s c d _).2]
            intro x hx
            simp only [clusterPack, List.mem_singleton] at hx
            rw [hx]; rfl
          have key : ∀ {y : Except ErrKind Flight},
              pushPull s (mkFlight c d info (detachMode s c d (clusterPack c (info.checkpoint d))).1 true
                (detachMode s c d (clusterPack c (info.checkpoint d))).2 false doc.disablePresence) = (s', y) → SInvC s' := by
            intro y hy
            refine sinv_pushPullC h hy (loaded := info) (by simpa using hcl) (Or.inl (by simpa using hhon)) ?_
              (cd0 := cd) (cdS := cd) (by simpa using hcdE) (by simpa using hcdE) rfl rfl hop hop
              (by simpa using fun hx => absurd hx hne) (by simpa using hact)
            intro doc' hd'
            simp only [mkFlight_doc] at hd'
            rw [hd] at hd'; injection hd' with hd'; subst hd'; rfl
          split at hcd
          · next s2 f' hpp => injection hcd with h1 _; subst h1; exact key hpp
          · next s2 e hpp => injection hcd with h1 _; subst h1; exact key hpp

theorem gs_clusterDetachAllC (c : ClientId) (s : Server) (hG : GInvC s) (h : SInvC s) (ds : List DocId)
    (hnd : ds.Nodup) (hop : ∀ d ∈ ds, holds s c d = true) :
    GInvC (clusterDetachAll c s ds).1 ∧ SInvC (clusterDetachAll c s ds).1 := by
  induction ds generalizing s with
  | nil => exact ⟨hG, h⟩
  | cons d r ih =>
    have hopd := hop d (List.mem_cons_self ..)
    have hex : (entryOf s c d).isSome = true := by
      simp only [holds] at hopd
      cases he : entryOf s c d with
      | none => rw [he] at hopd; simp at hopd
      | some cd => rfl
    unfold clusterDetachAll
    split
    · next s' _ hcd =>
      refine ih s' (ginv_clusterDetachC hG hcd hex) (sinv_clusterDetachC h hcd hopd) (List.nodup_cons.mp hnd).2 ?_
      intro d' hd'
      have hne : d' ≠ d := fun hx => (List.nodup_cons.mp hnd).1 (hx ▸ hd')
      simp only [holds, clusterDetach_entries_other hcd c d' (Or.inr hne)]
      exact hop d' (List.mem_cons_of_mem _ hd')
    · next s' e hcd => exact ⟨ginv_clusterDetachC hG hcd hex, sinv_clusterDetachC h hcd hopd⟩

/-- every well-behaved request keeps both the generation and the numbering invariant -/
theorem gs_stepC (s : Server) (hw : WF s) (hG : GInvC s) (h : SInvC s) (req : Request) (hhon : honestReq req = true)
    (hcl : closerHolds s req = true) (hcn : attacherOk req) : SInvC (step s req).1 := by
  cases req with
  | activate =>
    have est := step_estep s hw .activate
    refine h.of_eq (fun d => by simp [step, activate, storedLog, Server.findDoc]) ?_
      (fun d hd => by simpa [step, activate, dpOf, Server.findDoc] using hd)
    intro c d
    rcases est c d with e | t | ⟨cd, hc, hcl⟩
    · exact e
    · exact t.elim
    · simp only [step, activate, entryOf, AL.get?_set]
      by_cases hn : s.nextClient = c
      · subst hn
        cases hs : s.clients.get? s.nextClient with
        | none => simp [AL.get?]
        | some x => exact absurd (hw.clients _ _ hs) (Nat.lt_irrefl _)
      · simp [hn]
  | deactivate c order =>
    simp only [step]
    unfold deactivate
    split
    · exact h
    · next info hi =>
      obtain ⟨hcl', _⟩ := findActiveClient_ok hi
      split
      · exact h
      · have h1 := (gs_clusterDetachAllC c s hG h (openDocs info order) (openDocs_nodup info order) (by
          intro d hd
          have := mem_openDocs hd
          simp only [holds, entryOf_findClient hcl']
          simp only [isOpenAt] at this
          cases hg : info.docs.get? d with
          | none => rw [hg] at this; simp at this
          | some cd => rw [hg] at this; simpa [isOpenSt] using this)).2
        split
        · next s' e hx => rw [hx] at h1; exact h1
        · next s' _ hx =>
          rw [hx] at h1
          exact h1.of_eq (fun d => by simp only [storedLog, Server.findDoc, dbDeactivate_docs])
            (fun c' d' => dbDeactivate_entries s' c c' d')
            (fun d hd => by rw [dpOf_of_docs_eq (dbDeactivate_docs s' c)] at hd; exact hd)
  | attach c key pack dp nogc =>
    simp only [step]
    generalize ha : attach s c key pack dp nogc = res
    obtain ⟨s', out⟩ := res
    rcases attach_inv ha with ⟨e1, _⟩ | ⟨info, hi, hact, haw⟩
    · subst e1; exact h
    · have hG1 : GInvC (findOrCreateDoc s key dp).1 :=
        hG.of_eq (fun d => (findOrCreateDoc_sameDoc s hw key dp d).1)
          (fun c' d' => entryOf_of_clients_eq (findOrCreateDoc_clients s key dp).1 c' d')
      have h1 : SInvC (findOrCreateDoc s key dp).1 :=
        h.of_eq (fun d => (findOrCreateDoc_sameDoc s hw key dp d).1)
          (fun c' d' => entryOf_of_clients_eq (findOrCreateDoc_clients s key dp).1 c' d')
          (fun d hd => dpOf_findOrCreateDoc s hw key dp d hd)
      exact sinv_attachWithC h1 hG1 haw (by rw [findOrCreateDoc_findClient]; exact hi) hact (honest_all hhon) hcn
  | pushpull c d pack po nogc =>
    simp only [step]
    generalize ha : pushpullReq s c d pack po nogc = res
    obtain ⟨s', out⟩ := res
    rcases pushpullReq_inv ha with ⟨e1, _⟩ | ⟨info, doc, hi, hact, hst, hd, hf⟩
    · subst e1; exact h
    · obtain ⟨x, hx⟩ := finish_inv hf
      obtain ⟨cd, hcd, hs⟩ := statusOf_some hst
      refine sinv_pushPullC h hx (loaded := info) (by simpa using hi) (Or.inl (by simpa using honest_all hhon)) ?_
        (cd0 := cd) (cdS := cd) (by simpa using hcd) (by simpa using hcd) rfl rfl (by simp [isOpenSt, hs])
        (by simp [isOpenSt, hs]) (by simpa using hs) (by simpa using hact)
      intro doc' hd'
      simp only [mkFlight_doc] at hd'
      rw [hd] at hd'; injection hd' with hd'; subst hd'; rfl
  | detach c d pack =>
    simp only [step]
    generalize ha : detach s c d pack = res
    obtain ⟨s', out⟩ := res
    rcases detach_inv ha with ⟨e1, _⟩ | ⟨info, doc, hi, hact, _, hd, hf⟩
    · subst e1; exact h
    · obtain ⟨x, hx⟩ := finish_inv hf
      simp only [closerHolds, holds, entryOf_findClient hi] at hcl
      cases hcd : info.docs.get? d with
      | none => rw [hcd] at hcl; simp at hcl
      | some cd =>
        rw [hcd] at hcl
        have hne := detachMode_status_ne' s c d pack
        refine sinv_pushPullC h hx (loaded := info) (by simpa using hi)
          (Or.inl (by simp only [mkFlight_pack, mkFlight_client]; rw [(detachMode_pack s c d pack).2]; exact honest_all hhon)) ?_
          (cd0 := cd) (cdS := cd) (by simpa using hcd) (by simpa using hcd) rfl rfl hcl hcl
          (by simpa using fun hx => absurd hx hne) (by simpa using hact)
        intro doc' hd'
        simp only [mkFlight_doc] at hd'
        rw [hd] at hd'; injection hd' with hd'; subst hd'; rfl
  | remove c d pack =>
    simp only [step]
    generalize ha : remove s c d pack = res
    obtain ⟨s', out⟩ := res
    rcases remove_inv ha with ⟨e1, _⟩ | ⟨info, doc, hi, hact, _, hd, hf⟩
    · subst e1; exact h
    · obtain ⟨x, hx⟩ := finish_inv hf
      simp only [closerHolds, holds, entryOf_findClient hi] at hcl
      cases hcd : info.docs.get? d with
      | none => rw [hcd] at hcl; simp at hcl
      | some cd =>
        rw [hcd] at hcl
        refine sinv_pushPullC h hx (loaded := info) (by simpa using hi) (Or.inl (by simpa using honest_all hhon)) ?_
          (cd0 := cd) (cdS := cd) (by simpa using hcd) (by simpa using hcd) rfl rfl hcl hcl (by simp)
          (by simpa using hact)
        intro doc' hd'
        simp only [mkFlight_doc] at hd'
        rw [hd] at hd'; injection hd' with hd'; subst hd'; rfl

/-! ### stale requests and compactions -/

/-- a closing `PushPull` (detach / remove) on an entry that is not open, whose guard lets nothing
through: it fails, and neither a log nor a client row nor a presence option changes -/
theorem pushPull_closed_nopush {s s' : Server} {f : Flight} {x : Except ErrKind Flight} {loaded : Client} {cd0 : ClientDoc}
    (hpp : pushPull s f = (s', x)) (hc : s.findClient f.client = some loaded)
    (hst : f.status ≠ .attached) (hcd0 : f.info.docs.get? f.doc = some cd0) (hclosed : isOpenSt cd0.status = false)
    (hno : ∀ p, pushGuard s (stripped f) = .ok p → p = []) :
    (∀ d, storedLog s' d = storedLog s d) ∧ s'.clients = s.clients ∧ (∀ d, dpOf s' d = dpOf s d) := by
  cases x with
  | ok f' =>
    exfalso
    obtain ⟨_, _, _, _, _, r, _, _, _, _, _, _, hstatus, _⟩ := (pushPull_ppok hpp).ex
    obtain ⟨cd, hcd, _, hm⟩ := updateDocStatus_spec hstatus
    rw [hcd0] at hcd; injection hcd with hcd; subst hcd
    cases hs : f.status with
    | attached => exact hst hs
    | detached =>
      rw [hs] at hm; simp only [StatusPost] at hm
      rcases hm.2.1 with h | h <;> simp [isOpenSt, h] at hclosed
    | removed =>
      rw [hs] at hm; simp only [StatusPost] at hm
      rcases hm.2.1 with h | h <;> simp [isOpenSt, h] at hclosed
  | error e =>
    obtain ⟨hcl, _, _, _, hdocs⟩ := pushPull_err hpp hc
    rcases hdocs with hdd | ⟨doc, p, hfd, hg, hdd⟩
    · exact ⟨fun d => by simp only [storedLog, Server.findDoc, hdd], hcl, fun d => by simp only [dpOf, Server.findDoc, hdd]⟩
    · have := hno p hg; subst this
      refine ⟨?_, hcl, fun d => dpOf_docs_set hfd hdd rfl d⟩
      intro d
      rw [storedLog_docs_set hdd]
      by_cases hd : f.doc = d
      · rw [if_pos hd, ← hd, storedLog_findDoc hfd]; simp [pushedDoc, assignSeqs]
      · rw [if_neg hd]

/-- a sync / detach / remove of a stale client, with ANY pack, keeps the client-sequence invariant -/
theorem sinv_staleC (s : Server) (h : SInvC s) (req : Request) (hstale : staleReq s req = true) :
    SInvC (step s req).1 := by
  cases req with
  | activate => simp [staleReq] at hstale
  | deactivate c o => simp [staleReq] at hstale
  | attach c k p dp nogc => simp [staleReq] at hstale
  | pushpull c d pack po nogc =>
    obtain ⟨info0, doc0, cd, hi0, hd0, hcd, he⟩ := staleAt_inv (by simpa [staleReq] using hstale)
    simp only [step]
    generalize ha : pushpullReq s c d pack po nogc = res
    obtain ⟨s', out⟩ := res
    rcases pushpullReq_inv ha with ⟨e1, _⟩ | ⟨info, doc, hi, hact, hst, hd, hf⟩
    · subst e1; exact h
    · rw [hi0] at hi; injection hi with hi; subst hi
      rw [hd0] at hd; injection hd with hd; subst hd
      obtain ⟨x, hx⟩ := finish_inv hf
      obtain ⟨cd', hcd', hs⟩ := statusOf_some hst
      rw [hcd] at hcd'; injection hcd' with hcd'; subst hcd'
      refine sinv_pushPullC h hx (loaded := info0) (by simpa using hi0)
        (Or.inr (nopush_of_stale (by simpa using hd0) (by simpa using he))) ?_
        (cd0 := cd) (cdS := cd) (by simpa using hcd) (by simpa using hcd) rfl rfl (by simp [isOpenSt, hs])
        (by simp [isOpenSt, hs]) (by simpa using hs) (by simpa using hact)
      intro doc' hd'
      simp only [mkFlight_doc] at hd'
      rw [hd0] at hd'; injection hd' with hd'; subst hd'; rfl
  | detach c d pack =>
    obtain ⟨info0, doc0, cd, hi0, hd0, hcd, he⟩ := staleAt_inv (by simpa [staleReq] using hstale)
    simp only [step]
    generalize ha : detach s c d pack = res
    obtain ⟨s', out⟩ := res
    rcases detach_inv ha with ⟨e1, _⟩ | ⟨info, doc, hi, hact, _, hd, hf⟩
    · subst e1; exact h
    · rw [hi0] at hi; injection hi with hi; subst hi
      rw [hd0] at hd; injection hd with hd; subst hd
      obtain ⟨x, hx⟩ := finish_inv hf
      have hne := detachMode_status_ne' s c d pack
      have hno := nopush_of_stale (s := s)
        (f := mkFlight c d info0 (detachMode s c d pack).1 false (detachMode s c d pack).2 false doc0.disablePresence)
        (by simpa using hd0) (by simpa using he)
      cases hop : isOpenSt cd.status with
      | true =>
        refine sinv_pushPullC h hx (loaded := info0) (by simpa using hi0) (Or.inr hno) ?_
          (cd0 := cd) (cdS := cd) (by simpa using hcd) (by simpa using hcd) rfl rfl hop hop
          (by simpa using fun hx => absurd hx hne) (by simpa using hact)
        intro doc' hd'
        simp only [mkFlight_doc] at hd'
        rw [hd0] at hd'; injection hd' with hd'; subst hd'; rfl
      | false =>
        obtain ⟨h1, h2, h3⟩ := pushPull_closed_nopush hx (loaded := info0) (cd0 := cd) (by simpa using hi0)
          (by simpa using hne) (by simpa using hcd) hop hno
        exact h.of_eq h1 (fun c' d' => entryOf_of_clients_eq h2 c' d') (fun d' hd' => by rw [← h3]; exact hd')
  | remove c d pack =>
    obtain ⟨info0, doc0, cd, hi0, hd0, hcd, he⟩ := staleAt_inv (by simpa [staleReq] using hstale)
    simp only [step]
    generalize ha : remove s c d pack = res
    obtain ⟨s', out⟩ := res
    rcases remove_inv ha with ⟨e1, _⟩ | ⟨info, doc, hi, hact, _, hd, hf⟩
    · subst e1; exact h
    · rw [hi0] at hi; injection hi with hi; subst hi
      rw [hd0] at hd; injection hd with hd; subst hd
      obtain ⟨x, hx⟩ := finish_inv hf
      have hno := nopush_of_stale (s := s)
        (f := mkFlight c d info0 pack false .removed false doc0.disablePresence)
        (by simpa using hd0) (by simpa using he)
      cases hop : isOpenSt cd.status with
      | true =>
        refine sinv_pushPullC h hx (loaded := info0) (by simpa using hi0) (Or.inr hno) ?_
          (cd0 := cd) (cdS := cd) (by simpa using hcd) (by simpa using hcd) rfl rfl hop hop (by simp)
          (by simpa using hact)
        intro doc' hd'
        simp only [mkFlight_doc] at hd'
        rw [hd0] at hd'; injection hd' with hd'; subst hd'; rfl
      | false =>
        obtain ⟨h1, h2, h3⟩ := pushPull_closed_nopush hx (loaded := info0) (cd0 := cd) (by simpa using hi0)
          (by simp) (by simpa using hcd) hop hno
        exact h.of_eq h1 (fun c' d' => entryOf_of_clients_eq h2 c' d') (fun d' hd' => by rw [← h3]; exact hd')

/-- a compaction keeps the client-sequence invariant: no row of a client is left in that log -/
theorem sinv_compactC {α : Type} (sem : ContentSem α) (force : Bool) {s : Server} (h : SInvC s) (d : DocId)
    (hactor : ∀ doc, s.findDoc d = some doc → ∀ x ∈ sem.rebuild (sem.fold doc.log), x.actor = initialActorNo) :
    SInvC (compactDoc sem force s d).1 := by
  rcases compactDoc_cases sem force s d with ⟨e', he⟩ | ⟨doc0, h1, _, _, _, he⟩
  · rw [he]; exact h
  · rw [he]
    have hent : ∀ c d', entryOf (s.setDoc d (compactedDoc doc0 (compactRows (sem.rebuild (sem.fold doc0.log))))) c d' = entryOf s c d' := by
      intro c d'; simp [entryOf, Server.setDoc]
    have hlog : ∀ d', storedLog (s.setDoc d (compactedDoc doc0 (compactRows (sem.rebuild (sem.fold doc0.log))))) d' =
        if d = d' then compactRows (sem.rebuild (sem.fold doc0.log)) else storedLog s d' := by
      intro d'
      by_cases hdd : d = d'
      · subst hdd; simp [storedLog, setDoc_findDoc_self, compactedDoc]
      · simp [storedLog, setDoc_findDoc_ne s _ hdd, hdd]
    have hdpo : ∀ d', dpOf (s.setDoc d (compactedDoc doc0 (compactRows (sem.rebuild (sem.fold doc0.log))))) d' = dpOf s d' := by
      intro d'
      by_cases hdd : d = d'
      · subst hdd; simp [dpOf, setDoc_findDoc_self, compactedDoc, h1]
      · simp [dpOf, setDoc_findDoc_ne s _ hdd]
    have hphantom : ∀ r ∈ compactRows (sem.rebuild (sem.fold doc0.log)), r.actor = initialActorNo := by
      intro r hr
      simp only [compactRows, List.mem_map] at hr
      obtain ⟨x, hx, rfl⟩ := hr
      simpa [mkRow] using hactor doc0 h1 x hx
    have hown : ∀ c g, c ≠ initialActorNo →
        ownRows (s.setDoc d (compactedDoc doc0 (compactRows (sem.rebuild (sem.fold doc0.log))))) d c g = [] := by
      intro c g hn
      simp only [ownRows, hlog, if_true]
      rw [List.filter_eq_nil_iff]; intro r hr
      simp only [byGen, Bool.and_eq_true, beq_iff_eq, not_and]
      intro ha; exact absurd (ha.symm.trans (hphantom r hr)) hn
    refine ⟨?_, ?_⟩
    · intro c d' g hn hd
      by_cases hdd : d = d'
      · subst hdd; rw [hown c g hn]; exact ⟨1, 0, by simp [csOf]⟩
      · simp only [ownRows, hlog, hdd, if_false]; rw [hdpo] at hd; exact h.runs c d' g hn hd
    · intro c d' cd hn hd hcd ho
      rw [hent] at hcd; rw [hdpo] at hd
      by_cases hdd : d = d'
      · subst hdd; rw [hown c cd.gen hn]; exact ⟨0, Nat.zero_le _, by simp [csOf]⟩
      · simp only [ownRows, hlog, hdd, if_false]; exact h.cur c d' cd hn hd hcd ho

theorem wbRunC_sinvC {α : Type} (sem : ContentSem α) (hsem : SemInitialActor sem) {s0 : Server} {g0 : Ghost}
    (h0 : DInv s0 g0) (hg0 : GInvC s0) (hs0 : SInvC s0) (evs : List EvC) (hok : attachersOk evs)
    {s : Server} {g : Ghost} (h : wbRunC sem s0 g0 evs = some (s, g)) : SInvC s := by
  induction evs generalizing s0 g0 with
  | nil => simp only [wbRunC] at h; injection h with h; injection h with h1 h2; subst h1; exact hs0
  | cons ev rest ih =>
    cases ev with
    | wb req lost =>
      simp only [wbRunC] at h
      simp only [attachersOk] at hok
      split at h
      · next hc =>
        simp only [Bool.and_eq_true] at hc
        have hns : ∀ r, (step s0 req).2 = .ok r → r.snapshot = false := by
          intro r hr
          have := hc.2
          rw [hr] at this
          simpa [noSnap] using this
        exact ih (dinv_step h0 req lost hc.1 hns)
          (ginv_stepC s0 h0.wf hg0 req (wbReq_honest hc.1).1 (wbReq_honest hc.1).2 hok.1)
          (gs_stepC s0 h0.wf hg0 hs0 req (wbReq_honest hc.1).1 (wbReq_closerHolds hc.1) hok.1) hok.2 h
      · simp at h
    | stale req =>
      simp only [wbRunC] at h
      simp only [attachersOk] at hok
      split at h
      · next hc =>
        exact ih (dinv_ignored h0 req (staleReq_kind hc)) (ginv_staleC s0 hg0 req hc) (sinv_staleC s0 hs0 req hc) hok h
      · simp at h
    | compact d force =>
      simp only [wbRunC] at h
      simp only [attachersOk] at hok
      exact ih (dinv_compact sem force h0 d) (ginv_compactC sem force hg0 d (fun doc _ => hsem _))
        (sinv_compactC sem force hs0 d (fun doc _ => hsem _)) hok h

end Yorkie.Server
