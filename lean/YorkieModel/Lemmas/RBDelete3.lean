/- Top-level delete of the LLRB core. -/
import YorkieModel.Lemmas.RBDelete2
namespace Yorkie.RB
open T

variable {α Q β : Type} {cfg : Cfg α Q} {key : α → β} {Tgt : T α → Q → Nat → Prop}

/-- a red-black tree with black root -/
def RBInv (t : T α) : Prop := LL t ∧ Bal t ∧ t.isRed = false

instance (t : T α) : Decidable (RBInv t) := by unfold RBInv; infer_instance

theorem delete_good (hk : KeyOK cfg key) (ns : NavSpec cfg Tgt) {t : T α} {q : Q} {i : Nat}
    (htg : Tgt t q i) (hi : RBInv t) :
    RBInv (delete cfg t q) ∧ klist key (delete cfg t q) = (klist key t).eraseIdx i := by
  obtain ⟨hl, hb, hr⟩ := hi
  rcases t with _ | ⟨l, a, c, r⟩
  · have := ns.bound htg; simp at this
  simp at hr; subst hr
  simp only [delete]
  have hrb : r.isRed = false := hl.2.2.1
  have key1 : ∀ t0 : T α, t0.size = (node l a false r).size → Tgt t0 q i → Bal t0 →
      (LL t0 ∧ (t0.isRed = true ∨ t0.left.isRed = true)) → klist key t0 = klist key (node l a false r) →
      RBInv (del cfg ((node l a false r).size + 1) t0 q).blacken ∧
      klist key (del cfg ((node l a false r).size + 1) t0 q).blacken = (klist key (node l a false r)).eraseIdx i := by
    intro t0 hs0 ht0 hb0 hp0 hk0
    obtain ⟨⟨p1, p2, -, -⟩, p3⟩ := del_good (key := key) hk ns ((node l a false r).size + 1) t0 q i (by omega) ht0 hb0 (.inl hp0)
    exact ⟨⟨LL_blacken (LLroot_of_LL p1), Bal_blacken p2, isRed_blacken _⟩, by rw [klist_blacken, p3, hk0]⟩
  cases hlr : l.isRed with
  | true =>
    simp only [hrb, Bool.not_true, Bool.false_and, Bool.false_eq_true, if_false]
    exact key1 _ rfl htg hb ⟨hl, .inr (by simpa using hlr)⟩ rfl
  | false =>
    simp only [hrb, Bool.not_false, Bool.and_self, if_true]
    refine key1 (node l a true r) rfl (ns.recolor true htg) (by simpa using hb) ⟨?_, .inl rfl⟩ (by simp)
    simp only [LL_node] at hl ⊢
    exact ⟨hl.1, hl.2.1, hrb, fun _ => hlr⟩

end Yorkie.RB
